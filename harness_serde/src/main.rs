// Serialisation transparency (engine `serde`): the crate's optional `serde_support` feature derives
// Serialize/Deserialize for its public values (OTI, payload ids, packets, encoders, plans, decoders).
// A value restored from its serialised form must behave exactly like the value it was made from
// (C04: the packets an encoder emits are the RFC's symbols whatever happened to the encoder value;
// C07: results depend only on the inputs; C08: a copied decoder continues exactly like the original).
// Output: one line per case; a line starting with `viol ` names a failing input.
#[path = "../../harness/src/workload.rs"]
#[allow(dead_code)]
mod workload;
use raptorq::{
    Decoder, Encoder, EncoderBuilder, EncodingPacket, ObjectTransmissionInformation, PayloadId,
    SourceBlockDecoder, SourceBlockEncoder, SourceBlockEncodingPlan,
};
use serde::{de::DeserializeOwned, Serialize};
use workload::Wr;

fn rt<T: Serialize + DeserializeOwned>(v: &T) -> T {
    let s = serde_json::to_string(v).expect("serialise");
    serde_json::from_str(&s).expect("deserialise")
}

fn ser(ps: &[EncodingPacket]) -> Vec<Vec<u8>> { ps.iter().map(|p| p.serialize()).collect() }

fn main() {
    let args: Vec<String> = std::env::args().collect();
    let quick = args.get(1).map(|s| s == "quick").unwrap_or(true);
    let seed: u64 = args.get(2).and_then(|s| s.parse().ok()).unwrap_or(1);
    let mut r = Wr(seed ^ 0x5e7de);
    let mut viol = 0usize;
    let mut cases = 0usize;
    macro_rules! check { ($cond:expr, $($arg:tt)*) => {{ cases += 1; if !$cond { viol += 1; println!("viol {}", format!($($arg)*)); } }}; }

    // 1. plain values
    for _ in 0..200 {
        let sbn = r.below(256) as u8;
        let esi = [0u32, 1, 255, 256, 65535, 65536, (1 << 24) - 1][r.below(7) as usize] ^ (r.below(4) as u32);
        let esi = esi.min((1 << 24) - 1);
        let pid = PayloadId::new(sbn, esi);
        check!(rt(&pid) == pid, "PayloadId({sbn},{esi}) changes in a serde round trip");
        let len = r.below(70) as usize;
        let data: Vec<u8> = (0..len).map(|_| r.next() as u8).collect();
        let pkt = EncodingPacket::new(pid.clone(), data);
        check!(rt(&pkt) == pkt, "EncodingPacket({sbn},{esi},len {len}) changes in a serde round trip");
        let t = 8 * (1 + r.below(100)) as u16;
        let z = (1 + r.below(255)) as u8;
        let f = 1 + r.below((t as u64 * z as u64 * 56403).min(1 << 36));
        let n = 1 + r.below(3) as u16;
        let oti = ObjectTransmissionInformation::new(f, t, z, n, 8);
        let o2 = rt(&oti);
        check!(o2 == oti && o2.serialize() == oti.serialize(), "OTI({f},{t},{z},{n},8) changes in a serde round trip");
    }

    // 2. encoders: block encoder (fresh, planned), object encoder, builder, plan
    let ks: Vec<u32> = if quick { vec![1, 9, 10, 11, 26, 60, 101, 257] } else { vec![1, 2, 9, 10, 11, 12, 26, 47, 60, 100, 101, 257, 300, 511, 1000] };
    for &k in &ks {
        for &t in &[8u16, 24, 72] {
            let f = k as u64 * t as u64 - r.below(t as u64 / 2);
            let data: Vec<u8> = (0..f).map(|_| r.next() as u8).collect();
            let cfg = ObjectTransmissionInformation::new(f, t, 1, 1, 8);
            let mut padded = data.clone();
            padded.resize(k as usize * t as usize, 0);
            let sbe = SourceBlockEncoder::new(3, &cfg, &padded);
            let start = [0u32, 1, 1000, (1 << 24) - 50 - k][r.below(4) as usize];
            let want_src = ser(&sbe.source_packets());
            let want_rep = ser(&sbe.repair_packets(start, 12));
            let sbe2: SourceBlockEncoder = rt(&sbe);
            check!(ser(&sbe2.source_packets()) == want_src, "SourceBlockEncoder(K={k},T={t}) restored from serde emits different source packets");
            check!(ser(&sbe2.repair_packets(start, 12)) == want_rep, "SourceBlockEncoder(K={k},T={t}) restored from serde emits different repair packets (start {start})");
            // twice restored, and restored clone
            let sbe3: SourceBlockEncoder = rt(&sbe2.clone());
            check!(ser(&sbe3.repair_packets(start, 12)) == want_rep, "SourceBlockEncoder(K={k},T={t}) restored twice emits different repair packets (start {start})");
            // explicit plan through serde
            let plan = SourceBlockEncodingPlan::generate(k as u16);
            let plan2: SourceBlockEncodingPlan = rt(&plan);
            let sbe4 = SourceBlockEncoder::with_encoding_plan(3, &cfg, &padded, &plan2);
            check!(ser(&sbe4.repair_packets(start, 12)) == want_rep, "a plan for K={k} restored from serde gives different repair packets (T={t}, start {start})");
            let sbe5: SourceBlockEncoder = rt(&sbe4);
            check!(ser(&sbe5.repair_packets(start, 12)) == want_rep, "planned SourceBlockEncoder(K={k},T={t}) restored from serde emits different repair packets");
            // object encoder
            let enc = Encoder::new(&data, cfg);
            let want = ser(&enc.get_encoded_packets(7));
            let enc2: Encoder = rt(&enc);
            check!(enc2.get_config() == enc.get_config(), "Encoder(K={k},T={t}) restored from serde reports another configuration");
            check!(ser(&enc2.get_encoded_packets(7)) == want, "Encoder(K={k},T={t}) restored from serde emits different packets");
            for (b, b2) in enc.get_block_encoders().iter().zip(enc2.get_block_encoders()) {
                check!(ser(&b.repair_packets(start, 5)) == ser(&b2.repair_packets(start, 5)), "block encoder of Encoder(K={k},T={t}) restored from serde emits different repair packets");
            }
            // block decoder restored in mid-stream continues like the original
            let all: Vec<EncodingPacket> = sbe.source_packets().into_iter().chain(sbe.repair_packets(start, (k + 14).min(45))).collect();
            let mut order: Vec<usize> = (0..all.len()).collect();
            for i in (1..order.len()).rev() { let j = r.below(i as u64 + 1) as usize; order.swap(i, j); }
            let drop = 1 + r.below(3.min(k as u64)) as usize; // source symbols withheld so that the solver is needed
            let feed: Vec<&EncodingPacket> = order.iter().map(|&i| &all[i]).filter(|p| (p.payload_id().encoding_symbol_id() as usize) >= drop || p.payload_id().encoding_symbol_id() >= k).collect();
            let cut = r.below(feed.len() as u64 + 1) as usize;
            let mut d1 = SourceBlockDecoder::new(3, &cfg, k as u64 * t as u64);
            let mut ans1 = vec![];
            for p in &feed[..cut] { ans1.push(d1.decode(std::iter::once((*p).clone()))); }
            let mut d2: SourceBlockDecoder = rt(&d1);
            for p in &feed[cut..] {
                let a = d1.decode(std::iter::once((*p).clone()));
                let b = d2.decode(std::iter::once((*p).clone()));
                check!(a == b, "SourceBlockDecoder(K={k},T={t}) restored from serde after {cut} packets answers differently at ESI {}", p.payload_id().encoding_symbol_id());
                if a != b { break; }
                if let Some(x) = &a { check!(x == &padded, "SourceBlockDecoder(K={k},T={t}) returns wrong bytes"); }
            }
        }
    }

    // 3. object decoders restored in mid-stream (several blocks, sub-blocks), builder round trip
    for c in workload::cases(seed, quick) {
        let cfg = ObjectTransmissionInformation::new(c.f, c.t, c.z, c.n, c.al);
        let enc = Encoder::new(&c.data, cfg);
        let mut ps = enc.get_encoded_packets(c.repair + 3);
        for i in (1..ps.len()).rev() { let j = r.below(i as u64 + 1) as usize; ps.swap(i, j); }
        let ps: Vec<EncodingPacket> = ps.into_iter().enumerate().filter(|(i, _)| i % 6 != 1).map(|(_, p)| p).collect();
        let cut = r.below(ps.len() as u64 + 1) as usize;
        let mut d1 = Decoder::new(cfg);
        for p in &ps[..cut] { d1.decode(p.clone()); }
        let mut d2: Decoder = rt(&d1);
        let mut d3: Decoder = rt(&d1);
        for p in &ps[cut..] {
            let a = d1.decode(p.clone());
            let b = d2.decode(p.clone());
            d3.add_new_packet(p.clone());
            let c3 = d3.get_result();
            check!(a == b && a == c3, "Decoder(F={},T={},Z={},N={},Al={}) restored from serde after {cut} packets answers differently", c.f, c.t, c.z, c.n, c.al);
            if let Some(x) = &a { check!(x == &c.data, "Decoder(F={},T={},Z={},N={}) returns wrong bytes", c.f, c.t, c.z, c.n); }
            if a != b { break; }
        }
        let enc2: Encoder = rt(&enc);
        check!(ser(&enc2.get_encoded_packets(c.repair)) == ser(&enc.get_encoded_packets(c.repair)), "Encoder(F={},T={},Z={},N={},Al={}) restored from serde emits different packets", c.f, c.t, c.z, c.n, c.al);
    }
    let mut b = EncoderBuilder::new();
    b.set_max_packet_size(500);
    b.set_decoder_memory_requirement(5000);
    let mut b2: EncoderBuilder = rt(&b);
    let data: Vec<u8> = (0..10_000).map(|_| r.next() as u8).collect();
    check!(b.build(&data).get_config() == b2.build(&data).get_config(), "EncoderBuilder restored from serde derives other parameters");
    let _ = &mut b2;
    println!("serde cases {cases} violations {viol}");
}
