import Rq.Model.Oracle
import Rq.Model.Plan
/-!
Shared definitions for the codec theorems (C01 C02 C04 C06 C08 C09 C18): well-formed symbol
vectors, the linear systems of the model, "the received symbols determine the intermediate
symbols", the specification every linear solver has to meet, genuine packets.
-/
namespace Rq

def IsBytes (l : List Nat) : Prop := ∀ x ∈ l, x < 256

/-- a symbol of `t` bytes -/
def WfSym (t : Nat) (s : Sym) : Prop := s.length = t ∧ IsBytes s

/-- `l` symbols of `t` bytes each -/
def WfInter (l t : Nat) (c : Inter) : Prop := c.size = l ∧ ∀ i, i < l → WfSym t (c.getD i [])

/-- the full constraint system A(K', isis): S LDPC rows, H HDPC rows, one G_ENC row per isi -/
def fullSystem (sp : SysParams) (isis : List Nat) : Option System :=
  (constraintMatrix sp isis).map fun (bin, hd) => { l := sp.l, bin, nLdpc := sp.s, hdpc := hd }

/-- the binary-only system used by the decoder's fast path -/
def binSystem (sp : SysParams) (isis : List Nat) : Option System :=
  (constraintMatrixNoHdpc sp isis).map fun bin => { l := sp.l, bin, nLdpc := sp.s, hdpc := #[] }

def System.rows (a : System) : Nat := a.bin.size + a.hdpc.size

/-- **Determined**: the only byte vector annihilated by every row is 0, i.e. the matrix has full
column rank over GF(256) (stated on one byte column; symbols are independent byte columns) -/
def Determined (a : System) : Prop :=
  ∀ z : Inter, WfInter a.l 1 z → (∀ s ∈ a.apply z 1, s = [0]) → ∀ i, i < a.l → z.getD i [] = [0]

/-- right-hand sides: `rows` symbols of `t` bytes -/
def WfRhs (a : System) (t : Nat) (d : List Sym) : Prop := d.length = a.rows ∧ ∀ s ∈ d, WfSym t s

/-- there is a vector of intermediate symbols producing `d` -/
def Consistent (a : System) (t : Nat) (d : List Sym) : Prop := ∃ c, WfInter a.l t c ∧ a.apply c t = d

/-- What a linear solver must do on consistent right-hand sides: answer exactly when the system
is determined, and then with a solution. Everything about decoding is proved for an arbitrary
solver meeting this specification. The systems are those of the codec: `sp` are the parameters of
some block size `k` (`sysParams k = some sp`) and the internal symbol ids are 32-bit values (the
code's `u32`); every use in the codec supplies both. -/
structure SolverSpec (sv : Solver) : Prop where
  full_solved : ∀ k sp isis a t d c, sysParams k = some sp → (∀ x ∈ isis, x < 2 ^ 32) →
    fullSystem sp isis = some a → 0 < t → WfRhs a t d → Consistent a t d →
    sv.full sp isis d = .solved c → WfInter a.l t c ∧ a.apply c t = d ∧ Determined a
  full_singular : ∀ k sp isis a t d, sysParams k = some sp → (∀ x ∈ isis, x < 2 ^ 32) →
    fullSystem sp isis = some a → 0 < t → WfRhs a t d → Consistent a t d →
    sv.full sp isis d = .singular → ¬ Determined a
  full_answers : ∀ k sp isis a t d, sysParams k = some sp → (∀ x ∈ isis, x < 2 ^ 32) →
    fullSystem sp isis = some a → 0 < t → WfRhs a t d → Consistent a t d →
    sv.full sp isis d ≠ .oracleError
  bin_solved : ∀ k sp isis a t d c, sysParams k = some sp → (∀ x ∈ isis, x < 2 ^ 32) →
    binSystem sp isis = some a → 0 < t → WfRhs a t d → Consistent a t d →
    sv.noHdpc sp isis d = .solved c → WfInter a.l t c ∧ a.apply c t = d ∧ Determined a
  bin_answers : ∀ k sp isis a t d, sysParams k = some sp → (∀ x ∈ isis, x < 2 ^ 32) →
    binSystem sp isis = some a → 0 < t → WfRhs a t d → Consistent a t d →
    sv.noHdpc sp isis d ≠ .oracleError

/-- pointwise operations on symbol vectors -/
def xorInter (a b : Inter) : Inter := Array.zipWith xorSym a b
def mulInter (k : Nat) (a : Inter) : Inter := a.map (mulSym k)
/-- byte column j of every symbol, as one-byte symbols -/
def colInter (j : Nat) (a : Inter) : Inter := a.map fun s => [s.getD j 0]
def colSyms (j : Nat) (l : List Sym) : List Sym := l.map fun s => [s.getD j 0]

/-- a block encoder whose intermediate symbols solve the standard system for its source symbols -/
structure GoodEnc (e : BlockEnc) (t : Nat) : Prop where
  t_pos : 0 < t
  t_eq : e.t = t
  params : sysParams e.k = some e.sp
  src_wf : ∀ s ∈ e.src, WfSym t s
  c_wf : WfInter e.sp.l t e.c
  solves : ∃ a, fullSystem e.sp (List.range e.sp.kp) = some a ∧ a.apply e.c t = createD e.sp t e.src
  unique : ∃ a, fullSystem e.sp (List.range e.sp.kp) = some a ∧ Determined a

/-- a packet the encoder `e` produces: a source packet or a repair packet of any repair index -/
def Genuine (e : BlockEnc) (p : Packet) : Prop :=
  (∃ i, i < e.k ∧ p = ⟨⟨e.sbn, i⟩, e.src.getD i []⟩) ∨ (∃ r, e.repairPacket r = some p)

end Rq
