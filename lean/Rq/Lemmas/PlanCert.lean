import Rq.Thm.C09
/-! Helper lemmas for `Rq.C06.plan_certificate`: reading the logical symbols off a slab
(`Slab.readOut`) commutes with the pointwise operations, replay preserves layout and
well-formedness, `System.apply` is homogeneous, `createD` is homogeneous, symbols are determined by
their byte columns, and the span argument: a plan valid for the unit one-byte blocks is valid for
every one-byte block, hence (column by column) for every block of every symbol size. -/
namespace Rq
open Rq.C09

/-! ### `mapM` plumbing -/

theorem mapM_option_map {α β γ : Type} (f : α → Option β) (g : β → γ) (l : List α) :
    (l.mapM fun x => (f x).map g) = (l.mapM f).map (List.map g) := by
  induction l with
  | nil => rfl
  | cons a l ih =>
    rw [mapM_option_cons, mapM_option_cons, ih]
    cases f a <;> simp
    cases l.mapM f <;> simp

/-! ### reading the `l` logical symbols -/

def Slab.readOut (s : Slab) (l : Nat) : Option Inter := ((List.range l).mapM s.get?).map List.toArray

theorem replayPlan_eq (sp : SysParams) (t : Nat) (src : List Sym) (ops : List SymOp) :
    replayPlan sp t src ops =
      (Slab.run { syms := (createD sp t src).toArray, mapping := none } ops).bind fun s => s.readOut sp.l := by
  unfold replayPlan
  cases Slab.run { syms := (createD sp t src).toArray, mapping := none } ops <;> rfl

theorem Slab.readOut_eq_some_iff (s : Slab) (l : Nat) (c : Inter) :
    s.readOut l = some c ↔ c.size = l ∧ ∀ i, i < l → s.get? i = c[i]? := by
  unfold Slab.readOut
  constructor
  · intro h
    obtain ⟨r, hr, rfl⟩ := Option.map_eq_some_iff.mp h
    obtain ⟨h1, h2⟩ := (mapM_range_eq_some_iff _ _ _).mp hr
    refine ⟨by simpa using h1, fun i hi => ?_⟩
    rw [h2 i hi]
    simp
  · rintro ⟨h1, h2⟩
    apply Option.map_eq_some_iff.mpr
    refine ⟨c.toList, (mapM_range_eq_some_iff _ _ _).mpr ⟨by simpa using h1, fun i hi => ?_⟩, by simp⟩
    rw [h2 i hi]
    simp

theorem Slab.get?_map (f : Sym → Sym) (r : Slab) (i : Nat) :
    ({ syms := r.syms.map f, mapping := r.mapping } : Slab).get? i = (r.get? i).map f := by
  have hp : ({ syms := r.syms.map f, mapping := r.mapping } : Slab).phys i = r.phys i := rfl
  unfold Slab.get?
  rw [hp]
  cases r.phys i with
  | none => rfl
  | some p => simp

theorem Slab.readOut_map (f : Sym → Sym) (r : Slab) (l : Nat) :
    ({ syms := r.syms.map f, mapping := r.mapping } : Slab).readOut l = (r.readOut l).map (Array.map f) := by
  unfold Slab.readOut
  have : ({ syms := r.syms.map f, mapping := r.mapping } : Slab).get? = fun i => (r.get? i).map f :=
    funext fun i => Slab.get?_map f r i
  rw [this, mapM_option_map]
  cases (List.range l).mapM r.get? <;> simp

theorem readOut_colSlab (j : Nat) (r : Slab) (l : Nat) :
    (colSlab j r).readOut l = (r.readOut l).map (colInter j) :=
  Slab.readOut_map (fun s : Sym => [s.getD j 0]) r l

theorem readOut_mulSlab (k : Nat) (r : Slab) (l : Nat) :
    (mulSlab k r).readOut l = (r.readOut l).map (mulInter k) :=
  Slab.readOut_map (mulSym k) r l

theorem readOut_xorSlab (r r' : Slab) (h : SameLayout r r') (l : Nat) (c c' : Inter)
    (hc : r.readOut l = some c) (hc' : r'.readOut l = some c') :
    (xorSlab r r').readOut l = some (xorInter c c') := by
  obtain ⟨h1, h2⟩ := (Slab.readOut_eq_some_iff _ _ _).mp hc
  obtain ⟨h1', h2'⟩ := (Slab.readOut_eq_some_iff _ _ _).mp hc'
  refine (Slab.readOut_eq_some_iff _ _ _).mpr ⟨by rw [xorInter_size, h1, h1', Nat.min_self], fun i hi => ?_⟩
  have e1 := h2 i hi
  have e2 := h2' i hi
  have hp : (xorSlab r r').phys i = r.phys i := rfl
  have hp' : r'.phys i = r.phys i := by simp only [Slab.phys, h.1]
  unfold Slab.get? at e1 e2 ⊢
  rw [hp'] at e2
  rw [hp]
  cases hph : r.phys i with
  | none =>
    rw [hph] at e1
    rw [Array.getElem?_eq_getElem (by omega)] at e1
    cases e1
  | some p =>
    rw [hph] at e1 e2
    simp only [xorSlab, xorInter, Array.getElem?_zipWith] at e1 e2 ⊢
    rw [e1, e2]

/-! ### replay preserves layout and well-formedness -/

theorem run_sameLayout (ops : List SymOp) (s s' r r' : Slab) (h : SameLayout s s')
    (hr : s.run ops = some r) (hr' : s'.run ops = some r') : SameLayout r r' := by
  induction ops generalizing s s' with
  | nil => cases hr; cases hr'; exact h
  | cons op rest ih =>
    rw [Slab.run_cons] at hr hr'
    obtain ⟨s1, hs1, hr⟩ := Option.bind_eq_some_iff.mp hr
    obtain ⟨s1', hs1', hr'⟩ := Option.bind_eq_some_iff.mp hr'
    rw [Slab.apply_eq] at hs1 hs1'
    obtain ⟨⟨d, q⟩, hloc, rfl⟩ := Option.map_eq_some_iff.mp hs1
    rw [← Slab.locate_congr s s' h.1 h.2, hloc] at hs1'
    cases hs1'
    exact ih _ _ (h.write op d q) hr hr'

theorem run_allWf (ops : List SymOp) (hok : ∀ op ∈ ops, opOk op) (t : Nat) (s r : Slab) (hw : AllWf t s)
    (hr : s.run ops = some r) : AllWf t r := by
  induction ops generalizing s with
  | nil => cases hr; exact hw
  | cons op rest ih =>
    rw [Slab.run_cons] at hr
    obtain ⟨s1, hs1, hr⟩ := Option.bind_eq_some_iff.mp hr
    rw [Slab.apply_eq] at hs1
    obtain ⟨⟨d, q⟩, hloc, rfl⟩ := Option.map_eq_some_iff.mp hs1
    exact ih (fun o ho => hok o (List.mem_cons_of_mem _ ho)) _
      (AllWf.write hw op (hok op List.mem_cons_self) d q (Slab.locate_lt s op d q hloc)) hr

theorem allWf_of_list (t : Nat) (L : List Sym) (h : ∀ s ∈ L, WfSym t s) (m : Option (List Nat)) :
    AllWf t { syms := L.toArray, mapping := m } := by
  intro i hi
  have hi' : i < L.length := by simpa using hi
  have : L.toArray.getD i [] = L[i] := by
    rw [Array.getD_eq_getD_getElem?]
    simp [hi']
  rw [show ({ syms := L.toArray, mapping := m } : Slab).syms = L.toArray from rfl, this]
  exact h _ (List.getElem_mem hi')

theorem readOut_wf (t l : Nat) (r : Slab) (hw : AllWf t r) (c : Inter) (hc : r.readOut l = some c) :
    WfInter l t c := by
  obtain ⟨h1, h2⟩ := (Slab.readOut_eq_some_iff _ _ _).mp hc
  refine ⟨h1, fun i hi => ?_⟩
  have e := h2 i hi
  rw [Array.getElem?_eq_getElem (by omega)] at e
  unfold Slab.get? at e
  cases hph : r.phys i with
  | none => rw [hph] at e; cases e
  | some p =>
    rw [hph] at e
    simp only at e
    have hp : p < r.syms.size := by
      by_contra hn
      rw [Array.getElem?_eq_none (by omega)] at e
      cases e
    have := hw p hp
    rw [Array.getD_eq_getD_getElem?, e] at this
    rw [Array.getD_eq_getD_getElem?, Array.getElem?_eq_getElem (by omega)]
    exact this

/-! ### `System.apply` is homogeneous -/

theorem getD_mulInter_zero (k t : Nat) (a : Inter) (i : Nat) :
    (mulInter k a).getD i (zeroSym t) = mulSym k (a.getD i (zeroSym t)) := by
  have := getD_map_array (mulSym k) a i (zeroSym t)
  rwa [mulSym_zeroSym] at this

theorem evalBinRow_mul (cols : List Nat) (k : Nat) (hk : k < 256) (l t : Nat) (c : Inter) (hc : WfInter l t c) :
    evalBinRow cols (mulInter k c) t = mulSym k (evalBinRow cols c t) := by
  rw [evalBinRow_eq, evalBinRow_eq]
  have := foldXor_mul k hk c (zeroSym t) (zeroSym t) (getD_mulInter_zero k t c)
    (fun i => (hc.getD_zero i).2) cols (zeroSym t) (wfSym_zeroSym t).2
  rwa [mulSym_zeroSym] at this

theorem denseTerm_mul (row : Array Nat) (k : Nat) (hk : k < 256) (t : Nat) (c : Inter) (l : Nat)
    (hc : WfInter l t c) (hrow : ∀ v ∈ row.toList, v < 256) (acc : Sym) (hacc : IsBytes acc) (j : Nat)
    (hj : j < row.size) :
    denseTerm row (mulInter k c) t (mulSym k acc) j = mulSym k (denseTerm row c t acc j) := by
  have hv : row.getD j 0 < 256 := by
    apply hrow
    rw [Array.getD_eq_getD_getElem?, Array.getElem?_eq_getElem hj]
    simp
  unfold denseTerm
  by_cases h0 : (row.getD j 0 != 0) = true
  · simp only [if_pos h0, getD_mulInter_zero]
    by_cases h1 : (row.getD j 0 == 1) = true
    · simp only [if_pos h1]
      exact (mulSym_xorSym k hk _ _ hacc (hc.getD_zero j).2).symm
    · simp only [if_neg h1, scaleSym_eq]
      rw [mulSym_xorSym k hk _ _ hacc (isBytes_mulSym _ hv _ (hc.getD_zero j).2),
        mulSym_mulSym k _ hk hv _ (hc.getD_zero j).2]
  · simp only [if_neg h0]

theorem evalDenseRow_mul (row : Array Nat) (k : Nat) (hk : k < 256) (t : Nat) (c : Inter) (l : Nat)
    (hc : WfInter l t c) (hrow : ∀ v ∈ row.toList, v < 256) :
    evalDenseRow row (mulInter k c) t = mulSym k (evalDenseRow row c t) := by
  rw [evalDenseRow_eq, evalDenseRow_eq]
  have key : ∀ (js : List Nat), (∀ j ∈ js, j < row.size) → ∀ acc : Sym, WfSym t acc →
      js.foldl (denseTerm row (mulInter k c) t) (mulSym k acc) =
        mulSym k (js.foldl (denseTerm row c t) acc) := by
    intro js
    induction js with
    | nil => intros; rfl
    | cons j js ih =>
      intro hjs acc hacc
      simp only [List.foldl_cons]
      rw [denseTerm_mul row k hk t c l hc hrow acc hacc.2 j (hjs j List.mem_cons_self)]
      exact ih (fun i hi => hjs i (List.mem_cons_of_mem _ hi)) _
        (denseTerm_wf row t c l hc hrow acc hacc j (hjs j List.mem_cons_self))
  have := key (List.range row.size) (fun j hj => List.mem_range.mp hj) (zeroSym t) (wfSym_zeroSym t)
  rwa [mulSym_zeroSym] at this

theorem System.apply_mul (a : System) (k : Nat) (hk : k < 256) (t : Nat) (c : Inter) (hc : WfInter a.l t c)
    (hh : ∀ row ∈ a.hdpc.toList, ∀ v ∈ row.toList, v < 256) :
    a.apply (mulInter k c) t = (a.apply c t).map (mulSym k) := by
  rw [System.apply_eq, System.apply_eq]
  simp only [List.map_append, List.map_map]
  congr 1
  · congr 1
    · exact List.map_congr_left fun cols _ => evalBinRow_mul cols k hk a.l t c hc
    · exact List.map_congr_left fun row hrow => evalDenseRow_mul row k hk t c a.l hc (hh row hrow)
  · exact List.map_congr_left fun cols _ => evalBinRow_mul cols k hk a.l t c hc

theorem WfInter.mul {l t k : Nat} (hk : k < 256) {c : Inter} (hc : WfInter l t c) :
    WfInter l t (mulInter k c) := by
  refine ⟨by rw [mulInter_size, hc.1], fun i hi => ?_⟩
  rw [getD_mulInter]
  exact (hc.2 i hi).mul hk

/-! ### `createD` -/

theorem createD_mul (sp : SysParams) (t k : Nat) (src : List Sym) :
    createD sp t (src.map (mulSym k)) = (createD sp t src).map (mulSym k) := by
  unfold createD
  simp only [List.map_append, List.map_replicate, List.length_map, mulSym_zeroSym]

theorem createD_wf (sp : SysParams) (t : Nat) (src : List Sym) (h : ∀ s ∈ src, WfSym t s) :
    ∀ s ∈ createD sp t src, WfSym t s := by
  intro s hs
  unfold createD at hs
  simp only [List.mem_append, List.mem_replicate] at hs
  rcases hs with (⟨_, rfl⟩ | hs) | ⟨_, rfl⟩
  · exact wfSym_zeroSym t
  · exact h s hs
  · exact wfSym_zeroSym t

theorem createD_length (sp : SysParams) (t : Nat) (src : List Sym) :
    (createD sp t src).length = sp.s + sp.h + src.length + (sp.kp - src.length) := by
  simp only [createD, List.length_append, List.length_replicate]

/-! ### symbols are determined by their byte columns -/

theorem syms_ext_cols (t : Nat) (ht : 0 < t) (A B : List Sym) (hA : ∀ s ∈ A, s.length = t)
    (hB : ∀ s ∈ B, s.length = t) (h : ∀ j, j < t → colSyms j A = colSyms j B) : A = B := by
  have hl : A.length = B.length := by
    have := congrArg List.length (h 0 ht)
    simpa [colSyms] using this
  apply List.ext_getElem hl
  intro n h1 h2
  have la := hA _ (List.getElem_mem h1)
  have lb := hB _ (List.getElem_mem h2)
  apply sym_ext_getD _ _ (by rw [la, lb])
  intro j hj
  rw [la] at hj
  have := congrArg (fun L => L[n]?) (h j hj)
  simp only [colSyms, List.getElem?_map, List.getElem?_eq_getElem h1, List.getElem?_eq_getElem h2,
    Option.map_some, Option.some.injEq, List.cons.injEq, and_true] at this
  exact this

/-! ### validity of a plan for given data, relative to a fixed system `a` -/

def PlanValid (sp : SysParams) (a : System) (ops : List SymOp) (t : Nat) (src : List Sym) : Prop :=
  ∃ c, replayPlan sp t src ops = some c ∧ WfInter sp.l t c ∧ a.apply c t = createD sp t src

/-- the slab replay starts from -/
def slab0 (sp : SysParams) (t : Nat) (src : List Sym) : Slab :=
  { syms := (createD sp t src).toArray, mapping := none }

theorem replayPlan_eq_some (sp : SysParams) (t : Nat) (src : List Sym) (ops : List SymOp) (c : Inter) :
    replayPlan sp t src ops = some c ↔ ∃ r, (slab0 sp t src).run ops = some r ∧ r.readOut sp.l = some c := by
  rw [replayPlan_eq]
  exact Option.bind_eq_some_iff

theorem slab0_allWf (sp : SysParams) (t : Nat) (src : List Sym) (h : ∀ s ∈ src, WfSym t s) :
    AllWf t (slab0 sp t src) :=
  allWf_of_list t _ (createD_wf sp t src h) none

theorem slab0_layout (sp : SysParams) (t t' : Nat) (src src' : List Sym) (h : src.length = src'.length) :
    SameLayout (slab0 sp t src) (slab0 sp t' src') := by
  refine ⟨rfl, ?_⟩
  simp only [slab0, List.size_toArray, createD_length, h]

theorem slab0_col (sp : SysParams) (t j : Nat) (src : List Sym) :
    slab0 sp 1 (colSyms j src) = colSlab j (slab0 sp t src) := by
  unfold slab0
  rw [createD_col sp t j src]
  simp only [colSlab, colSyms, colInter, List.map_toArray]

theorem slab0_xor (sp : SysParams) (t : Nat) (src src' : List Sym) (h : src.length = src'.length) :
    slab0 sp t (List.zipWith xorSym src src') = xorSlab (slab0 sp t src) (slab0 sp t src') := by
  simp only [slab0, xorSlab, createD_xor sp t src src' h, xorInter, List.zipWith_toArray]

theorem slab0_mul (sp : SysParams) (t k : Nat) (src : List Sym) :
    slab0 sp t (src.map (mulSym k)) = mulSlab k (slab0 sp t src) := by
  simp only [slab0, mulSlab, createD_mul, mulInter, List.map_toArray]

theorem wf_colSyms (t j : Nat) (src : List Sym) (h : ∀ s ∈ src, WfSym t s) :
    ∀ s ∈ colSyms j src, WfSym 1 s := by
  intro s hs
  obtain ⟨x, hx, rfl⟩ := List.mem_map.mp hs
  refine ⟨rfl, ?_⟩
  intro y hy
  rw [List.mem_singleton] at hy
  subst hy
  exact getD_lt_of_isBytes (h x hx).2 j

section
variable (sp : SysParams) (a : System) (ops : List SymOp)
  (hal : a.l = sp.l) (hbytes : ∀ row ∈ a.hdpc.toList, ∀ v ∈ row.toList, v < 256)
  (hops : ∀ op ∈ ops, match op with | .mul _ c => c < 256 | .fma _ _ c => c < 256 | _ => True)
include hal hbytes hops

omit hbytes hops in
/-- validity passes to every byte column -/
theorem PlanValid.col (t : Nat) (src : List Sym) (hsrc : ∀ s ∈ src, WfSym t s)
    (h : PlanValid sp a ops t src) (j : Nat) (hj : j < t) : PlanValid sp a ops 1 (colSyms j src) := by
  obtain ⟨c, hc, hwf, hsol⟩ := h
  obtain ⟨r, hr, hro⟩ := (replayPlan_eq_some sp t src ops c).mp hc
  have hw := slab0_allWf sp t src hsrc
  have hrun := run_col ops (slab0 sp t src) r t ⟨rfl, rfl, hw, hw⟩ hr j hj
  refine ⟨colInter j c, ?_, hwf.col j, ?_⟩
  · rw [replayPlan_eq_some]
    refine ⟨colSlab j r, by rw [slab0_col sp t j src]; exact hrun, ?_⟩
    rw [readOut_colSlab, hro]
    rfl
  · rw [← System.apply_col' a t c (hal ▸ hwf) j, hsol, createD_col]

/-- validity is additive in the data -/
theorem PlanValid.xor (t : Nat) (src src' : List Sym) (hsrc : ∀ s ∈ src, WfSym t s)
    (hsrc' : ∀ s ∈ src', WfSym t s) (hl : src.length = src'.length)
    (h : PlanValid sp a ops t src) (h' : PlanValid sp a ops t src') :
    PlanValid sp a ops t (List.zipWith xorSym src src') := by
  obtain ⟨c, hc, hwf, hsol⟩ := h
  obtain ⟨c', hc', hwf', hsol'⟩ := h'
  obtain ⟨r, hr, hro⟩ := (replayPlan_eq_some sp t src ops c).mp hc
  obtain ⟨r', hr', hro'⟩ := (replayPlan_eq_some sp t src' ops c').mp hc'
  have hw := slab0_allWf sp t src hsrc
  have hw' := slab0_allWf sp t src' hsrc'
  have hlay := slab0_layout sp t t src src' hl
  have hrun := run_add ops hops (slab0 sp t src) (slab0 sp t src') r r' t ⟨hlay.1, hlay.2, hw, hw'⟩ hr hr'
  refine ⟨xorInter c c', ?_, hwf.xor hwf', ?_⟩
  · rw [replayPlan_eq_some]
    refine ⟨xorSlab r r', by rw [slab0_xor sp t src src' hl]; exact hrun, ?_⟩
    exact readOut_xorSlab r r' (run_sameLayout ops _ _ r r' hlay hr hr') sp.l c c' hro hro'
  · rw [System.apply_add' a t c c' (hal ▸ hwf) (hal ▸ hwf') hbytes, hsol, hsol', createD_xor sp t src src' hl]

/-- validity is homogeneous in the data -/
theorem PlanValid.mul (t : Nat) (src : List Sym) (hsrc : ∀ s ∈ src, WfSym t s) (k : Nat) (hk : k < 256)
    (h : PlanValid sp a ops t src) : PlanValid sp a ops t (src.map (mulSym k)) := by
  obtain ⟨c, hc, hwf, hsol⟩ := h
  obtain ⟨r, hr, hro⟩ := (replayPlan_eq_some sp t src ops c).mp hc
  have hw := slab0_allWf sp t src hsrc
  have hrun := run_mul ops hops k hk (slab0 sp t src) r t ⟨rfl, rfl, hw, hw⟩ hr
  refine ⟨mulInter k c, ?_, hwf.mul hk, ?_⟩
  · rw [replayPlan_eq_some]
    refine ⟨mulSlab k r, by rw [slab0_mul]; exact hrun, ?_⟩
    rw [readOut_mulSlab, hro]
    rfl
  · rw [System.apply_mul a k hk t c (hal ▸ hwf) hbytes, hsol, createD_mul]

/-- a plan valid on every byte column is valid -/
theorem PlanValid.of_cols (t : Nat) (ht : 0 < t) (src : List Sym) (hsrc : ∀ s ∈ src, WfSym t s)
    (h : ∀ j, j < t → PlanValid sp a ops 1 (colSyms j src)) : PlanValid sp a ops t src := by
  have hw := slab0_allWf sp t src hsrc
  have hok := opOk_of_mem ops hops
  -- the plan runs: success depends on the layout only
  obtain ⟨c0, hc0, -, -⟩ := h 0 ht
  obtain ⟨r0, hr0, hro0⟩ := (replayPlan_eq_some sp 1 _ ops c0).mp hc0
  have hsome : ((slab0 sp t src).run ops).isSome := by
    rw [run_isSome_layout ops (slab0 sp t src) (slab0 sp 1 (colSyms 0 src))
      (slab0_layout sp t 1 src _ (by simp [colSyms])), hr0]
    rfl
  obtain ⟨r, hr⟩ := Option.isSome_iff_exists.mp hsome
  have hcol : ∀ j, j < t → (slab0 sp 1 (colSyms j src)).run ops = some (colSlab j r) := by
    intro j hj
    rw [slab0_col sp t j src]
    exact run_col ops (slab0 sp t src) r t ⟨rfl, rfl, hw, hw⟩ hr j hj
  -- the logical symbols can be read
  have hro : ∃ c, r.readOut sp.l = some c := by
    have e := hcol 0 ht
    rw [hr0] at e
    cases e
    rw [readOut_colSlab] at hro0
    obtain ⟨c, hc, -⟩ := Option.map_eq_some_iff.mp hro0
    exact ⟨c, hc⟩
  obtain ⟨c, hro⟩ := hro
  have hwf : WfInter sp.l t c := readOut_wf t sp.l r (run_allWf ops hok t _ r hw hr) c hro
  refine ⟨c, (replayPlan_eq_some sp t src ops c).mpr ⟨r, hr, hro⟩, hwf, ?_⟩
  have hwf' : WfInter a.l t c := hal ▸ hwf
  apply syms_ext_cols t ht _ _ (fun s hs => (System.apply_wf a t c hwf' hbytes s hs).1)
    (fun s hs => (createD_wf sp t src hsrc s hs).1)
  intro j hj
  obtain ⟨cj, hcj, -, hsolj⟩ := h j hj
  obtain ⟨rj, hrj, hroj⟩ := (replayPlan_eq_some sp 1 _ ops cj).mp hcj
  rw [hcol j hj] at hrj
  cases hrj
  rw [readOut_colSlab, hro] at hroj
  cases hroj
  rw [System.apply_col' a t c hwf' j, hsolj, createD_col]

/-- the one-byte block with bytes `f 0 … f (K-1)` -/
def blk (K : Nat) (f : Nat → Nat) : List Sym := (List.range K).map fun i => [f i]

omit hal hbytes hops in
theorem blk_wf (K : Nat) (f : Nat → Nat) (hf : ∀ i, i < K → f i < 256) : ∀ s ∈ blk K f, WfSym 1 s := by
  intro s hs
  obtain ⟨i, hi, rfl⟩ := List.mem_map.mp hs
  refine ⟨rfl, ?_⟩
  intro y hy
  rw [List.mem_singleton] at hy
  subst hy
  exact hf i (List.mem_range.mp hi)

omit hal hbytes hops in
theorem gmul_one_right (x : Nat) (hx : x < 256) : gmul x 1 = x := by
  rw [gmul_eq_gmulP x 1 hx (by decide), gmulP_one x hx]

/-- **span**: a plan valid for the K unit one-byte blocks is valid for every one-byte block -/
theorem PlanValid.span (K : Nat) (hK : 0 < K)
    (hunit : ∀ i, i < K → PlanValid sp a ops 1 (blk K fun i' => if i' = i then 1 else 0))
    (f : Nat → Nat) (hf : ∀ i, i < K → f i < 256) : PlanValid sp a ops 1 (blk K f) := by
  have hunitwf : ∀ i, ∀ s ∈ blk K (fun i' => if i' = i then 1 else 0), WfSym 1 s := fun i =>
    blk_wf K _ (fun i' _ => by split <;> decide)
  have key : ∀ m, m ≤ K → PlanValid sp a ops 1 (blk K fun i => if i < m then f i else 0) := by
    intro m
    induction m with
    | zero =>
      intro _
      have h0 := PlanValid.mul sp a ops hal hbytes hops 1 _ (hunitwf 0) 0 (by decide) (hunit 0 hK)
      have e : (blk K fun i' => if i' = 0 then 1 else 0).map (mulSym 0) =
          blk K fun i => if i < 0 then f i else 0 := by
        simp only [blk, List.map_map]
        apply List.map_congr_left
        intro i _
        simp [mulSym, gmul]
      rwa [e] at h0
    | succ m ih =>
      intro hm
      have h1 := ih (by omega)
      have h2 := PlanValid.mul sp a ops hal hbytes hops 1 _ (hunitwf m) (f m) (hf m (by omega)) (hunit m (by omega))
      have hwf1 : ∀ s ∈ blk K (fun i => if i < m then f i else 0), WfSym 1 s :=
        blk_wf K _ (fun i hi => by split; exact hf i hi; decide)
      have hwf2 : ∀ s ∈ (blk K fun i' => if i' = m then 1 else 0).map (mulSym (f m)), WfSym 1 s := by
        intro s hs
        obtain ⟨x, hx, rfl⟩ := List.mem_map.mp hs
        exact (hunitwf m x hx).mul (hf m (by omega))
      have h3 := PlanValid.xor sp a ops hal hbytes hops 1 _ _ hwf1 hwf2 (by simp [blk]) h1 h2
      have e : List.zipWith xorSym (blk K fun i => if i < m then f i else 0)
          ((blk K fun i' => if i' = m then 1 else 0).map (mulSym (f m))) =
          blk K fun i => if i < m + 1 then f i else 0 := by
        simp only [blk, List.map_map]
        rw [zipWith_map_map]
        apply List.map_congr_left
        intro i _
        simp only [Function.comp, mulSym, xorSym, List.map_cons, List.map_nil, List.zipWith_cons_cons,
          List.zipWith_nil_right]
        congr 1
        by_cases h1 : i < m
        · rw [if_pos h1, if_neg (by omega), if_pos (by omega), gmul_zero_right, Nat.xor_zero]
        · by_cases h2 : i = m
          · subst h2
            rw [if_neg h1, if_pos rfl, if_pos (by omega), gmul_one_right _ (hf i (by omega)), Nat.zero_xor]
          · rw [if_neg h1, if_neg h2, if_neg (by omega), gmul_zero_right, Nat.xor_zero]
      rwa [e] at h3
  have := key K (Nat.le_refl K)
  have e : (blk K fun i => if i < K then f i else 0) = blk K f := by
    apply List.map_congr_left
    intro i hi
    show [if i < K then f i else 0] = [f i]
    rw [if_pos (List.mem_range.mp hi)]
  rwa [e] at this

omit hal hbytes hops in
theorem colSyms_eq_blk (j : Nat) (src : List Sym) :
    colSyms j src = blk src.length fun i => (src.getD i []).getD j 0 := by
  apply List.ext_getElem (by simp [colSyms, blk])
  intro n h1 h2
  have hn : n < src.length := by simpa [colSyms] using h1
  simp [colSyms, blk, hn]

end

end Rq
