import Mathlib.Algebra.BigOperators.Group.Finset.Basic
import Mathlib.Algebra.BigOperators.Ring.Finset
import Mathlib.Tactic.Ring
import Rq.Model.Matrix
import Rq.Lemmas.GF256Field
import Rq.Thm.C10
import Rq.Thm.C15
/-!
# Helpers for C04 (HDPC part): the right-to-left recursion of `generate_hdpc_rows`

* `gamma_rec`: the column recurrence of `MT × GAMMA` for an arbitrary `MT` over a commutative ring;
* `hdpcStep_spec`: one step of the model computes `mtB + alpha · next` entry-wise;
* `go_spec`: the invariant of `hdpcCols.go`;
* `hdpcCols_of_rec`: `hdpcCols` computes any `spec` that satisfies the recurrence.
-/
namespace Rq.C04
open Rq

/-! ## the recurrence of the naive product -/

open BigOperators in
/-- `S j = Σ_{l<n, j ≤ l} f l · a^(l−j)` satisfies `S j = f j + a · S (j+1)` for `j < n` -/
theorem gamma_rec {R : Type} [CommRing R] (f : Nat → R) (a : R) (n j : Nat) (hj : j < n) :
    (∑ l ∈ Finset.range n, if j ≤ l then f l * a ^ (l - j) else 0) =
      f j + a * ∑ l ∈ Finset.range n, if j + 1 ≤ l then f l * a ^ (l - (j + 1)) else 0 := by
  rw [Finset.mul_sum]
  have h1 : f j = ∑ l ∈ Finset.range n, if j = l then f l else 0 := by
    rw [Finset.sum_ite_eq]; simp [hj]
  rw [h1, ← Finset.sum_add_distrib]
  apply Finset.sum_congr rfl
  intro l _
  by_cases hjl : j ≤ l
  · rw [if_pos hjl]
    by_cases hjl' : j = l
    · subst hjl'
      simp
    · rw [if_neg hjl', if_pos (by omega), zero_add]
      have : l - j = (l - (j + 1)) + 1 := by omega
      rw [this, pow_succ]
      ring
  · rw [if_neg hjl, if_neg (by omega), if_neg (by omega)]
    simp

open BigOperators in
theorem gamma_end {R : Type} [CommRing R] (f : Nat → R) (a : R) (n : Nat) :
    (∑ l ∈ Finset.range n, if n ≤ l then f l * a ^ (l - n) else 0) = 0 := by
  apply Finset.sum_eq_zero
  intro l hl
  have := Finset.mem_range.mp hl
  rw [if_neg (by omega)]

/-! ## field view of the byte operations -/

theorem of_gmul (a b : Nat) (ha : a < 256) (hb : b < 256) :
    GF256.of (gmul a b) = GF256.of a * GF256.of b := by
  ext
  rw [gmul_eq_gmulP a b ha hb, GF256.mul_val, GF256.of_val _ ha, GF256.of_val _ hb,
    GF256.of_val _ (gmulP_lt _ _)]

theorem gmul_lt (a b : Nat) (ha : a < 256) (hb : b < 256) : gmul a b < 256 := by
  rw [gmul_eq_gmulP a b ha hb]; exact gmulP_lt _ _

theorem of_xor (a b : Nat) (ha : a < 256) (hb : b < 256) :
    GF256.of (a ^^^ b) = GF256.of a + GF256.of b := by
  ext
  rw [GF256.add_val, GF256.of_val _ ha, GF256.of_val _ hb, GF256.of_val _ (xor_lt256 a b ha hb)]

theorem of_one : GF256.of 1 = 1 := by ext; rfl
theorem of_zero : GF256.of 0 = 0 := by ext; rfl

/-! ## one step of the model -/

/-- the binary part of MT (columns l < n−1): ones in rows Rand[l+1,6,H] and
(Rand[l+1,6,H] + Rand[l+1,7,H−1] + 1) mod H -/
def mtB (h i l : Nat) : GF256 :=
  match rand (l + 1) 6 h, rand (l + 1) 7 (h - 1) with
  | some r6, some r7 => if i = r6 ∨ i = (r6 + r7 + 1) % h then 1 else 0
  | _, _ => 0

theorem mod_shift_ne (h r6 r7 : Nat) (h6 : r6 < h) (h7 : r7 + 1 < h) : (r6 + r7 + 1) % h ≠ r6 := by
  by_cases hc : r6 + r7 + 1 < h
  · rw [Nat.mod_eq_of_lt hc]; omega
  · have : (r6 + r7 + 1) % h = r6 + r7 + 1 - h := by
      rw [Nat.mod_eq_sub_mod (by omega), Nat.mod_eq_of_lt (by omega)]
    omega

theorem getD_set_eq (l : List Nat) (i j v : Nat) :
    (l.set i v).getD j 0 = if i = j ∧ i < l.length then v else l.getD j 0 := by
  simp only [List.getD_eq_getElem?_getD, List.getElem?_set]
  by_cases hij : i = j
  · subst hij
    by_cases hl : i < l.length
    · simp [hl]
    · simp [hl]
  · simp [hij]

theorem getD_map_gmul (l : List Nat) (c i : Nat) : (l.map (gmul c)).getD i 0 = gmul c (l.getD i 0) := by
  simp only [List.getD_eq_getElem?_getD, List.getElem?_map]
  cases l[i]? with
  | none => simp [gmul]
  | some v => simp

theorem hdpcStep_spec (h j : Nat) (hh : 2 ≤ h) (hj : j + 1 < 2 ^ 32) (next : List Nat)
    (hlen : next.length = h) (hb : ∀ i, i < h → next.getD i 0 < 256) :
    ∃ col, hdpcStep h j next = some col ∧ col.length = h ∧ ∀ i, i < h → col.getD i 0 < 256 ∧
      GF256.of (col.getD i 0) = mtB h i j + GF256.of 2 * GF256.of (next.getD i 0) := by
  have e6 := Rq.C15.rand_spec (j + 1) 6 h hj (by decide) (by omega)
  have e7 := Rq.C15.rand_spec (j + 1) 7 (h - 1) hj (by decide) (by omega)
  have h6 := Rq.C15.specRand_lt (j + 1) 6 h (by omega)
  have h7 := Rq.C15.specRand_lt (j + 1) 7 (h - 1) (by omega)
  generalize Rq.C15.specRand (j + 1) 6 h = r6 at *
  generalize Rq.C15.specRand (j + 1) 7 (h - 1) = r7 at *
  have hne := mod_shift_ne h r6 r7 h6 (by omega)
  have hi2 : (r6 + r7 + 1) % h < h := Nat.mod_lt _ (by omega)
  generalize hi2e : (r6 + r7 + 1) % h = i2 at *
  have hstep : hdpcStep h j next = some
      (((next.map (gmul 2)).set r6 ((next.map (gmul 2)).getD r6 0 ^^^ 1)).set i2
        ((((next.map (gmul 2)).set r6 ((next.map (gmul 2)).getD r6 0 ^^^ 1)).getD i2 0) ^^^ 1)) := by
    simp only [hdpcStep, e6, e7, hi2e]
  refine ⟨_, hstep, by simp [hlen], ?_⟩
  intro i hi
  have hmt : mtB h i j = if i = r6 ∨ i = i2 then 1 else 0 := by
    simp only [mtB, e6, e7, hi2e]
  rw [hmt]
  simp only [getD_set_eq, getD_map_gmul, List.length_set, List.length_map, hlen]
  have hg : ∀ m, m < h → gmul 2 (next.getD m 0) < 256 := fun m hm => gmul_lt _ _ (by decide) (hb m hm)
  have hof : ∀ m, m < h → GF256.of (gmul 2 (next.getD m 0)) = GF256.of 2 * GF256.of (next.getD m 0) :=
    fun m hm => of_gmul _ _ (by decide) (hb m hm)
  by_cases c2 : i2 = i
  · subst c2
    have : ¬ (r6 = i2) := fun e => hne e.symm
    rw [if_pos ⟨rfl, hi⟩, if_neg (fun e => this e.1), if_pos (Or.inr rfl)]
    refine ⟨xor_lt256 _ _ (hg _ hi) (by decide), ?_⟩
    rw [of_xor _ _ (hg _ hi) (by decide), hof _ hi, of_one, add_comm]
  · rw [if_neg (fun e => c2 e.1)]
    by_cases c1 : r6 = i
    · subst c1
      rw [if_pos ⟨rfl, hi⟩, if_pos (Or.inl rfl)]
      refine ⟨xor_lt256 _ _ (hg _ hi) (by decide), ?_⟩
      rw [of_xor _ _ (hg _ hi) (by decide), hof _ hi, of_one, add_comm]
    · rw [if_neg (fun e => c1 e.1), if_neg (by intro e; rcases e with e | e; exact c1 e.symm; exact c2 e.symm)]
      refine ⟨hg _ hi, ?_⟩
      rw [hof _ hi, zero_add]

/-! ## the invariant of `hdpcCols.go` -/

theorem getD_append_lt {α : Type} (l1 l2 : List α) (d : α) (i : Nat) (h : i < l1.length) :
    (l1 ++ l2).getD i d = l1.getD i d := by
  simp [List.getD_eq_getElem?_getD, List.getElem?_append_left h]

theorem getD_append_ge {α : Type} (l1 l2 : List α) (d : α) (i : Nat) (h : l1.length ≤ i) :
    (l1 ++ l2).getD i d = l2.getD (i - l1.length) d := by
  simp [List.getD_eq_getElem?_getD, List.getElem?_append_right h]

/-- a column of H bytes whose entries are `spec · j` -/
def ColOk (h : Nat) (spec : Nat → Nat → GF256) (j : Nat) (col : List Nat) : Prop :=
  col.length = h ∧ ∀ i, i < h → col.getD i 0 < 256 ∧ GF256.of (col.getD i 0) = spec i j

theorem go_spec (h : Nat) (hh : 2 ≤ h) (spec : Nat → Nat → GF256) :
    ∀ j next acc, j < 2 ^ 32 → ColOk h spec j next →
      (∀ j', j' < j → ∀ i, i < h → spec i j' = mtB h i j' + GF256.of 2 * spec i (j' + 1)) →
      ∃ pre, hdpcCols.go h j next acc = some (pre ++ acc) ∧ pre.length = j ∧
        ∀ j', j' < j → ColOk h spec j' (pre.getD j' []) := by
  intro j
  induction j with
  | zero =>
    intro next acc _ _ _
    exact ⟨[], rfl, rfl, fun j' hj' => absurd hj' (by omega)⟩
  | succ j ih =>
    intro next acc hj hok hrec
    obtain ⟨col, hcol, hlen, hcolspec⟩ := hdpcStep_spec h j hh hj next hok.1 (fun i hi => (hok.2 i hi).1)
    have hcolok : ColOk h spec j col := by
      refine ⟨hlen, fun i hi => ⟨(hcolspec i hi).1, ?_⟩⟩
      rw [(hcolspec i hi).2, hrec j (by omega) i hi, (hok.2 i hi).2]
    obtain ⟨pre, hgo, hprelen, hpre⟩ := ih col (col :: acc) (by omega) hcolok
      (fun j' hj' => hrec j' (by omega))
    refine ⟨pre ++ [col], ?_, by simp [hprelen], ?_⟩
    · unfold hdpcCols.go
      rw [hcol]
      simp only [hgo, List.append_assoc, List.singleton_append]
    · intro j' hj'
      by_cases hjj : j' < j
      · rw [getD_append_lt _ _ _ _ (by omega)]
        exact hpre j' hjj
      · have : j' = j := by omega
        subst this
        rw [getD_append_ge _ _ _ _ (by omega), hprelen, Nat.sub_self]
        exact hcolok

theorem mapM_opt_some {α β : Type} (f : α → Option β) (g : α → β) (l : List α)
    (h : ∀ x, x ∈ l → f x = some (g x)) : l.mapM f = some (l.map g) := by
  induction l with
  | nil => rfl
  | cons a l ih =>
    rw [List.mapM_cons, h a (List.mem_cons_self ..), ih (fun x hx => h x (List.mem_cons_of_mem _ hx))]
    rfl

/-- `hdpcCols` computes every `spec` whose last column is `alpha^i` and which obeys the recurrence -/
theorem hdpcCols_of_rec (h n : Nat) (hh : 2 ≤ h) (hh' : h ≤ 256) (hn : 1 ≤ n) (hn' : n < 2 ^ 32)
    (spec : Nat → Nat → GF256)
    (hlast : ∀ i, i < h → spec i (n - 1) = (GF256.of 2) ^ i)
    (hrec : ∀ j, j + 1 < n → ∀ i, i < h → spec i j = mtB h i j + GF256.of 2 * spec i (j + 1)) :
    ∃ cols, hdpcCols h n = some cols ∧ cols.size = n ∧
      ∀ j, j < n → ColOk h spec j (cols.getD j []) := by
  have hm : (List.range h).mapM galpha = some ((List.range h).map oexp) := by
    apply mapM_opt_some
    intro x hx
    have := List.mem_range.mp hx
    unfold galpha; rw [if_pos (by omega)]
  have hlastok : ColOk h spec (n - 1) ((List.range h).map oexp) := by
    refine ⟨by simp, fun i hi => ?_⟩
    obtain ⟨v, hv, hvof⟩ := Rq.C10.galpha_field i (by omega)
    have hv' : v = oexp i := by
      unfold galpha at hv; rw [if_pos (by omega)] at hv; exact (Option.some.inj hv).symm
    have hget : ((List.range h).map oexp).getD i 0 = oexp i := by
      simp [List.getD_eq_getElem?_getD, hi]
    rw [hget, ← hv', hvof, hlast i hi]
    refine ⟨?_, rfl⟩
    rw [hv', oexp_eq i (by omega)]; exact E_lt i
  obtain ⟨pre, hgo, hprelen, hpre⟩ := go_spec h hh spec (n - 1) _ [(List.range h).map oexp] (by omega)
    hlastok (fun j' hj' => hrec j' (by omega))
  refine ⟨(pre ++ [(List.range h).map oexp]).toArray, ?_, by simp [hprelen]; omega, ?_⟩
  · unfold hdpcCols
    rw [if_neg (by omega), hm]
    simp only [hgo, Option.map_some]
  · intro j hj
    have hg : (pre ++ [(List.range h).map oexp]).toArray.getD j [] =
        (pre ++ [(List.range h).map oexp]).getD j [] := by
      simp [Array.getD_eq_getD_getElem?, List.getD_eq_getElem?_getD]
    rw [hg]
    by_cases hjj : j < n - 1
    · rw [getD_append_lt _ _ _ _ (by omega)]
      exact hpre j hjj
    · have : j = n - 1 := by omega
      subst this
      rw [getD_append_ge _ _ _ _ (by omega), hprelen, Nat.sub_self]
      exact hlastok

/-! ## all entries are octets (without reference to the specification) -/

/-- the recurrence unrolled from the last column: `specRec h n i d` is column n−1−d -/
def specRec (h n i : Nat) : Nat → GF256
  | 0 => (GF256.of 2) ^ i
  | d + 1 => mtB h i (n - 1 - (d + 1)) + GF256.of 2 * specRec h n i d

theorem hdpcCols_bytes (h n : Nat) (hh : 2 ≤ h) (hh' : h ≤ 256) (hn : 1 ≤ n) (hn' : n < 2 ^ 32) :
    ∃ cols, hdpcCols h n = some cols ∧ ∀ j i, (cols.getD j []).getD i 0 < 256 := by
  obtain ⟨cols, hc, hsz, hok⟩ := hdpcCols_of_rec h n hh hh' hn hn' (fun i j => specRec h n i (n - 1 - j))
    (by intro i _; show specRec h n i (n - 1 - (n - 1)) = _; rw [Nat.sub_self]; rfl)
    (by
      intro j hj i _
      show specRec h n i (n - 1 - j) = _ + _ * specRec h n i (n - 1 - (j + 1))
      rw [show n - 1 - j = (n - 1 - (j + 1)) + 1 by omega, specRec,
        show n - 1 - (n - 1 - (j + 1) + 1) = j by omega])
  refine ⟨cols, hc, fun j i => ?_⟩
  by_cases hj : j < n
  · obtain ⟨hlen, hcol⟩ := hok j hj
    by_cases hi : i < h
    · exact (hcol i hi).1
    · rw [List.getD_eq_getElem?_getD, List.getElem?_eq_none (by omega)]; simp
  · have : cols.getD j [] = [] := by
      simp [Array.getD_eq_getD_getElem?, hsz, hj]
    rw [this]; simp

end Rq.C04
