import Rq.Lemmas.GJModel
import Rq.Lemmas.GJAlg
/-!
What the pieces of `gaussJordan` (`Rq/Lemmas/GJModel.lean`) compute, on the entries of the byte
matrices: pivot search, kernel-vector loop, elimination loop.
-/
namespace Rq

/-- entry `(r, c)` of a byte matrix as a natural (0 outside) -/
def ent (rows : Array ByteArray) (r c : Nat) : Nat := bget rows[r]! c

theorem ent_lt (rows : Array ByteArray) (r c : Nat) : ent rows r c < 256 := bget_lt _ _

structure Shape (m l : Nat) (rows : Array ByteArray) : Prop where
  size : rows.size = m
  width : ∀ r, r < m → rows[r]!.size = l

theorem u8_bne_iff (x y : UInt8) : (x != y) = true ↔ x.toNat ≠ y.toNat := by
  rw [bne_iff_ne, ne_eq, ne_eq, UInt8.toNat_inj]

theorem get!_bne_zero (b : ByteArray) (j : Nat) : (b.get! j != 0) = true ↔ bget b j ≠ 0 :=
  u8_bne_iff _ _

theorem get!_bne_one (b : ByteArray) (j : Nat) : (b.get! j != 1) = true ↔ bget b j ≠ 1 :=
  u8_bne_iff _ _

theorem getElem!_set2 (rows : Array ByteArray) (r i : Nat) (e x : ByteArray) :
    ((rows.set! r e).set! r x)[i]! = if i = r ∧ r < rows.size then x else rows[i]! := by
  simp only [Array.set!_eq_setIfInBounds, Array.getElem!_eq_getD, Array.getD_eq_getD_getElem?,
    Array.getElem?_setIfInBounds, Array.size_setIfInBounds]
  by_cases h1 : r = i
  · subst h1
    by_cases h2 : r < rows.size
    · simp [h2]
    · simp [h2]
  · have : ¬ i = r := fun h => h1 h.symm
    simp [h1, this]

theorem size_set2 (rows : Array ByteArray) (r : Nat) (e x : ByteArray) :
    ((rows.set! r e).set! r x).size = rows.size := by
  simp [Array.set!_eq_setIfInBounds]

theorem getElem!_swap (rows : Array ByteArray) (p c i : Nat) (hp : p < rows.size) (hc : c < rows.size) :
    (rows.swapIfInBounds p c)[i]! = if i = p then rows[c]! else if i = c then rows[p]! else rows[i]! := by
  unfold Array.swapIfInBounds
  rw [dif_pos hp, dif_pos hc]
  simp only [Array.getElem!_eq_getD, Array.getD_eq_getD_getElem?, Array.getElem?_swap]
  by_cases h1 : i = p
  · subst h1
    by_cases h2 : c = i
    · subst h2; simp [Array.getElem?_eq_getElem hc]
    · simp [h2, Array.getElem?_eq_getElem hc]
  · by_cases h2 : i = c
    · subst h2; simp [h1, Array.getElem?_eq_getElem hp]
    · have a : ¬ c = i := fun h => h2 h.symm
      have b : ¬ p = i := fun h => h1 h.symm
      simp [a, b, h1, h2]

theorem size_swap (rows : Array ByteArray) (p c : Nat) : (rows.swapIfInBounds p c).size = rows.size := by
  simp


theorem pivLoop_spec (m col : Nat) (rows : Array ByteArray) (hle : col ≤ m) :
    (pivLoop m col rows = m ∧ ∀ r, col ≤ r → r < m → ent rows r col = 0) ∨
      (col ≤ pivLoop m col rows ∧ pivLoop m col rows < m ∧ ent rows (pivLoop m col rows) col ≠ 0) := by
  unfold pivLoop
  have := forIn_range_ind' (fun r (piv : Nat) =>
      (piv = m ∧ ∀ i, col ≤ i → i < r → ent rows i col = 0) ∨ (col ≤ piv ∧ piv < m ∧ ent rows piv col ≠ 0))
      col m (fun r (piv : Nat) =>
        if (piv == m && rows[r]!.get! col != 0) = true then (pure (ForInStep.yield r) : Id _)
        else pure (ForInStep.yield piv)) m hle (Or.inl ⟨rfl, fun i h1 h2 => by omega⟩)
      (by
        intro r piv h1 h2 h3
        split
        · next hc =>
          simp only [Id.run_pure, StepPost]
          rw [Bool.and_eq_true, get!_bne_zero] at hc
          exact Or.inr ⟨h1, h2, hc.2⟩
        · next hc =>
          simp only [Id.run_pure, StepPost]
          rw [Bool.and_eq_true, get!_bne_zero, beq_iff_eq] at hc
          rcases h3 with ⟨h4, h5⟩ | h4
          · refine Or.inl ⟨h4, fun i hi1 hi2 => ?_⟩
            by_cases hir : i = r
            · subst hir
              by_cases h0 : bget rows[i]! col = 0
              · exact h0
              · exact absurd ⟨h4, h0⟩ hc
            · exact h5 i hi1 (by omega)
          · exact Or.inr h4)
  exact this

theorem zLoop_spec (l col : Nat) (rows : Array ByteArray) :
    (zLoop l col rows).size = l ∧
      ∀ j, (zLoop l col rows).getD j 0 = if j < col ∧ j < l then ent rows j col else 0 := by
  unfold zLoop
  have := forIn_range_ind' (fun r (z : Array Nat) => z.size = l ∧
      ∀ j, z.getD j 0 = if j < r ∧ j < l then ent rows j col else 0)
      0 col (fun j (z : Array Nat) =>
        (pure (ForInStep.yield (z.set! j (rows[j]!.get! col).toNat)) : Id _)) (Array.replicate l 0) (Nat.zero_le _)
      ⟨by simp, fun j => by
        rw [if_neg (by omega)]
        simp only [Array.getD_eq_getD_getElem?, Array.getElem?_replicate]
        split <;> rfl⟩
      (by
        intro r z h1 h2 ⟨h3, h4⟩
        simp only [Id.run_pure, StepPost]
        refine ⟨by simp [Array.set!_eq_setIfInBounds, h3], fun j => ?_⟩
        simp only [Array.set!_eq_setIfInBounds, Array.getD_eq_getD_getElem?, Array.getElem?_setIfInBounds, h3]
        by_cases hrj : r = j
        · subst hrj
          rw [if_pos rfl]
          by_cases hl : r < l
          · rw [if_pos hl, if_pos ⟨by omega, hl⟩]; rfl
          · rw [if_neg hl, if_neg (by omega)]; rfl
        · rw [if_neg hrj]
          have := h4 j
          rw [Array.getD_eq_getD_getElem?] at this
          rw [this]
          by_cases hc : j < r ∧ j < l
          · rw [if_pos hc, if_pos ⟨by omega, hc.2⟩]
          · rw [if_neg hc, if_neg (by omega)])
  exact this


theorem ent_set2 (rows : Array ByteArray) (r i j : Nat) (e x : ByteArray) :
    ent ((rows.set! r e).set! r x) i j = if i = r ∧ r < rows.size then bget x j else ent rows i j := by
  unfold ent
  rw [getElem!_set2]
  split <;> rfl

theorem shape_set2 {m l : Nat} {rows : Array ByteArray} (h : Shape m l rows) (r : Nat) (e x : ByteArray)
    (hx : x.size = l) : Shape m l ((rows.set! r e).set! r x) := by
  refine ⟨by rw [size_set2]; exact h.size, fun i hi => ?_⟩
  rw [getElem!_set2]
  split
  · exact hx
  · exact h.width i hi

theorem elimLoop_spec (m l t col : Nat) (rows rhs : Array ByteArray) (prow psym : ByteArray)
    (hr : Shape m l rows) (hb : Shape m t rhs) (hcl : col < l) (hpl : prow.size = l) (hps : psym.size = t) :
    Shape m l (elimLoop m col prow psym rows rhs).1 ∧ Shape m t (elimLoop m col prow psym rows rhs).2 ∧
    (∀ i j, ent (elimLoop m col prow psym rows rhs).1 i j =
      if i < m ∧ i ≠ col ∧ col ≤ j ∧ j < l then ent rows i j ^^^ gmulP (ent rows i col) (bget prow j)
      else ent rows i j) ∧
    (∀ i j, ent (elimLoop m col prow psym rows rhs).2 i j =
      if i < m ∧ i ≠ col ∧ j < t then ent rhs i j ^^^ gmulP (ent rows i col) (bget psym j)
      else ent rhs i j) := by
  unfold elimLoop
  have := forIn_range_ind' (fun r (s : Array ByteArray × Array ByteArray) =>
      Shape m l s.1 ∧ Shape m t s.2 ∧
      (∀ i j, ent s.1 i j =
        if i < r ∧ i ≠ col ∧ col ≤ j ∧ j < l then ent rows i j ^^^ gmulP (ent rows i col) (bget prow j)
        else ent rows i j) ∧
      (∀ i j, ent s.2 i j =
        if i < r ∧ i ≠ col ∧ j < t then ent rhs i j ^^^ gmulP (ent rows i col) (bget psym j)
        else ent rhs i j))
      0 m (fun r (s : Array ByteArray × Array ByteArray) =>
        if (r != col) = true then
          if (s.1[r]!.get! col != 0) = true then
            (pure (ForInStep.yield (
              (s.1.set! r ByteArray.empty).set! r (rowFma s.1[r]! prow (s.1[r]!.get! col) col),
              (s.2.set! r ByteArray.empty).set! r (rowFma s.2[r]! psym (s.1[r]!.get! col) 0))) : Id _)
          else pure (ForInStep.yield s)
        else pure (ForInStep.yield s)) (rows, rhs) (Nat.zero_le _)
      ⟨hr, hb, fun i j => by rw [if_neg (by omega)], fun i j => by rw [if_neg (by omega)]⟩
      (by
        intro r s h1 h2 ⟨hs1, hs2, he1, he2⟩
        have hfr : ent s.1 r col = ent rows r col := by rw [he1 r col, if_neg (by omega)]
        split
        · next hrc =>
          have hrc' : r ≠ col := by simpa using hrc
          split
          · next hf =>
            simp only [Id.run_pure, StepPost]
            have hw1 := hs1.width r h2
            have hw2 := hs2.width r h2
            obtain ⟨hz1, hg1⟩ := rowFma_spec s.1[r]! prow (s.1[r]!.get! col) col (by omega)
            obtain ⟨hz2, hg2⟩ := rowFma_spec s.2[r]! psym (s.1[r]!.get! col) 0 (Nat.zero_le _)
            have hft : (s.1[r]!.get! col).toNat = ent rows r col := hfr
            refine ⟨shape_set2 hs1 r _ _ (by rw [hz1, hw1]), shape_set2 hs2 r _ _ (by rw [hz2, hw2]), ?_, ?_⟩
            · intro i j
              rw [ent_set2, hs1.size]
              by_cases hir : i = r
              · subst hir
                rw [if_pos ⟨rfl, h2⟩, hg1 j, hpl, hw1, hft]
                have hd : bget s.1[i]! j = ent rows i j := by
                  have := he1 i j; rw [if_neg (by omega)] at this; exact this
                rw [hd]
                by_cases hc : col ≤ j ∧ j < l
                · rw [if_pos ⟨hc.1, hc.2, hc.2⟩, if_pos ⟨by omega, hrc', hc.1, hc.2⟩]
                · rw [if_neg (by omega), if_neg (by omega)]
              · rw [if_neg (by omega), he1 i j]
                by_cases hc : i < r ∧ i ≠ col ∧ col ≤ j ∧ j < l
                · rw [if_pos hc, if_pos ⟨by omega, hc.2⟩]
                · rw [if_neg hc, if_neg (by omega)]
            · intro i j
              rw [ent_set2, hs2.size]
              by_cases hir : i = r
              · subst hir
                rw [if_pos ⟨rfl, h2⟩, hg2 j, hps, hw2, hft]
                have hd : bget s.2[i]! j = ent rhs i j := by
                  have := he2 i j; rw [if_neg (by omega)] at this; exact this
                rw [hd]
                by_cases hc : j < t
                · rw [if_pos ⟨Nat.zero_le _, hc, hc⟩, if_pos ⟨by omega, hrc', hc⟩]
                · rw [if_neg (by omega), if_neg (by omega)]
              · rw [if_neg (by omega), he2 i j]
                by_cases hc : i < r ∧ i ≠ col ∧ j < t
                · rw [if_pos hc, if_pos ⟨by omega, hc.2⟩]
                · rw [if_neg hc, if_neg (by omega)]
          · next hf =>
            simp only [Id.run_pure, StepPost]
            rw [get!_bne_zero] at hf
            have hf0 : ent rows r col = 0 := by
              rw [← hfr]; exact Classical.not_not.mp hf
            refine ⟨hs1, hs2, ?_, ?_⟩
            · intro i j
              rw [he1 i j]
              by_cases hir : i = r
              · subst hir
                rw [if_neg (by omega), hf0, gmulP_zero_left, Nat.xor_zero, ite_self]
              · by_cases hc : i < r ∧ i ≠ col ∧ col ≤ j ∧ j < l
                · rw [if_pos hc, if_pos ⟨by omega, hc.2⟩]
                · rw [if_neg hc, if_neg (by omega)]
            · intro i j
              rw [he2 i j]
              by_cases hir : i = r
              · subst hir
                rw [if_neg (by omega), hf0, gmulP_zero_left, Nat.xor_zero, ite_self]
              · by_cases hc : i < r ∧ i ≠ col ∧ j < t
                · rw [if_pos hc, if_pos ⟨by omega, hc.2⟩]
                · rw [if_neg hc, if_neg (by omega)]
        · next hrc =>
          have hrc' : r = col := by simpa using hrc
          simp only [Id.run_pure, StepPost]
          refine ⟨hs1, hs2, ?_, ?_⟩
          · intro i j
            rw [he1 i j]
            by_cases hc : i < r ∧ i ≠ col ∧ col ≤ j ∧ j < l
            · rw [if_pos hc, if_pos ⟨by omega, hc.2⟩]
            · rw [if_neg hc, if_neg (by omega)]
          · intro i j
            rw [he2 i j]
            by_cases hc : i < r ∧ i ≠ col ∧ j < t
            · rw [if_pos hc, if_pos ⟨by omega, hc.2⟩]
            · rw [if_neg hc, if_neg (by omega)])
  exact this

end Rq
