import Rq.Thm.C02
/-! Helper lemmas for `Rq.C02.piSolverChecked_sound` / `Rq.C02.attempt_iff_checked`: the internal
symbol ids of the rows the decoder builds are 32-bit values (so `fullSystem_wf` / `binSystem_wf`
apply), and the systems have `sp.l` columns. -/
namespace Rq.C02
open Rq

theorem isisOf_lt (d : BlockDec) (e : BlockEnc) (t : Nat) (h : Tracks d e t) (he : GoodEnc e t) :
    ∀ x ∈ isisOf d e.sp, x < 2 ^ 32 := by
  obtain ⟨hk, hkp, hl, hleq, _⟩ := sysParams_facts _ _ he.params
  intro isi hisi
  unfold isisOf at hisi
  rw [h.hk] at hisi
  rcases List.mem_append.mp hisi with h1 | h1
  · rcases List.mem_append.mp h1 with h2 | h2
    · have := List.mem_range.mp (List.mem_filter.mp h2).1
      omega
    · obtain ⟨j, hj, rfl⟩ := List.mem_map.mp h2
      have := List.mem_range.mp hj
      omega
  · obtain ⟨p, hp, rfl⟩ := List.mem_map.mp h1
    obtain ⟨hge, hrep⟩ := h.repair_ok p hp
    unfold BlockEnc.repairPacket at hrep
    dsimp only at hrep
    split at hrep
    · cases hrep
    · next hlt =>
      unfold U32 at hlt
      omega

theorem fullSystem_l (sp : SysParams) (isis : List Nat) (a : System) (h : fullSystem sp isis = some a) :
    a.l = sp.l := by
  unfold fullSystem at h
  obtain ⟨⟨bin, hd⟩, _, rfl⟩ := Option.map_eq_some_iff.mp h
  rfl

theorem binSystem_l (sp : SysParams) (isis : List Nat) (a : System) (h : binSystem sp isis = some a) :
    a.l = sp.l := by
  unfold binSystem at h
  obtain ⟨bin, _, rfl⟩ := Option.map_eq_some_iff.mp h
  rfl

end Rq.C02
