import Rq.Thm.C02
/-! Helper lemmas for `Rq.C02.piSolverChecked_sound` / `Rq.C02.attempt_iff_checked`: the systems have
`sp.l` columns (`isisOf_lt`, the 32-bit bound of the internal symbol ids, lives in `Rq/Thm/C02.lean`). -/
namespace Rq.C02
open Rq

theorem fullSystem_l (sp : SysParams) (isis : List Nat) (a : System) (h : fullSystem sp isis = some a) :
    a.l = sp.l := by
  unfold fullSystem at h
  obtain ⟨⟨bin, hd⟩, _, rfl⟩ := Option.map_eq_some_iff.mp h
  rfl

theorem binSystem_l (sp : SysParams) (isis : List Nat) (a : System) (h : binSystem sp isis = some a) :
    a.l = sp.l := by
  unfold binSystem at h
  obtain ⟨bin, _, rfl⟩ := Option.map_eq_some_iff.mp h
  rfl

end Rq.C02
