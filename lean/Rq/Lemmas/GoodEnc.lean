import Rq.Lemmas.EncEval
import Rq.Thm.C15
/-!
What a good block encoder (`GoodEnc`) knows about its intermediate symbols: the LDPC and HDPC
rows vanish on them, the G_ENC row of a source symbol gives that symbol, of a padding symbol
zero, of a repair symbol the repair packet's payload; `encSymbol` agrees with the matrix rows.
-/
namespace Rq

theorem sysParams_some_le_d (k : Nat) (sp : SysParams) (h : sysParams k = some sp) : k ≤ 56403 := by
  apply (Rq.C15.rowOf_total k).mp
  cases hr : rowOf k with
  | some i => rfl
  | none =>
    have : extK k = none := by simp [extK, hr]
    simp [sysParams, this] at h

/-- the facts of `sysParams_consistent` for given parameters -/
theorem sysParams_facts (k : Nat) (sp : SysParams) (h : sysParams k = some sp) :
    k ≤ 56403 ∧ k ≤ sp.kp ∧ sp.l < 65536 ∧ sp.l = sp.kp + sp.s + sp.h ∧ sp.w ≤ sp.l := by
  have hk := sysParams_some_le_d k sp h
  obtain ⟨sp', h', h1, _, _, _, _, _, _, _, _, h2, h3, _, h4, _⟩ := Rq.C15.sysParams_consistent k hk
  rw [h] at h'
  cases h'
  exact ⟨hk, h1, h2, h3, h4⟩

/-! ## values of rows are well-formed symbols -/

theorem rowBin_fold_lt (cols : List Nat) (f : Nat → Nat) (hf : ∀ j, f j < 256) (a : Nat) (ha : a < 256) :
    cols.foldl (fun acc j => acc ^^^ f j) a < 256 := by
  induction cols generalizing a with
  | nil => exact ha
  | cons c cols ih => exact ih _ (xor_lt256 _ _ ha (hf c))

theorem rowBin_lt (cols : List Nat) (f : Nat → Nat) (hf : ∀ j, f j < 256) : rowBin cols f < 256 :=
  rowBin_fold_lt cols f hf 0 (by decide)

theorem rowDense_lt (row : Array Nat) (f : Nat → Nat) (hf : ∀ j, f j < 256) : rowDense row f < 256 := by
  unfold rowDense
  generalize List.range row.size = l
  have : ∀ a, a < 256 → l.foldl (fun acc j => acc ^^^ denseTerm_d (row.getD j 0) (f j)) a < 256 := by
    induction l with
    | nil => intro a ha; exact ha
    | cons c l ih => intro a ha; exact ih _ (xor_lt256 _ _ ha (denseTerm_lt _ _ (hf c)))
  exact this 0 (by decide)

theorem tab_wf (t : Nat) (g : Nat → Nat) (hg : ∀ b, g b < 256) : WfSym t (tab t g) := by
  refine ⟨tab_length t g, ?_⟩
  intro x hx
  unfold tab at hx
  obtain ⟨b, _, rfl⟩ := List.mem_map.mp hx
  exact hg b

theorem evalBinRow_wf_d (cols : List Nat) (c : Inter) (l t : Nat) (hc : WfInter l t c) :
    WfSym t (evalBinRow cols c t) := by
  rw [evalBinRow_eq_d cols c t hc.allLen]
  exact tab_wf t _ (fun b => rowBin_lt _ _ (fun j => hc.cell_lt j b))

theorem apply_wf (a : System) (c : Inter) (t : Nat) (hc : WfInter a.l t c) : ∀ s ∈ a.apply c t, WfSym t s := by
  intro s hs
  rw [apply_eq a c t hc.allLen, List.mem_map] at hs
  obtain ⟨φ, hφ, rfl⟩ := hs
  apply tab_wf
  intro b
  unfold System.funs at hφ
  rcases List.mem_append.mp hφ with h1 | h1
  · rcases List.mem_append.mp h1 with h2 | h2
    · obtain ⟨cols, _, rfl⟩ := List.mem_map.mp (List.mem_of_mem_take h2)
      exact rowBin_lt _ _ (fun j => hc.cell_lt j b)
    · obtain ⟨row, _, rfl⟩ := List.mem_map.mp h2
      exact rowDense_lt _ _ (fun j => hc.cell_lt j b)
  · obtain ⟨cols, _, rfl⟩ := List.mem_map.mp (List.mem_of_mem_drop h1)
    exact rowBin_lt _ _ (fun j => hc.cell_lt j b)

theorem apply_wfRhs (a : System) (c : Inter) (t : Nat) (hc : WfInter a.l t c) : WfRhs a t (a.apply c t) :=
  ⟨apply_length a c t, apply_wf a c t hc⟩

/-! ## the encoder's rows -/

/-- value of the G_ENC row of `isi` on `c` -/
def encVal (sp : SysParams) (c : Inter) (t : Nat) (isi : Nat) : Sym := evalBinRow (encRowD sp isi) c t

/-- everything the decoder theorems need from a good encoder -/
structure EncRows (e : BlockEnc) (t : Nat) (L : Array (List Nat)) (Hd : Array (Array Nat)) : Prop where
  hL : ldpcRows e.sp = some L
  hH : hdpcRows e.sp = some Hd
  sizeL : L.size = e.sp.s
  sizeH : Hd.size = e.sp.h
  ldpc0 : L.toList.map (fun cols => evalBinRow cols e.c t) = List.replicate e.sp.s (zeroSym t)
  hdpc0 : Hd.toList.map (fun r => evalDenseRow r e.c t) = List.replicate e.sp.h (zeroSym t)
  k_le : e.k ≤ e.sp.kp
  src : ∀ i, i < e.k → encVal e.sp e.c t i = e.src.getD i []
  pad : ∀ i, e.k ≤ i → i < e.sp.kp → encVal e.sp e.c t i = zeroSym t

theorem goodEnc_rows (e : BlockEnc) (t : Nat) (he : GoodEnc e t) : ∃ L Hd, EncRows e t L Hd := by
  obtain ⟨a, ha, hsol⟩ := he.solves
  obtain ⟨L, Hd, hL, hH, hE, _, rfl⟩ := fullSystem_inv _ _ _ ha
  have sizeL := ldpcRows_size _ _ hL
  have sizeH := (hdpcRows_wf _ _ hH).1
  obtain ⟨_, hkp, _, _, _⟩ := sysParams_facts _ _ he.params
  rw [mkSys_apply _ _ _ _ sizeL, createD, List.append_assoc, List.append_assoc] at hsol
  have hlen : (L.toList.map (fun cols => evalBinRow cols e.c t)).length = (List.replicate e.sp.s (zeroSym t)).length := by
    simp [sizeL]
  rw [List.replicate_add, List.append_assoc] at hsol
  obtain ⟨h1, h2⟩ := List.append_inj hsol hlen
  have hlen2 : (Hd.toList.map (fun r => evalDenseRow r e.c t)).length = (List.replicate e.sp.h (zeroSym t)).length := by
    simp [sizeH]
  obtain ⟨h3, h4⟩ := List.append_inj h2 hlen2
  have hget : ∀ i, i < e.sp.kp → encVal e.sp e.c t i =
      (e.src ++ List.replicate (e.sp.kp - e.src.length) (zeroSym t)).getD i [] := by
    intro i hi
    rw [← h4]
    simp [List.getD_eq_getElem?_getD, hi, encVal]
  refine ⟨L, Hd, hL, hH, sizeL, sizeH, h1, h3, hkp, ?_, ?_⟩
  · intro i hi
    rw [hget i (by omega)]
    have hi' : i < e.src.length := hi
    simp [List.getD_eq_getElem?_getD, List.getElem?_append_left hi']
  · intro i hi1 hi2
    rw [hget i hi2]
    have hi' : e.src.length ≤ i := hi1
    have : i - e.src.length < e.sp.kp - e.src.length := by
      have : e.src.length = e.k := rfl
      omega
    simp [List.getD_eq_getElem?_getD, List.getElem?_append_right hi', this]

/-- for every 32-bit internal symbol id: no panic, a non-empty duplicate-free index list in range,
and the matrix row evaluates on the encoder's C to what the encoder computes -/
theorem goodEnc_encIndices (e : BlockEnc) (t : Nat) (he : GoodEnc e t) (x : Nat) (hx : x < 2 ^ 32) :
    ∃ idx, encIndicesOf e.sp x = some idx ∧ idx ≠ [] ∧ (∀ i ∈ idx, i < e.sp.l) ∧
      encRow e.sp x = some idx.reverse ∧ encVal e.sp e.c t x = encSymbol e.c idx := by
  have hk := sysParams_some_le_d _ _ he.params
  obtain ⟨sp', idx, hsp', hidx, hne, hlt⟩ := Rq.C15.encIndices_wf e.k x hk hx
  rw [he.params] at hsp'
  cases hsp'
  have hnd := Rq.C15.encIndices_nodup e.k x hk hx e.sp idx he.params hidx
  obtain ⟨h1, h2⟩ := evalBinRow_encRow e.sp x idx hidx hnd hne e.c t he.c_wf.allLen
    (fun j hj => by rw [he.c_wf.1]; exact hlt j hj)
  refine ⟨idx, hidx, hne, hlt, h1, ?_⟩
  unfold encVal encRowD
  rw [h1]
  exact h2

theorem goodEnc_repair (e : BlockEnc) (t : Nat) (he : GoodEnc e t) (r : Nat) (p : Packet)
    (h : e.repairPacket r = some p) :
    (encRow e.sp (e.sp.kp + r)).isSome ∧ encVal e.sp e.c t (e.sp.kp + r) = p.data := by
  unfold BlockEnc.repairPacket at h
  dsimp only at h
  split at h
  · cases h
  · next hlt =>
    have hx : e.sp.kp + r < 2 ^ 32 := by
      unfold U32 at hlt
      omega
    obtain ⟨idx, hidx, _, _, h1, h2⟩ := goodEnc_encIndices e t he _ hx
    rw [hidx] at h
    dsimp only at h
    injection h with h
    subst h
    exact ⟨by rw [h1]; rfl, h2⟩

theorem encVal_wf (e : BlockEnc) (t : Nat) (he : GoodEnc e t) (x : Nat) : WfSym t (encVal e.sp e.c t x) :=
  evalBinRow_wf_d _ _ _ _ he.c_wf

end Rq
