import Mathlib.Data.List.Sort
import Mathlib.Data.List.Perm.Basic
import Mathlib.Data.Nat.Bitwise
import Rq.Model.Sparse
/-!
Helper lemmas for C16s (`Rq/Thm/C16s.lean`): arrays, the function-presented bit array
`BitMat.ofFun` and the spec operations on it, 64-bit word bit operations, sorted key lists
(`vecInsert`, `vecRemove`, `vecAdd`), mutually inverse permutation maps under a swap.
-/
namespace Rq

/-! ## Arrays and `BitMat.ofFun` -/

theorem arr_getD_set {α : Type} (xs : Array α) (i j : Nat) (a d : α) :
    (xs.setIfInBounds i a).getD j d = if i = j ∧ i < xs.size then a else xs.getD j d := by
  simp only [Array.getD_eq_getD_getElem?, Array.getElem?_setIfInBounds]
  by_cases h : i = j
  · by_cases h2 : i < xs.size
    · subst h; simp [h2]
    · subst h; simp [h2]
  · simp [h]

theorem arr_getD_ofFn {α : Type} {n : Nat} (f : Fin n → α) (i : Nat) (d : α) (h : i < n) :
    (Array.ofFn f).getD i d = f ⟨i, h⟩ := by
  simp [Array.getD_eq_getD_getElem?, h]

theorem arr_getD_ge {α : Type} (xs : Array α) (i : Nat) (d : α) (h : xs.size ≤ i) : xs.getD i d = d := by
  simp [Array.getD_eq_getD_getElem?, h]

theorem arr_getD_lt {α : Type} (xs : Array α) (i : Nat) (d : α) (h : i < xs.size) :
    xs[i]? = some (xs.getD i d) := by
  simp [Array.getD_eq_getD_getElem?, h]

/-- the bit array with cells given by a function -/
def BitMat.ofFun (h w : Nat) (f : Nat → Nat → Bool) : BitMat :=
  { h, w, rows := Array.ofFn (n := h) fun r => Array.ofFn (n := w) fun c => f r.val c.val }

theorem BitMat.ofFun_congr {h w : Nat} {f g : Nat → Nat → Bool}
    (hfg : ∀ r, r < h → ∀ c, c < w → f r c = g r c) : BitMat.ofFun h w f = BitMat.ofFun h w g := by
  unfold BitMat.ofFun
  congr 1
  apply Array.ext_getElem?
  intro r
  simp only [Array.getElem?_ofFn]
  split
  · next h1 =>
    congr 1
    apply Array.ext_getElem?
    intro c
    simp only [Array.getElem?_ofFn]
    split
    · next h2 => rw [hfg r h1 c h2]
    · rfl
  · rfl

theorem BitMat.ofFun_rows_getD {h w : Nat} (f : Nat → Nat → Bool) (r : Nat) (hr : r < h) :
    (BitMat.ofFun h w f).rows.getD r #[] = Array.ofFn (n := w) fun c => f r c.val := by
  simp [BitMat.ofFun, Array.getD_eq_getD_getElem?, hr]

theorem BitMat.ofFun_get {h w : Nat} (f : Nat → Nat → Bool) (r c : Nat) (hr : r < h) (hc : c < w) :
    (BitMat.ofFun h w f).get r c = f r c := by
  unfold BitMat.get
  rw [BitMat.ofFun_rows_getD f r hr]
  simp [Array.getD_eq_getD_getElem?, hc]

theorem BitMat.ofFun_set {h w : Nat} (f : Nat → Nat → Bool) (r c : Nat) (v : Bool) (hr : r < h) (hc : c < w) :
    (BitMat.ofFun h w f).set r c v = some (BitMat.ofFun h w fun r' c' => if r' = r ∧ c' = c then v else f r' c') := by
  unfold BitMat.set
  rw [BitMat.ofFun_rows_getD f r hr]
  have : r < (BitMat.ofFun h w f).h ∧ c < (BitMat.ofFun h w f).w := ⟨hr, hc⟩
  rw [if_pos this]
  simp only [BitMat.ofFun, Option.some.injEq, BitMat.mk.injEq, true_and]
  apply Array.ext_getElem?
  intro r'
  simp only [Array.getElem?_setIfInBounds, Array.getElem?_ofFn, Array.size_ofFn]
  by_cases h1 : r' < h
  · by_cases h2 : r = r'
    · subst h2
      simp only [if_true, hr, dite_true, Option.some.injEq]
      apply Array.ext_getElem?
      intro c'
      simp only [Array.getElem?_setIfInBounds, Array.getElem?_ofFn, Array.size_ofFn]
      by_cases h3 : c' < w
      · by_cases h4 : c = c'
        · subst h4; simp [hc]
        · have : ¬ c' = c := fun h => h4 h.symm
          simp [h4, h3, this]
      · have : ¬ c = c' := by omega
        simp [h3, this]
    · have : ¬ r' = r := fun h => h2 h.symm
      simp [h2, h1, this]
  · have : ¬ r = r' := by omega
    simp [h1, this]

theorem BitMat.ofFun_swapRows {h w : Nat} (f : Nat → Nat → Bool) (i j : Nat) (hi : i < h) (hj : j < h) :
    (BitMat.ofFun h w f).swapRows i j =
      some (BitMat.ofFun h w fun r c => f (if r = j then i else if r = i then j else r) c) := by
  unfold BitMat.swapRows
  rw [BitMat.ofFun_rows_getD f i hi, BitMat.ofFun_rows_getD f j hj]
  have : i < (BitMat.ofFun h w f).h ∧ j < (BitMat.ofFun h w f).h := ⟨hi, hj⟩
  rw [if_pos this]
  simp only [BitMat.ofFun, Option.some.injEq, BitMat.mk.injEq, true_and]
  apply Array.ext_getElem?
  intro r
  simp only [Array.getElem?_setIfInBounds, Array.getElem?_ofFn, Array.size_ofFn, Array.size_setIfInBounds]
  by_cases h1 : r < h
  · by_cases h2 : j = r
    · subst h2; simp [hj]
    · have h2' : ¬ r = j := fun h => h2 h.symm
      by_cases h3 : i = r
      · subst h3; simp [h2, h2', hi]
      · have h3' : ¬ r = i := fun h => h3 h.symm
        simp [h2, h2', h3, h3', h1]
  · have : ¬ j = r := by omega
    have : ¬ i = r := by omega
    simp [*]

theorem BitMat.ofFun_swapCols {h w : Nat} (f : Nat → Nat → Bool) (i j : Nat) (hi : i < w) (hj : j < w) :
    (BitMat.ofFun h w f).swapCols i j =
      some (BitMat.ofFun h w fun r c => f r (if c = j then i else if c = i then j else c)) := by
  unfold BitMat.swapCols
  have : i < (BitMat.ofFun h w f).w ∧ j < (BitMat.ofFun h w f).w := ⟨hi, hj⟩
  rw [if_pos this]
  simp only [BitMat.ofFun, Option.some.injEq, BitMat.mk.injEq, true_and]
  apply Array.ext_getElem?
  intro r
  simp only [Array.getElem?_map, Array.getElem?_ofFn]
  by_cases h1 : r < h
  · simp only [h1, dite_true, Option.map_some, Option.some.injEq]
    apply Array.ext_getElem?
    intro c
    simp only [Array.getElem?_setIfInBounds, Array.getElem?_ofFn, Array.size_ofFn, Array.size_setIfInBounds]
    rw [arr_getD_ofFn _ i false hi, arr_getD_ofFn _ j false hj]
    by_cases h4 : c < w
    · by_cases h2 : j = c
      · subst h2; simp [hj]
      · have h2' : ¬ c = j := fun h => h2 h.symm
        by_cases h3 : i = c
        · subst h3; simp [h2, h2', hi]
        · have h3' : ¬ c = i := fun h => h3 h.symm
          simp [h2, h2', h3, h3', h4]
    · have : ¬ j = c := by omega
      have : ¬ i = c := by omega
      simp [*]
  · simp [h1]

theorem BitMat.ofFun_addAssign {h w : Nat} (f : Nat → Nat → Bool) (d s : Nat) (hd : d < h) (hs : s < h) (hne : d ≠ s) :
    (BitMat.ofFun h w f).addAssign d s =
      some (BitMat.ofFun h w fun r c => if r = d then (f d c != f s c) else f r c) := by
  unfold BitMat.addAssign
  rw [BitMat.ofFun_rows_getD f d hd, BitMat.ofFun_rows_getD f s hs]
  have : d < (BitMat.ofFun h w f).h ∧ s < (BitMat.ofFun h w f).h ∧ d ≠ s := ⟨hd, hs, hne⟩
  rw [if_pos this]
  simp only [BitMat.ofFun, Option.some.injEq, BitMat.mk.injEq, true_and]
  apply Array.ext_getElem?
  intro r
  simp only [Array.getElem?_setIfInBounds, Array.getElem?_ofFn, Array.size_ofFn]
  by_cases h1 : r < h
  · by_cases h2 : d = r
    · subst h2
      simp only [if_true, hd, dite_true, Option.some.injEq]
      apply Array.ext_getElem?
      intro c
      simp only [Array.getElem?_mapIdx, Array.getElem?_ofFn]
      by_cases h3 : c < w
      · simp [h3, arr_getD_ofFn _ c false h3]
      · simp [h3]
    · have : ¬ r = d := fun h => h2 h.symm
      simp [h2, h1, this]
  · have : ¬ d = r := by omega
    simp [h1, this]

theorem BitMat.ofFun_resize {h w : Nat} (f : Nat → Nat → Bool) (nh nw : Nat) (hh : nh ≤ h) (hw : nw ≤ w) :
    (BitMat.ofFun h w f).resize nh nw = some (BitMat.ofFun nh nw f) := by
  unfold BitMat.resize
  have : nh ≤ (BitMat.ofFun h w f).h ∧ nw ≤ (BitMat.ofFun h w f).w := ⟨hh, hw⟩
  rw [if_pos this]
  simp only [BitMat.ofFun, Option.some.injEq, BitMat.mk.injEq, true_and]
  apply Array.ext_getElem?
  intro r
  simp only [Array.getElem?_map, Array.getElem?_extract, Array.getElem?_ofFn, Array.size_ofFn]
  by_cases h1 : r < nh
  · have h1' : r < min nh h - 0 := by omega
    have h1'' : 0 + r < h := by omega
    simp only [h1, h1', h1'', if_true, dite_true, Option.map_some, Option.some.injEq]
    apply Array.ext_getElem?
    intro c
    simp only [Array.getElem?_extract, Array.getElem?_ofFn, Array.size_ofFn]
    by_cases h2 : c < nw
    · have h2' : c < min nw w - 0 := by omega
      have h2'' : 0 + c < w := by omega
      simp [h2]; omega
    · have h2' : ¬ c < min nw w - 0 := by omega
      simp [h2]
  · have h1' : ¬ r < min nh h - 0 := by omega
    simp [h1]

/-! ## Bits of 64-bit words -/

theorem testBit64_eq_sp (x b : Nat) : testBit64 x b = x.testBit b := by
  unfold testBit64
  rw [Nat.testBit_eq_decide_div_mod_eq, Nat.shiftRight_eq_div_pow]

theorem add_two_pow_eq_or (x b : Nat) (h : x.testBit b = false) : x + 2 ^ b = x ||| 2 ^ b := by
  rw [Nat.testBit_eq_decide_div_mod_eq] at h
  have h0 : x / 2 ^ b % 2 = 0 := by
    have := Nat.mod_two_eq_zero_or_one (x / 2 ^ b)
    simp at h; omega
  have hr : x % 2 ^ b < 2 ^ b := Nat.mod_lt _ (Nat.two_pow_pos b)
  have hx : x = 2 ^ (b + 1) * (x / 2 ^ b / 2) + x % 2 ^ b := by
    have h1 := Nat.div_add_mod x (2 ^ b)
    have h2 := Nat.div_add_mod (x / 2 ^ b) 2
    rw [h0] at h2
    rw [Nat.pow_succ, Nat.mul_assoc]
    have h3 : 2 * (x / 2 ^ b / 2) = x / 2 ^ b := by omega
    rw [h3]; omega
  generalize x / 2 ^ b / 2 = q at hx
  generalize x % 2 ^ b = r at hx hr
  subst hx
  have hr' : r + 2 ^ b < 2 ^ (b + 1) := by rw [Nat.pow_succ]; omega
  have hr'' : r < 2 ^ (b + 1) := by omega
  rw [Nat.add_assoc, Nat.two_pow_add_eq_or_of_lt hr', ← Nat.or_two_pow_eq_add_of_lt hr,
    Nat.two_pow_add_eq_or_of_lt hr'', Nat.or_assoc]

theorem testBit64_setBit64_sp (x b c : Nat) : testBit64 (setBit64 x b) c = (decide (c = b) || testBit64 x c) := by
  unfold setBit64
  split
  · next h =>
    by_cases hc : c = b
    · subst hc; simp [h]
    · simp [hc]
  · next h =>
    simp only [testBit64_eq_sp] at h ⊢
    simp only [Bool.not_eq_true] at h
    rw [add_two_pow_eq_or x b h, Nat.testBit_or, Nat.testBit_two_pow, Bool.or_comm]
    congr 1
    simp [eq_comm]

theorem sub_two_pow_eq_xor (x b : Nat) (h : x.testBit b = true) : x - 2 ^ b = x ^^^ 2 ^ b := by
  have hy : (x ^^^ 2 ^ b).testBit b = false := by
    rw [Nat.testBit_xor, h, Nat.testBit_two_pow_self]; rfl
  have h2 := add_two_pow_eq_or _ _ hy
  have h3 : (x ^^^ 2 ^ b) ||| 2 ^ b = x := by
    apply Nat.eq_of_testBit_eq
    intro c
    rw [Nat.testBit_or, Nat.testBit_xor, Nat.testBit_two_pow]
    by_cases hc : b = c
    · subst hc; simp [h]
    · simp [hc]
  omega

theorem testBit64_clearBit64_sp (x b c : Nat) : testBit64 (clearBit64 x b) c = (!decide (c = b) && testBit64 x c) := by
  unfold clearBit64
  split
  · next h =>
    simp only [testBit64_eq_sp] at h ⊢
    rw [sub_two_pow_eq_xor x b h, Nat.testBit_xor, Nat.testBit_two_pow]
    by_cases hc : b = c
    · subst hc; simp [h]
    · have : ¬ c = b := fun h => hc h.symm
      simp [hc, this]
  · next h =>
    by_cases hc : c = b
    · subst hc; simpa using h
    · simp [hc]

theorem setBit64_lt_sp (x b : Nat) (hx : x < U64) (hb : b < 64) : setBit64 x b < U64 := by
  unfold setBit64
  split
  · exact hx
  · next h =>
    simp only [testBit64_eq_sp, Bool.not_eq_true] at h
    rw [add_two_pow_eq_or x b h]
    have : U64 = 2 ^ 64 := by decide
    rw [this] at hx ⊢
    exact Nat.or_lt_two_pow hx (Nat.pow_lt_pow_right (by omega) hb)

theorem clearBit64_lt_sp (x b : Nat) (hx : x < U64) : clearBit64 x b < U64 := by
  unfold clearBit64
  split
  · exact Nat.lt_of_le_of_lt (Nat.sub_le _ _) hx
  · exact hx

theorem testBit64_xor_sp (x y b : Nat) : testBit64 (x ^^^ y) b = (testBit64 x b != testBit64 y b) := by
  simp only [testBit64_eq_sp, Nat.testBit_xor]

theorem xor_lt_U64_sp (x y : Nat) (hx : x < U64) (hy : y < U64) : x ^^^ y < U64 := by
  have : U64 = 2 ^ 64 := by decide
  rw [this] at hx hy ⊢
  exact Nat.xor_lt_two_pow hx hy

theorem testBit64_zero (b : Nat) : testBit64 0 b = false := by
  simp [testBit64_eq_sp]

/-- a word is the sum of its bits -/
theorem foldl_bits_eq (f : Nat → Bool) (x n : Nat) (hf : ∀ b, b < n → f b = testBit64 x b) :
    (List.range n).foldl (fun acc b => if f b then acc + 2 ^ b else acc) 0 = x % 2 ^ n := by
  induction n with
  | zero => simp [Nat.mod_one]
  | succ n ih =>
    rw [List.range_succ, List.foldl_append, ih (fun b hb => hf b (by omega))]
    simp only [List.foldl_cons, List.foldl_nil]
    rw [hf n (by omega), Nat.mod_pow_succ, testBit64_eq_sp, Nat.testBit_eq_decide_div_mod_eq]
    have := Nat.mod_two_eq_zero_or_one (x / 2 ^ n)
    rcases this with h | h <;> simp [h]

/-! ## Sorted key lists -/

open Sparse

theorem mem_vecInsert (l : List Nat) (k x : Nat) : x ∈ vecInsert l k ↔ x = k ∨ x ∈ l := by
  induction l with
  | nil => simp [vecInsert]
  | cons y rest ih =>
    unfold vecInsert
    split
    · simp
    · split
      · next h => subst h; simp
      · simp only [List.mem_cons, ih]
        constructor
        · rintro (h | h | h) <;> simp [h]
        · rintro (h | h | h) <;> simp [h]

theorem sorted_vecInsert (l : List Nat) (k : Nat) (hl : l.Pairwise (· < ·)) : (vecInsert l k).Pairwise (· < ·) := by
  induction l with
  | nil => simp [vecInsert]
  | cons y rest ih =>
    unfold vecInsert
    rw [List.pairwise_cons] at hl
    split
    · next h =>
      rw [List.pairwise_cons]
      refine ⟨?_, List.pairwise_cons.2 hl⟩
      intro a ha
      rcases List.mem_cons.1 ha with h1 | h1
      · omega
      · have := hl.1 a h1; omega
    · split
      · exact List.pairwise_cons.2 hl
      · next h1 h2 =>
        rw [List.pairwise_cons]
        refine ⟨?_, ih hl.2⟩
        intro a ha
        rcases (mem_vecInsert rest k a).1 ha with h3 | h3
        · omega
        · exact hl.1 a h3

theorem mem_vecRemove (l : List Nat) (k x : Nat) : x ∈ vecRemove l k ↔ x ∈ l ∧ x ≠ k := by
  simp [vecRemove]

theorem sorted_vecRemove (l : List Nat) (k : Nat) (hl : l.Pairwise (· < ·)) : (vecRemove l k).Pairwise (· < ·) :=
  hl.filter _

theorem nodup_of_sorted {l : List Nat} (hl : l.Pairwise (· < ·)) : l.Nodup :=
  hl.imp (fun h => Nat.ne_of_lt h)

/-- `vecAdd` is the symmetric difference on sorted duplicate-free lists -/
theorem vecAdd_spec (a b : List Nat) (ha : a.Pairwise (· < ·)) (hb : b.Pairwise (· < ·)) :
    (vecAdd a b).1.Pairwise (· < ·) ∧ (∀ x, x ∈ (vecAdd a b).1 ↔ (x ∈ a ∧ x ∉ b) ∨ (x ∈ b ∧ x ∉ a)) ∧
    ((vecAdd a b).2 = true ↔ ∃ x, x ∈ b ∧ x ∉ a) := by
  have gen : ((a.filter fun k => !b.contains k) ++ (b.filter fun k => !a.contains k) |>.mergeSort (· ≤ ·)).Pairwise (· < ·) ∧
      (∀ x, x ∈ ((a.filter fun k => !b.contains k) ++ (b.filter fun k => !a.contains k) |>.mergeSort (· ≤ ·)) ↔
        (x ∈ a ∧ x ∉ b) ∨ (x ∈ b ∧ x ∉ a)) ∧
      ((b.any fun k => !a.contains k) = true ↔ ∃ x, x ∈ b ∧ x ∉ a) := by
    refine ⟨?_, ?_, ?_⟩
    · have hle : ((a.filter fun k => !b.contains k) ++ (b.filter fun k => !a.contains k) |>.mergeSort (· ≤ ·)).Pairwise (· ≤ ·) := by
        have := List.pairwise_mergeSort (le := fun (x y : Nat) => decide (x ≤ y))
          (by intro x y z; simp; omega) (by intro x y; simp; omega)
          ((a.filter fun k => !b.contains k) ++ (b.filter fun k => !a.contains k))
        simpa using this
      have hnd : ((a.filter fun k => !b.contains k) ++ (b.filter fun k => !a.contains k) |>.mergeSort (· ≤ ·)).Nodup := by
        rw [(List.mergeSort_perm _ _).nodup_iff, List.nodup_append]
        refine ⟨(nodup_of_sorted ha).filter _, (nodup_of_sorted hb).filter _, ?_⟩
        intro x hx y hy hxy
        subst hxy
        simp at hx hy
        exact hx.2 hy.1
      exact (hle.and hnd).imp (fun h => Nat.lt_of_le_of_ne h.1 h.2)
    · intro x
      rw [(List.mergeSort_perm _ _).mem_iff]
      simp
    · simp
  unfold vecAdd
  split
  · next k =>
    split
    · next hc =>
      simp at hc
      refine ⟨sorted_vecRemove a k ha, ?_, ?_⟩
      · intro x; rw [mem_vecRemove]; simp
        intro h1 h2; subst h1; exact absurd hc h2
      · simp [hc]
    · next hc =>
      simp at hc
      refine ⟨sorted_vecInsert a k ha, ?_, ?_⟩
      · intro x; rw [mem_vecInsert]; simp
        constructor
        · rintro (h1 | h1)
          · subst h1; exact Or.inr ⟨rfl, hc⟩
          · refine Or.inl ⟨h1, ?_⟩
            intro h; subst h; exact hc h1
        · rintro (⟨h1, h2⟩ | ⟨h1, h2⟩)
          · exact Or.inr h1
          · exact Or.inl h1
      · simp [hc]
  · exact gen

/-! ## Mutually inverse maps under a swap -/

theorem swap_fun_perm (f g : Nat → Nat) (n : Nat) (h1 : ∀ i, i < n → f i < n ∧ g (f i) = i)
    (h2 : ∀ p, p < n → g p < n ∧ f (g p) = p) (i j : Nat) (hi : i < n) (hj : j < n) :
    (∀ k, k < n → (if k = j then f i else if k = i then f j else f k) < n ∧
      (fun p => if p = f j then i else if p = f i then j else g p) (if k = j then f i else if k = i then f j else f k) = k) ∧
    (∀ p, p < n → (if p = f j then i else if p = f i then j else g p) < n ∧
      (fun k => if k = j then f i else if k = i then f j else f k) (if p = f j then i else if p = f i then j else g p) = p) := by
  have inj : ∀ a b, a < n → b < n → f a = f b → a = b := by
    intro a b ha hb hab
    have := (h1 a ha).2; rw [hab, (h1 b hb).2] at this; exact this.symm
  constructor
  · intro k hk
    by_cases hkj : k = j
    · subst hkj
      refine ⟨by simpa using (h1 i hi).1, ?_⟩
      simp only [if_true]
      by_cases hik : f i = f k
      · simp [hik]; exact inj _ _ hi hk hik
      · simp [hik]
    · by_cases hki : k = i
      · subst hki
        simp [hkj, (h1 j hj).1]
      · have a1 : f k ≠ f j := fun h => hkj (inj _ _ hk hj h)
        have a2 : f k ≠ f i := fun h => hki (inj _ _ hk hi h)
        simp [hkj, hki, a1, a2, h1 k hk]
  · intro p hp
    by_cases hpj : p = f j
    · subst hpj
      simp [hi]
      by_cases hij : i = j
      · simp [hij]
      · simp [hij]
    · by_cases hpi : p = f i
      · subst hpi
        simp [hpj, hj]
      · have a1 : g p ≠ j := fun h => hpj (by rw [← h, (h2 p hp).2])
        have a2 : g p ≠ i := fun h => hpi (by rw [← h, (h2 p hp).2])
        simp [hpj, hpi, a1, a2, h2 p hp]

/-- the swapped arrays of `swapRows` / `swapCols` -/
theorem swap_arr_getD (a b : Array Nat) (n : Nat) (ha : a.size = n) (hb : b.size = n)
    (h1 : ∀ i, i < n → a.getD i 0 < n ∧ b.getD (a.getD i 0) 0 = i) (i j : Nat) (hi : i < n) (hj : j < n) :
    (∀ k, ((a.setIfInBounds i (a.getD j 0)).setIfInBounds j (a.getD i 0)).getD k 0 =
      if k = j then a.getD i 0 else if k = i then a.getD j 0 else a.getD k 0) ∧
    (∀ p, ((b.setIfInBounds (a.getD i 0) (b.getD (a.getD j 0) 0)).setIfInBounds (a.getD j 0) (b.getD (a.getD i 0) 0)).getD p 0 =
      if p = a.getD j 0 then i else if p = a.getD i 0 then j else b.getD p 0) := by
  constructor
  · intro k
    rw [arr_getD_set, arr_getD_set, Array.size_setIfInBounds, ha]
    by_cases hkj : k = j
    · subst hkj; simp [hj]
    · have : ¬ j = k := fun h => hkj h.symm
      by_cases hki : k = i
      · subst hki; simp [hkj, this, hi]
      · have : ¬ i = k := fun h => hki h.symm
        simp [*]
  · intro p
    rw [arr_getD_set, arr_getD_set, Array.size_setIfInBounds, hb, (h1 i hi).2, (h1 j hj).2]
    have hx := (h1 i hi).1
    have hy := (h1 j hj).1
    generalize a.getD i 0 = x at hx
    generalize a.getD j 0 = y at hy
    generalize b.getD p 0 = z
    by_cases hpj : p = y
    · subst hpj; simp [hy]
    · have : ¬ y = p := fun h => hpj h.symm
      by_cases hpi : p = x
      · subst hpi; simp [hx, this, hpj]
      · have : ¬ x = p := fun h => hpi h.symm
        simp [*]

/-! ## `mapM` over look-ups, `onesIn` -/

theorem mapM_getElem? (a : Array Nat) (l : List Nat) (h : ∀ x ∈ l, x < a.size) :
    l.mapM (fun x => a[x]?) = some (l.map fun x => a.getD x 0) := by
  induction l with
  | nil => rfl
  | cons y rest ih =>
    rw [List.mapM_cons, arr_getD_lt a y 0 (h y (List.mem_cons_self)), ih (fun x hx => h x (List.mem_cons_of_mem _ hx))]
    rfl

theorem BitMat.mem_onesIn (M : BitMat) (r a b x : Nat) : x ∈ M.onesIn r a b ↔ a ≤ x ∧ x < b ∧ M.get r x = true := by
  unfold BitMat.onesIn
  simp only [List.mem_filterMap, List.mem_range]
  constructor
  · rintro ⟨k, hk, h⟩
    by_cases hg : M.get r (a + k) = true
    · rw [if_pos hg] at h
      have : a + k = x := Option.some.inj h
      subst this
      exact ⟨by omega, by omega, hg⟩
    · rw [if_neg hg] at h; exact absurd h (by simp)
  · rintro ⟨h1, h2, h3⟩
    refine ⟨x - a, by omega, ?_⟩
    have : a + (x - a) = x := by omega
    rw [this, if_pos h3]

theorem BitMat.nodup_onesIn (M : BitMat) (r a b : Nat) : (M.onesIn r a b).Nodup := by
  unfold BitMat.onesIn
  apply List.Nodup.filterMap _ List.nodup_range
  intro k k' x h1 h2
  by_cases hg : M.get r (a + k) = true
  · by_cases hg' : M.get r (a + k') = true
    · simp only [hg, hg', if_true, Option.mem_def, Option.some.injEq] at h1 h2
      omega
    · simp [hg'] at h2
  · simp [hg] at h1

theorem BitMat.mem_onesInCol (M : BitMat) (c a b x : Nat) : x ∈ M.onesInCol c a b ↔ a ≤ x ∧ x < b ∧ M.get x c = true := by
  unfold BitMat.onesInCol
  simp only [List.mem_filterMap, List.mem_range]
  constructor
  · rintro ⟨k, hk, h⟩
    by_cases hg : M.get (a + k) c = true
    · rw [if_pos hg] at h
      have : a + k = x := Option.some.inj h
      subst this
      exact ⟨by omega, by omega, hg⟩
    · rw [if_neg hg] at h; exact absurd h (by simp)
  · rintro ⟨h1, h2, h3⟩
    refine ⟨x - a, by omega, ?_⟩
    have : a + (x - a) = x := by omega
    rw [this, if_pos h3]

theorem BitMat.nodup_onesInCol (M : BitMat) (c a b : Nat) : (M.onesInCol c a b).Nodup := by
  unfold BitMat.onesInCol
  apply List.Nodup.filterMap _ List.nodup_range
  intro k k' x h1 h2
  by_cases hg : M.get (a + k) c = true
  · by_cases hg' : M.get (a + k') c = true
    · simp only [hg, hg', if_true, Option.mem_def, Option.some.injEq] at h1 h2
      omega
    · simp [hg'] at h2
  · simp [hg] at h1


/-! ## Dense rows: the xor loop, row ranges -/

/-- the word loop of `add_assign` on the dense tail -/
def xorFold_sp (el : Array Nat) (d s n : Nat) : Array Nat :=
  (List.range n).foldl (fun el k => el.setIfInBounds (d + k) (el.getD (d + k) 0 ^^^ el.getD (s + k) 0)) el

theorem xorFold_spec_sp (el : Array Nat) (d s n : Nat) (hdisj : d + n ≤ s ∨ s + n ≤ d) (hd : d + n ≤ el.size) :
    (xorFold_sp el d s n).size = el.size ∧ ∀ q, (xorFold_sp el d s n).getD q 0 =
      if d ≤ q ∧ q < d + n then el.getD q 0 ^^^ el.getD (s + (q - d)) 0 else el.getD q 0 := by
  induction n with
  | zero =>
    refine ⟨rfl, ?_⟩
    intro q
    have : ¬ (d ≤ q ∧ q < d + 0) := by omega
    rw [if_neg this]; rfl
  | succ n ih =>
    obtain ⟨ih1, ih2⟩ := ih (by omega) (by omega)
    have hstep : xorFold_sp el d s (n + 1) = (xorFold_sp el d s n).setIfInBounds (d + n)
        ((xorFold_sp el d s n).getD (d + n) 0 ^^^ (xorFold_sp el d s n).getD (s + n) 0) := by
      unfold xorFold_sp
      rw [List.range_succ, List.foldl_append]; rfl
    rw [hstep]
    refine ⟨by rw [Array.size_setIfInBounds]; exact ih1, ?_⟩
    intro q
    rw [arr_getD_set, ih2 (d + n), ih2 (s + n), ih2 q, ih1]
    have h1 : ¬ (d ≤ d + n ∧ d + n < d + n) := by omega
    have h2 : ¬ (d ≤ s + n ∧ s + n < d + n) := by omega
    rw [if_neg h1, if_neg h2]
    by_cases h3 : d + n = q
    · subst h3
      have : d + n < el.size := by omega
      rw [if_pos ⟨rfl, this⟩, if_pos ⟨by omega, by omega⟩]
      congr 2; omega
    · rw [if_neg (fun h => h3 h.1)]
      by_cases h4 : d ≤ q ∧ q < d + n
      · rw [if_pos h4, if_pos ⟨h4.1, by omega⟩]
      · rw [if_neg h4, if_neg (by omega)]

theorem in_row_range (n p p' x : Nat) (hx : x < n) : (p * n ≤ p' * n + x ∧ p' * n + x < p * n + n) ↔ p' = p := by
  constructor
  · rintro ⟨h1, h2⟩
    rcases Nat.lt_trichotomy p' p with h | h | h
    · have : (p' + 1) * n ≤ p * n := Nat.mul_le_mul_right _ h
      rw [Nat.add_mul] at this; omega
    · exact h
    · have : (p + 1) * n ≤ p' * n := Nat.mul_le_mul_right _ h
      rw [Nat.add_mul] at this; omega
  · intro h; subst h; omega

theorem rows_disjoint_sp (n p p' : Nat) (h : p ≠ p') : p * n + n ≤ p' * n ∨ p' * n + n ≤ p * n := by
  rcases Nat.lt_or_gt_of_ne h with h | h
  · left
    have : (p + 1) * n ≤ p' * n := Nat.mul_le_mul_right _ h
    rw [Nat.add_mul] at this; omega
  · right
    have : (p' + 1) * n ≤ p * n := Nat.mul_le_mul_right _ h
    rw [Nat.add_mul] at this; omega


theorem foldl_bits_eq' (P : Nat → Prop) [DecidablePred P] (x n : Nat) (hP : ∀ b, b < n → (P b ↔ testBit64 x b = true)) :
    (List.range n).foldl (fun acc b => if P b then acc + 2 ^ b else acc) 0 = x % 2 ^ n := by
  induction n with
  | zero => simp [Nat.mod_one]
  | succ n ih =>
    rw [List.range_succ, List.foldl_append, ih (fun b hb => hP b (by omega))]
    simp only [List.foldl_cons, List.foldl_nil]
    rw [Nat.mod_pow_succ]
    have h1 := hP n (by omega)
    rw [testBit64_eq_sp, Nat.testBit_eq_decide_div_mod_eq, decide_eq_true_eq] at h1
    have := Nat.mod_two_eq_zero_or_one (x / 2 ^ n)
    by_cases hp : P n
    · rw [if_pos hp, h1.1 hp]; simp
    · rw [if_neg hp]
      have : x / 2 ^ n % 2 = 0 := by
        rcases this with h | h
        · exact h
        · exact absurd (h1.2 h) hp
      rw [this]; simp

/-! ## `resize`: `mapM`, flattening equal-length rows -/

theorem mapM_eq_some_map {α β : Type} (f : α → Option β) (g : α → β) (l : List α) (h : ∀ x ∈ l, f x = some (g x)) :
    l.mapM f = some (l.map g) := by
  induction l with
  | nil => rfl
  | cons y rest ih =>
    rw [List.mapM_cons, h y List.mem_cons_self, ih (fun x hx => h x (List.mem_cons_of_mem _ hx))]
    rfl

theorem div_mod_row (n p k : Nat) (hk : k < n) : (p * n + k) / n = p ∧ (p * n + k) % n = k := by
  have hn : 0 < n := by omega
  constructor
  · rw [Nat.add_comm, Nat.add_mul_div_right _ _ hn, Nat.div_eq_of_lt hk, Nat.zero_add]
  · rw [Nat.add_comm, Nat.add_mul_mod_self_right, Nat.mod_eq_of_lt hk]

theorem flatten_uniform (g : Nat → Nat → Nat) (nh n : Nat) :
    ((List.range nh).map fun lr => (List.range n).map (g lr)).flatten =
      (List.range (nh * n)).map fun q => g (q / n) (q % n) := by
  induction nh with
  | zero => simp
  | succ nh ih =>
    rw [List.range_succ, List.map_append, List.flatten_append, ih, Nat.succ_mul, List.range_add, List.map_append]
    congr 1
    simp only [List.map_cons, List.map_nil, List.flatten_cons, List.flatten_nil, List.append_nil, List.map_map]
    apply List.map_congr_left
    intro k hk
    rw [List.mem_range] at hk
    simp only [Function.comp]
    rw [(div_mod_row n nh k hk).1, (div_mod_row n nh k hk).2]

theorem flatten_uniform_getD (g : Nat → Nat → Nat) (nh n : Nat) :
    (((List.range nh).map fun lr => (List.range n).map (g lr)).flatten.toArray).size = nh * n ∧
    ∀ p, p < nh → ∀ k, k < n →
      (((List.range nh).map fun lr => (List.range n).map (g lr)).flatten.toArray).getD (p * n + k) 0 = g p k := by
  rw [flatten_uniform]
  constructor
  · simp
  · intro p hp k hk
    have hidx : p * n + k < nh * n := by
      have : (p + 1) * n ≤ nh * n := Nat.mul_le_mul_right _ hp
      rw [Nat.add_mul] at this; omega
    simp only [Array.getD_eq_getD_getElem?, List.getElem?_toArray, List.getElem?_map, List.getElem?_range hidx,
      Option.map_some, Option.getD_some]
    rw [(div_mod_row n p k hk).1, (div_mod_row n p k hk).2]

theorem flatten_uniform_getD' (g : Nat → Nat → Nat) (nh n i : Nat) (hi : i < nh * n) :
    (((List.range nh).map fun lr => (List.range n).map (g lr)).flatten.toArray).getD i 0 = g (i / n) (i % n) := by
  rw [flatten_uniform]
  simp only [Array.getD_eq_getD_getElem?, List.getElem?_toArray, List.getElem?_map, List.getElem?_range hi,
    Option.map_some, Option.getD_some]

end Rq
