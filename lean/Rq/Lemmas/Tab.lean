import Rq.Model.Tab
/-! The arrays of the executable model read the packed table literals: `tget (mkArr..) i = tb.. i`. -/
namespace Rq

theorem tbVia8 (t i : Nat) (chunks : Array Nat)
    (h : chunks.getD (i / 64) 0 = tbChunk 8 t (i / 64)) : tbVia 8 chunks i = tb8 t i := by
  unfold tbVia tb8 tbChunk at *
  rw [h]
  apply Nat.eq_of_testBit_eq
  intro k
  simp only [Nat.testBit_mod_two_pow, Nat.testBit_shiftRight, show (256 : Nat) = 2 ^ 8 by rfl]
  by_cases hk : k < 8
  · have h1 : 8 * (i % 64) + k < 8 * 64 := by omega
    have h2 : 8 * 64 * (i / 64) + (8 * (i % 64) + k) = 8 * i + k := by omega
    simp [hk, h1, h2]
  · simp [hk]

theorem tbVia32 (t i : Nat) (chunks : Array Nat)
    (h : chunks.getD (i / 64) 0 = tbChunk 32 t (i / 64)) : tbVia 32 chunks i = tb32 t i := by
  unfold tbVia tb32 tbChunk at *
  rw [h]
  apply Nat.eq_of_testBit_eq
  intro k
  simp only [Nat.testBit_mod_two_pow, Nat.testBit_shiftRight, show (4294967296 : Nat) = 2 ^ 32 by rfl]
  by_cases hk : k < 32
  · have h1 : 32 * (i % 64) + k < 32 * 64 := by omega
    have h2 : 32 * 64 * (i / 64) + (32 * (i % 64) + k) = 32 * i + k := by omega
    simp [hk, h1, h2]
  · simp [hk]

theorem getD_ofFn {n : Nat} (f : Fin n → Nat) (i : Nat) (h : i < n) :
    (Array.ofFn f).getD i 0 = f ⟨i, h⟩ := by
  simp [Array.getD, h]

theorem getD_ofFn_ge {n : Nat} (f : Fin n → Nat) (i : Nat) (h : n ≤ i) :
    (Array.ofFn f).getD i 0 = 0 := by
  simp [Array.getD, Nat.not_lt.mpr h]

theorem tget_mkArr8 (t n i : Nat) (h : i < n) : tget (mkArr8 t n) i = tb8 t i := by
  unfold tget mkArr8 mkArr
  rw [getD_ofFn _ _ h]
  apply tbVia8
  rw [getD_ofFn _ _ (by omega)]

theorem tget_mkArr32 (t n i : Nat) (h : i < n) : tget (mkArr32 t n) i = tb32 t i := by
  unfold tget mkArr32 mkArr
  rw [getD_ofFn _ _ h]
  apply tbVia32
  rw [getD_ofFn _ _ (by omega)]

theorem tget_mkArr8_ge (t n i : Nat) (h : n ≤ i) : tget (mkArr8 t n) i = 0 := by
  unfold tget mkArr8 mkArr; exact getD_ofFn_ge _ _ h

theorem tget_mkArr32_ge (t n i : Nat) (h : n ≤ i) : tget (mkArr32 t n) i = 0 := by
  unfold tget mkArr32 mkArr; exact getD_ofFn_ge _ _ h

theorem tb8_lt (t i : Nat) : tb8 t i < 256 := Nat.mod_lt _ (by decide)
theorem tb32_lt (t i : Nat) : tb32 t i < 4294967296 := Nat.mod_lt _ (by decide)

/-- total form: the array read equals the packed read inside the table and 0 outside -/
theorem tget8 (t n i : Nat) : tget (mkArr8 t n) i = if i < n then tb8 t i else 0 := by
  split
  · exact tget_mkArr8 t n i ‹_›
  · exact tget_mkArr8_ge t n i (by omega)

theorem tget32 (t n i : Nat) : tget (mkArr32 t n) i = if i < n then tb32 t i else 0 := by
  split
  · exact tget_mkArr32 t n i ‹_›
  · exact tget_mkArr32_ge t n i (by omega)

end Rq
