import Mathlib.Tactic
import Rq.Model.BitMat
/-!
Helper lemmas for C16 (`Dense` refines `BitMat`): bit lemmas for `testBit64` / `setBit64` /
`clearBit64` / xor / masks on u64 words, word-index arithmetic (`r * rww + c / 64`), the pointwise
view `Dense.cell` of the abstraction and `BitMat` extensionality, pointwise characterisations of the
mutators' folds (`xorFold`, `swapFold`, `swapColsStep`, `resizeStep`), and `popcount` of masked words
as a count over a bit range (`cnt`).
-/
namespace Rq

theorem testBit64_eq (x b : Nat) : testBit64 x b = x.testBit b := by
  simp [testBit64, Nat.testBit_eq_decide_div_mod_eq, Nat.shiftRight_eq_div_pow]

theorem testBit_succ_even (q j : Nat) (hq : q % 2 = 0) :
    (q + 1).testBit j = (decide (j = 0) || q.testBit j) := by
  cases j with
  | zero => simp [Nat.testBit_eq_decide_div_mod_eq]; omega
  | succ d =>
    simp only [Nat.testBit_add_one]
    have : (q + 1) / 2 = q / 2 := by omega
    simp [this]

theorem testBit_pred_odd (q j : Nat) (hq : q % 2 = 1) :
    (q - 1).testBit j = (!decide (j = 0) && q.testBit j) := by
  cases j with
  | zero => simp [Nat.testBit_eq_decide_div_mod_eq]; omega
  | succ d =>
    simp only [Nat.testBit_add_one]
    have : (q - 1) / 2 = q / 2 := by omega
    simp [this]

theorem testBit_decomp (x b j : Nat) :
    x.testBit j = if j < b then (x % 2 ^ b).testBit j else (x / 2 ^ b).testBit (j - b) := by
  have h := Nat.testBit_two_pow_mul_add (x / 2 ^ b) (Nat.mod_lt x (Nat.two_pow_pos b)) j
  rw [Nat.div_add_mod] at h
  exact h

theorem testBit64_setBit64 (x b b' : Nat) :
    testBit64 (setBit64 x b) b' = (decide (b' = b) || testBit64 x b') := by
  unfold setBit64
  split
  · rename_i h
    by_cases hb : b' = b
    · subst hb; simp [h]
    · simp [hb]
  · rename_i h
    simp only [testBit64_eq] at *
    have hq : (x / 2 ^ b) % 2 = 0 := by
      simp [Nat.testBit_eq_decide_div_mod_eq] at h; omega
    have hx : x + 2 ^ b = 2 ^ b * (x / 2 ^ b + 1) + x % 2 ^ b := by
      have := Nat.div_add_mod x (2 ^ b)
      rw [Nat.mul_add]; omega
    rw [hx, Nat.testBit_two_pow_mul_add _ (Nat.mod_lt x (Nat.two_pow_pos b)), testBit_decomp x b b']
    split
    · have : b' ≠ b := by omega
      simp [this]
    · rw [testBit_succ_even _ _ hq]
      congr 2
      simp; omega

theorem testBit64_clearBit64 (x b b' : Nat) :
    testBit64 (clearBit64 x b) b' = (!decide (b' = b) && testBit64 x b') := by
  unfold clearBit64
  split
  · rename_i h
    simp only [testBit64_eq] at *
    have hq : (x / 2 ^ b) % 2 = 1 := by
      simpa [Nat.testBit_eq_decide_div_mod_eq] using h
    have hx : x - 2 ^ b = 2 ^ b * (x / 2 ^ b - 1) + x % 2 ^ b := by
      have h0 := Nat.div_add_mod x (2 ^ b)
      generalize 2 ^ b = p at *
      have h1 : 1 ≤ x / p := by
        generalize x / p = q at hq
        omega
      obtain ⟨q, hq'⟩ := Nat.exists_eq_add_of_le h1
      rw [hq'] at h0 ⊢
      rw [Nat.mul_add] at h0
      simp at h0 ⊢
      omega
    rw [hx, Nat.testBit_two_pow_mul_add _ (Nat.mod_lt x (Nat.two_pow_pos b)), testBit_decomp x b b']
    split
    · have : b' ≠ b := by omega
      simp [this]
    · rw [testBit_pred_odd _ _ hq]
      congr 2
      simp; omega
  · rename_i h
    by_cases hb : b' = b
    · subst hb; simpa using h
    · simp [hb]

theorem lt_U64_of_testBit64 (x : Nat) (h : ∀ i, 64 ≤ i → testBit64 x i = false) : x < U64 := by
  have : U64 = 2 ^ 64 := by norm_num [U64]
  rw [this]
  apply Nat.lt_pow_two_of_testBit
  intro i hi
  rw [← testBit64_eq]; exact h i hi

theorem testBit64_of_lt (x i : Nat) (hx : x < U64) (hi : 64 ≤ i) : testBit64 x i = false := by
  rw [testBit64_eq]
  apply Nat.testBit_lt_two_pow
  calc x < 2 ^ 64 := by simpa [U64] using hx
    _ ≤ 2 ^ i := Nat.pow_le_pow_right (by norm_num) hi

theorem setBit64_lt (x b : Nat) (hx : x < U64) (hb : b < 64) : setBit64 x b < U64 := by
  apply lt_U64_of_testBit64
  intro i hi
  rw [testBit64_setBit64, testBit64_of_lt x i hx hi]
  have : i ≠ b := by omega
  simp [this]

theorem clearBit64_lt (x b : Nat) (hx : x < U64) : clearBit64 x b < U64 := by
  unfold clearBit64; split
  · exact lt_of_le_of_lt (Nat.sub_le _ _) hx
  · exact hx

theorem testBit64_xor (x y b : Nat) : testBit64 (x ^^^ y) b = (testBit64 x b != testBit64 y b) := by
  simp [testBit64_eq, Nat.testBit_xor]

theorem xor_lt_U64 (x y : Nat) (hx : x < U64) (hy : y < U64) : x ^^^ y < U64 := by
  have : U64 = 2 ^ 64 := by norm_num [U64]
  rw [this] at *
  exact Nat.xor_lt_two_pow hx hy


theorem getD_setIfInBounds_ds {α} (a : Array α) (i j : Nat) (v d : α) :
    (a.setIfInBounds i v).getD j d = if i = j ∧ i < a.size then v else a.getD j d := by
  simp only [Array.getD_eq_getD_getElem?, Array.getElem?_setIfInBounds]
  by_cases h : i = j
  · subst h
    by_cases h2 : i < a.size
    · simp [h2]
    · simp [h2]
  · simp [h]

def bitAt (el : Array Nat) (q b : Nat) : Bool := testBit64 (el.getD q 0) b

def Dense.cell (m : Dense) (r c : Nat) : Bool := bitAt m.el (r * m.rww + c / 64) (c % 64)

/-- storage invariant (same body as `C16.Inv`) -/
def Dense.WF (m : Dense) : Prop := m.h * m.rww ≤ m.el.size ∧ ∀ i, i < m.el.size → m.el.getD i 0 < U64

theorem Dense.div_lt_rww (m : Dense) (c : Nat) (hc : c < m.w) : c / 64 < m.rww := by
  unfold Dense.rww; omega

theorem Dense.div_le_rww (m : Dense) (c : Nat) (hc : c ≤ m.w) : c / 64 ≤ m.rww := by
  unfold Dense.rww; omega

theorem row_idx_lt (h rw r k : Nat) (hr : r < h) (hk : k < rw) : r * rw + k < h * rw := by
  have := Nat.mul_le_mul_right rw (Nat.succ_le_of_lt hr)
  rw [Nat.succ_mul] at this
  omega

theorem row_idx_le (h rw r k : Nat) (hr : r < h) (hk : k ≤ rw) : r * rw + k ≤ h * rw := by
  have := Nat.mul_le_mul_right rw (Nat.succ_le_of_lt hr)
  rw [Nat.succ_mul] at this
  omega

theorem row_idx_inj (rw r k r' k' : Nat) (hk : k < rw) (hk' : k' < rw) (h : r * rw + k = r' * rw + k') :
    r = r' ∧ k = k' := by
  have hpos : 0 < rw := by omega
  have h1 : (r * rw + k) / rw = r := by
    rw [Nat.mul_comm, Nat.mul_add_div hpos, Nat.div_eq_of_lt hk]; simp
  have h2 : (r' * rw + k') / rw = r' := by
    rw [Nat.mul_comm, Nat.mul_add_div hpos, Nat.div_eq_of_lt hk']; simp
  have : r = r' := by rw [← h1, ← h2, h]
  subst this
  exact ⟨rfl, by omega⟩

theorem Dense.idx_lt (m : Dense) (hsz : m.h * m.rww ≤ m.el.size) (r c : Nat) (hr : r < m.h) (hc : c < m.w) :
    r * m.rww + c / 64 < m.el.size :=
  lt_of_lt_of_le (row_idx_lt _ _ _ _ hr (m.div_lt_rww c hc)) hsz

theorem Dense.get_eq_cell (m : Dense) (hsz : m.h * m.rww ≤ m.el.size) (r c : Nat) (hr : r < m.h) (hc : c < m.w) :
    m.get r c = some (m.cell r c) := by
  simp [Dense.get, Dense.bitPos, Dense.cell, bitAt, m.idx_lt hsz r c hr hc]

theorem Dense.abs_get (m : Dense) (r c : Nat) (hr : r < m.h) (hc : c < m.w) :
    m.abs.get r c = (m.get r c).getD false := by
  simp [Dense.abs, BitMat.get, Array.getD_eq_getD_getElem?, hr, hc]

theorem Dense.abs_get_cell (m : Dense) (hsz : m.h * m.rww ≤ m.el.size) (r c : Nat) (hr : r < m.h) (hc : c < m.w) :
    m.abs.get r c = m.cell r c := by
  rw [m.abs_get r c hr hc, m.get_eq_cell hsz r c hr hc]; rfl

theorem Dense.abs_get_oob (m : Dense) (r c : Nat) (h : ¬ (r < m.h ∧ c < m.w)) : m.abs.get r c = false := by
  simp only [Dense.abs, BitMat.get, Array.getD_eq_getD_getElem?]
  by_cases hr : r < m.h
  · have hc : ¬ c < m.w := fun hc => h ⟨hr, hc⟩
    simp [hr, hc]
  · simp [hr]

theorem BitMat.ext_get (A B : BitMat) (hh : A.h = B.h) (hw : A.w = B.w)
    (hA : A.rows.size = A.h) (hB : B.rows.size = A.h)
    (hAr : ∀ r, r < A.h → (A.rows.getD r #[]).size = A.w)
    (hBr : ∀ r, r < A.h → (B.rows.getD r #[]).size = A.w)
    (hget : ∀ r c, r < A.h → c < A.w → A.get r c = B.get r c) : A = B := by
  obtain ⟨h, w, rows⟩ := A
  obtain ⟨h', w', rows'⟩ := B
  simp only at hh hw hA hB hAr hBr hget
  subst hh hw
  congr 1
  apply Array.ext (by omega)
  intro r h1 h2
  have hr : r < h := by omega
  have e1 := hAr r hr
  have e2 := hBr r hr
  have e3 := hget r
  simp only [BitMat.get, Array.getD_eq_getD_getElem?, Array.getElem?_eq_getElem h1, Array.getElem?_eq_getElem h2, Option.getD_some] at e1 e2 e3
  apply Array.ext (by omega)
  intro c h3 h4
  have := e3 c hr (by omega)
  simpa [Array.getElem?_eq_getElem h3, Array.getElem?_eq_getElem h4] using this

theorem Dense.abs_rows_size (m : Dense) : m.abs.rows.size = m.h := by simp [Dense.abs]
theorem Dense.abs_row_size (m : Dense) (r : Nat) (hr : r < m.h) : (m.abs.rows.getD r #[]).size = m.w := by
  simp [Dense.abs, Array.getD_eq_getD_getElem?, hr]

theorem Dense.eq_abs_of (B : BitMat) (m : Dense) (hh : B.h = m.h) (hw : B.w = m.w) (hsz : B.rows.size = m.h)
    (hrow : ∀ r, r < m.h → (B.rows.getD r #[]).size = m.w)
    (hget : ∀ r c, r < m.h → c < m.w → B.get r c = (m.get r c).getD false) : B = m.abs := by
  apply BitMat.ext_get
  · exact hh
  · exact hw
  · rw [hsz, hh]
  · rw [hh, m.abs_rows_size]
  · intro r hr; rw [hh] at hr; rw [hrow r hr, hw]
  · intro r hr; rw [hh] at hr; rw [m.abs_row_size r hr, hw]
  · intro r c hr hc; rw [hh] at hr; rw [hw] at hc; rw [hget r c hr hc, m.abs_get r c hr hc]


def assignBit (x b : Nat) (v : Bool) : Nat := if v then setBit64 x b else clearBit64 x b

theorem testBit64_assignBit (x b b' : Nat) (v : Bool) :
    testBit64 (assignBit x b v) b' = if b' = b then v else testBit64 x b' := by
  unfold assignBit
  cases v
  · simp only [Bool.false_eq_true, if_false, testBit64_clearBit64]
    by_cases h : b' = b <;> simp [h]
  · simp only [if_true, testBit64_setBit64]
    by_cases h : b' = b <;> simp [h]

theorem assignBit_lt (x b : Nat) (v : Bool) (hx : x < U64) (hb : b < 64) : assignBit x b v < U64 := by
  unfold assignBit; cases v
  · exact clearBit64_lt x b hx
  · exact setBit64_lt x b hx hb

theorem bitAt_assign (el : Array Nat) (idx b : Nat) (v : Bool) (hidx : idx < el.size) (q b' : Nat) :
    bitAt (el.setIfInBounds idx (assignBit (el.getD idx 0) b v)) q b' =
      if q = idx ∧ b' = b then v else bitAt el q b' := by
  unfold bitAt
  rw [getD_setIfInBounds_ds]
  by_cases hq : idx = q
  · subst hq
    simp only [hidx, and_self, if_true, testBit64_assignBit, true_and]
  · have : ¬ q = idx := fun h => hq h.symm
    simp [hq, this]

theorem bounded_setIfInBounds (el : Array Nat) (idx v : Nat) (hv : v < U64)
    (hb : ∀ i, i < el.size → el.getD i 0 < U64) :
    ∀ i, i < (el.setIfInBounds idx v).size → (el.setIfInBounds idx v).getD i 0 < U64 := by
  intro i hi
  rw [getD_setIfInBounds_ds]
  split
  · exact hv
  · exact hb i (by simpa using hi)

theorem cell_idx_eq (m : Dense) (r c r' c' : Nat) (hc : c < m.w) (hc' : c' < m.w) :
    (r' * m.rww + c' / 64 = r * m.rww + c / 64 ∧ c' % 64 = c % 64) ↔ (r' = r ∧ c' = c) := by
  constructor
  · rintro ⟨h1, h2⟩
    obtain ⟨e1, e2⟩ := row_idx_inj _ _ _ _ _ (m.div_lt_rww c' hc') (m.div_lt_rww c hc) h1
    exact ⟨e1, by omega⟩
  · rintro ⟨rfl, rfl⟩; exact ⟨rfl, rfl⟩

theorem Dense.set_spec (m : Dense) (hi : m.WF) (r c : Nat) (v : Bool) (hr : r < m.h) (hc : c < m.w) :
    ∃ m', m.set r c v = some m' ∧ m'.WF ∧ m'.h = m.h ∧ m'.w = m.w ∧
      ∀ r' c', r' < m.h → c' < m.w → m'.cell r' c' = if r' = r ∧ c' = c then v else m.cell r' c' := by
  have hidx := m.idx_lt hi.1 r c hr hc
  refine ⟨{ m with el := m.el.setIfInBounds (r * m.rww + c / 64) (assignBit (m.el.getD (r * m.rww + c / 64) 0) (c % 64) v) }, ?_, ?_, rfl, rfl, ?_⟩
  · simp only [Dense.set, Dense.bitPos, hidx, if_true, assignBit]
  · refine ⟨by simpa [Dense.rww] using hi.1, ?_⟩
    exact bounded_setIfInBounds _ _ _ (assignBit_lt _ _ _ (hi.2 _ hidx) (Nat.mod_lt _ (by norm_num))) hi.2
  · intro r' c' hr' hc'
    simp only [Dense.cell]
    change bitAt _ (r' * m.rww + c' / 64) (c' % 64) = _
    rw [bitAt_assign _ _ _ _ hidx]
    simp only [cell_idx_eq m r c r' c' hc hc']

theorem BitMat.get_set_rows (A : BitMat) (r c : Nat) (v : Bool) (r' c' : Nat) :
    BitMat.get { A with rows := A.rows.setIfInBounds r ((A.rows.getD r #[]).setIfInBounds c v) } r' c' =
      if r' = r ∧ c' = c ∧ r < A.rows.size ∧ c < (A.rows.getD r #[]).size then v else A.get r' c' := by
  simp only [BitMat.get]
  rw [getD_setIfInBounds_ds]
  by_cases h1 : r = r'
  · subst h1
    by_cases h2 : r < A.rows.size
    · simp only [h2, and_self, if_true, true_and]
      rw [getD_setIfInBounds_ds]
      by_cases h3 : c = c'
      · subst h3; simp
      · have : ¬ c' = c := fun h => h3 h.symm
        simp [h3, this]
    · simp [h2]
  · have : ¬ r' = r := fun h => h1 h.symm
    simp [h1, this]


theorem row_idx_range (rw r k d : Nat) (hk : k < rw) :
    (d * rw ≤ r * rw + k ∧ r * rw + k < d * rw + rw) ↔ r = d := by
  constructor
  · rintro ⟨h1, h2⟩
    rcases Nat.lt_trichotomy r d with h | h | h
    · have := Nat.mul_le_mul_right rw (Nat.succ_le_of_lt h)
      rw [Nat.succ_mul] at this; omega
    · exact h
    · have := Nat.mul_le_mul_right rw (Nat.succ_le_of_lt h)
      rw [Nat.succ_mul] at this; omega
  · rintro rfl; omega

def xorFold (d s : Nat) (el0 : Array Nat) (n : Nat) : Array Nat :=
  (List.range n).foldl (fun el k => el.setIfInBounds (d + k) (el.getD (d + k) 0 ^^^ el.getD (s + k) 0)) el0

theorem xorFold_succ (d s : Nat) (el0 : Array Nat) (n : Nat) :
    xorFold d s el0 (n + 1) =
      (xorFold d s el0 n).setIfInBounds (d + n) ((xorFold d s el0 n).getD (d + n) 0 ^^^ (xorFold d s el0 n).getD (s + n) 0) := by
  simp [xorFold, List.range_succ, List.foldl_append]

theorem xorFold_spec (d s : Nat) (el0 : Array Nat) (n : Nat)
    (hdis : ∀ k k', k < n → k' < n → d + k ≠ s + k') (hd : d + n ≤ el0.size) :
    (xorFold d s el0 n).size = el0.size ∧
    ∀ i, (xorFold d s el0 n).getD i 0 =
      if d ≤ i ∧ i < d + n then el0.getD i 0 ^^^ el0.getD (s + (i - d)) 0 else el0.getD i 0 := by
  induction n with
  | zero =>
    refine ⟨rfl, fun i => ?_⟩
    have : ¬ (d ≤ i ∧ i < d + 0) := by omega
    simp [xorFold]
  | succ n ih =>
    obtain ⟨ih1, ih2⟩ := ih (fun k k' hk hk' => hdis k k' (by omega) (by omega)) (by omega)
    rw [xorFold_succ]
    refine ⟨by rw [Array.size_setIfInBounds, ih1], fun i => ?_⟩
    rw [getD_setIfInBounds_ds, ih1]
    by_cases hi : d + n = i
    · subst hi
      have h1 : d + n < el0.size := by omega
      have h2 : d ≤ d + n ∧ d + n < d + (n + 1) := by omega
      have h3 : ¬ (d ≤ d + n ∧ d + n < d + n) := by omega
      have h4 : ¬ (d ≤ s + n ∧ s + n < d + n) := by
        rintro ⟨a, b⟩
        exact hdis (s + n - d) n (by omega) (by omega) (by omega)
      have e1 : (xorFold d s el0 n).getD (d + n) 0 = el0.getD (d + n) 0 := by rw [ih2]; exact if_neg h3
      have e2 : (xorFold d s el0 n).getD (s + n) 0 = el0.getD (s + n) 0 := by rw [ih2]; exact if_neg h4
      have e3 : s + (d + n - d) = s + n := by omega
      rw [if_pos ⟨rfl, h1⟩, if_pos h2, e1, e2, e3]
    · have h2 : (d ≤ i ∧ i < d + (n + 1)) ↔ (d ≤ i ∧ i < d + n) := by omega
      simp only [hi, false_and, if_false, ih2, h2]

theorem Dense.addAssign_spec (m : Dense) (hi : m.WF) (dest src : Nat) (hd : dest < m.h) (hs : src < m.h)
    (hne : dest ≠ src) :
    ∃ m', m.addAssign dest src = some m' ∧ m'.WF ∧ m'.h = m.h ∧ m'.w = m.w ∧
      ∀ r c, r < m.h → c < m.w → m'.cell r c = if r = dest then (m.cell dest c != m.cell src c) else m.cell r c := by
  have hd' : dest * m.rww + m.rww ≤ m.el.size := le_trans (row_idx_le _ _ _ _ hd le_rfl) hi.1
  have hs' : src * m.rww + m.rww ≤ m.el.size := le_trans (row_idx_le _ _ _ _ hs le_rfl) hi.1
  have hdis : ∀ k k', k < m.rww → k' < m.rww → dest * m.rww + k ≠ src * m.rww + k' := by
    intro k k' hk hk' h
    exact hne (row_idx_inj _ _ _ _ _ hk hk' h).1
  obtain ⟨sz, sp⟩ := xorFold_spec (dest * m.rww) (src * m.rww) m.el m.rww hdis hd'
  refine ⟨{ m with el := xorFold (dest * m.rww) (src * m.rww) m.el m.rww }, ?_, ?_, rfl, rfl, ?_⟩
  · simp only [Dense.addAssign, ne_eq, hne, not_false_eq_true, hd', hs', and_self, if_true, xorFold]
  · refine ⟨?_, ?_⟩
    · show m.h * m.rww ≤ _
      rw [sz]; exact hi.1
    intro i hi'
    change i < (xorFold (dest * m.rww) (src * m.rww) m.el m.rww).size at hi'
    rw [sz] at hi'
    show (xorFold (dest * m.rww) (src * m.rww) m.el m.rww).getD i 0 < U64
    rw [sp]
    by_cases h : dest * m.rww ≤ i ∧ i < dest * m.rww + m.rww
    · rw [if_pos h]; exact xor_lt_U64 _ _ (hi.2 _ hi') (hi.2 _ (by omega))
    · rw [if_neg h]; exact hi.2 _ hi'
  · intro r c hr hc
    have hk := m.div_lt_rww c hc
    simp only [Dense.cell, bitAt]
    change testBit64 ((xorFold (dest * m.rww) (src * m.rww) m.el m.rww).getD (r * m.rww + c / 64) 0) (c % 64) = _
    simp only [sp, row_idx_range _ _ _ _ hk]
    by_cases h : r = dest
    · subst h
      simp only [if_true, testBit64_xor]
      congr 4; omega
    · simp only [h, if_false]

theorem BitMat.get_addAssign_rows (A : BitMat) (dest : Nat) (s : Array Bool) (r c : Nat) :
    BitMat.get { A with rows := A.rows.setIfInBounds dest ((A.rows.getD dest #[]).mapIdx fun c b => b != s.getD c false) } r c =
      if r = dest ∧ dest < A.rows.size ∧ c < (A.rows.getD dest #[]).size then (A.get dest c != s.getD c false) else A.get r c := by
  simp only [BitMat.get]
  rw [getD_setIfInBounds_ds]
  by_cases h1 : dest = r
  · subst h1
    by_cases h2 : dest < A.rows.size
    · simp only [h2, and_self, if_true, true_and]
      by_cases h3 : c < (A.rows.getD dest #[]).size
      · simp only [Array.getD_eq_getD_getElem?] at h3 ⊢
        simp [h3]
      · simp only [Array.getD_eq_getD_getElem?] at h3 ⊢
        simp [h3]
    · simp [h2]
  · have : ¬ r = dest := fun h => h1 h.symm
    simp [h1, this]


theorem Dense.eq_abs_of_cell (B : BitMat) (m : Dense) (hi : m.WF) (hh : B.h = m.h) (hw : B.w = m.w)
    (hsz : B.rows.size = m.h)
    (hrow : ∀ r, r < m.h → (B.rows.getD r #[]).size = m.w)
    (hget : ∀ r c, r < m.h → c < m.w → B.get r c = m.cell r c) : B = m.abs := by
  apply Dense.eq_abs_of B m hh hw hsz hrow
  intro r c hr hc
  rw [hget r c hr hc, m.get_eq_cell hi.1 r c hr hc]; rfl

def swapFold (ri rj : Nat) (el0 : Array Nat) (n : Nat) : Array Nat :=
  (List.range n).foldl (fun el k =>
      let a := el.getD (ri + k) 0
      let b := el.getD (rj + k) 0
      (el.setIfInBounds (ri + k) b).setIfInBounds (rj + k) a) el0

theorem swapFold_succ (ri rj : Nat) (el0 : Array Nat) (n : Nat) :
    swapFold ri rj el0 (n + 1) =
      ((swapFold ri rj el0 n).setIfInBounds (ri + n) ((swapFold ri rj el0 n).getD (rj + n) 0)).setIfInBounds (rj + n)
        ((swapFold ri rj el0 n).getD (ri + n) 0) := by
  simp [swapFold, List.range_succ, List.foldl_append]

theorem swapFold_spec (ri rj : Nat) (el0 : Array Nat) (n : Nat)
    (hdis : ri = rj ∨ ri + n ≤ rj ∨ rj + n ≤ ri) (hi : ri + n ≤ el0.size) (hj : rj + n ≤ el0.size) :
    (swapFold ri rj el0 n).size = el0.size ∧
    ∀ i, (swapFold ri rj el0 n).getD i 0 =
      if ri ≤ i ∧ i < ri + n then el0.getD (rj + (i - ri)) 0
      else if rj ≤ i ∧ i < rj + n then el0.getD (ri + (i - rj)) 0 else el0.getD i 0 := by
  induction n with
  | zero =>
    refine ⟨rfl, fun i => ?_⟩
    rw [if_neg (by omega), if_neg (by omega)]; rfl
  | succ n ih =>
    obtain ⟨ih1, ih2⟩ := ih (by omega) (by omega) (by omega)
    rw [swapFold_succ]
    refine ⟨by rw [Array.size_setIfInBounds, Array.size_setIfInBounds, ih1], fun i => ?_⟩
    have e1 : (swapFold ri rj el0 n).getD (ri + n) 0 = el0.getD (ri + n) 0 := by
      rw [ih2, if_neg (by omega), if_neg (by omega)]
    have e2 : (swapFold ri rj el0 n).getD (rj + n) 0 = el0.getD (rj + n) 0 := by
      rw [ih2, if_neg (by omega), if_neg (by omega)]
    rw [getD_setIfInBounds_ds, getD_setIfInBounds_ds, Array.size_setIfInBounds, ih1, e1, e2]
    by_cases h1 : rj + n = i
    · subst h1
      rw [if_pos ⟨rfl, by omega⟩]
      by_cases h2 : ri ≤ rj + n ∧ rj + n < ri + (n + 1)
      · rw [if_pos h2]; congr 1; omega
      · rw [if_neg h2, if_pos (by omega)]; congr 1; omega
    · rw [if_neg (fun h => h1 h.1)]
      by_cases h2 : ri + n = i
      · subst h2; rw [if_pos ⟨rfl, by omega⟩, if_pos (by omega)]; congr 1; omega
      · rw [if_neg (fun h => h2 h.1), ih2]
        have c1 : (ri ≤ i ∧ i < ri + (n + 1)) ↔ (ri ≤ i ∧ i < ri + n) := by omega
        have c2 : (rj ≤ i ∧ i < rj + (n + 1)) ↔ (rj ≤ i ∧ i < rj + n) := by omega
        simp only [c1, c2]

theorem rows_disjoint (rw i j : Nat) : i * rw = j * rw ∨ i * rw + rw ≤ j * rw ∨ j * rw + rw ≤ i * rw := by
  rcases Nat.lt_trichotomy i j with h | h | h
  · have := Nat.mul_le_mul_right rw (Nat.succ_le_of_lt h)
    rw [Nat.succ_mul] at this; omega
  · subst h; left; rfl
  · have := Nat.mul_le_mul_right rw (Nat.succ_le_of_lt h)
    rw [Nat.succ_mul] at this; omega

theorem Dense.swapRows_spec (m : Dense) (hi : m.WF) (i j : Nat) (hi' : i < m.h) (hj : j < m.h) :
    ∃ m', m.swapRows i j = some m' ∧ m'.WF ∧ m'.h = m.h ∧ m'.w = m.w ∧
      ∀ r c, r < m.h → c < m.w →
        m'.cell r c = if r = i then m.cell j c else if r = j then m.cell i c else m.cell r c := by
  have hd' : i * m.rww + m.rww ≤ m.el.size := le_trans (row_idx_le _ _ _ _ hi' le_rfl) hi.1
  have hs' : j * m.rww + m.rww ≤ m.el.size := le_trans (row_idx_le _ _ _ _ hj le_rfl) hi.1
  obtain ⟨sz, sp⟩ := swapFold_spec (i * m.rww) (j * m.rww) m.el m.rww (rows_disjoint _ _ _) hd' hs'
  refine ⟨{ m with el := swapFold (i * m.rww) (j * m.rww) m.el m.rww }, ?_, ?_, rfl, rfl, ?_⟩
  · simp only [Dense.swapRows, hd', hs', and_self, if_true, swapFold]
  · refine ⟨?_, ?_⟩
    · show m.h * m.rww ≤ _
      rw [sz]; exact hi.1
    intro q hq
    change q < (swapFold (i * m.rww) (j * m.rww) m.el m.rww).size at hq
    rw [sz] at hq
    show (swapFold (i * m.rww) (j * m.rww) m.el m.rww).getD q 0 < U64
    rw [sp]
    by_cases h : i * m.rww ≤ q ∧ q < i * m.rww + m.rww
    · rw [if_pos h]; exact hi.2 _ (by omega)
    · rw [if_neg h]
      by_cases h' : j * m.rww ≤ q ∧ q < j * m.rww + m.rww
      · rw [if_pos h']; exact hi.2 _ (by omega)
      · rw [if_neg h']; exact hi.2 _ hq
  · intro r c hr hc
    have hk := m.div_lt_rww c hc
    simp only [Dense.cell, bitAt]
    change testBit64 ((swapFold (i * m.rww) (j * m.rww) m.el m.rww).getD (r * m.rww + c / 64) 0) (c % 64) = _
    simp only [sp, row_idx_range _ _ _ _ hk]
    by_cases h : r = i
    · subst h
      simp only [if_true]
      congr 3; omega
    · simp only [h, if_false]
      by_cases h' : r = j
      · subst h'
        simp only [if_true]
        congr 3; omega
      · simp only [h', if_false]

theorem BitMat.get_swapRows_rows (A : BitMat) (i j : Nat) (hi : i < A.rows.size) (hj : j < A.rows.size) (r c : Nat) :
    BitMat.get { A with rows := (A.rows.setIfInBounds i (A.rows.getD j #[])).setIfInBounds j (A.rows.getD i #[]) } r c =
      if r = j then A.get i c else if r = i then A.get j c else A.get r c := by
  simp only [BitMat.get]
  rw [getD_setIfInBounds_ds, getD_setIfInBounds_ds, Array.size_setIfInBounds]
  by_cases h1 : j = r
  · subst h1; simp [hj]
  · have h1' : ¬ r = j := fun h => h1 h.symm
    simp only [h1, h1', false_and, if_false]
    by_cases h2 : i = r
    · subst h2; simp [hi]
    · have h2' : ¬ r = i := fun h => h2 h.symm
      simp only [h2, h2', false_and, if_false]


def swapColsStep (wi bi wj bj rw hint : Nat) (m : Dense) (k : Nat) : Option Dense :=
  let row := hint + k
  let pi := row * rw + wi
  let pj := row * rw + wj
  if pi < m.el.size ∧ pj < m.el.size then
    let iSet := testBit64 (m.el.getD pi 0) bi
    let jSet := testBit64 (m.el.getD pj 0) bj
    let el := m.el.setIfInBounds pi (if jSet then setBit64 (m.el.getD pi 0) bi else clearBit64 (m.el.getD pi 0) bi)
    let el := el.setIfInBounds pj (if iSet then setBit64 (el.getD pj 0) bj else clearBit64 (el.getD pj 0) bj)
    some { m with el }
  else none

theorem Dense.swapCols_eq (m : Dense) (i j hint : Nat) :
    m.swapCols i j hint =
      (List.range (m.h - hint)).foldlM (swapColsStep (i / 64) (i % 64) (j / 64) (j % 64) m.rww hint) m := rfl

theorem swapColsStep_spec (m : Dense) (hi : m.WF) (i j hint k : Nat) (hi' : i < m.w) (hj : j < m.w)
    (hrow : hint + k < m.h) :
    ∃ m', swapColsStep (i / 64) (i % 64) (j / 64) (j % 64) m.rww hint m k = some m' ∧ m'.WF ∧
      m'.h = m.h ∧ m'.w = m.w ∧
      ∀ r c, r < m.h → c < m.w →
        m'.cell r c = if r = hint + k then
            (if c = j then m.cell r i else if c = i then m.cell r j else m.cell r c)
          else m.cell r c := by
  have hpi := m.idx_lt hi.1 (hint + k) i hrow hi'
  have hpj := m.idx_lt hi.1 (hint + k) j hrow hj
  generalize hpi' : (hint + k) * m.rww + i / 64 = pi at hpi
  generalize hpj' : (hint + k) * m.rww + j / 64 = pj at hpj
  let el1 := m.el.setIfInBounds pi (assignBit (m.el.getD pi 0) (i % 64) (testBit64 (m.el.getD pj 0) (j % 64)))
  let el2 := el1.setIfInBounds pj (assignBit (el1.getD pj 0) (j % 64) (testBit64 (m.el.getD pi 0) (i % 64)))
  have hpj1 : pj < el1.size := by simpa [el1] using hpj
  have hb1 : ∀ q, q < el1.size → el1.getD q 0 < U64 :=
    bounded_setIfInBounds _ _ _ (assignBit_lt _ _ _ (hi.2 _ hpi) (Nat.mod_lt _ (by norm_num))) hi.2
  refine ⟨{ m with el := el2 }, ?_, ?_, rfl, rfl, ?_⟩
  · simp only [swapColsStep, hpi', hpj', hpi, hpj, and_self, if_true, el2, el1, assignBit]
  · refine ⟨?_, ?_⟩
    · show m.h * m.rww ≤ el2.size
      simpa [el2, el1] using hi.1
    · exact bounded_setIfInBounds _ _ _ (assignBit_lt _ _ _ (hb1 _ hpj1) (Nat.mod_lt _ (by norm_num))) hb1
  · intro r c hr hc
    show bitAt el2 (r * m.rww + c / 64) (c % 64) = _
    simp only [el2]
    rw [bitAt_assign _ _ _ _ hpj1]
    simp only [el1]
    rw [bitAt_assign _ _ _ _ hpi]
    simp only [← hpi', ← hpj', cell_idx_eq m _ j r c hj hc, cell_idx_eq m _ i r c hi' hc]
    by_cases h : r = hint + k
    · subst h
      simp only [true_and, if_true, Dense.cell, bitAt]
    · simp only [h, false_and, if_false, Dense.cell]

theorem swapCols_fold_spec (m : Dense) (hi : m.WF) (i j hint : Nat) (hi' : i < m.w) (hj : j < m.w)
    (n : Nat) (hn : hint + n ≤ m.h) :
    ∃ m', (List.range n).foldlM (swapColsStep (i / 64) (i % 64) (j / 64) (j % 64) m.rww hint) m = some m' ∧
      m'.WF ∧ m'.h = m.h ∧ m'.w = m.w ∧
      ∀ r c, r < m.h → c < m.w →
        m'.cell r c = if hint ≤ r ∧ r < hint + n then
            (if c = j then m.cell r i else if c = i then m.cell r j else m.cell r c)
          else m.cell r c := by
  induction n with
  | zero =>
    refine ⟨m, rfl, hi, rfl, rfl, fun r c _ _ => ?_⟩
    rw [if_neg (by omega)]
  | succ n ih =>
    obtain ⟨m1, f1, w1, hh1, hw1, c1⟩ := ih (by omega)
    have hrw : m1.rww = m.rww := by simp [Dense.rww, hw1]
    obtain ⟨m2, f2, w2, hh2, hw2, c2⟩ := swapColsStep_spec m1 w1 i j hint n (hw1 ▸ hi') (hw1 ▸ hj) (by omega)
    rw [hrw] at f2
    refine ⟨m2, ?_, w2, hh2.trans hh1, hw2.trans hw1, ?_⟩
    · rw [List.range_succ, List.foldlM_append, f1]
      simp [f2]
    · intro r c hr hc
      rw [c2 r c (hh1 ▸ hr) (hw1 ▸ hc)]
      by_cases h : r = hint + n
      · have hn1 : ¬ (hint ≤ r ∧ r < hint + n) := by omega
        have hn2 : hint ≤ r ∧ r < hint + (n + 1) := by omega
        rw [if_pos h, if_pos hn2, c1 _ _ hr hi', c1 _ _ hr hj, c1 _ _ hr hc]
        simp only [hn1, if_false]
      · rw [if_neg h, c1 r c hr hc]
        have : (hint ≤ r ∧ r < hint + (n + 1)) ↔ (hint ≤ r ∧ r < hint + n) := by omega
        simp only [this]

theorem BitMat.get_swapCols_rows (A : BitMat) (i j : Nat) (r c : Nat) (hr : r < A.rows.size)
    (hi : i < (A.rows.getD r #[]).size) (hj : j < (A.rows.getD r #[]).size) :
    BitMat.get { A with rows := A.rows.map fun row => (row.setIfInBounds i (row.getD j false)).setIfInBounds j (row.getD i false) } r c =
      if c = j then A.get r i else if c = i then A.get r j else A.get r c := by
  simp only [BitMat.get]
  have e : (A.rows.map fun row => (row.setIfInBounds i (row.getD j false)).setIfInBounds j (row.getD i false)).getD r #[] =
      ((A.rows.getD r #[]).setIfInBounds i ((A.rows.getD r #[]).getD j false)).setIfInBounds j ((A.rows.getD r #[]).getD i false) := by
    simp [Array.getD_eq_getD_getElem?, hr]
  rw [e, getD_setIfInBounds_ds, getD_setIfInBounds_ds, Array.size_setIfInBounds]
  by_cases h1 : j = c
  · subst h1; simp only [hj, and_self, if_true]
  · have h1' : ¬ c = j := fun h => h1 h.symm
    simp only [h1, h1', false_and, if_false]
    by_cases h2 : i = c
    · subst h2; simp only [hi, and_self, if_true]
    · have h2' : ¬ c = i := fun h => h2 h.symm
      simp only [h2, h2', false_and, if_false]


theorem mapM_some_of_forall {α β} (l : List α) (f : α → Option β) (g : α → β)
    (h : ∀ x ∈ l, f x = some (g x)) : l.mapM f = some (l.map g) := by
  induction l with
  | nil => rfl
  | cons a l ih =>
    rw [List.mapM_cons, h a (by simp), ih (fun x hx => h x (by simp [hx]))]
    rfl

/-- number of `k ∈ [a, b)` with `f k` -/
def cnt (f : Nat → Bool) (a b : Nat) : Nat := (List.range (b - a)).countP fun k => f (a + k)

theorem cnt_split (f : Nat → Bool) (a b c : Nat) (hab : a ≤ b) (hbc : b ≤ c) :
    cnt f a c = cnt f a b + cnt f b c := by
  unfold cnt
  have e : c - a = (b - a) + (c - b) := by omega
  rw [e, List.range_add, List.countP_append, List.countP_map]
  congr 1
  apply List.countP_congr
  intro k _
  have : a + (b - a + k) = b + k := by omega
  simp [this]

theorem cnt_congr (f g : Nat → Bool) (a b a' b' : Nat) (hlen : b - a = b' - a')
    (h : ∀ k, k < b - a → f (a + k) = g (a' + k)) : cnt f a b = cnt g a' b' := by
  unfold cnt
  rw [← hlen]
  apply List.countP_congr
  intro k hk
  rw [List.mem_range] at hk
  simp [h k hk]

theorem cnt_zero (f : Nat → Bool) (a b : Nat) (h : ∀ k, a ≤ k → k < b → f k = false) : cnt f a b = 0 := by
  unfold cnt
  rw [List.countP_eq_zero]
  intro k hk
  rw [List.mem_range] at hk
  simp [h (a + k) (by omega) (by omega)]

theorem cnt_empty (f : Nat → Bool) (a b : Nat) (h : b ≤ a) : cnt f a b = 0 := by
  unfold cnt
  have : b - a = 0 := by omega
  rw [this]; rfl

theorem foldl_count (l : List Nat) (p : Nat → Bool) (n : Nat) :
    l.foldl (fun acc b => if p b then acc + 1 else acc) n = n + l.countP p := by
  induction l generalizing n with
  | nil => rfl
  | cons a l ih =>
    rw [List.foldl_cons, ih, List.countP_cons]
    by_cases h : p a <;> simp [h]; omega

theorem popcount_eq_cnt (x : Nat) : popcount x = cnt (testBit64 x) 0 64 := by
  unfold popcount cnt
  rw [foldl_count]
  simp

theorem popcount_masked (x y s e : Nat) (hse : s ≤ e) (he : e ≤ 64)
    (h : ∀ b, b < 64 → testBit64 y b = (testBit64 x b && decide (s ≤ b) && decide (b < e))) :
    popcount y = cnt (testBit64 x) s e := by
  rw [popcount_eq_cnt, cnt_split _ 0 s 64 (by omega) (by omega), cnt_split _ s e 64 hse he]
  rw [cnt_zero _ 0 s, cnt_zero _ e 64]
  · simp only [Nat.zero_add, Nat.add_zero]
    apply cnt_congr _ _ _ _ _ _ rfl
    intro k hk
    rw [h (s + k) (by omega)]
    have h1 : s ≤ s + k := by omega
    have h2 : s + k < e := by omega
    simp [h1, h2]
  · intro k hk1 hk2
    rw [h k hk2]
    have : ¬ k < e := by omega
    simp [this]
  · intro k hk1 hk2
    rw [h k (by omega)]
    have : ¬ s ≤ k := by omega
    simp [this]

theorem testBit64_and (x y b : Nat) : testBit64 (x &&& y) b = (testBit64 x b && testBit64 y b) := by
  simp [testBit64_eq]

theorem testBit64_maskFrom (s b : Nat) (hs : s ≤ 64) :
    testBit64 (maskFrom s) b = (decide (s ≤ b) && decide (b < 64)) := by
  have h1 : 2 ^ s - 1 < 2 ^ 64 :=
    lt_of_lt_of_le (Nat.sub_lt (Nat.two_pow_pos s) (by norm_num)) (Nat.pow_le_pow_right (by norm_num) hs)
  have h2 : maskFrom s = 2 ^ 64 - (2 ^ s - 1 + 1) := by
    have := Nat.two_pow_pos s
    unfold maskFrom U64
    rw [Nat.sub_add_cancel this]
    norm_num
  rw [testBit64_eq, h2, Nat.testBit_two_pow_sub_succ h1, Nat.testBit_two_pow_sub_one]
  by_cases h3 : b < s
  · have : ¬ s ≤ b := by omega
    simp [h3, this]
  · have : s ≤ b := by omega
    simp [h3, this]

theorem testBit64_maskBelow (e b : Nat) : testBit64 (maskBelow e) b = decide (b < e) := by
  rw [testBit64_eq, maskBelow, Nat.testBit_two_pow_sub_one]

theorem popcount_from_below (x s e : Nat) (hse : s ≤ e) (he : e ≤ 64) :
    popcount ((x &&& maskFrom s) &&& maskBelow e) = cnt (testBit64 x) s e := by
  apply popcount_masked x _ s e hse he
  intro b hb
  rw [testBit64_and, testBit64_and, testBit64_maskFrom s b (by omega), testBit64_maskBelow]
  simp [hb]

theorem popcount_from (x s : Nat) (hs : s ≤ 64) :
    popcount (x &&& maskFrom s) = cnt (testBit64 x) s 64 := by
  apply popcount_masked x _ s 64 hs le_rfl
  intro b hb
  rw [testBit64_and, testBit64_maskFrom s b hs]
  simp [hb]

theorem popcount_below (x e : Nat) (he : e ≤ 64) :
    popcount (x &&& maskBelow e) = cnt (testBit64 x) 0 e := by
  apply popcount_masked x _ 0 e (by omega) he
  intro b hb
  rw [testBit64_and, testBit64_maskBelow]
  simp

theorem popcount_whole (x : Nat) : popcount x = cnt (testBit64 x) 0 64 := popcount_eq_cnt x

/-- the cells of one word -/
theorem Dense.cnt_cell_word (m : Dense) (r q a b : Nat) (ha : 64 * q ≤ a) (hb : b ≤ 64 * q + 64) :
    cnt (m.cell r) a b = cnt (testBit64 (m.el.getD (r * m.rww + q) 0)) (a - 64 * q) (b - 64 * q) := by
  apply cnt_congr _ _ _ _ _ _ (by omega)
  intro k hk
  have e1 : (a + k) / 64 = q := by omega
  have e2 : (a + k) % 64 = a - 64 * q + k := by omega
  simp only [Dense.cell, bitAt, e1, e2]

/-- whole words -/
theorem Dense.cnt_cell_words (m : Dense) (r q0 n : Nat) :
    cnt (m.cell r) (64 * q0) (64 * (q0 + n)) =
      (List.range n).foldl (fun acc k => acc + popcount (m.el.getD (r * m.rww + q0 + k) 0)) 0 := by
  induction n with
  | zero => simp [cnt_empty]
  | succ n ih =>
    rw [List.range_succ, List.foldl_append, ← ih,
      cnt_split _ (64 * q0) (64 * (q0 + n)) (64 * (q0 + (n + 1))) (by omega) (by omega)]
    simp only [List.foldl_cons, List.foldl_nil]
    congr 1
    rw [m.cnt_cell_word r (q0 + n) _ _ le_rfl (by omega), popcount_whole]
    have e1 : 64 * (q0 + n) - 64 * (q0 + n) = 0 := by omega
    have e2 : 64 * (q0 + (n + 1)) - 64 * (q0 + n) = 64 := by omega
    rw [e1, e2, Nat.add_assoc]

theorem filterMap_ite_length {α β} (l : List α) (p : α → Bool) (g : α → β) :
    (l.filterMap fun k => if p k then some (g k) else none).length = l.countP p := by
  induction l with
  | nil => rfl
  | cons a l ih =>
    rw [List.filterMap_cons, List.countP_cons]
    by_cases h : p a <;> simp [h, ih]

theorem BitMat.countOnes_eq_cnt (A : BitMat) (r a b : Nat) : A.countOnes r a b = cnt (A.get r) a b := by
  unfold BitMat.countOnes BitMat.onesIn cnt
  exact filterMap_ite_length _ (fun k => A.get r (a + k)) _


theorem Dense.countOnes_eq (m : Dense) (r a b : Nat) : m.countOnes r a b =
    if r * m.rww + a / 64 = r * m.rww + b / 64 then
      if r * m.rww + a / 64 < m.el.size then
        some (popcount ((m.el.getD (r * m.rww + a / 64) 0 &&& maskFrom (a % 64)) &&& maskBelow (b % 64)))
      else none
    else
      if r * m.rww + a / 64 < m.el.size ∧
          (r * m.rww + b / 64 ≤ r * m.rww + a / 64 + 1 ∨ r * m.rww + b / 64 - 1 < m.el.size) ∧
          (b % 64 = 0 ∨ r * m.rww + b / 64 < m.el.size) then
        some (popcount (m.el.getD (r * m.rww + a / 64) 0 &&& maskFrom (a % 64)) +
          (List.range (r * m.rww + b / 64 - (r * m.rww + a / 64 + 1))).foldl
            (fun acc k => acc + popcount (m.el.getD (r * m.rww + a / 64 + 1 + k) 0)) 0 +
          if b % 64 > 0 then popcount (m.el.getD (r * m.rww + b / 64) 0 &&& maskBelow (b % 64)) else 0)
      else none := rfl

def resizeStep (nrw remove : Nat) (st : Array Nat × Nat) (dest : Nat) : Array Nat × Nat :=
  let (el, src) := st
  let el := el.setIfInBounds dest (el.getD src 0)
  let src := src + 1
  (el, if (dest + 1) % nrw = 0 then src + remove else src)

theorem Dense.resize_eq (m : Dense) (nh nw : Nat) :
    m.resize nh nw =
      if nh ≤ m.h ∧ nw ≤ m.w then
        some { h := nh, w := nw,
               el := (if m.rww - (nw + 63) / 64 > 0 then
                  ((List.range (nh * ((nw + 63) / 64))).foldl (resizeStep ((nw + 63) / 64) (m.rww - (nw + 63) / 64)) (m.el, 0)).1
                else m.el).extract 0 (nh * ((nw + 63) / 64)) }
      else none := rfl

theorem resize_src_step (nrw old d : Nat) (hpos : 0 < nrw) (hle : nrw ≤ old) :
    ((d + 1) / nrw) * old + (d + 1) % nrw =
      if (d + 1) % nrw = 0 then (d / nrw) * old + d % nrw + 1 + (old - nrw) else (d / nrw) * old + d % nrw + 1 := by
  have h0 := Nat.div_add_mod d nrw
  have ht := Nat.mod_lt d hpos
  generalize d / nrw = q at *
  generalize d % nrw = t at *
  subst h0
  by_cases h : t + 1 < nrw
  · have e1 : (nrw * q + t + 1) / nrw = q := by
      rw [Nat.add_assoc, Nat.mul_add_div hpos, Nat.div_eq_of_lt h]; rfl
    have e2 : (nrw * q + t + 1) % nrw = t + 1 := by
      rw [Nat.add_assoc, Nat.mul_add_mod, Nat.mod_eq_of_lt h]
    rw [e1, e2, if_neg (by omega)]
    omega
  · have e0 : nrw * q + t + 1 = nrw * (q + 1) := by rw [Nat.mul_add]; omega
    have e1 : (nrw * q + t + 1) / nrw = q + 1 := by rw [e0, Nat.mul_div_cancel_left _ hpos]
    have e2 : (nrw * q + t + 1) % nrw = 0 := by rw [e0, Nat.mul_mod_right]
    rw [e1, e2, if_pos rfl, Nat.add_mul]
    omega

theorem resize_src_ge (nrw old d : Nat) (hle : nrw ≤ old) : d ≤ (d / nrw) * old + d % nrw := by
  have h0 := Nat.div_add_mod d nrw
  have := Nat.mul_le_mul_left (d / nrw) hle
  rw [Nat.mul_comm] at h0
  omega

theorem resizeFold_spec (nrw old : Nat) (el0 : Array Nat) (hpos : 0 < nrw) (hle : nrw ≤ old) (d : Nat)
    (hd : d ≤ el0.size) :
    ((List.range d).foldl (resizeStep nrw (old - nrw)) (el0, 0)).2 = (d / nrw) * old + d % nrw ∧
    ((List.range d).foldl (resizeStep nrw (old - nrw)) (el0, 0)).1.size = el0.size ∧
    ∀ i, ((List.range d).foldl (resizeStep nrw (old - nrw)) (el0, 0)).1.getD i 0 =
      if i < d then el0.getD ((i / nrw) * old + i % nrw) 0 else el0.getD i 0 := by
  induction d with
  | zero =>
    refine ⟨by simp, rfl, fun i => ?_⟩
    rw [if_neg (by omega)]; rfl
  | succ d ih =>
    obtain ⟨ih1, ih2, ih3⟩ := ih (by omega)
    rw [List.range_succ, List.foldl_append]
    generalize (List.range d).foldl (resizeStep nrw (old - nrw)) (el0, 0) = st at *
    obtain ⟨el, src⟩ := st
    simp only at ih1 ih2 ih3
    simp only [List.foldl_cons, List.foldl_nil, resizeStep]
    have hge := resize_src_ge nrw old d hle
    refine ⟨?_, ?_, fun i => ?_⟩
    · rw [resize_src_step nrw old d hpos hle, ih1]
    · rw [Array.size_setIfInBounds, ih2]
    · have esrc : el.getD src 0 = el0.getD src 0 := by
        rw [ih3 src]; exact if_neg (by omega)
      rw [getD_setIfInBounds_ds, ih2, esrc, ih1]
      by_cases h : d = i
      · subst h
        rw [if_pos ⟨rfl, by omega⟩]; exact (if_pos (by omega)).symm
      · rw [if_neg (fun hh => h hh.1), ih3 i]
        have : i < d + 1 ↔ i < d := by omega
        simp only [this]

theorem getD_extract_zero (a : Array Nat) (n i : Nat) (hi : i < n) : (a.extract 0 n).getD i 0 = a.getD i 0 := by
  simp only [Array.getD_eq_getD_getElem?, Array.getElem?_extract]
  by_cases h : i < a.size
  · simp [hi, h]
  · simp [hi, h]

theorem getD_lt_U64 (m : Dense) (hi : m.WF) (j : Nat) : m.el.getD j 0 < U64 := by
  by_cases h : j < m.el.size
  · exact hi.2 j h
  · simp [Array.getD_eq_getD_getElem?, h, U64]

theorem Dense.resize_spec (m : Dense) (hi : m.WF) (nh nw : Nat) (hh : nh ≤ m.h) (hw : nw ≤ m.w) :
    ∃ m', m.resize nh nw = some m' ∧ m'.WF ∧ m'.h = nh ∧ m'.w = nw ∧
      ∀ r c, r < nh → c < nw → m'.cell r c = m.cell r c := by
  rw [Dense.resize_eq, if_pos ⟨hh, hw⟩]
  have hnrw : (nw + 63) / 64 ≤ m.rww := by unfold Dense.rww; omega
  generalize hnrw' : (nw + 63) / 64 = nrw at *
  have hsz : nh * nrw ≤ m.el.size := le_trans (Nat.mul_le_mul hh hnrw) hi.1
  -- pointwise description of the compacted array
  obtain ⟨el', hel', hsz', hget'⟩ : ∃ el', el' = (if m.rww - nrw > 0 then
        ((List.range (nh * nrw)).foldl (resizeStep nrw (m.rww - nrw)) (m.el, 0)).1 else m.el) ∧
      el'.size = m.el.size ∧
      ∀ r k, r < nh → k < nrw → el'.getD (r * nrw + k) 0 = m.el.getD (r * m.rww + k) 0 := by
    refine ⟨_, rfl, ?_, ?_⟩
    · split
      · rcases Nat.eq_zero_or_pos nrw with h0 | hpos
        · subst h0; rfl
        · exact (resizeFold_spec nrw m.rww m.el hpos hnrw (nh * nrw) hsz).2.1
      · rfl
    · intro r k hr hk
      split
      · rw [(resizeFold_spec nrw m.rww m.el (by omega) hnrw (nh * nrw) hsz).2.2, if_pos (row_idx_lt _ _ _ _ hr hk)]
        have e1 : (r * nrw + k) / nrw = r := by
          rw [Nat.mul_comm, Nat.mul_add_div (by omega), Nat.div_eq_of_lt hk]; rfl
        have e2 : (r * nrw + k) % nrw = k := by
          rw [Nat.mul_comm, Nat.mul_add_mod, Nat.mod_eq_of_lt hk]
        rw [e1, e2]
      · have : m.rww = nrw := by omega
        rw [this]
  rw [← hel']
  refine ⟨_, rfl, ⟨?_, ?_⟩, rfl, rfl, ?_⟩
  · show nh * ((nw + 63) / 64) ≤ (el'.extract 0 (nh * nrw)).size
    rw [hnrw', Array.size_extract]; omega
  · intro i hi'
    change i < (el'.extract 0 (nh * nrw)).size at hi'
    show (el'.extract 0 (nh * nrw)).getD i 0 < U64
    rw [Array.size_extract] at hi'
    have hi2 : i < nh * nrw := by omega
    have hpos : 0 < nrw := by
      rcases Nat.eq_zero_or_pos nrw with h | h
      · rw [h] at hi2; omega
      · exact h
    have hr : i / nrw < nh := by
      rw [Nat.div_lt_iff_lt_mul hpos]; exact hi2
    have hk := Nat.mod_lt i hpos
    have e := hget' (i / nrw) (i % nrw) hr hk
    have e0 : i / nrw * nrw + i % nrw = i := by rw [Nat.mul_comm]; exact Nat.div_add_mod i nrw
    rw [e0] at e
    have e3 := getD_extract_zero el' _ _ hi2
    rw [e3, e]
    exact getD_lt_U64 m hi _
  · intro r c hr hc
    have hk : c / 64 < nrw := by omega
    show testBit64 ((el'.extract 0 (nh * nrw)).getD (r * ((nw + 63) / 64) + c / 64) 0) (c % 64) = _
    rw [hnrw']
    have hi2 : r * nrw + c / 64 < nh * nrw := row_idx_lt _ _ _ _ hr hk
    have e3 := getD_extract_zero el' _ _ hi2
    rw [e3, hget' r _ hr hk]
    rfl


end Rq
