import Rq.Lemmas.GF256
/-!
Linear algebra over GF(256) on naturals `< 256`: xor-sums, inner products, the value of an
augmented row `(a | b)` on a vector `(x, y)`, and the three elementary row operations as
equivalences of annihilators (`REquiv`).
-/
namespace Rq

/-- xor of `g 0 … g (n-1)` -/
def xs (n : Nat) (g : Nat → Nat) : Nat := (List.range n).foldl (fun acc j => acc ^^^ g j) 0

theorem xs_zero (g : Nat → Nat) : xs 0 g = 0 := rfl

theorem xs_succ (n : Nat) (g : Nat → Nat) : xs (n + 1) g = xs n g ^^^ g n := by
  unfold xs
  rw [List.range_succ, List.foldl_append]
  rfl

theorem xs_congr (n : Nat) (g g' : Nat → Nat) (h : ∀ j, j < n → g j = g' j) : xs n g = xs n g' := by
  induction n with
  | zero => rfl
  | succ n ih =>
    rw [xs_succ, xs_succ, ih (fun j hj => h j (by omega)), h n (by omega)]

theorem xs_lt (n : Nat) (g : Nat → Nat) (hg : ∀ j, j < n → g j < 256) : xs n g < 256 := by
  induction n with
  | zero => rw [xs_zero]; decide
  | succ n ih =>
    rw [xs_succ]
    exact xor_lt256 _ _ (ih (fun j hj => hg j (by omega))) (hg n (by omega))

theorem xs_eq_zero (n : Nat) (g : Nat → Nat) (h : ∀ j, j < n → g j = 0) : xs n g = 0 := by
  induction n with
  | zero => rfl
  | succ n ih =>
    rw [xs_succ, ih (fun j hj => h j (by omega)), h n (by omega)]; rfl

theorem xs_xor (n : Nat) (g h : Nat → Nat) : xs n (fun j => g j ^^^ h j) = xs n g ^^^ xs n h := by
  induction n with
  | zero => simp [xs_zero]
  | succ n ih =>
    rw [xs_succ, xs_succ, xs_succ, ih]
    ac_rfl

theorem xs_single (n : Nat) (g : Nat → Nat) (i : Nat) (hi : i < n) (h : ∀ j, j < n → j ≠ i → g j = 0) :
    xs n g = g i := by
  induction n with
  | zero => omega
  | succ n ih =>
    rw [xs_succ]
    by_cases hin : i = n
    · subst hin
      rw [xs_eq_zero i g (fun j hj => h j (by omega) (by omega)), Nat.zero_xor]
    · rw [ih (by omega) (fun j hj hne => h j (by omega) hne), h n (by omega) (by omega), Nat.xor_zero]

theorem xs_gmul (n f : Nat) (g : Nat → Nat) (hf : f < 256) (hg : ∀ j, j < n → g j < 256) :
    xs n (fun j => gmulP f (g j)) = gmulP f (xs n g) := by
  induction n with
  | zero => simp [xs_zero, gmulP]
  | succ n ih =>
    rw [xs_succ, xs_succ, ih (fun j hj => hg j (by omega)),
      gmulP_xor f _ _ hf (xs_lt n g (fun j hj => hg j (by omega))) (hg n (by omega))]

/-- GF(256) inner product of the first `n` entries -/
def dot (n : Nat) (u v : Nat → Nat) : Nat := xs n (fun j => gmulP (u j) (v j))

theorem dot_lt (n : Nat) (u v : Nat → Nat) : dot n u v < 256 :=
  xs_lt n _ (fun _ _ => gmulP_lt _ _)

theorem dot_congr (n : Nat) (u u' v v' : Nat → Nat) (hu : ∀ j, j < n → u j = u' j)
    (hv : ∀ j, j < n → v j = v' j) : dot n u v = dot n u' v' := by
  unfold dot
  apply xs_congr
  intro j hj
  rw [hu j hj, hv j hj]

theorem dot_zero_right (n : Nat) (u : Nat → Nat) : dot n u (fun _ => 0) = 0 := by
  unfold dot
  apply xs_eq_zero
  intro j _
  simp [gmulP]

theorem gmulP_xor_left (a b c : Nat) (ha : a < 256) (hb : b < 256) (hc : c < 256) :
    gmulP (a ^^^ b) c = gmulP a c ^^^ gmulP b c := by
  rw [gmulP_comm, gmulP_xor c a b hc ha hb, gmulP_comm c a, gmulP_comm c b]

/-- a row plus a multiple of another row -/
theorem dot_fma (n f : Nat) (u w v : Nat → Nat) (hf : f < 256) (hu : ∀ j, u j < 256) (hw : ∀ j, w j < 256)
    (hv : ∀ j, v j < 256) :
    dot n (fun j => u j ^^^ gmulP f (w j)) v = dot n u v ^^^ gmulP f (dot n w v) := by
  unfold dot
  rw [← xs_gmul n f _ hf (fun j _ => gmulP_lt _ _), ← xs_xor]
  apply xs_congr
  intro j _
  rw [gmulP_xor_left _ _ _ (hu j) (gmulP_lt _ _) (hv j), gmulP_assoc f _ _ hf (hw j) (hv j)]

theorem dot_scale (n f : Nat) (u v : Nat → Nat) (hf : f < 256) (hu : ∀ j, u j < 256)
    (hv : ∀ j, v j < 256) :
    dot n (fun j => gmulP f (u j)) v = gmulP f (dot n u v) := by
  unfold dot
  rw [← xs_gmul n f _ hf (fun j _ => gmulP_lt _ _)]
  apply xs_congr
  intro j _
  rw [gmulP_assoc f _ _ hf (hu j) (hv j)]

theorem gmulP_eq_zero (a b : Nat) (ha : a < 256) (hb : b < 256) (h : gmulP a b = 0) : a = 0 ∨ b = 0 := by
  by_cases ha0 : a = 0
  · exact Or.inl ha0
  by_cases hb0 : b = 0
  · exact Or.inr hb0
  exact absurd h (gmulP_ne_zero a b ha0 hb0 ha hb).1

theorem ginvP_ne_zero (a : Nat) (h0 : a ≠ 0) (ha : a < 256) : ginvP a ≠ 0 := by
  intro h
  have := gmulP_ginvP a h0 ha
  rw [h] at this
  simp [gmulP] at this

/-! ## augmented rows and row operations -/


/-- value of an augmented row `(a | b)` on the vector `(x, y)` -/
def rowVal (l t : Nat) (a b x y : Nat → Nat) : Nat := dot l a x ^^^ dot t b y

theorem rowVal_lt (l t : Nat) (a b x y : Nat → Nat) : rowVal l t a b x y < 256 :=
  xor_lt256 _ _ (dot_lt _ _ _) (dot_lt _ _ _)

theorem rowVal_congr (l t : Nat) (a a' b b' x y : Nat → Nat) (ha : ∀ j, j < l → a j = a' j)
    (hb : ∀ j, j < t → b j = b' j) : rowVal l t a b x y = rowVal l t a' b' x y := by
  unfold rowVal
  rw [dot_congr l a a' x x ha (fun _ _ => rfl), dot_congr t b b' y y hb (fun _ _ => rfl)]

theorem rowVal_fma (l t f : Nat) (a b a' b' x y : Nat → Nat) (hf : f < 256)
    (ha : ∀ j, a j < 256) (hb : ∀ j, b j < 256) (ha' : ∀ j, a' j < 256) (hb' : ∀ j, b' j < 256)
    (hx : ∀ j, x j < 256) (hy : ∀ j, y j < 256) :
    rowVal l t (fun j => a j ^^^ gmulP f (a' j)) (fun j => b j ^^^ gmulP f (b' j)) x y =
      rowVal l t a b x y ^^^ gmulP f (rowVal l t a' b' x y) := by
  unfold rowVal
  rw [dot_fma l f a a' x hf ha ha' hx, dot_fma t f b b' y hf hb hb' hy,
    gmulP_xor f _ _ hf (dot_lt _ _ _) (dot_lt _ _ _)]
  ac_rfl

theorem rowVal_scale (l t f : Nat) (a b x y : Nat → Nat) (hf : f < 256)
    (ha : ∀ j, a j < 256) (hb : ∀ j, b j < 256) (hx : ∀ j, x j < 256) (hy : ∀ j, y j < 256) :
    rowVal l t (fun j => gmulP f (a j)) (fun j => gmulP f (b j)) x y = gmulP f (rowVal l t a b x y) := by
  unfold rowVal
  rw [dot_scale l f a x hf ha hx, dot_scale t f b y hf hb hy,
    gmulP_xor f _ _ hf (dot_lt _ _ _) (dot_lt _ _ _)]

/-- `(x, y)` is annihilated by the first `m` rows of `(A | B)` -/
def Ann (l t m : Nat) (A B : Nat → Nat → Nat) (x y : Nat → Nat) : Prop :=
  ∀ r, r < m → rowVal l t (A r) (B r) x y = 0

/-- two augmented matrices with the same annihilator (same row space) -/
def REquiv (l t m : Nat) (A B A' B' : Nat → Nat → Nat) : Prop :=
  ∀ x y, (∀ j, x j < 256) → (∀ j, y j < 256) → (Ann l t m A B x y ↔ Ann l t m A' B' x y)

theorem REquiv.refl (l t m : Nat) (A B : Nat → Nat → Nat) : REquiv l t m A B A B :=
  fun _ _ _ _ => Iff.rfl

theorem REquiv.trans {l t m : Nat} {A B A' B' A'' B'' : Nat → Nat → Nat}
    (h1 : REquiv l t m A B A' B') (h2 : REquiv l t m A' B' A'' B'') : REquiv l t m A B A'' B'' :=
  fun x y hx hy => (h1 x y hx hy).trans (h2 x y hx hy)

theorem requiv_of_eq (l t m : Nat) (A B A' B' : Nat → Nat → Nat)
    (hA : ∀ r, r < m → ∀ j, j < l → A' r j = A r j) (hB : ∀ r, r < m → ∀ j, j < t → B' r j = B r j) :
    REquiv l t m A B A' B' := by
  intro x y _ _
  unfold Ann
  constructor
  · intro h r hr
    rw [rowVal_congr l t _ (A r) _ (B r) x y (hA r hr) (hB r hr)]; exact h r hr
  · intro h r hr
    rw [← rowVal_congr l t _ (A r) _ (B r) x y (hA r hr) (hB r hr)]; exact h r hr

/-- exchanging rows `p` and `c` -/
theorem requiv_swap (l t m p c : Nat) (A B A' B' : Nat → Nat → Nat) (hp : p < m) (hc : c < m)
    (hA : ∀ r, r < m → ∀ j, j < l → A' r j = if r = p then A c j else if r = c then A p j else A r j)
    (hB : ∀ r, r < m → ∀ j, j < t → B' r j = if r = p then B c j else if r = c then B p j else B r j) :
    REquiv l t m A B A' B' := by
  have key : ∀ x y r, r < m → rowVal l t (A' r) (B' r) x y =
      if r = p then rowVal l t (A c) (B c) x y else if r = c then rowVal l t (A p) (B p) x y
      else rowVal l t (A r) (B r) x y := by
    intro x y r hr
    by_cases h1 : r = p
    · rw [if_pos h1]
      apply rowVal_congr
      · intro j hj; rw [hA r hr j hj, if_pos h1]
      · intro j hj; rw [hB r hr j hj, if_pos h1]
    · rw [if_neg h1]
      by_cases h2 : r = c
      · rw [if_pos h2]
        apply rowVal_congr
        · intro j hj; rw [hA r hr j hj, if_neg h1, if_pos h2]
        · intro j hj; rw [hB r hr j hj, if_neg h1, if_pos h2]
      · rw [if_neg h2]
        apply rowVal_congr
        · intro j hj; rw [hA r hr j hj, if_neg h1, if_neg h2]
        · intro j hj; rw [hB r hr j hj, if_neg h1, if_neg h2]
  intro x y _ _
  unfold Ann
  constructor
  · intro h r hr
    rw [key x y r hr]
    split
    · exact h c hc
    · split
      · exact h p hp
      · exact h r hr
  · intro h r hr
    by_cases h1 : r = p
    · have := h c hc
      rw [key x y c hc] at this
      by_cases hcp : c = p
      · rw [if_pos hcp] at this; rw [h1, ← hcp]; exact this
      · rw [if_neg hcp, if_pos rfl] at this; rw [h1]; exact this
    · by_cases h2 : r = c
      · have := h p hp
        rw [key x y p hp, if_pos rfl] at this
        rw [h2]; exact this
      · have := h r hr
        rw [key x y r hr, if_neg h1, if_neg h2] at this
        exact this

/-- scaling row `c` by a non-zero factor -/
theorem requiv_scale (l t m c f : Nat) (A B A' B' : Nat → Nat → Nat) (hc : c < m) (hf : f < 256) (hf0 : f ≠ 0)
    (hAb : ∀ r j, A r j < 256) (hBb : ∀ r j, B r j < 256)
    (hA : ∀ r, r < m → ∀ j, j < l → A' r j = if r = c then gmulP f (A c j) else A r j)
    (hB : ∀ r, r < m → ∀ j, j < t → B' r j = if r = c then gmulP f (B c j) else B r j) :
    REquiv l t m A B A' B' := by
  intro x y hx hy
  have key : ∀ r, r < m → rowVal l t (A' r) (B' r) x y =
      if r = c then gmulP f (rowVal l t (A c) (B c) x y) else rowVal l t (A r) (B r) x y := by
    intro r hr
    by_cases h1 : r = c
    · rw [if_pos h1, ← rowVal_scale l t f (A c) (B c) x y hf (hAb c) (hBb c) hx hy]
      apply rowVal_congr
      · intro j hj; rw [hA r hr j hj, if_pos h1]
      · intro j hj; rw [hB r hr j hj, if_pos h1]
    · rw [if_neg h1]
      apply rowVal_congr
      · intro j hj; rw [hA r hr j hj, if_neg h1]
      · intro j hj; rw [hB r hr j hj, if_neg h1]
  unfold Ann
  constructor
  · intro h r hr
    rw [key r hr]
    split
    · rw [h c hc]; simp [gmulP]
    · exact h r hr
  · intro h r hr
    have := h r hr
    rw [key r hr] at this
    by_cases h1 : r = c
    · rw [if_pos h1] at this
      rcases gmulP_eq_zero _ _ hf (rowVal_lt _ _ _ _ _ _) this with h2 | h2
      · exact absurd h2 hf0
      · rw [h1]; exact h2
    · rw [if_neg h1] at this; exact this

/-- adding multiples of row `c` to the other rows -/
theorem requiv_elim (l t m c : Nat) (F : Nat → Nat) (A B A' B' : Nat → Nat → Nat) (hc : c < m)
    (hF : ∀ r, F r < 256) (hAb : ∀ r j, A r j < 256) (hBb : ∀ r j, B r j < 256)
    (hA : ∀ r, r < m → ∀ j, j < l → A' r j = if r = c then A r j else A r j ^^^ gmulP (F r) (A c j))
    (hB : ∀ r, r < m → ∀ j, j < t → B' r j = if r = c then B r j else B r j ^^^ gmulP (F r) (B c j)) :
    REquiv l t m A B A' B' := by
  intro x y hx hy
  have key : ∀ r, r < m → rowVal l t (A' r) (B' r) x y =
      if r = c then rowVal l t (A r) (B r) x y
      else rowVal l t (A r) (B r) x y ^^^ gmulP (F r) (rowVal l t (A c) (B c) x y) := by
    intro r hr
    by_cases h1 : r = c
    · rw [if_pos h1]
      apply rowVal_congr
      · intro j hj; rw [hA r hr j hj, if_pos h1]
      · intro j hj; rw [hB r hr j hj, if_pos h1]
    · rw [if_neg h1, ← rowVal_fma l t (F r) (A r) (B r) (A c) (B c) x y (hF r) (hAb r) (hBb r) (hAb c) (hBb c) hx hy]
      apply rowVal_congr
      · intro j hj; rw [hA r hr j hj, if_neg h1]
      · intro j hj; rw [hB r hr j hj, if_neg h1]
  unfold Ann
  constructor
  · intro h r hr
    rw [key r hr]
    split
    · exact h r hr
    · rw [h r hr, h c hc]; simp [gmulP]
  · intro h r hr
    have hcz := h c hc
    rw [key c hc, if_pos rfl] at hcz
    have := h r hr
    rw [key r hr] at this
    by_cases h1 : r = c
    · rw [if_pos h1] at this; exact this
    · rw [if_neg h1, hcz] at this
      simpa [gmulP] using this

end Rq
