import Mathlib.Data.Fintype.BigOperators
import Mathlib.Data.Fintype.Pi
import Mathlib.Data.Fintype.Card
import Rq.Lemmas.GoodEnc
/-!
Counting arguments on the byte-vector map of a system: a determined system has at least as many
rows as columns, and a determined *square* system (as many rows as columns, e.g. the encoder's
standard system A) can be solved for every right-hand side.
-/
namespace Rq

theorem funs_lt (a : System) (φ : (Nat → Nat) → Nat) (hφ : φ ∈ a.funs) (v : Nat → Nat) (hv : ∀ j, v j < 256) :
    φ v < 256 := by
  unfold System.funs at hφ
  rcases List.mem_append.mp hφ with h1 | h1
  · rcases List.mem_append.mp h1 with h2 | h2
    · obtain ⟨cols, _, rfl⟩ := List.mem_map.mp (List.mem_of_mem_take h2)
      exact rowBin_lt _ _ hv
    · obtain ⟨row, _, rfl⟩ := List.mem_map.mp h2
      exact rowDense_lt _ _ hv
  · obtain ⟨cols, _, rfl⟩ := List.mem_map.mp (List.mem_of_mem_drop h1)
    exact rowBin_lt _ _ hv

/-- a byte vector of length `l`, extended by 0 -/
def extV (l : Nat) (v : Fin l → Fin 256) (j : Nat) : Nat := if h : j < l then (v ⟨j, h⟩).val else 0

theorem extV_lt (l : Nat) (v : Fin l → Fin 256) (j : Nat) : extV l v j < 256 := by
  unfold extV; split
  · exact (v _).isLt
  · decide

/-- the system as a map on byte vectors -/
def byteMap (a : System) (v : Fin a.l → Fin 256) (r : Fin a.rows) : Fin 256 :=
  ⟨(a.funs[r.val]'(by rw [funs_length]; exact r.isLt)) (extV a.l v),
    funs_lt a _ (List.getElem_mem _) _ (extV_lt a.l v)⟩

theorem byteMap_injective (a : System) (hb : HdpcBytes a) (hd : Determined a) : Function.Injective (byteMap a) := by
  rw [determined_iff] at hd
  have hlen := funs_length a
  intro u v huv
  have hφ : ∀ φ ∈ a.funs, φ (fun j => extV a.l u j ^^^ extV a.l v j) = 0 := by
    intro φ hφ
    obtain ⟨r, hr, rfl⟩ := List.getElem_of_mem hφ
    rw [funs_xor a hb _ (List.getElem_mem _) _ _ (extV_lt a.l u) (extV_lt a.l v)]
    have := congrFun huv ⟨r, by rw [← hlen]; exact hr⟩
    have := congrArg Fin.val this
    simp only [byteMap] at this
    rw [this, Nat.xor_self]
  have hz := hd (fun j => extV a.l u j ^^^ extV a.l v j)
    (fun j => xor_lt256 _ _ (extV_lt a.l u j) (extV_lt a.l v j))
    (fun j hj => by simp [extV, Nat.not_lt.mpr hj]) hφ
  funext i
  have := eq_of_xor_eq_zero_d _ _ (hz i.val i.isLt)
  simp only [extV, i.isLt, dif_pos] at this
  exact Fin.ext this

/-- a determined system has at least as many rows as columns -/
theorem rows_ge_of_determined (a : System) (hb : HdpcBytes a) (hd : Determined a) : a.l ≤ a.rows := by
  have hcard := Fintype.card_le_of_injective (byteMap a) (byteMap_injective a hb hd)
  simp only [Fintype.card_fun, Fintype.card_fin] at hcard
  exact (Nat.pow_le_pow_iff_right (by decide : 1 < 256)).mp hcard

/-- a determined square system is solvable for every right-hand side -/
theorem consistent_of_determined_square (a : System) (hb : HdpcBytes a) (hsq : a.rows = a.l) (hd : Determined a)
    (t : Nat) (d : List Sym) (hwf : WfRhs a t d) : Consistent a t d := by
  have hinj := byteMap_injective a hb hd
  have hbij : Function.Bijective (byteMap a) := by
    rw [Fintype.bijective_iff_injective_and_card]
    refine ⟨hinj, ?_⟩
    simp only [Fintype.card_fun, Fintype.card_fin, hsq]
  have hlen := funs_length a
  -- byte column b of the right-hand side
  let w : Nat → Fin a.rows → Fin 256 := fun b r => ⟨(d.getD r.val []).getD b 0 % 256, Nat.mod_lt _ (by decide)⟩
  have hsol : ∀ b, ∃ v, byteMap a v = w b := fun b => hbij.2 (w b)
  choose v hv using hsol
  let c : Inter := Array.ofFn (n := a.l) fun i => tab t (fun b => (v b i).val)
  have hcget : ∀ i (hi : i < a.l), c.getD i [] = tab t (fun b => (v b ⟨i, hi⟩).val) := by
    intro i hi
    simp [c, Array.getD, hi]
  have hcwf : WfInter a.l t c := by
    refine ⟨by simp [c], fun i hi => ?_⟩
    rw [hcget i hi]
    exact tab_wf t _ (fun b => (v b _).isLt)
  have hcell : ∀ b, b < t → ∀ j, cell c j b = extV a.l (v b) j := by
    intro b hb j
    unfold cell extV
    by_cases hj : j < a.l
    · rw [hcget j hj, tab_getD _ _ _ hb, dif_pos hj]
    · rw [dif_neg hj]
      have : c.getD j [] = [] := by simp [c, Array.getD, hj]
      rw [this]; rfl
  refine ⟨c, hcwf, ?_⟩
  rw [apply_eq a c t hcwf.allLen]
  apply List.ext_getElem
  · rw [List.length_map, hlen, hwf.1]
  · intro r h1 h2
    rw [List.length_map, hlen] at h1
    rw [List.getElem_map]
    have hdr := hwf.2 (d[r]) (List.getElem_mem h2)
    rw [tab_of_length (d[r]) t hdr.1]
    apply tab_congr
    intro b hb
    have e1 : (fun j => cell c j b) = extV a.l (v b) := funext (hcell b hb)
    rw [e1]
    have := congrArg Fin.val (congrFun (hv b) ⟨r, h1⟩)
    simp only [byteMap, w] at this
    rw [this]
    have hg : d.getD r [] = d[r] := by simp [List.getD_eq_getElem?_getD, h2]
    rw [hg]
    apply Nat.mod_eq_of_lt
    rw [List.getD_eq_getElem?_getD]
    by_cases hbl : b < (d[r]).length
    · rw [List.getElem?_eq_getElem hbl]
      exact hdr.2 _ (List.getElem_mem hbl)
    · rw [List.getElem?_eq_none (by omega)]; decide

end Rq
