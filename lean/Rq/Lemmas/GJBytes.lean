import Rq.Model.Solve
namespace Rq

/-- the value carried by a `ForInStep` -/
def stepVal {β : Type} : ForInStep β → β
  | .done b => b
  | .yield b => b

theorem forIn_list_inv {α β : Type} (P : β → Prop) (f : α → β → Id (ForInStep β))
    (hstep : ∀ a b, P b → P (stepVal (f a b).run)) :
    ∀ (l : List α) (init : β), P init → P (forIn l init f : Id β).run := by
  intro l
  induction l with
  | nil => intro init h0; simpa using h0
  | cons a as ih =>
    intro init h0
    rw [List.forIn_cons]
    have h1 := hstep a init h0
    simp only [Id.run_bind]
    cases hf : (f a init).run with
    | done b => rw [hf] at h1; simpa [stepVal] using h1
    | yield b => rw [hf] at h1; exact ih b (by simpa [stepVal] using h1)

theorem forIn_range_inv {β : Type} (P : β → Prop) (r : Std.Legacy.Range)
    (f : Nat → β → Id (ForInStep β)) (init : β) (h0 : P init)
    (hstep : ∀ a b, P b → P (stepVal (f a b).run)) :
    P (forIn r init f : Id β).run := by
  rw [Std.Legacy.Range.forIn_eq_forIn_range']
  exact forIn_list_inv P f hstep _ _ h0

def AllBytes (z : Array Nat) : Prop := ∀ v ∈ z.toList, v < 256

theorem allBytes_set! (z : Array Nat) (i v : Nat) (hz : AllBytes z) (hv : v < 256) :
    AllBytes (z.set! i v) := by
  intro w hw
  rw [Array.set!_eq_setIfInBounds] at hw
  have hw' : w ∈ z.toList.set i v := by simpa using hw
  rcases List.mem_or_eq_of_mem_set hw' with h | h
  · exact hz w h
  · exact h ▸ hv

theorem allBytes_replicate (l : Nat) : AllBytes (Array.replicate l 0) := by
  intro w hw
  have : w ∈ Array.replicate l 0 := by simpa using hw
  rw [Array.mem_replicate] at this
  omega

/-- invariant on the early-return slot of the outer loop -/
def SlotOK (s : Option GJResult × Array ByteArray × Array ByteArray) : Prop :=
  ∀ z, s.1 = some (.singular z) → AllBytes z

theorem gj_final (z : Array Nat)
    (x : Id (Option GJResult × Array ByteArray × Array ByteArray))
    (k : Option GJResult × Array ByteArray × Array ByteArray → Id GJResult)
    (h : (x >>= k).run = GJResult.singular z)
    (hS : SlotOK x.run)
    (hk1 : ∀ a b, ∃ c, k (none, a, b) = pure (GJResult.solved c))
    (hk2 : ∀ r a b, k (some r, a, b) = pure r) :
    AllBytes z := by
  simp only [Id.run_bind] at h
  generalize x.run = S at h hS
  rcases S with ⟨o, a, b⟩
  cases o with
  | none => rcases hk1 a b with ⟨c, hc⟩; rw [hc] at h; simp at h
  | some r =>
    rw [hk2] at h
    simp only [Id.run_pure] at h
    exact hS z (by simp [h])

/-- the candidate kernel vector returned by the (otherwise unverified) elimination consists of bytes -/
theorem gaussJordan_singular_bytes (l : Nat) (rows rhs : Array ByteArray) (z : Array Nat)
    (h : gaussJordan l rows rhs = .singular z) : ∀ v ∈ z.toList, v < 256 := by
  unfold gaussJordan at h
  refine gj_final z _ _ h ?_ (fun a b => ⟨_, rfl⟩) (fun r a b => rfl)
  clear h
  apply forIn_range_inv SlotOK
  · intro z hz; simp at hz
  · intro col s hs
    simp only [Id.run_bind]
    split
    · -- no pivot: early return
      simp only [SlotOK, Id.run_pure, Id.run_bind, stepVal]
      intro z hz
      simp only [Option.some.injEq, GJResult.singular.injEq] at hz
      subst hz
      apply allBytes_set! _ _ _ _ (by omega)
      apply forIn_range_inv AllBytes
      · exact allBytes_replicate l
      · intro j w hw
        simp only [Id.run_pure, stepVal]
        exact allBytes_set! _ _ _ hw (UInt8.toNat_lt _)
    · repeat' split
      all_goals
        simp only [SlotOK, Id.run_pure, Id.run_bind, stepVal]
        intro z hz
        simp at hz


end Rq
