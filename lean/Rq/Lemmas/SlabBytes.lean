import Rq.Model.SlabBytes
/-!
Helper lemmas for C12b: list slicing / overwriting, and the byte-level slab's abstraction.
-/
namespace Rq

theorem length_sliceOf (l : List Nat) (r : Nat × Nat) (h : r.1 + r.2 ≤ l.length) :
    (sliceOf l r).length = r.2 := by
  simp only [sliceOf, List.length_take, List.length_drop]; omega

theorem length_writeAt (l : List Nat) (start : Nat) (v : List Nat) (h : start + v.length ≤ l.length) :
    (writeAt l start v).length = l.length := by
  simp only [writeAt, List.length_append, List.length_take, List.length_drop]; omega

theorem getElem?_sliceOf (l : List Nat) (r : Nat × Nat) (k : Nat) :
    (sliceOf l r)[k]? = if k < r.2 then l[r.1 + k]? else none := by
  simp only [sliceOf, List.getElem?_take, List.getElem?_drop]

theorem getElem?_writeAt (l : List Nat) (start : Nat) (v : List Nat) (h : start + v.length ≤ l.length)
    (j : Nat) :
    (writeAt l start v)[j]? =
      if j < start then l[j]? else if j < start + v.length then v[j - start]? else l[j]? := by
  have hlt : (l.take start).length = start := by simp only [List.length_take]; omega
  unfold writeAt
  by_cases h1 : j < start
  · rw [List.append_assoc, List.getElem?_append_left (by omega)]
    simp [h1]
  · rw [if_neg h1]
    by_cases h2 : j < start + v.length
    · rw [if_pos h2, List.getElem?_append_left (by simp only [List.length_append, hlt]; omega),
        List.getElem?_append_right (by omega), hlt]
    · rw [if_neg h2, List.getElem?_append_right (by simp only [List.length_append, hlt]; omega)]
      simp only [List.length_append, hlt, List.getElem?_drop]
      congr 1; omega

theorem sliceOf_writeAt_same (l : List Nat) (start : Nat) (v : List Nat) (h : start + v.length ≤ l.length) :
    sliceOf (writeAt l start v) (start, v.length) = v := by
  apply List.ext_getElem?
  intro k
  rw [getElem?_sliceOf, getElem?_writeAt l start v h]
  by_cases hk : k < v.length
  · simp only [hk, if_true]
    rw [if_neg (by omega), if_pos (by omega)]
    congr 1; omega
  · simp only [hk, if_false]
    exact (List.getElem?_eq_none (by omega)).symm

theorem sliceOf_writeAt_disj (l : List Nat) (start : Nat) (v : List Nat) (a n : Nat)
    (h : start + v.length ≤ l.length) (hd : a + n ≤ start ∨ start + v.length ≤ a) :
    sliceOf (writeAt l start v) (a, n) = sliceOf l (a, n) := by
  apply List.ext_getElem?
  intro k
  rw [getElem?_sliceOf, getElem?_sliceOf, getElem?_writeAt l start v h]
  by_cases hk : k < n
  · simp only [hk, if_true]
    rcases hd with hd | hd
    · rw [if_pos (by omega)]
    · rw [if_neg (by omega), if_neg (by omega)]
  · simp only [hk, if_false]

theorem length_xorSym (a b : Sym) : (xorSym a b).length = min a.length b.length := by
  simp [xorSym]

theorem length_mulSym (c : Nat) (a : Sym) : (mulSym c a).length = a.length := by
  simp [mulSym]

theorem length_fmaSym (c : Nat) (a b : Sym) : (fmaSym c a b).length = min a.length b.length := by
  simp [fmaSym]

/-- symbol `d` of a well-formed slab lies inside `data` -/
theorem SlabB.sym_in_bounds (s : SlabB) (hw : s.data.length = s.count * s.ss) (d : Nat) (hd : d < s.count) :
    d * s.ss + s.ss ≤ s.data.length := by
  have := Nat.mul_le_mul_right s.ss (Nat.succ_le_of_lt hd)
  rw [Nat.succ_mul] at this
  omega

/-- two distinct symbols do not overlap -/
theorem SlabB.sym_disjoint (ss d r : Nat) (h : d ≠ r) : d * ss + ss ≤ r * ss ∨ r * ss + ss ≤ d * ss := by
  rcases Nat.lt_or_gt_of_ne h with h | h
  · left
    have := Nat.mul_le_mul_right ss (Nat.succ_le_of_lt h)
    rwa [Nat.succ_mul] at this
  · right
    have := Nat.mul_le_mul_right ss (Nat.succ_le_of_lt h)
    rwa [Nat.succ_mul] at this

theorem SlabB.abs_size (s : SlabB) : s.abs.syms.size = s.count := by
  simp [SlabB.abs]

theorem SlabB.abs_phys (s : SlabB) (i : Nat) : s.abs.phys i = s.phys i := rfl

theorem SlabB.abs_getD (s : SlabB) (i : Nat) (hi : i < s.count) :
    s.abs.syms.getD i [] = sliceOf s.data (i * s.ss, s.ss) := by
  simp [SlabB.abs, Array.getD, hi]

/-- overwriting symbol `d` in the bytes = `setIfInBounds d` on the array of symbols -/
theorem SlabB.abs_write (s : SlabB) (hw : s.data.length = s.count * s.ss) (d : Nat) (hd : d < s.count)
    (v : List Nat) (hv : v.length = s.ss) :
    ({ s with data := writeAt s.data (d * s.ss) v } : SlabB).abs =
      { s.abs with syms := s.abs.syms.setIfInBounds d v } := by
  have hb := s.sym_in_bounds hw d hd
  have hb' : d * s.ss + v.length ≤ s.data.length := by omega
  unfold SlabB.abs
  simp only [Slab.mk.injEq, and_true]
  apply Array.ext
  · simp
  · intro i h1 h2
    simp only [Array.size_ofFn] at h1
    rw [Array.getElem_setIfInBounds (by simpa using h1)]
    simp only [Array.getElem_ofFn]
    by_cases hdi : d = i
    · subst hdi
      simp only [if_true]
      have := sliceOf_writeAt_same s.data (d * s.ss) v hb'
      rw [hv] at this
      exact this
    · simp only [hdi, if_false]
      apply sliceOf_writeAt_disj s.data _ v _ _ hb'
      rw [hv]
      rcases SlabB.sym_disjoint s.ss d i hdi with h | h
      · right; exact h
      · left; exact h

theorem SlabB.pairRanges_eq_some (s : SlabB) (dest src : Nat) (d r : Nat × Nat)
    (h : s.pairRanges dest src = some (d, r)) :
    ∃ pd ps, s.phys dest = some pd ∧ s.phys src = some ps ∧ pd ≠ ps ∧ pd < s.count ∧ ps < s.count ∧
      d = (pd * s.ss, s.ss) ∧ r = (ps * s.ss, s.ss) := by
  unfold SlabB.pairRanges at h
  split at h
  · rename_i pd ps hd hs
    split at h
    · rename_i hc
      simp only [Option.some.injEq, Prod.mk.injEq] at h
      exact ⟨pd, ps, hd, hs, hc.1, hc.2.1, hc.2.2, h.1.symm, h.2.symm⟩
    · exact absurd h (by simp)
  · exact absurd h (by simp)

/-- the paired ops (`add`, `fma`) commute with the abstraction -/
theorem SlabB.pair_step (s : SlabB) (hw : s.data.length = s.count * s.ss) (dest src : Nat)
    (f : Sym → Sym → Sym) (hf : ∀ a b, (f a b).length = min a.length b.length) :
    ((s.pairRanges dest src).map fun (d, r) =>
        ({ s with data := writeAt s.data d.1 (f (sliceOf s.data d) (sliceOf s.data r)) } : SlabB)).map SlabB.abs =
      (s.abs.pair? dest src).map fun (d, r) =>
        { s.abs with syms := s.abs.syms.setIfInBounds d (f (s.abs.syms.getD d []) (s.abs.syms.getD r [])) } := by
  unfold SlabB.pairRanges Slab.pair?
  rw [SlabB.abs_phys, SlabB.abs_phys, SlabB.abs_size]
  cases s.phys dest with
  | none => rfl
  | some pd =>
    cases s.phys src with
    | none => rfl
    | some ps =>
      simp only []
      by_cases hc : pd ≠ ps ∧ pd < s.count ∧ ps < s.count
      · rw [if_pos hc, if_pos hc]
        simp only [Option.map_some]
        have hbd := s.sym_in_bounds hw pd hc.2.1
        have hbr := s.sym_in_bounds hw ps hc.2.2
        rw [SlabB.abs_write s hw pd hc.2.1 _ (by
          rw [hf, length_sliceOf _ _ hbd, length_sliceOf _ _ hbr]; simp)]
        rw [SlabB.abs_getD s pd hc.2.1, SlabB.abs_getD s ps hc.2.2]
      · rw [if_neg hc, if_neg hc]
        rfl

theorem SlabB.range_eq_some (s : SlabB) (i : Nat) (d : Nat × Nat) (h : s.range i = some d) :
    ∃ p, s.phys i = some p ∧ p * s.ss + s.ss ≤ s.data.length ∧ d = (p * s.ss, s.ss) := by
  unfold SlabB.range at h
  split at h
  · rename_i p hp
    split at h
    · rename_i hc
      simp only [Option.some.injEq] at h
      exact ⟨p, hp, hc, h.symm⟩
    · exact absurd h (by simp)
  · exact absurd h (by simp)

/-- with a positive symbol size, the safe-slice bound is the index bound -/
theorem SlabB.in_bounds_iff (s : SlabB) (hw : s.data.length = s.count * s.ss) (hss : 0 < s.ss) (p : Nat) :
    p * s.ss + s.ss ≤ s.data.length ↔ p < s.count := by
  constructor
  · intro h
    rw [hw, ← Nat.succ_mul] at h
    exact Nat.le_of_mul_le_mul_right h hss
  · exact s.sym_in_bounds hw p

/-- **one step commutes with the abstraction** (needs a positive symbol size for `mul`) -/
theorem SlabB.apply_map_abs (s : SlabB) (hw : s.data.length = s.count * s.ss) (hss : 0 < s.ss) (op : SymOp) :
    (s.apply op).map SlabB.abs = s.abs.apply op := by
  cases op with
  | add dest src => exact s.pair_step hw dest src xorSym length_xorSym
  | fma dest src c => exact s.pair_step hw dest src (fmaSym c) (length_fmaSym c)
  | reorder order => rfl
  | mul dest c =>
    unfold SlabB.apply Slab.apply SlabB.range
    simp only []
    rw [SlabB.abs_phys, SlabB.abs_size]
    cases s.phys dest with
    | none => rfl
    | some p =>
      simp only []
      by_cases hc : p < s.count
      · have hb := (s.in_bounds_iff hw hss p).2 hc
        rw [if_pos hc, if_pos hb]
        simp only [Option.map_some]
        rw [SlabB.abs_write s hw p hc _ (by rw [length_mulSym, length_sliceOf _ _ hb]),
          SlabB.abs_getD s p hc]
      · have hb := mt (s.in_bounds_iff hw hss p).1 hc
        rw [if_neg hc, if_neg hb]
        rfl

/-- ops never change `count`, `ss`; in-bounds writes keep the length -/
theorem SlabB.apply_shape (s s' : SlabB) (hw : s.data.length = s.count * s.ss) (op : SymOp)
    (h : s.apply op = some s') :
    s'.count = s.count ∧ s'.ss = s.ss ∧ s'.data.length = s.data.length := by
  cases op with
  | reorder order =>
    simp only [SlabB.apply, Option.some.injEq] at h
    subst h; exact ⟨rfl, rfl, rfl⟩
  | mul dest c =>
    simp only [SlabB.apply, Option.map_eq_some_iff] at h
    obtain ⟨d, hd, rfl⟩ := h
    obtain ⟨p, -, hb, rfl⟩ := s.range_eq_some dest d hd
    refine ⟨rfl, rfl, ?_⟩
    exact length_writeAt _ _ _ (by rw [length_mulSym, length_sliceOf _ _ hb]; exact hb)
  | add dest src =>
    simp only [SlabB.apply, Option.map_eq_some_iff] at h
    obtain ⟨⟨d, r⟩, hd, rfl⟩ := h
    obtain ⟨pd, ps, -, -, -, h1, h2, rfl, rfl⟩ := s.pairRanges_eq_some dest src d r hd
    have hbd := s.sym_in_bounds hw pd h1
    have hbr := s.sym_in_bounds hw ps h2
    refine ⟨rfl, rfl, ?_⟩
    exact length_writeAt _ _ _ (by
      rw [length_xorSym, length_sliceOf _ _ hbd, length_sliceOf _ _ hbr]; simpa using hbd)
  | fma dest src c =>
    simp only [SlabB.apply, Option.map_eq_some_iff] at h
    obtain ⟨⟨d, r⟩, hd, rfl⟩ := h
    obtain ⟨pd, ps, -, -, -, h1, h2, rfl, rfl⟩ := s.pairRanges_eq_some dest src d r hd
    have hbd := s.sym_in_bounds hw pd h1
    have hbr := s.sym_in_bounds hw ps h2
    refine ⟨rfl, rfl, ?_⟩
    exact length_writeAt _ _ _ (by
      rw [length_fmaSym, length_sliceOf _ _ hbd, length_sliceOf _ _ hbr]; simpa using hbd)

end Rq
