import Rq.Lemmas.GJSteps
/-!
# Correctness of the Gauss–Jordan elimination of the rank oracle

Loop invariant of `gaussJordan` (`GJInv`): after `col` columns the byte matrix has the shape it
started with, is in reduced echelon form on its first `col` columns, and the augmented matrix
`(rows | rhs)` annihilates exactly the vectors the original one annihilates (`REquiv`: every step
is an elementary row operation applied to both sides). Consequences:
* `gaussJordan_solved_kernel`: a `solved` answer means the kernel of the matrix is trivial;
* `gaussJordan_solved_reads`: every solution of the original system is the returned one;
* `gaussJordan_singular`: a `singular` answer carries a non-zero kernel vector.
-/
namespace Rq

theorem xs_two (n : Nat) (g : Nat → Nat) (i k : Nat) (hi : i < n) (hk : k < n) (hik : i ≠ k)
    (h : ∀ j, j < n → j ≠ i → j ≠ k → g j = 0) : xs n g = g i ^^^ g k := by
  have e : xs n g = xs n (fun j => (if j = i then g i else 0) ^^^ (if j = k then g k else 0)) := by
    apply xs_congr
    intro j hj
    by_cases h1 : j = i
    · subst h1; rw [if_pos rfl, if_neg hik, Nat.xor_zero]
    · by_cases h2 : j = k
      · subst h2; rw [if_neg h1, if_pos rfl, Nat.zero_xor]
      · rw [if_neg h1, if_neg h2, h j hj h1 h2]; rfl
  rw [e, xs_xor, xs_single n _ i hi (fun j _ hne => if_neg hne), xs_single n _ k hk (fun j _ hne => if_neg hne),
    if_pos rfl, if_pos rfl]

/-- reduced echelon form on the first `col` columns -/
def Reduced (m col : Nat) (rows : Array ByteArray) : Prop :=
  ∀ j, j < col → ent rows j j = 1 ∧ ∀ r, r < m → r ≠ j → ent rows r j = 0

/-- the loop invariant of the elimination: after `col` columns -/
structure GJInv (l t m : Nat) (A0 B0 : Nat → Nat → Nat) (col : Nat) (rows rhs : Array ByteArray) : Prop where
  shr : Shape m l rows
  shb : Shape m t rhs
  le : col ≤ m
  red : Reduced m col rows
  eqv : REquiv l t m A0 B0 (ent rows) (ent rhs)

theorem afterScale_spec (l t m : Nat) (A0 B0 : Nat → Nat → Nat) (col : Nat) (rows rhs : Array ByteArray)
    (h : GJInv l t m A0 B0 col rows rhs) (hcm : col < m) (hcl : col < l) (hp : ent rows col col = 1) :
    ∃ rows' rhs', afterScale m col rows rhs = .yield (none, rows', rhs') ∧
      GJInv l t m A0 B0 (col + 1) rows' rhs' := by
  unfold afterScale
  refine ⟨_, _, rfl, ?_⟩
  obtain ⟨s1, s2, e1, e2⟩ := elimLoop_spec m l t col rows rhs rows[col]! rhs[col]! h.shr h.shb hcl
    (h.shr.width col hcm) (h.shb.width col hcm)
  have hz : ∀ j, j < col → ent rows col j = 0 := fun j hj => (h.red j hj).2 col hcm (by omega)
  refine ⟨s1, s2, hcm, ?_, ?_⟩
  · intro j hj
    by_cases hjc : j < col
    · obtain ⟨r1, r2⟩ := h.red j hjc
      constructor
      · rw [e1, if_neg (by omega)]; exact r1
      · intro r hr hrj
        rw [e1, if_neg (by omega)]; exact r2 r hr hrj
    · have hjc' : j = col := by omega
      subst hjc'
      constructor
      · rw [e1, if_neg (by omega)]; exact hp
      · intro r hr hrj
        rw [e1, if_pos ⟨hr, hrj, Nat.le_refl _, hcl⟩]
        show ent rows r j ^^^ gmulP (ent rows r j) (ent rows j j) = 0
        rw [hp, gmulP_one _ (ent_lt _ _ _), Nat.xor_self]
  · refine h.eqv.trans (requiv_elim l t m col (fun r => ent rows r col) _ _ _ _ hcm (fun r => ent_lt _ _ _)
      (ent_lt rows) (ent_lt rhs) ?_ ?_)
    · intro r hr j hj
      rw [e1]
      by_cases hrc : r = col
      · rw [if_pos hrc, if_neg (by omega)]
      · rw [if_neg hrc]
        by_cases hjc : col ≤ j
        · rw [if_pos ⟨hr, hrc, hjc, hj⟩]; rfl
        · rw [if_neg (by omega), hz j (by omega), gmulP_zero_right, Nat.xor_zero]
    · intro r hr j hj
      rw [e2]
      by_cases hrc : r = col
      · rw [if_pos hrc, if_neg (by omega)]
      · rw [if_neg hrc, if_pos ⟨hr, hrc, hj⟩]; rfl

theorem afterSwap_spec (l t m : Nat) (A0 B0 : Nat → Nat → Nat) (col : Nat) (rows rhs : Array ByteArray)
    (h : GJInv l t m A0 B0 col rows rhs) (hcm : col < m) (hcl : col < l) (hp : ent rows col col ≠ 0) :
    ∃ rows' rhs', afterSwap m col rows rhs = .yield (none, rows', rhs') ∧
      GJInv l t m A0 B0 (col + 1) rows' rhs' := by
  unfold afterSwap
  split
  · next hpv =>
    have hpv' : ent rows col col ≠ 1 := (get!_bne_one _ _).mp hpv
    have hinv : (invTab.get! (rows[col]!.get! col).toNat).toNat = ginvP (ent rows col col) :=
      invTab_get _ hp (ent_lt _ _ _)
    generalize invTab.get! (rows[col]!.get! col).toNat = inv at hinv
    have hz : ∀ j, j < col → ent rows col j = 0 := fun j hj => (h.red j hj).2 col hcm (by omega)
    have hw1 := h.shr.width col hcm
    have hw2 := h.shb.width col hcm
    obtain ⟨z1, g1⟩ := rowScale_spec rows[col]! inv col (by omega)
    obtain ⟨z2, g2⟩ := rowScale_spec rhs[col]! inv 0 (Nat.zero_le _)
    have hsz := h.shr.size
    have hsz2 := h.shb.size
    have hinv0 : inv.toNat ≠ 0 := by rw [hinv]; exact ginvP_ne_zero _ hp (ent_lt _ _ _)
    apply afterScale_spec l t m A0 B0 col _ _ _ hcm hcl
    · rw [ent_set2, if_pos ⟨rfl, by omega⟩, g1 col, if_pos ⟨Nat.le_refl _, by omega⟩, hinv, gmulP_comm]
      exact gmulP_ginvP _ hp (ent_lt _ _ _)
    · refine ⟨shape_set2 h.shr _ _ _ (by rw [z1, hw1]), shape_set2 h.shb _ _ _ (by rw [z2, hw2]), h.le, ?_, ?_⟩
      · intro j hj
        obtain ⟨r1, r2⟩ := h.red j hj
        constructor
        · rw [ent_set2, if_neg (by omega)]; exact r1
        · intro r hr hrj
          rw [ent_set2]
          split
          · rw [g1 j, if_neg (by omega)]; exact hz j hj
          · exact r2 r hr hrj
      · refine h.eqv.trans (requiv_scale l t m col inv.toNat _ _ _ _ hcm (UInt8.toNat_lt _) hinv0
          (ent_lt rows) (ent_lt rhs) ?_ ?_)
        · intro r hr j hj
          rw [ent_set2, hsz]
          by_cases hrc : r = col
          · rw [if_pos ⟨hrc, hcm⟩, if_pos hrc, g1 j, hw1]
            by_cases hjc : col ≤ j
            · rw [if_pos ⟨hjc, hj⟩]; rfl
            · rw [if_neg (by omega)]
              show ent rows col j = _
              rw [hz j (by omega), gmulP_zero_right]
          · rw [if_neg (by omega), if_neg hrc]
        · intro r hr j hj
          rw [ent_set2, hsz2]
          by_cases hrc : r = col
          · rw [if_pos ⟨hrc, hcm⟩, if_pos hrc, g2 j, hw2, if_pos ⟨Nat.zero_le _, hj⟩]; rfl
          · rw [if_neg (by omega), if_neg hrc]
  · next hpv =>
    have hpv' : ent rows col col = 1 := by
      rw [get!_bne_one] at hpv
      exact Classical.not_not.mp hpv
    exact afterScale_spec l t m A0 B0 col rows rhs h hcm hcl hpv'


/-- what a `singular` answer carries -/
def SingOK (l m : Nat) (A0 : Nat → Nat → Nat) (z : Array Nat) : Prop :=
  z.size = l ∧ (∃ c, c < l ∧ z.getD c 0 = 1) ∧ (∀ j, z.getD j 0 < 256) ∧
    ∀ r, r < m → dot l (A0 r) (fun j => z.getD j 0) = 0

theorem ent_swap (rows : Array ByteArray) (p c i j : Nat) (hp : p < rows.size) (hc : c < rows.size) :
    ent (rows.swapIfInBounds p c) i j =
      if i = p then ent rows c j else if i = c then ent rows p j else ent rows i j := by
  unfold ent
  rw [getElem!_swap rows p c i hp hc]
  split
  · rfl
  · split <;> rfl

theorem shape_swap {m l : Nat} {rows : Array ByteArray} (h : Shape m l rows) (p c : Nat) (hp : p < m) (hc : c < m) :
    Shape m l (rows.swapIfInBounds p c) := by
  refine ⟨by rw [size_swap]; exact h.size, fun i hi => ?_⟩
  rw [getElem!_swap rows p c i (by rw [h.size]; exact hp) (by rw [h.size]; exact hc)]
  split
  · exact h.width c hc
  · split
    · exact h.width p hp
    · exact h.width i hi

theorem rowVal_zero_right (l t : Nat) (a b x : Nat → Nat) : rowVal l t a b x (fun _ => 0) = dot l a x := by
  unfold rowVal
  rw [dot_zero_right, Nat.xor_zero]

/-- the post-condition of the column loop -/
def GJPost (l t m : Nat) (A0 B0 : Nat → Nat → Nat) (s : Option GJResult × Array ByteArray × Array ByteArray) : Prop :=
  (s.1 = none ∧ GJInv l t m A0 B0 l s.2.1 s.2.2) ∨ (∃ z, s.1 = some (.singular z) ∧ SingOK l m A0 z)

theorem gjBody_spec (l t m : Nat) (A0 B0 : Nat → Nat → Nat) (col : Nat) (rows rhs : Array ByteArray)
    (h : GJInv l t m A0 B0 col rows rhs) (hcl : col < l) :
    StepPost (fun s => s.1 = none ∧ GJInv l t m A0 B0 (col + 1) s.2.1 s.2.2) (GJPost l t m A0 B0)
      (gjBody l m col rows rhs) := by
  unfold gjBody
  have hpiv := pivLoop_spec m col rows h.le
  generalize pivLoop m col rows = piv at hpiv
  split
  · next hpm =>
    have hpm' : piv = m := by simpa using hpm
    have hnp : ∀ r, col ≤ r → r < m → ent rows r col = 0 := by
      rcases hpiv with ⟨_, hnp⟩ | ⟨_, h2, _⟩
      · exact hnp
      · omega
    simp only [StepPost, GJPost]
    right
    refine ⟨_, rfl, ?_⟩
    obtain ⟨zs, zg⟩ := zLoop_spec l col rows
    have hzf : ∀ j, ((zLoop l col rows).set! col 1).getD j 0 =
        if j = col then 1 else if j < col then ent rows j col else 0 := by
      intro j
      simp only [Array.set!_eq_setIfInBounds, Array.getD_eq_getD_getElem?, Array.getElem?_setIfInBounds, zs]
      by_cases hjc : col = j
      · subst hjc
        rw [if_pos rfl, if_pos hcl, if_pos rfl]; rfl
      · rw [if_neg hjc, if_neg (fun e => hjc e.symm)]
        have := zg j
        rw [Array.getD_eq_getD_getElem?] at this
        rw [this]
        by_cases hj : j < col
        · rw [if_pos ⟨hj, by omega⟩, if_pos hj]
        · rw [if_neg (by omega), if_neg hj]
    refine ⟨by simp [Array.set!_eq_setIfInBounds, zs], ⟨col, hcl, by rw [hzf, if_pos rfl]⟩, ?_, ?_⟩
    · intro j
      rw [hzf]
      split
      · decide
      · split
        · exact ent_lt _ _ _
        · decide
    · have hb : ∀ j, ((zLoop l col rows).set! col 1).getD j 0 < 256 := by
        intro j
        rw [hzf]
        split
        · decide
        · split
          · exact ent_lt _ _ _
          · decide
      have key := (h.eqv _ (fun _ => 0) hb (fun _ => by decide)).mpr
      intro r hr
      have := key ?_ r hr
      · rw [rowVal_zero_right] at this; exact this
      intro r hr
      rw [rowVal_zero_right]
      unfold dot
      by_cases hrc : r < col
      · -- two equal terms
        rw [xs_two l _ r col (by omega) hcl (by omega)]
        · dsimp only
          rw [hzf r, hzf col, if_neg (by omega), if_pos hrc, if_pos rfl, (h.red r hrc).1,
            gmulP_one_left _ (ent_lt _ _ _), gmulP_one _ (ent_lt _ _ _), Nat.xor_self]
        · intro j hj h1 h2
          dsimp only
          rw [hzf j, if_neg h2]
          by_cases hjc : j < col
          · rw [(h.red j hjc).2 r hr (fun e => h1 e.symm), gmulP_zero_left]
          · rw [if_neg hjc, gmulP_zero_right]
      · apply xs_eq_zero
        intro j hj
        dsimp only
        rw [hzf j]
        by_cases hjc : j = col
        · subst hjc
          rw [hnp r (by omega) hr, gmulP_zero_left]
        · rw [if_neg hjc]
          by_cases hjc' : j < col
          · rw [(h.red j hjc').2 r hr (by omega), gmulP_zero_left]
          · rw [if_neg hjc', gmulP_zero_right]
  · next hpm =>
    have hpm' : piv ≠ m := by simpa using hpm
    rcases hpiv with ⟨h1, _⟩ | ⟨h1, h2, h3⟩
    · exact absurd h1 hpm'
    have hcm : col < m := by omega
    have fin : ∀ rows1 rhs1, GJInv l t m A0 B0 col rows1 rhs1 → ent rows1 col col ≠ 0 →
        StepPost (fun s => s.1 = none ∧ GJInv l t m A0 B0 (col + 1) s.2.1 s.2.2) (GJPost l t m A0 B0)
          (afterSwap m col rows1 rhs1) := by
      intro rows1 rhs1 hi hp
      obtain ⟨rows', rhs', e, hi'⟩ := afterSwap_spec l t m A0 B0 col rows1 rhs1 hi hcm hcl hp
      rw [e]
      exact ⟨rfl, hi'⟩
    split
    · next hpc =>
      have hpc' : piv ≠ col := by simpa using hpc
      have hs1 : piv < rows.size := by rw [h.shr.size]; exact h2
      have hs2 : col < rows.size := by rw [h.shr.size]; exact hcm
      have hs3 : piv < rhs.size := by rw [h.shb.size]; exact h2
      have hs4 : col < rhs.size := by rw [h.shb.size]; exact hcm
      apply fin
      · refine ⟨shape_swap h.shr _ _ h2 hcm, shape_swap h.shb _ _ h2 hcm, h.le, ?_, ?_⟩
        · intro j hj
          obtain ⟨r1, r2⟩ := h.red j hj
          constructor
          · rw [ent_swap rows piv col j j hs1 hs2, if_neg (by omega), if_neg (by omega)]; exact r1
          · intro r hr hrj
            rw [ent_swap rows piv col r j hs1 hs2]
            split
            · exact r2 col hcm (by omega)
            · split
              · exact r2 piv h2 (by omega)
              · exact r2 r hr hrj
        · refine h.eqv.trans (requiv_swap l t m piv col _ _ _ _ h2 hcm ?_ ?_)
          · intro r _ j _; exact ent_swap rows piv col r j hs1 hs2
          · intro r _ j _; exact ent_swap rhs piv col r j hs3 hs4
      · rw [ent_swap rows piv col col col hs1 hs2, if_neg (fun e => hpc' e.symm), if_pos rfl]; exact h3
    · next hpc =>
      have hpc' : piv = col := by simpa using hpc
      apply fin _ _ h
      rw [hpc'] at h3; exact h3


theorem gjLoop_spec (l t : Nat) (rows rhs : Array ByteArray) (hr : Shape rows.size l rows)
    (hb : Shape rows.size t rhs) :
    GJPost l t rows.size (ent rows) (ent rhs) (gjLoop l rows rhs) := by
  unfold gjLoop
  apply forIn_range_ind (fun i (s : Option GJResult × Array ByteArray × Array ByteArray) =>
      s.1 = none ∧ GJInv l t rows.size (ent rows) (ent rhs) i s.2.1 s.2.2) _ 0 l _ _ (Nat.zero_le _)
  · exact ⟨rfl, hr, hb, Nat.zero_le _, fun j hj => by omega, REquiv.refl _ _ _ _ _⟩
  · intro i s _ h2 ⟨_, h4⟩
    simp only [Id.run_pure]
    exact gjBody_spec l t rows.size (ent rows) (ent rhs) i s.2.1 s.2.2 h4 h2
  · intro s hs
    exact Or.inl hs

theorem gaussJordan_solved (l t : Nat) (rows rhs : Array ByteArray) (hr : Shape rows.size l rows)
    (hb : Shape rows.size t rhs) (cb : Array ByteArray) (h : gaussJordan l rows rhs = .solved cb) :
    ∃ rows' rhs', cb = rhs'.extract 0 l ∧ GJInv l t rows.size (ent rows) (ent rhs) l rows' rhs' := by
  rw [gaussJordan_eq] at h
  have hs := gjLoop_spec l t rows rhs hr hb
  generalize gjLoop l rows rhs = s at h hs
  rcases s with ⟨o, a, b⟩
  rcases hs with ⟨h1, h2⟩ | ⟨z, h1, _⟩
  · dsimp only at h1 h2 h
    subst h1
    dsimp only at h
    injection h with h
    exact ⟨a, b, h.symm, h2⟩
  · dsimp only at h1 h
    subst h1
    dsimp only at h
    cases h

theorem gaussJordan_singular (l t : Nat) (rows rhs : Array ByteArray) (hr : Shape rows.size l rows)
    (hb : Shape rows.size t rhs) (z : Array Nat) (h : gaussJordan l rows rhs = .singular z) :
    SingOK l rows.size (ent rows) z := by
  rw [gaussJordan_eq] at h
  have hs := gjLoop_spec l t rows rhs hr hb
  generalize gjLoop l rows rhs = s at h hs
  rcases s with ⟨o, a, b⟩
  rcases hs with ⟨h1, h2⟩ | ⟨z', h1, h2⟩
  · dsimp only at h1 h
    subst h1
    dsimp only at h
    cases h
  · dsimp only at h1 h
    subst h1
    dsimp only at h
    injection h with h
    subst h
    exact h2


theorem xor_eq_zero_d (a b : Nat) (h : a ^^^ b = 0) : a = b := by
  have : a ^^^ (a ^^^ b) = b := by rw [← Nat.xor_assoc, Nat.xor_self, Nat.zero_xor]
  rw [h, Nat.xor_zero] at this; exact this

/-- on a fully reduced matrix, row `j` reads off coordinate `j` -/
theorem dot_reduced (l m : Nat) (rows : Array ByteArray) (hred : Reduced m l rows) (hlm : l ≤ m)
    (x : Nat → Nat) (hx : ∀ j, x j < 256) (j : Nat) (hj : j < l) : dot l (ent rows j) x = x j := by
  unfold dot
  rw [xs_single l _ j hj]
  · rw [(hred j hj).1, gmulP_one_left _ (hx j)]
  · intro k hk hkj
    rw [(hred k hk).2 j (by omega) (fun e => hkj e.symm), gmulP_zero_left]

/-- **all columns got a pivot**: the solution of the reduced system can be read off -/
theorem gaussJordan_solved_reads (l t : Nat) (rows rhs : Array ByteArray) (hr : Shape rows.size l rows)
    (hb : Shape rows.size t rhs) (cb : Array ByteArray) (h : gaussJordan l rows rhs = .solved cb) :
    ∃ rhs', cb = rhs'.extract 0 l ∧ Shape rows.size t rhs' ∧ l ≤ rows.size ∧
      ∀ x y, (∀ j, x j < 256) → (∀ j, y j < 256) → Ann l t rows.size (ent rows) (ent rhs) x y →
        ∀ j, j < l → x j = dot t (ent rhs' j) y := by
  obtain ⟨rows', rhs', e, hi⟩ := gaussJordan_solved l t rows rhs hr hb cb h
  have hlm : l ≤ rows.size := hi.le
  refine ⟨rhs', e, hi.shb, hlm, ?_⟩
  intro x y hx hy ha j hj
  have := (hi.eqv x y hx hy).mp ha j (by omega)
  unfold rowVal at this
  rw [dot_reduced l rows.size rows' hi.red hlm x hx j hj] at this
  exact xor_eq_zero_d _ _ this

/-- **all columns got a pivot**: the kernel is trivial -/
theorem gaussJordan_solved_kernel (l t : Nat) (rows rhs : Array ByteArray) (hr : Shape rows.size l rows)
    (hb : Shape rows.size t rhs) (cb : Array ByteArray) (h : gaussJordan l rows rhs = .solved cb)
    (x : Nat → Nat) (hx : ∀ j, x j < 256) (hk : ∀ r, r < rows.size → dot l (ent rows r) x = 0) :
    ∀ j, j < l → x j = 0 := by
  obtain ⟨rhs', _, _, _, hread⟩ := gaussJordan_solved_reads l t rows rhs hr hb cb h
  intro j hj
  rw [hread x (fun _ => 0) hx (fun _ => by decide) (fun r hr => by rw [rowVal_zero_right]; exact hk r hr) j hj,
    dot_zero_right]

end Rq
