import Rq.Lemmas.GJLoop
/-!
`gaussJordan` cut into named pieces (the three inner loops, the scale step, the swap step) with the
control structure of the code; `gaussJordan_eq` holds by unfolding.
-/
namespace Rq

/-- pivot search of the rank oracle -/
def pivLoop (m col : Nat) (rows : Array ByteArray) : Nat :=
  (forIn [col:m] m (fun r (piv : Nat) =>
    if (piv == m && rows[r]!.get! col != 0) = true then (pure (ForInStep.yield r) : Id _)
    else pure (ForInStep.yield piv)) : Id Nat).run

def zLoop (l col : Nat) (rows : Array ByteArray) : Array Nat :=
  (forIn [:col] (Array.replicate l 0) (fun j (z : Array Nat) =>
    (pure (ForInStep.yield (z.set! j (rows[j]!.get! col).toNat)) : Id _)) : Id (Array Nat)).run

def elimLoop (m col : Nat) (prow psym : ByteArray) (rows rhs : Array ByteArray) : Array ByteArray × Array ByteArray :=
  (forIn [:m] (rows, rhs) (fun r (s : Array ByteArray × Array ByteArray) =>
    if (r != col) = true then
      if (s.1[r]!.get! col != 0) = true then
        (pure (ForInStep.yield (
          (s.1.set! r ByteArray.empty).set! r (rowFma s.1[r]! prow (s.1[r]!.get! col) col),
          (s.2.set! r ByteArray.empty).set! r (rowFma s.2[r]! psym (s.1[r]!.get! col) 0))) : Id _)
      else pure (ForInStep.yield s)
    else pure (ForInStep.yield s)) : Id _).run

def afterScale (m col : Nat) (rows rhs : Array ByteArray) :
    ForInStep (Option GJResult × Array ByteArray × Array ByteArray) :=
  .yield (none, (elimLoop m col rows[col]! rhs[col]! rows rhs).1, (elimLoop m col rows[col]! rhs[col]! rows rhs).2)

def afterSwap (m col : Nat) (rows rhs : Array ByteArray) :
    ForInStep (Option GJResult × Array ByteArray × Array ByteArray) :=
  if (rows[col]!.get! col != 1) = true then
    afterScale m col
      ((rows.set! col ByteArray.empty).set! col (rowScale rows[col]! (invTab.get! (rows[col]!.get! col).toNat) col))
      ((rhs.set! col ByteArray.empty).set! col (rowScale rhs[col]! (invTab.get! (rows[col]!.get! col).toNat) 0))
  else afterScale m col rows rhs

/-- one column of the elimination, with the control structure of the code -/
def gjBody (l m col : Nat) (rows rhs : Array ByteArray) :
    ForInStep (Option GJResult × Array ByteArray × Array ByteArray) :=
  if (pivLoop m col rows == m) = true then
    .done (some (.singular ((zLoop l col rows).set! col 1)), rows, rhs)
  else if (pivLoop m col rows != col) = true then
    afterSwap m col (rows.swapIfInBounds (pivLoop m col rows) col) (rhs.swapIfInBounds (pivLoop m col rows) col)
  else afterSwap m col rows rhs

def gjLoop (l : Nat) (rows rhs : Array ByteArray) : Option GJResult × Array ByteArray × Array ByteArray :=
  (forIn [:l] (none, rows, rhs) (fun col s => (pure (gjBody l rows.size col s.2.1 s.2.2) : Id _)) : Id _).run

theorem gj_split2 {σ : Type} (x : Id σ) (k : σ → Id GJResult) (x' : σ) (hx : x.run = x') (v : GJResult)
    (h : (k x').run = v) : (x >>= k).run = v := by
  subst hx; exact h

theorem gaussJordan_eq (l : Nat) (rows rhs : Array ByteArray) :
    gaussJordan l rows rhs =
      match (gjLoop l rows rhs).1 with
      | some r => r
      | none => .solved ((gjLoop l rows rhs).2.2.extract 0 l) := by
  unfold gaussJordan
  refine gj_split2 _ _ (gjLoop l rows rhs) ?_ _ ?_
  · unfold gjLoop
    refine congrArg (fun f => (forIn [:l] ((none : Option GJResult), rows, rhs) f : Id _).run) ?_
    funext col s
    rfl
  · generalize gjLoop l rows rhs = S
    rcases S with ⟨o, a, b⟩
    cases o <;> rfl

end Rq
