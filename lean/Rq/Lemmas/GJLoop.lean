import Rq.Lemmas.GJBytes
import Rq.Lemmas.GF256
import Rq.Lemmas.MatrixWf
/-!
Loop-invariant rules for the `for` loops of the `Id.run do` model code (indexed by the loop
counter), byte-array reads and writes as naturals, the multiplication / inverse tables of the
rank oracle, and what `rowFma`, `rowScale`, `denseOfCols`, `denseOfNats`, `symToBA` compute.
-/
namespace Rq

/-- post-condition of one loop step -/
def StepPost {β : Type} (A B : β → Prop) : ForInStep β → Prop
  | .yield b => A b
  | .done b => B b

theorem forIn_range'_ind {β : Type} (P : Nat → β → Prop) (Q : β → Prop) (f : Nat → β → Id (ForInStep β)) :
    ∀ (n lo : Nat) (init : β), P lo init →
      (∀ i b, lo ≤ i → i < lo + n → P i b → StepPost (P (i + 1)) Q (f i b).run) →
      (∀ b, P (lo + n) b → Q b) →
      Q (forIn (List.range' lo n) init f : Id β).run := by
  intro n
  induction n with
  | zero => intro lo init h0 _ hfin; simpa using hfin init (by simpa using h0)
  | succ n ih =>
    intro lo init h0 hstep hfin
    rw [List.range'_succ, List.forIn_cons]
    have h1 := hstep lo init (Nat.le_refl _) (by omega) h0
    simp only [Id.run_bind]
    cases hf : (f lo init).run with
    | done b => rw [hf] at h1; simpa [StepPost] using h1
    | yield b =>
      rw [hf] at h1
      refine ih (lo + 1) b (by simpa [StepPost] using h1) ?_ ?_
      · intro i b' h1 h2 h3; exact hstep i b' (by omega) (by omega) h3
      · intro b' hb'; exact hfin b' (by rwa [show lo + (n + 1) = lo + 1 + n by omega])

theorem forIn_range_ind {β : Type} (P : Nat → β → Prop) (Q : β → Prop) (lo hi : Nat)
    (f : Nat → β → Id (ForInStep β)) (init : β) (hle : lo ≤ hi) (h0 : P lo init)
    (hstep : ∀ i b, lo ≤ i → i < hi → P i b → StepPost (P (i + 1)) Q (f i b).run)
    (hfin : ∀ b, P hi b → Q b) :
    Q (forIn [lo:hi] init f : Id β).run := by
  rw [Std.Legacy.Range.forIn_eq_forIn_range']
  simp only [Std.Legacy.Range.size, Nat.add_sub_cancel, Nat.div_one]
  apply forIn_range'_ind P Q f (hi - lo) lo init h0
  · intro i b h1 h2 h3; exact hstep i b h1 (by omega) h3
  · intro b hb; exact hfin b (by rwa [show lo + (hi - lo) = hi by omega] at hb)

/-- loops that never exit early -/
theorem forIn_range_ind' {β : Type} (P : Nat → β → Prop) (lo hi : Nat)
    (f : Nat → β → Id (ForInStep β)) (init : β) (hle : lo ≤ hi) (h0 : P lo init)
    (hstep : ∀ i b, lo ≤ i → i < hi → P i b → StepPost (P (i + 1)) (fun _ => False) (f i b).run) :
    P hi (forIn [lo:hi] init f : Id β).run :=
  forIn_range_ind P (P hi) lo hi f init hle h0
    (fun i b h1 h2 h3 => by
      have := hstep i b h1 h2 h3
      cases hf : (f i b).run with
      | done b' => rw [hf] at this; exact this.elim
      | yield b' => rw [hf] at this; exact this)
    (fun b hb => hb)

/-! ## byte arrays -/

def bget (b : ByteArray) (j : Nat) : Nat := (b.get! j).toNat
theorem ByteArray.get!_eq (b : ByteArray) (j : Nat) : b.get! j = b.data[j]! := by
  cases b; rfl

theorem ByteArray.set!_data (b : ByteArray) (i : Nat) (v : UInt8) : (b.set! i v).data = b.data.set! i v := by
  cases b; rfl
theorem bget_of_ge (b : ByteArray) (j : Nat) (h : b.size ≤ j) : bget b j = 0 := by
  unfold bget
  rw [ByteArray.get!_eq]
  have : b.data.size ≤ j := h
  rw [getElem!_neg _ _ (by omega)]
  rfl

theorem bget_set! (b : ByteArray) (i j : Nat) (v : UInt8) :
    bget (b.set! i v) j = if i = j ∧ i < b.size then v.toNat else bget b j := by
  unfold bget
  rw [ByteArray.get!_eq, ByteArray.get!_eq, ByteArray.set!_data]
  simp only [Array.set!_eq_setIfInBounds, Array.getElem!_eq_getD, Array.getD_eq_getD_getElem?,
    Array.getElem?_setIfInBounds, ByteArray.size_data]
  by_cases h1 : i = j
  · subst h1
    by_cases h2 : i < b.size
    · simp [h2]
    · simp [h2]
  · simp [h1]

theorem bget_mk (a : Array UInt8) (j : Nat) : bget (ByteArray.mk a) j = (a[j]?.getD 0).toNat := by
  unfold bget
  rw [ByteArray.get!_eq]
  simp only [Array.getElem!_eq_getD, Array.getD_eq_getD_getElem?]
  rfl
theorem bget_lt (b : ByteArray) (j : Nat) : bget b j < 256 := UInt8.toNat_lt _

theorem bget_empty (j : Nat) : bget ByteArray.empty j = 0 := by
  apply bget_of_ge; exact Nat.zero_le _

theorem mulTab_get (a b : Nat) (ha : a < 256) (hb : b < 256) :
    (mulTab.get! (a * 256 + b)).toNat = gmulP a b := by
  have hlt : a * 256 + b < 65536 := by omega
  unfold mulTab
  rw [ByteArray.get!_eq]
  simp only [Array.getElem!_eq_getD, Array.getD_eq_getD_getElem?]
  rw [Array.getElem?_ofFn]
  simp only [hlt, dite_true, Option.getD_some]
  have e1 : (a * 256 + b) / 256 = a := by omega
  have e2 : (a * 256 + b) % 256 = b := by omega
  rw [e1, e2, UInt8.toNat_ofNat', Nat.mod_eq_of_lt (gmul_lt_d a b), gmul_eq_gmulP a b ha hb]

theorem gdiv_one (a : Nat) (h0 : a ≠ 0) (ha : a < 256) : (gdiv 1 a).getD 0 = ginvP a := by
  unfold gdiv ginvP
  rw [if_neg h0, if_neg (by decide), if_neg h0]
  simp only [Option.getD_some]
  have h1 : olog 1 = 0 := by rw [olog_eq 1 (by decide)]; decide +kernel
  have hl := Lg_le a ha
  rw [h1, olog_eq a ha, Nat.add_zero, oexp_eq _ (by omega)]

theorem invTab_get (a : Nat) (h0 : a ≠ 0) (ha : a < 256) : (invTab.get! a).toNat = ginvP a := by
  unfold invTab
  rw [ByteArray.get!_eq]
  simp only [Array.getElem!_eq_getD, Array.getD_eq_getD_getElem?]
  rw [Array.getElem?_ofFn]
  simp only [ha, dite_true, Option.getD_some]
  rw [UInt8.toNat_ofNat', gdiv_one a h0 ha, Nat.mod_eq_of_lt (ginvP_lt a)]


/-! ## row kernels and densification -/

theorem gmulP_one_left (a : Nat) (ha : a < 256) : gmulP 1 a = a := by
  rw [gmulP_comm, gmulP_one a ha]

theorem gmulP_zero_left (a : Nat) : gmulP 0 a = 0 := by simp [gmulP]
theorem gmulP_zero_right (a : Nat) : gmulP a 0 = 0 := by simp [gmulP]

theorem rowFma_spec (dst src : ByteArray) (f : UInt8) (start : Nat) (hs : start ≤ src.size) :
    (rowFma dst src f start).size = dst.size ∧
    ∀ k, bget (rowFma dst src f start) k =
      if start ≤ k ∧ k < src.size ∧ k < dst.size then bget dst k ^^^ gmulP f.toNat (bget src k)
      else bget dst k := by
  unfold rowFma
  dsimp only
  split
  · next hf =>
    have hf1 : f.toNat = 1 := by
      have : f = 1 := by simpa using hf
      rw [this]; rfl
    simp only [Id.run_bind, Id.run_pure]
    have := forIn_range_ind' (fun j (d : ByteArray) => d.size = dst.size ∧
        ∀ k, bget d k = if start ≤ k ∧ k < j ∧ k < dst.size then bget dst k ^^^ gmulP f.toNat (bget src k)
          else bget dst k) start src.size
        (fun j __s => pure (ForInStep.yield (__s.set! j (__s.get! j ^^^ src.get! j)))) dst hs
        ⟨rfl, fun k => by rw [if_neg (by omega)]⟩
        (by
          intro j d h1 h2 ⟨h3, h4⟩
          simp only [Id.run_pure, StepPost]
          refine ⟨by rw [ByteArray.size_set!, h3], fun k => ?_⟩
          rw [bget_set!, h3]
          by_cases hk : j = k
          · subst hk
            by_cases hd : j < dst.size
            · rw [if_pos ⟨rfl, hd⟩, if_pos ⟨h1, by omega, hd⟩, UInt8.toNat_xor]
              have := h4 j
              rw [if_neg (by omega)] at this
              rw [hf1, gmulP_one_left _ (bget_lt _ _)]
              show bget d j ^^^ bget src j = _
              rw [this]
            · rw [if_neg (by omega), if_neg (by omega), h4 j, if_neg (by omega)]
          · rw [if_neg (by omega), h4 k]
            by_cases hc : start ≤ k ∧ k < j ∧ k < dst.size
            · rw [if_pos hc, if_pos ⟨hc.1, by omega, hc.2.2⟩]
            · rw [if_neg hc, if_neg (by omega)])
    exact this
  · next hf =>
    simp only [Id.run_bind, Id.run_pure]
    have := forIn_range_ind' (fun j (d : ByteArray) => d.size = dst.size ∧
        ∀ k, bget d k = if start ≤ k ∧ k < j ∧ k < dst.size then bget dst k ^^^ gmulP f.toNat (bget src k)
          else bget dst k) start src.size
        (fun j __s => pure (ForInStep.yield (__s.set! j (__s.get! j ^^^
          mulTab.get! (f.toNat * 256 + (src.get! j).toNat))))) dst hs
        ⟨rfl, fun k => by rw [if_neg (by omega)]⟩
        (by
          intro j d h1 h2 ⟨h3, h4⟩
          simp only [Id.run_pure, StepPost]
          refine ⟨by rw [ByteArray.size_set!, h3], fun k => ?_⟩
          rw [bget_set!, h3]
          by_cases hk : j = k
          · subst hk
            by_cases hd : j < dst.size
            · rw [if_pos ⟨rfl, hd⟩, if_pos ⟨h1, by omega, hd⟩, UInt8.toNat_xor,
                mulTab_get _ _ (UInt8.toNat_lt _) (UInt8.toNat_lt _)]
              have := h4 j
              rw [if_neg (by omega)] at this
              show bget d j ^^^ gmulP f.toNat (bget src j) = _
              rw [this]
            · rw [if_neg (by omega), if_neg (by omega), h4 j, if_neg (by omega)]
          · rw [if_neg (by omega), h4 k]
            by_cases hc : start ≤ k ∧ k < j ∧ k < dst.size
            · rw [if_pos hc, if_pos ⟨hc.1, by omega, hc.2.2⟩]
            · rw [if_neg hc, if_neg (by omega)])
    exact this


theorem rowScale_spec (dst : ByteArray) (f : UInt8) (start : Nat) (hs : start ≤ dst.size) :
    (rowScale dst f start).size = dst.size ∧
    ∀ k, bget (rowScale dst f start) k =
      if start ≤ k ∧ k < dst.size then gmulP f.toNat (bget dst k) else bget dst k := by
  unfold rowScale
  dsimp only
  simp only [Id.run_bind, Id.run_pure]
  have := forIn_range_ind' (fun j (d : ByteArray) => d.size = dst.size ∧
      ∀ k, bget d k = if start ≤ k ∧ k < j then gmulP f.toNat (bget dst k) else bget dst k) start dst.size
      (fun j __s => pure (ForInStep.yield (__s.set! j (mulTab.get! (f.toNat * 256 + (__s.get! j).toNat))))) dst hs
      ⟨rfl, fun k => by rw [if_neg (by omega)]⟩
      (by
        intro j d h1 h2 ⟨h3, h4⟩
        simp only [Id.run_pure, StepPost]
        refine ⟨by rw [ByteArray.size_set!, h3], fun k => ?_⟩
        rw [bget_set!, h3]
        by_cases hk : j = k
        · subst hk
          rw [if_pos ⟨rfl, h2⟩, if_pos ⟨h1, by omega⟩, mulTab_get _ _ (UInt8.toNat_lt _) (UInt8.toNat_lt _)]
          have := h4 j
          rw [if_neg (by omega)] at this
          show gmulP f.toNat (bget d j) = _
          rw [this]
        · rw [if_neg (by omega), h4 k]
          by_cases hc : start ≤ k ∧ k < j
          · rw [if_pos hc, if_pos ⟨hc.1, by omega⟩]
          · rw [if_neg hc, if_neg (by omega)])
  refine ⟨this.1, fun k => ?_⟩
  rw [this.2 k]

theorem forIn_list_ind {α β : Type} (P : List α → β → Prop) (f : α → β → Id (ForInStep β))
    (hstep : ∀ a done b, P done b → StepPost (P (done ++ [a])) (fun _ => False) (f a b).run) :
    ∀ (l done : List α) (init : β), P done init → P (done ++ l) (forIn l init f : Id β).run := by
  intro l
  induction l with
  | nil => intro done init h0; simpa using h0
  | cons a as ih =>
    intro done init h0
    rw [List.forIn_cons]
    have h1 := hstep a done init h0
    simp only [Id.run_bind]
    cases hf : (f a init).run with
    | done b => rw [hf] at h1; exact h1.elim
    | yield b =>
      rw [hf] at h1
      have := ih (done ++ [a]) b h1
      simpa using this

theorem denseOfCols_spec (l : Nat) (cols : List Nat) :
    (denseOfCols l cols).size = l ∧
    ∀ k, bget (denseOfCols l cols) k = if k ∈ cols ∧ k < l then 1 else 0 := by
  unfold denseOfCols
  dsimp only
  simp only [Id.run_bind, Id.run_pure]
  have h0 : (ByteArray.mk (Array.replicate l 0)).size = l := by
    show (Array.replicate l (0 : UInt8)).size = l
    simp
  have := forIn_list_ind (fun done (d : ByteArray) => d.size = l ∧
      ∀ k, bget d k = if k ∈ done ∧ k < l then 1 else 0)
      (fun c (__s : ByteArray) => if c < l then pure (ForInStep.yield (__s.set! c 1)) else pure (ForInStep.yield __s))
      (by
        intro c done d ⟨h3, h4⟩
        split
        · next hc =>
          simp only [Id.run_pure, StepPost]
          refine ⟨by rw [ByteArray.size_set!, h3], fun k => ?_⟩
          rw [bget_set!, h3, h4 k]
          by_cases hk : c = k
          · subst hk
            rw [if_pos ⟨rfl, hc⟩, if_pos ⟨by simp, hc⟩]; rfl
          · rw [if_neg (by omega)]
            have : k ∈ done ++ [c] ↔ k ∈ done := by simp; omega
            simp only [this]
        · next hc =>
          simp only [Id.run_pure, StepPost]
          refine ⟨h3, fun k => ?_⟩
          rw [h4 k]
          by_cases hk : k < l
          · have : k ∈ done ++ [c] ↔ k ∈ done := by simp; omega
            simp only [this]
          · rw [if_neg (by omega), if_neg (by omega)])
      cols [] (ByteArray.mk (Array.replicate l 0))
      ⟨h0, fun k => by
        rw [if_neg (by simp), bget_mk]
        simp only [Array.getElem?_replicate]
        split <;> rfl⟩
  simpa using this

theorem denseOfNats_spec (row : Array Nat) (hb : ∀ v ∈ row.toList, v < 256) :
    (denseOfNats row).size = row.size ∧ ∀ k, bget (denseOfNats row) k = row.getD k 0 := by
  unfold denseOfNats
  refine ⟨by show (row.map UInt8.ofNat).size = _; simp, fun k => ?_⟩
  rw [bget_mk]
  simp only [Array.getElem?_map, Array.getD_eq_getD_getElem?]
  cases h : row[k]? with
  | none => rfl
  | some v =>
    simp only [Option.map_some, Option.getD_some]
    rw [UInt8.toNat_ofNat']
    apply Nat.mod_eq_of_lt
    apply hb
    have := Array.mem_of_getElem? h
    simpa using this

theorem symToBA_spec (s : List Nat) (hb : ∀ v ∈ s, v < 256) :
    (symToBA s).size = s.length ∧ ∀ k, bget (symToBA s) k = s.getD k 0 := by
  unfold symToBA
  refine ⟨by show (s.toArray.map UInt8.ofNat).size = _; simp, fun k => ?_⟩
  rw [bget_mk]
  simp only [Array.getElem?_map, List.getD_eq_getElem?_getD, List.getElem?_toArray]
  cases h : s[k]? with
  | none => rfl
  | some v =>
    simp only [Option.map_some, Option.getD_some]
    rw [UInt8.toNat_ofNat']
    apply Nat.mod_eq_of_lt
    exact hb _ (List.mem_of_getElem? h)

theorem baToSym_spec (b : ByteArray) :
    (baToSym b).length = b.size ∧ ∀ k, (baToSym b).getD k 0 = bget b k := by
  unfold baToSym
  refine ⟨by simp, fun k => ?_⟩
  unfold bget
  rw [ByteArray.get!_eq]
  simp only [List.getD_eq_getElem?_getD, List.getElem?_map, Array.getElem?_toList,
    Array.getElem!_eq_getD, Array.getD_eq_getD_getElem?]
  cases h : b.data[k]? <;> rfl


end Rq
