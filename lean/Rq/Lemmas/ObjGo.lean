import Rq.Thm.C05
import Rq.Spec.Defs
namespace Rq
open Rq

/-! ## (B) symbols cut from a block are well formed -/

theorem cutSym_mem (data : List Nat) (k m : Nat) (sizes : List Nat) (off : Nat) :
    ∀ x ∈ cutSym data k m sizes off, x ∈ data := by
  induction sizes generalizing off with
  | nil => intro x hx; simp [cutSym] at hx
  | cons sz rest ih =>
    intro x hx
    unfold cutSym at hx
    rw [List.mem_append] at hx
    rcases hx with hx | hx
    · exact List.mem_of_mem_drop (List.mem_of_mem_take hx)
    · exact ih _ x hx

/-- (B) the symbols cut from a block of bytes are well-formed symbols: T bytes each -/
theorem createSymbols_wf (t al n : Nat) (data : List Nat) (syms : List Sym) (ht : 0 < t) (ht' : t < 2 ^ 32)
    (hal : 0 < al) (hdiv : t % al = 0) (hn : 1 ≤ n) (hn' : n ≤ t / al) (hb : IsBytes data)
    (h : createSymbols t al n data = some syms) :
    data.length % t = 0 ∧ syms.length = data.length / t ∧ ∀ s ∈ syms, WfSym t s := by
  have _ := hn'
  have hlen : data.length % t = 0 := by
    apply Classical.byContradiction
    intro hne
    unfold createSymbols at h
    rw [if_neg (by omega), if_pos hne] at h
    cases h
  have hn0 : 0 < n := by omega
  have hs := subSizes_eq t al n hal hn0 ht'
  have hsum := subSizes_sum t al n hdiv hn0
  have hk : data.length / t * t = data.length := by
    have := Nat.div_add_mod data.length t
    rw [Nat.mul_comm] at this
    omega
  rw [createSymbols_eq t al n data _ ht ht' hal hdiv hn hlen hs hsum] at h
  cases h
  refine ⟨hlen, by simp, ?_⟩
  intro s hs
  rw [List.mem_map] at hs
  obtain ⟨m, hm, rfl⟩ := hs
  rw [List.mem_range] at hm
  refine ⟨?_, ?_⟩
  · rw [cutSym_length data _ m hm _ 0 (by rw [hsum, Nat.zero_add]; omega), hsum]
  · intro x hx
    exact hb x (cutSym_mem _ _ _ _ _ x hx)

/-! ## (D1) -/

/-- (D1) the block loop of `ObjEnc.new?`: block j is built from the bytes of range j with number (i+j) % 256 -/
theorem objEnc_go_spec (sv : Solver) (data : List Nat) (o : Oti) :
    ∀ (offs : List (Nat × Nat)) (i : Nat) (bs : List BlockEnc), ObjEnc.new?.go sv data o i offs = some bs →
      bs.length = offs.length ∧ ∀ j, j < offs.length → ∃ bytes e, blockBytes data (offs.getD j (0, 0)) = some bytes ∧
        BlockEnc.new? sv ((i + j) % 256) o bytes = some e ∧ bs[j]? = some e := by
  intro offs
  induction offs with
  | nil =>
    intro i bs h
    unfold ObjEnc.new?.go at h
    cases h
    exact ⟨rfl, fun j hj => absurd hj (by simp)⟩
  | cons r rest ih =>
    intro i bs h
    unfold ObjEnc.new?.go at h
    split at h
    · cases h
    · next bytes hbytes =>
      split at h
      · next b bs' hb hgo =>
        cases h
        obtain ⟨ih1, ih2⟩ := ih (i + 1) bs' hgo
        refine ⟨by simp [ih1], ?_⟩
        intro j hj
        cases j with
        | zero => exact ⟨bytes, b, by simpa using hbytes, by simpa using hb, by simp⟩
        | succ j =>
          obtain ⟨bytes', e, h1, h2, h3⟩ := ih2 j (by simpa using hj)
          refine ⟨bytes', e, by simpa using h1, ?_, by simpa using h3⟩
          rw [show i + (j + 1) = i + 1 + j by omega]; exact h2
      · cases h

/-! ## (D2) -/

/-- (D2) the block loop of `ObjDec.new?` never fails for T > 0 and builds block j with number (i+j) % 256 -/
theorem objDec_go_spec (o : Oti) (ht : 0 < o.t) :
    ∀ (cs : List Nat) (i : Nat), ∃ bs, ObjDec.new?.go o i cs = some bs ∧ bs.length = cs.length ∧
      ∀ j, j < cs.length → bs[j]? = BlockDec.new? ((i + j) % 256) o (cs.getD j 0 * o.t) := by
  intro cs
  induction cs with
  | nil =>
    intro i
    exact ⟨[], by unfold ObjDec.new?.go; rfl, rfl, fun j hj => absurd hj (by simp)⟩
  | cons k rest ih =>
    intro i
    obtain ⟨bs', h1, h2, h3⟩ := ih (i + 1)
    have hnew : ∃ b, BlockDec.new? (i % 256) o (k * o.t) = some b := by
      unfold BlockDec.new?
      rw [intDivCeil_eq _ _ ht]
      exact ⟨_, rfl⟩
    obtain ⟨b, hb⟩ := hnew
    refine ⟨b :: bs', ?_, by simp [h2], ?_⟩
    · unfold ObjDec.new?.go
      rw [hb, h1]
    · intro j hj
      cases j with
      | zero => simpa using hb.symm
      | succ j =>
        have := h3 j (by simpa using hj)
        rw [show i + (j + 1) = i + 1 + j by omega]
        simpa using this

/-! ## (D3) -/

/-- (D3) what `BlockEnc.new?` returns -/
theorem blockEnc_new_spec (sv : Solver) (sbn : Nat) (o : Oti) (bytes : List Nat) (e : BlockEnc)
    (h : BlockEnc.new? sv sbn o bytes = some e) :
    e.sbn = sbn ∧ e.t = o.t ∧ createSymbols o.t o.al o.n bytes = some e.src ∧ sysParams e.src.length = some e.sp ∧
      sv.full e.sp (List.range e.sp.kp) (createD e.sp o.t e.src) = .solved e.c := by
  unfold BlockEnc.new? at h
  split at h
  · cases h
  · next src hsrc =>
    split at h
    · cases h
    · next sp hsp =>
      split at h
      · next c hc =>
        cases h
        exact ⟨rfl, rfl, hsrc, hsp, hc⟩
      · cases h

/-! ## (D4) -/

theorem blockCounts_eq (o : Oti) (ht : 0 < o.t) (hz : 0 < o.z) (hkt : ceilDiv o.f o.t < 2 ^ 32) :
    blockCounts o = some (List.replicate (ceilDiv o.f o.t % o.z) (ceilDiv (ceilDiv o.f o.t) o.z) ++
      List.replicate (o.z - ceilDiv o.f o.t % o.z) (ceilDiv o.f o.t / o.z)) := by
  unfold blockCounts
  rw [intDivCeil_of_lt o.f o.t ht (by unfold U32; omega)]
  simp only []
  rw [partition_eq _ _ hkt hz]

/-- (D4) the symbol counts of the decoder's blocks and the byte ranges of the encoder's blocks agree:
range b has (count b) · T bytes -/
theorem counts_offsets (o : Oti) (hv : Rq.C05.ValidObj o) (counts : List Nat) (offs : List (Nat × Nat))
    (hc : blockCounts o = some counts) (ho : blockOffsets o.f o = some offs) :
    counts.length = o.z ∧ offs.length = o.z ∧
      ∀ b, b < o.z → (offs.getD b (0, 0)).2 - (offs.getD b (0, 0)).1 = counts.getD b 0 * o.t ∧
        counts.getD b 0 ≤ ceilDiv (ceilDiv o.f o.t) o.z := by
  obtain ⟨ht, hz, hf, hkt, hzle⟩ := hv
  obtain ⟨h1, h2, h3, h4, h5, h6⟩ := partition_laws (ceilDiv o.f o.t) o.z hz
  rw [blockOffsets_eq o ht hz hkt] at ho
  rw [blockCounts_eq o ht hz hkt] at hc
  cases ho
  cases hc
  generalize ceilDiv o.f o.t = kt at *
  generalize ceilDiv kt o.z = kl at *
  generalize kt / o.z = ks at *
  generalize kt % o.z = zl at *
  refine ⟨by simp; omega, by simp, ?_⟩
  intro b hb
  have hget : ((List.range o.z).map fun b =>
      (blkBnd kl ks zl o.t b, blkBnd kl ks zl o.t (b + 1))).getD b (0, 0) =
      (blkBnd kl ks zl o.t b, blkBnd kl ks zl o.t (b + 1)) := by
    simp [List.getD_eq_getElem?_getD, hb]
  rw [hget]
  by_cases hlt : b < zl
  · have hcnt : (List.replicate zl kl ++ List.replicate (o.z - zl) ks).getD b 0 = kl := by
      rw [List.getD_eq_getElem?_getD, List.getElem?_append_left (by simpa using hlt)]
      simp [hlt]
    obtain ⟨e1, e2⟩ := blkBnd_lt kl ks zl o.t b hlt
    rw [hcnt]
    refine ⟨?_, Nat.le_refl _⟩
    simp only [e1, e2]
    rw [Nat.add_mul, Nat.one_mul, Nat.add_sub_cancel_left]
  · have hcnt : (List.replicate zl kl ++ List.replicate (o.z - zl) ks).getD b 0 = ks := by
      rw [List.getD_eq_getElem?_getD, List.getElem?_append_right (by simpa using Nat.le_of_not_lt hlt)]
      rw [List.length_replicate, List.getElem?_replicate, if_pos (by omega)]
      rfl
    obtain ⟨e1, e2⟩ := blkBnd_ge kl ks zl o.t b (by omega)
    rw [hcnt]
    refine ⟨?_, h4⟩
    simp only [e1, e2]
    rw [Nat.add_mul, Nat.one_mul, ← Nat.add_assoc, Nat.add_sub_cancel_left]


end Rq
