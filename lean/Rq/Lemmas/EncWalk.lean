import Mathlib.Data.Nat.Prime.Basic
import Mathlib.Data.ZMod.Basic
import Mathlib.Algebra.Field.ZMod
import Mathlib.Data.List.Nodup
import Mathlib.Tactic.Ring
import Rq.Model.Params
import Rq.Lemmas.Params
/-!
# The walks of `enc_indices` never repeat

* `orb_inj` / `orb_surj`: for a prime modulus `q` and `1 ≤ a < q` the walk `m ↦ (b + m·a) mod q`
  is injective on every window of `q` steps and reaches every residue;
* `ltWalk_nodup`: the LT walk (d ≤ W steps) has no repetition;
* `skipPi_char`: what the skip loop returns (first hit `< p` of the walk);
* `pi_nodup`: up to three PI indices are distinct when `p ≥ 3`.
-/
namespace Rq.C04
open Rq

/-- the walk b, b+a, b+2a, … modulo q -/
def orb (b a q m : Nat) : Nat := (b + m * a) % q

theorem orb_lt (b a q m : Nat) (hq : 0 < q) : orb b a q m < q := Nat.mod_lt _ hq

theorem orb_zero (b a q : Nat) (hb : b < q) : orb b a q 0 = b := by
  unfold orb; rw [Nat.zero_mul, Nat.add_zero, Nat.mod_eq_of_lt hb]

/-- stepping from a point of the walk continues the walk -/
theorem orb_orb (b a q m n : Nat) : orb (orb b a q m) a q n = orb b a q (m + n) := by
  unfold orb
  rw [Nat.mod_add_mod]
  congr 1
  ring

theorem orb_step (b a q m : Nat) : (orb b a q m + a) % q = orb b a q (m + 1) := by
  unfold orb
  rw [Nat.mod_add_mod]
  congr 1
  ring

theorem cast_ne_zero (a q : Nat) (_hq : Nat.Prime q) (ha : 1 ≤ a) (ha' : a < q) : (a : ZMod q) ≠ 0 := by
  rw [Ne, ZMod.natCast_eq_zero_iff]
  exact Nat.not_dvd_of_pos_of_lt (by omega) ha'

theorem orb_inj (b a q : Nat) (hq : Nat.Prime q) (ha : 1 ≤ a) (ha' : a < q) (m m' : Nat)
    (h : orb b a q m = orb b a q m') : m % q = m' % q := by
  have : Fact q.Prime := ⟨hq⟩
  unfold orb at h
  rw [← ZMod.natCast_eq_natCast_iff'] at h ⊢
  push_cast at h
  have h2 : (m : ZMod q) * (a : ZMod q) = (m' : ZMod q) * (a : ZMod q) := add_left_cancel h
  exact mul_right_cancel₀ (cast_ne_zero a q hq ha ha') h2

/-- injective on a window of q steps -/
theorem orb_inj_lt (b a q : Nat) (hq : Nat.Prime q) (ha : 1 ≤ a) (ha' : a < q) (m m' : Nat)
    (hm : m < q) (hm' : m' < q) (h : orb b a q m = orb b a q m') : m = m' := by
  have := orb_inj b a q hq ha ha' m m' h
  rwa [Nat.mod_eq_of_lt hm, Nat.mod_eq_of_lt hm'] at this

theorem orb_ne_of_lt (b a q : Nat) (hq : Nat.Prime q) (ha : 1 ≤ a) (ha' : a < q) (hb : b < q) (n : Nat)
    (h0 : 0 < n) (hn : n < q) : orb b a q n ≠ b := by
  intro h
  have := orb_inj_lt b a q hq ha ha' n 0 hn hq.pos (by rw [h, orb_zero b a q hb])
  omega

theorem orb_surj (b a q : Nat) (hq : Nat.Prime q) (ha : 1 ≤ a) (ha' : a < q) (v : Nat) (hv : v < q) :
    ∃ n, n < q ∧ orb b a q n = v := by
  have : Fact q.Prime := ⟨hq⟩
  refine ⟨(((v : ZMod q) - (b : ZMod q)) * (a : ZMod q)⁻¹).val, ZMod.val_lt _, ?_⟩
  unfold orb
  rw [← Nat.mod_eq_of_lt hv, ← ZMod.natCast_eq_natCast_iff', Nat.mod_eq_of_lt hv]
  push_cast
  rw [ZMod.natCast_val, ZMod.cast_id', id, mul_assoc, inv_mul_cancel₀ (cast_ne_zero a q hq ha ha'), mul_one]
  ring

theorem orb_period (b a q : Nat) (hb : b < q) : orb b a q q = b := by
  unfold orb
  rw [Nat.add_mul_mod_self_left, Nat.mod_eq_of_lt hb]

/-! ## LT walk -/

theorem ltWalk_eq (a w : Nat) : ∀ d b, b < w → ltWalk d a b w = (List.range d).map (orb b a w) := by
  intro d
  induction d with
  | zero => intro b _; rfl
  | succ d ih =>
    intro b hb
    have hw : 0 < w := by omega
    rw [ltWalk, ih _ (Nat.mod_lt _ hw), List.range_succ_eq_map, List.map_cons, List.map_map,
      orb_zero b a w hb]
    congr 1
    apply List.map_congr_left
    intro m _
    have : (b + a) % w = orb b a w 1 := by unfold orb; rw [Nat.one_mul]
    rw [this, orb_orb, Function.comp_apply, Nat.succ_eq_add_one, Nat.add_comm]

theorem ltWalk_nodup (d a b w : Nat) (hw : Nat.Prime w) (ha : 1 ≤ a) (ha' : a < w) (hb : b < w)
    (hd : d ≤ w) : (ltWalk d a b w).Nodup := by
  rw [ltWalk_eq a w d b hb]
  apply List.Nodup.map_on _ List.nodup_range
  intro x hx y hy hxy
  have hx := List.mem_range.mp hx
  have hy := List.mem_range.mp hy
  exact orb_inj_lt b a w hw ha ha' x y (by omega) (by omega) hxy

/-! ## the PI skip loop -/

/-- the loop returns the first point of the walk (from `b`) that is `< p` -/
theorem skipPi_char (a1 p p1 : Nat) : ∀ fuel b r, b < p1 → skipPi fuel b a1 p p1 = some r →
    ∃ n, n < fuel ∧ r = orb b a1 p1 n ∧ r < p ∧ ∀ m, m < n → p ≤ orb b a1 p1 m := by
  intro fuel
  induction fuel with
  | zero => intro b r _ h; simp [skipPi] at h
  | succ fuel ih =>
    intro b r hb h
    unfold skipPi at h
    by_cases hbp : b ≥ p
    · rw [if_pos hbp] at h
      obtain ⟨n, hn, hr, hrp, hall⟩ := ih _ r (Nat.mod_lt _ (by omega)) h
      have e1 : (b + a1) % p1 = orb b a1 p1 1 := by unfold orb; rw [Nat.one_mul]
      refine ⟨n + 1, by omega, ?_, hrp, ?_⟩
      · rw [hr, e1, orb_orb, Nat.add_comm]
      · intro m hm
        rcases Nat.eq_zero_or_pos m with h0 | h0
        · subst h0; rw [orb_zero b a1 p1 hb]; exact hbp
        · have := hall (m - 1) (by omega)
          rw [e1, orb_orb, show 1 + (m - 1) = m by omega] at this
          exact this
    · rw [if_neg hbp] at h
      have := Option.some.inj h
      subst this
      exact ⟨0, by omega, (orb_zero b a1 p1 hb).symm, by omega, fun m hm => absurd hm (by omega)⟩

/-- from a hit `b < p`, the next PI index is a later point `n ∈ [1, p1)` of the walk, with no hit
strictly between -/
theorem next_hit (a1 p p1 : Nat) (hp1 : Nat.Prime p1) (ha : 1 ≤ a1) (ha' : a1 < p1) (hp : 2 ≤ p)
    (hpp : p ≤ p1) (b r : Nat) (hbp : b < p) (h : skipPi (p1 + 1) ((b + a1) % p1) a1 p p1 = some r) :
    ∃ n, 1 ≤ n ∧ n < p1 ∧ r = orb b a1 p1 n ∧ r < p ∧ ∀ m, 1 ≤ m → m < n → p ≤ orb b a1 p1 m := by
  have hb : b < p1 := by omega
  obtain ⟨n', _, hr, hrp, hall⟩ := skipPi_char a1 p p1 _ _ r (Nat.mod_lt _ hp1.pos) h
  have e1 : (b + a1) % p1 = orb b a1 p1 1 := by unfold orb; rw [Nat.one_mul]
  rw [e1] at hr hall
  have hall' : ∀ m, 1 ≤ m → m < n' + 1 → p ≤ orb b a1 p1 m := by
    intro m hm1 hm
    have := hall (m - 1) (by omega)
    rwa [orb_orb, show 1 + (m - 1) = m by omega] at this
  -- another value below p, reached at some k ∈ [1, p1): the first hit comes no later
  obtain ⟨v, hvp, hvb⟩ : ∃ v, v < p ∧ v ≠ b := by
    by_cases h0 : b = 0
    · exact ⟨1, by omega, by omega⟩
    · exact ⟨0, by omega, fun e => h0 e.symm⟩
  obtain ⟨k, hk, hkv⟩ := orb_surj b a1 p1 hp1 ha ha' v (by omega)
  have hk0 : k ≠ 0 := by
    intro e; subst e; rw [orb_zero b a1 p1 hb] at hkv; exact hvb hkv.symm
  have hnk : n' + 1 ≤ k := by
    by_contra hc
    have := hall' k (by omega) (by omega)
    omega
  refine ⟨n' + 1, by omega, by omega, ?_, hrp, hall'⟩
  rw [hr, orb_orb, Nat.add_comm]

/-- the PI part of `enc_indices` (first index after skipping, then up to two more) has no repetition -/
theorem pi_nodup (a1 p p1 w : Nat) (hp1 : Nat.Prime p1) (ha : 1 ≤ a1) (ha' : a1 < p1) (hp : 3 ≤ p)
    (hpp : p ≤ p1) (n : Nat) (hn : n ≤ 2) (r0 : Nat) (hr0 : r0 < p) (rest : List Nat)
    (h : piWalk n r0 a1 p p1 w = some rest) : ((w + r0) :: rest).Nodup := by
  have hr0' : r0 < p1 := by omega
  match n, hn, h with
  | 0, _, h =>
    simp only [piWalk] at h
    have := Option.some.inj h
    subst this
    simp
  | 1, _, h =>
    simp only [piWalk] at h
    cases h1 : skipPi (p1 + 1) ((r0 + a1) % p1) a1 p p1 with
    | none => rw [h1] at h; simp at h
    | some r1 =>
      rw [h1] at h
      simp only [Option.map_some] at h
      have := Option.some.inj h
      subst this
      obtain ⟨n1, hn1, hn1', hr1, _, _⟩ := next_hit a1 p p1 hp1 ha ha' (by omega) hpp r0 r1 hr0 h1
      have : r1 ≠ r0 := by rw [hr1]; exact orb_ne_of_lt r0 a1 p1 hp1 ha ha' hr0' n1 (by omega) hn1'
      simp only [List.nodup_cons, List.mem_cons, List.not_mem_nil, or_false, not_false_eq_true,
        List.nodup_nil, and_true]
      omega
  | 2, _, h =>
    simp only [piWalk] at h
    cases h1 : skipPi (p1 + 1) ((r0 + a1) % p1) a1 p p1 with
    | none => rw [h1] at h; simp at h
    | some r1 =>
      rw [h1] at h
      simp only at h
      cases h2 : skipPi (p1 + 1) ((r1 + a1) % p1) a1 p p1 with
      | none => rw [h2] at h; simp at h
      | some r2 =>
        rw [h2] at h
        simp only [Option.map_some] at h
        have := Option.some.inj h
        subst this
        obtain ⟨n1, hn1, hn1', hr1, hr1p, hall1⟩ := next_hit a1 p p1 hp1 ha ha' (by omega) hpp r0 r1 hr0 h1
        obtain ⟨n2, hn2, hn2', hr2, hr2p, hall2⟩ := next_hit a1 p p1 hp1 ha ha' (by omega) hpp r1 r2 hr1p h2
        have hr1' : r1 < p1 := by omega
        have h10 : r1 ≠ r0 := by rw [hr1]; exact orb_ne_of_lt r0 a1 p1 hp1 ha ha' hr0' n1 (by omega) hn1'
        have h21 : r2 ≠ r1 := by rw [hr2]; exact orb_ne_of_lt r1 a1 p1 hp1 ha ha' hr1' n2 (by omega) hn2'
        have hr2' : r2 = orb r0 a1 p1 (n1 + n2) := by rw [hr2, hr1, orb_orb]
        -- a third value below p, reached at k ∈ [1, p1), k ≠ n1: so n1 + n2 ≤ k < p1
        obtain ⟨v, hvp, hv0, hv1⟩ : ∃ v, v < p ∧ v ≠ r0 ∧ v ≠ r1 := by
          by_cases c0 : r0 ≠ 0 ∧ r1 ≠ 0
          · exact ⟨0, by omega, fun e => c0.1 e.symm, fun e => c0.2 e.symm⟩
          by_cases c1 : r0 ≠ 1 ∧ r1 ≠ 1
          · exact ⟨1, by omega, fun e => c1.1 e.symm, fun e => c1.2 e.symm⟩
          · exact ⟨2, by omega, by omega, by omega⟩
        obtain ⟨k, hk, hkv⟩ := orb_surj r0 a1 p1 hp1 ha ha' v (by omega)
        have hk0 : k ≠ 0 := by
          intro e; subst e; rw [orb_zero r0 a1 p1 hr0'] at hkv; exact hv0 hkv.symm
        have hk1 : k ≠ n1 := by
          intro e; subst e; rw [← hr1] at hkv; exact hv1 hkv.symm
        have hnk : n1 + n2 ≤ k := by
          by_contra hc
          by_cases hkn : k < n1
          · have := hall1 k (by omega) hkn
            omega
          · have := hall2 (k - n1) (by omega) (by omega)
            rw [hr1, orb_orb, show n1 + (k - n1) = k by omega] at this
            omega
        have h20 : r2 ≠ r0 := by
          rw [hr2']; exact orb_ne_of_lt r0 a1 p1 hp1 ha ha' hr0' (n1 + n2) (by omega) (by omega)
        simp only [List.nodup_cons, List.mem_cons, List.not_mem_nil, or_false, not_false_eq_true,
          List.nodup_nil, and_true]
        omega

theorem piWalk_ge (a1 p p1 w : Nat) : ∀ n b1 l, piWalk n b1 a1 p p1 w = some l → ∀ i ∈ l, w ≤ i := by
  intro n
  induction n with
  | zero =>
    intro b1 l h i hi
    simp only [piWalk] at h
    have := Option.some.inj h
    subst this
    simp at hi
  | succ n ih =>
    intro b1 l h i hi
    simp only [piWalk] at h
    cases h1 : skipPi (p1 + 1) ((b1 + a1) % p1) a1 p p1 with
    | none => rw [h1] at h; simp at h
    | some r =>
      rw [h1] at h
      simp only at h
      obtain ⟨l', hl', e⟩ := Option.map_eq_some_iff.mp h
      subst e
      rcases List.mem_cons.mp hi with rfl | hi
      · omega
      · exact ih r l' hl' i hi

end Rq.C04
