import Rq.Spec.Defs
import Rq.Lemmas.MatrixSpec
/-!
# Helpers for C04 / C06 (encoder part)

* the shape of `constraintMatrix` and row-wise reading of `System.apply` / `createD`;
* `evalBinRow` on a duplicate-free row equals `encSymbol` on any enumeration of the same columns;
* `System.apply` is additive and acts byte column by byte column (for uniqueness from `Determined`).
-/
namespace Rq.C04
open Rq

/-! ## `mapM` on `Option` -/

theorem mapM_opt_get {α β : Type} (f : α → Option β) : ∀ (l : List α) (r : List β), l.mapM f = some r →
    r.length = l.length ∧ ∀ (i : Nat) x, l[i]? = some x → ∃ y, f x = some y ∧ r[i]? = some y := by
  intro l
  induction l with
  | nil =>
    intro r h
    rw [List.mapM_nil] at h
    have := Option.some.inj h
    subst this
    exact ⟨rfl, fun i x hx => by simp at hx⟩
  | cons a l ih =>
    intro r h
    rw [List.mapM_cons] at h
    cases ha : f a with
    | none => rw [ha] at h; cases h
    | some b =>
      cases hl : l.mapM f with
      | none => rw [ha, hl] at h; cases h
      | some r' =>
        rw [ha, hl] at h
        have : r = b :: r' := (Option.some.inj h).symm
        subst this
        obtain ⟨h1, h2⟩ := ih r' hl
        refine ⟨by simp [h1], fun i x hx => ?_⟩
        cases i with
        | zero =>
          simp only [List.getElem?_cons_zero, Option.some.injEq] at hx
          subst hx
          exact ⟨b, ha, by simp⟩
        | succ i =>
          simp only [List.getElem?_cons_succ] at hx ⊢
          exact h2 i x hx

/-! ## shape of the constraint matrix -/

theorem hdpcRows_size (sp : SysParams) (hd : Array (Array Nat)) (h : hdpcRows sp = some hd) :
    hd.size = sp.h := by
  unfold hdpcRows at h
  cases hc : hdpcCols sp.h (sp.kp + sp.s) with
  | none => rw [hc] at h; cases h
  | some cols =>
    rw [hc] at h
    have := Option.some.inj h
    subst this
    simp

theorem constraintMatrix_shape (k : Nat) (hk : k ≤ 56403) (sp : SysParams) (hsp : sysParams k = some sp)
    (isis : List Nat) (bin : Array (List Nat)) (hd : Array (Array Nat))
    (h : constraintMatrix sp isis = some (bin, hd)) :
    ∃ l e, ldpcRows sp = some l ∧ encRows sp isis = some e ∧ hdpcRows sp = some hd ∧
      bin = l ++ e.toArray ∧ l.size = sp.s ∧ e.length = isis.length ∧ hd.size = sp.h ∧
      ∀ i x, isis[i]? = some x → ∃ row, encRow sp x = some row ∧ bin.getD (sp.s + i) [] = row := by
  have ok := spOk k hk sp hsp
  unfold constraintMatrix at h
  split at h
  · cases h
  · cases h1 : ldpcRows sp with
    | none => rw [h1] at h; cases h
    | some l =>
      cases h2 : encRows sp isis with
      | none => rw [h1, h2] at h; cases h
      | some e =>
        cases h3 : hdpcRows sp with
        | none => rw [h1, h2, h3] at h; cases h
        | some hd' =>
          rw [h1, h2, h3] at h
          have := Option.some.inj h
          simp only [Prod.mk.injEq] at this
          obtain ⟨rfl, rfl⟩ := this
          obtain ⟨rows, hr, hsz, _⟩ := ldpcRows_mem sp ok.s_prime.pos (by have := ok.p_ge; omega)
            (by have := ok.s_lt_w; omega)
          rw [h1] at hr
          have := Option.some.inj hr
          subst this
          obtain ⟨hlen, hget⟩ := mapM_opt_get (encRow sp) isis e h2
          refine ⟨l, e, rfl, rfl, rfl, rfl, hsz, hlen, hdpcRows_size sp _ h3, ?_⟩
          intro i x hx
          obtain ⟨row, hrow, hri⟩ := hget i x hx
          refine ⟨row, hrow, ?_⟩
          rw [Array.getD_eq_getD_getElem?, Array.getElem?_append_right (by omega), hsz,
            Nat.add_sub_cancel_left]
          simp [hri]

/-! ## reading `System.apply` and `createD` row by row -/

theorem apply_ldpc (a : System) (x : Inter) (t r : Nat) (hn : a.nLdpc ≤ a.bin.size) (hr : r < a.nLdpc) :
    (a.apply x t)[r]? = some (evalBinRow (a.bin.getD r []) x t) := by
  unfold System.apply
  simp only
  rw [List.append_assoc, List.getElem?_append_left (by simp; omega), List.getElem?_take_of_lt hr,
    List.getElem?_map]
  simp [Array.getD_eq_getD_getElem?, show r < a.bin.size by omega]

theorem apply_hdpc (a : System) (x : Inter) (t i : Nat) (hn : a.nLdpc ≤ a.bin.size) (hi : i < a.hdpc.size) :
    (a.apply x t)[a.nLdpc + i]? = some (evalDenseRow (a.hdpc.getD i #[]) x t) := by
  unfold System.apply
  simp only
  rw [List.append_assoc, List.getElem?_append_right (by simp)]
  simp only [List.length_take, List.length_map, Array.length_toList, Nat.min_eq_left hn,
    Nat.add_sub_cancel_left]
  rw [List.getElem?_append_left (by simpa using hi), List.getElem?_map]
  simp [Array.getD_eq_getD_getElem?, hi]

theorem apply_enc (a : System) (x : Inter) (t i : Nat) (hi : a.nLdpc + i < a.bin.size) :
    (a.apply x t)[a.nLdpc + a.hdpc.size + i]? = some (evalBinRow (a.bin.getD (a.nLdpc + i) []) x t) := by
  unfold System.apply
  simp only
  have hn : a.nLdpc ≤ a.bin.size := by omega
  rw [List.getElem?_append_right (by simp; omega)]
  simp only [List.length_append, List.length_take, List.length_map, Array.length_toList,
    Nat.min_eq_left hn, Nat.add_sub_cancel_left]
  rw [List.getElem?_drop, List.getElem?_map]
  simp [Array.getD_eq_getD_getElem?, hi]

theorem apply_length (a : System) (x : Inter) (t : Nat) (hn : a.nLdpc ≤ a.bin.size) :
    (a.apply x t).length = a.bin.size + a.hdpc.size := by
  unfold System.apply
  simp
  omega

theorem createD_zero (sp : SysParams) (t : Nat) (src : List Sym) (r : Nat) (hr : r < sp.s + sp.h) :
    (createD sp t src)[r]? = some (zeroSym t) := by
  unfold createD
  rw [List.append_assoc, List.getElem?_append_left (by simpa using hr)]
  simp [hr]

theorem createD_src (sp : SysParams) (t : Nat) (src : List Sym) (i : Nat) (hi : i < sp.kp) :
    (createD sp t src)[sp.s + sp.h + i]? =
      some (if i < src.length then src.getD i [] else zeroSym t) := by
  unfold createD
  rw [List.append_assoc, List.getElem?_append_right (by simp)]
  simp only [List.length_replicate, Nat.add_sub_cancel_left]
  by_cases h : i < src.length
  · rw [if_pos h, List.getElem?_append_left h]
    simp [List.getD_eq_getElem?_getD, h]
  · rw [if_neg h, List.getElem?_append_right (by omega), List.getElem?_replicate]
    rw [if_pos (by omega)]

/-! ## the rows of a solved system -/

/-- row by row: what `GoodEnc.solves` says -/
theorem goodEnc_rows (e : BlockEnc) (t : Nat) (h : GoodEnc e t) :
    ∃ bin hd, constraintMatrix e.sp (List.range e.sp.kp) = some (bin, hd) ∧
      (∀ r, r < e.sp.s → evalBinRow (bin.getD r []) e.c t = zeroSym t) ∧
      (∀ i, i < e.sp.h → evalDenseRow (hd.getD i #[]) e.c t = zeroSym t) ∧
      (∀ i, i < e.sp.kp → evalBinRow (bin.getD (e.sp.s + i) []) e.c t =
        (if i < e.k then e.src.getD i [] else zeroSym t)) := by
  obtain ⟨a, ha, hsol⟩ := h.solves
  unfold fullSystem at ha
  obtain ⟨⟨bin, hd⟩, hcm, rfl⟩ := Option.map_eq_some_iff.mp ha
  have hk := sysParams_some_le _ _ h.params
  obtain ⟨l, en, _, _, _, hbin, hlsz, helen, hdsz, _⟩ :=
    constraintMatrix_shape e.k hk e.sp h.params _ bin hd hcm
  have hbsz : bin.size = e.sp.s + e.sp.kp := by
    rw [hbin]; simp [hlsz, helen]
  refine ⟨bin, hd, hcm, ?_, ?_, ?_⟩
  · intro r hr
    have := apply_ldpc { l := e.sp.l, bin := bin, nLdpc := e.sp.s, hdpc := hd } e.c t r
      (by dsimp only; omega) hr
    rw [hsol, createD_zero _ _ _ _ (by omega)] at this
    exact (Option.some.inj this).symm
  · intro i hi
    have := apply_hdpc { l := e.sp.l, bin := bin, nLdpc := e.sp.s, hdpc := hd } e.c t i
      (by dsimp only; omega) (by dsimp only; omega)
    rw [hsol] at this
    dsimp only at this
    rw [createD_zero _ _ _ _ (by omega)] at this
    exact (Option.some.inj this).symm
  · intro i hi
    have := apply_enc { l := e.sp.l, bin := bin, nLdpc := e.sp.s, hdpc := hd } e.c t i
      (by dsimp only; omega)
    rw [hsol] at this
    dsimp only at this
    rw [hdsz, createD_src _ _ _ _ hi] at this
    exact (Option.some.inj this).symm

/-! ## binary rows and the encoder's xor loop -/

theorem xorSym_right_comm (z a b : Sym) : xorSym (xorSym z a) b = xorSym (xorSym z b) a := by
  unfold xorSym
  induction z generalizing a b with
  | nil => simp
  | cons x z ih =>
    cases a with
    | nil => simp
    | cons y a =>
      cases b with
      | nil => simp
      | cons w b =>
        simp only [List.zipWith_cons_cons, List.cons.injEq]
        refine ⟨?_, ih a b⟩
        rw [Nat.xor_assoc, Nat.xor_comm y w, ← Nat.xor_assoc]

instance xorFold_rcomm (x : Inter) (d : Sym) :
    RightCommutative (fun (acc : Sym) (j : Nat) => xorSym acc (x.getD j d)) :=
  ⟨fun _ _ _ => xorSym_right_comm _ _ _⟩

theorem evalBinRow_perm (l1 l2 : List Nat) (x : Inter) (t : Nat) (h : l1.Perm l2) :
    evalBinRow l1 x t = evalBinRow l2 x t := by
  unfold evalBinRow
  exact h.foldl_eq _

theorem zero_xorSym (t : Nat) (s : Sym) (h : s.length = t) : xorSym (zeroSym t) s = s := by
  subst h
  unfold xorSym zeroSym
  induction s with
  | nil => rfl
  | cons a s ih => simp [List.replicate_succ, ih]

theorem xorSym_zero (t : Nat) (s : Sym) (h : s.length = t) : xorSym s (zeroSym t) = s := by
  subst h
  unfold xorSym zeroSym
  induction s with
  | nil => rfl
  | cons a s ih => simp [List.replicate_succ, ih]

/-- on in-range columns the matrix row evaluation is the encoder's xor loop -/
theorem evalBinRow_eq_encSymbol (idx : List Nat) (c : Inter) (t : Nat) (hne : idx ≠ [])
    (hlt : ∀ i ∈ idx, i < c.size) (hlen : ∀ i ∈ idx, (c.getD i []).length = t) :
    evalBinRow idx c t = encSymbol c idx := by
  cases idx with
  | nil => exact absurd rfl hne
  | cons i rest =>
    unfold evalBinRow encSymbol
    rw [List.foldl_cons]
    have hd : ∀ j, j < c.size → c.getD j (zeroSym t) = c.getD j [] := by
      intro j hj
      simp [Array.getD_eq_getD_getElem?, hj]
    rw [hd i (hlt i (List.mem_cons_self ..)), zero_xorSym t _ (hlen i (List.mem_cons_self ..))]
    apply List.foldl_ext
    intro a b hb
    rw [hd b (hlt b (List.mem_cons_of_mem _ hb))]

end Rq.C04
