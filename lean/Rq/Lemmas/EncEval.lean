import Rq.Lemmas.SystemLin
import Rq.Lemmas.EncNodup
import Rq.Lemmas.Decoder
/-!
Evaluation of G_ENC rows: the row the constraint matrix holds for an internal symbol id (set
semantics) evaluates, on any vector of intermediate symbols, to what the encoder's `encSymbol`
(xor semantics) computes — because the index list has no repetition (`encIndices_nodup`).
Structure of the systems `fullSystem` / `binSystem` (which rows, in which order).
-/
namespace Rq

/-! ## `mapM` in `Option` -/

theorem mapM_option_eq {α β : Type} (f : α → Option β) (dflt : β) (l : List α) (r : List β)
    (h : l.mapM f = some r) : r = l.map (fun a => (f a).getD dflt) ∧ ∀ a ∈ l, (f a).isSome := by
  induction l generalizing r with
  | nil =>
    simp only [List.mapM_nil] at h
    cases h
    exact ⟨rfl, by simp⟩
  | cons a l ih =>
    rw [List.mapM_cons] at h
    cases ha : f a with
    | none => rw [ha] at h; cases h
    | some b =>
      rw [ha] at h
      cases hl : l.mapM f with
      | none => rw [hl] at h; cases h
      | some r' =>
        rw [hl] at h
        obtain ⟨e1, e2⟩ := ih r' hl
        cases h
        refine ⟨by simp [ha, e1], ?_⟩
        intro x hx
        rcases List.mem_cons.mp hx with rfl | hx
        · rw [ha]; rfl
        · exact e2 x hx

theorem mapM_option_of_some {α β : Type} (f : α → Option β) (dflt : β) (l : List α)
    (h : ∀ a ∈ l, (f a).isSome) : l.mapM f = some (l.map (fun a => (f a).getD dflt)) := by
  induction l with
  | nil => rfl
  | cons a l ih =>
    rw [List.mapM_cons, ih (fun x hx => h x (List.mem_cons_of_mem _ hx))]
    obtain ⟨b, hb⟩ := Option.isSome_iff_exists.mp (h a (List.mem_cons_self ..))
    rw [hb]
    simp [hb]

/-! ## binary rows do not depend on the order of their columns -/

instance rowBin_rc (f : Nat → Nat) : RightCommutative (fun (acc : Nat) (j : Nat) => acc ^^^ f j) :=
  ⟨fun a b c => by show a ^^^ f b ^^^ f c = a ^^^ f c ^^^ f b; ac_rfl⟩

theorem rowBin_perm (l l' : List Nat) (h : l.Perm l') (f : Nat → Nat) : rowBin l f = rowBin l' f := by
  unfold rowBin
  exact h.foldl_eq 0

/-- deduplication of a list without repetition just reverses it -/
theorem dedup_fold_nodup (l acc : List Nat) (h : (acc.reverse ++ l).Nodup) :
    l.foldl (fun acc c => if acc.contains c then acc else c :: acc) acc = l.reverse ++ acc := by
  induction l generalizing acc with
  | nil => rfl
  | cons a l ih =>
    rw [List.foldl_cons]
    have hna : ¬ a ∈ acc := by
      intro hc
      rw [List.nodup_append] at h
      exact h.2.2 a (List.mem_reverse.mpr hc) a (List.mem_cons_self ..) rfl
    rw [if_neg (by simpa using hna), ih]
    · simp
    · simpa using h

theorem encRow_of_nodup (sp : SysParams) (x : Nat) (idx : List Nat) (h : encIndicesOf sp x = some idx)
    (hnd : idx.Nodup) : encRow sp x = some idx.reverse := by
  unfold encRow
  rw [h, Option.map_some, dedup_fold_nodup idx [] (by simpa using hnd), List.append_nil]

/-! ## `encSymbol` pointwise -/

theorem getD_nil_tab (c : Inter) (t : Nat) (h : AllLen_d c t) (j : Nat) (hj : j < c.size) :
    c.getD j [] = tab t (cell c j) := by
  rw [← getD_zero_tab c t h j]
  simp [Array.getD, hj]

theorem encSymbol_fold (c : Inter) (t : Nat) (h : AllLen_d c t) (l : List Nat) (hl : ∀ j ∈ l, j < c.size)
    (g : Nat → Nat) :
    l.foldl (fun acc j => xorSym acc (c.getD j [])) (tab t g) =
      tab t (fun b => l.foldl (fun acc j => acc ^^^ cell c j b) (g b)) := by
  induction l generalizing g with
  | nil => rfl
  | cons a l ih =>
    rw [List.foldl_cons, getD_nil_tab c t h a (hl a (List.mem_cons_self ..)), xorSym_tab,
      ih (fun j hj => hl j (List.mem_cons_of_mem _ hj))]
    rfl

theorem encSymbol_eq (c : Inter) (t : Nat) (h : AllLen_d c t) (idx : List Nat) (hne : idx ≠ [])
    (hl : ∀ j ∈ idx, j < c.size) :
    encSymbol c idx = tab t (fun b => rowBin idx (fun j => cell c j b)) := by
  cases idx with
  | nil => exact absurd rfl hne
  | cons i rest =>
    unfold encSymbol rowBin
    dsimp only
    rw [getD_nil_tab c t h i (hl i (List.mem_cons_self ..)),
      encSymbol_fold c t h rest (fun j hj => hl j (List.mem_cons_of_mem _ hj))]
    apply tab_congr
    intro b _
    rw [List.foldl_cons, Nat.zero_xor]

/-- **set semantics = xor semantics**: the matrix row of an internal symbol id evaluates to the
encoding symbol -/
theorem evalBinRow_encRow (sp : SysParams) (x : Nat) (idx : List Nat) (h : encIndicesOf sp x = some idx)
    (hnd : idx.Nodup) (hne : idx ≠ []) (c : Inter) (t : Nat) (hc : AllLen_d c t) (hl : ∀ j ∈ idx, j < c.size) :
    encRow sp x = some idx.reverse ∧ evalBinRow idx.reverse c t = encSymbol c idx := by
  refine ⟨encRow_of_nodup sp x idx h hnd, ?_⟩
  rw [evalBinRow_eq_d _ c t hc, encSymbol_eq c t hc idx hne hl]
  apply tab_congr
  intro b _
  exact rowBin_perm _ _ (List.reverse_perm idx) _

/-! ## which rows the systems hold -/

/-- the G_ENC row of an internal symbol id (empty if `enc_indices` panics) -/
def encRowD (sp : SysParams) (isi : Nat) : List Nat := (encRow sp isi).getD []

/-- the system with LDPC rows `L`, HDPC rows `Hd` and the G_ENC rows of `isis` -/
def mkSys (sp : SysParams) (L : Array (List Nat)) (Hd : Array (Array Nat)) (isis : List Nat) : System :=
  { l := sp.l, bin := L ++ (isis.map (encRowD sp)).toArray, nLdpc := sp.s, hdpc := Hd }

theorem encRows_eq (sp : SysParams) (isis : List Nat) (E : List (List Nat)) (h : encRows sp isis = some E) :
    E = isis.map (encRowD sp) ∧ ∀ isi ∈ isis, (encRow sp isi).isSome :=
  mapM_option_eq (encRow sp) [] isis E h

theorem encRows_of_some (sp : SysParams) (isis : List Nat) (h : ∀ isi ∈ isis, (encRow sp isi).isSome) :
    encRows sp isis = some (isis.map (encRowD sp)) :=
  mapM_option_of_some (encRow sp) [] isis h

theorem fullSystem_inv (sp : SysParams) (isis : List Nat) (a : System) (h : fullSystem sp isis = some a) :
    ∃ L Hd, ldpcRows sp = some L ∧ hdpcRows sp = some Hd ∧ (∀ isi ∈ isis, (encRow sp isi).isSome) ∧
      sp.l ≤ sp.s + sp.h + isis.length ∧ a = mkSys sp L Hd isis := by
  unfold fullSystem constraintMatrix at h
  split at h
  · cases h
  · next hlen =>
    split at h
    · next L E Hd hL hE hH =>
      obtain ⟨e1, e2⟩ := encRows_eq sp isis E hE
      simp only [Option.map_some, Option.some.injEq] at h
      refine ⟨L, Hd, hL, hH, e2, by omega, ?_⟩
      rw [← h, e1]; rfl
    · cases h

theorem fullSystem_some (sp : SysParams) (isis : List Nat) (L : Array (List Nat)) (Hd : Array (Array Nat))
    (hL : ldpcRows sp = some L) (hH : hdpcRows sp = some Hd) (hE : ∀ isi ∈ isis, (encRow sp isi).isSome)
    (hlen : sp.l ≤ sp.s + sp.h + isis.length) : fullSystem sp isis = some (mkSys sp L Hd isis) := by
  unfold fullSystem constraintMatrix
  rw [if_neg (by omega), hL, hH, encRows_of_some sp isis hE]
  rfl

theorem binSystem_inv (sp : SysParams) (isis : List Nat) (a : System) (h : binSystem sp isis = some a) :
    ∃ L, ldpcRows sp = some L ∧ (∀ isi ∈ isis, (encRow sp isi).isSome) ∧
      sp.l ≤ sp.s + isis.length ∧ a = mkSys sp L #[] isis := by
  unfold binSystem constraintMatrixNoHdpc at h
  split at h
  · cases h
  · next hlen =>
    split at h
    · next L E hL hE =>
      obtain ⟨e1, e2⟩ := encRows_eq sp isis E hE
      simp only [Option.map_some, Option.some.injEq] at h
      refine ⟨L, hL, e2, by omega, ?_⟩
      rw [← h, e1]; rfl
    · cases h

theorem binSystem_some (sp : SysParams) (isis : List Nat) (L : Array (List Nat))
    (hL : ldpcRows sp = some L) (hE : ∀ isi ∈ isis, (encRow sp isi).isSome)
    (hlen : sp.l ≤ sp.s + isis.length) : binSystem sp isis = some (mkSys sp L #[] isis) := by
  unfold binSystem constraintMatrixNoHdpc
  rw [if_neg (by omega), hL, encRows_of_some sp isis hE]
  rfl

theorem mkSys_apply (sp : SysParams) (L : Array (List Nat)) (Hd : Array (Array Nat)) (isis : List Nat)
    (hL : L.size = sp.s) (x : Inter) (t : Nat) :
    (mkSys sp L Hd isis).apply x t =
      L.toList.map (fun cols => evalBinRow cols x t) ++ Hd.toList.map (fun r => evalDenseRow r x t) ++
        isis.map (fun isi => evalBinRow (encRowD sp isi) x t) := by
  unfold System.apply mkSys
  simp only [Array.toList_append, List.map_append, List.map_map]
  have hlen : (L.toList.map (fun cols => evalBinRow cols x t)).length = sp.s := by simp [hL]
  rw [List.take_left' hlen, List.drop_left' hlen]
  rfl

theorem mkSys_funs (sp : SysParams) (L : Array (List Nat)) (Hd : Array (Array Nat)) (isis : List Nat)
    (hL : L.size = sp.s) :
    (mkSys sp L Hd isis).funs =
      L.toList.map rowBin ++ Hd.toList.map rowDense ++ isis.map (fun isi => rowBin (encRowD sp isi)) := by
  unfold System.funs mkSys
  simp only [Array.toList_append, List.map_append, List.map_map]
  have hlen : (L.toList.map rowBin).length = sp.s := by simp [hL]
  rw [List.take_left' hlen, List.drop_left' hlen]
  rfl

theorem mkSys_rows (sp : SysParams) (L : Array (List Nat)) (Hd : Array (Array Nat)) (isis : List Nat) :
    (mkSys sp L Hd isis).rows = L.size + isis.length + Hd.size := by
  simp [System.rows, mkSys]

end Rq
