import Rq.Lemmas.Arith
import Rq.Lemmas.Tab
/-! Helper lemmas for C14: the reversed table search (`klOf`), the N search (`findN`), Table-2 facts. -/
namespace Rq

/-! ## `find?` on a reversed range: the largest index satisfying `p` -/

theorem find?_reverse_range_some (p : Nat → Bool) (n i : Nat) :
    (List.range n).reverse.find? p = some i ↔
      i < n ∧ p i = true ∧ ∀ j, i < j → j < n → p j = false := by
  induction n with
  | zero => simp
  | succ n ih =>
    rw [List.range_succ, List.reverse_append, List.reverse_singleton, List.singleton_append,
      List.find?_cons]
    cases hp : p n with
    | true =>
      simp only [Option.some.injEq]
      constructor
      · intro h; subst h; exact ⟨by omega, hp, by intro j h1 h2; omega⟩
      · intro ⟨h1, h2, h3⟩
        apply Classical.byContradiction
        intro hne
        have := h3 n (by omega) (by omega)
        simp [hp] at this
    | false =>
      simp only [ih]
      constructor
      · intro ⟨h1, h2, h3⟩
        refine ⟨by omega, h2, ?_⟩
        intro j hj1 hj2
        by_cases hjn : j = n
        · subst hjn; exact hp
        · exact h3 j hj1 (by omega)
      · intro ⟨h1, h2, h3⟩
        have : i ≠ n := by intro h; subst h; simp [hp] at h2
        exact ⟨by omega, h2, fun j a b => h3 j a (by omega)⟩

theorem find?_reverse_range_none (p : Nat → Bool) (n : Nat) :
    (List.range n).reverse.find? p = none ↔ ∀ j, j < n → p j = false := by
  simp [List.find?_eq_none]

/-! ## Table 2, column K' (packed reads only) -/

theorem t2K_incB :
    ((List.range 476).all fun i => decide (tb32 Gen.t2K i < tb32 Gen.t2K (i + 1))) = true := by
  decide +kernel

theorem t2K_first : tb32 Gen.t2K 0 = 10 := by decide +kernel
theorem t2K_last : tb32 Gen.t2K 476 = 56403 := by decide +kernel

theorem t2K_step (i : Nat) (h : i < 476) : tb32 Gen.t2K i < tb32 Gen.t2K (i + 1) := by
  have := t2K_incB
  simp only [List.all_eq_true, List.mem_range, decide_eq_true_eq] at this
  exact this i h

theorem t2K_mono (i j : Nat) (hij : i ≤ j) (hj : j < 477) : tb32 Gen.t2K i ≤ tb32 Gen.t2K j := by
  induction j with
  | zero => have : i = 0 := by omega
            subst this; exact Nat.le_refl _
  | succ j ih =>
    by_cases h : i = j + 1
    · subst h; exact Nat.le_refl _
    · have h1 := ih (by omega) (by omega)
      have h2 := t2K_step j (by omega)
      omega

theorem t2K_ge (i : Nat) (h : i < 477) : 10 ≤ tb32 Gen.t2K i := by
  have := t2K_mono 0 i (by omega) h
  rw [t2K_first] at this; exact this

theorem t2K_le (i : Nat) (h : i < 477) : tb32 Gen.t2K i ≤ 56403 := by
  have := t2K_mono i 476 (by omega) (by omega)
  rw [t2K_last] at this; exact this

/-! ## `klOf` -/

theorem t2K_strict (i j : Nat) (hij : i < j) (hj : j < 477) : tb32 Gen.t2K i < tb32 Gen.t2K j := by
  have h1 := t2K_step i (by omega)
  have h2 := t2K_mono (i + 1) j (by omega) hj
  omega

theorem ceilDiv_pos (a b : Nat) (ha : 0 < a) (hb : 0 < b) : 0 < ceilDiv a b := by
  apply Nat.pos_of_ne_zero
  intro h
  have := (ceilDiv_le_iff a b 0 hb).1 (by omega)
  omega

theorem ceilDiv_le_self (a b : Nat) (hb : 0 < b) : ceilDiv a b ≤ a := by
  rw [ceilDiv_le_iff a b a hb]
  exact Nat.le_mul_of_pos_right _ hb

/-- the bound of `klOf` -/
def klLim (t al ws n : Nat) : Nat := ws / (al * ceilDiv t (al * n))

theorem klOf_unfold (t al ws n : Nat) (hal : 0 < al) (hn : 0 < n) (ht : 0 < t) (ht' : t < U32) :
    klOf t al ws n =
      ((List.range 477).reverse.find? (fun i => decide (tget t2KA i ≤ klLim t al ws n))).map
        (tget t2KA) := by
  have hd : 0 < al * n := Nat.mul_pos hal hn
  have hx := ceilDiv_pos t (al * n) ht hd
  have hx' := ceilDiv_le_self t (al * n) hd
  unfold klOf
  rw [intDivCeil_of_lt t (al * n) hd (by omega)]
  simp only []
  rw [if_neg (by have := Nat.mul_pos hal hx; omega)]
  rfl

theorem klOf_some_iff' (t al ws n k : Nat) (hal : 0 < al) (hn : 0 < n) (ht : 0 < t) (ht' : t < U32) :
    klOf t al ws n = some k ↔
      ∃ i, i < 477 ∧ tb32 Gen.t2K i = k ∧ k ≤ klLim t al ws n ∧
        ∀ j, i < j → j < 477 → klLim t al ws n < tb32 Gen.t2K j := by
  rw [klOf_unfold t al ws n hal hn ht ht', Option.map_eq_some_iff]
  constructor
  · intro ⟨i, hi, hk⟩
    rw [find?_reverse_range_some] at hi
    obtain ⟨h1, h2, h3⟩ := hi
    refine ⟨i, h1, ?_, ?_, ?_⟩
    · rw [← hk]; exact (tget_mkArr32 _ _ _ h1).symm
    · rw [← hk]; simpa using h2
    · intro j hj1 hj2
      have := h3 j hj1 hj2
      rw [show tget t2KA j = tb32 Gen.t2K j from tget_mkArr32 _ _ _ hj2] at this
      simpa using this
  · intro ⟨i, h1, h2, h3, h4⟩
    have e : tget t2KA i = tb32 Gen.t2K i := tget_mkArr32 _ _ _ h1
    refine ⟨i, ?_, by rw [e, h2]⟩
    rw [find?_reverse_range_some]
    refine ⟨h1, ?_, ?_⟩
    · rw [e, h2]; simpa using h3
    · intro j hj1 hj2
      rw [show tget t2KA j = tb32 Gen.t2K j from tget_mkArr32 _ _ _ hj2]
      simpa using h4 j hj1 hj2

/-- `klOf` returns the largest table size not above the bound -/
theorem klOf_some_iff (t al ws n k : Nat) (hal : 0 < al) (hn : 0 < n) (ht : 0 < t) (ht' : t < U32) :
    klOf t al ws n = some k ↔
      (∃ i, i < 477 ∧ tb32 Gen.t2K i = k) ∧ k ≤ klLim t al ws n ∧
        ∀ i, i < 477 → tb32 Gen.t2K i ≤ klLim t al ws n → tb32 Gen.t2K i ≤ k := by
  rw [klOf_some_iff' t al ws n k hal hn ht ht']
  constructor
  · intro ⟨i, h1, h2, h3, h4⟩
    refine ⟨⟨i, h1, h2⟩, h3, ?_⟩
    intro j hj hjl
    by_cases hji : j ≤ i
    · rw [← h2]; exact t2K_mono j i hji h1
    · have := h4 j (by omega) hj; omega
  · intro ⟨⟨i, h1, h2⟩, h3, h4⟩
    refine ⟨i, h1, h2, h3, ?_⟩
    intro j hj1 hj2
    apply Classical.byContradiction
    intro hc
    have h5 := h4 j hj2 (by omega)
    have h6 := t2K_strict i j hj1 hj2
    omega

theorem klOf_none_iff (t al ws n : Nat) (hal : 0 < al) (hn : 0 < n) (ht : 0 < t) (ht' : t < U32) :
    klOf t al ws n = none ↔ ∀ i, i < 477 → klLim t al ws n < tb32 Gen.t2K i := by
  rw [klOf_unfold t al ws n hal hn ht ht', Option.map_eq_none_iff, find?_reverse_range_none]
  constructor
  · intro h i hi
    have := h i hi
    rw [show tget t2KA i = tb32 Gen.t2K i from tget_mkArr32 _ _ _ hi] at this
    simpa using this
  · intro h i hi
    rw [show tget t2KA i = tb32 Gen.t2K i from tget_mkArr32 _ _ _ hi]
    simpa using h i hi

/-! ## `findN` -/

/-- `findN` returns the first `i` in `nmax - fuel + 1 ..= nmax` whose KL(i) is defined and at least
`c = ⌈kt/z⌉`, provided the last one (`nmax`) is such an `i`. -/
theorem findN_spec (t al ws kt z nmax c : Nat) (hc : intDivCeil kt z = some c)
    (hlast : ∃ k, klOf t al ws nmax = some k ∧ c ≤ k) (fuel cur : Nat) (hf : 1 ≤ fuel)
    (hfn : fuel ≤ nmax) :
    ∃ r, findN t al ws kt z nmax fuel cur = some r ∧ nmax - fuel < r ∧ r ≤ nmax ∧
      (∃ k, klOf t al ws r = some k ∧ c ≤ k) ∧
      ∀ m, nmax - fuel < m → m < r → ¬ ∃ k, klOf t al ws m = some k ∧ c ≤ k := by
  induction fuel generalizing cur with
  | zero => omega
  | succ fuel ih =>
    unfold findN
    simp only [hc]
    have hrec : (¬ ∃ k, klOf t al ws (nmax - fuel) = some k ∧ c ≤ k) →
        ∃ r, findN t al ws kt z nmax fuel (nmax - fuel) = some r ∧ nmax - (fuel + 1) < r ∧ r ≤ nmax ∧
        (∃ k, klOf t al ws r = some k ∧ c ≤ k) ∧
        ∀ m, nmax - (fuel + 1) < m → m < r → ¬ ∃ k, klOf t al ws m = some k ∧ c ≤ k := by
      intro hbad
      have hf1 : 1 ≤ fuel := by
        apply Classical.byContradiction
        intro h0
        have : fuel = 0 := by omega
        subst this
        exact hbad (by simpa using hlast)
      obtain ⟨r, h1, h2, h3, h4, h5⟩ := ih (nmax - fuel) hf1 (by omega)
      refine ⟨r, h1, by omega, h3, h4, ?_⟩
      intro m hm1 hm2
      by_cases hm : m = nmax - fuel
      · subst hm; exact hbad
      · exact h5 m (by omega) hm2
    cases hk : klOf t al ws (nmax - fuel) with
    | none =>
      simp only []
      exact hrec (by simp [hk])
    | some k =>
      simp only []
      by_cases hck : c ≤ k
      · rw [if_pos hck]
        refine ⟨nmax - fuel, rfl, by omega, by omega, ⟨k, hk, hck⟩, ?_⟩
        intro m h1 h2; omega
      · rw [if_neg hck]
        exact hrec (by simp [hk, hck])


/-! ## Z is the least block count -/

theorem ceilDiv_ceilDiv_le (kt kl : Nat) (hkl : 0 < kl) (hkt : 0 < kt) :
    ceilDiv kt (ceilDiv kt kl) ≤ kl := by
  have hz := ceilDiv_pos kt kl hkt hkl
  rw [ceilDiv_le_iff kt _ kl hz, Nat.mul_comm]
  exact (ceilDiv_le_iff kt kl _ hkl).1 (Nat.le_refl _)

theorem ceilDiv_le_of_ceilDiv_le (kt kl z : Nat) (hkl : 0 < kl) (hz : 0 < z)
    (h : ceilDiv kt z ≤ kl) : ceilDiv kt kl ≤ z := by
  rw [ceilDiv_le_iff kt kl z hkl, Nat.mul_comm]
  exact (ceilDiv_le_iff kt z kl hz).1 h

/-- the ceiling is antitone in the divisor -/
theorem ceilDiv_anti (a b b' : Nat) (hb : 0 < b) (hbb : b ≤ b') : ceilDiv a b' ≤ ceilDiv a b := by
  rw [ceilDiv_le_iff a b' _ (by omega)]
  have := (ceilDiv_le_iff a b _ hb).1 (Nat.le_refl _)
  exact Nat.le_trans this (Nat.mul_le_mul_left _ hbb)

end Rq
