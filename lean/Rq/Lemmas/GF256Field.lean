import Mathlib.Algebra.Field.Defs
import Mathlib.Algebra.Ring.Defs
import Rq.Lemmas.GF256
/-! `GF256` as a Mathlib `Field`, built from the crate's (regenerated) OCT_EXP / OCT_LOG tables. -/
namespace Rq

structure GF256 where
  val : Nat
  lt : val < 256
deriving DecidableEq

namespace GF256
@[ext] theorem ext' {a b : GF256} (h : a.val = b.val) : a = b := by
  cases a; cases b; simp_all
instance : Add GF256 := ⟨fun a b => ⟨a.val ^^^ b.val, xor_lt256 _ _ a.lt b.lt⟩⟩
instance : Zero GF256 := ⟨⟨0, by decide⟩⟩
instance : One GF256 := ⟨⟨1, by decide⟩⟩
instance : Neg GF256 := ⟨fun a => a⟩
instance : Mul GF256 := ⟨fun a b => ⟨gmulP a.val b.val, gmulP_lt _ _⟩⟩
instance : Inv GF256 := ⟨fun a => ⟨ginvP a.val, ginvP_lt _⟩⟩
@[simp] theorem add_val (a b : GF256) : (a + b).val = a.val ^^^ b.val := rfl
@[simp] theorem mul_val (a b : GF256) : (a * b).val = gmulP a.val b.val := rfl
@[simp] theorem zero_val : (0 : GF256).val = 0 := rfl
@[simp] theorem one_val : (1 : GF256).val = 1 := rfl
@[simp] theorem neg_val (a : GF256) : (-a).val = a.val := rfl
@[simp] theorem inv_val (a : GF256) : (a⁻¹).val = ginvP a.val := rfl

instance : CommRing GF256 where
  add_assoc a b c := by ext; simp [Nat.xor_assoc]
  zero_add a := by ext; simp
  add_zero a := by ext; simp
  add_comm a b := by ext; simp [Nat.xor_comm]
  neg_add_cancel a := by ext; simp
  mul_assoc a b c := by ext; simp [gmulP_assoc _ _ _ a.lt b.lt c.lt]
  one_mul a := by ext; simp [gmulP_comm 1, gmulP_one _ a.lt]
  mul_one a := by ext; simp [gmulP_one _ a.lt]
  left_distrib a b c := by ext; simp [gmulP_xor _ _ _ a.lt b.lt c.lt]
  right_distrib a b c := by ext; simp [gmulP_comm _ c.val, gmulP_xor _ _ _ c.lt a.lt b.lt]
  mul_comm a b := by ext; simp [gmulP_comm]
  zero_mul a := by ext; simp [gmulP]
  mul_zero a := by ext; simp [gmulP]
  nsmul := nsmulRec
  zsmul := zsmulRec

instance : Field GF256 where
  exists_pair_ne := ⟨0, 1, by decide⟩
  mul_inv_cancel a h := by
    ext; simp
    exact gmulP_ginvP a.val (fun h0 => h (by ext; simpa using h0)) a.lt
  inv_zero := by ext; simp [ginvP]
  nnqsmul := _
  qsmul := _

/-- octet (a natural `< 256`, anything else reduced mod 256) as a field element -/
def of (a : Nat) : GF256 := ⟨a % 256, Nat.mod_lt _ (by decide)⟩
@[simp] theorem of_val (a : Nat) (h : a < 256) : (of a).val = a := Nat.mod_eq_of_lt h
theorem of_val_self (a : GF256) : of a.val = a := by ext; simp [of, Nat.mod_eq_of_lt a.lt]

end GF256
end Rq
