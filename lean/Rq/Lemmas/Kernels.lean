import Rq.Thm.C10
import Rq.Model.Kernels
/-!
Helper lemmas for C11 / C12: pointwise characterisation of window loads / stores and of the
window loop, lane arithmetic of the nibble split, packed-bit extraction.
-/
namespace Rq

/-! ### access lists -/

theorem mem_vecLoopAccesses {w lo hi : Nat} {b : Bool} {a : Access}
    (h : a ∈ vecLoopAccesses w lo hi b) :
    ∃ k, k < hi - lo ∧ a.off = (lo + k) * w ∧ a.width = w ∧ (a.buf = 0 ∨ a.buf = 1) := by
  unfold vecLoopAccesses at h
  rw [List.mem_flatMap] at h
  obtain ⟨k, hk, ha⟩ := h
  rw [List.mem_range] at hk
  refine ⟨k, hk, ?_⟩
  cases b <;> simp at ha
  · subst ha; simp
  · rcases ha with rfl | rfl <;> simp

/-! ### windows and the window loop -/

theorem storeAt_length (d : List Nat) (off : Nat) (v : List Nat) : (storeAt d off v).length = d.length := by
  simp [storeAt]

theorem storeAt_getD (d : List Nat) (off : Nat) (v : List Nat) (i : Nat) :
    (storeAt d off v).getD i 0 =
      if off ≤ i ∧ i < off + v.length ∧ i < d.length then v.getD (i - off) 0 else d.getD i 0 := by
  unfold storeAt
  rw [List.getD_eq_getElem?_getD, List.getElem?_mapIdx, List.getD_eq_getElem?_getD (l := d)]
  by_cases h : i < d.length
  · rw [List.getElem?_eq_getElem h]
    simp only [Option.map_some, Option.getD_some, h, and_true]
  · rw [List.getElem?_eq_none (by omega)]
    simp [h]

theorem loadAt_length (d : List Nat) (off w : Nat) : (loadAt d off w).length = w := by
  simp [loadAt]

theorem loadAt_getD (d : List Nat) (off w j : Nat) (h : j < w) :
    (loadAt d off w).getD j 0 = d.getD (off + j) 0 := by
  unfold loadAt
  rw [List.getD_eq_getElem?_getD, List.getElem?_map, List.getElem?_range h]
  simp

theorem loadAt_congr (d d' : List Nat) (off w : Nat)
    (h : ∀ j, j < w → d.getD (off + j) 0 = d'.getD (off + j) 0) : loadAt d off w = loadAt d' off w := by
  unfold loadAt
  apply List.map_congr_left
  intro j hj
  exact h j (List.mem_range.mp hj)

theorem ext_getD {a b : List Nat} (hl : a.length = b.length)
    (h : ∀ i, i < a.length → a.getD i 0 = b.getD i 0) : a = b := by
  apply List.ext_getElem hl
  intro i h1 h2
  have := h i h1
  rw [List.getD_eq_getElem?_getD, List.getD_eq_getElem?_getD, List.getElem?_eq_getElem h1,
    List.getElem?_eq_getElem h2] at this
  simpa using this

theorem getD_of_le {a : List Nat} {i : Nat} (h : a.length ≤ i) : a.getD i 0 = 0 := by
  rw [List.getD_eq_getElem?_getD, List.getElem?_eq_none h]; rfl

/-- window `k'` of width `w` contains `k*w + j` (j < w) iff `k = k'` -/
theorem window_iff {w k k' j : Nat} (hj : j < w) :
    (k' * w ≤ k * w + j ∧ k * w + j < k' * w + w) ↔ k = k' := by
  constructor
  · rintro ⟨h1, h2⟩
    rcases Nat.lt_trichotomy k k' with h | h | h
    · have := Nat.mul_le_mul_right w (show k + 1 ≤ k' from h)
      rw [Nat.add_mul] at this; omega
    · exact h
    · have := Nat.mul_le_mul_right w (show k' + 1 ≤ k from h)
      rw [Nat.add_mul] at this; omega
  · rintro rfl; omega

/-- the loop as an explicit fold of `n` steps -/
def vecSteps (w : Nat) (f : List Nat → List Nat → List Nat) (lo : Nat) (s : List Nat) (n : Nat) (d : List Nat) :
    List Nat :=
  (List.range n).foldl (fun d k => storeAt d ((lo + k) * w) (f (loadAt d ((lo + k) * w) w) (loadAt s ((lo + k) * w) w))) d

theorem vecLoop_eq_steps (w f lo hi d s) : vecLoop w f lo hi d s = vecSteps w f lo s (hi - lo) d := rfl

theorem vecSteps_succ (w f lo s n d) : vecSteps w f lo s (n + 1) d =
    let r := vecSteps w f lo s n d
    storeAt r ((lo + n) * w) (f (loadAt r ((lo + n) * w) w) (loadAt s ((lo + n) * w) w)) := by
  simp [vecSteps, List.range_succ, List.foldl_append]

theorem vecSteps_length (w f lo s n d) : (vecSteps w f lo s n d).length = d.length := by
  induction n with
  | zero => simp [vecSteps]
  | succ n ih => rw [vecSteps_succ]; simp only [storeAt_length, ih]

theorem vecSteps_getD (w : Nat) (f : List Nat → List Nat → List Nat) (g : Nat → Nat → Nat)
    (lo : Nat) (d s : List Nat) (n : Nat)
    (hf : ∀ k, lo ≤ k → k < lo + n →
      (f (loadAt d (k * w) w) (loadAt s (k * w) w)).length = w ∧
      ∀ j, j < w → (f (loadAt d (k * w) w) (loadAt s (k * w) w)).getD j 0 =
        g (d.getD (k * w + j) 0) (s.getD (k * w + j) 0)) (i : Nat) :
    (vecSteps w f lo s n d).getD i 0 =
      if lo * w ≤ i ∧ i < (lo + n) * w ∧ i < d.length then g (d.getD i 0) (s.getD i 0) else d.getD i 0 := by
  induction n generalizing i with
  | zero => 
    have : ¬ (lo * w ≤ i ∧ i < (lo + 0) * w ∧ i < d.length) := by simp only [Nat.add_zero]; omega
    rw [if_neg this]; simp [vecSteps]
  | succ n ih =>
    have ih' := ih (fun k h1 h2 => hf k h1 (by omega))
    rw [vecSteps_succ]
    simp only []
    have hload : loadAt (vecSteps w f lo s n d) ((lo + n) * w) w = loadAt d ((lo + n) * w) w := by
      apply loadAt_congr
      intro j hj
      rw [ih']
      have : ¬ (lo * w ≤ (lo + n) * w + j ∧ (lo + n) * w + j < (lo + n) * w ∧ (lo + n) * w + j < d.length) := by
        omega
      rw [if_neg this]
    rw [hload, storeAt_getD, vecSteps_length]
    obtain ⟨hlen, hval⟩ := hf (lo + n) (by omega) (by omega)
    rw [hlen]
    have e : (lo + (n + 1)) * w = (lo + n) * w + w := by rw [← Nat.add_assoc, Nat.add_mul, Nat.one_mul]
    have hlow : lo * w ≤ (lo + n) * w := Nat.mul_le_mul_right w (by omega)
    by_cases hc : (lo + n) * w ≤ i ∧ i < (lo + n) * w + w ∧ i < d.length
    · rw [if_pos hc, if_pos (by rw [e]; omega)]
      have := hval (i - (lo + n) * w) (by omega)
      rw [this]
      have e2 : (lo + n) * w + (i - (lo + n) * w) = i := by omega
      rw [e2]
    · rw [if_neg hc, ih' i]
      by_cases hc2 : lo * w ≤ i ∧ i < (lo + n) * w ∧ i < d.length
      · rw [if_pos hc2, if_pos (by rw [e]; omega)]
      · rw [if_neg hc2, if_neg (by rw [e]; omega)]


theorem vecLoop_length' (w f lo hi d s) : (vecLoop w f lo hi d s).length = d.length := by
  rw [vecLoop_eq_steps, vecSteps_length]

theorem vecLoop_getD (w : Nat) (f : List Nat → List Nat → List Nat) (g : Nat → Nat → Nat)
    (lo hi : Nat) (d s : List Nat)
    (hf : ∀ k, lo ≤ k → k < hi →
      (f (loadAt d (k * w) w) (loadAt s (k * w) w)).length = w ∧
      ∀ j, j < w → (f (loadAt d (k * w) w) (loadAt s (k * w) w)).getD j 0 =
        g (d.getD (k * w + j) 0) (s.getD (k * w + j) 0)) (i : Nat) :
    (vecLoop w f lo hi d s).getD i 0 =
      if lo * w ≤ i ∧ i < hi * w ∧ i < d.length then g (d.getD i 0) (s.getD i 0) else d.getD i 0 := by
  rw [vecLoop_eq_steps, vecSteps_getD w f g lo d s (hi - lo) (fun k h1 h2 => hf k h1 (by omega))]
  by_cases h : lo ≤ hi
  · rw [show lo + (hi - lo) = hi by omega]
  · have h1 : hi * w ≤ lo * w := Nat.mul_le_mul_right w (by omega)
    rw [show lo + (hi - lo) = lo by omega, if_neg (by omega), if_neg (by omega)]

theorem byteLoop_length (g lo hi d s) : (byteLoop g lo hi d s).length = d.length := by
  unfold byteLoop; rw [vecLoop_length']

theorem byteLoop_getD (g : Nat → Nat → Nat) (lo hi : Nat) (d s : List Nat) (i : Nat) :
    (byteLoop g lo hi d s).getD i 0 =
      if lo ≤ i ∧ i < hi ∧ i < d.length then g (d.getD i 0) (s.getD i 0) else d.getD i 0 := by
  unfold byteLoop
  rw [vecLoop_getD 1 _ g lo hi d s]
  · simp only [Nat.mul_one]
  · intro k _ _
    refine ⟨rfl, ?_⟩
    intro j hj
    have : j = 0 := by omega
    subst this
    rw [loadAt_getD _ _ _ _ (by omega), loadAt_getD _ _ _ _ (by omega)]
    rfl

theorem xorBlock_length (a b : List Nat) : (xorBlock a b).length = min a.length b.length := by
  simp [xorBlock]

theorem zipWith_getD (g : Nat → Nat → Nat) (a b : List Nat) (j : Nat) (ha : j < a.length) (hb : j < b.length) :
    (List.zipWith g a b).getD j 0 = g (a.getD j 0) (b.getD j 0) := by
  rw [List.getD_eq_getElem?_getD, List.getD_eq_getElem?_getD, List.getD_eq_getElem?_getD,
    List.getElem?_zipWith, List.getElem?_eq_getElem ha, List.getElem?_eq_getElem hb]
  rfl

theorem xorBlock_getD (a b : List Nat) (j : Nat) (ha : j < a.length) (hb : j < b.length) :
    (xorBlock a b).getD j 0 = a.getD j 0 ^^^ b.getD j 0 := zipWith_getD _ a b j ha hb

theorem map_getD (g : Nat → Nat) (a : List Nat) (j : Nat) (ha : j < a.length) :
    (a.map g).getD j 0 = g (a.getD j 0) := by
  rw [List.getD_eq_getElem?_getD, List.getD_eq_getElem?_getD, List.getElem?_map,
    List.getElem?_eq_getElem ha]
  rfl

/-! ### add_assign -/

theorem xorBlock_loop_hyp (w : Nat) (d s : List Nat) (k : Nat) :
    (xorBlock (loadAt d (k * w) w) (loadAt s (k * w) w)).length = w ∧
      ∀ j, j < w → (xorBlock (loadAt d (k * w) w) (loadAt s (k * w) w)).getD j 0 =
        (d.getD (k * w + j) 0) ^^^ (s.getD (k * w + j) 0) := by
  refine ⟨by simp [xorBlock_length, loadAt_length], ?_⟩
  intro j hj
  rw [xorBlock_getD _ _ _ (by rw [loadAt_length]; exact hj) (by rw [loadAt_length]; exact hj),
      loadAt_getD _ _ _ _ hj, loadAt_getD _ _ _ _ hj]

theorem vecLoop_xor_getD (w lo hi : Nat) (d s : List Nat) (i : Nat) :
    (vecLoop w xorBlock lo hi d s).getD i 0 =
      if lo * w ≤ i ∧ i < hi * w ∧ i < d.length then d.getD i 0 ^^^ s.getD i 0 else d.getD i 0 :=
  vecLoop_getD w xorBlock (· ^^^ ·) lo hi d s (fun k _ _ => xorBlock_loop_hyp w d s k) i

theorem addAssignVec_eq (w : Nat) (hw : w = 16 ∨ w = 32 ∨ w = 64) (d s : List Nat) (h : d.length = s.length) :
    addAssignVec w d s = List.zipWith (· ^^^ ·) d s := by
  apply ext_getD
  · simp [addAssignVec, byteLoop_length, vecLoop_length', h]
  · intro i hi
    simp only [addAssignVec, byteLoop_length, vecLoop_length'] at hi
    simp only [addAssignVec]
    rw [zipWith_getD _ _ _ _ hi (by omega), byteLoop_getD, vecLoop_xor_getD, vecLoop_xor_getD]
    simp only [vecLoop_length']
    rcases hw with rfl | rfl | rfl <;> split <;> split <;> split <;> first | rfl | omega

theorem addAssignFallback_eq (d s : List Nat) (h : d.length = s.length) :
    addAssignFallback d s = List.zipWith (· ^^^ ·) d s := by
  apply ext_getD
  · simp [addAssignFallback, byteLoop_length, vecLoop_length', h]
  · intro i hi
    simp only [addAssignFallback, byteLoop_length, vecLoop_length'] at hi
    simp only [addAssignFallback]
    rw [zipWith_getD _ _ _ _ hi (by omega), byteLoop_getD, vecLoop_xor_getD]
    simp only [vecLoop_length']
    split <;> split <;> first | rfl | omega


theorem and_0F (x : Nat) : x &&& 0x0F = x % 16 := Nat.and_two_pow_sub_one_eq_mod x 4

theorem and_F0 (x : Nat) (hx : x < 256) : x &&& 0xF0 = x / 16 * 16 := by
  have : ∀ x, x < 256 → x &&& 0xF0 = x / 16 * 16 := by decide +kernel
  exact this x hx

theorem group_masked (b0 b1 b2 b3 b4 b5 b6 b7 : Nat)
    (h0 : b0 < 256) (h1 : b1 < 256) (h2 : b2 < 256) (h3 : b3 < 256)
    (h4 : b4 < 256) (h5 : b5 < 256) (h6 : b6 < 256) (h7 : b7 < 256) :
    leBytes 8 (leVal [b0 / 16 * 16, b1 / 16 * 16, b2 / 16 * 16, b3 / 16 * 16,
      b4 / 16 * 16, b5 / 16 * 16, b6 / 16 * 16, b7 / 16 * 16] >>> 4) =
      [b0 / 16, b1 / 16, b2 / 16, b3 / 16, b4 / 16, b5 / 16, b6 / 16, b7 / 16] := by
  simp only [leBytes, leVal, List.foldr, List.range, List.range.loop, List.map, Nat.shiftRight_eq_div_pow]
  simp only [List.cons.injEq, and_true]
  refine ⟨?_, ?_, ?_, ?_, ?_, ?_, ?_, ?_⟩ <;> omega

theorem group_shifted (b0 b1 b2 b3 b4 b5 b6 b7 : Nat)
    (h0 : b0 < 256) (h1 : b1 < 256) (h2 : b2 < 256) (h3 : b3 < 256)
    (h4 : b4 < 256) (h5 : b5 < 256) (h6 : b6 < 256) (h7 : b7 < 256) :
    (leBytes 8 (leVal [b0, b1, b2, b3, b4, b5, b6, b7] >>> 4)).map (· % 16) =
      [b0 / 16, b1 / 16, b2 / 16, b3 / 16, b4 / 16, b5 / 16, b6 / 16, b7 / 16] := by
  simp only [leBytes, leVal, List.foldr, List.range, List.range.loop, List.map, Nat.shiftRight_eq_div_pow]
  simp only [List.cons.injEq, and_true]
  refine ⟨?_, ?_, ?_, ?_, ?_, ?_, ?_, ?_⟩ <;> omega

theorem srli4_nil : srli4 [] = [] := by simp [srli4]

theorem srli4_cons8 (b0 b1 b2 b3 b4 b5 b6 b7 : Nat) (rest : List Nat) :
    srli4 (b0 :: b1 :: b2 :: b3 :: b4 :: b5 :: b6 :: b7 :: rest) =
      leBytes 8 (leVal [b0, b1, b2, b3, b4, b5, b6, b7] >>> 4) ++ srli4 rest := by
  unfold srli4
  have hl : (b0 :: b1 :: b2 :: b3 :: b4 :: b5 :: b6 :: b7 :: rest).length / 8 = rest.length / 8 + 1 := by
    simp only [List.length_cons]; omega
  rw [hl, List.range_succ_eq_map, List.flatMap_cons, List.flatMap_map]
  congr 1

theorem chunk8_induction {P : List Nat → Prop} (h0 : P [])
    (h8 : ∀ b0 b1 b2 b3 b4 b5 b6 b7 rest, P rest → P (b0 :: b1 :: b2 :: b3 :: b4 :: b5 :: b6 :: b7 :: rest)) :
    ∀ l : List Nat, l.length % 8 = 0 → P l := by
  intro l
  induction h : l.length using Nat.strong_induction_on generalizing l with
  | _ n ih =>
    intro hm
    match l, h with
    | [], _ => exact h0
    | b0 :: b1 :: b2 :: b3 :: b4 :: b5 :: b6 :: b7 :: rest, h =>
      simp only [List.length_cons] at h
      exact h8 _ _ _ _ _ _ _ _ _ (ih rest.length (by omega) rest rfl (by omega))
    | [_], h | [_, _], h | [_, _, _], h | [_, _, _, _], h | [_, _, _, _, _], h
    | [_, _, _, _, _, _], h | [_, _, _, _, _, _, _], h =>
      simp only [List.length_cons, List.length_nil] at h; omega


/-! ### lanes -/

theorem srli4_masked' (blk : List Nat) (h8 : blk.length % 8 = 0) (hb : ∀ x ∈ blk, x < 256) :
    srli4 (blk.map (· &&& 0xF0)) = blk.map (· / 16) := by
  revert hb
  refine chunk8_induction (P := fun blk => (∀ x ∈ blk, x < 256) → srli4 (blk.map (· &&& 0xF0)) = blk.map (· / 16))
    ?_ ?_ blk h8
  · intro _; simp [srli4_nil]
  · intro b0 b1 b2 b3 b4 b5 b6 b7 rest ih hb
    simp only [List.mem_cons] at hb
    have h0 := hb b0 (by simp)
    have h1 := hb b1 (by simp)
    have h2 := hb b2 (by simp)
    have h3 := hb b3 (by simp)
    have h4 := hb b4 (by simp)
    have h5 := hb b5 (by simp)
    have h6 := hb b6 (by simp)
    have h7 := hb b7 (by simp)
    simp only [List.map_cons]
    rw [srli4_cons8, ih (fun x hx => hb x (by simp [hx])),
      and_F0 b0 h0, and_F0 b1 h1, and_F0 b2 h2, and_F0 b3 h3, and_F0 b4 h4, and_F0 b5 h5,
      and_F0 b6 h6, and_F0 b7 h7, group_masked b0 b1 b2 b3 b4 b5 b6 b7 h0 h1 h2 h3 h4 h5 h6 h7]
    rfl

theorem srli4_then_mask' (blk : List Nat) (h8 : blk.length % 8 = 0) (hb : ∀ x ∈ blk, x < 256) :
    (srli4 blk).map (· &&& 0x0F) = blk.map (· / 16) := by
  revert hb
  refine chunk8_induction (P := fun blk => (∀ x ∈ blk, x < 256) → (srli4 blk).map (· &&& 0x0F) = blk.map (· / 16))
    ?_ ?_ blk h8
  · intro _; simp [srli4_nil]
  · intro b0 b1 b2 b3 b4 b5 b6 b7 rest ih hb
    simp only [List.mem_cons] at hb
    have h0 := hb b0 (by simp)
    have h1 := hb b1 (by simp)
    have h2 := hb b2 (by simp)
    have h3 := hb b3 (by simp)
    have h4 := hb b4 (by simp)
    have h5 := hb b5 (by simp)
    have h6 := hb b6 (by simp)
    have h7 := hb b7 (by simp)
    have hm : (fun x : Nat => x &&& 0x0F) = (· % 16) := funext and_0F
    rw [srli4_cons8, List.map_append, ih (fun x hx => hb x (by simp [hx])), hm,
      group_shifted b0 b1 b2 b3 b4 b5 b6 b7 h0 h1 h2 h3 h4 h5 h6 h7]
    rfl

theorem pshufb_small (tab : List Nat) (laneRows : Nat) (idx : List Nat) (T : Nat → Nat)
    (hidx : ∀ i ∈ idx, i < 16) (hr : 0 < laneRows)
    (htab : ∀ r i, r < laneRows → i < 16 → tab.getD (16 * r + i) 0 = T i) :
    pshufb tab laneRows idx = idx.map T := by
  unfold pshufb
  apply List.ext_getElem (by simp)
  intro j h1 h2
  have hj : j < idx.length := by simpa using h2
  simp only [List.getElem_mapIdx, List.getElem_map]
  have hi := hidx (idx[j]'hj) (List.getElem_mem _)
  rw [if_neg (by omega), Nat.mod_eq_of_lt hi, htab _ _ (Nat.mod_lt _ hr) hi]

theorem getD_map_range (n : Nat) (F : Nat → Nat) (i : Nat) (h : i < n) :
    ((List.range n).map F).getD i 0 = F i := by
  rw [List.getD_eq_getElem?_getD, List.getElem?_map, List.getElem?_range h]; rfl

theorem nibbleMul_eq' (isa : Isa) (c : Nat) (hc : c < 256) (blk : List Nat) (hb : ∀ x ∈ blk, x < 256)
    (h8 : blk.length % 8 = 0) : nibbleMul isa c blk = blk.map (gmul c) := by
  have hlow : pshufb (lowTab isa c).1 (lowTab isa c).2 (blk.map (· &&& 0x0F)) =
      (blk.map (· &&& 0x0F)).map (fun i => gmul c (i % 16)) := by
    apply pshufb_small
    · intro i hi
      rw [List.mem_map] at hi
      obtain ⟨x, _, rfl⟩ := hi
      rw [and_0F]; omega
    · cases isa <;> simp [lowTab]
    · intro r i hr hi
      cases isa <;> simp only [lowTab] at hr ⊢ <;>
        rw [getD_map_range _ _ _ (by omega), Rq.C10.lowLookup_eq c _ hc (by omega)] <;>
        congr 1 <;> omega
  have hhigh : pshufb (hiTab isa c).1 (hiTab isa c).2 (blk.map (· / 16)) =
      (blk.map (· / 16)).map (fun i => gmul c (i % 16 * 16)) := by
    apply pshufb_small
    · intro i hi
      rw [List.mem_map] at hi
      obtain ⟨x, hx, rfl⟩ := hi
      have := hb x hx
      omega
    · cases isa <;> simp [hiTab]
    · intro r i hr hi
      cases isa <;> simp only [hiTab] at hr ⊢ <;>
        rw [getD_map_range _ _ _ (by omega), Rq.C10.hiLookup_eq c _ hc (by omega)] <;>
        congr 2 <;> omega
  have hfin : xorBlock (pshufb (hiTab isa c).1 (hiTab isa c).2 (blk.map (· / 16)))
      (pshufb (lowTab isa c).1 (lowTab isa c).2 (blk.map (· &&& 0x0F))) = blk.map (gmul c) := by
    rw [hhigh, hlow]
    unfold xorBlock
    rw [List.map_map, List.map_map, List.zipWith_map_left, List.zipWith_map_right, List.zipWith_self]
    apply List.map_congr_left
    intro x hx
    have hx' := hb x hx
    simp only [Function.comp, and_0F]
    rw [Nat.xor_comm, Nat.mod_mod, Nat.mod_eq_of_lt (show x / 16 < 16 by omega)]
    exact Rq.C10.nibble_split c x hc hx'
  unfold nibbleMul
  cases isa <;> simp only []
  · rw [srli4_masked' blk h8 hb]; exact hfin
  · rw [srli4_masked' blk h8 hb]; exact hfin
  · rw [srli4_then_mask' blk h8 hb]; exact hfin


/-! ### mulassign_scalar, fused_addassign_mul_scalar -/

theorem getD_lt256 (d : List Nat) (hd : ∀ x ∈ d, x < 256) (i : Nat) : d.getD i 0 < 256 := by
  by_cases h : i < d.length
  · rw [List.getD_eq_getElem?_getD, List.getElem?_eq_getElem h]
    exact hd _ (List.getElem_mem _)
  · rw [getD_of_le (by omega)]; decide

theorem loadAt_bytes (d : List Nat) (hd : ∀ x ∈ d, x < 256) (off w : Nat) : ∀ x ∈ loadAt d off w, x < 256 := by
  intro x hx
  unfold loadAt at hx
  rw [List.mem_map] at hx
  obtain ⟨j, _, rfl⟩ := hx
  exact getD_lt256 d hd _

theorem Isa.width_mod8 (isa : Isa) : isa.width % 8 = 0 := by cases isa <;> rfl

theorem Isa.width_cases (isa : Isa) : isa.width = 16 ∨ isa.width = 32 ∨ isa.width = 64 := by
  cases isa <;> simp [Isa.width]

theorem mulAssignVec_eq (isa : Isa) (c : Nat) (hc : c < 256) (d : List Nat) (hd : ∀ x ∈ d, x < 256) :
    mulAssignVec isa c d = d.map (gmul c) := by
  unfold mulAssignVec
  simp only []
  have hw3 := isa.width_cases
  generalize isa.width = w at hw3 ⊢
  have hstep : ∀ k, (nibbleMul isa c (loadAt d (k * w) w)).length = w ∧
      ∀ j, j < w → (nibbleMul isa c (loadAt d (k * w) w)).getD j 0 =
        (fun a (_ : Nat) => gmul c a) (d.getD (k * w + j) 0) (([] : List Nat).getD (k * w + j) 0) := by
    intro k
    rw [nibbleMul_eq' isa c hc _ (loadAt_bytes d hd _ _) (by rw [loadAt_length]; omega)]
    refine ⟨by simp [loadAt_length], ?_⟩
    intro j hj
    rw [map_getD _ _ _ (by rw [loadAt_length]; exact hj), loadAt_getD _ _ _ _ hj]
  apply ext_getD
  · simp [byteLoop_length, vecLoop_length']
  · intro i hi
    simp only [byteLoop_length, vecLoop_length'] at hi
    rw [map_getD _ _ _ hi, byteLoop_getD,
      vecLoop_getD w _ (fun a _ => gmul c a) 0 _ d [] (fun k _ _ => hstep k)]
    simp only [vecLoop_length']
    have hm := Rq.C10.mulLookup_eq c (d.getD i 0) hc (getD_lt256 d hd i)
    rcases hw3 with rfl | rfl | rfl <;> split <;> split <;> first | with_reducible rfl | omega

theorem mulAssignFallback_eq (c : Nat) (hc : c < 256) (d : List Nat) (hd : ∀ x ∈ d, x < 256) :
    mulAssignFallback c d = d.map (gmul c) := by
  apply ext_getD
  · simp [mulAssignFallback, byteLoop_length]
  · intro i hi
    simp only [mulAssignFallback, byteLoop_length] at hi
    simp only [mulAssignFallback]
    rw [map_getD _ _ _ hi, byteLoop_getD, if_pos (by omega)]
    exact Rq.C10.mulLookup_eq c (d.getD i 0) hc (getD_lt256 d hd i)

theorem fmaVec_eq (isa : Isa) (c : Nat) (hc : c < 256) (d s : List Nat) (hs : ∀ x ∈ s, x < 256)
    (h : d.length = s.length) :
    fmaVec isa c d s = List.zipWith (fun a b => a ^^^ gmul c b) d s := by
  unfold fmaVec
  simp only []
  have hw3 := isa.width_cases
  generalize isa.width = w at hw3 ⊢
  have hstep : ∀ k, (xorBlock (loadAt d (k * w) w) (nibbleMul isa c (loadAt s (k * w) w))).length = w ∧
      ∀ j, j < w → (xorBlock (loadAt d (k * w) w) (nibbleMul isa c (loadAt s (k * w) w))).getD j 0 =
        (fun a b => a ^^^ gmul c b) (d.getD (k * w + j) 0) (s.getD (k * w + j) 0) := by
    intro k
    rw [nibbleMul_eq' isa c hc _ (loadAt_bytes s hs _ _) (by rw [loadAt_length]; omega)]
    refine ⟨by simp [xorBlock_length, loadAt_length], ?_⟩
    intro j hj
    rw [xorBlock_getD _ _ _ (by rw [loadAt_length]; exact hj) (by simp [loadAt_length]; exact hj),
      map_getD _ _ _ (by rw [loadAt_length]; exact hj), loadAt_getD _ _ _ _ hj, loadAt_getD _ _ _ _ hj]
  apply ext_getD
  · simp [byteLoop_length, vecLoop_length', h]
  · intro i hi
    simp only [byteLoop_length, vecLoop_length'] at hi
    rw [zipWith_getD _ _ _ _ hi (by omega), byteLoop_getD,
      vecLoop_getD w _ (fun a b => a ^^^ gmul c b) 0 _ d s (fun k _ _ => hstep k)]
    simp only [vecLoop_length']
    have hm := Rq.C10.mulLookup_eq c (s.getD i 0) hc (getD_lt256 s hs i)
    rcases hw3 with rfl | rfl | rfl <;> split <;> split <;> first | with_reducible rfl | omega | rw [hm]

theorem fmaFallback_eq (c : Nat) (hc : c < 256) (d s : List Nat) (hs : ∀ x ∈ s, x < 256)
    (h : d.length = s.length) :
    fmaFallback c d s = List.zipWith (fun a b => a ^^^ gmul c b) d s := by
  apply ext_getD
  · simp [fmaFallback, byteLoop_length, h]
  · intro i hi
    simp only [fmaFallback, byteLoop_length] at hi
    simp only [fmaFallback]
    rw [zipWith_getD _ _ _ _ hi (by omega), byteLoop_getD, if_pos (by omega),
      Rq.C10.mulLookup_eq c (s.getD i 0) hc (getD_lt256 s hs i)]


/-! ### binary FMA: folds -/

/-- the head loop: a fold of single-byte stores at positions `0..n` -/
theorem headFold_spec (h : Nat → Nat → Nat) (n : Nat) (d : List Nat) :
    ((List.range n).foldl (fun d i => storeAt d i [h i (d.getD i 0)]) d).length = d.length ∧
    ∀ x, ((List.range n).foldl (fun d i => storeAt d i [h i (d.getD i 0)]) d).getD x 0 =
      if x < n ∧ x < d.length then h x (d.getD x 0) else d.getD x 0 := by
  induction n with
  | zero => simp
  | succ n ih =>
    obtain ⟨ihl, ihv⟩ := ih
    rw [List.range_succ, List.foldl_append]
    simp only [List.foldl_cons, List.foldl_nil]
    refine ⟨by rw [storeAt_length, ihl], ?_⟩
    intro x
    have hn := ihv n
    rw [if_neg (by omega)] at hn
    rw [storeAt_getD, ihl, hn]
    simp only [List.length_cons, List.length_nil]
    by_cases hx : n ≤ x ∧ x < n + (0 + 1) ∧ x < d.length
    · have : x = n := by omega
      subst this
      rw [if_pos hx, if_pos (by omega)]
      simp
    · rw [if_neg hx, ihv x]
      by_cases hx2 : x < n ∧ x < d.length
      · rw [if_pos hx2, if_pos (by omega)]
      · rw [if_neg hx2, if_neg (by omega)]

/-- the whole-unit loop: block `i` of width `u` at `base + i*u` is xored with `P i`, whose
entries are given position-wise by `B` -/
theorem blockFold_spec (u base : Nat) (P : Nat → List Nat) (B : Nat → Nat)
    (hP : ∀ k, (P k).length = u) (hB : ∀ k j, j < u → (P k).getD j 0 = B (base + k * u + j))
    (m : Nat) (d : List Nat) :
    ((List.range m).foldl (fun d i =>
        storeAt d (base + i * u) (xorBlock (loadAt d (base + i * u) u) (P i))) d).length = d.length ∧
    ∀ x, ((List.range m).foldl (fun d i =>
        storeAt d (base + i * u) (xorBlock (loadAt d (base + i * u) u) (P i))) d).getD x 0 =
      if base ≤ x ∧ x < base + m * u ∧ x < d.length then d.getD x 0 ^^^ B x else d.getD x 0 := by
  induction m with
  | zero =>
    refine ⟨by simp, ?_⟩
    intro x
    rw [if_neg (by omega)]; simp
  | succ m ih =>
    obtain ⟨ihl, ihv⟩ := ih
    rw [List.range_succ, List.foldl_append]
    simp only [List.foldl_cons, List.foldl_nil]
    refine ⟨by rw [storeAt_length, ihl], ?_⟩
    intro x
    have e : (m + 1) * u = m * u + u := by rw [Nat.add_mul, Nat.one_mul]
    rw [storeAt_getD, ihl, xorBlock_length, loadAt_length, hP, Nat.min_self, e]
    by_cases hx : base + m * u ≤ x ∧ x < base + m * u + u ∧ x < d.length
    · rw [if_pos hx, if_pos (by omega),
        xorBlock_getD _ _ _ (by rw [loadAt_length]; omega) (by rw [hP]; omega),
        loadAt_getD _ _ _ _ (by omega), hB m _ (by omega),
        show base + m * u + (x - (base + m * u)) = x by omega, ihv x, if_neg (by omega)]
    · rw [if_neg hx, ihv x]
      by_cases hx2 : base ≤ x ∧ x < base + m * u ∧ x < d.length
      · rw [if_pos hx2, if_pos (by omega)]
      · rw [if_neg hx2, if_neg (by omega)]


/-! ### binary FMA: bit extraction -/

theorem bitOf_lt2 (w b : Nat) : bitOf w b < 2 := Nat.mod_lt _ (by decide)

theorem bitOf_eq_testBit (w b : Nat) : bitOf w b = if w.testBit b then 1 else 0 := by
  unfold bitOf
  rw [Nat.testBit_eq_decide_div_mod_eq, Nat.shiftRight_eq_div_pow]
  by_cases h : w / 2 ^ b % 2 = 1
  · simp [h]
  · have : w / 2 ^ b % 2 = 0 := by omega
    simp [this]

theorem bitOf_shift_mod (w a n j : Nat) (hj : j < n) : bitOf ((w >>> a) % 2 ^ n) j = bitOf w (a + j) := by
  rw [bitOf_eq_testBit, bitOf_eq_testBit, Nat.testBit_mod_two_pow, Nat.testBit_shiftRight]
  simp [hj]

/-- element `x` of the packed vector by its documented layout -/
def BinVec.bitAt (o : BinVec) (x : Nat) : Nat :=
  bitOf (o.words.getD ((o.padding + x) / 64) 0) ((o.padding + x) % 64)

theorem toOctets_length (o : BinVec) : o.toOctets.length = o.length := by simp [BinVec.toOctets]

theorem toOctets_getD (o : BinVec) (x : Nat) (hx : x < o.length) : o.toOctets.getD x 0 = o.bitAt x := by
  unfold BinVec.toOctets
  rw [getD_map_range _ _ _ hx]; rfl

theorem toOctets_bits (o : BinVec) : ∀ b ∈ o.toOctets, b < 2 := by
  intro b hb
  unfold BinVec.toOctets at hb
  rw [List.mem_map] at hb
  obtain ⟨i, _, rfl⟩ := hb
  exact bitOf_lt2 _ _

/-- bit `j` of unit `idx` (`u`-bit units, little endian inside the u64 word) is bit `u*idx + j`
of the word array -/
theorem bitOf_unit (u : Nat) (hu : u = 64 ∨ u = 32) (o : BinVec) (idx j : Nat) (hj : j < u) :
    bitOf (o.unit u idx) j = bitOf (o.words.getD ((u * idx + j) / 64) 0) ((u * idx + j) % 64) := by
  unfold BinVec.unit
  simp only []
  rw [bitOf_shift_mod _ _ _ _ hj]
  rcases hu with rfl | rfl
  · rw [show idx / (64 / 64) = (64 * idx + j) / 64 by omega,
      show 64 * (idx % (64 / 64)) + j = (64 * idx + j) % 64 by omega]
  · rw [show idx / (64 / 32) = (32 * idx + j) / 64 by omega,
      show 32 * (idx % (64 / 32)) + j = (32 * idx + j) % 64 by omega]

theorem mul_bit_mod (c b : Nat) (hc : c < 256) (hb : b < 2) : (c * b) % 256 = if b = 1 then c else 0 := by
  have : b = 0 ∨ b = 1 := by omega
  rcases this with rfl | rfl
  · simp
  · simp; omega

theorem fmaBinVec_eq (u : Nat) (hu : u = 64 ∨ u = 32) (c : Nat) (hc : c < 256) (d : List Nat) (o : BinVec)
    (hl : d.length = o.length) :
    fmaBinVec u c d o = List.zipWith (fun a bit => a ^^^ (if bit = 1 then c else 0)) d o.toOctets := by
  unfold fmaBinVec
  simp only []
  -- head
  generalize hbitIn : o.padding % u = bitIn
  generalize hstart : o.padding / u = start
  generalize hheadN : (if bitIn > 0 then u - bitIn else 0) = headN
  generalize hstart' : (if bitIn > 0 then start + 1 else start) = start'
  have hpad : o.padding = (64 - o.length % 64) % 64 := rfl
  obtain ⟨hlen1, hval1⟩ := headFold_spec
    (fun i a => a ^^^ (c * bitOf (o.unit u start) (bitIn + i)) % 256) headN d
  generalize (List.range headN).foldl (fun d i =>
      storeAt d i [d.getD i 0 ^^^ (c * bitOf (o.unit u start) (bitIn + i)) % 256]) d = d1 at hlen1 hval1 ⊢
  have hu0 : 0 < u := by omega
  obtain ⟨hlen2, hval2⟩ := blockFold_spec u headN
    (fun i => (List.range u).map fun j => if bitOf (o.unit u (start' + i)) j = 1 then c else 0)
    (fun x => if o.bitAt x = 1 then c else 0)
    (by intro k; simp)
    (by
      intro k j hj
      rw [getD_map_range _ _ _ hj, bitOf_unit u hu o _ j hj]
      unfold BinVec.bitAt
      have e : u * (start' + k) + j = o.padding + (headN + k * u + j) := by
        rw [Nat.mul_add, Nat.mul_comm u k]
        have : u * start' = o.padding + headN := by
          rcases hu with rfl | rfl <;> split at hheadN <;> split at hstart' <;> omega
        omega
      rw [e])
    ((d1.length - headN) / u) d1
  apply ext_getD
  · rw [hlen2, hlen1]; simp [toOctets_length, hl]
  · intro x hx
    rw [hlen2, hlen1] at hx
    rw [hval2 x, hval1 x, hlen1, zipWith_getD _ _ _ _ hx (by rw [toOctets_length]; omega),
      toOctets_getD o x (by omega)]
    have hcover : headN + (d.length - headN) / u * u = d.length := by
      rcases hu with rfl | rfl <;> split at hheadN <;> omega
    by_cases hh : x < headN
    · rw [if_neg (by omega), if_pos ⟨hh, hx⟩]
      have hj : bitIn + x < u := by
        rcases hu with rfl | rfl <;> split at hheadN <;> omega
      rw [mul_bit_mod c _ hc (bitOf_lt2 _ _), bitOf_unit u hu o _ _ hj]
      unfold BinVec.bitAt
      have e : u * start + (bitIn + x) = o.padding + x := by
        rcases hu with rfl | rfl <;> omega
      rw [e]
    · rw [if_pos (by omega), if_neg (by omega)]


theorem zipWith_congr_right (g g' : Nat → Nat → Nat) (d t : List Nat)
    (h : ∀ b ∈ t, ∀ a, g a b = g' a b) : List.zipWith g d t = List.zipWith g' d t := by
  induction d generalizing t with
  | nil => simp
  | cons a d ih =>
    cases t with
    | nil => simp
    | cons b t =>
      simp only [List.zipWith_cons_cons]
      rw [h b (by simp) a, ih t (fun b hb => h b (by simp [hb]))]

theorem gmul_bit (c b : Nat) (hc : c < 256) (hb : b < 2) : gmul c b = if b = 1 then c else 0 := by
  have : b = 0 ∨ b = 1 := by omega
  rcases this with rfl | rfl
  · simp [gmul]
  · rw [gmul_eq_gmulP c 1 hc (by decide), gmulP_one c hc]; simp

theorem xor_bit (a b : Nat) (hb : b < 2) : a ^^^ b = a ^^^ (if b = 1 then 1 else 0) := by
  have : b = 0 ∨ b = 1 := by omega
  rcases this with rfl | rfl <;> simp

theorem fmaBinVecAssert_true (u : Nat) (hu : u = 64 ∨ u = 32) (o : BinVec) :
    fmaBinVecAssert u o.length o = true := by
  unfold fmaBinVecAssert BinVec.padding
  simp only [Bool.and_eq_true, decide_eq_true_eq, beq_iff_eq]
  rcases hu with rfl | rfl <;> split <;> omega

end Rq
