import Rq.Model.Cache
/-! Helper lemmas for C17: association lists with distinct keys, FIFO eviction, `insert` unfolded
by case, `setAt` membership. -/
namespace Rq

variable {P : Type}

/-! ## association lists -/

theorem keys_filter_ne (l : List (Nat × P)) (e : Nat) :
    (l.filter (·.1 != e)).map (·.1) = (l.map (·.1)).filter (· != e) := by
  induction l with
  | nil => rfl
  | cons a l ih =>
    by_cases h : a.1 = e
    · simp [h, ih]
    · simp [h, ih]

theorem filter_ne_eq_self (l : List (Nat × P)) (e : Nat) (h : e ∉ l.map (·.1)) :
    l.filter (·.1 != e) = l := by
  rw [List.filter_eq_self]
  intro a ha
  have : a.1 ≠ e := fun heq => h (heq ▸ List.mem_map_of_mem ha)
  simpa using this

/-- removing a present key from a list with distinct keys drops exactly one entry -/
theorem length_filter_ne_key (l : List (Nat × P)) (e : Nat) (hnd : (l.map (·.1)).Nodup)
    (he : e ∈ l.map (·.1)) : (l.filter (·.1 != e)).length + 1 = l.length := by
  induction l with
  | nil => simp at he
  | cons a l ih =>
    rw [List.map_cons, List.nodup_cons] at hnd
    by_cases h : a.1 = e
    · have hne : e ∉ l.map (·.1) := h ▸ hnd.1
      have : (List.filter (·.1 != e) (a :: l)) = l.filter (·.1 != e) := by
        simp [h]
      rw [this, filter_ne_eq_self l e hne]; rfl
    · have he' : e ∈ l.map (·.1) := by
        rw [List.map_cons, List.mem_cons] at he
        rcases he with he | he
        · exact absurd he.symm h
        · exact he
      have : (List.filter (·.1 != e) (a :: l)) = a :: l.filter (·.1 != e) := by
        simp [h]
      rw [this, List.length_cons, List.length_cons, ih hnd.2 he']

theorem find_key_eq_none_iff (l : List (Nat × P)) (k : Nat) :
    l.find? (·.1 == k) = none ↔ k ∉ l.map (·.1) := by
  rw [List.find?_eq_none]
  constructor
  · intro h hk
    rcases List.mem_map.1 hk with ⟨a, ha, rfl⟩
    exact h a ha (by simp)
  · intro h a ha hak
    exact h (List.mem_map.2 ⟨a, ha, by simpa using hak⟩)

theorem PlanCache.find?_eq_none_iff (c : PlanCache P) (k : Nat) :
    c.find? k = none ↔ k ∉ c.plans.map (·.1) := by
  unfold PlanCache.find?
  rw [Option.map_eq_none_iff, find_key_eq_none_iff]

theorem PlanCache.find?_eq_some (c : PlanCache P) (k : Nat) (p : P) (h : c.find? k = some p) :
    (k, p) ∈ c.plans := by
  unfold PlanCache.find? at h
  rw [Option.map_eq_some_iff] at h
  rcases h with ⟨a, ha, rfl⟩
  have hm := List.mem_of_find?_eq_some ha
  have hk := List.find?_some ha
  have : a.1 = k := by simpa using hk
  rw [← this]; exact hm

theorem find_append_last (o : List Nat) (l : List (Nat × P)) (k : Nat) (p : P) (h : k ∉ l.map (·.1)) :
    (PlanCache.find? { plans := l ++ [(k, p)], order := o } k) = some p := by
  unfold PlanCache.find?
  rw [List.find?_append, (find_key_eq_none_iff l k).2 h]
  simp

/-! ## `insert`, case by case -/

theorem PlanCache.insert_hit (cap : Nat) (c : PlanCache P) (k : Nat) (p q : P) (h : c.find? k = some q) :
    c.insert cap k p = (c, q) := by
  unfold PlanCache.insert; rw [h]

theorem PlanCache.insert_room (cap : Nat) (c : PlanCache P) (k : Nat) (p : P) (h : c.find? k = none)
    (hlt : c.plans.length < cap) :
    c.insert cap k p = ({ plans := c.plans ++ [(k, p)], order := c.order ++ [k] }, p) := by
  unfold PlanCache.insert; rw [h]
  have : ¬ c.plans.length ≥ cap := by omega
  simp only [this, if_false]

theorem PlanCache.insert_evict (cap : Nat) (c : PlanCache P) (k : Nat) (p : P) (h : c.find? k = none)
    (hge : cap ≤ c.plans.length) (e : Nat) (rest : List Nat) (ho : c.order = e :: rest) :
    c.insert cap k p =
      ({ plans := c.plans.filter (·.1 != e) ++ [(k, p)], order := rest ++ [k] }, p) := by
  unfold PlanCache.insert; rw [h]
  have : c.plans.length ≥ cap := hge
  simp only [this, if_true, ho]

/-! ## threads -/

theorem mem_setAt {α : Type} (l : List α) (i : Nat) (x y : α) (h : y ∈ setAt l i x) : y = x ∨ y ∈ l := by
  unfold setAt at h
  rcases List.mem_or_eq_of_mem_set h with h | h
  · exact Or.inr h
  · exact Or.inl h

end Rq
