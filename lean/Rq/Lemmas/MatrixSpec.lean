import Rq.Model.Matrix
import Rq.Thm.C15
import Rq.Lemmas.EncWalk
/-!
# Helpers for C04 (binary part): parameter facts, `setCell`, LDPC rows, Enc walks

* `SpOk`: everything the proofs use about a Table-2 row (from `Rq.C15.row_props` plus the two
  extra kernel-checked facts `H ≤ 16` and `10 ≤ P`), `spOk` for every K ≤ 56403;
* `encIndicesOf_shape` / `encIndicesOf_nodup`: `enc_indices` returns LT walk ++ PI walk, no repetition
  (the walks themselves are in `Rq/Lemmas/EncWalk.lean`);
* `dedup_fold`: the `contains`-guarded fold of `encRow` is duplicate removal;
* `setCell_mem`, `fold_range_mem`, `ldpcRows_mem`: membership after the three LDPC loops.
-/
namespace Rq.C04
open Rq Rq.C15

/-! ## facts about the parameters -/

/-- two more facts about every Table-2 row: H ≤ 16 (so `alpha^i`, i < H, is defined) and P ≥ 10
(so up to three PI indices are distinct) -/
def factHP : Bool := (List.range 477).all fun i => decide (H i ≤ 16) && decide (10 ≤ P i)
theorem factHP_ok : factHP = true := by decide +kernel

theorem row_props2 (i : Nat) (h : i < 477) : H i ≤ 16 ∧ 10 ≤ P i := by
  have := factHP_ok
  simp only [factHP, List.all_eq_true, List.mem_range, Bool.and_eq_true, decide_eq_true_eq] at this
  exact this i h

structure SpOk (k : Nat) (sp : SysParams) : Prop where
  k_le : k ≤ sp.kp
  s_prime : Nat.Prime sp.s
  w_prime : Nat.Prime sp.w
  p1_prime : Nat.Prime sp.p1
  p_le_p1 : sp.p ≤ sp.p1
  s_lt_w : sp.s < sp.w
  h_ge : 2 ≤ sp.h
  h_le_p : sp.h ≤ sp.p
  l_lt : sp.l < 65536
  l_eq : sp.l = sp.kp + sp.s + sp.h
  p_eq : sp.p = sp.l - sp.w
  w_le_l : sp.w ≤ sp.l
  w_ge : 17 ≤ sp.w
  w_le : sp.w ≤ sp.kp + sp.s
  j_lt : sp.j < 1024
  p1_lt : sp.p1 < 57600
  h_le : sp.h ≤ 16
  p_ge : 10 ≤ sp.p

theorem spOk (k : Nat) (hk : k ≤ 56403) (sp : SysParams) (hsp : sysParams k = some sp) : SpOk k sp := by
  obtain ⟨i, hi⟩ := Option.isSome_iff_exists.mp ((rowOf_total k).mpr hk)
  obtain ⟨_, hi477, hki, _⟩ := rowOf_spec k i hi
  obtain ⟨hS, hW, hP1, hWL, hPP1, _, hSW, hH, hHP, hL, hW17, hWK, _, hJ, _, hP1lt⟩ := row_props i hi477
  obtain ⟨hH16, hP10⟩ := row_props2 i hi477
  have := sysParams_row k i hi
  rw [hsp] at this
  have e := Option.some.inj this
  subst e
  exact ⟨hki, hS, hW, hP1, hPP1, hSW, hH, hHP, hL, rfl, rfl, hWL, hW17, hWK, hJ, hP1lt, hH16, hP10⟩

theorem sysParams_some_le (k : Nat) (sp : SysParams) (h : sysParams k = some sp) : k ≤ 56403 := by
  rw [← Rq.C15.rowOf_total]
  unfold sysParams at h
  cases hr : rowOf k with
  | some i => rfl
  | none =>
    simp [extK, hr] at h

/-! ## the shape of `enc_indices` -/

/-- `encIndicesOf` never panics and returns LT walk ++ PI walk, with everything in range -/
theorem encIndicesOf_shape (k x : Nat) (hk : k ≤ 56403) (hx : x < 2 ^ 32) (sp : SysParams)
    (hsp : sysParams k = some sp) :
    ∃ t b1 rest, tuple x sp.w sp.j sp.p1 = some t ∧ 1 ≤ t.d ∧ t.d ≤ sp.w - 2 ∧ 1 ≤ t.a ∧ t.a < sp.w ∧
      t.b < sp.w ∧ (t.d1 = 2 ∨ t.d1 = 3) ∧ 1 ≤ t.a1 ∧ t.a1 < sp.p1 ∧ t.b1 < sp.p1 ∧
      skipPi (sp.p1 + 1) t.b1 t.a1 sp.p sp.p1 = some b1 ∧ b1 < sp.p ∧
      piWalk (t.d1 - 1) b1 t.a1 sp.p sp.p1 sp.w = some rest ∧
      encIndicesOf sp x = some (ltWalk t.d t.a t.b sp.w ++ (sp.w + b1) :: rest) := by
  have ok := spOk k hk sp hsp
  have hw := ok.w_ge
  have hp := ok.p_ge
  obtain ⟨t, ht, htd1, htd, hta1, hta, htb, htd1', hta1', hta1'', htb1⟩ :=
    tuple_wf x sp.w sp.j sp.p1 hx (by omega) (by have := ok.l_lt; have := ok.w_le_l; omega) ok.j_lt
      ok.p1_prime.two_le (by have := ok.p1_lt; omega)
  obtain ⟨r, hr, hrp⟩ := skipPi_terminates t.b1 t.a1 sp.p sp.p1 ok.p1_prime hta1' hta1'' htb1 (by omega)
  obtain ⟨rest, hrest, _⟩ := piWalk_wf t.a1 sp.p sp.p1 sp.w ok.p1_prime hta1' hta1'' (by omega)
    (t.d1 - 1) r
  refine ⟨t, r, rest, ht, htd1, by omega, hta1, hta, htb, htd1', hta1', hta1'', htb1, hr, hrp, hrest, ?_⟩
  simp only [encIndicesOf, ht, encIndices]
  rw [if_neg (by omega)]
  simp only [hr, hrest, Option.map_some]

theorem encIndicesOf_nodup (k x : Nat) (hk : k ≤ 56403) (hx : x < 2 ^ 32) (sp : SysParams)
    (hsp : sysParams k = some sp) (idx : List Nat) (h : encIndicesOf sp x = some idx) : idx.Nodup := by
  have ok := spOk k hk sp hsp
  obtain ⟨t, b1, rest, _, htd1, htd, hta1, hta, htb, htd1', hta1', hta1'', htb1, hb1, hb1p, hrest, he⟩ :=
    encIndicesOf_shape k x hk hx sp hsp
  rw [he] at h
  have := Option.some.inj h
  subst this
  have hw := ok.w_ge
  rw [List.nodup_append]
  refine ⟨ltWalk_nodup t.d t.a t.b sp.w ok.w_prime hta1 hta htb (by omega), ?_, ?_⟩
  · exact pi_nodup t.a1 sp.p sp.p1 sp.w ok.p1_prime hta1' hta1'' (by have := ok.p_ge; omega) ok.p_le_p1
      (t.d1 - 1) (by omega) b1 hb1p rest hrest
  · intro a ha b hb
    have h1 := ltWalk_lt t.a sp.w (by omega) t.d t.b htb a ha
    have h2 : sp.w ≤ b := by
      rcases List.mem_cons.mp hb with rfl | hb
      · omega
      · exact piWalk_ge t.a1 sp.p sp.p1 sp.w _ _ _ hrest b hb
    omega

/-! ## set semantics of a G_ENC row -/

theorem dedup_fold (l : List Nat) : ∀ acc : List Nat, acc.Nodup →
    (l.foldl (fun acc c => if acc.contains c then acc else c :: acc) acc).Nodup ∧
      ∀ c, c ∈ l.foldl (fun acc c => if acc.contains c then acc else c :: acc) acc ↔ c ∈ acc ∨ c ∈ l := by
  induction l with
  | nil => intro acc h; exact ⟨h, fun c => by simp⟩
  | cons a l ih =>
    intro acc h
    rw [List.foldl_cons]
    by_cases ha : acc.contains a = true
    · rw [if_pos ha]
      obtain ⟨h1, h2⟩ := ih acc h
      refine ⟨h1, fun c => ?_⟩
      rw [h2 c, List.mem_cons]
      have : a ∈ acc := by simpa using ha
      constructor
      · rintro (h | h)
        · exact Or.inl h
        · exact Or.inr (Or.inr h)
      · rintro (h | h | h)
        · exact Or.inl h
        · exact Or.inl (h ▸ this)
        · exact Or.inr h
    · rw [if_neg ha]
      have hna : a ∉ acc := by simpa using ha
      obtain ⟨h1, h2⟩ := ih (a :: acc) (List.nodup_cons.mpr ⟨hna, h⟩)
      refine ⟨h1, fun c => ?_⟩
      rw [h2 c, List.mem_cons, List.mem_cons]
      constructor
      · rintro ((h | h) | h)
        · exact Or.inr (Or.inl h)
        · exact Or.inl h
        · exact Or.inr (Or.inr h)
      · rintro (h | h | h)
        · exact Or.inl (Or.inr h)
        · exact Or.inl (Or.inl h)
        · exact Or.inr h

/-! ## `setCell` and the LDPC loops -/

theorem setCell_size (rows : Array (List Nat)) (r c : Nat) : (setCell rows r c).size = rows.size := by
  unfold setCell
  split
  · dsimp only
    split
    · rfl
    · simp
  · rfl

theorem setCell_mem (rows : Array (List Nat)) (r c r' x : Nat) :
    x ∈ (setCell rows r c).getD r' [] ↔ x ∈ rows.getD r' [] ∨ (r' = r ∧ x = c ∧ r < rows.size) := by
  unfold setCell
  by_cases hr : r < rows.size
  · rw [if_pos hr]
    dsimp only
    by_cases hc : (rows.getD r []).contains c = true
    · rw [if_pos hc]
      have : c ∈ rows.getD r [] := by simpa using hc
      constructor
      · exact Or.inl
      · rintro (h | ⟨rfl, rfl, _⟩)
        · exact h
        · exact this
    · rw [if_neg hc]
      simp only [Array.getD_eq_getD_getElem?, Array.getElem?_setIfInBounds]
      by_cases hrr : r = r'
      · subst hrr
        simp [hr]
        tauto
      · simp [hrr]
        intro h; exact absurd h.symm hrr
  · rw [if_neg hr]
    simp [hr]

theorem fold_range_mem (s : Nat) (step : Array (List Nat) → Nat → Array (List Nat))
    (Q : Nat → Nat → Nat → Prop)
    (hstep : ∀ rows i, rows.size = s → (step rows i).size = s ∧
      ∀ r x, x ∈ (step rows i).getD r [] ↔ x ∈ rows.getD r [] ∨ Q i r x) :
    ∀ n rows, rows.size = s → ((List.range n).foldl step rows).size = s ∧
      ∀ r x, x ∈ ((List.range n).foldl step rows).getD r [] ↔ x ∈ rows.getD r [] ∨ ∃ i, i < n ∧ Q i r x := by
  intro n
  induction n with
  | zero => intro rows h; exact ⟨h, fun r x => by simp⟩
  | succ n ih =>
    intro rows h
    obtain ⟨h1, h2⟩ := ih rows h
    obtain ⟨h3, h4⟩ := hstep _ n h1
    rw [List.range_succ, List.foldl_append, List.foldl_cons, List.foldl_nil]
    refine ⟨h3, fun r x => ?_⟩
    rw [h4, h2]
    constructor
    · rintro ((h | ⟨i, hi, hq⟩) | hq)
      · exact Or.inl h
      · exact Or.inr ⟨i, by omega, hq⟩
      · exact Or.inr ⟨n, by omega, hq⟩
    · rintro (h | ⟨i, hi, hq⟩)
      · exact Or.inl (Or.inl h)
      · by_cases hin : i = n
        · subst hin; exact Or.inr hq
        · exact Or.inl (Or.inr ⟨i, by omega, hq⟩)

/-- membership after the three loops of the LDPC generator -/
theorem ldpcRows_mem (sp : SysParams) (hs : 0 < sp.s) (hp : 0 < sp.p) (hsw : sp.s ≤ sp.w) :
    ∃ rows, ldpcRows sp = some rows ∧ rows.size = sp.s ∧ ∀ r x, x ∈ rows.getD r [] ↔
      ((∃ i, i < sp.w - sp.s ∧ x = i ∧ (r = i % sp.s ∨ r = (i % sp.s + (1 + i / sp.s)) % sp.s ∨
          r = ((i % sp.s + (1 + i / sp.s)) % sp.s + (1 + i / sp.s)) % sp.s))
        ∨ (∃ i, i < sp.s ∧ r = i ∧ x = i + (sp.w - sp.s))
        ∨ (∃ i, i < sp.s ∧ r = i ∧ (x = i % sp.p + sp.w ∨ x = (i + 1) % sp.p + sp.w))) := by
  have hmod : ∀ z, z % sp.s < sp.s := fun z => Nat.mod_lt _ hs
  obtain ⟨z1, m1⟩ := fold_range_mem sp.s
    (fun rows i => setCell (setCell (setCell rows (i % sp.s) i) ((i % sp.s + (1 + i / sp.s)) % sp.s) i)
      (((i % sp.s + (1 + i / sp.s)) % sp.s + (1 + i / sp.s)) % sp.s) i)
    (fun i r x => x = i ∧ (r = i % sp.s ∨ r = (i % sp.s + (1 + i / sp.s)) % sp.s ∨
          r = ((i % sp.s + (1 + i / sp.s)) % sp.s + (1 + i / sp.s)) % sp.s))
    (by
      intro rows i hsz
      refine ⟨by simp only [setCell_size, hsz], fun r x => ?_⟩
      simp only [setCell_mem, setCell_size, hsz, hmod, and_true]
      tauto)
    (sp.w - sp.s) (Array.replicate sp.s []) (by simp)
  obtain ⟨z2, m2⟩ := fold_range_mem sp.s (fun rows i => setCell rows i (i + (sp.w - sp.s)))
    (fun i r x => i < sp.s ∧ r = i ∧ x = i + (sp.w - sp.s))
    (by
      intro rows i hsz
      refine ⟨by simp only [setCell_size, hsz], fun r x => ?_⟩
      simp only [setCell_mem, hsz]
      tauto)
    sp.s _ z1
  obtain ⟨z3, m3⟩ := fold_range_mem sp.s
    (fun rows i => setCell (setCell rows i (i % sp.p + sp.w)) i ((i + 1) % sp.p + sp.w))
    (fun i r x => i < sp.s ∧ r = i ∧ (x = i % sp.p + sp.w ∨ x = (i + 1) % sp.p + sp.w))
    (by
      intro rows i hsz
      refine ⟨by simp only [setCell_size, hsz], fun r x => ?_⟩
      simp only [setCell_mem, setCell_size, hsz]
      tauto)
    sp.s _ z2
  refine ⟨_, ?_, z3, fun r x => ?_⟩
  · unfold ldpcRows
    rw [if_neg (by omega)]
  · rw [m3, m2, m1]
    have : ¬ x ∈ (Array.replicate sp.s ([] : List Nat)).getD r [] := by
      simp [Array.getD_eq_getD_getElem?, Array.getElem?_replicate]
      split <;> simp
    constructor
    · rintro (((h | h) | ⟨i, hi, h⟩) | ⟨i, hi, h⟩)
      · exact absurd h this
      · exact Or.inl h
      · exact Or.inr (Or.inl ⟨i, hi, h.2⟩)
      · exact Or.inr (Or.inr ⟨i, hi, h.2⟩)
    · rintro (h | ⟨i, hi, h⟩ | ⟨i, hi, h⟩)
      · exact Or.inl (Or.inl (Or.inr h))
      · exact Or.inl (Or.inr ⟨i, hi, hi, h⟩)
      · exact Or.inr ⟨i, hi, hi, h⟩

end Rq.C04
