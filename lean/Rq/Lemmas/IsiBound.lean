import Rq.Thm.C15
/-! The internal symbol ids `0 … K'-1` of the encoder's standard system are 32-bit values: the side
condition `SolverSpec` puts on the systems a solver is asked about. -/
namespace Rq

theorem range_kp_lt (k : Nat) (sp : SysParams) (h : sysParams k = some sp) :
    ∀ x ∈ List.range sp.kp, x < 2 ^ 32 := by
  have hk : k ≤ 56403 := by
    apply (Rq.C15.rowOf_total k).mp
    cases hr : rowOf k with
    | some i => rfl
    | none =>
      have : extK k = none := by simp [extK, hr]
      simp [sysParams, this] at h
  obtain ⟨sp', h', _, _, _, _, _, _, _, _, _, h2, h3, _⟩ := Rq.C15.sysParams_consistent k hk
  rw [h] at h'
  cases h'
  intro x hx
  have := List.mem_range.mp hx
  omega

end Rq
