import Rq.Model.GF256
import Rq.Lemmas.Tab
/-!
GF(256) lemmas. The executable model reads arrays; here every read is rewritten to the packed
literal (`E`, `Lg`) so that table facts can be decided by kernel evaluation (`decide +kernel`),
and the field laws are then derived by algebra on top of ≤ 65 536-case table facts.
-/
namespace Rq

def E (i : Nat) : Nat := tb8 Gen.octExpP i
def Lg (a : Nat) : Nat := tb8 Gen.octLogP a

theorem oexp_eq (i : Nat) (h : i < 510) : oexp i = E i := tget_mkArr8 _ _ _ h
theorem olog_eq (a : Nat) (h : a < 256) : olog a = Lg a := tget_mkArr8 _ _ _ h
theorem E_lt (i : Nat) : E i < 256 := tb8_lt _ _
theorem Lg_lt (a : Nat) : Lg a < 256 := tb8_lt _ _

/-! ### table facts (kernel evaluation over the regenerated tables) -/

def factE : Bool := (List.range 510).all fun i => E i == E (i % 255)
def factEL : Bool := (List.range 256).all fun a => a == 0 || (E (Lg a) == a && decide (Lg a < 255))
def factLE : Bool := (List.range 255).all fun i => Lg (E i) == i && E i != 0
theorem factE_ok : factE = true := by decide +kernel
theorem factEL_ok : factEL = true := by decide +kernel
theorem factLE_ok : factLE = true := by decide +kernel

theorem E_mod (i : Nat) (h : i < 510) : E i = E (i % 255) := by
  have := factE_ok; simp only [factE, List.all_eq_true, List.mem_range, beq_iff_eq] at this; exact this i h
theorem E_Lg (a : Nat) (h0 : a ≠ 0) (h : a < 256) : E (Lg a) = a ∧ Lg a < 255 := by
  have := factEL_ok
  simp only [factEL, List.all_eq_true, List.mem_range, Bool.or_eq_true, beq_iff_eq, Bool.and_eq_true, decide_eq_true_eq] at this
  rcases this a h with h1 | h1
  · exact absurd h1 h0
  · exact h1
theorem Lg_E (i : Nat) (h : i < 255) : Lg (E i) = i ∧ E i ≠ 0 := by
  have := factLE_ok
  simp only [factLE, List.all_eq_true, List.mem_range, Bool.and_eq_true, beq_iff_eq, bne_iff_ne] at this
  exact this i h

/-- every logarithm is at most 254, so `log u + log v ≤ 508 < 510` (index safety, used by C12) -/
theorem Lg_le (a : Nat) (h : a < 256) : Lg a ≤ 254 := by
  by_cases h0 : a = 0
  · subst h0; decide +kernel
  · have := (E_Lg a h0 h).2; omega

/-- packed form of `gmul` -/
def gmulP (a b : Nat) : Nat := if a = 0 ∨ b = 0 then 0 else E (Lg a + Lg b)

theorem gmul_eq_gmulP (a b : Nat) (ha : a < 256) (hb : b < 256) : gmul a b = gmulP a b := by
  unfold gmul gmulP
  split
  · rfl
  · rw [olog_eq a ha, olog_eq b hb, oexp_eq _ (by have := Lg_le a ha; have := Lg_le b hb; omega)]

theorem gmulP_lt (a b : Nat) : gmulP a b < 256 := by
  unfold gmulP; split
  · decide
  · exact tb8_lt _ _

theorem gmulP_comm (a b : Nat) : gmulP a b = gmulP b a := by
  unfold gmulP; rw [Nat.add_comm (Lg a)]; simp [or_comm]

theorem gmulP_ne_zero (a b : Nat) (ha : a ≠ 0) (hb : b ≠ 0) (ha' : a < 256) (hb' : b < 256) :
    gmulP a b ≠ 0 ∧ Lg (gmulP a b) = (Lg a + Lg b) % 255 := by
  have h1 := E_Lg a ha ha'; have h2 := E_Lg b hb hb'
  have hlt : Lg a + Lg b < 510 := by omega
  have hm : (Lg a + Lg b) % 255 < 255 := Nat.mod_lt _ (by decide)
  have := Lg_E _ hm
  unfold gmulP; rw [if_neg (by simp [ha, hb]), E_mod _ hlt]
  exact ⟨this.2, this.1⟩

theorem gmulP_of_ne (a b : Nat) (ha : a ≠ 0) (hb : b ≠ 0) : gmulP a b = E (Lg a + Lg b) := by
  unfold gmulP; rw [if_neg (by simp [ha, hb])]

theorem gmulP_assoc (a b c : Nat) (ha : a < 256) (hb : b < 256) (hc : c < 256) :
    gmulP (gmulP a b) c = gmulP a (gmulP b c) := by
  by_cases ha0 : a = 0
  · simp [gmulP, ha0]
  by_cases hb0 : b = 0
  · simp [gmulP, hb0]
  by_cases hc0 : c = 0
  · simp [gmulP, hc0]
  have hab := gmulP_ne_zero a b ha0 hb0 ha hb
  have hbc := gmulP_ne_zero b c hb0 hc0 hb hc
  have la := (E_Lg a ha0 ha).2; have lb := (E_Lg b hb0 hb).2; have lc := (E_Lg c hc0 hc).2
  rw [gmulP_of_ne _ _ hab.1 hc0, gmulP_of_ne _ _ ha0 hbc.1, hab.2, hbc.2]
  have h1 : (Lg a + Lg b) % 255 + Lg c < 510 := by omega
  have h2 : Lg a + (Lg b + Lg c) % 255 < 510 := by omega
  rw [E_mod _ h1, E_mod _ h2]
  congr 1
  omega

def sel (p : Bool) (v : Nat) : Nat := if p then v else 0
theorem sel_xor (p q : Bool) (v : Nat) : sel (p ^^ q) v = sel p v ^^^ sel q v := by
  cases p <;> cases q <;> simp [sel]

/-- `a·b` as the xor of `a·2^k` over the set bits of `b` -/
def bitsum (a b : Nat) : Nat :=
  sel (b.testBit 0) (gmulP a 1) ^^^ sel (b.testBit 1) (gmulP a 2) ^^^ sel (b.testBit 2) (gmulP a 4) ^^^
  sel (b.testBit 3) (gmulP a 8) ^^^ sel (b.testBit 4) (gmulP a 16) ^^^ sel (b.testBit 5) (gmulP a 32) ^^^
  sel (b.testBit 6) (gmulP a 64) ^^^ sel (b.testBit 7) (gmulP a 128)

/-- rows lo .. lo+63 (the 65 536 cases are decided in four parts: kernel memory stays small) -/
def factLin (lo : Nat) : Bool :=
  (List.range 64).all fun a => (List.range 256).all fun b => gmulP (lo + a) b == bitsum (lo + a) b
theorem factLin_ok0 : factLin 0 = true := by decide +kernel
theorem factLin_ok1 : factLin 64 = true := by decide +kernel
theorem factLin_ok2 : factLin 128 = true := by decide +kernel
theorem factLin_ok3 : factLin 192 = true := by decide +kernel

/-- lift four 64-row facts to all rows below 256 -/
theorem rows256 (P : Nat → Prop) (h0 : ∀ a, a < 64 → P (0 + a)) (h1 : ∀ a, a < 64 → P (64 + a))
    (h2 : ∀ a, a < 64 → P (128 + a)) (h3 : ∀ a, a < 64 → P (192 + a)) (a : Nat) (ha : a < 256) : P a := by
  by_cases c0 : a < 64
  · have := h0 a c0; simpa using this
  by_cases c1 : a < 128
  · have := h1 (a - 64) (by omega); rwa [show 64 + (a - 64) = a by omega] at this
  by_cases c2 : a < 192
  · have := h2 (a - 128) (by omega); rwa [show 128 + (a - 128) = a by omega] at this
  · have := h3 (a - 192) (by omega); rwa [show 192 + (a - 192) = a by omega] at this

theorem gmulP_bitsum (a b : Nat) (ha : a < 256) (hb : b < 256) : gmulP a b = bitsum a b := by
  have l : ∀ lo, factLin lo = true → ∀ a, a < 64 → ∀ b, b < 256 → gmulP (lo + a) b = bitsum (lo + a) b := by
    intro lo h
    simpa only [factLin, List.all_eq_true, List.mem_range, beq_iff_eq] using h
  exact rows256 (fun a => ∀ b, b < 256 → gmulP a b = bitsum a b) (l 0 factLin_ok0) (l 64 factLin_ok1)
    (l 128 factLin_ok2) (l 192 factLin_ok3) a ha b hb

theorem bitsum_xor (a b c : Nat) : bitsum a (b ^^^ c) = bitsum a b ^^^ bitsum a c := by
  simp only [bitsum, Nat.testBit_xor, sel_xor]
  ac_rfl

theorem xor_lt256 (a b : Nat) (ha : a < 256) (hb : b < 256) : a ^^^ b < 256 :=
  Nat.xor_lt_two_pow (n := 8) ha hb

theorem gmulP_xor (a b c : Nat) (ha : a < 256) (hb : b < 256) (hc : c < 256) :
    gmulP a (b ^^^ c) = gmulP a b ^^^ gmulP a c := by
  rw [gmulP_bitsum a _ ha (xor_lt256 b c hb hc), gmulP_bitsum a b ha hb, gmulP_bitsum a c ha hc, bitsum_xor]

theorem gmulP_one (a : Nat) (ha : a < 256) : gmulP a 1 = a := by
  by_cases h0 : a = 0
  · simp [gmulP, h0]
  · rw [gmulP_of_ne _ _ h0 (by decide)]
    have : Lg 1 = 0 := by decide +kernel
    rw [this, Nat.add_zero]; exact (E_Lg a h0 ha).1

/-- multiplicative inverse through the tables -/
def ginvP (a : Nat) : Nat := if a = 0 then 0 else E (255 - Lg a)
theorem ginvP_lt (a : Nat) : ginvP a < 256 := by unfold ginvP; split; decide; exact tb8_lt _ _
theorem gmulP_ginvP (a : Nat) (h0 : a ≠ 0) (ha : a < 256) : gmulP a (ginvP a) = 1 := by
  have hl := E_Lg a h0 ha
  have hm : (255 - Lg a) % 255 < 255 := Nat.mod_lt _ (by decide)
  have hE : E (255 - Lg a) = E ((255 - Lg a) % 255) := E_mod _ (by omega)
  have hne : ginvP a ≠ 0 := by
    unfold ginvP; rw [if_neg h0, hE]; exact (Lg_E _ hm).2
  rw [gmulP_of_ne _ _ h0 hne]
  have : Lg (ginvP a) = (255 - Lg a) % 255 := by
    unfold ginvP; rw [if_neg h0, hE]; exact (Lg_E _ hm).1
  rw [this, E_mod _ (by omega)]
  have : (Lg a + (255 - Lg a) % 255) % 255 = 0 := by omega
  rw [this]; decide +kernel

end Rq
