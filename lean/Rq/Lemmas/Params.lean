import Mathlib.Data.Nat.Prime.Basic
import Mathlib.Data.ZMod.Basic
import Rq.Lemmas.Tab
import Rq.Model.Params
/-!
# Helpers for C15 (code parameters and symbol tuples)

* packed views of Table 2 (`K'`, `J`, `S`, `H`, `W`, `L`, `P`, `P1`) and the kernel-checked row
  facts (`rowOk`, split into chunks so that each `decide +kernel` stays small and they run in
  parallel), lifted to propositions in `row_props`;
* array read = packed read for every table of `Model/Params.lean`;
* the degree table facts;
* `tupleWith` without its `let`s, and the walks of `enc_indices` (`skipPi`, `ltWalk`, `piWalk`).

The property theorems themselves are in `Rq/Thm/C15.lean`.
-/
namespace Rq.C15
open Rq

/-! ## packed views of the tables (for kernel evaluation) -/
def K' (i : Nat) : Nat := tb32 Gen.t2K i
def J (i : Nat) : Nat := tb32 Gen.t2J i
def S (i : Nat) : Nat := tb32 Gen.t2S i
def H (i : Nat) : Nat := tb32 Gen.t2H i
def W (i : Nat) : Nat := tb32 Gen.t2W i
def L (i : Nat) : Nat := K' i + S i + H i
def P (i : Nat) : Nat := L i - W i
def P1 (i : Nat) : Nat := tb32 Gen.p1V i

/-- trial division, usable by the kernel (n < 240^2 = 57600 covers every table entry) -/
def isPrimeB (n : Nat) : Bool :=
  decide (2 ≤ n) && decide (n < 57600) &&
    (List.range 240).all fun m => decide (m < 2) || decide (n < m * m) || n % m != 0

/-! ## trial division is primality -/

theorem isPrimeB_iff (n : Nat) : isPrimeB n = true ↔
    (2 ≤ n ∧ n < 57600) ∧ ∀ m, m < 240 → (m < 2 ∨ n < m * m) ∨ n % m ≠ 0 := by
  simp only [isPrimeB, Bool.and_eq_true, decide_eq_true_eq, List.all_eq_true, List.mem_range,
    Bool.or_eq_true, bne_iff_ne, ne_eq]

theorem isPrimeB_prime (n : Nat) (h : isPrimeB n = true) : Nat.Prime n := by
  rw [isPrimeB_iff] at h
  obtain ⟨⟨h2, hlt⟩, hall⟩ := h
  rw [Nat.prime_def_le_sqrt]
  refine ⟨h2, fun m hm2 hms hdvd => ?_⟩
  have hmm : m * m ≤ n := Nat.le_sqrt.mp hms
  have hm240 : m < 240 := by
    by_contra hc
    have : 240 * 240 ≤ m * m := Nat.mul_le_mul (by omega) (by omega)
    omega
  rcases hall m hm240 with (h1 | h1) | h1
  · omega
  · omega
  · exact h1 (Nat.mod_eq_zero_of_dvd hdvd)

theorem prime_isPrimeB (n : Nat) (hp : Nat.Prime n) (hn : n < 57600) : isPrimeB n = true := by
  rw [isPrimeB_iff]
  refine ⟨⟨hp.two_le, hn⟩, fun m _ => ?_⟩
  by_cases h1 : m < 2
  · exact Or.inl (Or.inl h1)
  by_cases h2 : n < m * m
  · exact Or.inl (Or.inr h2)
  right
  intro h0
  have hd : m ∣ n := Nat.dvd_of_mod_eq_zero h0
  rcases (Nat.dvd_prime hp).mp hd with h | h
  · omega
  · subst h
    have : m * 2 ≤ m * m := Nat.mul_le_mul_left m (by omega)
    omega

theorem isPrimeB_lt (n : Nat) (h : isPrimeB n = true) : n < 57600 := by
  rw [isPrimeB_iff] at h; exact h.1.2

/-! ## the rows of Table 2 -/

/-- everything the property says about one Table-2 row -/
def rowOk (i : Nat) : Bool :=
  isPrimeB (S i) && isPrimeB (W i) && isPrimeB (P1 i)
    && decide (W i ≤ L i) && decide (P i ≤ P1 i)
    && (List.range (P1 i - P i)).all (fun d => !isPrimeB (P i + d))   -- P1 is the least prime ≥ P
    && decide (S i < W i)                                               -- B = W - S ≥ 1
    && decide (2 ≤ H i) && decide (H i ≤ P i)
    && decide (L i < 65536) && decide (17 ≤ W i) && decide (W i ≤ K' i + S i)
    && decide (tb32 Gen.p1K i = K' i)                                   -- the P1 table has the same keys
    && decide (J i < 1024)
    && (decide (i + 1 = 477) || decide (K' i < K' (i + 1)))             -- strictly increasing

/-- rows a, a+1, …, a+n-1 are fine -/
def rowsOk (a n : Nat) : Bool := (List.range' a n).all rowOk

/-- chunk c = rows 12c … 12c+11 (the last one stops at row 476). The kernel evaluates each chunk
in well under a second, while one evaluation of all 477 rows is super-linearly slower (memory);
the chunks are also checked in parallel. -/
def chunkOk (c : Nat) : Bool := rowsOk (12 * c) (min 12 (477 - 12 * c))

theorem chunk_0 : chunkOk 0 = true := by decide +kernel
theorem chunk_1 : chunkOk 1 = true := by decide +kernel
theorem chunk_2 : chunkOk 2 = true := by decide +kernel
theorem chunk_3 : chunkOk 3 = true := by decide +kernel
theorem chunk_4 : chunkOk 4 = true := by decide +kernel
theorem chunk_5 : chunkOk 5 = true := by decide +kernel
theorem chunk_6 : chunkOk 6 = true := by decide +kernel
theorem chunk_7 : chunkOk 7 = true := by decide +kernel
theorem chunk_8 : chunkOk 8 = true := by decide +kernel
theorem chunk_9 : chunkOk 9 = true := by decide +kernel
theorem chunk_10 : chunkOk 10 = true := by decide +kernel
theorem chunk_11 : chunkOk 11 = true := by decide +kernel
theorem chunk_12 : chunkOk 12 = true := by decide +kernel
theorem chunk_13 : chunkOk 13 = true := by decide +kernel
theorem chunk_14 : chunkOk 14 = true := by decide +kernel
theorem chunk_15 : chunkOk 15 = true := by decide +kernel
theorem chunk_16 : chunkOk 16 = true := by decide +kernel
theorem chunk_17 : chunkOk 17 = true := by decide +kernel
theorem chunk_18 : chunkOk 18 = true := by decide +kernel
theorem chunk_19 : chunkOk 19 = true := by decide +kernel
theorem chunk_20 : chunkOk 20 = true := by decide +kernel
theorem chunk_21 : chunkOk 21 = true := by decide +kernel
theorem chunk_22 : chunkOk 22 = true := by decide +kernel
theorem chunk_23 : chunkOk 23 = true := by decide +kernel
theorem chunk_24 : chunkOk 24 = true := by decide +kernel
theorem chunk_25 : chunkOk 25 = true := by decide +kernel
theorem chunk_26 : chunkOk 26 = true := by decide +kernel
theorem chunk_27 : chunkOk 27 = true := by decide +kernel
theorem chunk_28 : chunkOk 28 = true := by decide +kernel
theorem chunk_29 : chunkOk 29 = true := by decide +kernel
theorem chunk_30 : chunkOk 30 = true := by decide +kernel
theorem chunk_31 : chunkOk 31 = true := by decide +kernel
theorem chunk_32 : chunkOk 32 = true := by decide +kernel
theorem chunk_33 : chunkOk 33 = true := by decide +kernel
theorem chunk_34 : chunkOk 34 = true := by decide +kernel
theorem chunk_35 : chunkOk 35 = true := by decide +kernel
theorem chunk_36 : chunkOk 36 = true := by decide +kernel
theorem chunk_37 : chunkOk 37 = true := by decide +kernel
theorem chunk_38 : chunkOk 38 = true := by decide +kernel
theorem chunk_39 : chunkOk 39 = true := by decide +kernel

theorem chunks_ok : ∀ c, c < 40 → chunkOk c = true
  | 0, _ => chunk_0
  | 1, _ => chunk_1
  | 2, _ => chunk_2
  | 3, _ => chunk_3
  | 4, _ => chunk_4
  | 5, _ => chunk_5
  | 6, _ => chunk_6
  | 7, _ => chunk_7
  | 8, _ => chunk_8
  | 9, _ => chunk_9
  | 10, _ => chunk_10
  | 11, _ => chunk_11
  | 12, _ => chunk_12
  | 13, _ => chunk_13
  | 14, _ => chunk_14
  | 15, _ => chunk_15
  | 16, _ => chunk_16
  | 17, _ => chunk_17
  | 18, _ => chunk_18
  | 19, _ => chunk_19
  | 20, _ => chunk_20
  | 21, _ => chunk_21
  | 22, _ => chunk_22
  | 23, _ => chunk_23
  | 24, _ => chunk_24
  | 25, _ => chunk_25
  | 26, _ => chunk_26
  | 27, _ => chunk_27
  | 28, _ => chunk_28
  | 29, _ => chunk_29
  | 30, _ => chunk_30
  | 31, _ => chunk_31
  | 32, _ => chunk_32
  | 33, _ => chunk_33
  | 34, _ => chunk_34
  | 35, _ => chunk_35
  | 36, _ => chunk_36
  | 37, _ => chunk_37
  | 38, _ => chunk_38
  | 39, _ => chunk_39
  | c + 40, h => absurd h (by omega)

theorem row_ok (i : Nat) (h : i < 477) : rowOk i = true := by
  have hc := chunks_ok (i / 12) (by omega)
  simp only [chunkOk, rowsOk, List.all_eq_true, List.mem_range'_1] at hc
  exact hc i (by omega)

def factRows : Bool := (List.range 477).all rowOk
theorem factRows_ok : factRows = true := by
  simp only [factRows, List.all_eq_true, List.mem_range]
  exact row_ok

theorem first_last : K' 0 = 10 ∧ K' 476 = 56403 ∧ maxK = 56403 := by decide +kernel

/-- the two rows at which the pinned `rand` overflowed -/
theorem defect_rows : (K' 117 = 977 ∧ K' 118 = 989 ∧ W 118 = 1009 ∧ J 118 = 691 ∧ P1 118 = 53)
    ∧ (K' 174 = 2152 ∧ K' 175 = 2195 ∧ W 175 = 2221 ∧ J 175 = 858 ∧ P1 175 = 79) := by
  decide +kernel

/-- the content of `rowOk` as propositions -/
theorem row_props (i : Nat) (h : i < 477) :
    Nat.Prime (S i) ∧ Nat.Prime (W i) ∧ Nat.Prime (P1 i) ∧ W i ≤ L i ∧ P i ≤ P1 i
      ∧ (∀ q, P i ≤ q → q < P1 i → ¬ Nat.Prime q)
      ∧ S i < W i ∧ 2 ≤ H i ∧ H i ≤ P i ∧ L i < 65536 ∧ 17 ≤ W i ∧ W i ≤ K' i + S i
      ∧ tb32 Gen.p1K i = K' i ∧ J i < 1024 ∧ (i + 1 = 477 ∨ K' i < K' (i + 1)) ∧ P1 i < 57600 := by
  have := row_ok i h
  simp only [rowOk, Bool.and_eq_true, decide_eq_true_eq, List.all_eq_true, List.mem_range,
    Bool.or_eq_true, Bool.not_eq_true'] at this
  obtain ⟨⟨⟨⟨⟨⟨⟨⟨⟨⟨⟨⟨⟨⟨hS, hW⟩, hP1⟩, hWL⟩, hPP1⟩, hleast⟩, hSW⟩, hH⟩, hHP⟩, hL⟩, hW17⟩, hWK⟩, hpk⟩, hJ⟩, hinc⟩ := this
  refine ⟨isPrimeB_prime _ hS, isPrimeB_prime _ hW, isPrimeB_prime _ hP1, hWL, hPP1, ?_, hSW, hH, hHP,
    hL, hW17, hWK, hpk, hJ, hinc, isPrimeB_lt _ hP1⟩
  intro q hq1 hq2 hq
  have h1 := hleast (q - P i) (by omega)
  rw [show P i + (q - P i) = q by omega] at h1
  have h2 := prime_isPrimeB q hq (by have := isPrimeB_lt _ hP1; omega)
  rw [h1] at h2; exact Bool.noConfusion h2

theorem K'_mono (i j : Nat) (hij : i ≤ j) (hj : j < 477) : K' i ≤ K' j := by
  induction j with
  | zero => have : i = 0 := by omega
            subst this; exact Nat.le_refl _
  | succ j ih =>
    rcases Nat.eq_or_lt_of_le hij with h | h
    · subst h; exact Nat.le_refl _
    · have h1 := ih (by omega) (by omega)
      obtain ⟨_, _, _, _, _, _, _, _, _, _, _, _, _, _, hinc, _⟩ := row_props j (by omega)
      rcases hinc with hinc | hinc
      · omega
      · omega

theorem tget_t2K (i : Nat) (h : i < 477) : tget t2KA i = K' i := tget_mkArr32 _ _ _ h
theorem tget_t2J (i : Nat) (h : i < 477) : tget t2JA i = J i := tget_mkArr32 _ _ _ h
theorem tget_t2S (i : Nat) (h : i < 477) : tget t2SA i = S i := tget_mkArr32 _ _ _ h
theorem tget_t2H (i : Nat) (h : i < 477) : tget t2HA i = H i := tget_mkArr32 _ _ _ h
theorem tget_t2W (i : Nat) (h : i < 477) : tget t2WA i = W i := tget_mkArr32 _ _ _ h
theorem tget_p1V (i : Nat) (h : i < 477) : tget p1VA i = P1 i := tget_mkArr32 _ _ _ h
theorem tget_p1K (i : Nat) (h : i < 477) : tget p1KA i = K' i := by
  rw [show p1KA = mkArr32 Gen.p1K 477 from rfl, tget_mkArr32 _ _ _ h]
  exact (row_props i h).2.2.2.2.2.2.2.2.2.2.2.2.1

theorem find?_congr' {α : Type} (p q : α → Bool) (l : List α) (h : ∀ a ∈ l, p a = q a) :
    l.find? p = l.find? q := by
  induction l with
  | nil => rfl
  | cons a l ih =>
    simp only [List.find?_cons, h a (List.mem_cons_self ..)]
    rw [ih (fun b hb => h b (List.mem_cons_of_mem _ hb))]

theorem maxK_eq : maxK = 56403 := rfl

theorem rowOf_iff (k i : Nat) : rowOf k = some i ↔
    k ≤ 56403 ∧ i < 477 ∧ k ≤ K' i ∧ ∀ j, j < i → K' j < k := by
  unfold rowOf
  rw [maxK_eq]
  by_cases hk : k ≤ 56403
  · rw [if_pos hk, List.find?_range_eq_some]
    constructor
    · rintro ⟨h1, h2, h3⟩
      have hi : i < 477 := List.mem_range.mp h2
      refine ⟨hk, hi, ?_, ?_⟩
      · rw [tget_t2K i hi] at h1; simpa using h1
      · intro j hj
        have := h3 j hj
        rw [tget_t2K j (by omega)] at this
        simpa using this
    · rintro ⟨_, hi, h1, h3⟩
      refine ⟨?_, List.mem_range.mpr hi, ?_⟩
      · rw [tget_t2K i hi]; simpa using h1
      · intro j hj
        rw [tget_t2K j (by omega)]
        simpa using h3 j hj
  · rw [if_neg hk]
    constructor
    · intro h; cases h
    · intro h; exact absurd h.1 hk

theorem calcP1_row (k i : Nat) (h : rowOf k = some i) : calcP1 k = some (P1 i) := by
  have hs := (rowOf_iff k i).mp h
  unfold calcP1
  unfold rowOf at h
  rw [maxK_eq] at *
  rw [if_pos hs.1] at h ⊢
  rw [find?_congr' (fun i => decide (tget p1KA i ≥ k)) (fun i => decide (tget t2KA i ≥ k)), h]
  · simp only [Option.map_some, tget_p1V i hs.2.1]
  · intro a ha
    have ha := List.mem_range.mp ha
    simp only [tget_p1K a ha, tget_t2K a ha]

/-! ## the degree table -/

/-- the degree table: f[0] = 0 < f[1] < … < f[30] = 2^20 -/
def factDeg : Bool :=
  tb32 Gen.degP 0 == 0 && tb32 Gen.degP 30 == 1048576 &&
    (List.range 30).all fun d => decide (tb32 Gen.degP d < tb32 Gen.degP (d + 1))
theorem factDeg_ok : factDeg = true := by decide +kernel

theorem deg_tab : tb32 Gen.degP 0 = 0 ∧ tb32 Gen.degP 30 = 1048576 := by
  have := factDeg_ok
  simp only [factDeg, Bool.and_eq_true, beq_iff_eq] at this
  exact ⟨this.1.1, this.1.2⟩

theorem tget_deg (i : Nat) (h : i < 31) : tget degA i = tb32 Gen.degP i := tget_mkArr32 _ _ _ h

theorem tget_v0 (i : Nat) (h : i < 256) : tget v0A i = tb32 Gen.v0P i := tget_mkArr32 _ _ _ h
theorem tget_v1 (i : Nat) (h : i < 256) : tget v1A i = tb32 Gen.v1P i := tget_mkArr32 _ _ _ h
theorem tget_v2 (i : Nat) (h : i < 256) : tget v2A i = tb32 Gen.v2P i := tget_mkArr32 _ _ _ h
theorem tget_v3 (i : Nat) (h : i < 256) : tget v3A i = tb32 Gen.v3P i := tget_mkArr32 _ _ _ h

/-! ## `intermediate_tuple` without its `let`s -/

/-- `y` of `intermediate_tuple` -/
def tupA (j : Nat) : Nat := if (53591 + j * 997) % 2 = 0 then 53591 + j * 997 + 1 else 53591 + j * 997
def tupY (x j : Nat) : Nat := (10267 * (j + 1) + x * tupA j) % 4294967296

theorem tupA_lt (j : Nat) (hj : j < 1024) : tupA j < 4294967296 := by
  unfold tupA; split <;> omega

theorem tupleWith_unfold (rnd : Nat → Nat → Nat → Option Nat) (x w j p1 : Nat) :
    tupleWith rnd x w j p1 =
      if tupA j ≥ 4294967296 ∨ 10267 * (j + 1) ≥ 4294967296 ∨ w = 0 ∨ p1 = 0 then none else
      match rnd (tupY x j) 0 1048576 with
      | none => none
      | some v =>
      match deg v w, rnd (tupY x j) 1 (w - 1), rnd (tupY x j) 2 w with
      | some d, some ra, some b =>
        match (if d < 4 then (rnd x 3 2).map (2 + ·) else some 2), rnd x 4 (p1 - 1), rnd x 5 p1 with
        | some d1, some ra1, some b1 => some { d, a := 1 + ra, b, d1, a1 := 1 + ra1, b1 }
        | _, _, _ => none
      | _, _, _ => none := rfl

/-! ## the walks of `enc_indices` -/

/-- if step n of the walk lands below p, the loop stops with fuel > n -/
theorem skipPi_of_hit (a1 p p1 : Nat) :
    ∀ n b fuel, n < fuel → (b + n * a1) % p1 < p → b < p1 →
      ∃ r, skipPi fuel b a1 p p1 = some r ∧ r < p := by
  intro n
  induction n with
  | zero =>
    intro b fuel hf hhit hb
    obtain ⟨f, rfl⟩ : ∃ f, fuel = f + 1 := ⟨fuel - 1, by omega⟩
    rw [Nat.zero_mul, Nat.add_zero, Nat.mod_eq_of_lt hb] at hhit
    exact ⟨b, by unfold skipPi; rw [if_neg (by omega)], hhit⟩
  | succ n ih =>
    intro b fuel hf hhit hb
    obtain ⟨f, rfl⟩ : ∃ f, fuel = f + 1 := ⟨fuel - 1, by omega⟩
    unfold skipPi
    by_cases hbp : b ≥ p
    · rw [if_pos hbp]
      have hp1 : 0 < p1 := by omega
      apply ih _ f (by omega) _ (Nat.mod_lt _ hp1)
      rw [Nat.mod_add_mod]
      rw [show b + a1 + n * a1 = b + (n + 1) * a1 by rw [Nat.succ_mul]; omega]
      exact hhit
    · rw [if_neg hbp]; exact ⟨b, rfl, by omega⟩

/-- some step n < p1 of the walk b1, b1+a1, … (mod p1) hits residue 0: a1 is invertible mod p1 -/
theorem exists_hit (b1 a1 p1 : Nat) (hp1 : Nat.Prime p1) (ha : 1 ≤ a1) (ha' : a1 < p1) :
    ∃ n, n < p1 ∧ (b1 + n * a1) % p1 = 0 := by
  have : Fact p1.Prime := ⟨hp1⟩
  refine ⟨((-(b1 : ZMod p1)) * (a1 : ZMod p1)⁻¹).val, ZMod.val_lt _, ?_⟩
  apply Nat.mod_eq_zero_of_dvd
  rw [← ZMod.natCast_eq_zero_iff]
  push_cast
  have hcop : Nat.Coprime a1 p1 :=
    ((Nat.Prime.coprime_iff_not_dvd hp1).mpr (Nat.not_dvd_of_pos_of_lt (by omega) ha')).symm
  have hinv : ((a1 : ZMod p1))⁻¹ * (a1 : ZMod p1) = 1 := by
    rw [mul_comm]; exact ZMod.coe_mul_inv_eq_one a1 hcop
  rw [ZMod.natCast_val, ZMod.cast_id', id, mul_assoc, hinv, mul_one, add_neg_cancel]

theorem skipPi_total (b1 a1 p p1 : Nat) (hp1 : Nat.Prime p1) (ha : 1 ≤ a1) (ha' : a1 < p1)
    (hb : b1 < p1) (hp : 1 ≤ p) :
    ∃ r, skipPi (p1 + 1) b1 a1 p p1 = some r ∧ r < p := by
  obtain ⟨n, hn, hhit⟩ := exists_hit b1 a1 p1 hp1 ha ha'
  exact skipPi_of_hit a1 p p1 n b1 (p1 + 1) (by omega) (by omega) hb

theorem ltWalk_lt (a w : Nat) (hw : 0 < w) : ∀ d b, b < w → ∀ i ∈ ltWalk d a b w, i < w := by
  intro d
  induction d with
  | zero => intro b _ i hi; simp [ltWalk] at hi
  | succ d ih =>
    intro b hb i hi
    simp only [ltWalk, List.mem_cons] at hi
    rcases hi with rfl | hi
    · exact hb
    · exact ih _ (Nat.mod_lt _ hw) i hi

theorem piWalk_wf (a1 p p1 w : Nat) (hp1 : Nat.Prime p1) (ha : 1 ≤ a1) (ha' : a1 < p1) (hp : 1 ≤ p) :
    ∀ n b1, ∃ l, piWalk n b1 a1 p p1 w = some l ∧ ∀ i ∈ l, i < w + p := by
  intro n
  induction n with
  | zero => intro b1; exact ⟨[], rfl, by simp⟩
  | succ n ih =>
    intro b1
    obtain ⟨r, hr, hrp⟩ := skipPi_total ((b1 + a1) % p1) a1 p p1 hp1 ha ha'
      (Nat.mod_lt _ hp1.pos) hp
    obtain ⟨l, hl, hlp⟩ := ih r
    refine ⟨(w + r) :: l, ?_, ?_⟩
    · simp only [piWalk, hr, hl, Option.map_some]
    · intro i hi
      rcases List.mem_cons.mp hi with rfl | hi
      · omega
      · exact hlp i hi

end Rq.C15
