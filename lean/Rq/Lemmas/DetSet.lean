import Rq.Lemmas.EncEval
/-!
`Determined` depends only on the *set* of internal symbol ids whose rows the system holds:
more rows keep a system determined, a permutation of the rows changes nothing.
-/
namespace Rq

theorem DetF_mono (l : Nat) (Φ Φ' : List ((Nat → Nat) → Nat)) (hsub : ∀ φ ∈ Φ, φ ∈ Φ') (h : DetF l Φ) :
    DetF l Φ' :=
  fun v hv hz hφ i hi => h v hv hz (fun φ hm => hφ φ (hsub φ hm)) i hi

/-- if every received symbol id of `isis` is also in `isis'`, the system of `isis'` is determined
as soon as that of `isis` is -/
theorem determined_subset (sp : SysParams) (isis isis' : List Nat) (a a' : System)
    (ha : fullSystem sp isis = some a) (ha' : fullSystem sp isis' = some a')
    (hsub : ∀ i ∈ isis, i ∈ isis') : Determined a → Determined a' := by
  obtain ⟨L, Hd, hL, hH, _, _, rfl⟩ := fullSystem_inv _ _ _ ha
  obtain ⟨L', Hd', hL', hH', _, _, rfl⟩ := fullSystem_inv _ _ _ ha'
  rw [hL] at hL'; cases hL'
  rw [hH] at hH'; cases hH'
  have sizeL := ldpcRows_size _ _ hL
  rw [determined_iff, determined_iff]
  apply DetF_mono
  intro φ hφ
  rw [mkSys_funs _ _ _ _ sizeL] at hφ ⊢
  rcases List.mem_append.mp hφ with h1 | h1
  · exact List.mem_append_left _ h1
  · apply List.mem_append_right
    obtain ⟨i, hi, rfl⟩ := List.mem_map.mp h1
    exact List.mem_map.mpr ⟨i, hsub i hi, rfl⟩

end Rq
