import Rq.Lemmas.GJOracle
import Rq.Lemmas.Square
/-!
Left inverses as rank certificates. The rows of a `System` are inner products with explicit
coefficient functions (`System.coef`); if a byte matrix `B` satisfies `B · A = I` over GF(256)
(a Boolean check on packed tables, evaluated by the kernel through `gmulP`), the system is
`Determined`: for `z` annihilated by every row, `z_i = Σ_r B[i][r] · (row_r · z) = 0`.
-/
namespace Rq

/-! ## algebra of xor-sums -/

theorem xs_swap (m l : Nat) (g : Nat → Nat → Nat) :
    xs m (fun r => xs l (fun j => g r j)) = xs l (fun j => xs m (fun r => g r j)) := by
  induction m with
  | zero =>
    simp only [xs_zero]
    exact (xs_eq_zero l _ (fun _ _ => rfl)).symm
  | succ m ih =>
    rw [xs_succ, ih, ← xs_xor]
    apply xs_congr
    intro j _
    rw [xs_succ]

theorem xs_gmul_right (n f : Nat) (g : Nat → Nat) (hf : f < 256) (hg : ∀ j, j < n → g j < 256) :
    xs n (fun j => gmulP (g j) f) = gmulP (xs n g) f := by
  rw [gmulP_comm, ← xs_gmul n f g hf hg]
  apply xs_congr
  intro j _
  exact gmulP_comm _ _

/-- entry (i, j) of the product `B · A` (inner dimension `m`) -/
def prodEnt (m : Nat) (Bf Af : Nat → Nat → Nat) (i j : Nat) : Nat := xs m (fun r => gmulP (Bf i r) (Af r j))

/-- **a left inverse forces the kernel to be trivial** (functions as matrices) -/
theorem detF_of_leftInv (l : Nat) (Φ : List ((Nat → Nat) → Nat)) (Af Bf : Nat → Nat → Nat)
    (hA : ∀ r j, Af r j < 256) (hB : ∀ i r, Bf i r < 256)
    (hΦ : ∀ r (hr : r < Φ.length) (v : Nat → Nat), (∀ j, v j < 256) → Φ[r] v = dot l (Af r) v)
    (hinv : ∀ i, i < l → ∀ j, j < l → prodEnt Φ.length Bf Af i j = if i = j then 1 else 0) : DetF l Φ := by
  intro v hv _ hφ i hi
  have h0 : xs Φ.length (fun r => gmulP (Bf i r) (dot l (Af r) v)) = 0 := by
    apply xs_eq_zero
    intro r hr
    rw [← hΦ r hr v hv, hφ _ (List.getElem_mem hr), gmulP_zero_right]
  have h1 : xs Φ.length (fun r => gmulP (Bf i r) (dot l (Af r) v)) =
      xs Φ.length (fun r => xs l (fun j => gmulP (gmulP (Bf i r) (Af r j)) (v j))) := by
    apply xs_congr
    intro r _
    unfold dot
    rw [← xs_gmul l (Bf i r) _ (hB i r) (fun j _ => gmulP_lt _ _)]
    apply xs_congr
    intro j _
    rw [gmulP_assoc _ _ _ (hB i r) (hA r j) (hv j)]
  have h2 : xs l (fun j => xs Φ.length (fun r => gmulP (gmulP (Bf i r) (Af r j)) (v j))) = v i := by
    have e : ∀ j, j < l → xs Φ.length (fun r => gmulP (gmulP (Bf i r) (Af r j)) (v j)) =
        gmulP (if i = j then 1 else 0) (v j) := by
      intro j hj
      rw [xs_gmul_right Φ.length (v j) (fun r => gmulP (Bf i r) (Af r j)) (hv j) (fun r _ => gmulP_lt _ _)]
      have := hinv i hi j hj
      unfold prodEnt at this
      rw [this]
    rw [xs_congr l _ _ e, xs_single l _ i hi]
    · rw [if_pos rfl, gmulP_one_left _ (hv i)]
    · intro j _ hne
      rw [if_neg (fun h => hne h.symm), gmulP_zero_left]
  rw [← h2, ← xs_swap, ← h1, h0]

/-! ## the coefficient functions of a system -/

/-- coefficients of a binary row -/
def binCoef (cols : List Nat) (j : Nat) : Nat := if cols.contains j then 1 else 0

/-- coefficients of a dense row -/
def denseCoef (row : Array Nat) (j : Nat) : Nat := row.toList.getD j 0

/-- the coefficient functions in the row order of `System.apply` -/
def System.coefs (a : System) : List (Nat → Nat) :=
  (a.bin.toList.map binCoef).take a.nLdpc ++ a.hdpc.toList.map denseCoef ++ (a.bin.toList.map binCoef).drop a.nLdpc

/-- entry (r, j) of the matrix of a system -/
def System.coef (a : System) (r j : Nat) : Nat := (a.coefs.getD r (fun _ => 0)) j

/-- a coefficient function represents a functional -/
def CoefRel (l : Nat) (c : Nat → Nat) (φ : (Nat → Nat) → Nat) : Prop :=
  (∀ j, c j < 256) ∧ ∀ v : Nat → Nat, (∀ j, v j < 256) → φ v = dot l c v

theorem binCoef_lt (cols : List Nat) (j : Nat) : binCoef cols j < 256 := by
  unfold binCoef; split <;> decide

theorem denseCoef_eq (row : Array Nat) (j : Nat) : denseCoef row j = row.getD j 0 := by
  unfold denseCoef
  by_cases hj : j < row.size
  · simp [Array.getD, hj, List.getD_eq_getElem?_getD]
  · simp [Array.getD, hj, List.getD_eq_getElem?_getD]

theorem rowBin_coef (l : Nat) (cols : List Nat) (hnd : cols.Nodup) (hlt : ∀ j ∈ cols, j < l) (v : Nat → Nat)
    (hv : ∀ j, v j < 256) : rowBin cols v = dot l (binCoef cols) v := by
  rw [rowBin_eq_xs l cols hnd hlt v]
  unfold dot binCoef
  apply xs_congr
  intro j _
  by_cases h : j ∈ cols
  · rw [if_pos h, if_pos (List.contains_iff_mem.mpr h), gmulP_one_left _ (hv j)]
  · rw [if_neg h, if_neg (fun hc => h (List.contains_iff_mem.mp hc)), gmulP_zero_left]

theorem rowDense_coef (l : Nat) (row : Array Nat) (hsz : row.size = l) (hb : ∀ x ∈ row.toList, x < 256)
    (v : Nat → Nat) (hv : ∀ j, v j < 256) : rowDense row v = dot l (denseCoef row) v := by
  have e : rowDense row v = xs row.size (fun j => denseTerm_d (row.getD j 0) (v j)) := rfl
  rw [e, hsz]
  unfold dot
  apply xs_congr
  intro j _
  rw [denseCoef_eq]
  exact denseTerm_eq_gmulP _ _ (getD_lt_of_bytes row hb j) (hv j)

theorem coefs_rel (a : System) (hw : WfSys a) : List.Forall₂ (CoefRel a.l) a.coefs a.funs := by
  unfold System.coefs System.funs
  have hbin : List.Forall₂ (CoefRel a.l) (a.bin.toList.map binCoef) (a.bin.toList.map rowBin) := by
    rw [List.forall₂_map_left_iff, List.forall₂_map_right_iff, List.forall₂_same]
    intro cols hc
    exact ⟨binCoef_lt cols, fun v hv => rowBin_coef a.l cols (hw.bin_nodup cols hc) (hw.bin_lt cols hc) v hv⟩
  have hh : List.Forall₂ (CoefRel a.l) (a.hdpc.toList.map denseCoef) (a.hdpc.toList.map rowDense) := by
    rw [List.forall₂_map_left_iff, List.forall₂_map_right_iff, List.forall₂_same]
    intro row hr
    obtain ⟨h1, h2⟩ := hw.hdpc_wf row hr
    exact ⟨fun j => by rw [denseCoef_eq]; exact getD_lt_of_bytes row h2 j,
      fun v hv => rowDense_coef a.l row h1 h2 v hv⟩
  exact List.rel_append (List.rel_append (List.forall₂_take _ hbin) hh) (List.forall₂_drop _ hbin)

theorem funs_coef (a : System) (hw : WfSys a) (r : Nat) (hr : r < a.funs.length) (v : Nat → Nat)
    (hv : ∀ j, v j < 256) : a.funs[r] v = dot a.l (a.coef r) v := by
  have hrel := coefs_rel a hw
  have h1 : r < a.coefs.length := by rw [hrel.length_eq]; exact hr
  have := (hrel.get h1 hr).2 v hv
  unfold System.coef
  rw [List.getD_eq_getElem?_getD, List.getElem?_eq_getElem h1, Option.getD_some]
  exact this

/-! ## the Boolean checks (kernel evaluation on packed tables) -/

/-- the packed table `AP` (row width `l`) holds the matrix of the system -/
def checkCoef (a : System) (AP : Nat) : Bool :=
  (List.range a.rows).all fun r => (List.range a.l).all fun j => a.coef r j == tb8 AP (r * a.l + j)

/-- rows `lo .. lo+n-1` of `BP · AP` are rows of the identity (`l × m` times `m × l`) -/
def checkInvRows (l m AP BP lo n : Nat) : Bool :=
  (List.range n).all fun i => (List.range l).all fun j =>
    prodEnt m (fun i r => tb8 BP (i * m + r)) (fun r j => tb8 AP (r * l + j)) (lo + i) j ==
      if lo + i = j then 1 else 0

theorem checkInvRows_spec (l m AP BP lo n : Nat) (h : checkInvRows l m AP BP lo n = true) (i : Nat)
    (hlo : lo ≤ i) (hi : i < lo + n) (j : Nat) (hj : j < l) :
    prodEnt m (fun i r => tb8 BP (i * m + r)) (fun r j => tb8 AP (r * l + j)) i j = if i = j then 1 else 0 := by
  simp only [checkInvRows, List.all_eq_true, List.mem_range, beq_iff_eq] at h
  have := h (i - lo) (by omega) j hj
  rwa [show lo + (i - lo) = i by omega] at this

/-- **a checked left inverse certifies `Determined`** -/
theorem leftInverse_determined (a : System) (hw : WfSys a) (AP BP : Nat) (hA : checkCoef a AP = true)
    (hinv : ∀ i, i < a.l → ∀ j, j < a.l →
      prodEnt a.rows (fun i r => tb8 BP (i * a.rows + r)) (fun r j => tb8 AP (r * a.l + j)) i j =
        if i = j then 1 else 0) : Determined a := by
  rw [determined_iff]
  have hlen := funs_length a
  simp only [checkCoef, List.all_eq_true, List.mem_range, beq_iff_eq] at hA
  -- the matrix of the system, read from the packed table inside the range of the columns
  apply detF_of_leftInv a.l a.funs (fun r j => tb8 AP (r * a.l + j)) (fun i r => tb8 BP (i * a.rows + r))
    (fun _ _ => tb8_lt _ _) (fun _ _ => tb8_lt _ _)
  · intro r hr v hv
    rw [funs_coef a hw r hr v hv]
    apply dot_congr
    · intro j hj
      exact hA r (by rw [← hlen]; exact hr) j hj
    · intro _ _; rfl
  · rw [hlen]; exact hinv

end Rq
