import Rq.Lemmas.Arith
import Rq.Model.Layout
import Rq.Model.Codec
/-! Helper lemmas for C05: partition, block ranges, symbol layout and its inverse. -/
namespace Rq

/-! ## Partition -/

theorem partition_eq (i j : Nat) (hi : i < 2 ^ 32) (hj : 0 < j) :
    partition i j = some (ceilDiv i j, i / j, i % j, j - i % j) := by
  have hle : ceilDiv i j ≤ i := by
    rw [ceilDiv_le_iff i j i hj]; exact Nat.le_mul_of_pos_right _ hj
  unfold partition
  rw [intDivCeil_of_lt i j hj (by unfold U32; omega)]
  simp only []
  have : i - i / j * j = i % j := by
    have := Nat.div_add_mod i j
    rw [Nat.mul_comm] at this
    omega
  rw [this]

theorem partition_laws (i j : Nat) (hj : 0 < j) :
    i % j + (j - i % j) = j ∧ ceilDiv i j * (i % j) + i / j * (j - i % j) = i ∧
      ceilDiv i j - i / j ≤ 1 ∧ i / j ≤ ceilDiv i j ∧ i % j < j ∧ (i % j = 0 → ceilDiv i j = i / j) := by
  have hr := Nat.mod_lt i hj
  have hdm := Nat.div_add_mod i j
  rw [ceilDiv_eq i j hj]
  by_cases h0 : i % j = 0
  · rw [if_pos h0, h0]
    refine ⟨by omega, ?_, by omega, by omega, by omega, fun _ => rfl⟩
    rw [Nat.mul_zero, Nat.zero_add, Nat.sub_zero, Nat.mul_comm]; omega
  · rw [if_neg h0]
    refine ⟨by omega, ?_, by omega, by omega, by omega, fun h => absurd h h0⟩
    rw [Nat.mul_sub, Nat.add_mul, Nat.one_mul, Nat.mul_comm (i / j) j]
    have : i / j * (i % j) ≤ j * (i / j) := by
      rw [Nat.mul_comm j]; exact Nat.mul_le_mul_left _ (by omega)
    omega

/-! ## Block ranges -/

/-- start of block `b` (= end of block `b - 1`): ZL long blocks then short ones -/
def blkBnd (kl ks zl t b : Nat) : Nat := min b zl * (kl * t) + (b - zl) * (ks * t)

theorem blkBnd_zero (kl ks zl t : Nat) : blkBnd kl ks zl t 0 = 0 := by
  simp [blkBnd]

theorem blkBnd_mono (kl ks zl t b : Nat) : blkBnd kl ks zl t b ≤ blkBnd kl ks zl t (b + 1) := by
  unfold blkBnd
  exact Nat.add_le_add (Nat.mul_le_mul_right _ (by omega)) (Nat.mul_le_mul_right _ (by omega))

theorem blkBnd_lt (kl ks zl t b : Nat) (h : b < zl) :
    blkBnd kl ks zl t b = b * (kl * t) ∧ blkBnd kl ks zl t (b + 1) = (b + 1) * (kl * t) := by
  unfold blkBnd
  rw [Nat.min_eq_left (by omega), Nat.min_eq_left (by omega), Nat.sub_eq_zero_of_le (by omega),
    Nat.sub_eq_zero_of_le (by omega)]
  simp

theorem blkBnd_ge (kl ks zl t b : Nat) (h : zl ≤ b) :
    blkBnd kl ks zl t b = zl * (kl * t) + (b - zl) * (ks * t) ∧
      blkBnd kl ks zl t (b + 1) = zl * (kl * t) + (b - zl + 1) * (ks * t) := by
  unfold blkBnd
  rw [Nat.min_eq_right (by omega), Nat.min_eq_right (by omega),
    show b + 1 - zl = b - zl + 1 by omega]
  exact ⟨rfl, rfl⟩

theorem blkBnd_last (kl ks zl zs t kt : Nat) (h : kl * zl + ks * zs = kt) :
    blkBnd kl ks zl t (zl + zs) = kt * t := by
  unfold blkBnd
  rw [Nat.min_eq_right (by omega), Nat.add_sub_cancel_left, ← h, Nat.add_mul, Nat.mul_assoc,
    Nat.mul_assoc, Nat.mul_left_comm zl, Nat.mul_left_comm zs]

theorem ceilDiv_mul_ge (f t : Nat) (ht : 0 < t) : f ≤ ceilDiv f t * t :=
  (ceilDiv_le_iff f t _ ht).1 (Nat.le_refl _)

theorem ceilDiv_mul_lt (f t : Nat) (ht : 0 < t) : ceilDiv f t * t - f < t := by
  rw [ceilDiv_eq f t ht]
  have := Nat.div_add_mod f t
  have hr := Nat.mod_lt f ht
  rw [Nat.mul_comm] at this
  split
  · omega
  · rw [Nat.add_mul]; omega

theorem blockOffsets_eq (o : Oti) (ht : 0 < o.t) (hz : 0 < o.z) (hkt : ceilDiv o.f o.t < 2 ^ 32) :
    blockOffsets o.f o = some ((List.range o.z).map fun b =>
      (blkBnd (ceilDiv (ceilDiv o.f o.t) o.z) (ceilDiv o.f o.t / o.z) (ceilDiv o.f o.t % o.z) o.t b,
       blkBnd (ceilDiv (ceilDiv o.f o.t) o.z) (ceilDiv o.f o.t / o.z) (ceilDiv o.f o.t % o.z) o.t
         (b + 1))) := by
  unfold blockOffsets
  rw [intDivCeil_of_lt o.f o.t ht (by unfold U32; omega)]
  simp only []
  rw [partition_eq _ _ hkt hz]
  simp only []
  obtain ⟨h1, h2, h3, h4, h5, h6⟩ := partition_laws (ceilDiv o.f o.t) o.z hz
  have hge := ceilDiv_mul_ge o.f o.t ht
  generalize ceilDiv o.f o.t = kt at *
  generalize ceilDiv kt o.z = kl at *
  generalize kt / o.z = ks at *
  generalize kt % o.z = zl at *
  generalize hzs : o.z - zl = zs at *
  have hlast := blkBnd_last kl ks zl zs o.t kt h2
  rw [if_neg]
  · rw [← h1, List.range_add, List.map_append, List.map_map]
    congr 2
    · apply List.map_congr_left
      intro b hb
      rw [List.mem_range] at hb
      obtain ⟨e1, e2⟩ := blkBnd_lt kl ks zl o.t b hb
      rw [e1, e2]
    · apply List.map_congr_left
      intro b hb
      obtain ⟨e1, e2⟩ := blkBnd_ge kl ks zl o.t (zl + b) (by omega)
      simp only [Function.comp]
      show _ = (blkBnd kl ks zl o.t (zl + b), blkBnd kl ks zl o.t (zl + b + 1))
      rw [e1, e2, Nat.add_sub_cancel_left]
  · intro ⟨hany, hnot⟩
    have hf : kt * o.t = o.f := by omega
    rw [List.any_eq_true] at hany
    obtain ⟨⟨s, e⟩, hmem, hgt⟩ := hany
    rw [List.mem_map] at hmem
    obtain ⟨i, hi, hie⟩ := hmem
    rw [List.mem_range] at hi
    have he : e = zl * (kl * o.t) + (i + 1) * (ks * o.t) := by
      have := congrArg Prod.snd hie; simpa using this.symm
    have hb : zl * (kl * o.t) + (i + 1) * (ks * o.t) ≤ blkBnd kl ks zl o.t (zl + zs) := by
      unfold blkBnd
      rw [Nat.min_eq_right (by omega), Nat.add_sub_cancel_left]
      exact Nat.add_le_add_left (Nat.mul_le_mul_right _ (by omega)) _
    simp only [decide_eq_true_eq] at hgt
    omega

/-! ## Blocks cover the padded object -/

theorem mapM_option_eq_some {α β : Type} (f : α → Option β) (g : α → β) (l : List α)
    (h : ∀ x, x ∈ l → f x = some (g x)) : l.mapM f = some (l.map g) := by
  induction l with
  | nil => rfl
  | cons a l ih =>
    rw [List.mapM_cons, h a (List.mem_cons_self ..), ih (fun x hx => h x (List.mem_cons_of_mem _ hx))]
    rfl

theorem mono_of_step (bnd : Nat → Nat) (hmono : ∀ b, bnd b ≤ bnd (b + 1)) (i j : Nat) (hij : i ≤ j) :
    bnd i ≤ bnd j := by
  induction j with
  | zero => have : i = 0 := by omega
            subst this; exact Nat.le_refl _
  | succ j ih =>
    by_cases h : i = j + 1
    · subst h; exact Nat.le_refl _
    · exact Nat.le_trans (ih (by omega)) (hmono j)

/-- consecutive chunks of a list concatenate to a prefix -/
theorem flatten_chunks {α : Type} (L : List α) (bnd : Nat → Nat) (h0 : bnd 0 = 0)
    (hmono : ∀ b, bnd b ≤ bnd (b + 1)) (z : Nat) :
    ((List.range z).map fun b => (L.drop (bnd b)).take (bnd (b + 1) - bnd b)).flatten =
      L.take (bnd z) := by
  induction z with
  | zero => simp [h0]
  | succ z ih =>
    rw [List.range_succ, List.map_append, List.flatten_append, ih]
    simp only [List.map_cons, List.map_nil, List.flatten_cons, List.flatten_nil, List.append_nil]
    have := hmono z
    rw [← List.take_add, Nat.add_sub_cancel' this]

theorem blockBytes_eq (data : List Nat) (s e E : Nat) (hse : s ≤ e) (heE : e ≤ E)
    (hlen : data.length ≤ E) (h : e ≤ data.length ∨ (e = E ∧ s ≤ data.length)) :
    blockBytes data (s, e) =
      some (((data ++ List.replicate (E - data.length) 0).drop s).take (e - s)) := by
  unfold blockBytes
  simp only []
  by_cases hgt : e > data.length
  · have hs : s ≤ data.length := by omega
    have heq : e = E := by omega
    rw [if_pos hgt, if_neg (by omega), List.drop_append_of_le_length hs, heq]
    rw [List.take_of_length_le]
    simp; omega
  · rw [if_neg hgt]
    have hs : s ≤ data.length := by omega
    have _ := hlen
    rw [List.drop_append_of_le_length hs, List.take_append_of_le_length (by simp; omega)]

theorem blocks_cover_aux (data : List Nat) (z : Nat) (bnd : Nat → Nat) (E : Nat) (h0 : bnd 0 = 0)
    (hmono : ∀ b, bnd b ≤ bnd (b + 1)) (hz : 0 < z) (hE : bnd z = E) (hlen : data.length ≤ E)
    (hlast : bnd (z - 1) ≤ data.length) :
    ∃ blocks, ((List.range z).map fun b => (bnd b, bnd (b + 1))).mapM (blockBytes data) = some blocks ∧
      blocks.flatten = data ++ List.replicate (E - data.length) 0 ∧
      ∀ b, b < z → (blocks.getD b []).length = bnd (b + 1) - bnd b := by
  have hm := mono_of_step bnd hmono
  refine ⟨(List.range z).map fun b =>
    ((data ++ List.replicate (E - data.length) 0).drop (bnd b)).take (bnd (b + 1) - bnd b), ?_, ?_, ?_⟩
  · rw [mapM_option_eq_some (blockBytes data) (fun r : Nat × Nat =>
      ((data ++ List.replicate (E - data.length) 0).drop r.1).take (r.2 - r.1))]
    · rw [List.map_map]; rfl
    · intro ⟨s, e⟩ hmem
      rw [List.mem_map] at hmem
      obtain ⟨b, hb, hbe⟩ := hmem
      rw [List.mem_range] at hb
      cases hbe
      apply blockBytes_eq data _ _ E (hmono b) (by rw [← hE]; exact hm _ _ (by omega)) hlen
      by_cases hbl : b + 1 < z
      · left; exact Nat.le_trans (hm (b + 1) (z - 1) (by omega)) hlast
      · right
        have : b + 1 = z := by omega
        rw [this]
        refine ⟨hE, ?_⟩
        have : b = z - 1 := by omega
        rw [this]; exact hlast
  · rw [flatten_chunks _ bnd h0 hmono z, hE, List.take_of_length_le]
    simp; omega
  · intro b hb
    have h1 := hmono b
    have h2 : bnd (b + 1) ≤ E := by rw [← hE]; exact hm _ _ (by omega)
    simp [List.getD_eq_getElem?_getD, hb]
    omega

/-! ## Sub-symbol sizes -/

theorem subSizes_eq (t al n : Nat) (hal : 0 < al) (hn : 0 < n) (ht : t < 2 ^ 32) :
    subSizes t al n = some (List.replicate (t / al % n) (ceilDiv (t / al) n * al) ++
      List.replicate (n - t / al % n) (t / al / n * al)) := by
  have : t / al < 2 ^ 32 := Nat.lt_of_le_of_lt (Nat.div_le_self _ _) ht
  unfold subSizes
  rw [if_neg (by omega), partition_eq _ _ this hn]

theorem subSizes_sum (t al n : Nat) (hdiv : t % al = 0) (hn : 0 < n) :
    (List.replicate (t / al % n) (ceilDiv (t / al) n * al) ++
      List.replicate (n - t / al % n) (t / al / n * al)).sum = t := by
  obtain ⟨h1, h2, _⟩ := partition_laws (t / al) n hn
  rw [List.sum_append_nat, List.sum_replicate_nat, List.sum_replicate_nat, ← Nat.mul_assoc,
    ← Nat.mul_assoc, ← Nat.add_mul, Nat.mul_comm (t / al % n), Nat.mul_comm (n - t / al % n), h2]
  have := Nat.div_add_mod t al
  rw [Nat.mul_comm] at this
  omega

/-! ## Symbols of a block -/

/-- symbol `m` of a block of `k` symbols: for each sub-block (of `sz` bytes per symbol, starting at
`off`) the bytes `[off + m·sz, off + (m+1)·sz)` -/
def cutSym (data : List Nat) (k m : Nat) : List Nat → Nat → List Nat
  | [], _ => []
  | sz :: rest, off => (data.drop (off + m * sz)).take sz ++ cutSym data k m rest (off + k * sz)

theorem cutSym_length (data : List Nat) (k m : Nat) (hm : m < k) (sizes : List Nat) (off : Nat)
    (h : off + k * sizes.sum ≤ data.length) : (cutSym data k m sizes off).length = sizes.sum := by
  induction sizes generalizing off with
  | nil => rfl
  | cons sz rest ih =>
    rw [List.sum_cons, Nat.mul_add] at h
    have h1 : (m + 1) * sz ≤ k * sz := Nat.mul_le_mul_right _ hm
    rw [Nat.add_mul, Nat.one_mul] at h1
    unfold cutSym
    rw [List.length_append, ih (off + k * sz) (by omega), List.length_take, List.length_drop,
      List.sum_cons]
    omega

theorem createSymbols_go_eq (data : List Nat) (k : Nat) (sizes : List Nat) (off : Nat)
    (acc : List Sym) (hacc : acc.length = k) :
    createSymbols.go data k sizes off acc =
      ((List.range k).map fun m => acc.getD m [] ++ cutSym data k m sizes off,
       off + k * sizes.sum) := by
  induction sizes generalizing off acc with
  | nil =>
    unfold createSymbols.go
    simp only [cutSym, List.append_nil, List.sum_nil, Nat.mul_zero, Nat.add_zero]
    congr 1
    apply List.ext_getElem
    · simp [hacc]
    · intro i h1 h2
      simp [List.getD_eq_getElem?_getD, h1]
  | cons sz rest ih =>
    unfold createSymbols.go
    simp only []
    rw [ih]
    · rw [List.sum_cons, Nat.mul_add, Nat.add_assoc]
      congr 1
      apply List.map_congr_left
      intro m hm
      rw [List.mem_range] at hm
      have : (List.zipWith (fun m (s : Sym) => s ++ List.take sz (List.drop (off + m * sz) data))
          (List.range k) acc).getD m [] =
          acc.getD m [] ++ List.take sz (List.drop (off + m * sz) data) := by
        simp [List.getD_eq_getElem?_getD, hm, hacc]
      rw [this, List.append_assoc]
      rfl
    · simp [hacc]

/-! ## createSymbols in closed form -/

theorem subSizes_one (t al : Nat) (hal : 0 < al) (hdiv : t % al = 0) (ht : t < 2 ^ 32) :
    subSizes t al 1 = some [t] := by
  rw [subSizes_eq t al 1 hal (by omega) ht, Nat.mod_one, Nat.div_one]
  have := Nat.div_add_mod t al
  rw [Nat.mul_comm] at this
  have e : t / al * al = t := by omega
  rw [e]; rfl

theorem createSymbols_eq (t al n : Nat) (data sizes : List Nat) (ht : 0 < t) (ht' : t < 2 ^ 32)
    (hal : 0 < al) (hdiv : t % al = 0) (hn : 1 ≤ n) (hlen : data.length % t = 0)
    (hs : subSizes t al n = some sizes) (hsum : sizes.sum = t) :
    createSymbols t al n data =
      some ((List.range (data.length / t)).map fun m => cutSym data (data.length / t) m sizes 0) := by
  have hk : data.length / t * t = data.length := by
    have := Nat.div_add_mod data.length t
    rw [Nat.mul_comm] at this
    omega
  unfold createSymbols
  rw [if_neg (by omega), if_neg (by omega)]
  simp only []
  by_cases h1 : n > 1
  · rw [if_pos h1, hs]
    simp only []
    rw [createSymbols_go_eq _ _ _ _ _ (by simp)]
    simp only []
    rw [hsum, Nat.zero_add, hk, if_pos rfl]
    congr 1
    apply List.map_congr_left
    intro m hm
    rw [List.mem_range] at hm
    simp [List.getD_eq_getElem?_getD, hm]
  · rw [if_neg h1]
    have : n = 1 := by omega
    subst this
    rw [subSizes_one t al hal hdiv ht'] at hs
    cases hs
    simp [cutSym]

/-! ## The decoder's writes -/

theorem unpackWrites_go_acc (k : Nat) (sym : Sym) (m : Nat) (sizes : List Nat) (so sb : Nat)
    (acc : List (Nat × Nat)) :
    unpackWrites.go k sym m sizes so sb acc = acc ++ unpackWrites.go k sym m sizes so sb [] := by
  induction sizes generalizing so sb acc with
  | nil => simp [unpackWrites.go]
  | cons sz rest ih =>
    unfold unpackWrites.go
    simp only []
    rw [ih, ih _ _ ([] ++ _), List.nil_append, List.append_assoc]

theorem unpackWrites_go_cons (k : Nat) (sym : Sym) (m sz : Nat) (rest : List Nat) (so sb : Nat) :
    unpackWrites.go k sym m (sz :: rest) so sb [] =
      ((List.range sz).map fun i => (sb + sz * m + i, sym.getD (so + i) 0)) ++
        unpackWrites.go k sym m rest (so + sz) (sb + sz * k) [] := by
  rw [unpackWrites.go, unpackWrites_go_acc, List.nil_append]

/-- every write of symbol `m` puts the byte of `data` at its own position -/
theorem unpackWrites_go_sound (data : List Nat) (k m : Nat) (hm : m < k) (sizes : List Nat)
    (sym pre : Sym) (so off : Nat) (hsym : sym = pre ++ cutSym data k m sizes off)
    (hpre : pre.length = so) (hin : off + k * sizes.sum ≤ data.length) (p v : Nat)
    (hmem : (p, v) ∈ unpackWrites.go k sym m sizes so off []) :
    off ≤ p ∧ p < off + k * sizes.sum ∧ v = data.getD p 0 := by
  induction sizes generalizing pre so off with
  | nil => simp [unpackWrites.go] at hmem
  | cons sz rest ih =>
    rw [List.sum_cons, Nat.mul_add] at hin
    have h1 : (m + 1) * sz ≤ k * sz := Nat.mul_le_mul_right _ hm
    rw [Nat.add_mul, Nat.one_mul] at h1
    rw [unpackWrites_go_cons, List.mem_append] at hmem
    rw [List.sum_cons, Nat.mul_add]
    rcases hmem with hmem | hmem
    · rw [List.mem_map] at hmem
      obtain ⟨i, hi, he⟩ := hmem
      rw [List.mem_range] at hi
      cases he
      rw [Nat.mul_comm sz m]
      refine ⟨by omega, by omega, ?_⟩
      rw [hsym, cutSym, ← hpre]
      simp only [List.getD_eq_getElem?_getD]
      rw [List.getElem?_append_right (by omega), Nat.add_sub_cancel_left,
        List.getElem?_append_left (by simp; omega), List.getElem?_take, if_pos hi,
        List.getElem?_drop]
    · rw [Nat.mul_comm sz k] at hmem
      have := ih (pre ++ (data.drop (off + m * sz)).take sz) (so + sz) (off + k * sz)
        (by rw [hsym, cutSym, List.append_assoc]) (by simp; omega) (by omega) hmem
      omega

/-- every position of the block is written by some symbol -/
theorem unpackWrites_go_cover (k : Nat) (sizes : List Nat) (off p : Nat) (h1 : off ≤ p)
    (h2 : p < off + k * sizes.sum) :
    ∃ m, m < k ∧ ∀ (sym : Sym) (so : Nat), ∃ v, (p, v) ∈ unpackWrites.go k sym m sizes so off [] := by
  induction sizes generalizing off with
  | nil => simp at h2; omega
  | cons sz rest ih =>
    rw [List.sum_cons, Nat.mul_add] at h2
    by_cases hp : p < off + k * sz
    · have hsz : 0 < sz := by
        apply Nat.pos_of_ne_zero
        intro h0
        rw [h0, Nat.mul_zero] at hp
        omega
      have hdm := Nat.div_add_mod (p - off) sz
      have hr := Nat.mod_lt (p - off) hsz
      refine ⟨(p - off) / sz, ?_, ?_⟩
      · apply Nat.div_lt_of_lt_mul
        rw [Nat.mul_comm]; omega
      · intro sym so
        refine ⟨sym.getD (so + (p - off) % sz) 0, ?_⟩
        rw [unpackWrites_go_cons, List.mem_append]
        left
        rw [List.mem_map]
        refine ⟨(p - off) % sz, List.mem_range.2 hr, ?_⟩
        congr 1
        omega
    · obtain ⟨m, hm, hcov⟩ := ih (off + sz * k) (by rw [Nat.mul_comm]; omega)
        (by rw [Nat.mul_comm sz k]; omega)
      refine ⟨m, hm, ?_⟩
      intro sym so
      obtain ⟨v, hv⟩ := hcov sym (so + sz)
      refine ⟨v, ?_⟩
      rw [unpackWrites_go_cons, List.mem_append]
      right; exact hv

/-! ## Folding the writes -/

/-- a batch of writes that agree with `d` leaves the size, only changes cells to `d p`, and sets
every written cell to `d p` -/
theorem foldl_writes (d : Nat → Nat) (N : Nat) (ws : List (Nat × Nat)) (acc : Array Nat)
    (hsz : acc.size = N) (hws : ∀ p v, (p, v) ∈ ws → p < N ∧ v = d p) :
    (ws.foldl (fun a (x : Nat × Nat) => a.setIfInBounds x.1 x.2) acc).size = N ∧
    (∀ p, (ws.foldl (fun a (x : Nat × Nat) => a.setIfInBounds x.1 x.2) acc)[p]? = acc[p]? ∨
      (ws.foldl (fun a (x : Nat × Nat) => a.setIfInBounds x.1 x.2) acc)[p]? = some (d p)) ∧
    (∀ p v, (p, v) ∈ ws →
      (ws.foldl (fun a (x : Nat × Nat) => a.setIfInBounds x.1 x.2) acc)[p]? = some (d p)) := by
  induction ws generalizing acc with
  | nil => exact ⟨hsz, fun p => Or.inl rfl, fun p v h => by simp at h⟩
  | cons w ws ih =>
    obtain ⟨p0, v0⟩ := w
    obtain ⟨hp0, hv0⟩ := hws p0 v0 (List.mem_cons_self ..)
    rw [List.foldl_cons]
    obtain ⟨i1, i2, i3⟩ := ih (acc.setIfInBounds p0 v0) (by simp [hsz])
      (fun p v h => hws p v (List.mem_cons_of_mem _ h))
    have hset : ∀ p, (acc.setIfInBounds p0 v0)[p]? = acc[p]? ∨
        (acc.setIfInBounds p0 v0)[p]? = some (d p) := by
      intro p
      rw [Array.getElem?_setIfInBounds]
      by_cases h : p0 = p
      · right; rw [if_pos h, if_pos (by omega), hv0, h]
      · left; rw [if_neg h]
    refine ⟨i1, ?_, ?_⟩
    · intro p
      rcases i2 p with h | h
      · rcases hset p with h' | h'
        · left; rw [h, h']
        · right; rw [h, h']
      · right; exact h
    · intro p v hmem
      rw [List.mem_cons] at hmem
      rcases hmem with hmem | hmem
      · cases hmem
        rcases i2 p0 with h | h
        · rw [h, Array.getElem?_setIfInBounds, if_pos rfl, if_pos (by omega), hv0]
        · exact h
      · exact i3 p v hmem

/-! ## Unpacking a block -/

theorem unpackBlock_go_spec (t al n k : Nat) (d : Nat → Nat) (symOf : Nat → Sym)
    (W : Nat → List (Nat × Nat))
    (hW : ∀ m, m < k → unpackWrites t al n k (symOf m) m = some (W m))
    (hsound : ∀ m, m < k → ∀ p v, (p, v) ∈ W m → p < t * k ∧ v = d p)
    (hlen : ∀ m, m < k → ¬ (symOf m).length < t)
    (j m : Nat) (acc : Array Nat) (hmj : m + j = k) (hsz : acc.size = t * k) :
    ∃ res, unpackBlock.go t al n k m ((List.range' m j).map symOf) acc = some res ∧
      res.size = t * k ∧ (∀ p, res[p]? = acc[p]? ∨ res[p]? = some (d p)) ∧
      (∀ m', m ≤ m' → m' < k → ∀ p v, (p, v) ∈ W m' → res[p]? = some (d p)) := by
  induction j generalizing m acc with
  | zero =>
    refine ⟨acc, by simp [unpackBlock.go], hsz, fun p => Or.inl rfl, ?_⟩
    intro m' h1 h2; omega
  | succ j ih =>
    have hmk : m < k := by omega
    rw [List.range'_succ, List.map_cons, unpackBlock.go, hW m hmk]
    simp only []
    have hany : ¬ (((W m).any fun x => match x with | (p, _) => decide (p ≥ acc.size)) = true ∨
        (symOf m).length < t) := by
      intro h
      rcases h with h | h
      · rw [List.any_eq_true] at h
        obtain ⟨⟨p, v⟩, hmem, hp⟩ := h
        have := (hsound m hmk p v hmem).1
        simp only [decide_eq_true_eq] at hp
        omega
      · exact hlen m hmk h
    rw [if_neg hany]
    obtain ⟨f1, f2, f3⟩ := foldl_writes d (t * k) (W m) acc hsz (hsound m hmk)
    obtain ⟨res, r1, r2, r3, r4⟩ := ih (m + 1)
      ((W m).foldl (fun a (x : Nat × Nat) => a.setIfInBounds x.1 x.2) acc) (by omega) f1
    refine ⟨res, r1, r2, ?_, ?_⟩
    · intro p
      rcases r3 p with h | h
      · rcases f2 p with h' | h'
        · left; rw [h, h']
        · right; rw [h, h']
      · right; exact h
    · intro m' h1 h2 p v hmem
      by_cases hm' : m' = m
      · subst hm'
        rcases r3 p with h | h
        · rw [h]; exact f3 p v hmem
        · exact h
      · exact r4 m' (by omega) h2 p v hmem

/-! ## The decoder inverts the layout -/

theorem unpackBlock_createSymbols (t al n : Nat) (data : List Nat) (ht : 0 < t) (ht' : t < 2 ^ 32)
    (hal : 0 < al) (hdiv : t % al = 0) (hn : 1 ≤ n) (hlen : data.length % t = 0)
    (syms : List Sym) (h : createSymbols t al n data = some syms) :
    unpackBlock t al n (data.length / t) syms = some data := by
  have hn0 : 0 < n := by omega
  have hs := subSizes_eq t al n hal hn0 ht'
  have hsum := subSizes_sum t al n hdiv hn0
  have hk : data.length / t * t = data.length := by
    have := Nat.div_add_mod data.length t
    rw [Nat.mul_comm] at this
    omega
  rw [createSymbols_eq t al n data _ ht ht' hal hdiv hn hlen hs hsum] at h
  generalize hsz : (List.replicate (t / al % n) (ceilDiv (t / al) n * al) ++
      List.replicate (n - t / al % n) (t / al / n * al)) = sizes at *
  generalize hkdef : data.length / t = k at *
  have hkt : k * sizes.sum = data.length := by rw [hsum]; exact hk
  cases h
  have hW : ∀ m, m < k → unpackWrites t al n k (cutSym data k m sizes 0) m =
      some (unpackWrites.go k (cutSym data k m sizes 0) m sizes 0 0 []) := by
    intro m _
    unfold unpackWrites
    rw [hs]
  have hsound : ∀ m, m < k → ∀ p v,
      (p, v) ∈ unpackWrites.go k (cutSym data k m sizes 0) m sizes 0 0 [] →
      p < t * k ∧ v = data.getD p 0 := by
    intro m hm p v hmem
    have := unpackWrites_go_sound data k m hm sizes _ [] 0 0 (by simp) rfl (by omega) p v hmem
    rw [Nat.mul_comm t k, ← hsum]
    omega
  have hl : ∀ m, m < k → ¬ (cutSym data k m sizes 0).length < t := by
    intro m hm
    rw [cutSym_length data k m hm sizes 0 (by omega), hsum]
    omega
  obtain ⟨res, r1, r2, _, r4⟩ := unpackBlock_go_spec t al n k (fun p => data.getD p 0)
    (fun m => cutSym data k m sizes 0) _ hW hsound hl k 0 (Array.replicate (t * k) 0) (by omega)
    (by simp)
  unfold unpackBlock
  simp only []
  rw [List.range_eq_range', r1, Option.map_some]
  congr 1
  have hlen' : res.toList.length = data.length := by
    rw [Array.length_toList, r2, Nat.mul_comm, ← hsum]; exact hkt
  apply List.ext_getElem hlen'
  intro p h1 h2
  obtain ⟨m, hm, hcov⟩ := unpackWrites_go_cover k sizes 0 p (by omega) (by omega)
  obtain ⟨v, hv⟩ := hcov (cutSym data k m sizes 0) 0
  have := r4 m (by omega) hm p v hv
  simp only [List.getD_eq_getElem?_getD, List.getElem?_eq_getElem h2, Option.getD_some] at this
  rw [Array.getElem_toList]
  rw [Array.getElem?_eq_getElem (by simpa using h1)] at this
  exact Option.some.inj this

end Rq
