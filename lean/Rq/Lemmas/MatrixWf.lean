import Rq.Model.Matrix
import Rq.Lemmas.GF256
namespace Rq

/-- table reads of OCT_EXP are bytes whatever the index (0 outside the table) -/
theorem oexp_lt_d (i : Nat) : oexp i < 256 := by
  unfold oexp octExpA
  rw [tget8]
  split
  · exact tb8_lt _ _
  · decide

theorem gmul_lt_d (a b : Nat) : gmul a b < 256 := by
  unfold gmul
  split
  · decide
  · exact oexp_lt_d _

/-! ### HDPC -/

/-- all entries of a list are bytes -/
def AllB (l : List Nat) : Prop := ∀ v ∈ l, v < 256

theorem AllB.getD {l : List Nat} (h : AllB l) (i : Nat) : l.getD i 0 < 256 := by
  rw [List.getD_eq_getElem?_getD]
  cases hq : l[i]? with
  | none => simp
  | some v =>
    simp only [Option.getD_some]
    exact h v (List.mem_of_getElem? hq)

theorem AllB.set {l : List Nat} (h : AllB l) (i v : Nat) (hv : v < 256) : AllB (l.set i v) := by
  intro x hx
  rcases List.mem_or_eq_of_mem_set hx with h1 | h1
  · exact h x h1
  · exact h1 ▸ hv

theorem AllB_map_gmul (l : List Nat) : AllB (l.map (gmul 2)) := by
  intro x hx
  rcases List.mem_map.mp hx with ⟨y, _, rfl⟩
  exact gmul_lt_d _ _

theorem hdpcStep_AllB (h j : Nat) (next col : List Nat) (hs : hdpcStep h j next = some col) :
    AllB col := by
  unfold hdpcStep at hs
  split at hs
  · simp only [Option.some.injEq] at hs
    subst hs
    have h0 := AllB_map_gmul next
    rename_i r6 r7 _ _
    have h1 := h0.set r6 _ (xor_lt256 _ 1 (h0.getD r6) (by decide))
    exact h1.set ((r6 + r7 + 1) % h) _ (xor_lt256 _ 1 (h1.getD ((r6 + r7 + 1) % h)) (by decide))
  · cases hs

theorem mapM_galpha_AllB (l last : List Nat) (h : l.mapM galpha = some last) : AllB last := by
  induction l generalizing last with
  | nil => simp at h; subst h; intro v hv; cases hv
  | cons a t ih =>
    rw [List.mapM_cons] at h
    cases ha : galpha a with
    | none => simp [ha] at h
    | some x =>
      cases ht : t.mapM galpha with
      | none => simp [ha, ht] at h
      | some r =>
        simp [ha, ht] at h
        subst h
        have hx : x < 256 := by
          unfold galpha at ha
          split at ha
          · rw [← Option.some.inj ha]; exact oexp_lt_d _
          · cases ha
        intro v hv
        rcases List.mem_cons.mp hv with rfl | hv
        · exact hx
        · exact ih r ht v hv

theorem hdpcCols_go_AllB (h j : Nat) (next : List Nat) (acc res : List (List Nat))
    (hn : AllB next) (ha : ∀ c ∈ acc, AllB c) (hr : hdpcCols.go h j next acc = some res) :
    ∀ c ∈ res, AllB c := by
  induction j generalizing next acc with
  | zero => simp [hdpcCols.go] at hr; subst hr; exact ha
  | succ j ih =>
    unfold hdpcCols.go at hr
    cases hs : hdpcStep h j next with
    | none => simp [hs] at hr
    | some col =>
      simp only [hs] at hr
      have hc := hdpcStep_AllB h j next col hs
      refine ih col (col :: acc) hc ?_ hr
      intro c hcm
      rcases List.mem_cons.mp hcm with rfl | hcm
      · exact hc
      · exact ha c hcm

theorem hdpcCols_AllB (h n : Nat) (cols : Array (List Nat)) (hc : hdpcCols h n = some cols) :
    ∀ c ∈ cols.toList, AllB c := by
  unfold hdpcCols at hc
  split at hc
  · cases hc
  · split at hc
    · cases hc
    · rename_i last hl
      have hlast := mapM_galpha_AllB _ _ hl
      cases hg : hdpcCols.go h (n - 1) last [last] with
      | none => simp [hg] at hc
      | some res =>
        simp [hg] at hc
        subst hc
        simpa using hdpcCols_go_AllB h (n - 1) last [last] res hlast (by simpa using hlast) hg

/-- the HDPC block: H rows of L bytes each -/
theorem hdpcRows_wf (sp : SysParams) (hd : Array (Array Nat)) (h : hdpcRows sp = some hd) :
    hd.size = sp.h ∧ ∀ row ∈ hd.toList, row.size = sp.l ∧ ∀ v ∈ row.toList, v < 256 := by
  unfold hdpcRows at h
  split at h
  · cases h
  · rename_i cols hc
    have hall := hdpcCols_AllB _ _ cols hc
    simp only [Option.some.injEq] at h
    subst h
    refine ⟨by simp, ?_⟩
    intro row hrow
    simp only [Array.toList_ofFn, List.mem_ofFn] at hrow
    obtain ⟨i, rfl⟩ := hrow
    refine ⟨by simp, ?_⟩
    intro v hv
    simp only [Array.toList_ofFn, List.mem_ofFn] at hv
    obtain ⟨j, rfl⟩ := hv
    split
    · have : AllB (cols.getD j.val []) := by
        unfold Array.getD
        split
        · exact hall _ (by simp)
        · intro v hv; cases hv
      exact this.getD _
    · split <;> decide

/-! ### LDPC -/

/-- the invariant of the LDPC construction: `n` rows, all column indices below `bound` -/
def RowsOk (n bound : Nat) (rows : Array (List Nat)) : Prop :=
  rows.size = n ∧ ∀ cols ∈ rows.toList, ∀ j ∈ cols, j < bound

theorem setCell_ok (n bound : Nat) (rows : Array (List Nat)) (r c : Nat)
    (h : RowsOk n bound rows) (hc : c < bound) : RowsOk n bound (setCell rows r c) := by
  unfold setCell
  split
  · rename_i hr
    simp only
    split
    · exact h
    · refine ⟨by simpa using h.1, ?_⟩
      intro cols hcols j hj
      rw [Array.toList_setIfInBounds] at hcols
      rcases List.mem_or_eq_of_mem_set hcols with h1 | h1
      · exact h.2 cols h1 j hj
      · subst h1
        rcases List.mem_cons.mp hj with rfl | hj
        · exact hc
        · refine h.2 _ ?_ j hj
          show rows[r] ∈ rows.toList
          simp
  · exact h

theorem foldl_inv {α β : Type} (P : β → Prop) (f : β → α → β) (l : List α)
    (hf : ∀ b a, a ∈ l → P b → P (f b a)) (init : β) (h0 : P init) : P (l.foldl f init) := by
  induction l generalizing init with
  | nil => exact h0
  | cons a t ih =>
    rw [List.foldl_cons]
    exact ih (fun b x hx => hf b x (List.mem_cons_of_mem _ hx)) _ (hf init a (List.mem_cons_self ..) h0)

theorem ldpcRows_ok (sp : SysParams) (rows : Array (List Nat)) (h : ldpcRows sp = some rows) :
    RowsOk sp.s (sp.w + sp.p) rows := by
  unfold ldpcRows at h
  split at h
  · cases h
  · rename_i hg
    have hs : sp.s ≠ 0 := fun e => hg (Or.inl e)
    have hp : sp.p ≠ 0 := fun e => hg (Or.inr (Or.inl e))
    have hw : sp.s ≤ sp.w := Nat.le_of_not_lt fun e => hg (Or.inr (Or.inr e))
    simp only [Option.some.injEq] at h
    subst h
    apply foldl_inv (RowsOk sp.s (sp.w + sp.p))
    · intro b i hi hb
      have hi : i < sp.s := List.mem_range.mp hi
      have hp0 : 0 < sp.p := Nat.pos_of_ne_zero hp
      have h1 := Nat.mod_lt i hp0
      have h2 := Nat.mod_lt (i + 1) hp0
      exact setCell_ok _ _ _ _ _ (setCell_ok _ _ _ _ _ hb (by omega)) (by omega)
    apply foldl_inv (RowsOk sp.s (sp.w + sp.p))
    · intro b i hi hb
      have hi : i < sp.s := List.mem_range.mp hi
      exact setCell_ok _ _ _ _ _ hb (by omega)
    apply foldl_inv (RowsOk sp.s (sp.w + sp.p))
    · intro b i hi hb
      have hi : i < sp.w - sp.s := List.mem_range.mp hi
      exact setCell_ok _ _ _ _ _ (setCell_ok _ _ _ _ _ (setCell_ok _ _ _ _ _ hb (by omega)) (by omega)) (by omega)
    · refine ⟨by simp, ?_⟩
      intro cols hcols j hj
      simp only [Array.toList_replicate, List.mem_replicate] at hcols
      rw [hcols.2] at hj
      cases hj

/-- the LDPC block has S rows -/
theorem ldpcRows_size (sp : SysParams) (rows : Array (List Nat)) (h : ldpcRows sp = some rows) :
    rows.size = sp.s := (ldpcRows_ok sp rows h).1

/-- every column index of an LDPC row is < W + P (= L for real parameters) -/
theorem ldpcRows_lt (sp : SysParams) (rows : Array (List Nat)) (h : ldpcRows sp = some rows) :
    ∀ cols ∈ rows.toList, ∀ j ∈ cols, j < sp.w + sp.p := (ldpcRows_ok sp rows h).2

end Rq

