import Mathlib.Data.List.Forall2
import Rq.Lemmas.GJCorrect
import Rq.Lemmas.SystemLin
/-!
The rank oracle on a `System`: the dense byte rows `System.denseRows` represent the row functionals
`System.funs` (same order: LDPC, HDPC, G_ENC), so the facts about `gaussJordan`
(`Rq/Lemmas/GJCorrect.lean`) become facts about `Determined`, `checkSolution` and `checkKernel`.
-/
namespace Rq

/-! ## the row functionals of a system are the inner products with its dense rows -/

theorem foldl_xor_init (f : Nat → Nat) (cols : List Nat) (a : Nat) :
    cols.foldl (fun acc j => acc ^^^ f j) a = a ^^^ cols.foldl (fun acc j => acc ^^^ f j) 0 := by
  induction cols generalizing a with
  | nil => simp
  | cons c cols ih =>
    rw [List.foldl_cons, List.foldl_cons, ih (a ^^^ f c), ih (0 ^^^ f c), Nat.zero_xor, Nat.xor_assoc]

theorem rowBin_cons (c : Nat) (cols : List Nat) (f : Nat → Nat) :
    rowBin (c :: cols) f = f c ^^^ rowBin cols f := by
  unfold rowBin
  rw [List.foldl_cons, foldl_xor_init, Nat.zero_xor]

theorem rowBin_eq_xs (l : Nat) (cols : List Nat) (hnd : cols.Nodup) (hlt : ∀ j ∈ cols, j < l) (v : Nat → Nat) :
    rowBin cols v = xs l (fun j => if j ∈ cols then v j else 0) := by
  induction cols with
  | nil =>
    rw [xs_eq_zero l _ (fun j _ => by simp)]
    rfl
  | cons c cols ih =>
    have hc : c ∉ cols := (List.nodup_cons.mp hnd).1
    rw [rowBin_cons, ih (List.nodup_cons.mp hnd).2 (fun j hj => hlt j (List.mem_cons_of_mem _ hj))]
    have e : xs l (fun j => if j ∈ c :: cols then v j else 0) =
        xs l (fun j => (if j = c then v c else 0) ^^^ (if j ∈ cols then v j else 0)) := by
      apply xs_congr
      intro j _
      by_cases h1 : j = c
      · subst h1
        simp [hc]
      · simp [h1]
    rw [e, xs_xor, xs_single l _ c (hlt c (List.mem_cons_self ..)) (fun j _ hne => if_neg hne), if_pos rfl]

theorem rowBin_eq_dot (l : Nat) (cols : List Nat) (hnd : cols.Nodup) (hlt : ∀ j ∈ cols, j < l) (v : Nat → Nat)
    (hv : ∀ j, v j < 256) :
    rowBin cols v = dot l (bget (denseOfCols l cols)) v := by
  rw [rowBin_eq_xs l cols hnd hlt v]
  unfold dot
  apply xs_congr
  intro j hj
  rw [(denseOfCols_spec l cols).2 j]
  by_cases h : j ∈ cols
  · rw [if_pos h, if_pos ⟨h, hj⟩, gmulP_one_left _ (hv j)]
  · rw [if_neg h, if_neg (fun hc => h hc.1), gmulP_zero_left]

theorem denseTerm_eq_gmulP (a x : Nat) (ha : a < 256) (hx : x < 256) : denseTerm_d a x = gmulP a x := by
  unfold denseTerm_d
  split
  · next h => rw [h, gmulP_zero_left]
  · split
    · next h => rw [h, gmulP_one_left _ hx]
    · exact gmul_eq_gmulP a x ha hx

theorem rowDense_eq_dot (l : Nat) (row : Array Nat) (hsz : row.size = l) (hb : ∀ x ∈ row.toList, x < 256)
    (v : Nat → Nat) (hv : ∀ j, v j < 256) :
    rowDense row v = dot l (bget (denseOfNats row)) v := by
  have e : rowDense row v = xs row.size (fun j => denseTerm_d (row.getD j 0) (v j)) := rfl
  rw [e, hsz]
  unfold dot
  apply xs_congr
  intro j _
  rw [(denseOfNats_spec row hb).2 j]
  exact denseTerm_eq_gmulP _ _ (getD_lt_of_bytes row hb j) (hv j)

/-- well-formed system: indices in range and without repetition, HDPC rows of full width with byte
entries -/
structure WfSys (a : System) : Prop where
  bin_lt : ∀ cols ∈ a.bin.toList, ∀ j ∈ cols, j < a.l
  bin_nodup : ∀ cols ∈ a.bin.toList, cols.Nodup
  hdpc_wf : ∀ row ∈ a.hdpc.toList, row.size = a.l ∧ ∀ v ∈ row.toList, v < 256
  nldpc_le : a.nLdpc ≤ a.bin.size

/-- a dense row represents a functional -/
def RowRel (l : Nat) (ba : ByteArray) (φ : (Nat → Nat) → Nat) : Prop :=
  ba.size = l ∧ ∀ v : Nat → Nat, (∀ j, v j < 256) → φ v = dot l (bget ba) v

theorem denseRows_toList (a : System) :
    a.denseRows.toList = (a.bin.toList.map (denseOfCols a.l)).take a.nLdpc ++ a.hdpc.toList.map denseOfNats ++
      (a.bin.toList.map (denseOfCols a.l)).drop a.nLdpc := by
  unfold System.denseRows
  simp only [Array.toList_append, Array.toList_extract, Array.toList_map, List.extract_eq_take_drop,
    Nat.sub_zero, List.drop_zero, Array.size_map]
  congr 1
  apply List.take_of_length_le
  simp

theorem denseRows_rel (a : System) (hw : WfSys a) : List.Forall₂ (RowRel a.l) a.denseRows.toList a.funs := by
  rw [denseRows_toList]
  unfold System.funs
  have hbin : List.Forall₂ (RowRel a.l) (a.bin.toList.map (denseOfCols a.l)) (a.bin.toList.map rowBin) := by
    rw [List.forall₂_map_left_iff, List.forall₂_map_right_iff, List.forall₂_same]
    intro cols hc
    exact ⟨(denseOfCols_spec a.l cols).1, fun v hv =>
      rowBin_eq_dot a.l cols (hw.bin_nodup cols hc) (hw.bin_lt cols hc) v hv⟩
  have hh : List.Forall₂ (RowRel a.l) (a.hdpc.toList.map denseOfNats) (a.hdpc.toList.map rowDense) := by
    rw [List.forall₂_map_left_iff, List.forall₂_map_right_iff, List.forall₂_same]
    intro row hr
    obtain ⟨h1, h2⟩ := hw.hdpc_wf row hr
    exact ⟨by rw [(denseOfNats_spec row h2).1, h1], fun v hv => rowDense_eq_dot a.l row h1 h2 v hv⟩
  exact List.rel_append (List.rel_append (List.forall₂_take _ hbin) hh) (List.forall₂_drop _ hbin)

theorem denseRows_size (a : System) (hw : WfSys a) : a.denseRows.size = a.rows := by
  have := (denseRows_rel a hw).length_eq
  rw [funs_length] at this
  simpa using this

theorem getElem!_toList {α : Type} [Inhabited α] (xs : Array α) (i : Nat) (h : i < xs.toList.length) :
    xs[i]! = xs.toList[i] := by
  have h' : i < xs.size := by simpa using h
  simp [h']

theorem denseRows_shape (a : System) (hw : WfSys a) : Shape a.denseRows.size a.l a.denseRows := by
  refine ⟨rfl, fun r hr => ?_⟩
  have hrel := denseRows_rel a hw
  have h1 : r < a.denseRows.toList.length := by simpa using hr
  have h2 : r < a.funs.length := by rw [← hrel.length_eq]; exact h1
  have := (hrel.get h1 h2).1
  rw [getElem!_toList _ _ h1]
  exact this

theorem denseRows_dot (a : System) (hw : WfSys a) (r : Nat) (hr : r < a.funs.length) (v : Nat → Nat)
    (hv : ∀ j, v j < 256) : a.funs[r] v = dot a.l (ent a.denseRows r) v := by
  have hrel := denseRows_rel a hw
  have h1 : r < a.denseRows.toList.length := by rw [hrel.length_eq]; exact hr
  have := (hrel.get h1 hr).2 v hv
  unfold ent
  rw [getElem!_toList _ _ h1]
  exact this


/-! ## the right-hand sides -/

theorem rhs_shape (a : System) (t : Nat) (d : List Sym) (hd : WfRhs a t d) (m : Nat) (hm : m = a.rows) :
    Shape m t (d.map symToBA).toArray := by
  subst hm
  refine ⟨by simp [hd.1], fun r hr => ?_⟩
  have h1 : r < d.length := by rw [hd.1]; exact hr
  have e : (d.map symToBA).toArray[r]! = symToBA d[r] := by simp [h1]
  rw [e]
  have hw := hd.2 d[r] (List.getElem_mem h1)
  rw [(symToBA_spec d[r] hw.2).1, hw.1]

theorem rhs_ent (a : System) (t : Nat) (d : List Sym) (hd : WfRhs a t d) (r : Nat) (hr : r < d.length) (b : Nat) :
    ent (d.map symToBA).toArray r b = d[r].getD b 0 := by
  unfold ent
  have e : (d.map symToBA).toArray[r]! = symToBA d[r] := by simp [hr]
  rw [e]
  exact (symToBA_spec d[r] (hd.2 d[r] (List.getElem_mem hr)).2).2 b

/-- the unit vector `e_b` -/
def unitV (b : Nat) (k : Nat) : Nat := if k = b then 1 else 0

theorem unitV_lt (b k : Nat) : unitV b k < 256 := by
  unfold unitV; split <;> decide

theorem dot_unitV (t : Nat) (u : Nat → Nat) (hu : ∀ j, u j < 256) (b : Nat) (hb : b < t) :
    dot t u (unitV b) = u b := by
  unfold dot
  rw [xs_single t _ b hb]
  · unfold unitV; rw [if_pos rfl, gmulP_one _ (hu b)]
  · intro j _ hne
    unfold unitV; rw [if_neg hne, gmulP_zero_right]

/-! ## the three verdicts -/

theorem gj_determined (a : System) (hw : WfSys a) (d : List Sym) (t : Nat) (hd : WfRhs a t d)
    (cb : Array ByteArray) (h : gaussJordan a.l a.denseRows (d.map symToBA).toArray = .solved cb) :
    Determined a := by
  rw [determined_iff]
  intro v hv _ hφ i hi
  have hsz := denseRows_size a hw
  apply gaussJordan_solved_kernel a.l t a.denseRows _ (denseRows_shape a hw) (rhs_shape a t d hd _ hsz) cb h v hv
    _ i hi
  intro r hr
  have hr' : r < a.funs.length := by rw [funs_length, ← hsz]; exact hr
  rw [← denseRows_dot a hw r hr' v hv]
  exact hφ _ (List.getElem_mem hr')

theorem gj_solved_check (a : System) (hw : WfSys a) (d : List Sym) (t : Nat) (hd : WfRhs a t d)
    (hc : Consistent a t d) (cb : Array ByteArray)
    (h : gaussJordan a.l a.denseRows (d.map symToBA).toArray = .solved cb) :
    checkSolution a (cb.map baToSym) d t = true := by
  obtain ⟨c0, hc0, happ⟩ := hc
  have hsz := denseRows_size a hw
  obtain ⟨rhs', e, hsh, hlm, hread⟩ := gaussJordan_solved_reads a.l t a.denseRows _ (denseRows_shape a hw)
    (rhs_shape a t d hd _ hsz) cb h
  have hfun : ∀ r (hr : r < a.funs.length) (hr' : r < d.length) b, b < t →
      d[r].getD b 0 = a.funs[r] (fun j => cell c0 j b) := by
    intro r hr hr' b hb
    have h1 := apply_eq a c0 t hc0.allLen
    rw [happ] at h1
    have h2 : d[r] = tab t (fun b => a.funs[r] (fun j => cell c0 j b)) := by
      simp only [h1, List.getElem_map]
    rw [h2, tab_getD _ _ _ hb]
  have hcell : ∀ b, b < t → ∀ j, j < a.l → cell c0 j b = ent rhs' j b := by
    intro b hb j hj
    rw [hread (fun j => cell c0 j b) (unitV b) (fun j => hc0.cell_lt j b) (unitV_lt b) ?_ j hj,
      dot_unitV t _ (ent_lt _ _) b hb]
    intro r hr
    have hr1 : r < a.funs.length := by rw [funs_length, ← hsz]; exact hr
    have hr2 : r < d.length := by rw [hd.1, ← hsz]; exact hr
    unfold rowVal
    rw [← denseRows_dot a hw r hr1 _ (fun j => hc0.cell_lt j b), dot_unitV t _ (ent_lt _ _) b hb,
      rhs_ent a t d hd r hr2 b, hfun r hr1 hr2 b hb, Nat.xor_self]
  have hrs : rhs'.size = a.denseRows.size := hsh.size
  have hsize : (cb.map baToSym).size = a.l := by
    rw [Array.size_map, e, Array.size_extract, hrs]; omega
  have heq : cb.map baToSym = c0 := by
    apply Array.ext
    · rw [hsize, hc0.1]
    · intro i h1 h2
      have hi : i < a.l := by rw [← hsize]; exact h1
      have hi' : i < rhs'.size := by omega
      have e1 : (cb.map baToSym)[i] = baToSym rhs'[i]! := by
        simp only [Array.getElem_map, e, Array.getElem_extract, Nat.zero_add]
        congr 1
        simp [hi']
      have e2 : c0.getD i [] = c0[i] := by simp [Array.getD, h2]
      rw [e1, ← e2]
      obtain ⟨l1, g1⟩ := baToSym_spec rhs'[i]!
      apply sym_ext _ _ t
      · rw [l1]; exact hsh.width i (by omega)
      · exact (hc0.2 i hi).1
      · intro b hb
        rw [g1 b]
        exact (hcell b hb i hi).symm
  rw [heq]
  unfold checkSolution
  rw [Bool.and_eq_true, Bool.and_eq_true, beq_iff_eq, beq_iff_eq, Array.all_eq_true]
  refine ⟨⟨hc0.1, ?_⟩, happ⟩
  intro i hi
  have e2 : c0.getD i [] = c0[i] := by simp [Array.getD, hi]
  have := (hc0.2 i (by rw [← hc0.1]; exact hi)).1
  rw [e2] at this
  simpa using this

theorem gj_singular_check (a : System) (hw : WfSys a) (d : List Sym) (t : Nat) (hd : WfRhs a t d)
    (z : Array Nat) (h : gaussJordan a.l a.denseRows (d.map symToBA).toArray = .singular z) :
    checkKernel a z = true := by
  have hsz := denseRows_size a hw
  obtain ⟨hzs, ⟨c, hcl, hc1⟩, hzb, hk⟩ := gaussJordan_singular a.l t a.denseRows _ (denseRows_shape a hw)
    (rhs_shape a t d hd _ hsz) z h
  have hlen : AllLen_d (z.map fun v => [v]) 1 := by
    intro s hs
    simp only [Array.toList_map, List.mem_map] at hs
    obtain ⟨v, _, rfl⟩ := hs
    rfl
  have hcellz : ∀ j, cell (z.map fun v => [v]) j 0 = z.getD j 0 := by
    intro j
    unfold cell
    by_cases hj : j < z.size
    · simp [Array.getD, hj]
    · simp [Array.getD, hj]
  unfold checkKernel
  rw [Bool.and_eq_true, Bool.and_eq_true, beq_iff_eq, Array.any_eq_true, List.all_eq_true]
  refine ⟨⟨hzs, c, by omega, ?_⟩, ?_⟩
  · have : z.getD c 0 = z[c]'(by omega) := by simp [Array.getD, hzs, hcl]
    rw [this] at hc1
    rw [hc1]; decide
  · intro s hs
    rw [apply_eq a _ 1 hlen, List.mem_map] at hs
    obtain ⟨φ, hφ, rfl⟩ := hs
    obtain ⟨r, hr, rfl⟩ := List.getElem_of_mem hφ
    rw [tab_one, beq_iff_eq]
    have e : (fun j => cell (z.map fun v => [v]) j 0) = fun j => z.getD j 0 := funext hcellz
    rw [e, denseRows_dot a hw r hr _ hzb, hk r (by rw [hsz, ← funs_length]; exact hr)]

end Rq
