import Rq.Spec.Defs
import Rq.Lemmas.GF256Field
import Rq.Lemmas.Stream
/-! Helper lemmas for C09 (and `solver_irrelevant` of C18): byte-level field facts on `gmul`,
pointwise characterisations of the symbol operations and of the operations on symbol vectors, the
xor-folds of `encSymbol` / `evalBinRow`, one-step lemmas for `Slab.apply` (`locate` / `write`),
`evalDenseRow` as a fold, linearity of `System.apply` (without the index-range side conditions),
uniqueness of the solution of a `Determined` system, HDPC entries are bytes, and
`fullSystem_isSome`: the standard system exists for every K ≤ 56403. -/
namespace Rq

/-! ### bytes -/

theorem gmul_lt (a b : Nat) (ha : a < 256) (hb : b < 256) : gmul a b < 256 := by
  rw [gmul_eq_gmulP a b ha hb]; exact gmulP_lt _ _

theorem gmul_xor (k a b : Nat) (hk : k < 256) (ha : a < 256) (hb : b < 256) :
    gmul k (a ^^^ b) = gmul k a ^^^ gmul k b := by
  rw [gmul_eq_gmulP k _ hk (xor_lt256 a b ha hb), gmul_eq_gmulP k a hk ha, gmul_eq_gmulP k b hk hb,
    gmulP_xor k a b hk ha hb]

theorem gmul_left_comm (k c a : Nat) (hk : k < 256) (hc : c < 256) (ha : a < 256) :
    gmul k (gmul c a) = gmul c (gmul k a) := by
  rw [gmul_eq_gmulP c a hc ha, gmul_eq_gmulP k a hk ha, gmul_eq_gmulP k _ hk (gmulP_lt _ _),
    gmul_eq_gmulP c _ hc (gmulP_lt _ _), ← gmulP_assoc k c a hk hc ha, ← gmulP_assoc c k a hc hk ha,
    gmulP_comm k c]

theorem gmul_zero_right (k : Nat) : gmul k 0 = 0 := by simp [gmul]

/-! ### symbols -/

theorem xorSym_length (a b : Sym) : (xorSym a b).length = min a.length b.length := by
  simp [xorSym]

theorem mulSym_length (k : Nat) (a : Sym) : (mulSym k a).length = a.length := by
  simp [mulSym]

theorem xorSym_getElem? (a b : Sym) (i : Nat) :
    (xorSym a b)[i]? = a[i]?.bind fun x => b[i]?.map fun y => x ^^^ y := by
  simp only [xorSym, List.getElem?_zipWith]
  cases a[i]? <;> cases b[i]? <;> rfl

theorem mulSym_getElem? (k : Nat) (a : Sym) (i : Nat) : (mulSym k a)[i]? = a[i]?.map (gmul k) := by
  simp [mulSym]

theorem fmaSym_eq (c : Nat) (a b : Sym) : fmaSym c a b = xorSym a (mulSym c b) := by
  simp [fmaSym, xorSym, mulSym, List.zipWith_map_right]

theorem xorSym_nil_left (a : Sym) : xorSym [] a = [] := by simp [xorSym]
theorem xorSym_nil_right (a : Sym) : xorSym a [] = [] := by simp [xorSym]
theorem mulSym_nil (k : Nat) : mulSym k [] = [] := rfl

/-- interchange law, valid for all lengths (both sides truncate to the shortest) -/
theorem xorSym_xorSym (a a' b b' : Sym) :
    xorSym (xorSym a a') (xorSym b b') = xorSym (xorSym a b) (xorSym a' b') := by
  apply List.ext_getElem?
  intro i
  simp only [xorSym_getElem?]
  cases a[i]? <;> cases a'[i]? <;> cases b[i]? <;> cases b'[i]? <;> simp
  rename_i x y z w
  rw [Nat.xor_assoc, Nat.xor_assoc]
  congr 1
  rw [← Nat.xor_assoc, ← Nat.xor_assoc, Nat.xor_comm y z]

theorem getElem?_lt_of_isBytes {a : Sym} (h : IsBytes a) {i x : Nat} (hx : a[i]? = some x) : x < 256 :=
  h x (List.mem_of_getElem? hx)

theorem mulSym_xorSym (k : Nat) (hk : k < 256) (a b : Sym) (ha : IsBytes a) (hb : IsBytes b) :
    mulSym k (xorSym a b) = xorSym (mulSym k a) (mulSym k b) := by
  apply List.ext_getElem?
  intro i
  simp only [xorSym_getElem?, mulSym_getElem?]
  cases hx : a[i]? <;> cases hy : b[i]? <;> simp
  exact gmul_xor k _ _ hk (getElem?_lt_of_isBytes ha hx) (getElem?_lt_of_isBytes hb hy)

theorem mulSym_mulSym (k c : Nat) (hk : k < 256) (hc : c < 256) (a : Sym) (ha : IsBytes a) :
    mulSym k (mulSym c a) = mulSym c (mulSym k a) := by
  apply List.ext_getElem?
  intro i
  simp only [mulSym_getElem?]
  cases hx : a[i]? <;> simp
  exact gmul_left_comm k c _ hk hc (getElem?_lt_of_isBytes ha hx)

theorem isBytes_xorSym (a b : Sym) (ha : IsBytes a) (hb : IsBytes b) : IsBytes (xorSym a b) := by
  intro x hx
  obtain ⟨i, hi⟩ := List.getElem?_of_mem hx
  rw [xorSym_getElem?] at hi
  cases hx' : a[i]? <;> cases hy' : b[i]? <;> simp [hx', hy'] at hi
  subst hi
  exact xor_lt256 _ _ (getElem?_lt_of_isBytes ha hx') (getElem?_lt_of_isBytes hb hy')

theorem isBytes_mulSym (k : Nat) (hk : k < 256) (a : Sym) (ha : IsBytes a) : IsBytes (mulSym k a) := by
  intro x hx
  obtain ⟨y, hy, rfl⟩ := List.mem_map.mp hx
  exact gmul_lt k y hk (ha y hy)

theorem WfSym.xor {t : Nat} {a b : Sym} (ha : WfSym t a) (hb : WfSym t b) : WfSym t (xorSym a b) :=
  ⟨by rw [xorSym_length, ha.1, hb.1, Nat.min_self], isBytes_xorSym a b ha.2 hb.2⟩

theorem WfSym.mul {t k : Nat} (hk : k < 256) {a : Sym} (ha : WfSym t a) : WfSym t (mulSym k a) :=
  ⟨by rw [mulSym_length, ha.1], isBytes_mulSym k hk a ha.2⟩

theorem WfSym.fma {t c : Nat} (hc : c < 256) {a b : Sym} (ha : WfSym t a) (hb : WfSym t b) :
    WfSym t (fmaSym c a b) := by
  rw [fmaSym_eq]; exact ha.xor (hb.mul hc)

theorem wfSym_zeroSym (t : Nat) : WfSym t (zeroSym t) := by
  refine ⟨by simp [zeroSym], ?_⟩
  intro x hx
  simp [zeroSym] at hx
  omega

theorem xorSym_zeroSym (t : Nat) : xorSym (zeroSym t) (zeroSym t) = zeroSym t := by
  simp [xorSym, zeroSym]

theorem mulSym_zeroSym (k t : Nat) : mulSym k (zeroSym t) = zeroSym t := by
  simp [mulSym, zeroSym, gmul_zero_right]

/-! ### byte columns -/

theorem getD_xorSym (j : Nat) (a b : Sym) (h : a.length = b.length) :
    (xorSym a b).getD j 0 = a.getD j 0 ^^^ b.getD j 0 := by
  simp only [List.getD_eq_getElem?_getD, xorSym_getElem?]
  by_cases hj : j < a.length
  · rw [List.getElem?_eq_getElem hj, List.getElem?_eq_getElem (h ▸ hj)]
    simp
  · rw [List.getElem?_eq_none (by omega), List.getElem?_eq_none (by omega)]
    simp

theorem getD_mulSym (j k : Nat) (a : Sym) : (mulSym k a).getD j 0 = gmul k (a.getD j 0) := by
  simp only [List.getD_eq_getElem?_getD, mulSym_getElem?]
  cases a[j]? <;> simp [gmul_zero_right]

theorem col_xorSym (j : Nat) (a b : Sym) (h : a.length = b.length) :
    [(xorSym a b).getD j 0] = xorSym [a.getD j 0] [b.getD j 0] := by
  rw [getD_xorSym j a b h]; rfl

theorem col_mulSym (j k : Nat) (a : Sym) : [(mulSym k a).getD j 0] = mulSym k [a.getD j 0] := by
  rw [getD_mulSym]; rfl

/-! ### symbol vectors -/

theorem getD_map_array {α β : Type} (f : α → β) (a : Array α) (i : Nat) (d : α) :
    (a.map f).getD i (f d) = f (a.getD i d) := by
  simp only [Array.getD_eq_getD_getElem?, Array.getElem?_map]
  cases a[i]? <;> rfl

theorem getD_map_array_lt {α β : Type} (f : α → β) (a : Array α) (i : Nat) (d : α) (d' : β)
    (hi : i < a.size) : (a.map f).getD i d' = f (a.getD i d) := by
  simp only [Array.getD_eq_getD_getElem?, Array.getElem?_map, Array.getElem?_eq_getElem hi]
  rfl

theorem getD_zipWith_array {α β γ : Type} (f : α → β → γ) (a : Array α) (b : Array β)
    (h : a.size = b.size) (i : Nat) (d : α) (d' : β) :
    (Array.zipWith f a b).getD i (f d d') = f (a.getD i d) (b.getD i d') := by
  simp only [Array.getD_eq_getD_getElem?, Array.getElem?_zipWith]
  by_cases hi : i < a.size
  · rw [Array.getElem?_eq_getElem hi, Array.getElem?_eq_getElem (h ▸ hi)]; rfl
  · rw [Array.getElem?_eq_none (by omega), Array.getElem?_eq_none (by omega)]; rfl

theorem xorInter_size (a b : Inter) : (xorInter a b).size = min a.size b.size := by
  simp [xorInter]
theorem mulInter_size (k : Nat) (a : Inter) : (mulInter k a).size = a.size := by simp [mulInter]
theorem colInter_size (j : Nat) (a : Inter) : (colInter j a).size = a.size := by simp [colInter]

theorem getD_xorInter (a b : Inter) (h : a.size = b.size) (i : Nat) :
    (xorInter a b).getD i [] = xorSym (a.getD i []) (b.getD i []) :=
  getD_zipWith_array xorSym a b h i [] []

theorem getD_xorInter_zero (t : Nat) (a b : Inter) (h : a.size = b.size) (i : Nat) :
    (xorInter a b).getD i (zeroSym t) = xorSym (a.getD i (zeroSym t)) (b.getD i (zeroSym t)) := by
  have := getD_zipWith_array xorSym a b h i (zeroSym t) (zeroSym t)
  rwa [xorSym_zeroSym] at this

theorem getD_mulInter (k : Nat) (a : Inter) (i : Nat) :
    (mulInter k a).getD i [] = mulSym k (a.getD i []) :=
  getD_map_array (mulSym k) a i []

theorem getD_colInter (j : Nat) (a : Inter) (i : Nat) (d d' : Sym) (hi : i < a.size) :
    (colInter j a).getD i d' = [(a.getD i d).getD j 0] :=
  getD_map_array_lt (fun s : Sym => [s.getD j 0]) a i d d' hi

theorem getD_colInter_zero (j t : Nat) (a : Inter) (i : Nat) :
    (colInter j a).getD i (zeroSym 1) = [(a.getD i (zeroSym t)).getD j 0] := by
  have := getD_map_array (fun s : Sym => [s.getD j 0]) a i (zeroSym t)
  have hz : [(zeroSym t).getD j 0] = zeroSym 1 := by
    simp only [zeroSym, List.getD_eq_getElem?_getD, List.getElem?_replicate]
    split <;> rfl
  simp only [hz] at this
  exact this

/-! ### xor-folds (`encSymbol`, `evalBinRow`) -/

/-- the common loop: xor the indexed symbols into an accumulator -/
def foldXor (x : Inter) (d : Sym) (cols : List Nat) (acc : Sym) : Sym :=
  cols.foldl (fun acc j => xorSym acc (x.getD j d)) acc

theorem encSymbol_cons (c : Inter) (i : Nat) (rest : List Nat) :
    encSymbol c (i :: rest) = foldXor c [] rest (c.getD i []) := rfl

theorem evalBinRow_eq (cols : List Nat) (x : Inter) (t : Nat) :
    evalBinRow cols x t = foldXor x (zeroSym t) cols (zeroSym t) := rfl

theorem foldXor_add (c c' : Inter) (d d' d'' : Sym)
    (hget : ∀ i, (xorInter c c').getD i d'' = xorSym (c.getD i d) (c'.getD i d'))
    (cols : List Nat) (acc acc' : Sym) :
    foldXor (xorInter c c') d'' cols (xorSym acc acc') =
      xorSym (foldXor c d cols acc) (foldXor c' d' cols acc') := by
  induction cols generalizing acc acc' with
  | nil => rfl
  | cons j rest ih =>
    simp only [foldXor, List.foldl_cons] at ih ⊢
    rw [hget, xorSym_xorSym, ih]

theorem foldXor_mul (k : Nat) (hk : k < 256) (c : Inter) (d d' : Sym)
    (hget : ∀ i, (mulInter k c).getD i d' = mulSym k (c.getD i d))
    (hb : ∀ i, IsBytes (c.getD i d)) (cols : List Nat) (acc : Sym) (hacc : IsBytes acc) :
    foldXor (mulInter k c) d' cols (mulSym k acc) = mulSym k (foldXor c d cols acc) := by
  induction cols generalizing acc with
  | nil => rfl
  | cons j rest ih =>
    simp only [foldXor, List.foldl_cons] at ih ⊢
    rw [hget, ← mulSym_xorSym k hk _ _ hacc (hb j), ih _ (isBytes_xorSym _ _ hacc (hb j))]

theorem foldXor_length (t : Nat) (c : Inter) (d : Sym) (cols : List Nat)
    (hl : ∀ i ∈ cols, (c.getD i d).length = t) (acc : Sym) (hacc : acc.length = t) :
    (foldXor c d cols acc).length = t := by
  induction cols generalizing acc with
  | nil => exact hacc
  | cons j rest ih =>
    simp only [foldXor, List.foldl_cons] at ih ⊢
    exact ih (fun i hi => hl i (List.mem_cons_of_mem _ hi)) _
      (by rw [xorSym_length, hacc, hl j List.mem_cons_self, Nat.min_self])

theorem foldXor_wf (t : Nat) (c : Inter) (d : Sym) (cols : List Nat)
    (hl : ∀ i ∈ cols, WfSym t (c.getD i d)) (acc : Sym) (hacc : WfSym t acc) :
    WfSym t (foldXor c d cols acc) := by
  induction cols generalizing acc with
  | nil => exact hacc
  | cons j rest ih =>
    simp only [foldXor, List.foldl_cons] at ih ⊢
    exact ih (fun i hi => hl i (List.mem_cons_of_mem _ hi)) _ (hacc.xor (hl j List.mem_cons_self))

theorem foldXor_col (j t : Nat) (c : Inter) (d d' : Sym) (cols : List Nat)
    (hget : ∀ i ∈ cols, (colInter j c).getD i d' = [(c.getD i d).getD j 0])
    (hl : ∀ i ∈ cols, (c.getD i d).length = t) (acc : Sym) (hacc : acc.length = t) :
    foldXor (colInter j c) d' cols [acc.getD j 0] = [(foldXor c d cols acc).getD j 0] := by
  induction cols generalizing acc with
  | nil => rfl
  | cons i rest ih =>
    simp only [foldXor, List.foldl_cons] at ih ⊢
    rw [hget i List.mem_cons_self, ← col_xorSym j _ _ (by rw [hacc, hl i List.mem_cons_self]),
      ih (fun i hi => hget i (List.mem_cons_of_mem _ hi)) (fun i hi => hl i (List.mem_cons_of_mem _ hi)) _
        (by rw [xorSym_length, hacc, hl i List.mem_cons_self, Nat.min_self])]

theorem WfInter.getD_nil {l t : Nat} {c : Inter} (hc : WfInter l t c) (i : Nat) : IsBytes (c.getD i []) := by
  by_cases hi : i < l
  · exact (hc.2 i hi).2
  · rw [Array.getD_eq_getD_getElem?, Array.getElem?_eq_none (by have := hc.1; omega)]
    intro x hx; simp at hx

/-! ### writing one entry -/

theorem zipWith_setIfInBounds {α β γ : Type} (f : α → β → γ) (a : Array α) (b : Array β)
    (h : a.size = b.size) (d : Nat) (x : α) (y : β) :
    Array.zipWith f (a.setIfInBounds d x) (b.setIfInBounds d y) =
      (Array.zipWith f a b).setIfInBounds d (f x y) := by
  apply Array.ext_getElem?
  intro i
  simp only [Array.getElem?_zipWith, Array.getElem?_setIfInBounds, Array.size_zipWith, ← h, Nat.min_self]
  by_cases hdi : d = i
  · subst hdi
    by_cases hd : d < a.size
    · simp [hd]
    · simp [hd]
  · simp [hdi]

theorem map_setIfInBounds' {α β : Type} (f : α → β) (a : Array α) (d : Nat) (x : α) :
    (a.setIfInBounds d x).map f = (a.map f).setIfInBounds d (f x) := by
  apply Array.ext_getElem?
  intro i
  simp only [Array.getElem?_map, Array.getElem?_setIfInBounds, Array.size_map]
  by_cases hdi : d = i
  · subst hdi
    by_cases hd : d < a.size <;> simp [hd]
  · simp [hdi]

theorem xorInter_set (a b : Inter) (h : a.size = b.size) (d : Nat) (x y : Sym) :
    xorInter (a.setIfInBounds d x) (b.setIfInBounds d y) = (xorInter a b).setIfInBounds d (xorSym x y) :=
  zipWith_setIfInBounds xorSym a b h d x y

theorem mulInter_set (k : Nat) (a : Inter) (d : Nat) (x : Sym) :
    mulInter k (a.setIfInBounds d x) = (mulInter k a).setIfInBounds d (mulSym k x) :=
  map_setIfInBounds' (mulSym k) a d x

theorem colInter_set (j : Nat) (a : Inter) (d : Nat) (x : Sym) :
    colInter j (a.setIfInBounds d x) = (colInter j a).setIfInBounds d [x.getD j 0] :=
  map_setIfInBounds' (fun s : Sym => [s.getD j 0]) a d x

theorem getD_setIfInBounds {α : Type} (a : Array α) (d i : Nat) (x dflt : α) :
    (a.setIfInBounds d x).getD i dflt = if d = i ∧ d < a.size then x else a.getD i dflt := by
  simp only [Array.getD_eq_getD_getElem?, Array.getElem?_setIfInBounds]
  by_cases hdi : d = i
  · subst hdi
    by_cases hd : d < a.size
    · simp [hd]
    · simp [hd]
  · simp [hdi]

/-! ### one step of plan replay -/

/-- the physical indices `(d, q)` an op touches; depends only on the mapping and the size -/
def Slab.locate (s : Slab) : SymOp → Option (Nat × Nat)
  | .add dest src => s.pair? dest src
  | .mul dest _ =>
    match s.phys dest with
    | some d => if d < s.syms.size then some (d, d) else none
    | none => none
  | .fma dest src _ => s.pair? dest src
  | .reorder _ => some (0, 0)

/-- the value an op writes, from the old destination and the source -/
def opVal : SymOp → Sym → Sym → Sym
  | .add _ _, a, b => xorSym a b
  | .mul _ c, a, _ => mulSym c a
  | .fma _ _ c, a, b => fmaSym c a b
  | .reorder _, a, _ => a

def Slab.write (s : Slab) (op : SymOp) (d q : Nat) : Slab :=
  match op with
  | .reorder order => { s with mapping := some order }
  | op => { s with syms := s.syms.setIfInBounds d (opVal op (s.syms.getD d []) (s.syms.getD q [])) }

theorem Slab.apply_eq (s : Slab) (op : SymOp) :
    s.apply op = (s.locate op).map fun dq => s.write op dq.1 dq.2 := by
  cases op with
  | add dest src => rfl
  | mul dest c =>
    simp only [Slab.apply, Slab.locate]
    cases s.phys dest with
    | none => rfl
    | some d => by_cases hd : d < s.syms.size <;> simp [hd, Slab.write, opVal]
  | fma dest src c => rfl
  | reorder order => rfl

theorem Slab.locate_congr (s s' : Slab) (hm : s.mapping = s'.mapping) (hs : s.syms.size = s'.syms.size)
    (op : SymOp) : s.locate op = s'.locate op := by
  have hp : ∀ i, s.phys i = s'.phys i := fun i => by simp only [Slab.phys, hm]
  have hq : ∀ a b, s.pair? a b = s'.pair? a b := fun a b => by simp only [Slab.pair?, hp, hs]
  cases op <;> simp only [Slab.locate, hp, hq, hs]

theorem Slab.locate_lt (s : Slab) (op : SymOp) (d q : Nat) (h : s.locate op = some (d, q))
    (hop : ∀ o, op ≠ .reorder o) : d < s.syms.size ∧ q < s.syms.size := by
  have hq : ∀ a b, s.pair? a b = some (d, q) → d < s.syms.size ∧ q < s.syms.size := by
    intro a b h
    unfold Slab.pair? at h
    split at h
    · split at h
      · rename_i h'; cases h; exact ⟨h'.2.1, h'.2.2⟩
      · cases h
    · cases h
  cases op with
  | add dest src => exact hq _ _ h
  | fma dest src c => exact hq _ _ h
  | reorder o => exact absurd rfl (hop o)
  | mul dest c =>
    simp only [Slab.locate] at h
    split at h
    · split at h
      · rename_i h'; cases h; exact ⟨h', h'⟩
      · cases h
    · cases h

theorem Slab.write_mapping_size (s : Slab) (op : SymOp) (d q : Nat) :
    (s.write op d q).syms.size = s.syms.size ∧
      (s.write op d q).mapping = (match op with | .reorder o => some o | _ => s.mapping) := by
  cases op <;> simp [Slab.write]

/-- the constant of a `mul` / `fma` is a byte -/
def opOk : SymOp → Prop
  | .mul _ c => c < 256
  | .fma _ _ c => c < 256
  | _ => True

theorem opVal_wf (t : Nat) (op : SymOp) (hop : opOk op) (a b : Sym) (ha : WfSym t a) (hb : WfSym t b) :
    WfSym t (opVal op a b) := by
  cases op with
  | add _ _ => exact ha.xor hb
  | mul _ c => exact ha.mul hop
  | fma _ _ c => exact ha.fma hop hb
  | reorder _ => exact ha

theorem opVal_length (t : Nat) (op : SymOp) (a b : Sym) (ha : a.length = t) (hb : b.length = t) :
    (opVal op a b).length = t := by
  cases op with
  | add _ _ => simp [opVal, xorSym_length, ha, hb]
  | mul _ c => simp [opVal, mulSym_length, ha]
  | fma _ _ c => simp [opVal, fmaSym_eq, xorSym_length, mulSym_length, ha, hb]
  | reorder _ => exact ha

theorem opVal_add (op : SymOp) (hop : opOk op) (a a' b b' : Sym)
    (ha : IsBytes a) (ha' : IsBytes a') (hb : IsBytes b) (hb' : IsBytes b') :
    opVal op (xorSym a a') (xorSym b b') = xorSym (opVal op a b) (opVal op a' b') := by
  cases op with
  | add _ _ => exact xorSym_xorSym a a' b b'
  | mul _ c => exact mulSym_xorSym c hop a a' ha ha'
  | fma _ _ c =>
    simp only [opVal, fmaSym_eq]
    rw [mulSym_xorSym c hop b b' hb hb', xorSym_xorSym]
  | reorder _ => rfl

theorem opVal_mul (k : Nat) (hk : k < 256) (op : SymOp) (hop : opOk op) (a b : Sym)
    (ha : IsBytes a) (hb : IsBytes b) :
    opVal op (mulSym k a) (mulSym k b) = mulSym k (opVal op a b) := by
  cases op with
  | add _ _ => exact (mulSym_xorSym k hk a b ha hb).symm
  | mul _ c => exact (mulSym_mulSym k c hk hop a ha).symm
  | fma _ _ c =>
    simp only [opVal, fmaSym_eq]
    rw [mulSym_xorSym k hk a _ ha (isBytes_mulSym c hop b hb), mulSym_mulSym k c hk hop b hb]
  | reorder _ => rfl

theorem opVal_col (j : Nat) (op : SymOp) (a b : Sym) (h : a.length = b.length) :
    opVal op [a.getD j 0] [b.getD j 0] = [(opVal op a b).getD j 0] := by
  cases op with
  | add _ _ => exact (col_xorSym j a b h).symm
  | mul _ c => exact (col_mulSym j c a).symm
  | fma _ _ c =>
    simp only [opVal, fmaSym_eq]
    rw [col_xorSym j a _ (by rw [mulSym_length, h]), col_mulSym]
  | reorder _ => rfl

theorem Slab.run_cons (s : Slab) (op : SymOp) (rest : List SymOp) :
    s.run (op :: rest) = (s.apply op).bind fun s1 => s1.run rest := by
  simp only [Slab.run, List.foldlM_cons]
  rfl

theorem Slab.run_nil (s : Slab) : s.run [] = some s := rfl

/-- mapping and size: all that decides whether an op panics -/
def SameLayout (s s' : Slab) : Prop := s.mapping = s'.mapping ∧ s.syms.size = s'.syms.size

theorem SameLayout.write {s s' : Slab} (h : SameLayout s s') (op : SymOp) (d q : Nat) :
    SameLayout (s.write op d q) (s'.write op d q) := by
  have h1 := s.write_mapping_size op d q
  have h2 := s'.write_mapping_size op d q
  refine ⟨?_, by rw [h1.1, h2.1, h.2]⟩
  rw [h1.2, h2.2]
  cases op <;> simp only [h.1]

theorem run_isSome_layout (ops : List SymOp) (s s' : Slab) (h : SameLayout s s') :
    (s.run ops).isSome = (s'.run ops).isSome := by
  induction ops generalizing s s' with
  | nil => rfl
  | cons op rest ih =>
    rw [Slab.run_cons, Slab.run_cons, Slab.apply_eq, Slab.apply_eq, Slab.locate_congr s s' h.1 h.2]
    cases s'.locate op with
    | none => rfl
    | some dq => exact ih _ _ (h.write op dq.1 dq.2)

/-- every symbol has `t` bytes -/
def AllWf (t : Nat) (s : Slab) : Prop := ∀ i, i < s.syms.size → WfSym t (s.syms.getD i [])
def AllLen (t : Nat) (s : Slab) : Prop := ∀ i, i < s.syms.size → (s.syms.getD i []).length = t

theorem AllWf.allLen {t : Nat} {s : Slab} (h : AllWf t s) : AllLen t s := fun i hi => (h i hi).1

theorem Slab.write_of_ne (s : Slab) (op : SymOp) (d q : Nat) (hop : ∀ o, op ≠ .reorder o) :
    s.write op d q =
      { s with syms := s.syms.setIfInBounds d (opVal op (s.syms.getD d []) (s.syms.getD q [])) } := by
  cases op with
  | reorder o => exact absurd rfl (hop o)
  | add _ _ | mul _ _ | fma _ _ _ => rfl

theorem Slab.write_getD (s : Slab) (op : SymOp) (d q i : Nat) (hop : ∀ o, op ≠ .reorder o) :
    (s.write op d q).syms.getD i [] =
      if d = i ∧ d < s.syms.size then opVal op (s.syms.getD d []) (s.syms.getD q []) else s.syms.getD i [] := by
  rw [s.write_of_ne op d q hop]
  exact getD_setIfInBounds _ _ _ _ _

theorem SymOp.reorder_or (op : SymOp) : (∃ o, op = .reorder o) ∨ ∀ o, op ≠ .reorder o := by
  cases op <;> simp

theorem AllWf.write {t : Nat} {s : Slab} (h : AllWf t s) (op : SymOp) (hop : opOk op) (d q : Nat)
    (hdq : (∀ o, op ≠ .reorder o) → d < s.syms.size ∧ q < s.syms.size) : AllWf t (s.write op d q) := by
  intro i hi
  rw [(s.write_mapping_size op d q).1] at hi
  rcases op.reorder_or with ⟨o, rfl⟩ | hne
  · exact h i hi
  · obtain ⟨hd, hq⟩ := hdq hne
    rw [s.write_getD op d q i hne]
    by_cases hc : d = i ∧ d < s.syms.size
    · rw [if_pos hc]; exact opVal_wf t _ hop _ _ (h d hd) (h q hq)
    · rw [if_neg hc]; exact h i hi

theorem AllLen.write {t : Nat} {s : Slab} (h : AllLen t s) (op : SymOp) (d q : Nat)
    (hdq : (∀ o, op ≠ .reorder o) → d < s.syms.size ∧ q < s.syms.size) : AllLen t (s.write op d q) := by
  intro i hi
  rw [(s.write_mapping_size op d q).1] at hi
  rcases op.reorder_or with ⟨o, rfl⟩ | hne
  · exact h i hi
  · obtain ⟨hd, hq⟩ := hdq hne
    rw [s.write_getD op d q i hne]
    by_cases hc : d = i ∧ d < s.syms.size
    · rw [if_pos hc]; exact opVal_length t _ _ _ (h d hd) (h q hq)
    · rw [if_neg hc]; exact h i hi

theorem write_xor (t : Nat) (s s' : Slab) (h : SameLayout s s') (hw : AllWf t s) (hw' : AllWf t s')
    (op : SymOp) (hop : opOk op) (d q : Nat) (hdq : (∀ o, op ≠ .reorder o) → d < s.syms.size ∧ q < s.syms.size) :
    ({ syms := xorInter s.syms s'.syms, mapping := s.mapping } : Slab).write op d q =
      { syms := xorInter (s.write op d q).syms (s'.write op d q).syms,
        mapping := (s.write op d q).mapping } := by
  rcases op.reorder_or with ⟨o, rfl⟩ | hne
  · rfl
  · obtain ⟨hd, hq⟩ := hdq hne
    rw [Slab.write_of_ne _ op d q hne, Slab.write_of_ne s op d q hne, Slab.write_of_ne s' op d q hne]
    simp only
    rw [xorInter_set _ _ h.2, getD_xorInter _ _ h.2, getD_xorInter _ _ h.2,
      opVal_add op hop _ _ _ _ (hw d hd).2 (hw' d (h.2 ▸ hd)).2 (hw q hq).2 (hw' q (h.2 ▸ hq)).2]

theorem write_mul (t k : Nat) (hk : k < 256) (s : Slab) (hw : AllWf t s)
    (op : SymOp) (hop : opOk op) (d q : Nat) (hdq : (∀ o, op ≠ .reorder o) → d < s.syms.size ∧ q < s.syms.size) :
    ({ syms := mulInter k s.syms, mapping := s.mapping } : Slab).write op d q =
      { syms := mulInter k (s.write op d q).syms, mapping := (s.write op d q).mapping } := by
  rcases op.reorder_or with ⟨o, rfl⟩ | hne
  · rfl
  · obtain ⟨hd, hq⟩ := hdq hne
    rw [Slab.write_of_ne _ op d q hne, Slab.write_of_ne s op d q hne]
    simp only
    rw [mulInter_set, getD_mulInter, getD_mulInter, opVal_mul k hk op hop _ _ (hw d hd).2 (hw q hq).2]

theorem write_col (t j : Nat) (s : Slab) (hw : AllLen t s)
    (op : SymOp) (d q : Nat) (hdq : (∀ o, op ≠ .reorder o) → d < s.syms.size ∧ q < s.syms.size) :
    ({ syms := colInter j s.syms, mapping := s.mapping } : Slab).write op d q =
      { syms := colInter j (s.write op d q).syms, mapping := (s.write op d q).mapping } := by
  rcases op.reorder_or with ⟨o, rfl⟩ | hne
  · rfl
  · obtain ⟨hd, hq⟩ := hdq hne
    rw [Slab.write_of_ne _ op d q hne, Slab.write_of_ne s op d q hne]
    simp only
    rw [colInter_set, getD_colInter j _ d [] [] hd, getD_colInter j _ q [] [] hq,
      opVal_col j op _ _ (by rw [hw d hd, hw q hq])]

def denseTerm (row : Array Nat) (x : Inter) (t : Nat) (acc : Sym) (j : Nat) : Sym :=
  if (row.getD j 0 != 0) = true then
    xorSym acc (if (row.getD j 0 == 1) = true then x.getD j (zeroSym t)
      else scaleSym (row.getD j 0) (x.getD j (zeroSym t)))
  else acc

theorem evalDenseRow_eq (row : Array Nat) (x : Inter) (t : Nat) :
    evalDenseRow row x t = (List.range row.size).foldl (denseTerm row x t) (zeroSym t) := by
  unfold evalDenseRow
  simp only [Std.Legacy.Range.forIn_eq_forIn_range']
  have key : ∀ (l : List Nat) (init : Sym),
      (forIn (m := Id) l init fun j __s =>
        if (row.getD j 0 != 0) = true then
          pure (ForInStep.yield (xorSym __s
            (if (row.getD j 0 == 1) = true then Array.getD x j (zeroSym t)
              else scaleSym (row.getD j 0) (Array.getD x j (zeroSym t)))))
        else pure (ForInStep.yield __s)) = pure (l.foldl (denseTerm row x t) init) := by
    intro l
    induction l with
    | nil => intro init; rfl
    | cons j l ih =>
      intro init
      rw [List.forIn_cons, List.foldl_cons]
      by_cases hv : (row.getD j 0 != 0) = true
      · rw [if_pos hv]
        simp only [pure_bind]
        rw [ih]
        simp only [denseTerm, if_pos hv]
      · rw [if_neg hv]
        simp only [pure_bind]
        rw [ih]
        simp only [denseTerm, if_neg hv]
  rw [key]
  simp [Std.Legacy.Range.size, List.range_eq_range']

theorem scaleSym_eq (v : Nat) (s : Sym) : scaleSym v s = mulSym v s := rfl

theorem WfInter.getD_zero {l t : Nat} {c : Inter} (hc : WfInter l t c) (i : Nat) :
    WfSym t (c.getD i (zeroSym t)) := by
  by_cases hi : i < l
  · have := hc.2 i hi
    rwa [Array.getD_eq_getD_getElem?, Array.getElem?_eq_getElem (by rw [hc.1]; exact hi)] at this ⊢
  · rw [Array.getD_eq_getD_getElem?, Array.getElem?_eq_none (by have := hc.1; omega)]
    exact wfSym_zeroSym t

theorem denseTerm_add (row : Array Nat) (t : Nat) (c c' : Inter) (l : Nat) (hc : WfInter l t c)
    (hc' : WfInter l t c') (hrow : ∀ v ∈ row.toList, v < 256) (acc acc' : Sym) (j : Nat) (hj : j < row.size) :
    denseTerm row (xorInter c c') t (xorSym acc acc') j =
      xorSym (denseTerm row c t acc j) (denseTerm row c' t acc' j) := by
  have hs : c.size = c'.size := by rw [hc.1, hc'.1]
  have hv : row.getD j 0 < 256 := by
    apply hrow
    rw [Array.getD_eq_getD_getElem?, Array.getElem?_eq_getElem hj]
    simp
  unfold denseTerm
  by_cases h0 : (row.getD j 0 != 0) = true
  · simp only [if_pos h0, getD_xorInter_zero t c c' hs]
    by_cases h1 : (row.getD j 0 == 1) = true
    · simp only [if_pos h1]
      exact xorSym_xorSym _ _ _ _
    · simp only [if_neg h1, scaleSym_eq]
      rw [mulSym_xorSym _ hv _ _ (hc.getD_zero j).2 (hc'.getD_zero j).2]
      exact xorSym_xorSym _ _ _ _
  · simp only [if_neg h0]

theorem denseTerm_wf (row : Array Nat) (t : Nat) (c : Inter) (l : Nat) (hc : WfInter l t c)
    (hrow : ∀ v ∈ row.toList, v < 256) (acc : Sym) (hacc : WfSym t acc) (j : Nat) (hj : j < row.size) :
    WfSym t (denseTerm row c t acc j) := by
  have hv : row.getD j 0 < 256 := by
    apply hrow
    rw [Array.getD_eq_getD_getElem?, Array.getElem?_eq_getElem hj]
    simp
  unfold denseTerm
  by_cases h0 : (row.getD j 0 != 0) = true
  · rw [if_pos h0]
    by_cases h1 : (row.getD j 0 == 1) = true
    · rw [if_pos h1]; exact hacc.xor (hc.getD_zero j)
    · rw [if_neg h1]; exact hacc.xor ((hc.getD_zero j).mul hv)
  · rw [if_neg h0]; exact hacc

theorem denseTerm_length (row : Array Nat) (t : Nat) (c : Inter) (l : Nat) (hc : WfInter l t c)
    (acc : Sym) (hacc : acc.length = t) (j : Nat) :
    (denseTerm row c t acc j).length = t := by
  unfold denseTerm
  by_cases h0 : (row.getD j 0 != 0) = true
  · rw [if_pos h0]
    by_cases h1 : (row.getD j 0 == 1) = true
    · rw [if_pos h1, xorSym_length, hacc, (hc.getD_zero j).1, Nat.min_self]
    · rw [if_neg h1, xorSym_length, hacc, scaleSym_eq, mulSym_length, (hc.getD_zero j).1, Nat.min_self]
  · rw [if_neg h0]; exact hacc

theorem denseTerm_col (row : Array Nat) (t : Nat) (c : Inter) (l : Nat) (hc : WfInter l t c) (col : Nat)
    (acc : Sym) (hacc : acc.length = t) (j : Nat) :
    denseTerm row (colInter col c) 1 [acc.getD col 0] j = [(denseTerm row c t acc j).getD col 0] := by
  unfold denseTerm
  by_cases h0 : (row.getD j 0 != 0) = true
  · simp only [if_pos h0, getD_colInter_zero col t c]
    by_cases h1 : (row.getD j 0 == 1) = true
    · simp only [if_pos h1]
      exact (col_xorSym col _ _ (by rw [hacc, (hc.getD_zero j).1])).symm
    · simp only [if_neg h1, scaleSym_eq]
      rw [col_xorSym col _ _ (by rw [hacc, mulSym_length, (hc.getD_zero j).1]), col_mulSym]
  · simp only [if_neg h0]

theorem evalDenseRow_add (row : Array Nat) (t : Nat) (c c' : Inter) (l : Nat) (hc : WfInter l t c)
    (hc' : WfInter l t c') (hrow : ∀ v ∈ row.toList, v < 256) :
    evalDenseRow row (xorInter c c') t = xorSym (evalDenseRow row c t) (evalDenseRow row c' t) := by
  rw [evalDenseRow_eq, evalDenseRow_eq, evalDenseRow_eq, ← xorSym_zeroSym t]
  generalize hz : xorSym (zeroSym t) (zeroSym t) = z
  rw [xorSym_zeroSym] at hz
  subst hz
  have key : ∀ (js : List Nat), (∀ j ∈ js, j < row.size) → ∀ acc acc' : Sym,
      js.foldl (denseTerm row (xorInter c c') t) (xorSym acc acc') =
        xorSym (js.foldl (denseTerm row c t) acc) (js.foldl (denseTerm row c' t) acc') := by
    intro js
    induction js with
    | nil => intros; rfl
    | cons j js ih =>
      intro hjs acc acc'
      simp only [List.foldl_cons]
      rw [denseTerm_add row t c c' l hc hc' hrow acc acc' j (hjs j List.mem_cons_self)]
      exact ih (fun i hi => hjs i (List.mem_cons_of_mem _ hi)) _ _
  have := key (List.range row.size) (fun j hj => List.mem_range.mp hj) (zeroSym t) (zeroSym t)
  rwa [xorSym_zeroSym] at this

theorem evalDenseRow_wf (row : Array Nat) (t : Nat) (c : Inter) (l : Nat) (hc : WfInter l t c)
    (hrow : ∀ v ∈ row.toList, v < 256) : WfSym t (evalDenseRow row c t) := by
  rw [evalDenseRow_eq]
  have key : ∀ (js : List Nat), (∀ j ∈ js, j < row.size) → ∀ acc : Sym, WfSym t acc →
      WfSym t (js.foldl (denseTerm row c t) acc) := by
    intro js
    induction js with
    | nil => intro _ acc h; exact h
    | cons j js ih =>
      intro hjs acc hacc
      exact ih (fun i hi => hjs i (List.mem_cons_of_mem _ hi)) _
        (denseTerm_wf row t c l hc hrow acc hacc j (hjs j List.mem_cons_self))
  exact key _ (fun j hj => List.mem_range.mp hj) _ (wfSym_zeroSym t)

theorem evalDenseRow_col (row : Array Nat) (t : Nat) (c : Inter) (l : Nat) (hc : WfInter l t c) (col : Nat) :
    evalDenseRow row (colInter col c) 1 = [(evalDenseRow row c t).getD col 0] := by
  rw [evalDenseRow_eq, evalDenseRow_eq]
  have key : ∀ (js : List Nat) (acc : Sym), acc.length = t →
      js.foldl (denseTerm row (colInter col c) 1) [acc.getD col 0] =
        [(js.foldl (denseTerm row c t) acc).getD col 0] := by
    intro js
    induction js with
    | nil => intros; rfl
    | cons j js ih =>
      intro acc hacc
      simp only [List.foldl_cons]
      rw [denseTerm_col row t c l hc col acc hacc j]
      exact ih _ (denseTerm_length row t c l hc acc hacc j)
  have := key (List.range row.size) (zeroSym t) (wfSym_zeroSym t).1
  have hz : [(zeroSym t).getD col 0] = zeroSym 1 := by
    simp only [zeroSym, List.getD_eq_getElem?_getD, List.getElem?_replicate]
    split <;> rfl
  rwa [hz] at this

theorem evalBinRow_add (cols : List Nat) (t : Nat) (c c' : Inter) (hs : c.size = c'.size) :
    evalBinRow cols (xorInter c c') t = xorSym (evalBinRow cols c t) (evalBinRow cols c' t) := by
  rw [evalBinRow_eq, evalBinRow_eq, evalBinRow_eq]
  have := foldXor_add c c' (zeroSym t) (zeroSym t) (zeroSym t) (getD_xorInter_zero t c c' hs) cols
    (zeroSym t) (zeroSym t)
  rwa [xorSym_zeroSym] at this

theorem evalBinRow_wf (cols : List Nat) (l t : Nat) (c : Inter) (hc : WfInter l t c) :
    WfSym t (evalBinRow cols c t) :=
  foldXor_wf t c (zeroSym t) cols (fun i _ => hc.getD_zero i) _ (wfSym_zeroSym t)

theorem evalBinRow_col (cols : List Nat) (l t : Nat) (c : Inter) (hc : WfInter l t c) (j : Nat) :
    evalBinRow cols (colInter j c) 1 = [(evalBinRow cols c t).getD j 0] := by
  rw [evalBinRow_eq, evalBinRow_eq]
  have := foldXor_col j t c (zeroSym t) (zeroSym 1) cols (fun i _ => getD_colInter_zero j t c i)
    (fun i _ => (hc.getD_zero i).1) (zeroSym t) (wfSym_zeroSym t).1
  have hz : [(zeroSym t).getD j 0] = zeroSym 1 := by
    simp only [zeroSym, List.getD_eq_getElem?_getD, List.getElem?_replicate]
    split <;> rfl
  rwa [hz] at this

theorem zipWith_map_map {α β γ δ : Type} (f : β → γ → δ) (g : α → β) (h : α → γ) (l : List α) :
    List.zipWith f (l.map g) (l.map h) = l.map fun a => f (g a) (h a) := by
  induction l with
  | nil => rfl
  | cons a l ih => simp [ih]

/-- `System.apply` as three mapped pieces -/
theorem System.apply_eq (a : System) (x : Inter) (t : Nat) :
    a.apply x t = (a.bin.toList.take a.nLdpc).map (fun cols => evalBinRow cols x t) ++
      a.hdpc.toList.map (fun r => evalDenseRow r x t) ++
      (a.bin.toList.drop a.nLdpc).map (fun cols => evalBinRow cols x t) := by
  simp only [System.apply, List.map_take, List.map_drop]

theorem System.apply_length (a : System) (x : Inter) (t : Nat) : (a.apply x t).length = a.rows := by
  rw [System.apply_eq]
  simp only [List.length_append, List.length_map, List.length_take, List.length_drop, System.rows,
    Array.length_toList]
  omega

theorem System.apply_add' (a : System) (t : Nat) (c c' : Inter) (hc : WfInter a.l t c) (hc' : WfInter a.l t c')
    (hh : ∀ row ∈ a.hdpc.toList, ∀ v ∈ row.toList, v < 256) :
    a.apply (xorInter c c') t = List.zipWith xorSym (a.apply c t) (a.apply c' t) := by
  have hs : c.size = c'.size := by rw [hc.1, hc'.1]
  rw [System.apply_eq, System.apply_eq, System.apply_eq,
    List.zipWith_append (by simp), List.zipWith_append (by simp),
    zipWith_map_map, zipWith_map_map, zipWith_map_map]
  congr 1
  · congr 1
    · exact List.map_congr_left fun cols _ => evalBinRow_add cols t c c' hs
    · exact List.map_congr_left fun row hrow => evalDenseRow_add row t c c' a.l hc hc' (hh row hrow)
  · exact List.map_congr_left fun cols _ => evalBinRow_add cols t c c' hs

theorem System.apply_col' (a : System) (t : Nat) (c : Inter) (hc : WfInter a.l t c) (j : Nat) :
    colSyms j (a.apply c t) = a.apply (colInter j c) 1 := by
  rw [System.apply_eq, System.apply_eq]
  simp only [colSyms, List.map_append, List.map_map]
  congr 1
  · congr 1
    · exact List.map_congr_left fun cols _ => (evalBinRow_col cols a.l t c hc j).symm
    · exact List.map_congr_left fun row _ => (evalDenseRow_col row t c a.l hc j).symm
  · exact List.map_congr_left fun cols _ => (evalBinRow_col cols a.l t c hc j).symm

theorem System.apply_wf (a : System) (t : Nat) (c : Inter) (hc : WfInter a.l t c)
    (hh : ∀ row ∈ a.hdpc.toList, ∀ v ∈ row.toList, v < 256) : ∀ s ∈ a.apply c t, WfSym t s := by
  intro s hs
  rw [System.apply_eq] at hs
  simp only [List.mem_append, List.mem_map] at hs
  rcases hs with (⟨cols, _, rfl⟩ | ⟨row, hrow, rfl⟩) | ⟨cols, _, rfl⟩
  · exact evalBinRow_wf cols a.l t c hc
  · exact evalDenseRow_wf row t c a.l hc (hh row hrow)
  · exact evalBinRow_wf cols a.l t c hc

theorem eq_of_xor_eq_zero (a b : Nat) (h : a ^^^ b = 0) : a = b := by
  have : a ^^^ (a ^^^ b) = a ^^^ 0 := by rw [h]
  rw [← Nat.xor_assoc, Nat.xor_self, Nat.zero_xor, Nat.xor_zero] at this
  exact this.symm

theorem WfInter.xor {l t : Nat} {c c' : Inter} (hc : WfInter l t c) (hc' : WfInter l t c') :
    WfInter l t (xorInter c c') := by
  have hs : c.size = c'.size := by rw [hc.1, hc'.1]
  refine ⟨by rw [xorInter_size, hc.1, hc'.1, Nat.min_self], fun i hi => ?_⟩
  rw [getD_xorInter c c' hs]
  exact (hc.2 i hi).xor (hc'.2 i hi)

theorem getD_lt_of_isBytes {s : Sym} (h : IsBytes s) (j : Nat) : s.getD j 0 < 256 := by
  rw [List.getD_eq_getElem?_getD]
  cases hx : s[j]? with
  | none => simp
  | some x => exact getElem?_lt_of_isBytes h hx

theorem WfInter.col {l t : Nat} {c : Inter} (hc : WfInter l t c) (j : Nat) : WfInter l 1 (colInter j c) := by
  refine ⟨by rw [colInter_size, hc.1], fun i hi => ?_⟩
  rw [getD_colInter j c i [] [] (by rw [hc.1]; exact hi)]
  refine ⟨rfl, ?_⟩
  intro x hx
  rw [List.mem_singleton] at hx
  subst hx
  exact getD_lt_of_isBytes (hc.2 i hi).2 j

theorem sym_ext_getD (a b : Sym) (hl : a.length = b.length) (h : ∀ j, j < a.length → a.getD j 0 = b.getD j 0) :
    a = b := by
  apply List.ext_getElem hl
  intro i h1 h2
  have := h i h1
  rwa [List.getD_eq_getElem?_getD, List.getD_eq_getElem?_getD, List.getElem?_eq_getElem h1,
    List.getElem?_eq_getElem h2, Option.getD_some, Option.getD_some] at this

theorem inter_ext_getD (x y : Inter) (hs : x.size = y.size) (h : ∀ i, i < x.size → x.getD i [] = y.getD i []) :
    x = y := by
  apply Array.ext hs
  intro i h1 h2
  have := h i h1
  rwa [Array.getD_eq_getD_getElem?, Array.getD_eq_getD_getElem?, Array.getElem?_eq_getElem h1,
    Array.getElem?_eq_getElem h2, Option.getD_some, Option.getD_some] at this

/-- a determined system has at most one solution (column by column) -/
theorem determined_unique (a : System) (t : Nat) (x y : Inter) (hx : WfInter a.l t x) (hy : WfInter a.l t y)
    (hh : ∀ row ∈ a.hdpc.toList, ∀ v ∈ row.toList, v < 256) (hd : Determined a)
    (h : a.apply x t = a.apply y t) : x = y := by
  apply inter_ext_getD x y (by rw [hx.1, hy.1])
  intro i hi
  rw [hx.1] at hi
  apply sym_ext_getD _ _ (by rw [(hx.2 i hi).1, (hy.2 i hi).1])
  intro j _
  have hz := hd (colInter j (xorInter x y)) ((hx.xor hy).col j) ?_ i hi
  · rw [getD_colInter j _ i [] [] (by rw [xorInter_size, hx.1, hy.1, Nat.min_self]; exact hi),
      getD_xorInter x y (by rw [hx.1, hy.1]),
      getD_xorSym j _ _ (by rw [(hx.2 i hi).1, (hy.2 i hi).1])] at hz
    have hz : (x.getD i []).getD j 0 ^^^ (y.getD i []).getD j 0 = 0 := by simpa using hz
    exact eq_of_xor_eq_zero _ _ hz
  · intro s hs
    rw [← System.apply_col' a t _ (hx.xor hy) j, System.apply_add' a t x y hx hy hh, h] at hs
    simp only [colSyms, List.mem_map] at hs
    obtain ⟨d, hd', rfl⟩ := hs
    obtain ⟨k, hk⟩ := List.getElem?_of_mem hd'
    rw [List.getElem?_zipWith] at hk
    cases hdk : (a.apply y t)[k]? with
    | none => simp [hdk] at hk
    | some e =>
      simp only [hdk] at hk
      cases hk
      rw [getD_xorSym j e e rfl, Nat.xor_self]

theorem oexp_lt (i : Nat) (h : i < 510) : oexp i < 256 := by rw [oexp_eq i h]; exact E_lt i

theorem hdpcStep_bytes (h j : Nat) (next col : List Nat) (hn : IsBytes next)
    (hs : hdpcStep h j next = some col) : IsBytes col := by
  unfold hdpcStep at hs
  split at hs
  · cases hs
    have h1 : IsBytes (next.map (gmul 2)) := isBytes_mulSym 2 (by decide) next hn
    have hset : ∀ (l : List Nat) (i : Nat), IsBytes l → IsBytes (l.set i (l.getD i 0 ^^^ 1)) := by
      intro l i hl x hx
      rcases List.mem_or_eq_of_mem_set hx with hx | rfl
      · exact hl x hx
      · exact xor_lt256 _ _ (getD_lt_of_isBytes hl i) (by decide)
    exact hset _ _ (hset _ _ h1)
  · cases hs

theorem hdpcCols_go_bytes (h : Nat) : ∀ (j : Nat) (next : List Nat) (acc res : List (List Nat)),
    IsBytes next → (∀ c ∈ acc, IsBytes c) → hdpcCols.go h j next acc = some res → ∀ c ∈ res, IsBytes c := by
  intro j
  induction j with
  | zero =>
    intro next acc res _ hacc hr
    simp only [hdpcCols.go] at hr
    cases hr
    exact hacc
  | succ j ih =>
    intro next acc res hn hacc hr
    simp only [hdpcCols.go] at hr
    split at hr
    · cases hr
    · rename_i col hcol
      have hb := hdpcStep_bytes h j next col hn hcol
      refine ih col (col :: acc) res hb ?_ hr
      intro c hc
      rcases List.mem_cons.mp hc with rfl | hc
      · exact hb
      · exact hacc c hc

theorem hdpcCols_bytes (h n : Nat) (cols : Array (List Nat)) (hc : hdpcCols h n = some cols) :
    ∀ c ∈ cols.toList, IsBytes c := by
  unfold hdpcCols at hc
  split at hc
  · cases hc
  · split at hc
    · cases hc
    · rename_i last hlast
      obtain ⟨res, hres, rfl⟩ := Option.map_eq_some_iff.mp hc
      have hl : IsBytes last := by
        obtain ⟨hlen, hget⟩ := (mapM_range_eq_some_iff galpha h last).mp hlast
        intro x hx
        obtain ⟨i, hi⟩ := List.getElem?_of_mem hx
        have hih : i < h := by
          have := (List.getElem?_eq_some_iff.mp hi).1
          omega
        have := hget i hih
        rw [hi] at this
        unfold galpha at this
        split at this
        · rw [← Option.some.inj this]; exact oexp_lt i (by omega)
        · cases this
      simpa using hdpcCols_go_bytes h (n - 1) last [last] res hl (by simpa using hl) hres

theorem hdpcRows_bytes (sp : SysParams) (hd : Array (Array Nat)) (h : hdpcRows sp = some hd) :
    ∀ row ∈ hd.toList, ∀ v ∈ row.toList, v < 256 := by
  unfold hdpcRows at h
  split at h
  · cases h
  · rename_i cols hcols
    cases h
    intro row hrow v hv
    rw [Array.mem_toList_iff, Array.mem_ofFn] at hrow
    obtain ⟨i, rfl⟩ := hrow
    rw [Array.mem_toList_iff, Array.mem_ofFn] at hv
    obtain ⟨j, rfl⟩ := hv
    split
    · have hb : IsBytes (cols.getD j.val []) := by
        rw [Array.getD_eq_getD_getElem?]
        cases hx : cols[j.val]? with
        | none => intro x hx; simp at hx
        | some c => exact hdpcCols_bytes _ _ cols hcols c (by simpa using Array.mem_of_getElem? hx)
      exact getD_lt_of_isBytes hb _
    · split <;> decide

theorem fullSystem_hdpc_bytes (sp : SysParams) (isis : List Nat) (a : System) (h : fullSystem sp isis = some a) :
    a.l = sp.l ∧ ∀ row ∈ a.hdpc.toList, ∀ v ∈ row.toList, v < 256 := by
  unfold fullSystem at h
  obtain ⟨⟨bin, hd⟩, hcm, rfl⟩ := Option.map_eq_some_iff.mp h
  refine ⟨rfl, ?_⟩
  unfold constraintMatrix at hcm
  split at hcm
  · cases hcm
  · split at hcm
    · rename_i hrows
      cases hcm
      exact hdpcRows_bytes sp _ hrows
    · cases hcm

theorem repairPacket_idx (e : BlockEnc) (hp : sysParams e.k = some e.sp) (r : Nat) (p : Packet)
    (h : e.repairPacket r = some p) :
    ∃ idx, encIndicesOf e.sp (e.sp.kp + r) = some idx ∧ idx ≠ [] ∧ (∀ i ∈ idx, i < e.sp.l) ∧
      p = ⟨⟨e.sbn, e.k + r⟩, encSymbol e.c idx⟩ := by
  obtain ⟨h1, _, idx, hidx, hpk⟩ := repairPacket_eq_some e r p h
  obtain ⟨sp', l, hsp', hl, hne, hlt⟩ := Rq.C15.encIndices_wf e.k (e.sp.kp + r) (sysParams_some_le _ _ hp)
    (by have : U32 = 4294967296 := rfl; omega)
  rw [hp] at hsp'
  cases hsp'
  rw [hidx] at hl
  cases hl
  exact ⟨idx, hidx, hne, hlt, hpk⟩

theorem zipWith_replicate_zero (n t : Nat) :
    List.zipWith xorSym (List.replicate n (zeroSym t)) (List.replicate n (zeroSym t)) =
      List.replicate n (zeroSym t) := by
  rw [List.zipWith_replicate, Nat.min_self, xorSym_zeroSym]

theorem createD_xor (sp : SysParams) (t : Nat) (src src' : List Sym) (h : src.length = src'.length) :
    createD sp t (List.zipWith xorSym src src') =
      List.zipWith xorSym (createD sp t src) (createD sp t src') := by
  unfold createD
  rw [List.zipWith_append (by simp [h]), List.zipWith_append (by simp), zipWith_replicate_zero,
    List.length_zipWith, ← h, Nat.min_self, zipWith_replicate_zero]

theorem col_zeroSym (j t : Nat) : [(zeroSym t).getD j 0] = zeroSym 1 := by
  simp only [zeroSym, List.getD_eq_getElem?_getD, List.getElem?_replicate]
  split <;> rfl

theorem createD_col (sp : SysParams) (t j : Nat) (src : List Sym) :
    createD sp 1 (colSyms j src) = colSyms j (createD sp t src) := by
  unfold createD colSyms
  simp only [List.map_append, List.map_replicate, List.length_map, col_zeroSym]

/-! ### the standard system exists for every K ≤ 56403 -/
section
open Rq.C15

def factH : Bool := (List.range 477).all fun i => decide (H i ≤ 256)
theorem factH_ok : factH = true := by decide +kernel
theorem H_le (i : Nat) (h : i < 477) : H i ≤ 256 := by
  have := factH_ok
  simp only [factH, List.all_eq_true, List.mem_range, decide_eq_true_eq] at this
  exact this i h

theorem hdpcStep_isSome (h j : Nat) (next : List Nat) (hh : 2 ≤ h) (hj : j < 65536) :
    (hdpcStep h j next).isSome := by
  unfold hdpcStep
  rw [rand_spec (j + 1) 6 h (by omega) (by omega) (by omega),
    rand_spec (j + 1) 7 (h - 1) (by omega) (by omega) (by omega)]
  rfl

theorem hdpcCols_go_isSome (h : Nat) (hh : 2 ≤ h) : ∀ (j : Nat) (next : List Nat) (acc : List (List Nat)),
    j ≤ 65536 → (hdpcCols.go h j next acc).isSome := by
  intro j
  induction j with
  | zero => intros; rfl
  | succ j ih =>
    intro next acc hj
    obtain ⟨col, hcol⟩ := Option.isSome_iff_exists.mp (hdpcStep_isSome h j next hh (by omega))
    simp only [hdpcCols.go, hcol]
    exact ih col _ (by omega)

theorem hdpcCols_isSome (h n : Nat) (hh : 2 ≤ h) (hh' : h ≤ 256) (hn : 0 < n) (hn' : n ≤ 65536) :
    (hdpcCols h n).isSome := by
  unfold hdpcCols
  rw [if_neg (by omega)]
  have : ((List.range h).mapM galpha).isSome := by
    rw [mapM_isSome_iff]
    intro i hi
    have := List.mem_range.mp hi
    unfold galpha
    rw [if_pos (by omega)]
    rfl
  obtain ⟨last, hlast⟩ := Option.isSome_iff_exists.mp this
  simp only [hlast, Option.isSome_map]
  exact hdpcCols_go_isSome h hh _ _ _ (by omega)

theorem fullSystem_isSome (k : Nat) (sp : SysParams) (h : sysParams k = some sp) :
    (fullSystem sp (List.range sp.kp)).isSome := by
  have hk := sysParams_some_le k sp h
  obtain ⟨i, hi⟩ := Option.isSome_iff_exists.mp ((rowOf_total k).mpr hk)
  obtain ⟨_, hi477, hki, _⟩ := rowOf_spec k i hi
  obtain ⟨hS, hW, hP1, hWL, hPP1, hleast, hSW, hH, hHP, hL, hW17, _, _, hJ, _, hP1lt⟩ := row_props i hi477
  have hrow := sysParams_row k i hi
  rw [h] at hrow
  have hsp := Option.some.inj hrow
  have e_kp : sp.kp = K' i := by rw [hsp]
  have e_s : sp.s = S i := by rw [hsp]
  have e_h : sp.h = H i := by rw [hsp]
  have e_w : sp.w = W i := by rw [hsp]
  have e_l : sp.l = L i := by rw [hsp]
  have e_p : sp.p = P i := by rw [hsp]
  have hLdef : L i = K' i + S i + H i := rfl
  have hPdef : P i = L i - W i := rfl
  have hS0 := hS.pos
  have h1 : (ldpcRows sp).isSome := by
    unfold ldpcRows
    rw [if_neg (by omega)]
    rfl
  have h2 : (encRows sp (List.range sp.kp)).isSome := by
    unfold encRows
    rw [mapM_isSome_iff]
    intro x hx
    have hx := List.mem_range.mp hx
    obtain ⟨sp', l, hsp', hl, _⟩ := encIndices_wf k x hk (by omega)
    rw [h] at hsp'
    cases hsp'
    simp [encRow, hl]
  have h3 : (hdpcRows sp).isSome := by
    unfold hdpcRows
    obtain ⟨cols, hcols⟩ := Option.isSome_iff_exists.mp
      (hdpcCols_isSome sp.h (sp.kp + sp.s) (by omega) (by have := H_le i hi477; omega) (by omega) (by omega))
    simp only [hcols]
    rfl
  obtain ⟨l, hl⟩ := Option.isSome_iff_exists.mp h1
  obtain ⟨er, her⟩ := Option.isSome_iff_exists.mp h2
  obtain ⟨hd, hhd⟩ := Option.isSome_iff_exists.mp h3
  unfold fullSystem constraintMatrix
  rw [if_neg (by simp only [List.length_range]; omega)]
  simp only [hl, her, hhd]
  rfl

end

end Rq
