import Mathlib.Algebra.BigOperators.Ring.List
import Mathlib.LinearAlgebra.FiniteDimensional.Basic
import Mathlib.LinearAlgebra.Pi
import Rq.Lemmas.EncoderSpec
import Rq.Lemmas.Hdpc
import Rq.Lemmas.Layout
/-!
# The constraint system as a linear map over GF(256)

Byte column `j` of every row of `System.apply` is a GF(256)-linear form in byte column `j` of the
argument (`apply_lin`). From this:
* `unique_of_determined`: two well-formed solutions of a `Determined` system coincide;
* `consistent_of_determined`: a `Determined` *square* system has a solution for every right-hand side
  (injective ⇒ surjective in finite dimension).
-/
namespace Rq.C04
open Rq

/-! ## symbols -/

/-- byte `j` of a symbol as a field element -/
def bv (s : Sym) (j : Nat) : GF256 := GF256.of (s.getD j 0)

theorem wf_getD_lt (t : Nat) (s : Sym) (h : WfSym t s) (j : Nat) : s.getD j 0 < 256 := by
  rw [List.getD_eq_getElem?_getD]
  cases hj : s[j]? with
  | none => simp
  | some v => exact h.2 v (List.mem_of_getElem? hj)

theorem wf_zeroSym (t : Nat) : WfSym t (zeroSym t) := by
  refine ⟨by simp [zeroSym], fun x hx => ?_⟩
  have := List.eq_of_mem_replicate hx
  omega

theorem wf_xorSym (t : Nat) (a b : Sym) (ha : WfSym t a) (hb : WfSym t b) : WfSym t (xorSym a b) := by
  refine ⟨by simp [xorSym, ha.1, hb.1], fun x hx => ?_⟩
  unfold xorSym at hx
  obtain ⟨i, hi, rfl⟩ := List.getElem_of_mem hx
  rw [List.getElem_zipWith]
  exact xor_lt256 _ _ (ha.2 _ (List.getElem_mem _)) (hb.2 _ (List.getElem_mem _))

theorem wf_scaleSym (t v : Nat) (a : Sym) (hv : v < 256) (ha : WfSym t a) : WfSym t (scaleSym v a) := by
  refine ⟨by simp [scaleSym, ha.1], fun x hx => ?_⟩
  unfold scaleSym at hx
  obtain ⟨y, hy, rfl⟩ := List.mem_map.mp hx
  exact gmul_lt _ _ hv (ha.2 y hy)

theorem getD_xorSym (a b : Sym) (h : a.length = b.length) (j : Nat) :
    (xorSym a b).getD j 0 = a.getD j 0 ^^^ b.getD j 0 := by
  unfold xorSym
  simp only [List.getD_eq_getElem?_getD, List.getElem?_zipWith]
  by_cases hj : j < a.length
  · have hj' : j < b.length := by omega
    simp [List.getElem?_eq_getElem hj, List.getElem?_eq_getElem hj']
  · have hj' : ¬ j < b.length := by omega
    simp [List.getElem?_eq_none (Nat.le_of_not_lt hj), List.getElem?_eq_none (Nat.le_of_not_lt hj')]

theorem bv_zero (t j : Nat) : bv (zeroSym t) j = 0 := by
  unfold bv zeroSym
  rw [List.getD_eq_getElem?_getD, List.getElem?_replicate]
  split <;> exact of_zero

theorem bv_xor (t : Nat) (a b : Sym) (ha : WfSym t a) (hb : WfSym t b) (j : Nat) :
    bv (xorSym a b) j = bv a j + bv b j := by
  unfold bv
  rw [getD_xorSym a b (by rw [ha.1, hb.1]), of_xor _ _ (wf_getD_lt t a ha j) (wf_getD_lt t b hb j)]

theorem bv_scale (t v : Nat) (a : Sym) (hv : v < 256) (ha : WfSym t a) (j : Nat) :
    bv (scaleSym v a) j = GF256.of v * bv a j := by
  unfold bv scaleSym
  rw [getD_map_gmul, of_gmul _ _ hv (wf_getD_lt t a ha j)]

/-- two symbols of t bytes with the same field bytes are equal -/
theorem sym_ext (t : Nat) (a b : Sym) (ha : WfSym t a) (hb : WfSym t b)
    (h : ∀ j, j < t → bv a j = bv b j) : a = b := by
  apply List.ext_getElem (by rw [ha.1, hb.1])
  intro j h1 h2
  have := h j (by rw [← ha.1]; exact h1)
  unfold bv at this
  have e := congrArg GF256.val this
  rw [GF256.of_val _ (wf_getD_lt t a ha j), GF256.of_val _ (wf_getD_lt t b hb j)] at e
  simpa [List.getD_eq_getElem?_getD, List.getElem?_eq_getElem h1, List.getElem?_eq_getElem h2] using e

/-! ## rows -/

/-- every symbol read from `x` (the default included) has t bytes -/
def InterOk (t : Nat) (x : Inter) : Prop := ∀ c, WfSym t (x.getD c (zeroSym t))

theorem getD_default (x : Inter) (c : Nat) (d : Sym) (h : c < x.size) : x.getD c d = x.getD c [] := by
  simp [Array.getD_eq_getD_getElem?, h]

theorem interOk_of_wf (l t : Nat) (x : Inter) (h : WfInter l t x) : InterOk t x := by
  intro c
  by_cases hc : c < l
  · rw [getD_default x c _ (by rw [h.1]; exact hc)]
    exact h.2 c hc
  · have : x.getD c (zeroSym t) = zeroSym t := by
      simp [Array.getD_eq_getD_getElem?, h.1, hc]
    rw [this]; exact wf_zeroSym t

theorem binFold_lin (t : Nat) (x : Inter) (hx : InterOk t x) (j : Nat) (cols : List Nat) :
    ∀ acc, WfSym t acc →
      WfSym t (cols.foldl (fun acc c => xorSym acc (x.getD c (zeroSym t))) acc) ∧
      bv (cols.foldl (fun acc c => xorSym acc (x.getD c (zeroSym t))) acc) j =
        bv acc j + (cols.map fun c => bv (x.getD c (zeroSym t)) j).sum := by
  induction cols with
  | nil => intro acc h; exact ⟨h, by simp⟩
  | cons c cols ih =>
    intro acc h
    rw [List.foldl_cons]
    obtain ⟨h1, h2⟩ := ih _ (wf_xorSym t _ _ h (hx c))
    refine ⟨h1, ?_⟩
    rw [h2, bv_xor t _ _ h (hx c), List.map_cons, List.sum_cons, add_assoc]

theorem evalBinRow_lin (t : Nat) (x : Inter) (hx : InterOk t x) (cols : List Nat) :
    WfSym t (evalBinRow cols x t) ∧
      ∀ j, bv (evalBinRow cols x t) j = (cols.map fun c => bv (x.getD c (zeroSym t)) j).sum := by
  unfold evalBinRow
  refine ⟨(binFold_lin t x hx 0 cols _ (wf_zeroSym t)).1, fun j => ?_⟩
  rw [(binFold_lin t x hx j cols _ (wf_zeroSym t)).2, bv_zero, zero_add]

def denseStep (row : Array Nat) (x : Inter) (t : Nat) (acc : Sym) (j : Nat) : Sym :=
  if row.getD j 0 != 0 then
    xorSym acc (if row.getD j 0 == 1 then x.getD j (zeroSym t) else scaleSym (row.getD j 0) (x.getD j (zeroSym t)))
  else acc

theorem evalDenseRow_eq (row : Array Nat) (x : Inter) (t : Nat) :
    evalDenseRow row x t = (List.range row.size).foldl (denseStep row x t) (zeroSym t) := by
  unfold evalDenseRow
  simp only [Std.Legacy.Range.forIn_eq_forIn_range', Std.Legacy.Range.size]
  have hf : (fun (j : Nat) (s : Sym) =>
      (if (row.getD j 0 != 0) = true then
        (pure (ForInStep.yield (xorSym s (if (row.getD j 0 == 1) = true then Array.getD x j (zeroSym t)
          else scaleSym (row.getD j 0) (Array.getD x j (zeroSym t))))) : Id (ForInStep Sym))
      else pure (ForInStep.yield s))) = fun j s => pure (ForInStep.yield (denseStep row x t s j)) := by
    funext j s
    unfold denseStep
    split <;> rfl
  rw [hf, List.forIn_pure_yield_eq_foldl]
  simp [List.range_eq_range']

theorem denseStep_lin (t : Nat) (x : Inter) (hx : InterOk t x) (row : Array Nat) (k : Nat)
    (hv : row.getD k 0 < 256) (j : Nat) (acc : Sym) (h : WfSym t acc) :
    WfSym t (denseStep row x t acc k) ∧
      bv (denseStep row x t acc k) j =
        bv acc j + GF256.of (row.getD k 0) * bv (x.getD k (zeroSym t)) j := by
  unfold denseStep
  by_cases h0 : row.getD k 0 = 0
  · simp only [h0, bne_self_eq_false, Bool.false_eq_true, if_false]
    exact ⟨h, by rw [of_zero, zero_mul, add_zero]⟩
  · have hne : (row.getD k 0 != 0) = true := by simpa using h0
    rw [if_pos hne]
    by_cases h1 : row.getD k 0 = 1
    · simp only [h1, beq_self_eq_true, if_true]
      exact ⟨wf_xorSym t _ _ h (hx k), by rw [bv_xor t _ _ h (hx k), of_one, one_mul]⟩
    · have hne1 : ¬ ((row.getD k 0 == 1) = true) := by simpa using h1
      rw [if_neg hne1]
      have hs := wf_scaleSym t _ _ hv (hx k)
      exact ⟨wf_xorSym t _ _ h hs, by rw [bv_xor t _ _ h hs, bv_scale t _ _ hv (hx k)]⟩

theorem denseFold_lin (t : Nat) (x : Inter) (hx : InterOk t x) (row : Array Nat)
    (hv : ∀ k, row.getD k 0 < 256) (j : Nat) (ks : List Nat) :
    ∀ acc, WfSym t acc →
      WfSym t (ks.foldl (denseStep row x t) acc) ∧
      bv (ks.foldl (denseStep row x t) acc) j =
        bv acc j + (ks.map fun k => GF256.of (row.getD k 0) * bv (x.getD k (zeroSym t)) j).sum := by
  induction ks with
  | nil => intro acc h; exact ⟨h, by simp⟩
  | cons k ks ih =>
    intro acc h
    rw [List.foldl_cons]
    obtain ⟨s1, s2⟩ := denseStep_lin t x hx row k (hv k) j acc h
    obtain ⟨h1, h2⟩ := ih _ s1
    refine ⟨h1, ?_⟩
    rw [h2, s2, List.map_cons, List.sum_cons, add_assoc]

theorem evalDenseRow_lin (t : Nat) (x : Inter) (hx : InterOk t x) (row : Array Nat)
    (hv : ∀ k, row.getD k 0 < 256) :
    WfSym t (evalDenseRow row x t) ∧
      ∀ j, bv (evalDenseRow row x t) j =
        ((List.range row.size).map fun k => GF256.of (row.getD k 0) * bv (x.getD k (zeroSym t)) j).sum := by
  rw [evalDenseRow_eq]
  refine ⟨(denseFold_lin t x hx row hv 0 _ _ (wf_zeroSym t)).1, fun j => ?_⟩
  rw [(denseFold_lin t x hx row hv j _ _ (wf_zeroSym t)).2, bv_zero, zero_add]

/-! ## the system -/

/-- row `r` (in the order LDPC, HDPC, G_ENC) as a linear form -/
def rowLin (a : System) (r : Nat) (g : Nat → GF256) : GF256 :=
  if r < a.nLdpc then ((a.bin.getD r []).map g).sum
  else if r < a.nLdpc + a.hdpc.size then
    ((List.range (a.hdpc.getD (r - a.nLdpc) #[]).size).map fun k =>
      GF256.of ((a.hdpc.getD (r - a.nLdpc) #[]).getD k 0) * g k).sum
  else ((a.bin.getD (r - a.hdpc.size) []).map g).sum

/-- all HDPC entries are octets -/
def DenseBytes (a : System) : Prop := ∀ i k, (a.hdpc.getD i #[]).getD k 0 < 256

theorem apply_lin (a : System) (t : Nat) (x : Inter) (hn : a.nLdpc ≤ a.bin.size) (hb : DenseBytes a)
    (hx : InterOk t x) (r : Nat) (hr : r < a.bin.size + a.hdpc.size) :
    ∃ s, (a.apply x t)[r]? = some s ∧ WfSym t s ∧
      ∀ j, bv s j = rowLin a r (fun c => bv (x.getD c (zeroSym t)) j) := by
  unfold rowLin
  by_cases h1 : r < a.nLdpc
  · refine ⟨_, apply_ldpc a x t r hn h1, (evalBinRow_lin t x hx _).1, fun j => ?_⟩
    rw [if_pos h1, (evalBinRow_lin t x hx _).2]
  · by_cases h2 : r < a.nLdpc + a.hdpc.size
    · have := apply_hdpc a x t (r - a.nLdpc) hn (by omega)
      rw [show a.nLdpc + (r - a.nLdpc) = r by omega] at this
      refine ⟨_, this, (evalDenseRow_lin t x hx _ (hb _)).1, fun j => ?_⟩
      rw [if_neg h1, if_pos h2, (evalDenseRow_lin t x hx _ (hb _)).2]
    · have := apply_enc a x t (r - a.nLdpc - a.hdpc.size) (by omega)
      rw [show a.nLdpc + a.hdpc.size + (r - a.nLdpc - a.hdpc.size) = r by omega,
        show a.nLdpc + (r - a.nLdpc - a.hdpc.size) = r - a.hdpc.size by omega] at this
      refine ⟨_, this, (evalBinRow_lin t x hx _).1, fun j => ?_⟩
      rw [if_neg h1, if_neg h2, (evalBinRow_lin t x hx _).2]

theorem rowLin_add (a : System) (r : Nat) (g1 g2 : Nat → GF256) :
    rowLin a r (fun c => g1 c + g2 c) = rowLin a r g1 + rowLin a r g2 := by
  unfold rowLin
  split
  · exact List.sum_map_add
  · split
    · simp only [mul_add]; exact List.sum_map_add
    · exact List.sum_map_add

theorem rowLin_smul (a : System) (r : Nat) (k : GF256) (g : Nat → GF256) :
    rowLin a r (fun c => k * g c) = k * rowLin a r g := by
  unfold rowLin
  split
  · exact List.sum_map_mul_left _ _ _
  · split
    · simp only [mul_left_comm _ k]; exact List.sum_map_mul_left _ _ _
    · exact List.sum_map_mul_left _ _ _

/-- a vector indexed by the columns, read at any natural (0 outside) -/
def ext (l : Nat) (v : Fin l → GF256) : Nat → GF256 := fun c => if h : c < l then v ⟨c, h⟩ else 0

/-- the system as a linear endomorphism-shaped map (rows cut / padded to `a.l`) -/
def sysMap (a : System) : (Fin a.l → GF256) →ₗ[GF256] (Fin a.l → GF256) where
  toFun v r := rowLin a r.val (ext a.l v)
  map_add' v w := by
    funext r
    show rowLin a r.val (ext a.l (v + w)) = rowLin a r.val (ext a.l v) + rowLin a r.val (ext a.l w)
    rw [← rowLin_add]
    congr 1
    funext c
    unfold ext
    split <;> simp
  map_smul' k v := by
    funext r
    show rowLin a r.val (ext a.l (k • v)) = k * rowLin a r.val (ext a.l v)
    rw [← rowLin_smul]
    congr 1
    funext c
    unfold ext
    split <;> simp

theorem sysMap_apply (a : System) (v : Fin a.l → GF256) (r : Fin a.l) :
    sysMap a v r = rowLin a r.val (ext a.l v) := rfl

/-- byte column j of `x` as a vector -/
def vecOf (l t : Nat) (x : Inter) (j : Nat) : Fin l → GF256 := fun i => bv (x.getD i.val (zeroSym t)) j

theorem ext_vecOf (l t : Nat) (x : Inter) (hsz : x.size = l) (j : Nat) :
    ext l (vecOf l t x j) = fun c => bv (x.getD c (zeroSym t)) j := by
  funext c
  unfold ext vecOf
  split
  · rfl
  · rename_i hc
    have : x.getD c (zeroSym t) = zeroSym t := by
      simp [Array.getD_eq_getD_getElem?, hsz, hc]
    rw [this, bv_zero]

/-- the symbols with byte columns `V j`, j < t -/
def interOf (l t : Nat) (V : Nat → Fin l → GF256) : Inter :=
  Array.ofFn fun i : Fin l => (List.range t).map fun j => (V j i).val

theorem interOf_getD (l t : Nat) (V : Nat → Fin l → GF256) (i : Nat) (hi : i < l) :
    (interOf l t V).getD i [] = (List.range t).map fun j => (V j ⟨i, hi⟩).val := by
  simp [interOf, Array.getD_eq_getD_getElem?, hi]

theorem interOf_wf (l t : Nat) (V : Nat → Fin l → GF256) : WfInter l t (interOf l t V) := by
  refine ⟨by simp [interOf], fun i hi => ?_⟩
  rw [interOf_getD l t V i hi]
  refine ⟨by simp, fun x hx => ?_⟩
  obtain ⟨j, _, rfl⟩ := List.mem_map.mp hx
  exact (V j ⟨i, hi⟩).lt

theorem vecOf_interOf (l t : Nat) (V : Nat → Fin l → GF256) (j : Nat) (hj : j < t) :
    vecOf l t (interOf l t V) j = V j := by
  funext i
  unfold vecOf bv
  rw [getD_default _ _ _ (by simp [interOf]), interOf_getD l t V i.val i.isLt]
  simp [List.getD_eq_getElem?_getD, hj, GF256.of_val_self]

/-! ## Determined ⇒ unique, and (square) ⇒ solvable -/

/-- a system in the shape `fullSystem` produces: square, HDPC entries are octets -/
structure SysOk (a : System) : Prop where
  nl : a.nLdpc ≤ a.bin.size
  bytes : DenseBytes a

theorem of_eq_zero (b : Nat) (hb : b < 256) (h : GF256.of b = 0) : b = 0 := by
  have := congrArg GF256.val h
  rwa [GF256.of_val _ hb] at this

theorem sysMap_injective (a : System) (ok : SysOk a)
    (hsq : a.bin.size + a.hdpc.size ≤ a.l) (hd : Determined a) :
    Function.Injective (sysMap a) := by
  rw [← LinearMap.ker_eq_bot, LinearMap.ker_eq_bot']
  intro v hv
  have hz := interOf_wf a.l 1 (fun _ => v)
  have hzok := interOk_of_wf a.l 1 _ hz
  have hall : ∀ s ∈ a.apply (interOf a.l 1 fun _ => v) 1, s = [0] := by
    intro s hs
    obtain ⟨r, hr, rfl⟩ := List.getElem_of_mem hs
    rw [apply_length a _ 1 ok.nl] at hr
    obtain ⟨s', hs', hwf, hbv⟩ := apply_lin a 1 _ ok.nl ok.bytes hzok r hr
    rw [List.getElem?_eq_getElem (by rw [apply_length a _ 1 ok.nl]; exact hr)] at hs'
    have := Option.some.inj hs'
    subst this
    have h0 := hbv 0
    rw [← ext_vecOf a.l 1 _ hz.1 0, vecOf_interOf a.l 1 _ 0 (by omega)] at h0
    have hr' : r < a.l := by omega
    have := congrFun hv ⟨r, hr'⟩
    rw [sysMap_apply] at this
    rw [this] at h0
    have hb := of_eq_zero _ (wf_getD_lt 1 _ hwf 0) h0
    generalize (a.apply (interOf a.l 1 fun _ => v) 1)[r] = s at hwf hb
    match s, hwf.1, hb with
    | [b], _, hb => simpa using hb
  have := hd _ hz hall
  funext i
  have hi := this i.val i.isLt
  rw [interOf_getD a.l 1 _ i.val i.isLt] at hi
  simp at hi
  ext
  exact hi

/-- byte column j of the rows of `a.apply x t` is `sysMap` of byte column j of `x` -/
theorem apply_col (a : System) (ok : SysOk a) (hsq : a.bin.size + a.hdpc.size = a.l) (t : Nat)
    (x : Inter) (hx : WfInter a.l t x) (r : Nat) (hr : r < a.l) :
    ∃ s, (a.apply x t)[r]? = some s ∧ WfSym t s ∧
      ∀ j, bv s j = sysMap a (vecOf a.l t x j) ⟨r, hr⟩ := by
  obtain ⟨s, hs, hwf, hbv⟩ := apply_lin a t x ok.nl ok.bytes (interOk_of_wf a.l t x hx) r (by omega)
  refine ⟨s, hs, hwf, fun j => ?_⟩
  rw [hbv j, sysMap_apply, ext_vecOf a.l t x hx.1 j]

/-- **uniqueness**: two well-formed vectors with the same image under a determined system are equal -/
theorem unique_of_determined (a : System) (ok : SysOk a) (hsq : a.bin.size + a.hdpc.size = a.l)
    (hd : Determined a) (t : Nat) (x y : Inter) (hx : WfInter a.l t x) (hy : WfInter a.l t y)
    (h : a.apply x t = a.apply y t) : x = y := by
  have hinj := sysMap_injective a ok (by omega) hd
  have hcol : ∀ j, vecOf a.l t x j = vecOf a.l t y j := by
    intro j
    apply hinj
    funext r
    obtain ⟨s, hs, _, hbs⟩ := apply_col a ok hsq t x hx r.val r.isLt
    obtain ⟨s', hs', _, hbs'⟩ := apply_col a ok hsq t y hy r.val r.isLt
    rw [h, hs'] at hs
    have := Option.some.inj hs
    subst this
    rw [← hbs j, ← hbs' j]
  apply Array.ext (by rw [hx.1, hy.1])
  intro i h1 h2
  have hi : i < a.l := by rw [← hx.1]; exact h1
  have e : x.getD i [] = y.getD i [] := by
    apply sym_ext t _ _ (hx.2 i hi) (hy.2 i hi)
    intro j _
    have := congrFun (hcol j) ⟨i, hi⟩
    unfold vecOf at this
    rwa [getD_default x i _ h1, getD_default y i _ h2] at this
  simpa [Array.getD_eq_getD_getElem?, h1, h2] using e

/-- **existence**: a determined square system is solvable for every right-hand side -/
theorem consistent_of_determined (a : System) (ok : SysOk a) (hsq : a.bin.size + a.hdpc.size = a.l)
    (hd : Determined a) (t : Nat) (d : List Sym) (hwf : WfRhs a t d) : Consistent a t d := by
  have hinj := sysMap_injective a ok (by omega) hd
  have hsurj := LinearMap.injective_iff_surjective.mp hinj
  have hdl : d.length = a.l := by rw [hwf.1, System.rows, hsq]
  choose V hV using fun j => hsurj (fun r : Fin a.l => bv (d.getD r.val []) j)
  refine ⟨interOf a.l t V, interOf_wf a.l t V, ?_⟩
  apply List.ext_getElem?
  intro r
  by_cases hr : r < a.l
  · obtain ⟨s, hs, hswf, hbs⟩ := apply_col a ok hsq t _ (interOf_wf a.l t V) r hr
    rw [hs, List.getElem?_eq_getElem (by omega)]
    congr 1
    apply sym_ext t _ _ hswf (hwf.2 _ (List.getElem_mem _))
    intro j hj
    rw [hbs j, vecOf_interOf a.l t V j hj, hV j]
    simp [List.getD_eq_getElem?_getD, List.getElem?_eq_getElem (show r < d.length by omega)]
  · rw [List.getElem?_eq_none (by rw [apply_length a _ t ok.nl]; omega),
      List.getElem?_eq_none (by omega)]


/-! ## the standard system A(K', 0..K'-1) -/

theorem hdpcRows_bytes (k : Nat) (hk : k ≤ 56403) (sp : SysParams) (hsp : sysParams k = some sp) :
    ∃ hd, hdpcRows sp = some hd ∧ ∀ i j, (hd.getD i #[]).getD j 0 < 256 := by
  have ok := spOk k hk sp hsp
  obtain ⟨cols, hc, hb⟩ := hdpcCols_bytes sp.h (sp.kp + sp.s) ok.h_ge (by have := ok.h_le; omega)
    (by have := ok.w_le; have := ok.w_ge; omega) (by have := ok.l_lt; have := ok.l_eq; omega)
  have hr : hdpcRows sp = some (Array.ofFn (n := sp.h) fun i =>
      Array.ofFn (n := sp.l) fun j =>
        if j.val < sp.kp + sp.s then (cols.getD j.val []).getD i.val 0
        else if j.val = sp.kp + sp.s + i.val then 1 else 0) := by
    simp only [hdpcRows, hc]
  refine ⟨_, hr, fun i j => ?_⟩
  simp only [Array.getD_eq_getD_getElem?, Array.getElem?_ofFn]
  by_cases hi : i < sp.h
  · simp only [hi, dite_true, Option.getD_some, Array.getElem?_ofFn]
    by_cases hj : j < sp.l
    · simp only [hj, dite_true, Option.getD_some]
      split
      · have := hb j i
        simpa only [Array.getD_eq_getD_getElem?] using this
      · split <;> omega
    · simp [hj]
  · simp [hi]

theorem fullSystem_exists (k : Nat) (hk : k ≤ 56403) (sp : SysParams) (hsp : sysParams k = some sp) :
    ∃ a, fullSystem sp (List.range sp.kp) = some a := by
  have ok := spOk k hk sp hsp
  obtain ⟨rows, hr, _, _⟩ := ldpcRows_mem sp ok.s_prime.pos (by have := ok.p_ge; omega)
    (by have := ok.s_lt_w; omega)
  obtain ⟨hd, hhd, _⟩ := hdpcRows_bytes k hk sp hsp
  have he : encRows sp (List.range sp.kp) =
      some ((List.range sp.kp).map fun i => (encRow sp i).getD []) := by
    apply mapM_opt_some
    intro x hx
    have hx := List.mem_range.mp hx
    obtain ⟨_, _, _, _, _, _, _, _, _, _, _, _, _, _, _, _, he⟩ :=
      encIndicesOf_shape k x hk (by have := ok.l_lt; have := ok.l_eq; omega) sp hsp
    simp only [encRow, he, Option.map_some, Option.getD_some]
  have hcm : constraintMatrix sp (List.range sp.kp) = some (rows ++
      ((List.range sp.kp).map fun i => (encRow sp i).getD []).toArray, hd) := by
    unfold constraintMatrix
    rw [if_neg (by have := ok.l_eq; simp; omega), hr, he, hhd]
  exact ⟨_, by unfold fullSystem; rw [hcm]; rfl⟩

theorem fullSystem_ok (k : Nat) (hk : k ≤ 56403) (sp : SysParams) (hsp : sysParams k = some sp)
    (a : System) (h : fullSystem sp (List.range sp.kp) = some a) :
    SysOk a ∧ a.bin.size + a.hdpc.size = a.l ∧ a.l = sp.l := by
  have ok := spOk k hk sp hsp
  unfold fullSystem at h
  obtain ⟨⟨bin, hd⟩, hcm, rfl⟩ := Option.map_eq_some_iff.mp h
  obtain ⟨l, en, _, _, h3, hbin, hlsz, helen, hdsz, _⟩ :=
    constraintMatrix_shape k hk sp hsp _ bin hd hcm
  have hbsz : bin.size = sp.s + sp.kp := by
    rw [hbin]; simp [hlsz, helen]
  obtain ⟨hd', hhd', hb⟩ := hdpcRows_bytes k hk sp hsp
  rw [h3] at hhd'
  have := Option.some.inj hhd'
  subst this
  refine ⟨⟨by dsimp only; omega, hb⟩, ?_, rfl⟩
  dsimp only
  have := ok.l_eq
  omega

/-- the intermediate symbols of a good encoder are the only well-formed solution -/
theorem goodEnc_unique (e : BlockEnc) (t : Nat) (h : GoodEnc e t) (c' : Inter) (hc' : WfInter e.sp.l t c')
    (a : System) (ha : fullSystem e.sp (List.range e.sp.kp) = some a)
    (hs : a.apply c' t = createD e.sp t e.src) : c' = e.c := by
  have hk := sysParams_some_le _ _ h.params
  obtain ⟨ok, hsq, hl⟩ := fullSystem_ok e.k hk e.sp h.params a ha
  obtain ⟨a1, ha1, hsol⟩ := h.solves
  obtain ⟨a2, ha2, hdet⟩ := h.unique
  rw [ha] at ha1 ha2
  have e1 := Option.some.inj ha1
  have e2 := Option.some.inj ha2
  subst e1
  subst e2
  exact unique_of_determined a ok hsq hdet t c' e.c (hl ▸ hc') (hl ▸ h.c_wf) (hs.trans hsol.symm)

/-! ## the symbols of a block are well formed -/

theorem cutSym_subset (data : List Nat) (k m : Nat) (sizes : List Nat) :
    ∀ off x, x ∈ cutSym data k m sizes off → x ∈ data := by
  induction sizes with
  | nil => intro off x hx; simp [cutSym] at hx
  | cons sz rest ih =>
    intro off x hx
    unfold cutSym at hx
    rcases List.mem_append.mp hx with h | h
    · exact List.mem_of_mem_drop (List.mem_of_mem_take h)
    · exact ih _ x h

/-- whatever `create_symbols` returns is K = len/T symbols of T bytes -/
theorem createSymbols_wf (t al n : Nat) (data : List Nat) (src : List Sym) (hd : IsBytes data)
    (h : createSymbols t al n data = some src) :
    src.length = data.length / t ∧ ∀ s ∈ src, WfSym t s := by
  unfold createSymbols at h
  split at h
  · cases h
  rename_i ht
  split at h
  · cases h
  rename_i hlen
  have hlen : data.length % t = 0 := by omega
  have hk : data.length / t * t = data.length := by
    have := Nat.div_add_mod data.length t
    rw [Nat.mul_comm] at this
    omega
  simp only [] at h
  by_cases h1 : n > 1
  · rw [if_pos h1] at h
    cases hs : subSizes t al n with
    | none => rw [hs] at h; cases h
    | some sizes =>
      rw [hs] at h
      simp only [] at h
      rw [createSymbols_go_eq _ _ _ _ _ (by simp)] at h
      simp only [] at h
      split at h
      · rename_i hoff
        have := Option.some.inj h
        subst this
        refine ⟨by simp, fun s hs' => ?_⟩
        obtain ⟨m, hm, rfl⟩ := List.mem_map.mp hs'
        have hm := List.mem_range.mp hm
        have hsum : sizes.sum = t := by
          have : data.length / t * sizes.sum = data.length / t * t := by omega
          exact Nat.eq_of_mul_eq_mul_left (by omega) this
        have : (List.replicate (data.length / t) ([] : Sym)).getD m [] = [] := by
          simp [List.getD_eq_getElem?_getD, hm]
        rw [this, List.nil_append]
        refine ⟨?_, fun x hx => hd x (cutSym_subset _ _ _ _ _ x hx)⟩
        rw [cutSym_length data _ m hm _ 0 (by omega), hsum]
      · cases h
  · rw [if_neg h1] at h
    have := Option.some.inj h
    subst this
    refine ⟨by simp, fun s hs' => ?_⟩
    obtain ⟨m, hm, rfl⟩ := List.mem_map.mp hs'
    have hm := List.mem_range.mp hm
    refine ⟨?_, fun x hx => hd x (List.mem_of_mem_drop (List.mem_of_mem_take hx))⟩
    rw [List.length_take, List.length_drop]
    have : (m + 1) * t ≤ data.length / t * t := Nat.mul_le_mul_right _ hm
    rw [Nat.add_mul, Nat.one_mul] at this
    omega

end Rq.C04
