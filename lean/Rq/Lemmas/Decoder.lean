import Rq.Spec.Defs
/-!
Generic helpers for the decoder theorems (C01, C02, C08): array/list facts, shape of genuine
packets. Nothing here mentions the tracking invariants (those live in `Rq/Thm/C02.lean`).
-/
namespace Rq

theorem getD_setIfInBounds_d {α : Type} (a : Array α) (i j : Nat) (v dflt : α) :
    (a.setIfInBounds i v).getD j dflt = if i = j ∧ j < a.size then v else a.getD j dflt := by
  simp only [Array.getD, Array.size_setIfInBounds, Array.getInternal_eq_getElem]
  by_cases hj : j < a.size
  · simp only [hj, dif_pos, and_true]
    rw [Array.getElem_setIfInBounds]
  · simp [hj]

theorem repairPacket_pid (e : BlockEnc) (r : Nat) (p : Packet) (h : e.repairPacket r = some p) :
    p.pid.sbn = e.sbn ∧ p.pid.esi = e.k + r := by
  unfold BlockEnc.repairPacket at h
  dsimp only at h
  split at h
  · cases h
  · split at h
    · cases h
    · injection h with h; subst h; exact ⟨rfl, rfl⟩

/-- a genuine packet carries the block's number and is a source symbol (ESI < K) or the repair
packet of its own ESI -/
theorem genuine_cases (e : BlockEnc) (p : Packet) (hp : Genuine e p) : p.pid.sbn = e.sbn ∧
    ((p.pid.esi < e.k ∧ p.data = e.src.getD p.pid.esi []) ∨
      (e.k ≤ p.pid.esi ∧ e.repairPacket (p.pid.esi - e.k) = some p)) := by
  rcases hp with ⟨i, hi, rfl⟩ | ⟨r, hr⟩
  · exact ⟨rfl, Or.inl ⟨hi, rfl⟩⟩
  · obtain ⟨h1, h2⟩ := repairPacket_pid e r p hr
    refine ⟨h1, Or.inr ⟨by omega, ?_⟩⟩
    rw [h2, Nat.add_sub_cancel_left]; exact hr

theorem countP_update (l : List Nat) (hnd : l.Nodup) (x : Nat) (hx : x ∈ l) (p p' : Nat → Bool)
    (hp : p x = false) (hp' : p' x = true) (hother : ∀ y, y ≠ x → p' y = p y) :
    l.countP p' = l.countP p + 1 := by
  induction l with
  | nil => cases hx
  | cons a l ih =>
    rw [List.nodup_cons] at hnd
    by_cases hax : a = x
    · subst hax
      have : l.countP p' = l.countP p := by
        apply List.countP_congr
        intro y hy
        rw [hother y (by rintro rfl; exact hnd.1 hy)]
      simp [hp, hp', this]
    · have hxl : x ∈ l := by
        rcases List.mem_cons.mp hx with h | h
        · exact absurd h.symm hax
        · exact h
      rw [List.countP_cons, List.countP_cons, ih hnd.2 hxl, hother a hax]
      omega

/-! ## `push` as a total function on packets of the right block -/

/-- what `push` does to a packet with the decoder's block number -/
def pushF (d : BlockDec) (p : Packet) : BlockDec :=
  if p.pid.esi ∈ d.esis then d
  else if p.pid.esi ≥ d.k then { d with esis := p.pid.esi :: d.esis, repair := d.repair ++ [p] }
  else { d with esis := p.pid.esi :: d.esis, src := d.src.setIfInBounds p.pid.esi (some p.data),
                recvSrc := d.recvSrc + 1 }

theorem push_eq (d : BlockDec) (p : Packet) (hs : p.pid.sbn = d.sbn) : d.push p = some (pushF d p) := by
  unfold BlockDec.push pushF
  rw [if_neg (by simp [hs])]
  by_cases hm : p.pid.esi ∈ d.esis
  · rw [if_pos (by simpa using hm), if_pos hm]
  · rw [if_neg (by simpa using hm), if_neg hm]
    dsimp only
    split <;> rfl

theorem push_some (d : BlockDec) (p : Packet) (d' : BlockDec) (h : d.push p = some d') :
    p.pid.sbn = d.sbn ∧ d' = pushF d p := by
  by_cases hs : p.pid.sbn = d.sbn
  · rw [push_eq d p hs] at h
    injection h with h
    exact ⟨hs, h.symm⟩
  · unfold BlockDec.push at h
    rw [if_pos hs] at h
    cases h

theorem pushF_of_mem (d : BlockDec) (p : Packet) (h : p.pid.esi ∈ d.esis) : pushF d p = d := by
  unfold pushF
  rw [if_pos h]

theorem pushF_params (d : BlockDec) (p : Packet) :
    (pushF d p).k = d.k ∧ (pushF d p).t = d.t ∧ (pushF d p).n = d.n ∧ (pushF d p).al = d.al ∧
      (pushF d p).sbn = d.sbn := by
  unfold pushF
  split
  · exact ⟨rfl, rfl, rfl, rfl, rfl⟩
  · split <;> exact ⟨rfl, rfl, rfl, rfl, rfl⟩

theorem pushF_esis (d : BlockDec) (p : Packet) :
    (pushF d p).esis = if p.pid.esi ∈ d.esis then d.esis else p.pid.esi :: d.esis := by
  unfold pushF
  split
  · rfl
  · split <;> rfl

theorem pushF_src (d : BlockDec) (p : Packet) :
    (pushF d p).src = if p.pid.esi ∉ d.esis ∧ p.pid.esi < d.k then d.src.setIfInBounds p.pid.esi (some p.data)
      else d.src := by
  unfold pushF
  by_cases hm : p.pid.esi ∈ d.esis
  · simp [hm]
  · by_cases hk : p.pid.esi ≥ d.k
    · rw [if_neg hm, if_pos hk, if_neg (by omega)]
    · rw [if_neg hm, if_neg hk, if_pos ⟨hm, by omega⟩]

theorem pushF_repair (d : BlockDec) (p : Packet) :
    (pushF d p).repair = if p.pid.esi ∉ d.esis ∧ d.k ≤ p.pid.esi then d.repair ++ [p] else d.repair := by
  unfold pushF
  by_cases hm : p.pid.esi ∈ d.esis
  · simp [hm]
  · by_cases hk : p.pid.esi ≥ d.k
    · rw [if_neg hm, if_pos hk, if_pos ⟨hm, hk⟩]
    · rw [if_neg hm, if_neg hk, if_neg (by omega)]

theorem pushF_mem_esis (d : BlockDec) (p : Packet) (x : Nat) :
    x ∈ (pushF d p).esis ↔ x = p.pid.esi ∨ x ∈ d.esis := by
  rw [pushF_esis]
  split
  · next hm =>
    constructor
    · exact Or.inr
    · rintro (rfl | h)
      · exact hm
      · exact h
  · exact List.mem_cons

/-- a push only adds: parameters stay, filled source slots stay filled, repair packets stay,
the number of distinct ESIs does not decrease -/
theorem pushF_mono (d : BlockDec) (p : Packet) :
    (∀ i, (d.src.getD i none).isSome → ((pushF d p).src.getD i none).isSome) ∧
      (∀ q ∈ d.repair, q ∈ (pushF d p).repair) ∧ d.esis.length ≤ (pushF d p).esis.length := by
  refine ⟨?_, ?_, ?_⟩
  · intro i hi
    rw [pushF_src]
    split
    · rw [getD_setIfInBounds_d]
      split
      · rfl
      · exact hi
    · exact hi
  · intro q hq
    rw [pushF_repair]
    split
    · exact List.mem_append_left _ hq
    · exact hq
  · rw [pushF_esis]
    split
    · exact Nat.le_refl _
    · simp

end Rq
