import Rq.Lemmas.Tab
namespace Rq

/-! ### packing (used to compare whole dumped table rows at once) -/

/-- `n` bytes `f 0 .. f (n-1)` packed little end first -/
def pack8 (f : Nat → Nat) : Nat → Nat
  | 0 => 0
  | n + 1 => pack8 f n ||| (f n <<< (8 * n))

theorem pack8_lt (f : Nat → Nat) (hf : ∀ i, f i < 256) (n : Nat) : pack8 f n < 2 ^ (8 * n) := by
  induction n with
  | zero => simp [pack8]
  | succ n ih =>
    unfold pack8
    apply Nat.or_lt_two_pow
    · exact Nat.lt_of_lt_of_le ih (Nat.pow_le_pow_right (by decide) (by omega))
    · rw [Nat.shiftLeft_eq, show 8 * (n + 1) = 8 + 8 * n by omega, Nat.pow_add]
      exact Nat.mul_lt_mul_of_lt_of_le (hf n) (Nat.le_refl _) (Nat.two_pow_pos (8 * n))

theorem tb8_pack8 (f : Nat → Nat) (hf : ∀ i, f i < 256) (n i : Nat) (h : i < n) :
    tb8 (pack8 f n) i = f i := by
  induction n with
  | zero => omega
  | succ n ih =>
    unfold tb8 at *
    apply Nat.eq_of_testBit_eq
    intro k
    simp only [pack8, Nat.testBit_mod_two_pow, Nat.testBit_shiftRight, Nat.testBit_or,
      Nat.testBit_shiftLeft, show (256 : Nat) = 2 ^ 8 by rfl]
    by_cases hk : k < 8
    · by_cases hin : i < n
      · have := congrArg (fun v => v.testBit k) (ih hin)
        simp only [Nat.testBit_mod_two_pow, Nat.testBit_shiftRight, show (256 : Nat) = 2 ^ 8 by rfl, hk] at this
        have hlt : ¬ (8 * i + k ≥ 8 * n) := by omega
        simp [hk, hlt] at this ⊢
        exact this
      · have hi : i = n := by omega
        subst hi
        have hz : (pack8 f i).testBit (8 * i + k) = false :=
          Nat.testBit_lt_two_pow (Nat.lt_of_lt_of_le (pack8_lt f hf i) (Nat.pow_le_pow_right (by decide) (by omega)))
        simp [hk, hz]
    · have h256 : (256 : Nat) ≤ 2 ^ k :=
        (show (256 : Nat) = 2 ^ 8 by rfl) ▸ Nat.pow_le_pow_right (by decide) (by omega)
      have : (f i).testBit k = false := Nat.testBit_lt_two_pow (Nat.lt_of_lt_of_le (hf i) h256)
      simp [hk, this]

/-- byte `x` of row `s` (row width `w` bytes) of a packed table -/
theorem tb8_row (t w s x : Nat) (hx : x < w) :
    tb8 t (s * w + x) = tb8 ((t >>> (8 * w * s)) % 2 ^ (8 * w)) x := by
  unfold tb8
  apply Nat.eq_of_testBit_eq
  intro k
  simp only [Nat.testBit_mod_two_pow, Nat.testBit_shiftRight, show (256 : Nat) = 2 ^ 8 by rfl]
  by_cases hk : k < 8
  · have h1 : 8 * x + k < 8 * w := by omega
    have h2 : 8 * w * s + (8 * x + k) = 8 * (s * w + x) + k := by
      rw [Nat.mul_add, Nat.mul_assoc 8 w s, Nat.mul_comm w s]; omega
    simp [hk, h1, h2]
  · simp [hk]


end Rq
