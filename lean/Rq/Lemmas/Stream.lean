import Rq.Spec.Defs
import Rq.Thm.C15
/-! Helper lemmas for C18: `Option`-`mapM` characterised pointwise, `repairPacket(s)` unfolded,
the per-object packet list and block numbers. -/
namespace Rq

theorem mapM_option_cons {α β : Type} (f : α → Option β) (a : α) (l : List α) :
    (a :: l).mapM f = (f a).bind fun b => (l.mapM f).map (b :: ·) := by
  rw [List.mapM_cons]
  cases f a <;> simp
  cases l.mapM f <;> simp

theorem mapM_eq_some_iff {α β : Type} (f : α → Option β) (l : List α) (r : List β) :
    l.mapM f = some r ↔ r.length = l.length ∧ ∀ i (h : i < l.length), f l[i] = r[i]? := by
  induction l generalizing r with
  | nil =>
    simp only [List.mapM_nil, List.length_nil]
    constructor
    · intro h
      cases h
      simp
    · rintro ⟨h, -⟩
      simp [List.length_eq_zero_iff.mp h]
  | cons a l ih =>
    rw [mapM_option_cons]
    constructor
    · intro h
      obtain ⟨b, hb, h⟩ := Option.bind_eq_some_iff.mp h
      obtain ⟨r', hr', h⟩ := Option.map_eq_some_iff.mp h
      subst h
      obtain ⟨hl, hi⟩ := (ih r').mp hr'
      refine ⟨by simp [hl], ?_⟩
      intro i h
      cases i with
      | zero => simpa using hb
      | succ i => simpa using hi i (by simpa using h)
    · rintro ⟨hl, hi⟩
      cases r with
      | nil => simp at hl
      | cons b r' =>
        have h0 := hi 0 (by simp)
        simp only [List.getElem_cons_zero, List.getElem?_cons_zero] at h0
        have hr' : l.mapM f = some r' := (ih r').mpr ⟨by simpa using hl, fun i h => by
          have := hi (i + 1) (by simpa using h)
          simpa only [List.getElem_cons_succ, List.getElem?_cons_succ] using this⟩
        simp [h0, hr']

theorem mapM_range_eq_some_iff {β : Type} (f : Nat → Option β) (n : Nat) (r : List β) :
    (List.range n).mapM f = some r ↔ r.length = n ∧ ∀ i, i < n → f i = r[i]? := by
  rw [mapM_eq_some_iff]
  simp only [List.length_range, List.getElem_range]

theorem mapM_isSome_iff {α β : Type} (f : α → Option β) (l : List α) :
    (l.mapM f).isSome ↔ ∀ a ∈ l, (f a).isSome := by
  induction l with
  | nil => simp
  | cons a l ih =>
    rw [mapM_option_cons]
    cases h : f a with
    | none => simp [h]
    | some b =>
      simp only [Option.bind_some, Option.isSome_map, ih, List.mem_cons, forall_eq_or_imp, h,
        Option.isSome_some, true_and]

/-! ### the repair stream -/

theorem repairPackets_eq_some_iff (e : BlockEnc) (s n : Nat) (ps : List Packet) :
    e.repairPackets s n = some ps ↔
      s + e.sp.kp < U32 ∧ ps.length = n ∧ ∀ i, i < n → e.repairPacket (s + i) = ps[i]? := by
  unfold BlockEnc.repairPackets
  by_cases hg : s + e.sp.kp ≥ U32
  · rw [if_pos hg]; constructor
    · intro h; cases h
    · rintro ⟨h, -⟩; omega
  · rw [if_neg hg, mapM_range_eq_some_iff]
    constructor
    · rintro ⟨a, b⟩; exact ⟨by omega, a, b⟩
    · rintro ⟨_, a, b⟩; exact ⟨a, b⟩

theorem repairPacket_eq_some (e : BlockEnc) (r : Nat) (p : Packet) (h : e.repairPacket r = some p) :
    e.sp.kp + r < U32 ∧ e.k + r < 16777216 ∧
      ∃ idx, encIndicesOf e.sp (e.sp.kp + r) = some idx ∧ p = ⟨⟨e.sbn, e.k + r⟩, encSymbol e.c idx⟩ := by
  unfold BlockEnc.repairPacket at h
  simp only at h
  split at h
  · cases h
  · rename_i hg
    split at h
    · cases h
    · rename_i idx hidx
      cases h
      exact ⟨by omega, by omega, idx, hidx, rfl⟩

theorem repairPackets_one (e : BlockEnc) (r : Nat) (p : Packet) (h : e.repairPacket r = some p) :
    e.repairPackets r 1 = some [p] := by
  rw [repairPackets_eq_some_iff]
  obtain ⟨h1, _, _⟩ := repairPacket_eq_some e r p h
  refine ⟨by omega, rfl, ?_⟩
  intro i hi
  have : i = 0 := by omega
  subst this
  simpa using h

theorem repairPackets_one_isSome (e : BlockEnc) (r : Nat) (h : (e.repairPackets r 1).isSome) :
    (e.repairPacket r).isSome ∧ r + e.sp.kp < U32 := by
  obtain ⟨ps, hps⟩ := Option.isSome_iff_exists.mp h
  obtain ⟨h1, h2, h3⟩ := (repairPackets_eq_some_iff e r 1 ps).mp hps
  have := h3 0 (by omega)
  rw [Nat.add_zero] at this
  rw [this]
  exact ⟨by simp [h2], h1⟩

theorem sysParams_some_le (k : Nat) (sp : SysParams) (h : sysParams k = some sp) : k ≤ 56403 := by
  apply (Rq.C15.rowOf_total k).mp
  unfold sysParams at h
  cases hr : rowOf k with
  | some i => rfl
  | none => simp [extK, hr] at h

/-! ### the per-object packet list -/

theorem getD_eq_getElem' {α : Type} (l : List α) (d : α) {i : Nat} (h : i < l.length) : l.getD i d = l[i] := by
  rw [List.getD_eq_getElem?_getD, List.getElem?_eq_getElem h, Option.getD_some]

/-- the packet identifiers of one block of `ObjEnc.packets` -/
theorem block_pids (b : BlockEnc) (r : Nat) (rp : List Packet) (h : b.repairPackets 0 r = some rp) :
    (b.sourcePackets ++ rp).map (·.pid) = (List.range (b.k + r)).map fun i => (⟨b.sbn, i⟩ : PayloadId) := by
  obtain ⟨_, hlen, hget⟩ := (repairPackets_eq_some_iff b 0 r rp).mp h
  rw [List.range_add, List.map_append, List.map_append]
  congr 1
  · simp [BlockEnc.sourcePackets]
  · apply List.ext_getElem (by simp [hlen])
    intro i h1 h2
    have hi : i < r := by simpa [hlen] using h1
    have hp : b.repairPacket (0 + i) = some rp[i] := by
      rw [hget i hi, List.getElem?_eq_getElem (by omega)]
    obtain ⟨_, _, idx, _, hpk⟩ := repairPacket_eq_some b _ _ hp
    simp [hpk]

theorem packets_eq_some (e : ObjEnc) (r : Nat) (ps : List Packet) (h : e.packets r = some ps) :
    ∃ per : List (List Packet), ps = per.flatten ∧ per.length = e.blocks.length ∧
      ∀ b (hb : b < e.blocks.length),
        (per.getD b []).map (·.pid) =
          (List.range (e.blocks[b].k + r)).map fun i => (⟨e.blocks[b].sbn, i⟩ : PayloadId) := by
  unfold ObjEnc.packets at h
  obtain ⟨per, hper, rfl⟩ := Option.map_eq_some_iff.mp h
  obtain ⟨hlen, hget⟩ := (mapM_eq_some_iff _ _ _).mp hper
  refine ⟨per, rfl, hlen, ?_⟩
  intro b hb
  have := hget b hb
  rw [List.getElem?_eq_getElem (by omega)] at this
  obtain ⟨rp, hrp, hx⟩ := Option.map_eq_some_iff.mp this
  rw [List.getD_eq_getElem?_getD, List.getElem?_eq_getElem (by omega), Option.getD_some, ← hx]
  exact block_pids _ r rp hrp

theorem BlockEnc.new?_sbn (sv : Solver) (sbn : Nat) (o : Oti) (data : List Nat) (b : BlockEnc)
    (h : BlockEnc.new? sv sbn o data = some b) : b.sbn = sbn := by
  unfold BlockEnc.new? at h
  split at h
  · cases h
  · split at h
    · cases h
    · split at h
      · cases h; rfl
      · cases h

theorem ObjEnc.go_sbn (sv : Solver) (data : List Nat) (o : Oti) :
    ∀ (offs : List (Nat × Nat)) (i : Nat) (bs : List BlockEnc), ObjEnc.new?.go sv data o i offs = some bs →
      ∀ b (hb : b < bs.length), bs[b].sbn = (i + b) % 256 := by
  intro offs
  induction offs with
  | nil =>
    intro i bs h
    simp only [ObjEnc.new?.go] at h
    cases h
    intro b hb
    simp at hb
  | cons r rest ih =>
    intro i bs h
    simp only [ObjEnc.new?.go] at h
    split at h
    · cases h
    · split at h
      · rename_i bl bs' hbl hbs'
        cases h
        intro b hb
        cases b with
        | zero => simpa using BlockEnc.new?_sbn _ _ _ _ _ hbl
        | succ b =>
          have := ih (i + 1) bs' hbs' b (by simpa using hb)
          simp only [List.getElem_cons_succ]
          rw [this]
          congr 1
          omega
      · cases h

end Rq
