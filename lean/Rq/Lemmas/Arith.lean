import Rq.Model.Wire
/-! Arithmetic helper lemmas: ceilings and `int_div_ceil`. -/
namespace Rq

theorem ceilDiv_eq (a b : Nat) (hb : 0 < b) :
    ceilDiv a b = if a % b = 0 then a / b else a / b + 1 := by
  unfold ceilDiv
  have h : a + b - 1 = b * (a / b) + (a % b + b - 1) := by
    have := Nat.div_add_mod a b; omega
  rw [h, Nat.mul_add_div hb]
  have hr := Nat.mod_lt a hb
  split
  · next h0 =>
    have : (a % b + b - 1) / b = 0 := Nat.div_eq_of_lt (by omega)
    rw [this]; rfl
  · next h0 =>
    have : (a % b + b - 1) / b = 1 := by
      rw [Nat.div_eq_iff hb]; omega
    rw [this]

/-- the ceiling used in the statements really is ⌈a/b⌉: the least k with a ≤ k·b -/
theorem ceilDiv_le_iff (a b k : Nat) (hb : 0 < b) : ceilDiv a b ≤ k ↔ a ≤ k * b := by
  unfold ceilDiv
  rw [Nat.div_le_iff_le_mul_add_pred hb, Nat.mul_comm]
  omega

/-- `int_div_ceil` is the exact ceiling truncated to u32 -/
theorem intDivCeil_eq (a b : Nat) (hb : 0 < b) : intDivCeil a b = some (ceilDiv a b % U32) := by
  unfold intDivCeil
  rw [if_neg (by omega), ceilDiv_eq a b hb]
  split <;> rfl

theorem intDivCeil_of_lt (a b : Nat) (hb : 0 < b) (h : ceilDiv a b < U32) :
    intDivCeil a b = some (ceilDiv a b) := by
  rw [intDivCeil_eq a b hb, Nat.mod_eq_of_lt h]

theorem intDivCeil_zero (a : Nat) : intDivCeil a 0 = none := by simp [intDivCeil]

end Rq
