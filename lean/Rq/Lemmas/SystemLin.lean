import Rq.Spec.Defs
import Rq.Lemmas.GF256
import Rq.Lemmas.MatrixWf
/-!
Linear algebra on the executable model: every row of a `System` is a GF(256)-linear functional of
the byte columns of the intermediate symbols. `System.apply` is described pointwise
(`apply_eq`), `Determined` is rephrased on functionals (`determined_iff`), and a determined
system has at most one solution (`determined_unique_d`).
-/
namespace Rq

/-! ## symbols as tabulated functions -/

/-- the symbol of `t` bytes whose byte `b` is `g b` -/
def tab (t : Nat) (g : Nat → Nat) : Sym := (List.range t).map g

@[simp] theorem tab_length (t : Nat) (g : Nat → Nat) : (tab t g).length = t := by simp [tab]

theorem tab_getD (t : Nat) (g : Nat → Nat) (b : Nat) (hb : b < t) : (tab t g).getD b 0 = g b := by
  simp [tab, List.getD_eq_getElem?_getD, hb]

theorem tab_getD_ge (t : Nat) (g : Nat → Nat) (b : Nat) (hb : t ≤ b) : (tab t g).getD b 0 = 0 := by
  simp [tab, List.getD_eq_getElem?_getD, Nat.not_lt.mpr hb]

theorem tab_congr (t : Nat) (g g' : Nat → Nat) (h : ∀ b, b < t → g b = g' b) : tab t g = tab t g' := by
  unfold tab
  apply List.map_congr_left
  intro b hb
  exact h b (List.mem_range.mp hb)

theorem tab_inj (t : Nat) (g g' : Nat → Nat) (h : tab t g = tab t g') : ∀ b, b < t → g b = g' b := by
  intro b hb
  rw [← tab_getD t g b hb, ← tab_getD t g' b hb, h]

theorem tab_of_length (s : Sym) (t : Nat) (h : s.length = t) : s = tab t (fun b => s.getD b 0) := by
  apply List.ext_getElem
  · simp [h]
  · intro i h1 h2
    simp [tab, List.getD_eq_getElem?_getD, h1]

theorem zeroSym_tab (t : Nat) : zeroSym t = tab t (fun _ => 0) := by
  apply List.ext_getElem
  · simp [zeroSym]
  · intro i h1 h2
    simp [tab, zeroSym]

theorem xorSym_tab (t : Nat) (g g' : Nat → Nat) :
    xorSym (tab t g) (tab t g') = tab t (fun b => g b ^^^ g' b) := by
  apply List.ext_getElem
  · simp [xorSym]
  · intro i h1 h2
    simp [tab, xorSym]

theorem scaleSym_tab (v t : Nat) (g : Nat → Nat) : scaleSym v (tab t g) = tab t (fun b => gmul v (g b)) := by
  simp [scaleSym, tab]

/-! ## byte cells of a symbol vector -/

/-- byte `b` of symbol `j` (0 outside) -/
def cell (x : Inter) (j b : Nat) : Nat := (x.getD j []).getD b 0

/-- all symbols of `x` have `t` bytes -/
def AllLen_d (x : Inter) (t : Nat) : Prop := ∀ s ∈ x.toList, s.length = t

theorem getD_zero_tab (x : Inter) (t : Nat) (h : AllLen_d x t) (j : Nat) :
    x.getD j (zeroSym t) = tab t (cell x j) := by
  unfold cell
  by_cases hj : j < x.size
  · have e1 : x.getD j (zeroSym t) = x[j] := by simp [Array.getD, hj]
    have e2 : x.getD j [] = x[j] := by simp [Array.getD, hj]
    rw [e1, e2]
    exact tab_of_length _ t (h _ (by simp))
  · have e1 : x.getD j (zeroSym t) = zeroSym t := by simp [Array.getD, hj]
    have e2 : x.getD j [] = [] := by simp [Array.getD, hj]
    rw [e1, e2, zeroSym_tab]
    apply tab_congr
    intro b _
    simp

theorem WfInter.allLen {l t : Nat} {c : Inter} (h : WfInter l t c) : AllLen_d c t := by
  intro s hs
  obtain ⟨i, hi, rfl⟩ := List.getElem_of_mem hs
  rw [Array.length_toList, h.1] at hi
  have := (h.2 i hi).1
  rw [Array.getD] at this
  simpa [h.1, hi] using this

theorem WfInter.cell_lt {l t : Nat} {c : Inter} (h : WfInter l t c) (j b : Nat) : cell c j b < 256 := by
  unfold cell
  by_cases hj : j < l
  · have hw := (h.2 j hj)
    rw [List.getD_eq_getElem?_getD]
    by_cases hb : b < (c.getD j []).length
    · rw [List.getElem?_eq_getElem hb]
      exact hw.2 _ (List.getElem_mem hb)
    · rw [List.getElem?_eq_none (by omega)]; decide
  · have : c.getD j [] = [] := by simp [Array.getD, h.1, hj]
    rw [this]; simp

theorem cell_ge {l t : Nat} {c : Inter} (h : WfInter l t c) (j b : Nat) (hj : l ≤ j) : cell c j b = 0 := by
  unfold cell
  have : c.getD j [] = [] := by simp [Array.getD, h.1, Nat.not_lt.mpr hj]
  rw [this]; simp

/-! ## rows as functionals on byte vectors -/

/-- a binary row on one byte column -/
def rowBin (cols : List Nat) (f : Nat → Nat) : Nat := cols.foldl (fun acc j => acc ^^^ f j) 0

/-- one term of a dense row, with the case split of `evalDenseRow` -/
def denseTerm_d (v x : Nat) : Nat := if v = 0 then 0 else if v = 1 then x else gmul v x

/-- a dense GF(256) row on one byte column -/
def rowDense (row : Array Nat) (f : Nat → Nat) : Nat :=
  (List.range row.size).foldl (fun acc j => acc ^^^ denseTerm_d (row.getD j 0) (f j)) 0

theorem evalBinRow_fold (cols : List Nat) (x : Inter) (t : Nat) (h : AllLen_d x t) (g : Nat → Nat) :
    cols.foldl (fun acc j => xorSym acc (x.getD j (zeroSym t))) (tab t g) =
      tab t (fun b => cols.foldl (fun acc j => acc ^^^ cell x j b) (g b)) := by
  induction cols generalizing g with
  | nil => rfl
  | cons c cols ih =>
    rw [List.foldl_cons, getD_zero_tab x t h, xorSym_tab, ih]
    rfl

theorem evalBinRow_eq_d (cols : List Nat) (x : Inter) (t : Nat) (h : AllLen_d x t) :
    evalBinRow cols x t = tab t (fun b => rowBin cols (fun j => cell x j b)) := by
  unfold evalBinRow rowBin
  have := evalBinRow_fold cols x t h (fun _ => 0)
  rw [← zeroSym_tab] at this
  exact this

theorem forIn_id_yield {α β : Type} (l : List α) (g : α → β → Id (ForInStep β)) (f : α → β → β)
    (hg : ∀ a b, g a b = ForInStep.yield (f a b)) (init : β) :
    (forIn l init g : Id β) = l.foldl (fun b a => f a b) init := by
  induction l generalizing init with
  | nil => rfl
  | cons a l ih =>
    rw [List.forIn_cons, hg]
    exact ih _

/-- one step of the dense-row loop -/
def denseStep (row : Array Nat) (x : Inter) (t : Nat) (j : Nat) (s : Sym) : Sym :=
  if (row.getD j 0 != 0) = true then
    xorSym s (if (row.getD j 0 == 1) = true then x.getD j (zeroSym t)
      else scaleSym (row.getD j 0) (x.getD j (zeroSym t)))
  else s

theorem denseStep_tab (row : Array Nat) (x : Inter) (t : Nat) (h : AllLen_d x t) (j : Nat) (g : Nat → Nat) :
    denseStep row x t j (tab t g) = tab t (fun b => g b ^^^ denseTerm_d (row.getD j 0) (cell x j b)) := by
  unfold denseStep denseTerm_d
  by_cases h0 : row.getD j 0 = 0
  · simp [h0]
  · by_cases h1 : row.getD j 0 = 1
    · simp [h1, getD_zero_tab x t h, xorSym_tab]
    · simp only [bne_iff_ne, ne_eq, h0, not_false_eq_true, if_true, beq_iff_eq, h1, if_false,
        getD_zero_tab x t h, scaleSym_tab, xorSym_tab]

theorem evalDenseRow_fold (row : Array Nat) (x : Inter) (t : Nat) (h : AllLen_d x t) (l : List Nat) (g : Nat → Nat) :
    l.foldl (fun s j => denseStep row x t j s) (tab t g) =
      tab t (fun b => l.foldl (fun acc j => acc ^^^ denseTerm_d (row.getD j 0) (cell x j b)) (g b)) := by
  induction l generalizing g with
  | nil => rfl
  | cons c l ih => rw [List.foldl_cons, denseStep_tab row x t h, ih]; rfl

theorem evalDenseRow_eq_d (row : Array Nat) (x : Inter) (t : Nat) (h : AllLen_d x t) :
    evalDenseRow row x t = tab t (fun b => rowDense row (fun j => cell x j b)) := by
  unfold evalDenseRow rowDense
  simp only [Id.run, bind, pure]
  rw [Std.Legacy.Range.forIn_eq_forIn_range']
  simp only [Std.Legacy.Range.size, Nat.sub_zero, Nat.add_sub_cancel, Nat.div_one]
  rw [forIn_id_yield _ _ (fun j s => denseStep row x t j s)]
  · rw [← List.range_eq_range', zeroSym_tab]
    exact evalDenseRow_fold row x t h (List.range row.size) (fun _ => 0)
  · intro a b
    unfold denseStep
    split <;> rfl

/-! ## the rows of a system as a list of functionals -/

/-- the row functionals in the row order of `System.apply` -/
def System.funs (a : System) : List ((Nat → Nat) → Nat) :=
  (a.bin.toList.map rowBin).take a.nLdpc ++ a.hdpc.toList.map rowDense ++ (a.bin.toList.map rowBin).drop a.nLdpc

theorem apply_eq (a : System) (x : Inter) (t : Nat) (h : AllLen_d x t) :
    a.apply x t = a.funs.map (fun φ => tab t (fun b => φ (fun j => cell x j b))) := by
  unfold System.apply System.funs
  simp only [List.map_append, List.map_take, List.map_drop, List.map_map]
  congr 1
  · congr 1
    · congr 1
      apply List.map_congr_left
      intro cols _
      exact evalBinRow_eq_d cols x t h
    · apply List.map_congr_left
      intro row _
      exact evalDenseRow_eq_d row x t h
  · congr 1
    apply List.map_congr_left
    intro cols _
    exact evalBinRow_eq_d cols x t h

theorem apply_length (a : System) (x : Inter) (t : Nat) : (a.apply x t).length = a.rows := by
  unfold System.apply System.rows
  simp only [List.length_append, List.length_take, List.length_map, List.length_drop, Array.length_toList]
  omega

theorem funs_length (a : System) : a.funs.length = a.rows := by
  unfold System.funs System.rows
  simp only [List.length_append, List.length_take, List.length_map, List.length_drop, Array.length_toList]
  omega

/-- `Determined` on functionals: a byte vector killed by every row is 0 -/
def DetF (l : Nat) (Φ : List ((Nat → Nat) → Nat)) : Prop :=
  ∀ v : Nat → Nat, (∀ j, v j < 256) → (∀ j, l ≤ j → v j = 0) → (∀ φ ∈ Φ, φ v = 0) → ∀ i, i < l → v i = 0

theorem tab_one (g : Nat → Nat) : tab 1 g = [g 0] := rfl

/-- the one-byte symbol vector of a byte vector -/
def interOf (l : Nat) (v : Nat → Nat) : Inter := Array.ofFn (n := l) fun i => [v i.val]

theorem interOf_getD (l : Nat) (v : Nat → Nat) (i : Nat) (hi : i < l) : (interOf l v).getD i [] = [v i] := by
  simp [interOf, Array.getD, hi]

theorem interOf_getD_ge (l : Nat) (v : Nat → Nat) (i : Nat) (hi : l ≤ i) : (interOf l v).getD i [] = [] := by
  simp [interOf, Array.getD, Nat.not_lt.mpr hi]

theorem interOf_wf (l : Nat) (v : Nat → Nat) (hv : ∀ j, v j < 256) : WfInter l 1 (interOf l v) := by
  refine ⟨by simp [interOf], fun i hi => ?_⟩
  rw [interOf_getD l v i hi]
  refine ⟨rfl, ?_⟩
  intro x hx
  rw [List.mem_singleton] at hx
  subst hx; exact hv i

theorem interOf_cell (l : Nat) (v : Nat → Nat) (hz : ∀ j, l ≤ j → v j = 0) (j : Nat) :
    cell (interOf l v) j 0 = v j := by
  unfold cell
  by_cases hj : j < l
  · rw [interOf_getD l v j hj]; rfl
  · rw [interOf_getD_ge l v j (by omega), hz j (by omega)]; rfl

theorem determined_iff (a : System) : Determined a ↔ DetF a.l a.funs := by
  constructor
  · intro hd v hv hz hφ i hi
    have hwf := interOf_wf a.l v hv
    have hcell : (fun j => cell (interOf a.l v) j 0) = v := funext (interOf_cell a.l v hz)
    have := hd (interOf a.l v) hwf (by
      intro s hs
      rw [apply_eq a _ 1 hwf.allLen, List.mem_map] at hs
      obtain ⟨φ, hφm, rfl⟩ := hs
      rw [tab_one, hcell, hφ φ hφm]) i hi
    rw [interOf_getD a.l v i hi] at this
    injection this
  · intro hd z hz hs i hi
    have hv : ∀ j, cell z j 0 < 256 := fun j => hz.cell_lt j 0
    have h0 := hd (fun j => cell z j 0) hv (fun j hj => cell_ge hz j 0 hj) (by
      intro φ hφ
      have := hs (tab 1 (fun b => φ (fun j => cell z j b))) (by
        rw [apply_eq a z 1 hz.allLen, List.mem_map]
        exact ⟨φ, hφ, rfl⟩)
      rw [tab_one] at this
      injection this) i hi
    have hlen := (hz.2 i hi).1
    rw [tab_of_length _ 1 hlen, tab_one]
    unfold cell at h0
    rw [h0]

/-! ## linearity -/

theorem rowBin_fold_xor (cols : List Nat) (u v : Nat → Nat) (a b : Nat) :
    cols.foldl (fun acc j => acc ^^^ (u j ^^^ v j)) (a ^^^ b) =
      cols.foldl (fun acc j => acc ^^^ u j) a ^^^ cols.foldl (fun acc j => acc ^^^ v j) b := by
  induction cols generalizing a b with
  | nil => rfl
  | cons c cols ih =>
    simp only [List.foldl_cons]
    rw [← ih]
    congr 1
    ac_rfl

theorem rowBin_xor (cols : List Nat) (u v : Nat → Nat) :
    rowBin cols (fun j => u j ^^^ v j) = rowBin cols u ^^^ rowBin cols v := by
  unfold rowBin
  have := rowBin_fold_xor cols u v 0 0
  simpa using this

theorem denseTerm_lt (r x : Nat) (hx : x < 256) : denseTerm_d r x < 256 := by
  unfold denseTerm_d
  split
  · decide
  · split
    · exact hx
    · exact gmul_lt_d _ _

theorem denseTerm_xor (r x y : Nat) (hr : r < 256) (hx : x < 256) (hy : y < 256) :
    denseTerm_d r (x ^^^ y) = denseTerm_d r x ^^^ denseTerm_d r y := by
  unfold denseTerm_d
  split
  · rfl
  · split
    · rfl
    · rw [gmul_eq_gmulP r _ hr (xor_lt256 x y hx hy), gmul_eq_gmulP r x hr hx, gmul_eq_gmulP r y hr hy,
        gmulP_xor r x y hr hx hy]

theorem rowDense_fold_xor (row : Array Nat) (hrow : ∀ j, row.getD j 0 < 256) (u v : Nat → Nat)
    (hu : ∀ j, u j < 256) (hv : ∀ j, v j < 256) (l : List Nat) (a b : Nat) :
    l.foldl (fun acc j => acc ^^^ denseTerm_d (row.getD j 0) (u j ^^^ v j)) (a ^^^ b) =
      l.foldl (fun acc j => acc ^^^ denseTerm_d (row.getD j 0) (u j)) a ^^^
        l.foldl (fun acc j => acc ^^^ denseTerm_d (row.getD j 0) (v j)) b := by
  induction l generalizing a b with
  | nil => rfl
  | cons c l ih =>
    simp only [List.foldl_cons]
    rw [← ih, denseTerm_xor _ _ _ (hrow c) (hu c) (hv c)]
    congr 1
    ac_rfl

theorem rowDense_xor (row : Array Nat) (hrow : ∀ j, row.getD j 0 < 256) (u v : Nat → Nat)
    (hu : ∀ j, u j < 256) (hv : ∀ j, v j < 256) :
    rowDense row (fun j => u j ^^^ v j) = rowDense row u ^^^ rowDense row v := by
  unfold rowDense
  have := rowDense_fold_xor row hrow u v hu hv (List.range row.size) 0 0
  simpa using this

/-- the dense rows hold bytes -/
def HdpcBytes (a : System) : Prop := ∀ row ∈ a.hdpc.toList, ∀ v ∈ row.toList, v < 256

theorem getD_lt_of_bytes (row : Array Nat) (h : ∀ v ∈ row.toList, v < 256) (j : Nat) : row.getD j 0 < 256 := by
  by_cases hj : j < row.size
  · have : row.getD j 0 = row[j] := by simp [Array.getD, hj]
    rw [this]; exact h _ (by simp)
  · have : row.getD j 0 = 0 := by simp [Array.getD, hj]
    rw [this]; decide

theorem funs_xor (a : System) (hb : HdpcBytes a) (φ : (Nat → Nat) → Nat) (hφ : φ ∈ a.funs) (u v : Nat → Nat)
    (hu : ∀ j, u j < 256) (hv : ∀ j, v j < 256) : φ (fun j => u j ^^^ v j) = φ u ^^^ φ v := by
  unfold System.funs at hφ
  rcases List.mem_append.mp hφ with h1 | h1
  · rcases List.mem_append.mp h1 with h2 | h2
    · obtain ⟨cols, _, rfl⟩ := List.mem_map.mp (List.mem_of_mem_take h2)
      exact rowBin_xor cols u v
    · obtain ⟨row, hrow, rfl⟩ := List.mem_map.mp h2
      exact rowDense_xor row (getD_lt_of_bytes row (hb row hrow)) u v hu hv
  · obtain ⟨cols, _, rfl⟩ := List.mem_map.mp (List.mem_of_mem_drop h1)
    exact rowBin_xor cols u v

/-! ## uniqueness -/

theorem eq_of_xor_eq_zero_d (a b : Nat) (h : a ^^^ b = 0) : a = b := by
  have : a ^^^ (a ^^^ b) = b := by rw [← Nat.xor_assoc, Nat.xor_self, Nat.zero_xor]
  rw [h, Nat.xor_zero] at this; exact this

theorem sym_ext (s s' : Sym) (t : Nat) (h : s.length = t) (h' : s'.length = t)
    (he : ∀ b, b < t → s.getD b 0 = s'.getD b 0) : s = s' := by
  rw [tab_of_length s t h, tab_of_length s' t h']
  exact tab_congr t _ _ he

/-- **a determined system has at most one solution** -/
theorem determined_unique_d (a : System) (hb : HdpcBytes a) (hd : Determined a) (t : Nat) (c c' : Inter)
    (hc : WfInter a.l t c) (hc' : WfInter a.l t c') (h : a.apply c t = a.apply c' t) : c = c' := by
  rw [apply_eq a c t hc.allLen, apply_eq a c' t hc'.allLen, List.map_inj_left] at h
  have hcell : ∀ b, b < t → ∀ i, i < a.l → cell c i b = cell c' i b := by
    intro b hbt i hi
    have hu : ∀ j, cell c j b < 256 := fun j => hc.cell_lt j b
    have hv : ∀ j, cell c' j b < 256 := fun j => hc'.cell_lt j b
    have := (determined_iff a).mp hd (fun j => cell c j b ^^^ cell c' j b)
      (fun j => xor_lt256 _ _ (hu j) (hv j))
      (fun j hj => by rw [cell_ge hc j b hj, cell_ge hc' j b hj]; rfl)
      (by
        intro φ hφ
        rw [funs_xor a hb φ hφ _ _ hu hv]
        have := tab_inj t _ _ (h φ hφ) b hbt
        rw [this, Nat.xor_self]) i hi
    exact eq_of_xor_eq_zero_d _ _ this
  apply Array.ext
  · rw [hc.1, hc'.1]
  · intro i h1 h2
    have hi : i < a.l := by rw [← hc.1]; exact h1
    have e1 : c.getD i [] = c[i] := by simp [Array.getD, h1]
    have e2 : c'.getD i [] = c'[i] := by simp [Array.getD, h2]
    rw [← e1, ← e2]
    apply sym_ext _ _ t (hc.2 i hi).1 (hc'.2 i hi).1
    intro b hbt
    exact hcell b hbt i hi

end Rq
