import Rq.Thm.C15
/-!
# The index list of an encoding symbol has no repeated index
-/
namespace Rq.C15
open Rq

/-! ## the arithmetic progression `j ↦ (b + j * a) % q` for a prime `q` and `1 ≤ a < q` -/

/-- injective on `[0, q)` -/
theorem orbit_inj (q a b i j : Nat) (hq : Nat.Prime q) (ha : 1 ≤ a) (ha' : a < q)
    (hi : i < q) (hj : j < q) (h : (b + i * a) % q = (b + j * a) % q) : i = j := by
  have hcop : Nat.gcd q a = 1 :=
    (Nat.Prime.coprime_iff_not_dvd hq).mpr (Nat.not_dvd_of_pos_of_lt (by omega) ha')
  have h1 : i * a ≡ j * a [MOD q] := Nat.ModEq.add_left_cancel' b h
  have h2 : i ≡ j [MOD q] := Nat.ModEq.cancel_right_of_coprime hcop h1
  have h3 : i % q = j % q := h2
  rwa [Nat.mod_eq_of_lt hi, Nat.mod_eq_of_lt hj] at h3

/-- … and onto `[0, q)` -/
theorem orbit_surj (q a b t : Nat) (hq : Nat.Prime q) (ha : 1 ≤ a) (ha' : a < q) (ht : t < q) :
    ∃ n, n < q ∧ (b + n * a) % q = t := by
  obtain ⟨n, hn, h0⟩ := exists_hit (b + (q - t)) a q hq ha ha'
  refine ⟨n, hn, ?_⟩
  have h1 : (b + n * a) + (q - t) ≡ 0 [MOD q] := by
    show ((b + n * a) + (q - t)) % q = 0 % q
    rw [show (b + n * a) + (q - t) = b + (q - t) + n * a by omega, h0, Nat.zero_mod]
  have h2 : ((b + n * a) + (q - t)) + t ≡ 0 + t [MOD q] := Nat.ModEq.add_right t h1
  have h3 : (b + n * a) + q ≡ t [MOD q] := by
    rw [show (b + n * a) + (q - t) + t = (b + n * a) + q by omega, Nat.zero_add] at h2
    exact h2
  have h4 : ((b + n * a) + q) % q = t % q := h3
  rwa [Nat.add_mod_right, Nat.mod_eq_of_lt ht] at h4

/-! ## the LT walk -/

theorem ltWalk_eq_map (a w : Nat) : ∀ d b, b < w →
    ltWalk d a b w = (List.range d).map (fun i => (b + i * a) % w) := by
  intro d
  induction d with
  | zero => intro b _; rfl
  | succ d ih =>
    intro b hb
    have hw : 0 < w := by omega
    rw [ltWalk, ih _ (Nat.mod_lt _ hw), List.range_succ_eq_map, List.map_cons, List.map_map]
    congr 1
    · rw [Nat.zero_mul, Nat.add_zero, Nat.mod_eq_of_lt hb]
    · apply List.map_congr_left
      intro i _
      simp only [Function.comp, Nat.succ_eq_add_one]
      rw [Nat.mod_add_mod, Nat.succ_mul]
      congr 1
      omega

/-- the LT indices are pairwise distinct as long as there are at most `w` of them -/
theorem ltWalk_nodup (d a b w : Nat) (hw : Nat.Prime w) (ha : 1 ≤ a) (ha' : a < w) (hb : b < w)
    (hd : d ≤ w) : (ltWalk d a b w).Nodup := by
  rw [ltWalk_eq_map a w d b hb]
  apply List.Nodup.map_on _ List.nodup_range
  intro i hi j hj h
  have hi := List.mem_range.mp hi
  have hj := List.mem_range.mp hj
  exact orbit_inj w a b i j hw ha ha' (by omega) (by omega) h

/-! ## the skip loop returns the first hit -/

theorem skipPi_first (a1 p p1 : Nat) : ∀ fuel b r, b < p1 → skipPi fuel b a1 p p1 = some r →
    ∃ m, r = (b + m * a1) % p1 ∧ r < p ∧ ∀ m', m' < m → p ≤ (b + m' * a1) % p1 := by
  intro fuel
  induction fuel with
  | zero => intro b r _ h; simp [skipPi] at h
  | succ f ih =>
    intro b r hb h
    unfold skipPi at h
    by_cases hbp : b ≥ p
    · rw [if_pos hbp] at h
      obtain ⟨m, hr, hrp, hmin⟩ := ih _ r (Nat.mod_lt _ (by omega)) h
      have hstep : ∀ n, ((b + a1) % p1 + n * a1) % p1 = (b + (n + 1) * a1) % p1 := by
        intro n
        rw [Nat.mod_add_mod, Nat.succ_mul]
        congr 1
        omega
      refine ⟨m + 1, by rw [hr, hstep], hrp, ?_⟩
      intro m' hm'
      rcases m' with _ | k
      · rw [Nat.zero_mul, Nat.add_zero, Nat.mod_eq_of_lt hb]; exact hbp
      · rw [← hstep]; exact hmin k (by omega)
    · rw [if_neg hbp] at h
      injection h with h
      subst h
      refine ⟨0, by rw [Nat.zero_mul, Nat.add_zero, Nat.mod_eq_of_lt hb], by omega, ?_⟩
      intro m' hm'; omega

/-- one step of the PI walk from the current index `r`: the next index is `(r + j * a1) % p1` for
the least `j ≥ 1` that lands below `p` -/
theorem nextPi_first (a1 p p1 r r' fuel : Nat) (hp1 : 0 < p1)
    (h : skipPi fuel ((r + a1) % p1) a1 p p1 = some r') :
    ∃ j, 1 ≤ j ∧ r' = (r + j * a1) % p1 ∧ r' < p ∧
      ∀ j', 1 ≤ j' → j' < j → p ≤ (r + j' * a1) % p1 := by
  obtain ⟨m, hr, hrp, hmin⟩ := skipPi_first a1 p p1 fuel _ r' (Nat.mod_lt _ hp1) h
  have hstep : ∀ n, ((r + a1) % p1 + n * a1) % p1 = (r + (n + 1) * a1) % p1 := by
    intro n
    rw [Nat.mod_add_mod, Nat.succ_mul]
    congr 1
    omega
  refine ⟨m + 1, by omega, by rw [hr, hstep], hrp, ?_⟩
  intro j' h1 h2
  obtain ⟨k, rfl⟩ : ∃ k, j' = k + 1 := ⟨j' - 1, by omega⟩
  rw [← hstep]
  exact hmin k (by omega)

/-! ## the PI indices are pairwise distinct -/

/-- the first hit after step 0 comes before step `q` when two residues lie below `p` -/
theorem pi_second (q a p r0 j1 : Nat) (hq : Nat.Prime q) (ha : 1 ≤ a) (ha' : a < q)
    (hp2 : 2 ≤ p) (hpq : p ≤ q)
    (hmin1 : ∀ j', 1 ≤ j' → j' < j1 → p ≤ (r0 + j' * a) % q) : j1 < q := by
  by_contra hc
  obtain ⟨c0, hc0, e0⟩ := orbit_surj q a r0 0 hq ha ha' (by omega)
  obtain ⟨c1, hc1, e1⟩ := orbit_surj q a r0 1 hq ha ha' (by omega)
  have hne : c0 ≠ c1 := by
    intro h; rw [h, e1] at e0; omega
  have z0 : c0 = 0 := by
    by_contra hz
    have := hmin1 c0 (by omega) (by omega)
    omega
  have z1 : c1 = 0 := by
    by_contra hz
    have := hmin1 c1 (by omega) (by omega)
    omega
  omega

/-- the second hit after step 0 comes before step `q` when three residues lie below `p` -/
theorem pi_third (q a p r0 j1 j2 : Nat) (hq : Nat.Prime q) (ha : 1 ≤ a) (ha' : a < q)
    (hp3 : 3 ≤ p) (hpq : p ≤ q)
    (hmin1 : ∀ j', 1 ≤ j' → j' < j1 → p ≤ (r0 + j' * a) % q)
    (hmin2 : ∀ j', 1 ≤ j' → j' < j2 → p ≤ (r0 + (j1 + j') * a) % q) : j1 + j2 < q := by
  by_contra hc
  obtain ⟨c0, hc0, e0⟩ := orbit_surj q a r0 0 hq ha ha' (by omega)
  obtain ⟨c1, hc1, e1⟩ := orbit_surj q a r0 1 hq ha ha' (by omega)
  obtain ⟨c2, hc2, e2⟩ := orbit_surj q a r0 2 hq ha ha' (by omega)
  have hne01 : c0 ≠ c1 := by
    intro h; rw [h, e1] at e0; omega
  have hne02 : c0 ≠ c2 := by
    intro h; rw [h, e2] at e0; omega
  have hne12 : c1 ≠ c2 := by
    intro h; rw [h, e2] at e1; omega
  have key : ∀ c t, c < q → (r0 + c * a) % q = t → t < p → c = 0 ∨ c = j1 := by
    intro c t hcq e htp
    by_contra hz
    rcases Nat.lt_or_ge c j1 with hlt | hge
    · have := hmin1 c (by omega) hlt
      omega
    · have := hmin2 (c - j1) (by omega) (by omega)
      rw [show j1 + (c - j1) = c by omega] at this
      omega
  have k0 := key c0 0 hc0 e0 (by omega)
  have k1 := key c1 1 hc1 e1 (by omega)
  have k2 := key c2 2 hc2 e2 (by omega)
  omega

/-- the PI walk written out (`d1 - 1 ∈ {1, 2}` further indices) with its distinctness -/
theorem piWalk_nodup (a1 p p1 w r0 n : Nat) (rest : List Nat) (hp1 : Nat.Prime p1) (ha : 1 ≤ a1)
    (ha' : a1 < p1) (hp3 : 3 ≤ p) (hpq : p ≤ p1) (hr0 : r0 < p) (hn : n = 1 ∨ n = 2)
    (h : piWalk n r0 a1 p p1 w = some rest) :
    ((w + r0) :: rest).Nodup ∧ ∀ i ∈ (w + r0) :: rest, w ≤ i := by
  have hr0' : r0 % p1 = r0 := Nat.mod_eq_of_lt (by omega)
  have f0 : (r0 + 0 * a1) % p1 = r0 := by rw [Nat.zero_mul, Nat.add_zero, hr0']
  -- first further index
  unfold piWalk at h
  rcases hn with rfl | rfl
  · simp only at h
    cases hs : skipPi (p1 + 1) ((r0 + a1) % p1) a1 p p1 with
    | none => rw [hs] at h; simp at h
    | some r1 =>
      rw [hs] at h
      simp only [piWalk, Option.map_some, Option.some.injEq] at h
      subst h
      obtain ⟨j1, hj1, e1, hr1p, hmin1⟩ := nextPi_first a1 p p1 r0 r1 _ hp1.pos hs
      have hj1q := pi_second p1 a1 p r0 j1 hp1 ha ha' (by omega) hpq hmin1
      have hne : r1 ≠ r0 := by
        intro he
        have := orbit_inj p1 a1 r0 j1 0 hp1 ha ha' hj1q hp1.pos (by rw [← e1, f0, he])
        omega
      refine ⟨?_, ?_⟩
      · simp only [List.nodup_cons, List.mem_cons, List.not_mem_nil, or_false, not_false_eq_true,
          List.nodup_nil, and_true]
        omega
      · intro i hi
        simp only [List.mem_cons, List.not_mem_nil, or_false] at hi
        omega
  · simp only at h
    cases hs : skipPi (p1 + 1) ((r0 + a1) % p1) a1 p p1 with
    | none => rw [hs] at h; simp at h
    | some r1 =>
      rw [hs] at h
      unfold piWalk at h
      simp only at h
      cases hs2 : skipPi (p1 + 1) ((r1 + a1) % p1) a1 p p1 with
      | none => rw [hs2] at h; simp at h
      | some r2 =>
        rw [hs2] at h
        simp only [piWalk, Option.map_some, Option.some.injEq] at h
        subst h
        obtain ⟨j1, hj1, e1, hr1p, hmin1⟩ := nextPi_first a1 p p1 r0 r1 _ hp1.pos hs
        obtain ⟨j2, hj2, e2, hr2p, hmin2⟩ := nextPi_first a1 p p1 r1 r2 _ hp1.pos hs2
        have hshift : ∀ n, (r1 + n * a1) % p1 = (r0 + (j1 + n) * a1) % p1 := by
          intro n
          rw [e1, Nat.mod_add_mod, Nat.add_mul, Nat.add_assoc]
        have hmin2' : ∀ j', 1 ≤ j' → j' < j2 → p ≤ (r0 + (j1 + j') * a1) % p1 := by
          intro j' h1 h2
          rw [← hshift]; exact hmin2 j' h1 h2
        rw [hshift] at e2
        have hj1q := pi_second p1 a1 p r0 j1 hp1 ha ha' (by omega) hpq hmin1
        have hj2q := pi_third p1 a1 p r0 j1 j2 hp1 ha ha' hp3 hpq hmin1 hmin2'
        have hne10 : r1 ≠ r0 := by
          intro he
          have := orbit_inj p1 a1 r0 j1 0 hp1 ha ha' hj1q hp1.pos (by rw [← e1, f0, he])
          omega
        have hne20 : r2 ≠ r0 := by
          intro he
          have := orbit_inj p1 a1 r0 (j1 + j2) 0 hp1 ha ha' hj2q hp1.pos (by rw [← e2, f0, he])
          omega
        have hne21 : r2 ≠ r1 := by
          intro he
          have := orbit_inj p1 a1 r0 (j1 + j2) j1 hp1 ha ha' hj2q hj1q (by rw [← e2, ← e1, he])
          omega
        refine ⟨?_, ?_⟩
        · simp only [List.nodup_cons, List.mem_cons, List.not_mem_nil, or_false, not_false_eq_true,
            List.nodup_nil, and_true]
          omega
        · intro i hi
          simp only [List.mem_cons, List.not_mem_nil, or_false] at hi
          omega

/-! ## the table fact `3 ≤ P` and the theorem -/

def factP3 : Bool := (List.range 477).all fun i => decide (3 ≤ P i)
theorem factP3_ok : factP3 = true := by decide +kernel

theorem P_ge_three (i : Nat) (h : i < 477) : 3 ≤ P i := by
  have := factP3_ok
  simp only [factP3, List.all_eq_true, List.mem_range, decide_eq_true_eq] at this
  exact this i h

/-- the index list of an encoding symbol has no repeated index (so the "set" semantics of the
constraint matrix and the "xor" semantics of the encoder agree) -/
theorem encIndices_nodup (k x : Nat) (hk : k ≤ 56403) (hx : x < 2 ^ 32) (sp : SysParams) (l : List Nat)
    (hsp : sysParams k = some sp) (h : encIndicesOf sp x = some l) : l.Nodup := by
  obtain ⟨i, hi⟩ := Option.isSome_iff_exists.mp ((rowOf_total k).mpr hk)
  obtain ⟨_, hi477, hki, _⟩ := rowOf_spec k i hi
  obtain ⟨hS, hW, hP1, hWL, hPP1, hleast, hSW, hH, hHP, hL, hW17, _, _, hJ, _, hP1lt⟩ :=
    row_props i hi477
  have hP3 := P_ge_three i hi477
  have hrow := sysParams_row k i hi
  rw [hsp] at hrow
  injection hrow with hrow
  subst hrow
  obtain ⟨t, ht, htd1, htd, hta1, hta, htb, htd1', hta1', hta1'', htb1⟩ :=
    tuple_wf x (W i) (J i) (P1 i) hx (by omega) (by omega) hJ hP1.two_le (by omega)
  obtain ⟨r, hr, hrp⟩ := skipPi_terminates t.b1 t.a1 (P i) (P1 i) hP1 hta1' hta1'' htb1 (by omega)
  simp only [encIndicesOf, ht, encIndices] at h
  rw [if_neg (by omega)] at h
  simp only [hr] at h
  cases hrest : piWalk (t.d1 - 1) r t.a1 (P i) (P1 i) (W i) with
  | none => rw [hrest] at h; simp at h
  | some rest =>
    rw [hrest] at h
    simp only [Option.map_some, Option.some.injEq] at h
    subst h
    obtain ⟨hnd, hge⟩ := piWalk_nodup t.a1 (P i) (P1 i) (W i) r (t.d1 - 1) rest hP1 hta1' hta1''
      hP3 hPP1 hrp (by omega) hrest
    rw [List.nodup_append]
    refine ⟨ltWalk_nodup t.d t.a t.b (W i) hW hta1 hta htb (by omega), hnd, ?_⟩
    intro a ha b hb
    have h1 := ltWalk_lt t.a (W i) (by omega) t.d t.b htb a ha
    have h2 := hge b hb
    omega

end Rq.C15

