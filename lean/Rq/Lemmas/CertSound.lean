import Rq.Lemmas.PlanCert
import Rq.Lemmas.LeftInv
import Rq.Model.PiCodec
/-! Helper lemmas for `Rq.C02.cert_sound`: `replayOps` (replay of recorded symbol operations on an
arbitrary list of right-hand sides) is column-wise, additive and homogeneous; the coefficient matrix
of a system as symbols (`System.rowSyms`) and as one-byte column blocks; the span argument: if the
replay maps column j of A to the unit vector e_j for every j, it maps A·v to v for every byte
vector v, hence (column by column) A·c to c for every symbol vector c of every symbol size. -/
namespace Rq
open Rq.C09

/-! ### the slab a replay starts from -/

def slabOf (d : List Sym) : Slab := { syms := d.toArray, mapping := none }

theorem replayOps_eq_some (ops : List SymOp) (d : List Sym) (l : Nat) (c : Inter) :
    replayOps ops d l = some c ↔ ∃ r, (slabOf d).run ops = some r ∧ r.readOut l = some c := by
  unfold replayOps slabOf Slab.readOut
  cases Slab.run { syms := d.toArray, mapping := none } ops <;> simp

theorem slabOf_allWf (t : Nat) (d : List Sym) (h : ∀ s ∈ d, WfSym t s) : AllWf t (slabOf d) :=
  allWf_of_list t d h none

theorem slabOf_layout (d d' : List Sym) (h : d.length = d'.length) : SameLayout (slabOf d) (slabOf d') := by
  refine ⟨rfl, ?_⟩
  simp only [slabOf, List.size_toArray, h]

theorem slabOf_col (j : Nat) (d : List Sym) : slabOf (colSyms j d) = colSlab j (slabOf d) := by
  simp only [slabOf, colSlab, colSyms, colInter, List.map_toArray]

theorem slabOf_xor (d d' : List Sym) : slabOf (List.zipWith xorSym d d') = xorSlab (slabOf d) (slabOf d') := by
  simp only [slabOf, xorSlab, xorInter, List.zipWith_toArray]

theorem slabOf_mul (k : Nat) (d : List Sym) : slabOf (d.map (mulSym k)) = mulSlab k (slabOf d) := by
  simp only [slabOf, mulSlab, mulInter, List.map_toArray]

/-! ### `replayOps` is column-wise, additive, homogeneous -/

theorem replayOps_col (ops : List SymOp) (l t : Nat) (d : List Sym) (hd : ∀ s ∈ d, WfSym t s) (c : Inter)
    (h : replayOps ops d l = some c) (j : Nat) (hj : j < t) :
    replayOps ops (colSyms j d) l = some (colInter j c) := by
  obtain ⟨r, hr, hro⟩ := (replayOps_eq_some ops d l c).mp h
  have hw := slabOf_allWf t d hd
  have hrun := run_col ops (slabOf d) r t ⟨rfl, rfl, hw, hw⟩ hr j hj
  rw [replayOps_eq_some]
  refine ⟨colSlab j r, by rw [slabOf_col]; exact hrun, ?_⟩
  rw [readOut_colSlab, hro]
  rfl

section
variable (ops : List SymOp)
  (hops : ∀ op ∈ ops, match op with | .mul _ c => c < 256 | .fma _ _ c => c < 256 | _ => True)
include hops

theorem replayOps_xor (l t : Nat) (d d' : List Sym) (hd : ∀ s ∈ d, WfSym t s) (hd' : ∀ s ∈ d', WfSym t s)
    (hl : d.length = d'.length) (c c' : Inter) (h : replayOps ops d l = some c)
    (h' : replayOps ops d' l = some c') :
    replayOps ops (List.zipWith xorSym d d') l = some (xorInter c c') := by
  obtain ⟨r, hr, hro⟩ := (replayOps_eq_some ops d l c).mp h
  obtain ⟨r', hr', hro'⟩ := (replayOps_eq_some ops d' l c').mp h'
  have hw := slabOf_allWf t d hd
  have hw' := slabOf_allWf t d' hd'
  have hlay := slabOf_layout d d' hl
  have hrun := run_add ops hops (slabOf d) (slabOf d') r r' t ⟨hlay.1, hlay.2, hw, hw'⟩ hr hr'
  rw [replayOps_eq_some]
  refine ⟨xorSlab r r', by rw [slabOf_xor]; exact hrun, ?_⟩
  exact readOut_xorSlab r r' (run_sameLayout ops _ _ r r' hlay hr hr') l c c' hro hro'

theorem replayOps_mul (l t : Nat) (d : List Sym) (hd : ∀ s ∈ d, WfSym t s) (k : Nat) (hk : k < 256)
    (c : Inter) (h : replayOps ops d l = some c) :
    replayOps ops (d.map (mulSym k)) l = some (mulInter k c) := by
  obtain ⟨r, hr, hro⟩ := (replayOps_eq_some ops d l c).mp h
  have hw := slabOf_allWf t d hd
  have hrun := run_mul ops hops k hk (slabOf d) r t ⟨rfl, rfl, hw, hw⟩ hr
  rw [replayOps_eq_some]
  refine ⟨mulSlab k r, by rw [slabOf_mul]; exact hrun, ?_⟩
  rw [readOut_mulSlab, hro]
  rfl

omit hops in
/-- symbol vectors are determined by their byte columns -/
theorem inter_ext_cols (l t : Nat) (c c' : Inter) (hc : WfInter l t c) (hc' : WfInter l t c')
    (h : ∀ j, j < t → colInter j c = colInter j c') : c = c' := by
  apply inter_ext_getD c c' (by rw [hc.1, hc'.1])
  intro i hi
  rw [hc.1] at hi
  apply sym_ext_getD _ _ (by rw [(hc.2 i hi).1, (hc'.2 i hi).1])
  intro j hj
  rw [(hc.2 i hi).1] at hj
  have := congrArg (fun x : Inter => x.getD i []) (h j hj)
  rw [getD_colInter j c i [] [] (by rw [hc.1]; exact hi),
    getD_colInter j c' i [] [] (by rw [hc'.1]; exact hi)] at this
  injection this

/-- a replay that returns column j of `c0` on every byte column j of `d` returns `c0` on `d` -/
theorem replayOps_of_cols (l t : Nat) (ht : 0 < t) (d : List Sym) (hd : ∀ s ∈ d, WfSym t s)
    (c0 : Inter) (hc0 : WfInter l t c0)
    (h : ∀ j, j < t → replayOps ops (colSyms j d) l = some (colInter j c0)) :
    replayOps ops d l = some c0 := by
  have hw := slabOf_allWf t d hd
  have hok := opOk_of_mem ops hops
  obtain ⟨r0, hr0, hro0⟩ := (replayOps_eq_some ops _ l _).mp (h 0 ht)
  have hsome : ((slabOf d).run ops).isSome := by
    rw [run_isSome_layout ops (slabOf d) (slabOf (colSyms 0 d))
      (slabOf_layout _ _ (by simp [colSyms])), hr0]
    rfl
  obtain ⟨r, hr⟩ := Option.isSome_iff_exists.mp hsome
  have hcol : ∀ j, j < t → (slabOf (colSyms j d)).run ops = some (colSlab j r) := by
    intro j hj
    rw [slabOf_col]
    exact run_col ops (slabOf d) r t ⟨rfl, rfl, hw, hw⟩ hr j hj
  have hro : ∃ c, r.readOut l = some c := by
    have e := hcol 0 ht
    rw [hr0] at e
    cases e
    rw [readOut_colSlab] at hro0
    obtain ⟨c, hc, -⟩ := Option.map_eq_some_iff.mp hro0
    exact ⟨c, hc⟩
  obtain ⟨c, hro⟩ := hro
  have hwf : WfInter l t c := readOut_wf t l r (run_allWf ops hok t _ r hw hr) c hro
  have : c = c0 := by
    apply inter_ext_cols l t c c0 hwf hc0
    intro j hj
    obtain ⟨rj, hrj, hroj⟩ := (replayOps_eq_some ops _ l _).mp (h j hj)
    rw [hcol j hj] at hrj
    cases hrj
    rw [readOut_colSlab, hro] at hroj
    exact Option.some.inj hroj
  subst this
  exact (replayOps_eq_some ops d l c).mpr ⟨r, hr, hro⟩

end

/-! ### the coefficient matrix as symbols -/

theorem rowSyms_eq (a : System) : a.rowSyms = a.coefs.map (tab a.l) := by
  unfold System.rowSyms System.coefs
  simp only [List.map_append, List.map_take, List.map_drop, List.map_map]
  have hb : (a.bin.toList.map fun cols => (List.range a.l).map fun j => if cols.contains j then 1 else 0) =
      a.bin.toList.map (tab a.l ∘ binCoef) := rfl
  have hh : (a.hdpc.toList.map fun r => (List.range a.l).map fun j => r.getD j 0) =
      a.hdpc.toList.map (tab a.l ∘ denseCoef) := by
    apply List.map_congr_left
    intro r _
    exact tab_congr a.l _ _ (fun j _ => (denseCoef_eq r j).symm)
  rw [hb, hh]

theorem colSyms_tab (l j : Nat) (hj : j < l) (cs : List (Nat → Nat)) :
    colSyms j (cs.map (tab l)) = cs.map fun c => [c j] := by
  simp only [colSyms, List.map_map]
  apply List.map_congr_left
  intro c _
  simp only [Function.comp, tab_getD l c j hj]

theorem forall₂_map_eq {α β γ : Type} (R : α → β → Prop) (f : α → γ) (g : β → γ) (l1 : List α) (l2 : List β)
    (h : List.Forall₂ R l1 l2) (hfg : ∀ x y, R x y → f x = g y) : l1.map f = l2.map g := by
  induction h with
  | nil => rfl
  | cons hxy _ ih => rw [List.map_cons, List.map_cons, hfg _ _ hxy, ih]

theorem coefs_bytes (a : System) (hw : WfSys a) : ∀ c ∈ a.coefs, ∀ j, c j < 256 := by
  intro c hc j
  obtain ⟨i, hi, rfl⟩ := List.getElem_of_mem hc
  have hrel := coefs_rel a hw
  exact (hrel.get hi (by rw [← hrel.length_eq]; exact hi)).1 j

/-- one-byte left-hand sides in coefficient form -/
theorem apply_one_coefs (a : System) (hw : WfSys a) (z : Inter) (hz : WfInter a.l 1 z) :
    a.apply z 1 = a.coefs.map fun c => [dot a.l c (fun j => cell z j 0)] := by
  rw [apply_eq a z 1 hz.allLen]
  symm
  apply forall₂_map_eq (CoefRel a.l) _ _ _ _ (coefs_rel a hw)
  intro c φ hr
  rw [tab_one, hr.2 _ (fun j => hz.cell_lt j 0)]

theorem interOf_congr (l : Nat) (v v' : Nat → Nat) (h : ∀ i, i < l → v i = v' i) : interOf l v = interOf l v' := by
  apply inter_ext_getD _ _ (by simp [interOf])
  intro i hi
  have hi' : i < l := by simpa [interOf] using hi
  rw [interOf_getD l v i hi', interOf_getD l v' i hi', h i hi']

theorem interOf_of_wf (l : Nat) (z : Inter) (hz : WfInter l 1 z) : interOf l (fun j => cell z j 0) = z := by
  apply inter_ext_getD _ _ (by simp [interOf, hz.1])
  intro i hi
  have hi' : i < l := by simpa [interOf] using hi
  rw [interOf_getD l _ i hi']
  have := tab_of_length _ 1 (hz.2 i hi').1
  rw [tab_one] at this
  exact this.symm

theorem colInter_ident (l j : Nat) (hj : j < l) :
    colInter j (identInter l) = interOf l (fun i => if j = i then 1 else 0) := by
  apply inter_ext_getD _ _ (by simp [interOf, identInter, colInter])
  intro i hi
  have hi' : i < l := by simpa [identInter, colInter] using hi
  rw [interOf_getD l _ i hi', getD_colInter j _ i [] [] (by simpa [identInter] using hi')]
  have : (identInter l).getD i [] = tab l (fun j => if j = i then 1 else 0) := by
    simp [identInter, Array.getD, hi', tab]
  rw [this, tab_getD l _ j hj]

theorem xorInter_interOf (l : Nat) (u v : Nat → Nat) :
    xorInter (interOf l u) (interOf l v) = interOf l (fun i => u i ^^^ v i) := by
  apply inter_ext_getD _ _ (by simp [interOf, xorInter])
  intro i hi
  have hi' : i < l := by simpa [interOf, xorInter] using hi
  rw [getD_xorInter _ _ (by simp [interOf]), interOf_getD l _ i hi', interOf_getD l _ i hi',
    interOf_getD l _ i hi']
  rfl

theorem mulInter_interOf (l k : Nat) (u : Nat → Nat) :
    mulInter k (interOf l u) = interOf l (fun i => gmul k (u i)) := by
  apply inter_ext_getD _ _ (by simp [interOf, mulInter])
  intro i hi
  have hi' : i < l := by simpa [interOf, mulInter] using hi
  rw [getD_mulInter, interOf_getD l _ i hi', interOf_getD l _ i hi']
  rfl


/-! ### span -/

theorem colBlk_wf (cs : List (Nat → Nat)) (g : (Nat → Nat) → Nat) (hg : ∀ c ∈ cs, g c < 256) :
    ∀ s ∈ cs.map (fun c => [g c]), WfSym 1 s := by
  intro s hs
  obtain ⟨c, hc, rfl⟩ := List.mem_map.mp hs
  refine ⟨rfl, ?_⟩
  intro y hy
  rw [List.mem_singleton] at hy
  subst hy
  exact hg c hc


section
variable (ops : List SymOp)
  (hops : ∀ op ∈ ops, match op with | .mul _ c => c < 256 | .fma _ _ c => c < 256 | _ => True)
include hops

/-- **span**: if the replay sends column j of the matrix to e_j for every j < l, it sends the
matrix times v to v -/
theorem replayOps_span (l : Nat) (hl : 0 < l) (cs : List (Nat → Nat)) (hcs : ∀ c ∈ cs, ∀ j, c j < 256)
    (hunit : ∀ j, j < l → replayOps ops (cs.map fun c => [c j]) l =
      some (interOf l fun i => if j = i then 1 else 0))
    (v : Nat → Nat) (hv : ∀ j, v j < 256) :
    replayOps ops (cs.map fun c => [dot l c v]) l = some (interOf l v) := by
  have hunitwf : ∀ j, ∀ s ∈ cs.map (fun c => [c j]), WfSym 1 s := fun j =>
    colBlk_wf cs (fun c => c j) (fun c hc => hcs c hc j)
  have key : ∀ n, n ≤ l → replayOps ops (cs.map fun c => [xs n (fun j => gmulP (c j) (v j))]) l =
      some (interOf l fun i => xs n (fun j => gmulP (if j = i then 1 else 0) (v j))) := by
    intro n
    induction n with
    | zero =>
      intro _
      have h0 := replayOps_mul ops hops l 1 _ (hunitwf 0) 0 (by decide) _ (hunit 0 hl)
      have e : (cs.map fun c => [c 0]).map (mulSym 0) = cs.map fun c => [xs 0 (fun j => gmulP (c j) (v j))] := by
        simp only [List.map_map]
        apply List.map_congr_left
        intro c _
        simp [mulSym, gmul, xs_zero]
      rw [e, mulInter_interOf] at h0
      rw [h0]
      congr 1
    | succ n ih =>
      intro hn
      have h1 := ih (by omega)
      have h2 := replayOps_mul ops hops l 1 _ (hunitwf n) (v n) (hv n) _ (hunit n (by omega))
      have hwf1 : ∀ s ∈ cs.map (fun c => [xs n (fun j => gmulP (c j) (v j))]), WfSym 1 s :=
        colBlk_wf cs _ (fun c _ => xs_lt n _ (fun j _ => gmulP_lt _ _))
      have hwf2 : ∀ s ∈ (cs.map fun c => [c n]).map (mulSym (v n)), WfSym 1 s := by
        intro s hs
        obtain ⟨x, hx, rfl⟩ := List.mem_map.mp hs
        exact (hunitwf n x hx).mul (hv n)
      have h3 := replayOps_xor ops hops l 1 _ _ hwf1 hwf2 (by simp) _ _ h1 h2
      have e : List.zipWith xorSym (cs.map fun c => [xs n (fun j => gmulP (c j) (v j))])
          ((cs.map fun c => [c n]).map (mulSym (v n))) =
          cs.map fun c => [xs (n + 1) (fun j => gmulP (c j) (v j))] := by
        simp only [List.map_map]
        rw [zipWith_map_map]
        apply List.map_congr_left
        intro c hc
        simp only [Function.comp, mulSym, xorSym, List.map_cons, List.map_nil, List.zipWith_cons_cons,
          List.zipWith_nil_right]
        rw [xs_succ, gmul_eq_gmulP _ _ (hv n) (hcs c hc n), gmulP_comm (v n)]
      rw [e, mulInter_interOf, xorInter_interOf] at h3
      rw [h3]
      congr 1
      apply interOf_congr
      intro i _
      rw [xs_succ]
      congr 1
      by_cases h : n = i
      · rw [if_pos h, gmul_one_right _ (hv n), gmulP_one_left _ (hv n)]
      · rw [if_neg h, gmul_zero_right, gmulP_zero_left]
  have := key l (Nat.le_refl l)
  unfold dot
  rw [this]
  congr 1
  apply interOf_congr
  intro i hi
  rw [xs_single l _ i hi]
  · rw [if_pos rfl, gmulP_one_left _ (hv i)]
  · intro j _ hne
    rw [if_neg hne, gmulP_zero_left]

end


/-! ### the certificate -/

theorem coefs_length (a : System) : a.coefs.length = a.rows := by
  unfold System.coefs System.rows
  simp only [List.length_append, List.length_take, List.length_map, List.length_drop, Array.length_toList]
  omega

theorem rowSyms_wf (a : System) (hw : WfSys a) : ∀ s ∈ a.rowSyms, WfSym a.l s := by
  intro s hs
  rw [rowSyms_eq, List.mem_map] at hs
  obtain ⟨c, hc, rfl⟩ := hs
  exact tab_wf a.l c (coefs_bytes a hw c hc)

section
variable (a : System) (hw : WfSys a) (ops : List SymOp)
  (hops : ∀ op ∈ ops, match op with | .mul _ c => c < 256 | .fma _ _ c => c < 256 | _ => True)
  (hcert : replayOps ops a.rowSyms a.l = some (identInter a.l))
include hw hops hcert

/-- the certified replay inverts the system on every one-byte vector -/
theorem cert_one (z : Inter) (hz : WfInter a.l 1 z) : replayOps ops (a.apply z 1) a.l = some z := by
  by_cases hl : a.l = 0
  · obtain ⟨r0, hr0, -⟩ := (replayOps_eq_some ops _ _ _).mp hcert
    have hsome : ((slabOf (a.apply z 1)).run ops).isSome := by
      rw [run_isSome_layout ops (slabOf (a.apply z 1)) (slabOf a.rowSyms)
        (slabOf_layout _ _ (by rw [apply_length, rowSyms_eq, List.length_map, coefs_length])), hr0]
      rfl
    obtain ⟨r, hr⟩ := Option.isSome_iff_exists.mp hsome
    refine (replayOps_eq_some ops _ _ _).mpr ⟨r, hr, (Slab.readOut_eq_some_iff _ _ _).mpr ⟨hz.1, ?_⟩⟩
    intro i hi
    omega
  · have hl' : 0 < a.l := by omega
    have hunit : ∀ j, j < a.l → replayOps ops (a.coefs.map fun c => [c j]) a.l =
        some (interOf a.l fun i => if j = i then 1 else 0) := by
      intro j hj
      have := replayOps_col ops a.l a.l a.rowSyms (rowSyms_wf a hw) _ hcert j hj
      rwa [rowSyms_eq, colSyms_tab a.l j hj, colInter_ident a.l j hj] at this
    rw [apply_one_coefs a hw z hz,
      replayOps_span ops hops a.l hl' a.coefs (coefs_bytes a hw) hunit _ (fun j => hz.cell_lt j 0),
      interOf_of_wf a.l z hz]

theorem cert_determined : Determined a := by
  intro z hz hs i hi
  have hz0 : WfInter a.l 1 (interOf a.l fun _ => 0) := interOf_wf a.l _ (fun _ => by decide)
  have e : a.apply z 1 = a.apply (interOf a.l fun _ => 0) 1 := by
    have hs' := hs
    rw [apply_one_coefs a hw z hz] at hs' ⊢
    rw [apply_one_coefs a hw _ hz0]
    apply List.map_congr_left
    intro c hc
    rw [hs' _ (List.mem_map.mpr ⟨c, hc, rfl⟩)]
    have : (fun j => cell (interOf a.l fun _ => 0) j 0) = fun _ => 0 :=
      funext (interOf_cell a.l _ (fun _ _ => rfl))
    rw [this, dot_zero_right]
  have h1 := cert_one a hw ops hops hcert z hz
  have h2 := cert_one a hw ops hops hcert _ hz0
  rw [e, h2] at h1
  rw [← Option.some.inj h1, interOf_getD a.l _ i hi]

theorem cert_all (t : Nat) (ht : 0 < t) (c0 : Inter) (hc0 : WfInter a.l t c0) :
    replayOps ops (a.apply c0 t) a.l = some c0 := by
  apply replayOps_of_cols ops hops a.l t ht _ (apply_wf a c0 t hc0) c0 hc0
  intro j _
  rw [System.apply_col' a t c0 hc0 j]
  exact cert_one a hw ops hops hcert _ (hc0.col j)

end

theorem certOk_iff (a : System) (ops : List SymOp) : certOk a ops = true ↔
    (∀ op ∈ ops, match op with | .mul _ c => c < 256 | .fma _ _ c => c < 256 | _ => True) ∧
      replayOps ops a.rowSyms a.l = some (identInter a.l) := by
  unfold certOk
  rw [Bool.and_eq_true, List.all_eq_true]
  constructor
  · rintro ⟨h1, h2⟩
    refine ⟨fun op hop => ?_, ?_⟩
    · have := h1 op hop
      cases op <;> simp_all
    · cases hr : replayOps ops a.rowSyms a.l with
      | none => rw [hr] at h2; cases h2
      | some c => rw [hr] at h2; rw [eq_of_beq h2]
  · rintro ⟨h1, h2⟩
    refine ⟨fun op hop => ?_, ?_⟩
    · have := h1 op hop
      cases op <;> simp_all
    · rw [h2]; simp

end Rq
