import Rq.Spec.Defs
import Rq.Lemmas.GF256Field
import Rq.Lemmas.Linear
/-!
# C09 — the code is GF(256)-linear and acts independently on every byte column

Model: `Slab.run` / `replayPlan` (plan replay, `Rq/Model/Plan.lean`), `encSymbol` and
`BlockEnc.repairPacket` (`Rq/Model/Codec.lean`). The symbol size `t` is a parameter of every
statement — nothing is proved per size.
-/
namespace Rq.C09
open Rq

-- several hypotheses of the statements below are kept for documentation although the proofs do
-- not need them (see the primed lemmas in `Rq/Lemmas/Linear.lean`)
set_option linter.unusedVariables false

/-! ## symbols -/

theorem xorSym_col (j : Nat) (a b : Sym) (h : a.length = b.length) :
    (xorSym a b).getD j 0 = a.getD j 0 ^^^ b.getD j 0 := getD_xorSym j a b h

/-- `enc_into` is additive: the symbol for C ⊕ C' is the xor of the symbols -/
theorem encSymbol_add (l t : Nat) (c c' : Inter) (hc : WfInter l t c) (hc' : WfInter l t c') (idx : List Nat)
    (hidx : ∀ i ∈ idx, i < l) :
    encSymbol (xorInter c c') idx = xorSym (encSymbol c idx) (encSymbol c' idx) := by
  have hs : c.size = c'.size := by rw [hc.1, hc'.1]
  cases idx with
  | nil => rfl
  | cons i rest =>
    rw [encSymbol_cons, encSymbol_cons, encSymbol_cons, getD_xorInter c c' hs]
    exact foldXor_add c c' [] [] [] (getD_xorInter c c' hs) rest _ _

/-- … homogeneous: multiplying C by a field constant multiplies the symbol -/
theorem encSymbol_mul (l t k : Nat) (hk : k < 256) (c : Inter) (hc : WfInter l t c) (idx : List Nat)
    (hidx : ∀ i ∈ idx, i < l) :
    encSymbol (mulInter k c) idx = mulSym k (encSymbol c idx) := by
  cases idx with
  | nil => rfl
  | cons i rest =>
    rw [encSymbol_cons, encSymbol_cons, getD_mulInter]
    exact foldXor_mul k hk c [] [] (getD_mulInter k c) hc.getD_nil rest _ (hc.getD_nil i)

/-- … and acts on each byte column separately: byte j of the symbol is the one-byte symbol
computed from byte column j of C -/
theorem encSymbol_col (l t : Nat) (c : Inter) (hc : WfInter l t c) (idx : List Nat) (hidx : ∀ i ∈ idx, i < l)
    (hne : idx ≠ []) (j : Nat) (hj : j < t) :
    [(encSymbol c idx).getD j 0] = encSymbol (colInter j c) idx := by
  cases idx with
  | nil => exact absurd rfl hne
  | cons i rest =>
    have hi := hidx i List.mem_cons_self
    rw [encSymbol_cons, encSymbol_cons, getD_colInter j c i [] [] (by rw [hc.1]; exact hi)]
    refine (foldXor_col j t c [] [] rest ?_ ?_ _ (hc.2 i hi).1).symm
    · intro m hm
      exact getD_colInter j c m [] [] (by rw [hc.1]; exact hidx m (List.mem_cons_of_mem _ hm))
    · intro m hm
      exact (hc.2 m (hidx m (List.mem_cons_of_mem _ hm))).1

/-! ## plan replay (`perform_op` on the slab) -/

/-- two slabs of the same shape -/
def SameShape (s s' : Slab) (t : Nat) : Prop :=
  s.mapping = s'.mapping ∧ s.syms.size = s'.syms.size ∧
    (∀ i, i < s.syms.size → WfSym t (s.syms.getD i [])) ∧ (∀ i, i < s'.syms.size → WfSym t (s'.syms.getD i []))

def xorSlab (s s' : Slab) : Slab := { syms := xorInter s.syms s'.syms, mapping := s.mapping }
def mulSlab (k : Nat) (s : Slab) : Slab := { syms := mulInter k s.syms, mapping := s.mapping }
def colSlab (j : Nat) (s : Slab) : Slab := { syms := colInter j s.syms, mapping := s.mapping }

/-- whether a plan runs (no assert fires) does not depend on the contents -/
theorem run_isSome_shape (ops : List SymOp) (s s' : Slab) (t : Nat) (h : SameShape s s' t) :
    (s.run ops).isSome = (s'.run ops).isSome :=
  run_isSome_layout ops s s' ⟨h.1, h.2.1⟩

theorem opOk_of_mem (ops : List SymOp)
    (hops : ∀ op ∈ ops, match op with | .mul _ c => c < 256 | .fma _ _ c => c < 256 | _ => True)
    (op : SymOp) (h : op ∈ ops) : opOk op := by
  have := hops op h
  cases op <;> exact this

/-- **Replay is additive** (any op list, any symbol size) -/
theorem run_add (ops : List SymOp) (hops : ∀ op ∈ ops, match op with | .mul _ c => c < 256 | .fma _ _ c => c < 256 | _ => True)
    (s s' r r' : Slab) (t : Nat) (h : SameShape s s' t) (hr : s.run ops = some r) (hr' : s'.run ops = some r') :
    (xorSlab s s').run ops = some (xorSlab r r') := by
  have hok := opOk_of_mem ops hops
  clear hops
  induction ops generalizing s s' with
  | nil => cases hr; cases hr'; rfl
  | cons op rest ih =>
    rw [Slab.run_cons] at hr hr' ⊢
    obtain ⟨s1, hs1, hr⟩ := Option.bind_eq_some_iff.mp hr
    obtain ⟨s1', hs1', hr'⟩ := Option.bind_eq_some_iff.mp hr'
    have hlay : SameLayout s s' := ⟨h.1, h.2.1⟩
    rw [Slab.apply_eq] at hs1 hs1'
    obtain ⟨⟨d, q⟩, hloc, rfl⟩ := Option.map_eq_some_iff.mp hs1
    rw [← Slab.locate_congr s s' hlay.1 hlay.2, hloc] at hs1'
    cases hs1'
    have hdq := Slab.locate_lt s op d q hloc
    have hdq' : (∀ o, op ≠ .reorder o) → d < s'.syms.size ∧ q < s'.syms.size := by
      rw [← hlay.2]; exact hdq
    have hop := hok op List.mem_cons_self
    have hx : (xorSlab s s').locate op = some (d, q) := by
      rw [Slab.locate_congr (xorSlab s s') s rfl (by simp [xorSlab, xorInter_size, hlay.2])]
      exact hloc
    rw [Slab.apply_eq, hx]
    simp only [Option.map_some, Option.bind_some]
    have hw : xorSlab (s.write op d q) (s'.write op d q) = (xorSlab s s').write op d q :=
      (write_xor t s s' hlay h.2.2.1 h.2.2.2 op hop d q hdq).symm
    rw [← hw]
    have hlay' := hlay.write op d q
    exact ih _ _ ⟨hlay'.1, hlay'.2, AllWf.write h.2.2.1 op hop d q hdq, AllWf.write h.2.2.2 op hop d q hdq'⟩
      hr hr' (fun o ho => hok o (List.mem_cons_of_mem _ ho))

/-- **Replay is homogeneous** -/
theorem run_mul (ops : List SymOp) (hops : ∀ op ∈ ops, match op with | .mul _ c => c < 256 | .fma _ _ c => c < 256 | _ => True)
    (k : Nat) (hk : k < 256) (s r : Slab) (t : Nat) (h : SameShape s s t) (hr : s.run ops = some r) :
    (mulSlab k s).run ops = some (mulSlab k r) := by
  have hok := opOk_of_mem ops hops
  clear hops
  have hw : AllWf t s := h.2.2.1
  clear h
  induction ops generalizing s with
  | nil => cases hr; rfl
  | cons op rest ih =>
    rw [Slab.run_cons] at hr ⊢
    obtain ⟨s1, hs1, hr⟩ := Option.bind_eq_some_iff.mp hr
    rw [Slab.apply_eq] at hs1
    obtain ⟨⟨d, q⟩, hloc, rfl⟩ := Option.map_eq_some_iff.mp hs1
    have hdq := Slab.locate_lt s op d q hloc
    have hop := hok op List.mem_cons_self
    have hx : (mulSlab k s).locate op = some (d, q) := by
      rw [Slab.locate_congr (mulSlab k s) s rfl (by simp [mulSlab, mulInter_size])]
      exact hloc
    rw [Slab.apply_eq, hx]
    simp only [Option.map_some, Option.bind_some]
    have hwr : mulSlab k (s.write op d q) = (mulSlab k s).write op d q :=
      (write_mul t k hk s hw op hop d q hdq).symm
    rw [← hwr]
    exact ih _ hr (fun o ho => hok o (List.mem_cons_of_mem _ ho)) (AllWf.write hw op hop d q hdq)

/-- **Replay acts on every byte column independently**: running the plan on byte column j alone
(symbol size 1) gives byte column j of the result at symbol size t -/
theorem run_col (ops : List SymOp) (s r : Slab) (t : Nat) (h : SameShape s s t) (hr : s.run ops = some r)
    (j : Nat) (hj : j < t) :
    (colSlab j s).run ops = some (colSlab j r) := by
  have hw : AllLen t s := AllWf.allLen h.2.2.1
  clear h
  induction ops generalizing s with
  | nil => cases hr; rfl
  | cons op rest ih =>
    rw [Slab.run_cons] at hr ⊢
    obtain ⟨s1, hs1, hr⟩ := Option.bind_eq_some_iff.mp hr
    rw [Slab.apply_eq] at hs1
    obtain ⟨⟨d, q⟩, hloc, rfl⟩ := Option.map_eq_some_iff.mp hs1
    have hdq := Slab.locate_lt s op d q hloc
    have hx : (colSlab j s).locate op = some (d, q) := by
      rw [Slab.locate_congr (colSlab j s) s rfl (by simp [colSlab, colInter_size])]
      exact hloc
    rw [Slab.apply_eq, hx]
    simp only [Option.map_some, Option.bind_some]
    have hwr : colSlab j (s.write op d q) = (colSlab j s).write op d q :=
      (write_col t j s hw op d q hdq).symm
    rw [← hwr]
    exact ih _ hr (AllLen.write hw op d q hdq)

/-! ## encoder: packets are linear in the source block -/

/-- applying a system to symbol vectors is additive -/
theorem apply_add (a : System) (t : Nat) (c c' : Inter) (hc : WfInter a.l t c) (hc' : WfInter a.l t c')
    (hbin : ∀ cols ∈ a.bin.toList, ∀ j ∈ cols, j < a.l) (hh : ∀ row ∈ a.hdpc.toList, row.size ≤ a.l ∧ ∀ v ∈ row.toList, v < 256) :
    a.apply (xorInter c c') t = List.zipWith xorSym (a.apply c t) (a.apply c' t) :=
  System.apply_add' a t c c' hc hc' fun row hrow => (hh row hrow).2

/-- byte column j of the left-hand sides is the left-hand side of byte column j -/
theorem apply_col (a : System) (t : Nat) (c : Inter) (hc : WfInter a.l t c) (j : Nat) (hj : j < t)
    (hbin : ∀ cols ∈ a.bin.toList, ∀ j ∈ cols, j < a.l) (hh : ∀ row ∈ a.hdpc.toList, row.size ≤ a.l ∧ ∀ v ∈ row.toList, v < 256) :
    colSyms j (a.apply c t) = a.apply (colInter j c) 1 :=
  System.apply_col' a t c hc j

/-- **The intermediate symbols, hence every packet, are additive in the data**: if e, e', e''
encode src, src', src ⊕ src' then C'' = C ⊕ C' and every repair packet of e'' is the xor of the
repair packets of e and e'. -/
theorem encoder_add (e e' e'' : BlockEnc) (t : Nat) (h : GoodEnc e t) (h' : GoodEnc e' t) (h'' : GoodEnc e'' t)
    (hk : e.src.length = e'.src.length) (hsrc : e''.src = List.zipWith xorSym e.src e'.src) :
    e''.c = xorInter e.c e'.c ∧
      ∀ r p p' p'', e.repairPacket r = some p → e'.repairPacket r = some p' → e''.repairPacket r = some p'' →
        p''.data = xorSym p.data p'.data := by
  have hk' : e'.k = e.k := hk.symm
  have hk'' : e''.k = e.k := by
    show e''.src.length = e.src.length
    rw [hsrc, List.length_zipWith, ← hk, Nat.min_self]
  have hsp' : e'.sp = e.sp := by
    have := h'.params; rw [hk', h.params] at this; exact (Option.some.inj this).symm
  have hsp'' : e''.sp = e.sp := by
    have := h''.params; rw [hk'', h.params] at this; exact (Option.some.inj this).symm
  obtain ⟨a, ha, hsol⟩ := h.solves
  obtain ⟨a', ha', hsol'⟩ := h'.solves
  obtain ⟨a'', ha'', hsol''⟩ := h''.solves
  obtain ⟨au, hau, hdet⟩ := h.unique
  rw [hsp', ha] at ha'; cases ha'
  rw [hsp'', ha] at ha''; cases ha''
  rw [ha] at hau; cases hau
  obtain ⟨hal, hbytes⟩ := fullSystem_hdpc_bytes _ _ a ha
  have hc : WfInter a.l t e.c := by rw [hal]; exact h.c_wf
  have hc' : WfInter a.l t e'.c := by rw [hal, ← hsp']; exact h'.c_wf
  have hc'' : WfInter a.l t e''.c := by rw [hal, ← hsp'']; exact h''.c_wf
  have hC : e''.c = xorInter e.c e'.c := by
    apply determined_unique a t _ _ hc'' (hc.xor hc') hbytes hdet
    rw [System.apply_add' a t _ _ hc hc' hbytes, hsol, hsol', hsol'', hsp', hsp'', hsrc, createD_xor _ _ _ _ hk]
  refine ⟨hC, ?_⟩
  intro r p p' p'' hp hp' hp''
  obtain ⟨idx, hidx, _, hlt, rfl⟩ := repairPacket_idx e h.params r p hp
  obtain ⟨idx', hidx', _, _, rfl⟩ := repairPacket_idx e' h'.params r p' hp'
  obtain ⟨idx'', hidx'', _, _, rfl⟩ := repairPacket_idx e'' h''.params r p'' hp''
  rw [hsp', hidx] at hidx'; cases hidx'
  rw [hsp'', hidx] at hidx''; cases hidx''
  show encSymbol e''.c idx = _
  rw [hC]
  exact encSymbol_add e.sp.l t e.c e'.c h.c_wf (hsp' ▸ h'.c_wf) idx hlt

/-- **byte j of every packet at symbol size t equals the one-byte packet obtained by encoding
byte column j alone** -/
theorem encoder_col (e e1 : BlockEnc) (t : Nat) (h : GoodEnc e t) (h1 : GoodEnc e1 1) (j : Nat) (hj : j < t)
    (hsrc : e1.src = colSyms j e.src) :
    e1.c = colInter j e.c ∧
      ∀ r p p1, e.repairPacket r = some p → e1.repairPacket r = some p1 → p1.data = [p.data.getD j 0] := by
  have hk1 : e1.k = e.k := by
    show e1.src.length = e.src.length
    rw [hsrc, colSyms, List.length_map]
  have hsp1 : e1.sp = e.sp := by
    have := h1.params; rw [hk1, h.params] at this; exact (Option.some.inj this).symm
  obtain ⟨a, ha, hsol⟩ := h.solves
  obtain ⟨a1, ha1, hsol1⟩ := h1.solves
  obtain ⟨au, hau, hdet⟩ := h.unique
  rw [hsp1, ha] at ha1; cases ha1
  rw [ha] at hau; cases hau
  obtain ⟨hal, hbytes⟩ := fullSystem_hdpc_bytes _ _ a ha
  have hc : WfInter a.l t e.c := by rw [hal]; exact h.c_wf
  have hc1 : WfInter a.l 1 e1.c := by rw [hal, ← hsp1]; exact h1.c_wf
  have hC : e1.c = colInter j e.c := by
    apply determined_unique a 1 _ _ hc1 (hc.col j) hbytes hdet
    rw [← System.apply_col' a t _ hc j, hsol, hsol1, hsp1, hsrc, createD_col]
  refine ⟨hC, ?_⟩
  intro r p p1 hp hp1
  obtain ⟨idx, hidx, hne, hlt, rfl⟩ := repairPacket_idx e h.params r p hp
  obtain ⟨idx1, hidx1, _, _, rfl⟩ := repairPacket_idx e1 h1.params r p1 hp1
  rw [hsp1, hidx] at hidx1; cases hidx1
  show encSymbol e1.c idx = _
  rw [hC]
  exact (encSymbol_col e.sp.l t e.c h.c_wf idx hlt hne j hj).symm

/-! ## Non-vacuity -/
example : (Slab.run ⟨#[[1, 2], [3, 4]], none⟩ [.add 0 1, .mul 1 2, .reorder [1, 0]]).isSome := by decide

end Rq.C09
