import Rq.Lemmas.Arith
import Rq.Model.Layout
import Rq.Model.Codec
import Rq.Lemmas.Layout
/-!
# C05 — object partitioning and source packet layout follow RFC 6330 4.4.1.2

Model: `Rq/Model/Layout.lean` (`partition`, `blockOffsets`, `blockBytes`, `createSymbols`,
`unpackBlock`) and the packet numbering of `Rq/Model/Codec.lean`.
-/
namespace Rq.C05
open Rq

/-! ## Partition[I, J] -/

/-- **Partition laws** for all I < 2^32 (u32) and J > 0. -/
theorem partition_spec (i j : Nat) (hi : i < 2 ^ 32) (hj : 0 < j) :
    ∃ il is jl js, partition i j = some (il, is, jl, js) ∧ il = ceilDiv i j ∧ is = i / j ∧
      jl + js = j ∧ il * jl + is * js = i ∧ il - is ≤ 1 ∧ is ≤ il ∧ jl < j ∧ (jl = 0 → il = is) := by
  obtain ⟨h1, h2, h3, h4, h5, h6⟩ := partition_laws i j hj
  exact ⟨_, _, _, _, partition_eq i j hi hj, rfl, rfl, h1, h2, h3, h4, h5, h6⟩

theorem partition_zero (i : Nat) : partition i 0 = none := by
  simp [partition, intDivCeil]

/-! ## Object → source blocks -/

/-- a valid configuration for an object of F bytes (as accepted by the constructor, with Z ≤ Kt) -/
structure ValidObj (o : Oti) : Prop where
  t_pos : 0 < o.t
  z_pos : 0 < o.z
  f_pos : 0 < o.f
  kt_lt : ceilDiv o.f o.t < 2 ^ 32
  z_le : o.z ≤ ceilDiv o.f o.t

/-- **Block ranges**: Z contiguous ranges starting at 0 and ending at Kt·T, the first ZL of KL·T
bytes and the remaining ZS of KS·T bytes, where (KL, KS, ZL, ZS) = Partition[Kt, Z]. -/
theorem blockOffsets_spec (o : Oti) (h : ValidObj o) :
    ∃ offs kl ks zl zs, blockOffsets o.f o = some offs ∧
      partition (ceilDiv o.f o.t) o.z = some (kl, ks, zl, zs) ∧
      offs.length = o.z ∧
      (∀ b, b < o.z → offs.getD b (0, 0) =
        (if b < zl then (b * (kl * o.t), (b + 1) * (kl * o.t))
         else (zl * (kl * o.t) + (b - zl) * (ks * o.t), zl * (kl * o.t) + (b - zl + 1) * (ks * o.t)))) ∧
      (offs.getD 0 (0, 0)).1 = 0 ∧ (offs.getD (o.z - 1) (0, 0)).2 = ceilDiv o.f o.t * o.t ∧
      (∀ b, b + 1 < o.z → (offs.getD b (0, 0)).2 = (offs.getD (b + 1) (0, 0)).1) := by
  obtain ⟨ht, hz, hf, hkt, hzle⟩ := h
  obtain ⟨h1, h2, h3, h4, h5, h6⟩ := partition_laws (ceilDiv o.f o.t) o.z hz
  have hget : ∀ b, b < o.z →
      ((List.range o.z).map fun b =>
        (blkBnd (ceilDiv (ceilDiv o.f o.t) o.z) (ceilDiv o.f o.t / o.z) (ceilDiv o.f o.t % o.z) o.t b,
         blkBnd (ceilDiv (ceilDiv o.f o.t) o.z) (ceilDiv o.f o.t / o.z) (ceilDiv o.f o.t % o.z) o.t
           (b + 1))).getD b (0, 0) =
      (blkBnd (ceilDiv (ceilDiv o.f o.t) o.z) (ceilDiv o.f o.t / o.z) (ceilDiv o.f o.t % o.z) o.t b,
       blkBnd (ceilDiv (ceilDiv o.f o.t) o.z) (ceilDiv o.f o.t / o.z) (ceilDiv o.f o.t % o.z) o.t
         (b + 1)) := by
    intro b hb
    simp [List.getD_eq_getElem?_getD, hb]
  refine ⟨_, _, _, _, _, blockOffsets_eq o ht hz hkt, partition_eq _ _ hkt hz, by simp, ?_, ?_, ?_, ?_⟩
  · intro b hb
    rw [hget b hb]
    split
    · next hlt => obtain ⟨e1, e2⟩ := blkBnd_lt _ (ceilDiv o.f o.t / o.z) _ o.t b hlt; rw [e1, e2]
    · next hge => obtain ⟨e1, e2⟩ := blkBnd_ge (ceilDiv (ceilDiv o.f o.t) o.z) (ceilDiv o.f o.t / o.z) (ceilDiv o.f o.t % o.z) o.t b (by omega); rw [e1, e2]
  · rw [hget 0 hz, blkBnd_zero]
  · rw [hget (o.z - 1) (by omega), show o.z - 1 + 1 = ceilDiv o.f o.t % o.z + (o.z - ceilDiv o.f o.t % o.z) by omega]
    exact blkBnd_last _ _ _ _ _ _ h2
  · intro b hb
    rw [hget b (by omega), hget (b + 1) hb]

/-- **Only the tail of the last block is padded, with zeros, by fewer than T bytes**: the blocks'
bytes concatenated are the object followed by Kt·T − F zero bytes. -/
theorem blocks_cover (o : Oti) (h : ValidObj o) (data : List Nat) (hd : data.length = o.f)
    (offs : List (Nat × Nat)) (ho : blockOffsets o.f o = some offs) :
    ∃ blocks, offs.mapM (blockBytes data) = some blocks ∧
      blocks.flatten = data ++ List.replicate (ceilDiv o.f o.t * o.t - o.f) 0 ∧
      ceilDiv o.f o.t * o.t - o.f < o.t ∧
      ∀ b, b < offs.length → (blocks.getD b []).length = (offs.getD b (0, 0)).2 - (offs.getD b (0, 0)).1 := by
  obtain ⟨ht, hz, hf, hkt, hzle⟩ := h
  obtain ⟨h1, h2, h3, h4, h5, h6⟩ := partition_laws (ceilDiv o.f o.t) o.z hz
  rw [blockOffsets_eq o ht hz hkt] at ho
  cases ho
  have hge := ceilDiv_mul_ge o.f o.t ht
  have hpad := ceilDiv_mul_lt o.f o.t ht
  have hks : 0 < ceilDiv o.f o.t / o.z := Nat.div_pos hzle hz
  generalize ceilDiv o.f o.t = kt at *
  generalize ceilDiv kt o.z = kl at *
  generalize kt / o.z = ks at *
  generalize kt % o.z = zl at *
  have hlastE : blkBnd kl ks zl o.t o.z = kt * o.t := by
    rw [← h1]; exact blkBnd_last _ _ _ _ _ _ h2
  have hlast : blkBnd kl ks zl o.t (o.z - 1) ≤ data.length := by
    obtain ⟨e1, e2⟩ := blkBnd_ge kl ks zl o.t (o.z - 1) (by omega)
    rw [show o.z - 1 + 1 = o.z by omega, hlastE, Nat.add_mul, Nat.one_mul, ← Nat.add_assoc, ← e1] at e2
    have : o.t ≤ ks * o.t := Nat.le_mul_of_pos_left _ hks
    omega
  obtain ⟨blocks, hb1, hb2, hb3⟩ := blocks_cover_aux data o.z (blkBnd kl ks zl o.t) (kt * o.t)
    (blkBnd_zero _ _ _ _) (blkBnd_mono _ _ _ _) hz hlastE (by omega) hlast
  refine ⟨blocks, hb1, ?_, hpad, ?_⟩
  · rw [hb2, hd]
  · intro b hb
    simp only [List.length_map, List.length_range] at hb
    rw [hb3 b hb]
    simp [List.getD_eq_getElem?_getD, hb]

/-! ## Source block → symbols (sub-blocks) -/

/-- RFC 4.4.1.2: sub-block j (of size_j bytes per symbol) occupies the next K·size_j bytes of the
block; symbol m is the concatenation over j of bytes [m·size_j, (m+1)·size_j) of sub-block j. -/
def specSymbol (sizes : List Nat) (k : Nat) (block : List Nat) (m : Nat) : List Nat :=
  let rec go (sizes : List Nat) (off : Nat) : List Nat :=
    match sizes with
    | [] => []
    | sz :: rest => ((block.drop (off + m * sz)).take sz) ++ go rest (off + k * sz)
  go sizes 0

theorem specSymbol_eq_cutSym (sizes : List Nat) (k : Nat) (block : List Nat) (m : Nat) :
    specSymbol sizes k block m = cutSym block k m sizes 0 := by
  unfold specSymbol
  generalize 0 = off
  induction sizes generalizing off with
  | nil => rfl
  | cons sz rest ih => unfold specSymbol.go cutSym; rw [ih]

/-- the sub-symbol sizes are TL·Al (NL times) then TS·Al (NS times), (TL,TS,NL,NS) = Partition[T/Al, N],
and they add up to T -/
theorem subSizes_spec (t al n : Nat) (hal : 0 < al) (hdiv : t % al = 0) (hn : 0 < n) (ht : t < 2 ^ 32) :
    ∃ sizes tl ts nl ns, subSizes t al n = some sizes ∧ partition (t / al) n = some (tl, ts, nl, ns) ∧
      sizes = List.replicate nl (tl * al) ++ List.replicate ns (ts * al) ∧ sizes.sum = t ∧ sizes.length = n := by
  have hlt : t / al < 2 ^ 32 := Nat.lt_of_le_of_lt (Nat.div_le_self _ _) ht
  obtain ⟨h1, _⟩ := partition_laws (t / al) n hn
  refine ⟨_, _, _, _, _, subSizes_eq t al n hal hn ht, partition_eq _ _ hlt hn, rfl,
    subSizes_sum t al n hdiv hn, ?_⟩
  rw [List.length_append, List.length_replicate, List.length_replicate]
  exact h1

/-- **Symbols are cut as the RFC prescribes**, for every K, T, Al | T and 1 ≤ N ≤ T/Al
(N = 1 gives plain chunks of T bytes); every symbol has exactly T bytes. -/
theorem createSymbols_spec (t al n : Nat) (data : List Nat) (ht : 0 < t) (ht' : t < 2 ^ 32) (hal : 0 < al)
    (hdiv : t % al = 0) (hn : 1 ≤ n) (hn' : n ≤ t / al) (hlen : data.length % t = 0) :
    ∃ syms sizes, createSymbols t al n data = some syms ∧ subSizes t al n = some sizes ∧
      syms.length = data.length / t ∧
      ∀ m, m < data.length / t →
        syms.getD m [] = specSymbol sizes (data.length / t) data m ∧ (syms.getD m []).length = t := by
  have _ := hn'
  have hn0 : 0 < n := by omega
  have hs := subSizes_eq t al n hal hn0 ht'
  have hsum := subSizes_sum t al n hdiv hn0
  have hk : data.length / t * t = data.length := by
    have := Nat.div_add_mod data.length t
    rw [Nat.mul_comm] at this
    omega
  refine ⟨_, _, createSymbols_eq t al n data _ ht ht' hal hdiv hn hlen hs hsum, hs, by simp, ?_⟩
  intro m hm
  have hget : ((List.range (data.length / t)).map fun m =>
      cutSym data (data.length / t) m (List.replicate (t / al % n) (ceilDiv (t / al) n * al) ++
        List.replicate (n - t / al % n) (t / al / n * al)) 0).getD m [] =
      cutSym data (data.length / t) m (List.replicate (t / al % n) (ceilDiv (t / al) n * al) ++
        List.replicate (n - t / al % n) (t / al / n * al)) 0 := by
    simp [List.getD_eq_getElem?_getD, hm]
  rw [hget, specSymbol_eq_cutSym]
  refine ⟨rfl, ?_⟩
  rw [cutSym_length data _ m hm _ 0 (by rw [hsum, Nat.zero_add, Nat.mul_comm] ; rw [Nat.mul_comm] at hk; omega), hsum]

/-- **The decoder inverts exactly this layout**: unpacking the symbols of a block gives the block. -/
theorem unpack_create (t al n : Nat) (data : List Nat) (ht : 0 < t) (ht' : t < 2 ^ 32) (hal : 0 < al)
    (hdiv : t % al = 0) (hn : 1 ≤ n) (hn' : n ≤ t / al) (hlen : data.length % t = 0)
    (syms : List Sym) (h : createSymbols t al n data = some syms) :
    unpackBlock t al n (data.length / t) syms = some data := by
  have _ := hn'
  exact unpackBlock_createSymbols t al n data ht ht' hal hdiv hn hlen syms h

/-! ## Packet numbering -/

/-- source packets of a block: ESIs 0..K-1 in order, all with the block's number, carrying the
source symbols -/
theorem sourcePackets_spec (e : BlockEnc) :
    e.sourcePackets.length = e.k ∧
      ∀ i, i < e.k → e.sourcePackets.getD i ⟨⟨0, 0⟩, []⟩ = ⟨⟨e.sbn, i⟩, e.src.getD i []⟩ := by
  unfold BlockEnc.sourcePackets
  refine ⟨by simp, ?_⟩
  intro i hi
  simp [List.getD_eq_getElem?_getD, hi]

/-! ## Non-vacuity -/
example : ValidObj ⟨1000, 24, 3, 2, 8⟩ := by
  constructor <;> simp [ceilDiv]
example : partition 7 3 = some (3, 2, 1, 2) := by decide
example : createSymbols 4 2 2 [0, 1, 2, 3, 4, 5, 6, 7] = some [[0, 1, 4, 5], [2, 3, 6, 7]] := by decide

end Rq.C05
