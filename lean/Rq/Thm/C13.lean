import Rq.Model.Wire
/-!
# C13 — wire formats are the RFC 6330 layouts and round-trip losslessly

Model = `Rq/Model/Wire.lean` (`PayloadId`, `Packet`, `Oti` (de)serialisers as coded in
`src/base.rs`). Bytes are naturals `< 256`; a value is *representable* when every field is within
its bit width.
-/
namespace Rq.C13
open Rq

/-- a list of bytes -/
def IsBytes (l : List Nat) : Prop := ∀ x ∈ l, x < 256

/-! ## Payload ID -/

/-- Layout: SBN, then the 24-bit ESI big-endian (most significant byte first). -/
theorem pid_layout (p : PayloadId) :
    p.serialize = [p.sbn, p.esi / 65536 % 256, p.esi / 256 % 256, p.esi % 256] := by
  simp [PayloadId.serialize, Nat.shiftRight_eq_div_pow]

theorem pid_bytes (p : PayloadId) (h : p.sbn < 256) :
    p.serialize.length = 4 ∧ IsBytes p.serialize := by
  refine ⟨rfl, ?_⟩
  intro x hx
  simp only [PayloadId.serialize, List.mem_cons, List.not_mem_nil, or_false] at hx
  rcases hx with rfl | rfl | rfl | rfl <;> first | exact h | exact Nat.mod_lt _ (by decide)

/-- Round trip for every representable payload ID (all 2^32 of them). -/
theorem pid_roundtrip (p : PayloadId) (_h1 : p.sbn < 256) (h2 : p.esi < 16777216) :
    PayloadId.deserialize p.serialize = some p := by
  cases p with | mk s e =>
  simp only [PayloadId.serialize, PayloadId.deserialize, Nat.shiftRight_eq_div_pow,
    Nat.shiftLeft_eq, Option.some.injEq, PayloadId.mk.injEq, true_and]
  simp at h2
  omega

/-- Every 4-byte buffer parses, and re-serialising the parsed value reproduces it. -/
theorem pid_reserialize (b0 b1 b2 b3 : Nat) (h1 : b1 < 256) (h2 : b2 < 256) (h3 : b3 < 256) :
    (PayloadId.deserialize [b0, b1, b2, b3]).map PayloadId.serialize = some [b0, b1, b2, b3] := by
  simp only [PayloadId.deserialize, Option.map_some, PayloadId.serialize,
    Nat.shiftRight_eq_div_pow, Nat.shiftLeft_eq, Option.some.injEq, List.cons.injEq, and_true,
    true_and]
  omega

/-- the parsed ESI of any 4-byte buffer is a 24-bit value (so `PayloadId::new`'s assert holds) -/
theorem pid_deserialize_range (b0 b1 b2 b3 : Nat) (h1 : b1 < 256) (h2 : b2 < 256) (h3 : b3 < 256) :
    ∃ p, PayloadId.deserialize [b0, b1, b2, b3] = some p ∧ p.sbn = b0 ∧ p.esi < 16777216 := by
  refine ⟨_, rfl, rfl, ?_⟩
  simp only [Nat.shiftLeft_eq]
  omega

/-- `PayloadId::new` accepts exactly the 24-bit ESIs. -/
theorem pid_new_iff (sbn esi : Nat) : (PayloadId.new? sbn esi).isSome ↔ esi < 16777216 := by
  unfold PayloadId.new?; split <;> simp_all

/-! ## Packet -/

/-- Layout: the payload ID followed by the symbol bytes; length 4 + payload length. -/
theorem pkt_layout (p : Packet) :
    p.serialize = p.pid.serialize ++ p.data ∧ p.serialize.length = 4 + p.data.length := by
  refine ⟨rfl, ?_⟩
  simp [Packet.serialize, PayloadId.serialize]; omega

/-- Round trip for every representable packet, every payload length (0 included). -/
theorem pkt_roundtrip (p : Packet) (h1 : p.pid.sbn < 256) (h2 : p.pid.esi < 16777216) :
    Packet.deserialize p.serialize = some p := by
  cases p with | mk pid data =>
  have := pid_roundtrip pid h1 h2
  simp only [Packet.serialize, PayloadId.serialize, List.cons_append, List.nil_append,
    Packet.deserialize] at *
  simp [this]

/-- Re-serialising any parsed buffer of at least 4 bytes reproduces the buffer. -/
theorem pkt_reserialize (b0 b1 b2 b3 : Nat) (rest : List Nat)
    (h1 : b1 < 256) (h2 : b2 < 256) (h3 : b3 < 256) :
    (Packet.deserialize (b0 :: b1 :: b2 :: b3 :: rest)).map Packet.serialize
      = some (b0 :: b1 :: b2 :: b3 :: rest) := by
  have h := pid_reserialize b0 b1 b2 b3 h1 h2 h3
  simp only [Packet.deserialize, PayloadId.deserialize, Option.map_some, Packet.serialize] at *
  simp only [Option.some.injEq] at h
  simp [h]

/-- Buffers shorter than a payload ID are refused (the Rust indexing panics). -/
theorem pkt_short (b : List Nat) (h : b.length < 4) : Packet.deserialize b = none := by
  match b, h with
  | [], _ => rfl
  | [_], _ => rfl
  | [_, _], _ => rfl
  | [_, _, _], _ => rfl
  | _ :: _ :: _ :: _ :: _, h => simp at h; omega

/-! ## Object transmission information -/

/-- every field within its bit width -/
def Oti.Representable (o : Oti) : Prop :=
  o.f < 2 ^ 40 ∧ o.t < 2 ^ 16 ∧ o.z < 2 ^ 8 ∧ o.n < 2 ^ 16 ∧ o.al < 2 ^ 8

/-- Layout: 40-bit F big-endian, a zero reserved byte, 16-bit T, Z, 16-bit N, Al. -/
theorem oti_layout (o : Oti) :
    o.serialize = [o.f / 2 ^ 32 % 256, o.f / 2 ^ 24 % 256, o.f / 2 ^ 16 % 256, o.f / 2 ^ 8 % 256,
      o.f % 256, 0, o.t / 256 % 256, o.t % 256, o.z, o.n / 256 % 256, o.n % 256, o.al] := by
  simp [Oti.serialize, Nat.shiftRight_eq_div_pow]

theorem oti_bytes (o : Oti) (h : Oti.Representable o) :
    o.serialize.length = 12 ∧ IsBytes o.serialize := by
  refine ⟨rfl, ?_⟩
  obtain ⟨_, _, hz, _, hal⟩ := h
  intro x hx
  simp only [Oti.serialize, List.mem_cons, List.not_mem_nil, or_false] at hx
  rcases hx with rfl | rfl | rfl | rfl | rfl | rfl | rfl | rfl | rfl | rfl | rfl | rfl <;>
    first | exact Nat.mod_lt _ (by decide) | (simp at hz; exact hz) | (simp at hal; exact hal) | decide

/-- Round trip for every representable transmission information. -/
theorem oti_roundtrip (o : Oti) (h : Oti.Representable o) :
    Oti.deserialize o.serialize = some o := by
  cases o with | mk f t z n al =>
  obtain ⟨hf, ht, _, hn, _⟩ := h
  simp only [Oti.serialize, Oti.deserialize, Nat.shiftRight_eq_div_pow, Nat.shiftLeft_eq,
    Option.some.injEq, Oti.mk.injEq, true_and, and_true]
  simp at hf ht hn
  refine ⟨?_, ?_, ?_⟩ <;> omega

/-- Re-serialising a parsed 12-byte buffer reproduces it except for the reserved byte (→ 0). -/
theorem oti_reserialize (b0 b1 b2 b3 b4 b5 b6 b7 b8 b9 b10 b11 : Nat)
    (h0 : b0 < 256) (h1 : b1 < 256) (h2 : b2 < 256) (h3 : b3 < 256) (h4 : b4 < 256)
    (h6 : b6 < 256) (h7 : b7 < 256) (h9 : b9 < 256) (h10 : b10 < 256) :
    (Oti.deserialize [b0, b1, b2, b3, b4, b5, b6, b7, b8, b9, b10, b11]).map Oti.serialize
      = some [b0, b1, b2, b3, b4, 0, b6, b7, b8, b9, b10, b11] := by
  simp only [Oti.deserialize, Option.map_some, Oti.serialize, Nat.shiftRight_eq_div_pow,
    Nat.shiftLeft_eq, Option.some.injEq, List.cons.injEq, and_true, true_and]
  refine ⟨?_, ?_, ?_, ?_, ?_, ?_, ?_, ?_, ?_⟩ <;> omega

/-- a parsed buffer is always representable -/
theorem oti_deserialize_representable (b0 b1 b2 b3 b4 b5 b6 b7 b8 b9 b10 b11 : Nat)
    (h0 : b0 < 256) (h1 : b1 < 256) (h2 : b2 < 256) (h3 : b3 < 256) (h4 : b4 < 256)
    (h6 : b6 < 256) (h7 : b7 < 256) (h8 : b8 < 256) (h9 : b9 < 256) (h10 : b10 < 256)
    (h11 : b11 < 256) :
    ∃ o, Oti.deserialize [b0, b1, b2, b3, b4, b5, b6, b7, b8, b9, b10, b11] = some o
      ∧ Oti.Representable o := by
  refine ⟨_, rfl, ?_⟩
  simp only [Oti.Representable, Nat.shiftLeft_eq]
  refine ⟨?_, ?_, ?_, ?_, ?_⟩ <;> omega

/-- The 40-bit field really is the limit: serialising drops everything above bit 39, so two
transfer lengths that differ by 2^40 serialise alike (the constructor's limit
942574504275 < 2^40 of C19 is what keeps accepted configurations representable). -/
theorem oti_serialize_mod (o : Oti) :
    o.serialize = ({ o with f := o.f % 2 ^ 40 } : Oti).serialize := by
  simp only [Oti.serialize, Nat.shiftRight_eq_div_pow, List.cons.injEq, and_true]
  refine ⟨?_, ?_, ?_, ?_, ?_⟩ <;> omega

theorem maxTransferLength_representable : maxTransferLength < 2 ^ 40 := by decide

/-! ## Non-vacuity: concrete values meeting the hypotheses -/

example : PayloadId.deserialize (PayloadId.serialize ⟨255, 16777215⟩) = some ⟨255, 16777215⟩ :=
  pid_roundtrip _ (by decide) (by decide)
example : (PayloadId.serialize ⟨7, 0x010203⟩) = [7, 1, 2, 3] := by decide
example : Oti.Representable ⟨942574504275, 65535, 255, 65535, 255⟩ := by
  simp [Oti.Representable]
example : Oti.serialize ⟨0x0102030405, 0x0607, 8, 0x090a, 11⟩ = [1, 2, 3, 4, 5, 0, 6, 7, 8, 9, 10, 11] := by
  decide
example : Packet.deserialize (Packet.serialize ⟨⟨1, 2⟩, []⟩) = some ⟨⟨1, 2⟩, []⟩ :=
  pkt_roundtrip _ (by decide) (by decide)

end Rq.C13
