import Rq.Spec.Defs
import Rq.Thm.C15
import Rq.Lemmas.IsiBound
import Rq.Lemmas.Stream
import Rq.Lemmas.Linear
/-!
# C18 — the repair stream is addressed consistently (fountain property)

Model: `BlockEnc.repairPacket(s)`, `BlockEnc.sourcePackets`, `ObjEnc.packets` (`Rq/Model/Codec.lean`).
-/
namespace Rq.C18
open Rq

set_option linter.unusedVariables false

/-- **A window of n packets starting at repair index s equals the n single-packet requests
s, …, s+n-1** (in particular overlapping windows agree) -/
theorem window_eq_singles (e : BlockEnc) (s n : Nat) (ps : List Packet) (h : e.repairPackets s n = some ps) :
    ps.length = n ∧ ∀ i, i < n → e.repairPackets (s + i) 1 = some [ps.getD i ⟨⟨0, 0⟩, []⟩] := by
  obtain ⟨h1, h2, h3⟩ := (repairPackets_eq_some_iff e s n ps).mp h
  refine ⟨h2, fun i hi => ?_⟩
  apply repairPackets_one
  rw [h3 i hi, List.getD_eq_getElem?_getD, List.getElem?_eq_getElem (by omega)]
  simp

theorem singles_give_window (e : BlockEnc) (s n : Nat) (hn : 0 < n)
    (h : ∀ i, i < n → (e.repairPackets (s + i) 1).isSome) : (e.repairPackets s n).isSome := by
  have h0 := (repairPackets_one_isSome e _ (h 0 hn)).2
  unfold BlockEnc.repairPackets
  rw [if_neg (by omega), mapM_isSome_iff]
  intro i hi
  exact (repairPackets_one_isSome e _ (h i (List.mem_range.mp hi))).1

theorem windows_overlap (e : BlockEnc) (s s' n n' : Nat) (ps ps' : List Packet)
    (h : e.repairPackets s n = some ps) (h' : e.repairPackets s' n' = some ps')
    (i i' : Nat) (hi : i < n) (hi' : i' < n') (heq : s + i = s' + i') :
    ps.getD i ⟨⟨0, 0⟩, []⟩ = ps'.getD i' ⟨⟨0, 0⟩, []⟩ := by
  obtain ⟨_, _, h3⟩ := (repairPackets_eq_some_iff e s n ps).mp h
  obtain ⟨_, _, h3'⟩ := (repairPackets_eq_some_iff e s' n' ps').mp h'
  rw [List.getD_eq_getElem?_getD, List.getD_eq_getElem?_getD, ← h3 i hi, ← h3' i' hi', heq]

/-- packet i of a window: ESI K + s + i, internal symbol id K' + s + i, the block's number -/
theorem window_ids (e : BlockEnc) (s n : Nat) (ps : List Packet) (h : e.repairPackets s n = some ps)
    (i : Nat) (hi : i < n) :
    ∃ idx, encIndicesOf e.sp (e.sp.kp + s + i) = some idx ∧
      ps.getD i ⟨⟨0, 0⟩, []⟩ = ⟨⟨e.sbn, e.k + s + i⟩, encSymbol e.c idx⟩ := by
  obtain ⟨_, h2, h3⟩ := (repairPackets_eq_some_iff e s n ps).mp h
  have hp : e.repairPacket (s + i) = some (ps.getD i ⟨⟨0, 0⟩, []⟩) := by
    rw [h3 i hi, List.getD_eq_getElem?_getD, List.getElem?_eq_getElem (by omega)]
    simp
  obtain ⟨_, _, idx, hidx, hpk⟩ := repairPacket_eq_some e _ _ hp
  exact ⟨idx, by rw [Nat.add_assoc]; exact hidx, by rw [hpk, Nat.add_assoc]⟩

/-- **Every ID up to 2^24 − 1 is producible and nothing beyond**: a non-empty window is produced
exactly when K + s + n ≤ 2^24 -/
theorem window_isSome_iff (e : BlockEnc) (hp : sysParams e.k = some e.sp) (s n : Nat) (hn : 0 < n) :
    (e.repairPackets s n).isSome ↔ e.k + s + n ≤ 16777216 := by
  have hk := sysParams_some_le _ _ hp
  obtain ⟨sp', hsp', _, _, _, _, _, _, _, _, _, hl, hl', _⟩ := Rq.C15.sysParams_consistent e.k hk
  rw [hp] at hsp'
  cases hsp'
  have hkp : e.sp.kp < 65536 := by omega
  constructor
  · intro h
    obtain ⟨ps, hps⟩ := Option.isSome_iff_exists.mp h
    obtain ⟨_, h2, h3⟩ := (repairPackets_eq_some_iff e s n ps).mp hps
    have hq : e.repairPacket (s + (n - 1)) = some ps[n - 1] := by
      rw [h3 (n - 1) (by omega), List.getElem?_eq_getElem (by omega)]
    obtain ⟨_, hh, _⟩ := repairPacket_eq_some e _ _ hq
    omega
  · intro h
    unfold BlockEnc.repairPackets
    have : U32 = 4294967296 := rfl
    rw [if_neg (by omega), mapM_isSome_iff]
    intro i hi
    have hi := List.mem_range.mp hi
    obtain ⟨sp', l, hsp', hl, _⟩ := Rq.C15.encIndices_wf e.k (e.sp.kp + (s + i)) hk (by omega)
    rw [hp] at hsp'
    cases hsp'
    unfold BlockEnc.repairPacket
    simp only
    rw [if_neg (by omega), hl]
    rfl

/-- the payload depends on the plan / solver only through C, and any two solvers meeting
`SolverSpec` compute the same C: plans for equal block sizes are interchangeable.

`hcons` (added): the encoder's system for this block has a solution. `SolverSpec` constrains a
solver on consistent right-hand sides only, so without it nothing is known about the two answers;
that the L×L matrix A(K') is non-singular for all 477 values of K' (RFC 6330, 5.3.3.4.2) would make
`hcons` automatic but is far outside kernel evaluation. The system itself exists for every K
(`fullSystem_isSome`). `hd` is not needed. -/
theorem solver_irrelevant (sv sv' : Solver) (hs : SolverSpec sv) (hs' : SolverSpec sv')
    (sbn : Nat) (o : Oti) (data : List Nat) (e e' : BlockEnc) (hd : IsBytes data) (ht : 0 < o.t)
    (hcons : ∀ src sp a, createSymbols o.t o.al o.n data = some src → sysParams src.length = some sp →
      fullSystem sp (List.range sp.kp) = some a → Consistent a o.t (createD sp o.t src))
    (he : BlockEnc.new? sv sbn o data = some e) (he' : BlockEnc.new? sv' sbn o data = some e') : e = e' := by
  unfold BlockEnc.new? at he he'
  cases hsrc : createSymbols o.t o.al o.n data with
  | none => simp [hsrc] at he
  | some src =>
    simp only [hsrc] at he he'
    cases hsp : sysParams src.length with
    | none => simp [hsp] at he
    | some sp =>
      simp only [hsp] at he he'
      obtain ⟨a, ha⟩ := Option.isSome_iff_exists.mp (fullSystem_isSome _ sp hsp)
      have hc := hcons src sp a hsrc hsp ha
      obtain ⟨hal, hbytes⟩ := fullSystem_hdpc_bytes _ _ a ha
      have hrhs : WfRhs a o.t (createD sp o.t src) := by
        obtain ⟨c0, hc0, hap⟩ := hc
        rw [← hap]
        exact ⟨System.apply_length a c0 o.t, System.apply_wf a o.t c0 hc0 hbytes⟩
      cases hf : sv.full sp (List.range sp.kp) (createD sp o.t src) with
      | singular => simp [hf] at he
      | oracleError => simp [hf] at he
      | solved c =>
        cases hf' : sv'.full sp (List.range sp.kp) (createD sp o.t src) with
        | singular => simp [hf'] at he'
        | oracleError => simp [hf'] at he'
        | solved c' =>
          simp only [hf, Option.some.injEq] at he
          simp only [hf', Option.some.injEq] at he'
          obtain ⟨hw, hap, hdet⟩ := hs.full_solved _ sp _ a o.t _ c hsp (range_kp_lt _ _ hsp) ha ht hrhs hc hf
          obtain ⟨hw', hap', _⟩ := hs'.full_solved _ sp _ a o.t _ c' hsp (range_kp_lt _ _ hsp) ha ht hrhs hc hf'
          have : c = c' := determined_unique a o.t c c' hw hw' hbytes hdet (by rw [hap, hap'])
          rw [← he, ← he', this]

/-- variant: it is enough that *one* of the two encoders really solves its system (which is what
the checked oracle guarantees, and part of `GoodEnc`) -/
theorem solver_irrelevant_of_solves (sv sv' : Solver) (hs : SolverSpec sv) (hs' : SolverSpec sv')
    (sbn : Nat) (o : Oti) (data : List Nat) (e e' : BlockEnc) (hd : IsBytes data) (ht : 0 < o.t)
    (hsol : ∃ a, fullSystem e.sp (List.range e.sp.kp) = some a ∧ WfInter a.l o.t e.c ∧
      a.apply e.c o.t = createD e.sp o.t e.src)
    (he : BlockEnc.new? sv sbn o data = some e) (he' : BlockEnc.new? sv' sbn o data = some e') : e = e' := by
  refine solver_irrelevant sv sv' hs hs' sbn o data e e' hd ht ?_ he he'
  intro src sp a hsrc hsp ha
  unfold BlockEnc.new? at he
  simp only [hsrc, hsp] at he
  split at he
  · cases he
    obtain ⟨a0, ha0, hw, hap⟩ := hsol
    simp only at ha0 hw hap
    rw [ha] at ha0
    cases ha0
    exact ⟨_, hw, hap⟩
  · cases he

/-- **The per-object packet list**: block by block in order, the K source packets (ESI 0..K-1)
followed by the r repair packets (ESI K..K+r-1), all carrying the block's number -/
theorem object_packets (e : ObjEnc) (r : Nat) (ps : List Packet) (h : e.packets r = some ps) :
    ∃ per : List (List Packet), ps = per.flatten ∧ per.length = e.blocks.length ∧
      ∀ b, b < e.blocks.length →
        let be := e.blocks.getD b ⟨0, 0, ⟨0,0,0,0,0,0,0,0⟩, [], #[]⟩
        (per.getD b []).map (·.pid) =
          (List.range (be.k + r)).map fun i => (⟨be.sbn, i⟩ : PayloadId) := by
  obtain ⟨per, h1, h2, h3⟩ := packets_eq_some e r ps h
  refine ⟨per, h1, h2, ?_⟩
  intro b hb
  simp only
  rw [getD_eq_getElem' e.blocks _ hb]
  exact h3 b hb

/-- block numbers are 0, 1, …, Z−1 (Z ≤ 256), hence all (SBN, ESI) pairs of the list are distinct -/
theorem object_sbn (sv : Solver) (data : List Nat) (o : Oti) (e : ObjEnc) (h : ObjEnc.new? sv data o = some e)
    (hz : e.blocks.length ≤ 256) :
    ∀ b, b < e.blocks.length → (e.blocks.getD b ⟨0, 0, ⟨0,0,0,0,0,0,0,0⟩, [], #[]⟩).sbn = b := by
  intro b hb
  rw [List.getD_eq_getElem?_getD, List.getElem?_eq_getElem hb, Option.getD_some]
  unfold ObjEnc.new? at h
  split at h
  · cases h
  · obtain ⟨bs, hbs, rfl⟩ := Option.map_eq_some_iff.mp h
    have := ObjEnc.go_sbn sv data o _ 0 bs hbs b hb
    simp only at hb hz ⊢
    rw [this]
    omega

theorem object_ids_distinct (sv : Solver) (data : List Nat) (o : Oti) (e : ObjEnc) (h : ObjEnc.new? sv data o = some e)
    (hz : e.blocks.length ≤ 256) (r : Nat) (ps : List Packet) (hp : e.packets r = some ps) :
    (ps.map (·.pid)).Nodup := by
  obtain ⟨per, rfl, hlen, hper⟩ := packets_eq_some e r ps hp
  have hsbn : ∀ b (hb : b < e.blocks.length), e.blocks[b].sbn = b := by
    intro b hb
    have := object_sbn sv data o e h hz b hb
    rwa [List.getD_eq_getElem?_getD, List.getElem?_eq_getElem hb, Option.getD_some] at this
  have hper' : ∀ b (hb : b < per.length), per[b].map (·.pid) =
      (List.range (e.blocks[b].k + r)).map fun i => (⟨b, i⟩ : PayloadId) := by
    intro b hb
    have := hper b (hlen ▸ hb)
    rwa [List.getD_eq_getElem?_getD, List.getElem?_eq_getElem hb, Option.getD_some, hsbn b (hlen ▸ hb)] at this
  rw [List.map_flatten, List.nodup_flatten]
  constructor
  · intro l hl
    obtain ⟨l0, hl0, rfl⟩ := List.mem_map.mp hl
    obtain ⟨b, hb, rfl⟩ := List.getElem_of_mem hl0
    rw [hper' b hb]
    apply List.Nodup.map _ List.nodup_range
    intro i j hij
    exact (PayloadId.mk.injEq _ _ _ _ ▸ hij).2
  · rw [List.pairwise_iff_getElem]
    intro i j hi hj hij
    simp only [List.length_map] at hi hj
    simp only [List.getElem_map]
    rw [hper' i hi, hper' j hj]
    intro x hx hx'
    obtain ⟨_, _, rfl⟩ := List.mem_map.mp hx
    obtain ⟨_, _, h2⟩ := List.mem_map.mp hx'
    have := (PayloadId.mk.injEq _ _ _ _ ▸ h2).1
    omega

end Rq.C18
