import Rq.Thm.C02b
import Rq.Thm.C06b
import Rq.Model.PiCodec
import Rq.Lemmas.CertSound
import Rq.Lemmas.AttemptSound
/-!
# C02 (continued) — every run of the modelled five-phase solver is certified

`PiSolver.lean` models the crate's solver op for op (tied to the Rust by comparing operation
vectors). It is not proved correct for all inputs; instead each run is *certified*: `certOk a ops`
replays the recorded operations on the coefficient matrix itself and requires the identity — the
operations realise a left inverse of A. This file proves that the certificate is sound
(`cert_sound`): it implies that A is determined and that replaying the same operations on any
consistent right-hand side returns the solution. Hence `piSolverChecked` (solver + certificate;
when the solver gives up, the verified Gauss–Jordan oracle must confirm singularity) meets the
solver specification on every run in which it does not report an internal error, and the C02
statement holds for the whole code-shaped decoder on every such run (`attempt_iff_checked`).
The correspondence run compares the Rust decoder with exactly this certified pipeline.
-/
namespace Rq.C02
open Rq

/-- scalars of the recorded operations are bytes -/
def OpsBytes (ops : List SymOp) : Prop :=
  ∀ op ∈ ops, match op with | .mul _ c => c < 256 | .fma _ _ c => c < 256 | _ => True

/-- **The certificate is sound**: a valid certificate makes the system determined, and the recorded
operations then solve every consistent right-hand side of every symbol size. -/
theorem cert_sound (a : System) (hw : WfSystem a) (ops : List SymOp) (h : certOk a ops = true) :
    Determined a ∧
      ∀ t, 0 < t → ∀ c0 : Inter, WfInter a.l t c0 → replayOps ops (a.apply c0 t) a.l = some c0 := by
  obtain ⟨hops, hcert⟩ := (certOk_iff a ops).mp h
  exact ⟨cert_determined a hw.toSys ops hops hcert,
    fun t ht c0 hc0 => cert_all a hw.toSys ops hops hcert t ht c0 hc0⟩

/-- what `piSolverChecked` guarantees on every answer (no completeness claim: it may report
`oracleError`, which the codec turns into an error, never into a result) -/
structure SolverSound (sv : Solver) : Prop where
  full_solved : ∀ k sp isis a t d c, sysParams k = some sp → (∀ x ∈ isis, x < 2 ^ 32) → fullSystem sp isis = some a →
    0 < t → WfRhs a t d → Consistent a t d → sv.full sp isis d = .solved c →
      WfInter a.l t c ∧ a.apply c t = d ∧ Determined a
  full_singular : ∀ k sp isis a t d, sysParams k = some sp → (∀ x ∈ isis, x < 2 ^ 32) → fullSystem sp isis = some a →
    0 < t → WfRhs a t d → Consistent a t d → sv.full sp isis d = .singular → ¬ Determined a
  bin_solved : ∀ k sp isis a t d c, sysParams k = some sp → (∀ x ∈ isis, x < 2 ^ 32) → binSystem sp isis = some a →
    0 < t → WfRhs a t d → Consistent a t d → sv.noHdpc sp isis d = .solved c →
      WfInter a.l t c ∧ a.apply c t = d ∧ Determined a

/-- a certified answer on a consistent right-hand side is the solution -/
theorem checked_solved (a : System) (hw : WfSystem a) (ops : List SymOp) (t : Nat) (d : List Sym) (c : Inter)
    (ht : 0 < t) (hcons : Consistent a t d) (hcert : certOk a ops = true)
    (hrep : replayOps ops d a.l = some c) : WfInter a.l t c ∧ a.apply c t = d ∧ Determined a := by
  obtain ⟨hdet, hall⟩ := cert_sound a hw ops hcert
  obtain ⟨c0, hc0, rfl⟩ := hcons
  rw [hall t ht c0 hc0] at hrep
  cases hrep
  exact ⟨hc0, rfl, hdet⟩

theorem piSolverChecked_sound (sparse : Bool) : SolverSound (piSolverChecked sparse) := by
  constructor
  · intro k sp isis a t d c hsp hisis ha ht _ hcons hsv
    have hw := fullSystem_wf k sp hsp isis hisis a ha
    have hal := fullSystem_l sp isis a ha
    have ha' : piSolverChecked.fullSystem' sp isis = some a := ha
    simp only [piSolverChecked, ha'] at hsv
    split at hsv
    · next ops _ =>
      split at hsv
      · next hcert =>
        split at hsv
        · next c' hrep =>
          cases hsv
          exact checked_solved a hw ops t d c ht hcons hcert (hal ▸ hrep)
        · cases hsv
      · cases hsv
    · split at hsv <;> cases hsv
  · intro k sp isis a t d hsp hisis ha ht _ hcons hsv
    have hw := fullSystem_wf k sp hsp isis hisis a ha
    have ha' : piSolverChecked.fullSystem' sp isis = some a := ha
    simp only [piSolverChecked, ha'] at hsv
    split at hsv
    · split at hsv
      · split at hsv <;> cases hsv
      · cases hsv
    · split at hsv
      · next hsol => exact oracle_singular_sound a d _ hsol hw.bin_lt
      · cases hsv
  · intro k sp isis a t d c hsp hisis ha ht _ hcons hsv
    have hw := binSystem_wf k sp hsp isis hisis a ha
    have hal := binSystem_l sp isis a ha
    have ha' : piSolverChecked.binSystem' sp isis = some a := ha
    simp only [piSolverChecked, ha'] at hsv
    split at hsv
    · next ops _ =>
      split at hsv
      · next hcert =>
        split at hsv
        · next c' hrep =>
          cases hsv
          exact checked_solved a hw ops t d c ht hcons hcert (hal ▸ hrep)
        · cases hsv
      · cases hsv
    · cases hsv

/-- the full solve (case 3b), for any sound solver, on a run that produced an answer -/
theorem try3b_sound (sv : Solver) (hs : SolverSound sv) (d : BlockDec) (e : BlockEnc) (t : Nat) (data : List Nat)
    (h : Tracks d e t) (he : GoodEnc e t) (hl : LayoutOk d t data e) (L : Array (List Nat))
    (Hd : Array (Array Nat)) (hr : EncRows e t L Hd) (hn : e.k ≤ d.esis.length)
    (res : Option (List Nat)) (cs : DecCase) (hrun : try3b sv d e.sp = some (res, cs)) :
    (res = some data ∨ res = none) ∧
      (res = some data ↔ Determined (mkSys e.sp L Hd (isisOf d e.sp))) := by
  obtain ⟨hsys, happ⟩ := received_full d e t h he L Hd hr hn
  have hisis := isisOf_lt d e t h he
  have hwf : WfRhs (mkSys e.sp L Hd (isisOf d e.sp)) t
      (List.replicate (e.sp.s + e.sp.h) (zeroSym t) ++ recvOf d e.sp) := by
    rw [← happ]; exact apply_wfRhs _ _ _ he.c_wf
  have hcons : Consistent (mkSys e.sp L Hd (isisOf d e.sp)) t
      (List.replicate (e.sp.s + e.sp.h) (zeroSym t) ++ recvOf d e.sp) := ⟨e.c, he.c_wf, happ⟩
  unfold try3b at hrun
  rw [h.ht] at hrun
  cases hsv : sv.full e.sp (isisOf d e.sp) (List.replicate (e.sp.s + e.sp.h) (zeroSym t) ++ recvOf d e.sp) with
  | singular =>
    have := hs.full_singular _ _ _ _ t _ he.params hisis hsys he.t_pos hwf hcons hsv
    rw [hsv] at hrun
    cases hrun
    exact ⟨Or.inr rfl, by simp [this]⟩
  | oracleError => rw [hsv] at hrun; cases hrun
  | solved c =>
    obtain ⟨hc, hcapp, hdet⟩ := hs.full_solved _ _ _ _ t _ c he.params hisis hsys he.t_pos hwf hcons hsv
    have : c = e.c := determined_unique_d _ (mkSys_hdpcBytes _ _ _ _ hr.hH) hdet t c e.c hc he.c_wf
      (by rw [hcapp, happ])
    subst this
    rw [hsv] at hrun
    dsimp only at hrun
    rw [assemble_ok d e t data h he hl L Hd hr] at hrun
    cases hrun
    exact ⟨Or.inl rfl, by simp [hdet]⟩

/-- C02 per run, for any solver that is sound on its answers -/
theorem attempt_iff_sound (sv : Solver) (hs : SolverSound sv) (d : BlockDec) (e : BlockEnc) (t : Nat)
    (data : List Nat) (h : Tracks d e t) (he : GoodEnc e t) (hl : LayoutOk d t data e)
    (hn : e.k ≤ d.esis.length) (res : Option (List Nat)) (cs : DecCase)
    (hrun : d.attempt sv = some (res, cs)) :
    ∃ a, fullSystem e.sp (isisOf d e.sp) = some a ∧ (res = some data ∨ res = none) ∧
      (res = some data ↔ (d.recvSrc = e.k ∨ Determined a)) := by
  obtain ⟨L, Hd, hr⟩ := goodEnc_rows e t he
  obtain ⟨hsys, happ⟩ := received_full d e t h he L Hd hr hn
  have hisis := isisOf_lt d e t h he
  refine ⟨_, hsys, ?_⟩
  rw [attempt_eq sv d e.sp (by rw [h.hk]; exact he.params), h.hk, if_neg (by omega)] at hrun
  by_cases hall : d.recvSrc = e.k
  · rw [if_pos hall] at hrun
    have : (List.range e.k).mapM (fun i => d.src.getD i none) = some e.src :=
      mapM_range_some _ e.src (src_all d e t h hall)
    rw [this] at hrun
    dsimp only at hrun
    have hu := unpack_src d e t data h he hl
    rw [h.hk] at hu
    rw [hu] at hrun
    cases hrun
    exact ⟨Or.inl rfl, by simp [hall]⟩
  · rw [if_neg hall, recvOf_len d e t h he L Hd hr] at hrun
    simp only [Bool.false_eq_true, if_false] at hrun
    simp only [hall, false_or]
    have h3 := try3b_sound sv hs d e t data h he hl L Hd hr hn res cs
    split at hrun
    · next hlen =>
      obtain ⟨hbsys, hbapp⟩ := received_bin d e t h he L Hd hr hlen
      have hwf : WfRhs (mkSys e.sp L #[] (isisOf d e.sp)) t
          (List.replicate e.sp.s (zeroSym t) ++ recvOf d e.sp) := by
        rw [← hbapp]; exact apply_wfRhs _ _ _ he.c_wf
      have hcons : Consistent (mkSys e.sp L #[] (isisOf d e.sp)) t
          (List.replicate e.sp.s (zeroSym t) ++ recvOf d e.sp) := ⟨e.c, he.c_wf, hbapp⟩
      rw [h.ht] at hrun
      cases hsv : sv.noHdpc e.sp (isisOf d e.sp) (List.replicate e.sp.s (zeroSym t) ++ recvOf d e.sp) with
      | singular => rw [hsv] at hrun; exact h3 hrun
      | oracleError => rw [hsv] at hrun; cases hrun
      | solved c =>
        obtain ⟨hc, hcapp, hdet⟩ := hs.bin_solved _ _ _ _ t _ c he.params hisis hbsys he.t_pos hwf hcons hsv
        have : c = e.c := determined_unique_d _ (mkSys_hdpcBytes_nil _ _ _) hdet t c e.c hc he.c_wf
          (by rw [hcapp, hbapp])
        subst this
        rw [hsv] at hrun
        dsimp only at hrun
        rw [assemble_ok d e t data h he hl L Hd hr] at hrun
        cases hrun
        exact ⟨Or.inl rfl, by simp [determined_of_bin _ _ _ _ hr.sizeL hdet]⟩
    · exact h3 hrun

/-- **C02 for the code-shaped pipeline, per run**: whenever the certified decoder produces an
answer at all (no internal error), the answer obeys the C02 statement. -/
theorem attempt_iff_checked (sparse : Bool) (d : BlockDec) (e : BlockEnc) (t : Nat) (data : List Nat)
    (h : Tracks d e t) (he : GoodEnc e t) (hl : LayoutOk d t data e) (hn : e.k ≤ d.esis.length)
    (res : Option (List Nat)) (cs : DecCase) (hrun : d.attempt (piSolverChecked sparse) = some (res, cs)) :
    ∃ a, fullSystem e.sp (isisOf d e.sp) = some a ∧ (res = some data ∨ res = none) ∧
      (res = some data ↔ (d.recvSrc = e.k ∨ Determined a)) :=
  attempt_iff_sound _ (piSolverChecked_sound sparse) d e t data h he hl hn res cs hrun

end Rq.C02
