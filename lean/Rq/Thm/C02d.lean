import Rq.Thm.C02b
import Rq.Thm.C02c
import Rq.Thm.C01
import Rq.Thm.C08
import Rq.Thm.C14
import Rq.Thm.C07
/-!
# C02 (continued) — the checked oracle is an instance of `SolverSpec`

Every decoder / encoder theorem (C01 C02 C06 C07 C08 C18) is stated for an arbitrary solver `sv`
with `hs : SolverSpec sv`. This file shows that the hypothesis is satisfiable by a concrete,
executable solver: `oracle` (`Rq/Model/Oracle.lean`, Gauss–Jordan with re-checked verdicts) meets
`SolverSpec` (`oracle_spec`). The main theorems are then restated for `oracle` without any solver
hypothesis (`*_oracle`).
-/
namespace Rq.C02
open Rq

/-! ## the symbol size the oracle reads off the right-hand side -/

/-- on a non-empty well-formed right-hand side `symLen` is the symbol size -/
theorem symLen_eq (a : System) (t : Nat) (d : List Sym) (hd : WfRhs a t d) (hr : 0 < a.rows) :
    symLen d = t := by
  obtain ⟨hlen, hall⟩ := hd
  cases d with
  | nil => simp at hlen; omega
  | cons s rest =>
    have := (hall s (by simp)).1
    simp [symLen, this]

/-- a well-formed system of the codec has at least one row (S > 0) -/
theorem mkSys_rows_pos (sp : SysParams) (L : Array (List Nat)) (Hd : Array (Array Nat)) (isis : List Nat)
    (hL : ldpcRows sp = some L) : 0 < (mkSys sp L Hd isis).rows := by
  have hsz := ldpcRows_size sp L hL
  have hs : 0 < sp.s := by
    unfold ldpcRows at hL
    split at hL
    · cases hL
    · next h => omega
  show 0 < (L ++ (isis.map (encRowD sp)).toArray).size + Hd.size
  rw [Array.size_append]
  omega

theorem fullSystem_rows_pos (sp : SysParams) (isis : List Nat) (a : System) (ha : fullSystem sp isis = some a) :
    0 < a.rows := by
  obtain ⟨L, Hd, hL, _, _, _, rfl⟩ := fullSystem_inv sp isis a ha
  exact mkSys_rows_pos sp L Hd isis hL

theorem binSystem_rows_pos (sp : SysParams) (isis : List Nat) (a : System) (ha : binSystem sp isis = some a) :
    0 < a.rows := by
  obtain ⟨L, hL, _, _, rfl⟩ := binSystem_inv sp isis a ha
  exact mkSys_rows_pos sp L #[] isis hL

/-! ## `oracle` runs `solveSystem` on the system of the specification -/

theorem oracle_full_eq (sp : SysParams) (isis : List Nat) (a : System) (ha : fullSystem sp isis = some a)
    (d : List Sym) : oracle.full sp isis d = solveSystem a d (symLen d) := by
  unfold fullSystem at ha
  obtain ⟨⟨bin, hd⟩, hcm, rfl⟩ := Option.map_eq_some_iff.mp ha
  simp only [oracle, hcm]

theorem oracle_bin_eq (sp : SysParams) (isis : List Nat) (a : System) (ha : binSystem sp isis = some a)
    (d : List Sym) : oracle.noHdpc sp isis d = solveSystem a d (symLen d) := by
  unfold binSystem at ha
  obtain ⟨bin, hcm, rfl⟩ := Option.map_eq_some_iff.mp ha
  simp only [oracle, hcm]

/-! ## a `solved` verdict on a consistent right-hand side is a well-formed solution -/

/-- the symbols the oracle returns are read back from byte arrays: their entries are bytes -/
theorem oracle_solved_bytes (a : System) (d : List Sym) (t : Nat) (c : Inter)
    (h : solveSystem a d t = .solved c) : ∀ s ∈ c.toList, IsBytes s := by
  unfold solveSystem at h
  split at h
  · cases h
  · split at h
    · next cb _ =>
      dsimp only at h
      split at h
      · injection h with h
        subst h
        intro s hs x hx
        simp only [Array.toList_map, List.mem_map] at hs
        obtain ⟨b, _, rfl⟩ := hs
        unfold baToSym at hx
        obtain ⟨u, _, rfl⟩ := List.mem_map.mp hx
        exact u.toNat_lt
      · cases h
    · split at h <;> cases h

theorem oracle_solved_wf (a : System) (d : List Sym) (t : Nat) (c : Inter)
    (h : solveSystem a d t = .solved c) : WfInter a.l t c ∧ a.apply c t = d := by
  obtain ⟨hsz, hlen, happ⟩ := oracle_solved_sound a d t c h
  have hb := oracle_solved_bytes a d t c h
  refine ⟨⟨hsz, fun i hi => ⟨hlen i hi, ?_⟩⟩, happ⟩
  have hi' : i < c.size := by omega
  have e : c.getD i [] = c[i] := by simp [Array.getD, hi']
  rw [e]
  exact hb _ (by simp)

/-- all the verdicts of `solveSystem` on a well-formed system and a consistent right-hand side -/
theorem solveSystem_spec (a : System) (hw : WfSystem a) (t : Nat) (ht : 0 < t) (d : List Sym)
    (hd : WfRhs a t d) (hc : Consistent a t d) :
    (∀ c, solveSystem a d t = .solved c → WfInter a.l t c ∧ a.apply c t = d ∧ Determined a) ∧
    (solveSystem a d t = .singular → ¬ Determined a) ∧
    solveSystem a d t ≠ .oracleError := by
  refine ⟨fun c h => ?_, fun h => oracle_singular_sound a d t h hw.bin_lt, oracle_answers a hw d t ht hd hc⟩
  obtain ⟨h1, h2⟩ := oracle_solved_wf a d t c h
  exact ⟨h1, h2, oracle_solved_determined a hw d t c hd h⟩

/-! ## the specification -/

/-- **The checked Gauss–Jordan oracle meets the solver specification.** Hence `SolverSpec` is
satisfiable, by an executable solver, and every theorem stated for a solver meeting `SolverSpec`
applies to `oracle` unconditionally. -/
theorem oracle_spec : SolverSpec oracle := by
  constructor
  · intro k sp isis a t d c hsp hisis ha ht hd hc h
    have hw := fullSystem_wf k sp hsp isis hisis a ha
    rw [oracle_full_eq sp isis a ha d, symLen_eq a t d hd (fullSystem_rows_pos sp isis a ha)] at h
    exact (solveSystem_spec a hw t ht d hd hc).1 c h
  · intro k sp isis a t d hsp hisis ha ht hd hc h
    have hw := fullSystem_wf k sp hsp isis hisis a ha
    rw [oracle_full_eq sp isis a ha d, symLen_eq a t d hd (fullSystem_rows_pos sp isis a ha)] at h
    exact (solveSystem_spec a hw t ht d hd hc).2.1 h
  · intro k sp isis a t d hsp hisis ha ht hd hc
    have hw := fullSystem_wf k sp hsp isis hisis a ha
    rw [oracle_full_eq sp isis a ha d, symLen_eq a t d hd (fullSystem_rows_pos sp isis a ha)]
    exact (solveSystem_spec a hw t ht d hd hc).2.2
  · intro k sp isis a t d c hsp hisis ha ht hd hc h
    have hw := binSystem_wf k sp hsp isis hisis a ha
    rw [oracle_bin_eq sp isis a ha d, symLen_eq a t d hd (binSystem_rows_pos sp isis a ha)] at h
    exact (solveSystem_spec a hw t ht d hd hc).1 c h
  · intro k sp isis a t d hsp hisis ha ht hd hc
    have hw := binSystem_wf k sp hsp isis hisis a ha
    rw [oracle_bin_eq sp isis a ha d, symLen_eq a t d hd (binSystem_rows_pos sp isis a ha)]
    exact (solveSystem_spec a hw t ht d hd hc).2.2

/-- the completeness-free part `SolverSound` (C02c) is a consequence of `SolverSpec` -/
theorem SolverSpec.sound {sv : Solver} (hs : SolverSpec sv) : SolverSound sv :=
  ⟨hs.full_solved, hs.full_singular, hs.bin_solved⟩

/-! ## the oracle decides `Determined` -/

theorem solveSystem_decides (a : System) (hw : WfSystem a) (t : Nat) (ht : 0 < t) (c : Inter)
    (hc : WfInter a.l t c) :
    (Determined a ∧ solveSystem a (a.apply c t) t = .solved c) ∨
      (¬ Determined a ∧ solveSystem a (a.apply c t) t = .singular) := by
  have hd : WfRhs a t (a.apply c t) := apply_wfRhs a c t hc
  have hcons : Consistent a t (a.apply c t) := ⟨c, hc, rfl⟩
  obtain ⟨h1, h2, h3⟩ := solveSystem_spec a hw t ht _ hd hcons
  cases hsv : solveSystem a (a.apply c t) t with
  | solved c' =>
    obtain ⟨hc', happ, hdet⟩ := h1 c' hsv
    have hb : HdpcBytes a := fun row hrow => (hw.hdpc_wf row hrow).2
    rw [determined_unique_d a hb hdet t c' c hc' hc happ]
    exact Or.inl ⟨hdet, rfl⟩
  | singular => exact Or.inr ⟨h2 hsv, rfl⟩
  | oracleError => exact absurd hsv h3

/-- **The oracle is a decision procedure with witness**: asked about the encoding `A·c` of any
well-formed `c` under any system of the codec, it returns exactly `c` if the system is determined,
and `singular` if it is not. -/
theorem oracle_full_decides (k : Nat) (sp : SysParams) (isis : List Nat) (a : System) (t : Nat) (c : Inter)
    (hsp : sysParams k = some sp) (hisis : ∀ x ∈ isis, x < 2 ^ 32) (ha : fullSystem sp isis = some a)
    (ht : 0 < t) (hc : WfInter a.l t c) :
    (Determined a ∧ oracle.full sp isis (a.apply c t) = .solved c) ∨
      (¬ Determined a ∧ oracle.full sp isis (a.apply c t) = .singular) := by
  have hw := fullSystem_wf k sp hsp isis hisis a ha
  rw [oracle_full_eq sp isis a ha, symLen_eq a t _ (apply_wfRhs a c t hc) (fullSystem_rows_pos sp isis a ha)]
  exact solveSystem_decides a hw t ht c hc

theorem oracle_bin_decides (k : Nat) (sp : SysParams) (isis : List Nat) (a : System) (t : Nat) (c : Inter)
    (hsp : sysParams k = some sp) (hisis : ∀ x ∈ isis, x < 2 ^ 32) (ha : binSystem sp isis = some a)
    (ht : 0 < t) (hc : WfInter a.l t c) :
    (Determined a ∧ oracle.noHdpc sp isis (a.apply c t) = .solved c) ∨
      (¬ Determined a ∧ oracle.noHdpc sp isis (a.apply c t) = .singular) := by
  have hw := binSystem_wf k sp hsp isis hisis a ha
  rw [oracle_bin_eq sp isis a ha, symLen_eq a t _ (apply_wfRhs a c t hc) (binSystem_rows_pos sp isis a ha)]
  exact solveSystem_decides a hw t ht c hc

/-! ## non-vacuity -/

/-- the specification is satisfiable -/
example : ∃ sv, SolverSpec sv := ⟨oracle, oracle_spec⟩

/-- the premises of the fields of `SolverSpec` are satisfiable for every block size K ≤ 56403: the
standard system exists, its internal symbol ids are 32-bit values, and it has consistent
well-formed right-hand sides of every symbol size (here the image of the zero vector) -/
theorem spec_premises (k : Nat) (hk : k ≤ 56403) (t : Nat) :
    ∃ sp a d, sysParams k = some sp ∧ (∀ x ∈ List.range sp.kp, x < 2 ^ 32) ∧
      fullSystem sp (List.range sp.kp) = some a ∧ WfRhs a t d ∧ Consistent a t d := by
  obtain ⟨sp, hsp, _⟩ := Rq.C15.sysParams_consistent k hk
  obtain ⟨a, ha⟩ := Rq.C04.fullSystem_exists k hk sp hsp
  have hc : WfInter a.l t (Array.replicate a.l (zeroSym t)) := by
    refine ⟨by simp, fun i hi => ?_⟩
    have e : (Array.replicate a.l (zeroSym t)).getD i [] = zeroSym t := by simp [Array.getD, hi]
    rw [e]
    refine ⟨by simp [zeroSym], fun x hx => ?_⟩
    rw [zeroSym, List.mem_replicate] at hx
    rw [hx.2]; decide
  exact ⟨sp, a, _, hsp, range_kp_lt k sp hsp, ha, apply_wfRhs a _ t hc, ⟨_, hc, rfl⟩⟩

/-- … so on the standard system of K = 10 the oracle does give one of its two certified answers -/
example : ∃ sp a d, fullSystem sp (List.range sp.kp) = some a ∧
    ((Determined a ∧ ∃ c, oracle.full sp (List.range sp.kp) d = .solved c) ∨
      (¬ Determined a ∧ oracle.full sp (List.range sp.kp) d = .singular)) := by
  obtain ⟨sp, hsp, _⟩ := Rq.C15.sysParams_consistent 10 (by omega)
  obtain ⟨a, ha⟩ := Rq.C04.fullSystem_exists 10 (by omega) sp hsp
  have hc : WfInter a.l 1 (Array.replicate a.l [0]) := by
    refine ⟨by simp, fun i hi => ?_⟩
    have e : (Array.replicate a.l [0]).getD i [] = [0] := by simp [Array.getD, hi]
    rw [e]
    exact ⟨rfl, fun x hx => by rw [List.mem_singleton.mp hx]; decide⟩
  refine ⟨sp, a, a.apply (Array.replicate a.l [0]) 1, ha, ?_⟩
  rcases oracle_full_decides 10 sp _ a 1 _ hsp (range_kp_lt 10 sp hsp) ha (by omega) hc with ⟨h1, h2⟩ | h
  · exact Or.inl ⟨h1, _, h2⟩
  · exact Or.inr h

/-! ## the main theorems for the verified solver (no solver hypothesis left) -/

/-- C02 for `oracle` -/
theorem attempt_iff_oracle (d : BlockDec) (e : BlockEnc) (t : Nat) (data : List Nat)
    (h : Tracks d e t) (he : GoodEnc e t) (hl : LayoutOk d t data e) (hn : e.k ≤ d.esis.length) :
    ∃ a res cs, fullSystem e.sp (isisOf d e.sp) = some a ∧ d.attempt oracle = some (res, cs) ∧
      (res = some data ∨ res = none) ∧
      (res = some data ↔ (d.recvSrc = e.k ∨ Determined a)) :=
  attempt_iff oracle oracle_spec d e t data h he hl hn

end Rq.C02

namespace Rq.C01
open Rq Rq.C02

/-- C01, block level, for `oracle` -/
theorem block_history_oracle (e : BlockEnc) (t : Nat) (data : List Nat)
    (he : GoodEnc e t) (d : BlockDec) (h : Tracks d e t) (hl : LayoutOk d t data e)
    (batch : List Packet) (hb : ∀ p ∈ batch, Genuine e p) :
    ∃ d' res cs, d.decode oracle batch = some (d', res, cs) ∧ Tracks d' e t ∧ LayoutOk d' t data e ∧
      (res = none ∨ res = some data) ∧
      ((∀ i, i < e.k → (d'.src.getD i none).isSome) → res = some data) :=
  block_history oracle oracle_spec e t data he d h hl batch hb

/-- C01, object level, one step, for `oracle` -/
theorem object_step_oracle (dec : ObjDec) (enc : ObjEnc) (data : List Nat)
    (blocks : List (List Nat)) (h : ObjTracks dec enc data blocks) (hz : enc.blocks.length ≤ 256)
    (p : Packet) (hp : ∃ (b : Nat) (e : BlockEnc), enc.blocks[b]? = some e ∧ Genuine e p) :
    ∃ dec' res, dec.decode oracle p = some (dec', res) ∧ ObjTracks dec' enc data blocks ∧
      (res = none ∨ res = some data) :=
  object_step oracle oracle_spec dec enc data blocks h hz p hp

/-- a block encoder built with `oracle` is good when its standard system is invertible -/
theorem blockEnc_good_oracle (sbn : Nat) (o : Oti) (bytes : List Nat) (e : BlockEnc)
    (h : BlockEnc.new? oracle sbn o bytes = some e) (ht : 0 < o.t) (ht' : o.t < 2 ^ 32) (hal : 0 < o.al)
    (hdiv : o.t % o.al = 0) (hn : 1 ≤ o.n) (hn' : o.n ≤ o.t / o.al) (hb : IsBytes bytes)
    (hstd : ∃ a, fullSystem e.sp (List.range e.sp.kp) = some a ∧ Determined a) : GoodEnc e o.t :=
  blockEnc_good oracle oracle_spec sbn o bytes e h ht ht' hal hdiv hn hn' hb hstd

/-- C01, object level, initial state, for `oracle` -/
theorem object_init_oracle (data : List Nat) (o : Oti) (enc : ObjEnc)
    (hv : Rq.C05.ValidObj o) (hd : data.length = o.f) (hb : IsBytes data) (hal : 0 < o.al) (hdiv : o.t % o.al = 0)
    (hn : 1 ≤ o.n) (hn' : o.n ≤ o.t / o.al) (hz : o.z ≤ 256) (ht : o.t < 65536)
    (hkmax : ceilDiv (ceilDiv o.f o.t) o.z ≤ 56403)
    (henc : ObjEnc.new? oracle data o = some enc)
    (hstd : ∀ e ∈ enc.blocks, ∃ a, fullSystem e.sp (List.range e.sp.kp) = some a ∧ Determined a) :
    ∃ dec blocks, ObjDec.new? o = some dec ∧ ObjTracks dec enc data blocks :=
  object_init oracle oracle_spec data o enc hv hd hb hal hdiv hn hn' hz ht hkmax henc hstd

/-! ## C14 ∘ C01: derived parameters are admissible for the round trip -/

/-- the parameters `genParams` derives satisfy every hypothesis `object_init` puts on the `Oti` -/
theorem genParams_admissible (f pk ws : Nat) (h : Rq.C14.InDomain f pk ws) (o : Oti)
    (ho : genParams f pk ws = some o) :
    o.f = f ∧ Rq.C05.ValidObj o ∧ 0 < o.al ∧ o.t % o.al = 0 ∧ 1 ≤ o.n ∧ o.n ≤ o.t / o.al ∧ o.z ≤ 256 ∧
      o.t < 65536 ∧ ceilDiv (ceilDiv o.f o.t) o.z ≤ 56403 := by
  obtain ⟨⟨_, hdiv, hk⟩, hz1, hzle, hn1, hn2, hz256, _⟩ := Rq.C14.genParams_valid f pk ws h o ho
  obtain ⟨o', ho', hder⟩ := Rq.C14.genParams_spec f pk ws h
  rw [ho] at ho'
  cases ho'
  obtain ⟨hpk1, hpk2, hf1, _⟩ := h
  obtain ⟨hal, _, ht, ht', _⟩ := Rq.C14.dom_facts pk hpk1 hpk2
  have hkt : ceilDiv o.f o.t ≤ 56403 * o.z := (ceilDiv_le_iff _ _ _ (by omega)).mp hk
  refine ⟨hder.hf, ⟨?_, by omega, ?_, ?_, hzle⟩, ?_, hdiv, hn1, hn2, by omega, ?_, hk⟩
  · rw [hder.ht]; exact ht
  · rw [hder.hf]; exact hf1
  · omega
  · rw [hder.hal]; exact hal
  · rw [hder.ht]; omega

/-- **C14 + C01**: for every (F, P, WS) of the domain, an object encoder built with the derived
parameters and the verified solver, and the decoder built from the same parameters, start in the
state from which `object_step_oracle` applies. (`hstd` as in `object_init`.) -/
theorem object_init_genParams (f pk ws : Nat) (h : Rq.C14.InDomain f pk ws) (o : Oti)
    (ho : genParams f pk ws = some o) (data : List Nat) (hd : data.length = f) (hb : IsBytes data)
    (enc : ObjEnc) (henc : ObjEnc.new? oracle data o = some enc)
    (hstd : ∀ e ∈ enc.blocks, ∃ a, fullSystem e.sp (List.range e.sp.kp) = some a ∧ Determined a) :
    ∃ dec blocks, ObjDec.new? o = some dec ∧ ObjTracks dec enc data blocks := by
  obtain ⟨hf, hv, hal, hdiv, hn, hn', hz, ht, hk⟩ := genParams_admissible f pk ws h o ho
  exact object_init_oracle data o enc hv (hd.trans hf.symm) hb hal hdiv hn hn' hz ht hk henc hstd

/-- non-vacuity of `genParams_admissible`: (F, P, WS) = (10000, 500, 4000) is in the domain and the
code derives parameters for it -/
example : ∃ o, genParams 10000 500 4000 = some o ∧ Rq.C05.ValidObj o ∧ o.z ≤ 256 ∧ o.t < 65536 := by
  have hdom : Rq.C14.InDomain 10000 500 4000 := by
    refine ⟨by decide, by decide, by decide, by decide, by decide, 55, ⟨⟨12, by decide, ?_⟩, by decide, ?_⟩, by decide⟩
    · show tb32 Gen.t2K 12 = 55
      decide +kernel
    · intro i _ h
      have : Rq.C14.specLim 500 4000 (Rq.C14.specNmax 500) = 55 := by decide
      rw [this] at h; exact h
  obtain ⟨o, ho, _⟩ := Rq.C14.genParams_spec _ _ _ hdom
  obtain ⟨_, hv, _, _, _, _, hz, ht, _⟩ := genParams_admissible _ _ _ hdom o ho
  exact ⟨o, ho, hv, hz, ht⟩

end Rq.C01

namespace Rq.C06
open Rq Rq.C02

/-- C06 for `oracle`: the block encoder built with the verified solver is good -/
theorem new_good_oracle (sbn : Nat) (o : Oti) (data : List Nat) (e : BlockEnc)
    (hd : IsBytes data) (ht : 0 < o.t) (hcons : ∀ sp a, sysParams (data.length / o.t) = some sp →
      fullSystem sp (List.range sp.kp) = some a → Determined a)
    (h : BlockEnc.new? oracle sbn o data = some e) : GoodEnc e o.t :=
  new_good oracle oracle_spec sbn o data e hd ht hcons h

end Rq.C06

namespace Rq.C07
open Rq Rq.C02

/-- C07: every solver meeting the specification gives the decoder answer of the verified oracle -/
theorem decoder_agrees_with_oracle (sv : Solver) (hs : SolverSpec sv)
    (d : BlockDec) (e : BlockEnc) (t : Nat) (data : List Nat)
    (h : Tracks d e t) (he : GoodEnc e t) (hl : LayoutOk d t data e) :
    (d.attempt sv).map (·.1) = (d.attempt oracle).map (·.1) :=
  decoder_solver_indep sv oracle hs oracle_spec d e t data h he hl

/-- C07 / C18: … and builds the encoder the verified oracle builds -/
theorem encoder_agrees_with_oracle (sv : Solver) (hs : SolverSpec sv)
    (sbn : Nat) (o : Oti) (data : List Nat) (e e' : BlockEnc) (hd : IsBytes data) (ht : 0 < o.t)
    (hcons : ∀ src sp a, createSymbols o.t o.al o.n data = some src → sysParams src.length = some sp →
      fullSystem sp (List.range sp.kp) = some a → Consistent a o.t (createD sp o.t src))
    (he : BlockEnc.new? sv sbn o data = some e) (he' : BlockEnc.new? oracle sbn o data = some e') : e = e' :=
  encoder_solver_indep sv oracle hs oracle_spec sbn o data e e' hd ht hcons he he'

end Rq.C07

namespace Rq.C08
open Rq Rq.C02

/-- C08 for `oracle`: the answer depends only on the set of distinct packets received -/
theorem attempt_same_set_oracle (d d' : BlockDec) (e : BlockEnc) (t : Nat)
    (data : List Nat) (h : Tracks d e t) (h' : Tracks d' e t) (he : GoodEnc e t) (hl : LayoutOk d t data e)
    (hsame : SameSet d d') :
    ∃ res cs cs', d.attempt oracle = some (res, cs) ∧ d'.attempt oracle = some (res, cs') :=
  attempt_same_set oracle oracle_spec d d' e t data h h' he hl hsame

/-- C08 for `oracle`: once an answer has been returned every later call returns the same bytes -/
theorem answer_stable_oracle (d : BlockDec) (e : BlockEnc) (t : Nat) (data : List Nat)
    (h : Tracks d e t) (he : GoodEnc e t) (hl : LayoutOk d t data e) (cs : DecCase)
    (hdone : d.attempt oracle = some (some data, cs)) (batch : List Packet) (hb : ∀ p ∈ batch, Genuine e p) :
    ∃ d' cs', d.decode oracle batch = some (d', some data, cs') :=
  answer_stable oracle oracle_spec d e t data h he hl cs hdone batch hb

end Rq.C08
