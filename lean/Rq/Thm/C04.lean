import Mathlib.Algebra.BigOperators.Group.Finset.Basic
import Rq.Spec.Defs
import Rq.Lemmas.GF256Field
import Rq.Thm.C15
import Rq.Thm.Tables
import Rq.Lemmas.Hdpc
import Rq.Lemmas.MatrixSpec
import Rq.Lemmas.EncoderSpec
import Rq.Lemmas.LinearC
/-!
# C04 — encoding symbols are byte-exact RFC 6330 symbols (interoperability)

Spec (written from RFC 6330 5.3.3.3 / 5.3.5): the constraint matrix entry by entry — G_LDPC,1,
I_S, G_LDPC,2, G_HDPC = MT × GAMMA as the *naive* matrix product, I_H, G_ENC — over the field
`GF256` of C10, and Enc / Tuple / Rand / Deg of C15. The model is the code-shaped generator of
`Rq/Model/Matrix.lean` (set semantics, right-to-left HDPC recursion).
That the tables themselves are the RFC's is `Rq/Thm/Tables.lean`.
-/
namespace Rq.C04
open Rq

/-! ## binary rows -/

/-- RFC 5.3.3.3: LDPC row r has a one in column c -/
def specLdpc (sp : SysParams) (r c : Nat) : Prop :=
  let b := sp.w - sp.s
  (c < b ∧ (r = c % sp.s ∨ r = (c % sp.s + (1 + c / sp.s)) % sp.s ∨ r = (c % sp.s + 2 * (1 + c / sp.s)) % sp.s))
    ∨ c = b + r
    ∨ (sp.w ≤ c ∧ (c - sp.w = r % sp.p ∨ c - sp.w = (r + 1) % sp.p))

/-- **The LDPC rows of the model are the RFC's**, for every K ≤ 56403 -/
theorem ldpcRows_spec (k : Nat) (hk : k ≤ 56403) (sp : SysParams) (hsp : sysParams k = some sp) :
    ∃ rows, ldpcRows sp = some rows ∧ rows.size = sp.s ∧
      ∀ r, r < sp.s → ∀ c, c ∈ rows.getD r [] ↔ (c < sp.l ∧ specLdpc sp r c) := by
  have ok := spOk k hk sp hsp
  have hs := ok.s_prime.pos
  have hp := ok.p_ge
  have hsw := ok.s_lt_w
  have hwl := ok.w_le_l
  have hpe := ok.p_eq
  obtain ⟨rows, hr, hsz, hm⟩ := ldpcRows_mem sp hs (by omega) (by omega)
  refine ⟨rows, hr, hsz, fun r hrs c => ?_⟩
  rw [hm]
  unfold specLdpc
  have key : ∀ a x, ((x + a) % sp.s + a) % sp.s = (x + 2 * a) % sp.s := by
    intro a x
    rw [Nat.mod_add_mod]
    congr 1
    omega
  simp only [key]
  have hm1 : r % sp.p < sp.p := Nat.mod_lt _ (by omega)
  have hm2 : (r + 1) % sp.p < sp.p := Nat.mod_lt _ (by omega)
  constructor
  · rintro (⟨i, hi, rfl, h⟩ | ⟨i, hi, rfl, rfl⟩ | ⟨i, hi, rfl, h⟩)
    · exact ⟨by omega, Or.inl ⟨hi, h⟩⟩
    · exact ⟨by omega, Or.inr (Or.inl (by omega))⟩
    · refine ⟨by omega, Or.inr (Or.inr ⟨by omega, ?_⟩)⟩
      omega
  · rintro ⟨hc, (⟨hcb, h⟩ | h | ⟨hwc, h⟩)⟩
    · exact Or.inl ⟨c, hcb, rfl, h⟩
    · exact Or.inr (Or.inl ⟨r, hrs, rfl, by omega⟩)
    · exact Or.inr (Or.inr ⟨r, hrs, rfl, by omega⟩)

/-- the columns of a G_ENC row are exactly the indices Enc visits, each once -/
theorem encRow_spec (k x : Nat) (hk : k ≤ 56403) (hx : x < 2 ^ 32) (sp : SysParams) (hsp : sysParams k = some sp) :
    ∃ idx row, encIndicesOf sp x = some idx ∧ encRow sp x = some row ∧ row.Nodup ∧ ∀ c, c ∈ row ↔ c ∈ idx := by
  obtain ⟨t, b1, rest, _, _, _, _, _, _, _, _, _, _, _, _, _, he⟩ := encIndicesOf_shape k x hk hx sp hsp
  obtain ⟨h1, h2⟩ := dedup_fold (ltWalk t.d t.a t.b sp.w ++ (sp.w + b1) :: rest) [] List.nodup_nil
  refine ⟨_, _, he, by simp only [encRow, he, Option.map_some], h1, fun c => ?_⟩
  rw [h2 c]
  simp

/-- Enc visits no index twice (so "set" in the matrix and "xor" in the encoder agree): the LT walk
b, b+a, … (d ≤ W−2 steps, W prime, 1 ≤ a < W) and the PI walk (≤ 3 values, P1 prime) never repeat -/
theorem encIndices_nodup (k x : Nat) (hk : k ≤ 56403) (hx : x < 2 ^ 32) (sp : SysParams) (hsp : sysParams k = some sp)
    (idx : List Nat) (h : encIndicesOf sp x = some idx) : idx.Nodup :=
  encIndicesOf_nodup k x hk hx sp hsp idx h

/-! ## HDPC: the right-to-left recursion equals MT × GAMMA -/

open BigOperators in
/-- MT of RFC 5.3.3.3 (H × n, n = K'+S): column l < n−1 has ones in rows Rand[l+1,6,H] and
(Rand[l+1,6,H] + Rand[l+1,7,H−1] + 1) mod H; the last column is alpha^i -/
def mt (h n i l : Nat) : GF256 :=
  if l + 1 = n then (GF256.of 2) ^ i
  else
    match rand (l + 1) 6 h, rand (l + 1) 7 (h - 1) with
    | some r6, some r7 => if i = r6 ∨ i = (r6 + r7 + 1) % h then 1 else 0
    | _, _ => 0

open BigOperators in
/-- (MT × GAMMA)[i][j] with GAMMA[l][j] = alpha^(l−j) for l ≥ j, else 0 -/
def specHdpc (h n i j : Nat) : GF256 :=
  ∑ l ∈ Finset.range n, if j ≤ l then mt h n i l * (GF256.of 2) ^ (l - j) else 0

/-- **`generate_hdpc_rows` computes G_HDPC = MT × GAMMA** for all K', S and H ≥ 2 -/
theorem hdpcCols_spec (h n : Nat) (hh : 2 ≤ h) (hh' : h ≤ 256) (hn : 1 ≤ n) (hn' : n < 2 ^ 32) :
    ∃ cols, hdpcCols h n = some cols ∧ cols.size = n ∧
      ∀ j, j < n → ∀ i, i < h → (cols.getD j []).length = h ∧ (cols.getD j []).getD i 0 < 256 ∧
        GF256.of ((cols.getD j []).getD i 0) = specHdpc h n i j := by
  have hmt : ∀ i l, l + 1 < n → mt h n i l = mtB h i l := by
    intro i l hl
    unfold mt mtB
    rw [if_neg (by omega)]
    cases rand (l + 1) 6 h <;> cases rand (l + 1) 7 (h - 1) <;> rfl
  obtain ⟨cols, hc, hsz, hok⟩ := hdpcCols_of_rec h n hh hh' hn hn' (fun i j => specHdpc h n i j)
    (by
      intro i _
      show specHdpc h n i (n - 1) = _
      unfold specHdpc
      rw [gamma_rec (fun l => mt h n i l) (GF256.of 2) n (n - 1) (by omega),
        show n - 1 + 1 = n by omega, gamma_end, mul_zero, add_zero]
      unfold mt
      rw [if_pos (by omega)])
    (by
      intro j hj i _
      show specHdpc h n i j = _ + _ * specHdpc h n i (j + 1)
      unfold specHdpc
      rw [gamma_rec (fun l => mt h n i l) (GF256.of 2) n j (by omega), hmt i j hj])
  refine ⟨cols, hc, hsz, fun j hj i hi => ?_⟩
  obtain ⟨hlen, hcol⟩ := hok j hj
  exact ⟨hlen, (hcol i hi).1, (hcol i hi).2⟩

/-- HDPC rows = [G_HDPC | I_H] -/
theorem hdpcRows_spec (k : Nat) (hk : k ≤ 56403) (sp : SysParams) (hsp : sysParams k = some sp) :
    ∃ rows, hdpcRows sp = some rows ∧ rows.size = sp.h ∧
      ∀ i, i < sp.h → (rows.getD i #[]).size = sp.l ∧ ∀ j, j < sp.l →
        GF256.of ((rows.getD i #[]).getD j 0) =
          (if j < sp.kp + sp.s then specHdpc sp.h (sp.kp + sp.s) i j else if j = sp.kp + sp.s + i then 1 else 0) := by
  have ok := spOk k hk sp hsp
  obtain ⟨cols, hc, hsz, hcols⟩ := hdpcCols_spec sp.h (sp.kp + sp.s) ok.h_ge (by have := ok.h_le; omega)
    (by have := ok.w_le; have := ok.w_ge; omega) (by have := ok.l_lt; have := ok.l_eq; omega)
  have hr : hdpcRows sp = some (Array.ofFn (n := sp.h) fun i =>
      Array.ofFn (n := sp.l) fun j =>
        if j.val < sp.kp + sp.s then (cols.getD j.val []).getD i.val 0
        else if j.val = sp.kp + sp.s + i.val then 1 else 0) := by
    simp only [hdpcRows, hc]
  refine ⟨_, hr, by simp, ?_⟩
  intro i hi
  simp only [Array.getD_eq_getD_getElem?, Array.getElem?_ofFn, hi, dite_true, Option.getD_some,
    Array.size_ofFn, true_and]
  intro j hj
  simp only [hj, dite_true, Option.getD_some]
  by_cases hjn : j < sp.kp + sp.s
  · rw [if_pos hjn, if_pos hjn]
    have := (hcols j hjn i hi).2.2
    simpa only [Array.getD_eq_getD_getElem?] using this
  · rw [if_neg hjn, if_neg hjn]
    by_cases hji : j = sp.kp + sp.s + i
    · rw [if_pos hji, if_pos hji]; exact of_one
    · rw [if_neg hji, if_neg hji]; exact of_zero

/-! ## packets -/

/-- the source symbols are reproduced by the LT relation (systematic code): Enc[K', C, Tuple[K', i]]
is source symbol i, and 0 for the padding ids K ≤ i < K' -/
theorem systematic (e : BlockEnc) (t : Nat) (h : GoodEnc e t) (i : Nat) (hi : i < e.sp.kp) :
    ∃ idx, encIndicesOf e.sp i = some idx ∧
      encSymbol e.c idx = (if i < e.k then e.src.getD i [] else zeroSym t) := by
  have hk := sysParams_some_le _ _ h.params
  have ok := spOk _ hk _ h.params
  have hi32 : i < 2 ^ 32 := by have := ok.l_lt; have := ok.l_eq; omega
  obtain ⟨bin, hd, hcm, _, _, hrows⟩ := goodEnc_rows e t h
  obtain ⟨_, _, _, _, _, _, _, _, _, hget⟩ := constraintMatrix_shape e.k hk e.sp h.params _ bin hd hcm
  obtain ⟨row, hrow, hbr⟩ := hget i i (by simp [hi])
  obtain ⟨idx, row', hidx, hrow', hnd, hmem⟩ := encRow_spec e.k i hk hi32 e.sp h.params
  rw [hrow] at hrow'
  have := Option.some.inj hrow'
  subst this
  have hidxnd := encIndices_nodup e.k i hk hi32 e.sp h.params idx hidx
  obtain ⟨sp', l', hsp', hl', hne, hlt⟩ := Rq.C15.encIndices_wf e.k i hk hi32
  rw [h.params] at hsp'
  have := Option.some.inj hsp'
  subst this
  rw [hidx] at hl'
  have := Option.some.inj hl'
  subst this
  refine ⟨idx, hidx, ?_⟩
  have hperm : row.Perm idx := (List.perm_ext_iff_of_nodup hnd hidxnd).mpr hmem
  rw [← hrows i hi, hbr, evalBinRow_perm _ _ _ _ hperm]
  symm
  apply evalBinRow_eq_encSymbol idx e.c t hne
  · intro j hj; rw [h.c_wf.1]; exact hlt j hj
  · intro j hj; exact (h.c_wf.2 j (hlt j hj)).1

/-- C is *the* solution of the standard system: any well-formed C' satisfying it equals C -/
theorem intermediate_unique (e : BlockEnc) (t : Nat) (h : GoodEnc e t) (c' : Inter) (hc' : WfInter e.sp.l t c')
    (a : System) (ha : fullSystem e.sp (List.range e.sp.kp) = some a) (hs : a.apply c' t = createD e.sp t e.src) :
    c' = e.c :=
  goodEnc_unique e t h c' hc' a ha hs

set_option linter.unusedVariables false in
/-- **Repair packet with ESI X carries Enc[K', C, Tuple[K', X + K' − K]]** for the unique C -/
theorem repair_is_rfc (e : BlockEnc) (t : Nat) (h : GoodEnc e t) (r : Nat) (p : Packet) (hp : e.repairPacket r = some p) :
    p.pid.esi = e.k + r ∧ p.pid.esi < 2 ^ 24 ∧
      ∃ idx, encIndicesOf e.sp (p.pid.esi + e.sp.kp - e.k) = some idx ∧ p.data = encSymbol e.c idx := by
  unfold BlockEnc.repairPacket at hp
  simp only at hp
  split at hp
  · cases hp
  · rename_i hc
    cases hidx : encIndicesOf e.sp (e.sp.kp + r) with
    | none => rw [hidx] at hp; cases hp
    | some idx =>
      rw [hidx] at hp
      have := Option.some.inj hp
      subst this
      refine ⟨rfl, by dsimp only; omega, idx, ?_, rfl⟩
      dsimp only
      rw [show e.k + r + e.sp.kp - e.k = e.sp.kp + r by omega]
      exact hidx

/-- every repair ESI K ≤ X < 2^24 is produced -/
theorem repair_total (e : BlockEnc) (t : Nat) (h : GoodEnc e t) (r : Nat) (hr : e.k + r < 2 ^ 24) :
    (e.repairPacket r).isSome := by
  have hk := sysParams_some_le _ _ h.params
  have ok := spOk _ hk _ h.params
  have h1 := ok.l_lt
  have h2 := ok.l_eq
  obtain ⟨_, _, _, _, _, _, _, _, _, _, _, _, _, _, _, _, he⟩ :=
    encIndicesOf_shape e.k (e.sp.kp + r) hk (by omega) e.sp h.params
  unfold BlockEnc.repairPacket
  have hU : U32 = 4294967296 := rfl
  simp only
  rw [if_neg (by rw [hU]; omega), he]
  rfl

/-! ## Non-vacuity -/
example : ∃ cols, hdpcCols 10 17 = some cols ∧ cols.size = 17 := by
  obtain ⟨cols, h, hs, _⟩ := hdpcCols_spec 10 17 (by decide) (by decide) (by decide) (by decide)
  exact ⟨cols, h, hs⟩
example : ∃ sp rows, sysParams 56403 = some sp ∧ ldpcRows sp = some rows ∧ rows.size = sp.s := by
  obtain ⟨sp, hsp, _⟩ := Rq.C15.sysParams_consistent 56403 (by decide)
  obtain ⟨rows, h, hs, _⟩ := ldpcRows_spec 56403 (by decide) sp hsp
  exact ⟨sp, rows, hsp, h, hs⟩

end Rq.C04
