import Rq.Lemmas.Sparse
/-!
# C16 (continued) — the sparse matrix refines the same bit array

`Sparse` (`Rq/Model/Sparse.lean`) is the code-shaped model of `SparseBinaryMatrix`: sorted key
lists per physical row, a right-aligned dense tail of `nd` columns, logical ↔ physical row and
column maps, and a column index that becomes a stale *superset* after eliminations. This file
states and proves its refinement to `BitMat` under the interface's preconditions (the explicit
`assert!` / `unimplemented!` of the code): every operation of the model (`new`, `get`, `set`,
`swapRows`, `swapCols`, `countOnes`, `rowIter`, `subRow`, `nonZeroCols`, `enableIndex`,
`disableIndex`, `onesInCol`, `addAssign`, `freeze`, `resize`) does not panic under its precondition,
re-establishes the representation invariant `Inv`, and commutes with the abstraction `abs`.

Proof plan: under `Inv`, `abs m = BitMat.ofFun m.h m.w (cell m)` (`abs_eq`), where `cell` reads a
cell through the maps; the spec operations on `BitMat.ofFun` are computed in `Rq/Lemmas/Sparse.lean`;
each theorem then reduces to a pointwise statement about `cell`.

The invariant differs from the first draft in four places, each forced by a concrete failing state
(checked with `#eval`, see the report of this round):
* `dense_size` is an *equality* `dense.size = h * rww` (draft: `≤`). With a spare word, `freeze`
  does not re-space when `nd` crosses a multiple of 64 (its test is `lastWord ≥ dense.size`) and an
  old dense cell changes; with `nd = 0` and a spare non-zero word, `freeze` produces non-zero pad bits.
* `index_ok` also says: `l2pC.size ≤ h` (the index has one slot per *row*; `freeze` looks up the
  frozen physical column in it), every index entry is a row `< h` (`freeze`, `onesInCol` index the
  rows / the row map with it) and the entries of a column are duplicate free (`onesInCol` would
  list a row twice).
* `pad_zero` lost its redundant guard `rww > 0`.
-/
namespace Rq.C16s
open Rq

-- some hypotheses of the interface statements (`w ≤ h`, `w < 65536`, `a ≤ b`) are not needed by the proofs
set_option linter.unusedVariables false

/-- the bit array a sparse matrix stands for -/
def abs (m : Sparse) : BitMat :=
  { h := m.h, w := m.w,
    rows := Array.ofFn (n := m.h) fun r => Array.ofFn (n := m.w) fun c => (m.get r.val c.val).getD false }

/-- representation invariant -/
structure Inv (m : Sparse) : Prop where
  /-- the dense tail is part of the matrix -/
  nd_le : m.nd ≤ m.w
  rows_size : m.rows.size = m.h
  maps_size : m.l2pR.size = m.h ∧ m.p2lR.size = m.h ∧ m.l2pC.size ≥ m.w ∧ m.p2lC.size = m.l2pC.size
  row_perm : ∀ i, i < m.h → m.l2pR.getD i 0 < m.h ∧ m.p2lR.getD (m.l2pR.getD i 0) 0 = i
  row_perm' : ∀ p, p < m.h → m.p2lR.getD p 0 < m.h ∧ m.l2pR.getD (m.p2lR.getD p 0) 0 = p
  col_perm : ∀ j, j < m.l2pC.size → m.l2pC.getD j 0 < m.l2pC.size ∧ m.p2lC.getD (m.l2pC.getD j 0) 0 = j
  col_perm' : ∀ p, p < m.l2pC.size → m.p2lC.getD p 0 < m.l2pC.size ∧ m.l2pC.getD (m.p2lC.getD p 0) 0 = p
  /-- the dense tail has exactly `rww` words per row (`l2pC.size` may exceed `w` after a `resize`) -/
  dense_size : m.dense.size = m.h * m.rww
  dense_words : ∀ i, i < m.dense.size → m.dense.getD i 0 < U64
  /-- sparse rows: sorted, duplicate free, keys are physical columns of *sparse* logical columns
  (the dense columns are addressed without the column maps, so nothing is required of their images) -/
  rows_sorted : ∀ p, p < m.h → (m.rows.getD p []).Pairwise (· < ·)
  rows_keys : ∀ p, p < m.h → ∀ k ∈ m.rows.getD p [], k < m.l2pC.size ∧ m.p2lC.getD k 0 < m.w - m.nd
  /-- padding bits of the dense tail are zero -/
  pad_zero : ∀ p, p < m.h → ∀ b, b < m.leftPad → testBit64 (m.dense.getD (p * m.rww) 0) b = false
  /-- the column index, when enabled: one slot per row, at least as many slots as physical columns,
  entries are rows, duplicate free, and list at least every physical row holding a one in the column -/
  index_ok : m.indexDisabled = false → ∃ idx, m.index = some idx ∧ idx.size = m.h ∧ m.l2pC.size ≤ m.h ∧
    (∀ k, k < idx.size → (idx.getD k []).Nodup ∧ ∀ p ∈ idx.getD k [], p < m.h) ∧
    ∀ p, p < m.h → ∀ k ∈ m.rows.getD p [], k < idx.size ∧ p ∈ idx.getD k []

/-- the cell at logical (r, c), read through the maps -/
def cell (m : Sparse) (r c : Nat) : Bool :=
  if m.w - c ≤ m.nd then
    testBit64 (m.dense.getD (m.l2pR.getD r 0 * m.rww + (m.leftPad + (c - (m.w - m.nd))) / 64) 0)
      ((m.leftPad + (c - (m.w - m.nd))) % 64)
  else (m.rows.getD (m.l2pR.getD r 0) []).contains (m.l2pC.getD c 0)

theorem pad_add (nd : Nat) : (64 - nd % 64) % 64 + nd = (nd + 63) / 64 * 64 ∧ (64 - nd % 64) % 64 < 64 := by
  omega

theorem leftPad_add (m : Sparse) : m.leftPad + m.nd = m.rww * 64 ∧ m.leftPad < 64 := pad_add m.nd

/-- a dense word index of a row `p < h` and dense column `q < nd` is inside the dense array -/
theorem word_lt (m : Sparse) (h p q : Nat) (hp : p < h) (hq : q < m.nd) :
    (m.leftPad + q) / 64 < m.rww ∧ p * m.rww + (m.leftPad + q) / 64 < h * m.rww := by
  have h1 := leftPad_add m
  have h2 : (m.leftPad + q) / 64 < m.rww := by omega
  refine ⟨h2, ?_⟩
  have : (p + 1) * m.rww ≤ h * m.rww := Nat.mul_le_mul_right _ hp
  rw [Nat.add_mul] at this
  omega

theorem get_eq_cell (m : Sparse) (hi : Inv m) (r c : Nat) (hr : r < m.h) (hc : c < m.w) :
    m.get r c = some (cell m r c) := by
  have hR : m.l2pR[r]? = some (m.l2pR.getD r 0) := arr_getD_lt _ _ _ (by rw [hi.maps_size.1]; exact hr)
  have hC : m.l2pC[c]? = some (m.l2pC.getD c 0) := arr_getD_lt _ _ _ (by have := hi.maps_size.2.2.1; omega)
  unfold Sparse.get cell
  rw [hR, hC]
  simp only [Sparse.bitPos]
  have hnd := hi.nd_le
  split
  · next h1 =>
    have h2 : ¬ c < m.w - m.nd := by omega
    rw [if_neg h2]
    have := (word_lt m m.h (m.l2pR.getD r 0) (c - (m.w - m.nd)) (hi.row_perm r hr).1 (by omega)).2
    rw [← hi.dense_size] at this
    simp only [this, ↓reduceIte]
  · next h1 =>
    have : m.l2pR.getD r 0 < m.rows.size := by rw [hi.rows_size]; exact (hi.row_perm r hr).1
    simp only [this, ↓reduceIte]

theorem abs_eq (m : Sparse) (hi : Inv m) : abs m = BitMat.ofFun m.h m.w (cell m) := by
  have : abs m = BitMat.ofFun m.h m.w (fun r c => (m.get r c).getD false) := rfl
  rw [this]
  apply BitMat.ofFun_congr
  intro r hr c hc
  rw [get_eq_cell m hi r c hr hc]; rfl

theorem abs_get (m : Sparse) (hi : Inv m) (r c : Nat) (hr : r < m.h) (hc : c < m.w) :
    (abs m).get r c = cell m r c := by
  rw [abs_eq m hi, BitMat.ofFun_get _ _ _ hr hc]

theorem id_getD (n i : Nat) (hi : i < n) : (Array.ofFn (n := n) fun i => i.val).getD i 0 = i :=
  arr_getD_ofFn _ i 0 hi

theorem new_inv (h w hint : Nat) (hw : w ≤ h) (hh : hint ≤ w) (hw16 : w < 65536) :
    Inv (Sparse.new h w hint) ∧ abs (Sparse.new h w hint) = BitMat.new h w := by
  have hds : (Sparse.new h w hint).dense.size = h * ((hint + 63) / 64) := by
    simp only [Sparse.new]
    split
    · next h0 =>
      rw [Array.size_replicate]
      congr 1; omega
    · next h0 =>
      have : hint = 0 := by omega
      subst this; simp
  have hd0 : ∀ i, (Sparse.new h w hint).dense.getD i 0 = 0 := by
    intro i
    simp only [Sparse.new, Array.getD_eq_getD_getElem?]
    split
    · rw [Array.getElem?_replicate]; split <;> rfl
    · simp
  have hrows : ∀ p, (Sparse.new h w hint).rows.getD p [] = [] := by
    intro p
    simp only [Sparse.new, Array.getD_eq_getD_getElem?, Array.getElem?_replicate]
    split <;> rfl
  have hinv : Inv (Sparse.new h w hint) := by
    refine ⟨hh, by simp [Sparse.new], by simp [Sparse.new], ?_, ?_, ?_, ?_, hds, ?_, ?_, ?_, ?_, ?_⟩
    · intro i hi
      simp only [Sparse.new]
      rw [id_getD h i hi, id_getD h i hi]; exact ⟨hi, rfl⟩
    · intro i hi
      simp only [Sparse.new]
      rw [id_getD h i hi, id_getD h i hi]; exact ⟨hi, rfl⟩
    · intro i hi
      simp only [Sparse.new, Array.size_ofFn] at hi ⊢
      rw [id_getD w i hi, id_getD w i hi]; exact ⟨hi, rfl⟩
    · intro i hi
      simp only [Sparse.new, Array.size_ofFn] at hi ⊢
      rw [id_getD w i hi, id_getD w i hi]; exact ⟨hi, rfl⟩
    · intro i _; rw [hd0]; decide
    · intro p _; rw [hrows]; exact List.Pairwise.nil
    · intro p _ k hk; rw [hrows] at hk; simp at hk
    · intro p _ b _; rw [hd0]; exact testBit64_zero b
    · intro hdis; simp [Sparse.new] at hdis
  refine ⟨hinv, ?_⟩
  rw [abs_eq _ hinv]
  show BitMat.ofFun h w _ = _
  unfold BitMat.ofFun BitMat.new
  congr 1
  apply Array.ext_getElem?
  intro r
  simp only [Array.getElem?_ofFn, Array.getElem?_replicate]
  split
  · congr 1
    apply Array.ext_getElem?
    intro c
    simp only [Array.getElem?_ofFn, Array.getElem?_replicate]
    split
    · congr 1
      unfold cell
      split
      · rw [hd0]; exact testBit64_zero _
      · rw [hrows]; rfl
    · rfl
  · rfl

theorem get_refines (m : Sparse) (hi : Inv m) (r c : Nat) (hr : r < m.h) (hc : c < m.w) :
    m.get r c = some ((abs m).get r c) := by
  rw [abs_get m hi r c hr hc]; exact get_eq_cell m hi r c hr hc

theorem div_mod_unique (n a b x y : Nat) (hx : x < n) (hy : y < n) (h : a * n + x = b * n + y) : a = b ∧ x = y := by
  rcases Nat.lt_trichotomy a b with h1 | h1 | h1
  · have : (a + 1) * n ≤ b * n := Nat.mul_le_mul_right _ h1
    rw [Nat.add_mul] at this; omega
  · subst h1; omega
  · have : (b + 1) * n ≤ a * n := Nat.mul_le_mul_right _ h1
    rw [Nat.add_mul] at this; omega

theorem l2pR_inj (m : Sparse) (hi : Inv m) (r r' : Nat) (hr : r < m.h) (hr' : r' < m.h)
    (h : m.l2pR.getD r 0 = m.l2pR.getD r' 0) : r = r' := by
  have h1 := (hi.row_perm r hr).2
  rw [h, (hi.row_perm r' hr').2] at h1; exact h1.symm

theorem l2pC_inj (m : Sparse) (hi : Inv m) (c c' : Nat) (hc : c < m.l2pC.size) (hc' : c' < m.l2pC.size)
    (h : m.l2pC.getD c 0 = m.l2pC.getD c' 0) : c = c' := by
  have h1 := (hi.col_perm c hc).2
  rw [h, (hi.col_perm c' hc').2] at h1; exact h1.symm

/-- two dense bit positions coincide only for the same physical row and dense column -/
theorem bitPos_inj (m : Sparse) (p p' q q' : Nat) (hq : q < m.nd) (hq' : q' < m.nd)
    (h1 : p * m.rww + (m.leftPad + q) / 64 = p' * m.rww + (m.leftPad + q') / 64)
    (h2 : (m.leftPad + q) % 64 = (m.leftPad + q') % 64) : p = p' ∧ q = q' := by
  have a1 := (word_lt m (p + 1) p q (by omega) hq).1
  have a2 := (word_lt m (p' + 1) p' q' (by omega) hq').1
  have := div_mod_unique m.rww p p' _ _ a1 a2 h1
  refine ⟨this.1, ?_⟩
  omega

theorem set_dense (m : Sparse) (hi : Inv m) (r c : Nat) (v : Bool) (hr : r < m.h) (hc : c < m.w)
    (hpre : m.w - c ≤ m.nd) :
    ∃ m', m.set r c v = some m' ∧ Inv m' ∧ (abs m).set r c v = some (abs m') := by
  have hR : m.l2pR[r]? = some (m.l2pR.getD r 0) := arr_getD_lt _ _ _ (by rw [hi.maps_size.1]; exact hr)
  have hC : m.l2pC[c]? = some (m.l2pC.getD c 0) := arr_getD_lt _ _ _ (by have := hi.maps_size.2.2.1; omega)
  have hnd := hi.nd_le
  have hq : c - (m.w - m.nd) < m.nd := by omega
  have hpi := (hi.row_perm r hr).1
  obtain ⟨hw1, hw2⟩ := word_lt m m.h (m.l2pR.getD r 0) (c - (m.w - m.nd)) hpi hq
  rw [← hi.dense_size] at hw2
  generalize hwd : m.l2pR.getD r 0 * m.rww + (m.leftPad + (c - (m.w - m.nd))) / 64 = wd at hw2
  generalize hb : (m.leftPad + (c - (m.w - m.nd))) % 64 = b
  have hb64 : b < 64 := by omega
  generalize hnw : (if v then setBit64 (m.dense.getD wd 0) b else clearBit64 (m.dense.getD wd 0) b) = nw
  have hnw_lt : nw < U64 := by
    have := hi.dense_words wd hw2
    rw [← hnw]; cases v
    · exact clearBit64_lt_sp _ _ this
    · exact setBit64_lt_sp _ _ this hb64
  have hnw_bit : ∀ b', testBit64 nw b' = if b' = b then v else testBit64 (m.dense.getD wd 0) b' := by
    intro b'
    rw [← hnw]
    cases v
    · simp only [Bool.false_eq_true, if_false, testBit64_clearBit64_sp]
      by_cases h : b' = b <;> simp [h]
    · simp only [if_true, testBit64_setBit64_sp]
      by_cases h : b' = b <;> simp [h]
  have key : ∀ wd' b', testBit64 ((m.dense.setIfInBounds wd nw).getD wd' 0) b' =
      if wd' = wd ∧ b' = b then v else testBit64 (m.dense.getD wd' 0) b' := by
    intro wd' b'
    rw [arr_getD_set]
    by_cases h1 : wd = wd'
    · subst h1
      rw [if_pos ⟨rfl, hw2⟩, hnw_bit]
      by_cases h2 : b' = b
      · rw [if_pos h2, if_pos ⟨rfl, h2⟩]
      · rw [if_neg h2, if_neg (fun h => h2 h.2)]
    · rw [if_neg (fun h => h1 h.1), if_neg (fun h => h1 h.1.symm)]
  have hinv : Inv { m with dense := m.dense.setIfInBounds wd nw } := by
    refine ⟨hi.nd_le, hi.rows_size, hi.maps_size, hi.row_perm, hi.row_perm', hi.col_perm, hi.col_perm', ?_, ?_,
      hi.rows_sorted, hi.rows_keys, ?_, hi.index_ok⟩
    · show (m.dense.setIfInBounds wd nw).size = m.h * m.rww
      rw [Array.size_setIfInBounds]; exact hi.dense_size
    · intro k hk
      show (m.dense.setIfInBounds wd nw).getD k 0 < U64
      replace hk : k < (m.dense.setIfInBounds wd nw).size := hk
      rw [Array.size_setIfInBounds] at hk
      rw [arr_getD_set]
      by_cases h1 : wd = k ∧ wd < m.dense.size
      · rw [if_pos h1]; exact hnw_lt
      · rw [if_neg h1]; exact hi.dense_words k hk
    · intro p hp b' hb'
      show testBit64 ((m.dense.setIfInBounds wd nw).getD (p * m.rww) 0) b' = false
      replace hb' : b' < m.leftPad := hb'
      rw [key]
      by_cases h1 : p * m.rww = wd ∧ b' = b
      · exfalso
        have h2 := h1.1
        rw [← hwd] at h2
        have h3 := div_mod_unique m.rww _ _ 0 _ (by omega) hw1 (by rw [Nat.add_zero]; exact h2)
        omega
      · rw [if_neg h1]; exact hi.pad_zero p hp b' hb'
  refine ⟨_, ?_, hinv, ?_⟩
  · unfold Sparse.set
    rw [hR, hC]
    have h2 : ¬ c < m.w - m.nd := by omega
    simp only [hpre, ↓reduceIte, h2, Sparse.bitPos, hwd, hb, hw2, hnw]
  · rw [abs_eq m hi, abs_eq _ hinv, BitMat.ofFun_set _ r c v hr hc]
    congr 1
    apply BitMat.ofFun_congr
    intro r' hr' c' hc'
    unfold cell
    show _ = if m.w - c' ≤ m.nd then
        testBit64 ((m.dense.setIfInBounds wd nw).getD (m.l2pR.getD r' 0 * m.rww + (m.leftPad + (c' - (m.w - m.nd))) / 64) 0)
          ((m.leftPad + (c' - (m.w - m.nd))) % 64)
      else (m.rows.getD (m.l2pR.getD r' 0) []).contains (m.l2pC.getD c' 0)
    by_cases h0 : m.w - c' ≤ m.nd
    · simp only [h0, if_true]
      rw [key]
      by_cases h1 : r' = r ∧ c' = c
      · obtain ⟨h3, h4⟩ := h1; subst h3; subst h4
        rw [if_pos ⟨rfl, rfl⟩, if_pos ⟨hwd, hb⟩]
      · rw [if_neg h1, if_neg]
        rintro ⟨h2, h3⟩
        rw [← hwd] at h2
        have := bitPos_inj m _ _ _ _ (by omega) hq h2 (by rw [hb, h3])
        have hrr := l2pR_inj m hi r' r hr' hr this.1
        exact h1 ⟨hrr, by omega⟩
    · have : ¬ (r' = r ∧ c' = c) := by
        rintro ⟨h3, h4⟩; subst h4; exact h0 hpre
      simp only [h0, this, if_false]

theorem set_sparse (m : Sparse) (hi : Inv m) (r c : Nat) (v : Bool) (hr : r < m.h) (hc : c < m.w)
    (hsp : ¬ m.w - c ≤ m.nd) (hpre : m.indexDisabled = true) :
    ∃ m', m.set r c v = some m' ∧ Inv m' ∧ (abs m).set r c v = some (abs m') := by
  have hcn : c < m.l2pC.size := by have := hi.maps_size.2.2.1; omega
  have hR : m.l2pR[r]? = some (m.l2pR.getD r 0) := arr_getD_lt _ _ _ (by rw [hi.maps_size.1]; exact hr)
  have hC : m.l2pC[c]? = some (m.l2pC.getD c 0) := arr_getD_lt _ _ _ hcn
  have hpi := (hi.row_perm r hr).1
  have hpis : m.l2pR.getD r 0 < m.rows.size := by rw [hi.rows_size]; exact hpi
  generalize hpi' : m.l2pR.getD r 0 = pi at hpi hpis
  generalize hnr : (if v then Sparse.vecInsert (m.rows.getD pi []) (m.l2pC.getD c 0)
      else Sparse.vecRemove (m.rows.getD pi []) (m.l2pC.getD c 0)) = nr
  have hnr_sorted : nr.Pairwise (· < ·) := by
    rw [← hnr]; cases v
    · exact sorted_vecRemove _ _ (hi.rows_sorted pi hpi)
    · exact sorted_vecInsert _ _ (hi.rows_sorted pi hpi)
  have hnr_mem : ∀ x, x ∈ nr ↔ if x = m.l2pC.getD c 0 then v = true else x ∈ m.rows.getD pi [] := by
    intro x
    rw [← hnr]; cases v
    · simp only [Bool.false_eq_true, if_false, mem_vecRemove]
      by_cases h : x = m.l2pC.getD c 0
      · simp only [h, if_true, ne_eq, not_true_eq_false, and_false]
      · simp only [h, if_false, ne_eq, not_false_eq_true, and_true]
    · simp only [if_true, mem_vecInsert]
      by_cases h : x = m.l2pC.getD c 0
      · simp only [h, if_true, true_or]
      · simp only [h, if_false, false_or]
  have hrows : ∀ p, (m.rows.setIfInBounds pi nr).getD p [] = if p = pi then nr else m.rows.getD p [] := by
    intro p
    rw [arr_getD_set]
    by_cases h : p = pi
    · subst h; rw [if_pos ⟨rfl, hpis⟩, if_pos rfl]
    · rw [if_neg (fun h' => h h'.1.symm), if_neg h]
  have hinv : Inv { m with rows := m.rows.setIfInBounds pi nr } := by
    refine ⟨hi.nd_le, ?_, hi.maps_size, hi.row_perm, hi.row_perm', hi.col_perm, hi.col_perm', hi.dense_size,
      hi.dense_words, ?_, ?_, hi.pad_zero, ?_⟩
    · show (m.rows.setIfInBounds pi nr).size = m.h
      rw [Array.size_setIfInBounds]; exact hi.rows_size
    · intro p hp
      show ((m.rows.setIfInBounds pi nr).getD p []).Pairwise (· < ·)
      rw [hrows]
      by_cases h : p = pi
      · rw [if_pos h]; exact hnr_sorted
      · rw [if_neg h]; exact hi.rows_sorted p hp
    · intro p hp k hk
      replace hk : k ∈ (m.rows.setIfInBounds pi nr).getD p [] := hk
      show k < m.l2pC.size ∧ m.p2lC.getD k 0 < m.w - m.nd
      rw [hrows] at hk
      by_cases h : p = pi
      · rw [if_pos h, hnr_mem] at hk
        by_cases h2 : k = m.l2pC.getD c 0
        · rw [h2, (hi.col_perm c hcn).2]
          exact ⟨(hi.col_perm c hcn).1, by omega⟩
        · rw [if_neg h2] at hk
          exact hi.rows_keys pi hpi k hk
      · rw [if_neg h] at hk
        exact hi.rows_keys p hp k hk
    · intro hdis
      replace hdis : m.indexDisabled = false := hdis
      rw [hpre] at hdis; exact absurd hdis (by simp)
  refine ⟨_, ?_, hinv, ?_⟩
  · unfold Sparse.set
    rw [hR, hC]
    simp only [hsp, ↓reduceIte, hpi', hpis, hpre, and_self, hnr]
  · rw [abs_eq m hi, abs_eq _ hinv, BitMat.ofFun_set _ r c v hr hc]
    congr 1
    apply BitMat.ofFun_congr
    intro r' hr' c' hc'
    unfold cell
    show _ = if m.w - c' ≤ m.nd then
        testBit64 (m.dense.getD (m.l2pR.getD r' 0 * m.rww + (m.leftPad + (c' - (m.w - m.nd))) / 64) 0)
          ((m.leftPad + (c' - (m.w - m.nd))) % 64)
      else ((m.rows.setIfInBounds pi nr).getD (m.l2pR.getD r' 0) []).contains (m.l2pC.getD c' 0)
    by_cases h0 : m.w - c' ≤ m.nd
    · have : ¬ (r' = r ∧ c' = c) := by
        rintro ⟨h3, h4⟩; subst h4; exact hsp h0
      simp only [h0, this, if_false, if_true]
    · simp only [h0, if_false]
      rw [hrows]
      have hcn' : c' < m.l2pC.size := by have := hi.maps_size.2.2.1; omega
      by_cases h1 : m.l2pR.getD r' 0 = pi
      · have hrr : r' = r := l2pR_inj m hi r' r hr' hr (by rw [h1, hpi'])
        subst hrr
        rw [if_pos h1]
        by_cases h2 : c' = c
        · subst h2
          rw [if_pos ⟨rfl, rfl⟩]
          have : m.l2pC.getD c' 0 ∈ nr ↔ v = true := by rw [hnr_mem, if_pos rfl]
          cases v
          · simp at this; simp [this]
          · simp at this; simp [this]
        · rw [if_neg (fun h => h2 h.2)]
          have hne : ¬ m.l2pC.getD c' 0 = m.l2pC.getD c 0 := fun h => h2 (l2pC_inj m hi c' c hcn' hcn h)
          have : m.l2pC.getD c' 0 ∈ nr ↔ m.l2pC.getD c' 0 ∈ m.rows.getD pi [] := by rw [hnr_mem, if_neg hne]
          rw [hpi', Bool.eq_iff_iff]
          simp only [List.contains_iff_mem, this]
      · rw [if_neg h1]
        have : ¬ (r' = r ∧ c' = c) := by
          rintro ⟨h3, h4⟩; subst h3; exact h1 hpi'
        rw [if_neg this]

/-- `set` in the dense tail is always allowed; in the sparse part only while the column index is off -/
theorem set_refines (m : Sparse) (hi : Inv m) (r c : Nat) (v : Bool) (hr : r < m.h) (hc : c < m.w)
    (hpre : m.w - c ≤ m.nd ∨ m.indexDisabled = true) :
    ∃ m', m.set r c v = some m' ∧ Inv m' ∧ (abs m).set r c v = some (abs m') := by
  by_cases h : m.w - c ≤ m.nd
  · exact set_dense m hi r c v hr hc h
  · exact set_sparse m hi r c v hr hc h (hpre.resolve_left h)

/-- the result of swapping in a pair of maps -/
def swapL (a : Array Nat) (i j : Nat) : Array Nat := (a.setIfInBounds i (a.getD j 0)).setIfInBounds j (a.getD i 0)
def swapP (a b : Array Nat) (i j : Nat) : Array Nat :=
  (b.setIfInBounds (a.getD i 0) (b.getD (a.getD j 0) 0)).setIfInBounds (a.getD j 0) (b.getD (a.getD i 0) 0)

theorem swapRows_refines (m : Sparse) (hi : Inv m) (i j : Nat) (hi' : i < m.h) (hj : j < m.h) :
    ∃ m', m.swapRows i j = some m' ∧ Inv m' ∧ (abs m).swapRows i j = some (abs m') := by
  have hRi : m.l2pR[i]? = some (m.l2pR.getD i 0) := arr_getD_lt _ _ _ (by rw [hi.maps_size.1]; exact hi')
  have hRj : m.l2pR[j]? = some (m.l2pR.getD j 0) := arr_getD_lt _ _ _ (by rw [hi.maps_size.1]; exact hj)
  have hpi := (hi.row_perm i hi').1
  have hpj := (hi.row_perm j hj).1
  have hsz := hi.maps_size.2.1
  obtain ⟨ga, gb⟩ := swap_arr_getD m.l2pR m.p2lR m.h hi.maps_size.1 hi.maps_size.2.1
    (fun k hk => hi.row_perm k hk) i j hi' hj
  obtain ⟨pa, pb⟩ := swap_fun_perm (fun k => m.l2pR.getD k 0) (fun p => m.p2lR.getD p 0) m.h hi.row_perm hi.row_perm' i j hi' hj
  have hinv : Inv { m with l2pR := swapL m.l2pR i j, p2lR := swapP m.l2pR m.p2lR i j } := by
    refine ⟨hi.nd_le, hi.rows_size, ?_, ?_, ?_, hi.col_perm, hi.col_perm', hi.dense_size, hi.dense_words,
      hi.rows_sorted, hi.rows_keys, hi.pad_zero, hi.index_ok⟩
    · refine ⟨?_, ?_, hi.maps_size.2.2.1, hi.maps_size.2.2.2⟩
      · simp only [swapL, Array.size_setIfInBounds]; exact hi.maps_size.1
      · simp only [swapP, Array.size_setIfInBounds]; exact hi.maps_size.2.1
    · intro k hk
      show (swapL m.l2pR i j).getD k 0 < m.h ∧ (swapP m.l2pR m.p2lR i j).getD ((swapL m.l2pR i j).getD k 0) 0 = k
      unfold swapL swapP
      rw [ga, gb]
      exact pa k hk
    · intro p hp
      show (swapP m.l2pR m.p2lR i j).getD p 0 < m.h ∧ (swapL m.l2pR i j).getD ((swapP m.l2pR m.p2lR i j).getD p 0) 0 = p
      unfold swapL swapP
      rw [gb, ga]
      exact pb p hp
  refine ⟨_, ?_, hinv, ?_⟩
  · unfold Sparse.swapRows
    rw [hRi, hRj]
    simp only [hsz, hpi, hpj, and_self, ↓reduceIte]
    rfl
  · rw [abs_eq m hi, abs_eq _ hinv, BitMat.ofFun_swapRows _ i j hi' hj]
    congr 1
    apply BitMat.ofFun_congr
    intro r hr c hc
    unfold cell
    show _ = if m.w - c ≤ m.nd then
        testBit64 (m.dense.getD ((swapL m.l2pR i j).getD r 0 * m.rww + (m.leftPad + (c - (m.w - m.nd))) / 64) 0)
          ((m.leftPad + (c - (m.w - m.nd))) % 64)
      else (m.rows.getD ((swapL m.l2pR i j).getD r 0) []).contains (m.l2pC.getD c 0)
    unfold swapL
    rw [ga]
    by_cases h1 : r = j
    · simp only [h1, if_true]
    · by_cases h2 : r = i
      · subst h2; simp only [h1, if_true, if_false]
      · simp only [h1, h2, if_false]

/-- column swaps are only supported inside the sparse part -/
theorem swapCols_refines (m : Sparse) (hi : Inv m) (i j : Nat) (hi' : i < m.w - m.nd) (hj : j < m.w - m.nd) :
    ∃ m', m.swapCols i j = some m' ∧ Inv m' ∧ (abs m).swapCols i j = some (abs m') := by
  have hszw := hi.maps_size.2.2.1
  have hin : i < m.l2pC.size := by omega
  have hjn : j < m.l2pC.size := by omega
  have hCi : m.l2pC[i]? = some (m.l2pC.getD i 0) := arr_getD_lt _ _ _ hin
  have hCj : m.l2pC[j]? = some (m.l2pC.getD j 0) := arr_getD_lt _ _ _ hjn
  have hpi := (hi.col_perm i hin).1
  have hpj := (hi.col_perm j hjn).1
  have hsz := hi.maps_size.2.2.2
  obtain ⟨ga, gb⟩ := swap_arr_getD m.l2pC m.p2lC m.l2pC.size rfl hsz
    (fun k hk => hi.col_perm k hk) i j hin hjn
  obtain ⟨pa, pb⟩ := swap_fun_perm (fun k => m.l2pC.getD k 0) (fun p => m.p2lC.getD p 0) m.l2pC.size hi.col_perm hi.col_perm' i j hin hjn
  have hsz' : (swapL m.l2pC i j).size = m.l2pC.size := by simp only [swapL, Array.size_setIfInBounds]
  have hinv : Inv { m with l2pC := swapL m.l2pC i j, p2lC := swapP m.l2pC m.p2lC i j } := by
    refine ⟨hi.nd_le, hi.rows_size, ?_, hi.row_perm, hi.row_perm', ?_, ?_, hi.dense_size, hi.dense_words,
      hi.rows_sorted, ?_, hi.pad_zero, ?_⟩
    · refine ⟨hi.maps_size.1, hi.maps_size.2.1, ?_, ?_⟩
      · show (swapL m.l2pC i j).size ≥ m.w
        rw [hsz']; exact hszw
      · show (swapP m.l2pC m.p2lC i j).size = (swapL m.l2pC i j).size
        rw [hsz']; simp only [swapP, Array.size_setIfInBounds]; exact hsz
    · intro k hk
      show (swapL m.l2pC i j).getD k 0 < (swapL m.l2pC i j).size ∧ (swapP m.l2pC m.p2lC i j).getD ((swapL m.l2pC i j).getD k 0) 0 = k
      replace hk : k < (swapL m.l2pC i j).size := hk
      rw [hsz'] at hk ⊢
      unfold swapL swapP
      rw [ga, gb]
      exact pa k hk
    · intro p hp
      show (swapP m.l2pC m.p2lC i j).getD p 0 < (swapL m.l2pC i j).size ∧ (swapL m.l2pC i j).getD ((swapP m.l2pC m.p2lC i j).getD p 0) 0 = p
      replace hp : p < (swapL m.l2pC i j).size := hp
      rw [hsz'] at hp ⊢
      unfold swapL swapP
      rw [gb, ga]
      exact pb p hp
    · intro p hp k hk
      show k < (swapL m.l2pC i j).size ∧ (swapP m.l2pC m.p2lC i j).getD k 0 < m.w - m.nd
      have := hi.rows_keys p hp k hk
      rw [hsz']
      refine ⟨this.1, ?_⟩
      unfold swapP
      rw [gb]
      by_cases a1 : k = m.l2pC.getD j 0
      · rw [if_pos a1]; exact hi'
      · rw [if_neg a1]
        by_cases a2 : k = m.l2pC.getD i 0
        · rw [if_pos a2]; exact hj
        · rw [if_neg a2]; exact this.2
    · intro hdis
      obtain ⟨idx, h1, h2, h3, h4⟩ := hi.index_ok hdis
      refine ⟨idx, h1, h2, ?_, h4⟩
      show (swapL m.l2pC i j).size ≤ m.h
      rw [hsz']; exact h3
  refine ⟨_, ?_, hinv, ?_⟩
  · unfold Sparse.swapCols
    have : ¬ j ≥ m.w - m.nd := by omega
    rw [if_neg this, hCi, hCj]
    simp only [hsz, hpi, hpj, and_self, ↓reduceIte]
    rfl
  · rw [abs_eq m hi, abs_eq _ hinv, BitMat.ofFun_swapCols _ i j (by omega) (by omega)]
    congr 1
    apply BitMat.ofFun_congr
    intro r hr c hc
    unfold cell
    show _ = if m.w - c ≤ m.nd then
        testBit64 (m.dense.getD (m.l2pR.getD r 0 * m.rww + (m.leftPad + (c - (m.w - m.nd))) / 64) 0)
          ((m.leftPad + (c - (m.w - m.nd))) % 64)
      else (m.rows.getD (m.l2pR.getD r 0) []).contains ((swapL m.l2pC i j).getD c 0)
    unfold swapL
    rw [ga]
    by_cases h0 : m.w - c ≤ m.nd
    · have h1 : ¬ c = j := by omega
      have h2 : ¬ c = i := by omega
      simp only [h1, h2, if_false]
    · by_cases h1 : c = j
      · subst h1
        have : ¬ m.w - i ≤ m.nd := by omega
        simp only [if_true, this, h0, if_false]
      · by_cases h2 : c = i
        · subst h2
          have : ¬ m.w - j ≤ m.nd := by omega
          simp only [h1, if_true, if_false, this, h0]
        · simp only [h1, h2, if_false]

theorem sparseOnes_eq (m : Sparse) (hi : Inv m) (r a b : Nat) (hr : r < m.h) :
    m.sparseOnes r a b = some (((m.rows.getD (m.l2pR.getD r 0) []).map fun pc => m.p2lC.getD pc 0).filter
      fun c => a ≤ c ∧ c < b) := by
  have hR : m.l2pR[r]? = some (m.l2pR.getD r 0) := arr_getD_lt _ _ _ (by rw [hi.maps_size.1]; exact hr)
  have hpi := (hi.row_perm r hr).1
  have hpis : m.l2pR.getD r 0 < m.rows.size := by rw [hi.rows_size]; exact hpi
  unfold Sparse.sparseOnes
  rw [hR]
  simp only [hpis, ↓reduceIte]
  rw [mapM_getElem?]
  · rfl
  · intro x hx
    rw [hi.maps_size.2.2.2]
    exact (hi.rows_keys _ hpi x hx).1

theorem sparseOnes_perm (m : Sparse) (hi : Inv m) (r a b : Nat) (hr : r < m.h) (hb : b ≤ m.w - m.nd) :
    ((((m.rows.getD (m.l2pR.getD r 0) []).map fun pc => m.p2lC.getD pc 0).filter
      fun c => a ≤ c ∧ c < b)).Perm ((abs m).onesIn r a b) := by
  have hpi := (hi.row_perm r hr).1
  have hszw := hi.maps_size.2.2.1
  rw [List.perm_ext_iff_of_nodup]
  · intro x
    rw [BitMat.mem_onesIn]
    simp only [List.mem_filter, List.mem_map, decide_eq_true_eq]
    constructor
    · rintro ⟨⟨k, hk, hkx⟩, h1, h2⟩
      refine ⟨h1, h2, ?_⟩
      rw [abs_get m hi r x hr (by omega)]
      unfold cell
      have : ¬ m.w - x ≤ m.nd := by omega
      rw [if_neg this]
      have hks := (hi.rows_keys _ hpi k hk).1
      have : m.l2pC.getD x 0 = k := by rw [← hkx]; exact (hi.col_perm' k hks).2
      rw [this, List.contains_iff_mem]; exact hk
    · rintro ⟨h1, h2, h3⟩
      rw [abs_get m hi r x hr (by omega)] at h3
      unfold cell at h3
      have : ¬ m.w - x ≤ m.nd := by omega
      rw [if_neg this, List.contains_iff_mem] at h3
      exact ⟨⟨_, h3, (hi.col_perm x (by omega)).2⟩, h1, h2⟩
  · apply List.Nodup.filter
    apply List.Nodup.map_on _ (nodup_of_sorted (hi.rows_sorted _ hpi))
    intro x hx y hy hxy
    have h1 := (hi.col_perm' x (hi.rows_keys _ hpi x hx).1).2
    have h2 := (hi.col_perm' y (hi.rows_keys _ hpi y hy).1).2
    rw [← h1, ← h2, hxy]
  · exact BitMat.nodup_onesIn _ _ _ _

theorem rowIter_refines (m : Sparse) (hi : Inv m) (r a b : Nat) (hr : r < m.h) (hab : a ≤ b) (hb : b ≤ m.w - m.nd) :
    ∃ l, m.rowIter r a b = some l ∧ l.Perm ((abs m).onesIn r a b) := by
  refine ⟨_, ?_, sparseOnes_perm m hi r a b hr hb⟩
  unfold Sparse.rowIter
  rw [if_neg (by omega), sparseOnes_eq m hi r a b hr]

/-- `count_ones` / `get_row_iter` are only supported on the sparse part -/
theorem countOnes_refines (m : Sparse) (hi : Inv m) (r a b : Nat) (hr : r < m.h) (hab : a ≤ b) (hb : b ≤ m.w - m.nd) :
    m.countOnes r a b = some ((abs m).countOnes r a b) := by
  unfold Sparse.countOnes BitMat.countOnes
  rw [if_neg (by omega), sparseOnes_eq m hi r a b hr, Option.map_some, (sparseOnes_perm m hi r a b hr hb).length_eq]


theorem disableIndex_refines (m : Sparse) (hi : Inv m) : Inv m.disableIndex ∧ abs m.disableIndex = abs m := by
  have hinv : Inv m.disableIndex := by
    refine ⟨hi.nd_le, hi.rows_size, hi.maps_size, hi.row_perm, hi.row_perm', hi.col_perm, hi.col_perm', hi.dense_size,
      hi.dense_words, hi.rows_sorted, hi.rows_keys, hi.pad_zero, ?_⟩
    intro h; simp [Sparse.disableIndex] at h
  refine ⟨hinv, ?_⟩
  rw [abs_eq m hi, abs_eq _ hinv]
  rfl

/-- the (physical column, physical row) pairs of the sparse part -/
def entriesOf (m : Sparse) : List (Nat × Nat) :=
  (List.range m.rows.size).flatMap fun pr => (m.rows.getD pr []).map fun pc => (pc, pr)

theorem mem_entriesOf (m : Sparse) (a b : Nat) : (a, b) ∈ entriesOf m ↔ b < m.rows.size ∧ a ∈ m.rows.getD b [] := by
  unfold entriesOf
  simp only [List.mem_flatMap, List.mem_range, List.mem_map, Prod.mk.injEq]
  constructor
  · rintro ⟨pr, h1, pc, h2, h3, h4⟩; subst h3; subst h4; exact ⟨h1, h2⟩
  · rintro ⟨h1, h2⟩; exact ⟨b, h1, a, h2, rfl, rfl⟩

theorem nodup_entriesOf (m : Sparse) (hs : ∀ p, p < m.rows.size → (m.rows.getD p []).Nodup) : (entriesOf m).Nodup := by
  unfold entriesOf
  rw [List.nodup_flatMap]
  constructor
  · intro x hx
    apply List.Nodup.map _ (hs x (List.mem_range.1 hx))
    intro a b hab; exact (Prod.mk.injEq _ _ _ _ ▸ hab).1
  · apply List.pairwise_lt_range.imp
    intro a b hab
    simp only [Function.onFun]
    intro x hx hx'
    rw [List.mem_map] at hx hx'
    obtain ⟨_, _, h1⟩ := hx
    obtain ⟨_, _, h2⟩ := hx'
    rw [← h2] at h1
    have := (Prod.mk.injEq _ _ _ _ ▸ h1).2
    omega

/-- building the column index needs a non-empty sparse part (and height ≥ width: one slot per row) -/
theorem enableIndex_refines (m : Sparse) (hi : Inv m) (hwh : m.l2pC.size ≤ m.h)
    (hne : ∃ p, p < m.h ∧ m.rows.getD p [] ≠ []) :
    ∃ m', m.enableIndex = some m' ∧ Inv m' ∧ abs m' = abs m := by
  have hidx : ∀ k, k < m.h → ∀ p, p ∈ ((entriesOf m).filter fun e => e.1 = k).map (·.2) ↔ p < m.h ∧ k ∈ m.rows.getD p [] := by
    intro k hk p
    simp only [List.mem_map, List.mem_filter, decide_eq_true_eq]
    constructor
    · rintro ⟨⟨a, b⟩, ⟨h1, h2⟩, h3⟩
      simp only at h2 h3; subst h2; subst h3
      rw [mem_entriesOf, hi.rows_size] at h1; exact h1
    · rintro ⟨h1, h2⟩
      exact ⟨(k, p), ⟨by rw [mem_entriesOf, hi.rows_size]; exact ⟨h1, h2⟩, rfl⟩, rfl⟩
  have hnd : ∀ k, (((entriesOf m).filter fun e => e.1 = k).map (·.2)).Nodup := by
    intro k
    apply List.Nodup.map_on
    · rintro ⟨a, b⟩ h1 ⟨a', b'⟩ h2 h3
      simp only [List.mem_filter, decide_eq_true_eq] at h1 h2
      simp only at h3
      rw [Prod.mk.injEq]; exact ⟨h1.2.trans h2.2.symm, h3⟩
    · apply List.Nodup.filter
      apply nodup_entriesOf
      intro p hp
      rw [hi.rows_size] at hp
      exact nodup_of_sorted (hi.rows_sorted p hp)
  have hinv : Inv { m with indexDisabled := false, index := some (Array.ofFn (n := m.h) fun pc => ((entriesOf m).filter fun e => e.1 = pc.val).map (·.2)) } := by
    refine ⟨hi.nd_le, hi.rows_size, hi.maps_size, hi.row_perm, hi.row_perm', hi.col_perm, hi.col_perm', hi.dense_size,
      hi.dense_words, hi.rows_sorted, hi.rows_keys, hi.pad_zero, ?_⟩
    intro _
    refine ⟨_, rfl, Array.size_ofFn, hwh, ?_, ?_⟩
    · intro k hk
      rw [Array.size_ofFn] at hk
      rw [arr_getD_ofFn _ k [] hk]
      refine ⟨hnd k, ?_⟩
      intro p hp
      exact ((hidx k hk p).1 hp).1
    · intro p hp k hk
      have hk' : k < m.h := by have := (hi.rows_keys p hp k hk).1; omega
      rw [Array.size_ofFn]
      refine ⟨hk', ?_⟩
      rw [arr_getD_ofFn _ k [] hk']
      exact (hidx k hk' p).2 ⟨hp, hk⟩
  refine ⟨_, ?_, hinv, ?_⟩
  · unfold Sparse.enableIndex
    show (if (entriesOf m).isEmpty = true ∨ ((entriesOf m).any fun x => match x with | (pc, _) => decide (pc ≥ m.h)) = true then none else _) = _
    have h1 : ¬ ((entriesOf m).isEmpty = true ∨ ((entriesOf m).any fun x => match x with | (pc, _) => decide (pc ≥ m.h)) = true) := by
      rintro (h | h)
      · obtain ⟨p, hp, hr⟩ := hne
        obtain ⟨k, hk⟩ := List.exists_mem_of_ne_nil _ hr
        have : (k, p) ∈ entriesOf m := by rw [mem_entriesOf, hi.rows_size]; exact ⟨hp, hk⟩
        rw [List.isEmpty_iff] at h
        rw [h] at this; simp at this
      · rw [List.any_eq_true] at h
        obtain ⟨⟨a, b⟩, h1, h2⟩ := h
        simp only [decide_eq_true_eq] at h2
        rw [mem_entriesOf, hi.rows_size] at h1
        have := (hi.rows_keys b h1.1 a h1.2).1
        omega
    rw [if_neg h1]
    rfl
  · rw [abs_eq m hi, abs_eq _ hinv]
    rfl


/-- a column's exact rows are available while its index entry is still exact (`colExact`) -/
def colExact (m : Sparse) (c : Nat) : Prop :=
  ∃ idx, m.index = some idx ∧ ∀ p, p ∈ idx.getD (m.l2pC.getD c 0) [] → (m.l2pC.getD c 0) ∈ m.rows.getD p []

theorem onesInCol_refines (m : Sparse) (hi : Inv m) (c a b : Nat) (hc : c < m.w - m.nd) (hab : a ≤ b) (hb : b ≤ m.h)
    (hen : m.indexDisabled = false) (hex : colExact m c) :
    ∃ l, m.onesInCol c a b = some l ∧ l.Perm ((abs m).onesInCol c a b) := by
  obtain ⟨idx, hidx, hsz, hwh, hent, hsup⟩ := hi.index_ok hen
  obtain ⟨idx', hidx', hex⟩ := hex
  rw [hidx] at hidx'
  have := Option.some.inj hidx'
  subst this
  have hszw := hi.maps_size.2.2.1
  have hcn : c < m.l2pC.size := by omega
  have hC : m.l2pC[c]? = some (m.l2pC.getD c 0) := arr_getD_lt _ _ _ hcn
  have hpc := (hi.col_perm c hcn).1
  generalize hpc' : m.l2pC.getD c 0 = pc at hpc hex hC
  have hpci : pc < idx.size := by omega
  obtain ⟨hnd, hlt⟩ := hent pc hpci
  refine ⟨((idx.getD pc []).map fun pr => m.p2lR.getD pr 0).filter fun r => a ≤ r ∧ r < b, ?_, ?_⟩
  · unfold Sparse.onesInCol
    rw [hen, hidx, hC]
    simp only [Bool.false_eq_true, ↓reduceIte, hpci]
    rw [mapM_getElem?]
    · rfl
    · intro x hx
      rw [hi.maps_size.2.1]; exact hlt x hx
  · rw [List.perm_ext_iff_of_nodup]
    · intro x
      rw [BitMat.mem_onesInCol]
      simp only [List.mem_filter, List.mem_map, decide_eq_true_eq]
      constructor
      · rintro ⟨⟨p, hp, hpx⟩, h1, h2⟩
        refine ⟨h1, h2, ?_⟩
        rw [abs_get m hi x c (by omega) (by omega)]
        unfold cell
        have : ¬ m.w - c ≤ m.nd := by omega
        rw [if_neg this]
        have : m.l2pR.getD x 0 = p := by rw [← hpx]; exact (hi.row_perm' p (hlt p hp)).2
        rw [this, hpc', List.contains_iff_mem]; exact hex p hp
      · rintro ⟨h1, h2, h3⟩
        have hx : x < m.h := by omega
        rw [abs_get m hi x c hx (by omega)] at h3
        unfold cell at h3
        have : ¬ m.w - c ≤ m.nd := by omega
        rw [if_neg this, List.contains_iff_mem, hpc'] at h3
        exact ⟨⟨_, (hsup _ (hi.row_perm x hx).1 pc h3).2, (hi.row_perm x hx).2⟩, h1, h2⟩
    · apply List.Nodup.filter
      apply List.Nodup.map_on _ hnd
      intro x hx y hy hxy
      have h1 := (hi.row_perm' x (hlt x hx)).2
      have h2 := (hi.row_perm' y (hlt y hy)).2
      rw [← h1, ← h2, hxy]
    · exact BitMat.nodup_onesInCol _ _ _ _

theorem addAssign_eq (m : Sparse) (hi : Inv m) (dest src : Nat) (hd : dest < m.h) (hs : src < m.h) (hne : dest ≠ src)
    (hlen : m.indexDisabled = true ∨ (m.rows.getD (m.l2pR.getD src 0) []).length = 1)
    (hadd : m.indexDisabled = true ∨ (Sparse.vecAdd (m.rows.getD (m.l2pR.getD dest 0) []) (m.rows.getD (m.l2pR.getD src 0) [])).2 = false) :
    m.addAssign dest src 0 = some { m with
      dense := xorFold_sp m.dense (m.l2pR.getD dest 0 * m.rww) (m.l2pR.getD src 0 * m.rww) m.rww,
      rows := m.rows.setIfInBounds (m.l2pR.getD dest 0)
        (Sparse.vecAdd (m.rows.getD (m.l2pR.getD dest 0) []) (m.rows.getD (m.l2pR.getD src 0) [])).1 } := by
  have hRd : m.l2pR[dest]? = some (m.l2pR.getD dest 0) := arr_getD_lt _ _ _ (by rw [hi.maps_size.1]; exact hd)
  have hRs : m.l2pR[src]? = some (m.l2pR.getD src 0) := arr_getD_lt _ _ _ (by rw [hi.maps_size.1]; exact hs)
  have hpd := (hi.row_perm dest hd).1
  have hps := (hi.row_perm src hs).1
  generalize m.l2pR.getD dest 0 = pd at *
  generalize m.l2pR.getD src 0 = ps at *
  unfold Sparse.addAssign
  rw [hRd, hRs]
  simp only [hne, false_or, true_or, not_true_eq_false, ↓reduceIte]
  have hm1 : (if m.nd > 0 then
        if pd * m.rww + m.rww ≤ m.dense.size ∧ ps * m.rww + m.rww ≤ m.dense.size then
          some { m with
            dense := List.foldl
                  (fun el k =>
                    el.setIfInBounds (pd * m.rww + k) (el.getD (pd * m.rww + k) 0 ^^^ el.getD (ps * m.rww + k) 0))
                  m.dense (List.range m.rww) }
        else none
      else some m) = some { m with dense := xorFold_sp m.dense (pd * m.rww) (ps * m.rww) m.rww } := by
    by_cases hnd : m.nd > 0
    · rw [if_pos hnd]
      have h1 : pd * m.rww + m.rww ≤ m.dense.size := by
        rw [hi.dense_size]
        have : (pd + 1) * m.rww ≤ m.h * m.rww := Nat.mul_le_mul_right _ hpd
        rw [Nat.add_mul] at this; omega
      have h2 : ps * m.rww + m.rww ≤ m.dense.size := by
        rw [hi.dense_size]
        have : (ps + 1) * m.rww ≤ m.h * m.rww := Nat.mul_le_mul_right _ hps
        rw [Nat.add_mul] at this; omega
      rw [if_pos ⟨h1, h2⟩]
      rfl
    · rw [if_neg hnd]
      have : m.rww = 0 := by unfold Sparse.rww; omega
      rw [this]
      rfl
  rw [hm1]
  have h1 : pd < m.rows.size := by rw [hi.rows_size]; exact hpd
  have h2 : ps < m.rows.size := by rw [hi.rows_size]; exact hps
  have h3 : ¬ ¬ (m.indexDisabled = true ∨ (m.rows.getD ps []).length = 1) := not_not.2 hlen
  have h4 : ¬ ¬ (m.indexDisabled = true ∨ ¬ (Sparse.vecAdd (m.rows.getD pd []) (m.rows.getD ps [])).2 = true) := by
    rw [not_not]
    rcases hadd with h | h
    · exact Or.inl h
    · right; rw [h]; simp
  simp only [h1, h2, and_self, ↓reduceIte, h3, h4]


theorem row_end_le (m : Sparse) (hi : Inv m) (p : Nat) (hp : p < m.h) : p * m.rww + m.rww ≤ m.dense.size := by
  rw [hi.dense_size]
  have : (p + 1) * m.rww ≤ m.h * m.rww := Nat.mul_le_mul_right _ hp
  rw [Nat.add_mul] at this; omega

theorem addAssign_core (m : Sparse) (hi : Inv m) (dest src : Nat) (hd : dest < m.h) (hs : src < m.h) (hne : dest ≠ src)
    (hsub : m.indexDisabled = false → ∀ x ∈ m.rows.getD (m.l2pR.getD src 0) [], x ∈ m.rows.getD (m.l2pR.getD dest 0) []) :
    Inv { m with
      dense := xorFold_sp m.dense (m.l2pR.getD dest 0 * m.rww) (m.l2pR.getD src 0 * m.rww) m.rww,
      rows := m.rows.setIfInBounds (m.l2pR.getD dest 0)
        (Sparse.vecAdd (m.rows.getD (m.l2pR.getD dest 0) []) (m.rows.getD (m.l2pR.getD src 0) [])).1 } ∧
    (abs m).addAssign dest src = some (abs { m with
      dense := xorFold_sp m.dense (m.l2pR.getD dest 0 * m.rww) (m.l2pR.getD src 0 * m.rww) m.rww,
      rows := m.rows.setIfInBounds (m.l2pR.getD dest 0)
        (Sparse.vecAdd (m.rows.getD (m.l2pR.getD dest 0) []) (m.rows.getD (m.l2pR.getD src 0) [])).1 }) := by
  have hpd := (hi.row_perm dest hd).1
  have hps := (hi.row_perm src hs).1
  have hpne : m.l2pR.getD dest 0 ≠ m.l2pR.getD src 0 := fun h => hne (l2pR_inj m hi dest src hd hs h)
  have hdest : ∀ r, r < m.h → (m.l2pR.getD r 0 = m.l2pR.getD dest 0 ↔ r = dest) :=
    fun r hr => ⟨fun h => l2pR_inj m hi r dest hr hd h, fun h => by rw [h]⟩
  have hsrc : cell m src = fun c => if m.w - c ≤ m.nd then
      testBit64 (m.dense.getD (m.l2pR.getD src 0 * m.rww + (m.leftPad + (c - (m.w - m.nd))) / 64) 0)
        ((m.leftPad + (c - (m.w - m.nd))) % 64)
      else (m.rows.getD (m.l2pR.getD src 0) []).contains (m.l2pC.getD c 0) := rfl
  have hdst : cell m dest = fun c => if m.w - c ≤ m.nd then
      testBit64 (m.dense.getD (m.l2pR.getD dest 0 * m.rww + (m.leftPad + (c - (m.w - m.nd))) / 64) 0)
        ((m.leftPad + (c - (m.w - m.nd))) % 64)
      else (m.rows.getD (m.l2pR.getD dest 0) []).contains (m.l2pC.getD c 0) := rfl
  generalize m.l2pR.getD dest 0 = pd at *
  generalize m.l2pR.getD src 0 = ps at *
  have hpds : pd < m.rows.size := by rw [hi.rows_size]; exact hpd
  obtain ⟨xs, xg⟩ := xorFold_spec_sp m.dense (pd * m.rww) (ps * m.rww) m.rww (rows_disjoint_sp _ _ _ hpne) (row_end_le m hi pd hpd)
  obtain ⟨vs, vm, _⟩ := vecAdd_spec (m.rows.getD pd []) (m.rows.getD ps []) (hi.rows_sorted pd hpd) (hi.rows_sorted ps hps)
  generalize (Sparse.vecAdd (m.rows.getD pd []) (m.rows.getD ps [])).1 = nr at *
  generalize hde : xorFold_sp m.dense (pd * m.rww) (ps * m.rww) m.rww = de at *
  have hrows : ∀ p, (m.rows.setIfInBounds pd nr).getD p [] = if p = pd then nr else m.rows.getD p [] := by
    intro p
    rw [arr_getD_set]
    by_cases h : p = pd
    · subst h; rw [if_pos ⟨rfl, hpds⟩, if_pos rfl]
    · rw [if_neg (fun h' => h h'.1.symm), if_neg h]
  have hinv : Inv { m with dense := de, rows := m.rows.setIfInBounds pd nr } := by
    refine ⟨hi.nd_le, ?_, hi.maps_size, hi.row_perm, hi.row_perm', hi.col_perm, hi.col_perm', ?_, ?_, ?_, ?_, ?_, ?_⟩
    · show (m.rows.setIfInBounds pd nr).size = m.h
      rw [Array.size_setIfInBounds]; exact hi.rows_size
    · show de.size = m.h * m.rww
      rw [xs]; exact hi.dense_size
    · intro q hq
      show de.getD q 0 < U64
      replace hq : q < de.size := hq
      rw [xs] at hq
      rw [xg]
      by_cases h : pd * m.rww ≤ q ∧ q < pd * m.rww + m.rww
      · rw [if_pos h]
        have := row_end_le m hi ps hps
        exact xor_lt_U64_sp _ _ (hi.dense_words q hq) (hi.dense_words _ (by omega))
      · rw [if_neg h]; exact hi.dense_words q hq
    · intro p hp
      show ((m.rows.setIfInBounds pd nr).getD p []).Pairwise (· < ·)
      rw [hrows]
      by_cases h : p = pd
      · rw [if_pos h]; exact vs
      · rw [if_neg h]; exact hi.rows_sorted p hp
    · intro p hp k hk
      replace hk : k ∈ (m.rows.setIfInBounds pd nr).getD p [] := hk
      show k < m.l2pC.size ∧ m.p2lC.getD k 0 < m.w - m.nd
      rw [hrows] at hk
      by_cases h : p = pd
      · rw [if_pos h, vm] at hk
        rcases hk with hk | hk
        · exact hi.rows_keys pd hpd k hk.1
        · exact hi.rows_keys ps hps k hk.1
      · rw [if_neg h] at hk
        exact hi.rows_keys p hp k hk
    · intro p hp b hb
      show testBit64 (de.getD (p * m.rww) 0) b = false
      replace hb : b < m.leftPad := hb
      rw [xg]
      by_cases h : pd * m.rww ≤ p * m.rww ∧ p * m.rww < pd * m.rww + m.rww
      · rw [if_pos h]
        have h0 : 0 < m.rww := by omega
        have h1 := (in_row_range m.rww pd p 0 h0).1 (by rw [Nat.add_zero]; exact h)
        subst h1
        rw [Nat.sub_self, Nat.add_zero, testBit64_xor_sp, hi.pad_zero p hp b hb, hi.pad_zero ps hps b hb]
        rfl
      · rw [if_neg h]; exact hi.pad_zero p hp b hb
    · intro hdis
      replace hdis : m.indexDisabled = false := hdis
      obtain ⟨idx, h1, h2, h3, h4, h5⟩ := hi.index_ok hdis
      refine ⟨idx, h1, h2, h3, h4, ?_⟩
      intro p hp k hk
      replace hk : k ∈ (m.rows.setIfInBounds pd nr).getD p [] := hk
      rw [hrows] at hk
      by_cases h : p = pd
      · rw [if_pos h, vm] at hk
        rcases hk with hk | hk
        · rw [h]; exact h5 pd hpd k hk.1
        · exact absurd (hsub hdis k hk.1) hk.2
      · rw [if_neg h] at hk
        exact h5 p hp k hk
  refine ⟨hinv, ?_⟩
  rw [abs_eq m hi, abs_eq _ hinv, BitMat.ofFun_addAssign _ dest src hd hs hne]
  congr 1
  apply BitMat.ofFun_congr
  intro r hr c hc
  rw [hsrc, hdst]
  unfold cell
  show _ = if m.w - c ≤ m.nd then
      testBit64 (de.getD (m.l2pR.getD r 0 * m.rww + (m.leftPad + (c - (m.w - m.nd))) / 64) 0)
        ((m.leftPad + (c - (m.w - m.nd))) % 64)
    else ((m.rows.setIfInBounds pd nr).getD (m.l2pR.getD r 0) []).contains (m.l2pC.getD c 0)
  have hnd := hi.nd_le
  by_cases h0 : m.w - c ≤ m.nd
  · simp only [h0, if_true]
    have hw := (word_lt m m.h (m.l2pR.getD r 0) (c - (m.w - m.nd)) (hi.row_perm r hr).1 (by omega)).1
    rw [xg]
    by_cases h1 : r = dest
    · have hp := (hdest r hr).2 h1
      have hin := (in_row_range m.rww pd (m.l2pR.getD r 0) _ hw).2 hp
      rw [if_pos h1, if_pos hin, testBit64_xor_sp, hp]
      congr 3
      omega
    · have hnin := fun h => h1 ((hdest r hr).1 ((in_row_range m.rww pd (m.l2pR.getD r 0) _ hw).1 h))
      rw [if_neg h1, if_neg hnin]
  · simp only [h0, if_false]
    rw [hrows]
    by_cases h1 : r = dest
    · rw [if_pos h1, if_pos ((hdest r hr).2 h1)]
      have e1 := vm (m.l2pC.getD c 0)
      rw [← List.contains_iff_mem, ← List.contains_iff_mem, ← List.contains_iff_mem] at e1
      generalize (m.rows.getD pd []).contains (m.l2pC.getD c 0) = A at e1 ⊢
      generalize (m.rows.getD ps []).contains (m.l2pC.getD c 0) = B at e1 ⊢
      generalize nr.contains (m.l2pC.getD c 0) = C at e1 ⊢
      cases A <;> cases B <;> cases C <;> simp at e1 ⊢
    · rw [if_neg h1, if_neg (fun h => h1 ((hdest r hr).1 h))]


theorem addAssign_pre (m : Sparse) (hi : Inv m) (dest src : Nat) (hd : dest < m.h) (hs : src < m.h)
    (hpre : ∃ c, c < m.w - m.nd ∧ (abs m).onesIn src 0 (m.w - m.nd) = [c] ∧ (abs m).get dest c = true) :
    (m.rows.getD (m.l2pR.getD src 0) []).length = 1 ∧
    ∀ x ∈ m.rows.getD (m.l2pR.getD src 0) [], x ∈ m.rows.getD (m.l2pR.getD dest 0) [] := by
  obtain ⟨c, hc, hones, hget⟩ := hpre
  have hps := (hi.row_perm src hs).1
  have hperm := sparseOnes_perm m hi src 0 (m.w - m.nd) hs (Nat.le_refl _)
  rw [hones, List.perm_singleton] at hperm
  have hfil : ((m.rows.getD (m.l2pR.getD src 0) []).map fun pc => m.p2lC.getD pc 0).filter
      (fun c => 0 ≤ c ∧ c < m.w - m.nd) = (m.rows.getD (m.l2pR.getD src 0) []).map fun pc => m.p2lC.getD pc 0 := by
    rw [List.filter_eq_self]
    intro a ha
    rw [List.mem_map] at ha
    obtain ⟨k, hk, hka⟩ := ha
    have := (hi.rows_keys _ hps k hk).2
    rw [hka] at this
    simp only [decide_eq_true_eq]; omega
  rw [hfil] at hperm
  constructor
  · have := congrArg List.length hperm
    rw [List.length_map] at this; exact this
  · intro x hx
    have h1 : m.p2lC.getD x 0 ∈ (m.rows.getD (m.l2pR.getD src 0) []).map fun pc => m.p2lC.getD pc 0 :=
      List.mem_map.2 ⟨x, hx, rfl⟩
    rw [hperm, List.mem_singleton] at h1
    have h2 := (hi.col_perm' x (hi.rows_keys _ hps x hx).1).2
    rw [h1] at h2
    rw [abs_get m hi dest c hd (by omega)] at hget
    unfold cell at hget
    have : ¬ m.w - c ≤ m.nd := by omega
    rw [if_neg this, List.contains_iff_mem, h2] at hget
    exact hget

/-- row addition over all columns (`start_col = 0`): while the index is on only single-column
eliminations that add no new one are allowed (the two asserts of the code) -/
theorem addAssign_refines (m : Sparse) (hi : Inv m) (dest src : Nat) (hd : dest < m.h) (hs : src < m.h) (hne : dest ≠ src)
    (hpre : m.indexDisabled = true ∨
      (∃ c, c < m.w - m.nd ∧ (abs m).onesIn src 0 (m.w - m.nd) = [c] ∧ (abs m).get dest c = true)) :
    ∃ m', m.addAssign dest src 0 = some m' ∧ Inv m' ∧ (abs m).addAssign dest src = some (abs m') := by
  have hsub : m.indexDisabled = false → ∀ x ∈ m.rows.getD (m.l2pR.getD src 0) [], x ∈ m.rows.getD (m.l2pR.getD dest 0) [] := by
    intro hdis
    rcases hpre with h | h
    · rw [h] at hdis; exact absurd hdis (by simp)
    · exact (addAssign_pre m hi dest src hd hs h).2
  obtain ⟨hinv, habs⟩ := addAssign_core m hi dest src hd hs hne hsub
  refine ⟨_, addAssign_eq m hi dest src hd hs hne ?_ ?_, hinv, habs⟩
  · rcases hpre with h | h
    · exact Or.inl h
    · exact Or.inr (addAssign_pre m hi dest src hd hs h).1
  · rcases hpre with h | h
    · exact Or.inl h
    · right
      have hsub' := (addAssign_pre m hi dest src hd hs h).2
      have := (vecAdd_spec (m.rows.getD (m.l2pR.getD dest 0) []) (m.rows.getD (m.l2pR.getD src 0) [])
        (hi.rows_sorted _ (hi.row_perm dest hd).1) (hi.rows_sorted _ (hi.row_perm src hs).1)).2.2
      rw [← Bool.not_eq_true, this]
      rintro ⟨x, h1, h2⟩
      exact h2 (hsub' x h1)

/-- the dense tail as a packed vector (only from the first dense column) -/
theorem subRow_refines (m : Sparse) (hi : Inv m) (r : Nat) (hr : r < m.h) :
    m.subRow r (m.w - m.nd) = some ((abs m).subRow r (m.w - m.nd)) := by
  have hR : m.l2pR[r]? = some (m.l2pR.getD r 0) := arr_getD_lt _ _ _ (by rw [hi.maps_size.1]; exact hr)
  have hpr := (hi.row_perm r hr).1
  have hend := row_end_le m hi _ hpr
  have hnd := hi.nd_le
  have hpad := leftPad_add m
  unfold Sparse.subRow
  rw [if_neg (by simp), hR]
  simp only [hend, ↓reduceIte, Option.some.injEq]
  unfold BitMat.subRow
  have hlen : (abs m).w - (m.w - m.nd) = m.nd := by show m.w - (m.w - m.nd) = m.nd; omega
  simp only [hlen]
  congr 1
  show List.map (fun k => m.dense.getD (m.l2pR.getD r 0 * m.rww + k) 0) (List.range m.rww) =
    List.map (fun wi => (List.range 64).foldl (fun acc b =>
      if wi * 64 + b ≥ m.leftPad ∧ (abs m).get r (m.w - m.nd + (wi * 64 + b - m.leftPad)) = true then acc + 2 ^ b else acc) 0)
      (List.range m.rww)
  apply List.map_congr_left
  intro wi hwi
  rw [List.mem_range] at hwi
  have hx : m.dense.getD (m.l2pR.getD r 0 * m.rww + wi) 0 < U64 := hi.dense_words _ (by omega)
  rw [foldl_bits_eq' _ (m.dense.getD (m.l2pR.getD r 0 * m.rww + wi) 0) 64]
  · exact (Nat.mod_eq_of_lt hx).symm
  · intro b hb
    by_cases hp : wi * 64 + b ≥ m.leftPad
    · have hq : wi * 64 + b - m.leftPad < m.nd := by omega
      rw [abs_get m hi r _ hr (by omega)]
      unfold cell
      have h1 : m.w - (m.w - m.nd + (wi * 64 + b - m.leftPad)) ≤ m.nd := by omega
      have h2 : m.w - m.nd + (wi * 64 + b - m.leftPad) - (m.w - m.nd) = wi * 64 + b - m.leftPad := by omega
      have h3 : m.leftPad + (wi * 64 + b - m.leftPad) = wi * 64 + b := by omega
      have h4 : (wi * 64 + b) / 64 = wi := by omega
      have h5 : (wi * 64 + b) % 64 = b := by omega
      rw [if_pos h1, h2, h3, h4, h5]
      exact ⟨fun h => h.2, fun h => ⟨hp, h⟩⟩
    · have h0 : wi = 0 := by omega
      subst h0
      have := hi.pad_zero _ hpr b (by omega)
      rw [Nat.add_zero, this]
      constructor
      · intro h; exact absurd h.1 hp
      · intro h; exact absurd h (by simp)


theorem nonZeroCols_refines (m : Sparse) (hi : Inv m) (r : Nat) (hr : r < m.h) (hnd : 0 < m.nd) :
    ∃ l, m.nonZeroCols r (m.w - m.nd) = some l ∧ l.Perm ((abs m).onesIn r (m.w - m.nd) m.w) := by
  have hR : m.l2pR[r]? = some (m.l2pR.getD r 0) := arr_getD_lt _ _ _ (by rw [hi.maps_size.1]; exact hr)
  have hpr := (hi.row_perm r hr).1
  have hend := row_end_le m hi _ hpr
  have hndw := hi.nd_le
  have hpad := leftPad_add m
  have hfirst : m.l2pR.getD r 0 * m.rww < m.dense.size := by omega
  have hbit : ∀ q, testBit64 (m.dense.getD (m.l2pR.getD r 0 * m.rww + q / 64) 0) (q % 64) = true → m.leftPad ≤ q := by
    intro q hq
    by_contra hlt
    have h1 : q / 64 = 0 := by omega
    have h2 : q % 64 = q := by omega
    rw [h1, h2, Nat.add_zero, hi.pad_zero _ hpr q (by omega)] at hq
    exact absurd hq (by simp)
  refine ⟨(List.range (m.rww * 64)).filterMap fun q =>
        if testBit64 (m.dense.getD (m.l2pR.getD r 0 * m.rww + q / 64) 0) (q % 64) then some (m.w - m.nd + q - m.leftPad) else none, ?_, ?_⟩
  · unfold Sparse.nonZeroCols
    rw [if_neg (by simp), hR]
    simp only [hend, hfirst, and_self, ↓reduceIte]
  · rw [List.perm_ext_iff_of_nodup]
    · intro x
      rw [BitMat.mem_onesIn]
      simp only [List.mem_filterMap, List.mem_range]
      constructor
      · rintro ⟨q, hq, h⟩
        by_cases hb : testBit64 (m.dense.getD (m.l2pR.getD r 0 * m.rww + q / 64) 0) (q % 64) = true
        · rw [if_pos hb] at h
          have hx : m.w - m.nd + q - m.leftPad = x := Option.some.inj h
          have hge := hbit q hb
          refine ⟨by omega, by omega, ?_⟩
          rw [abs_get m hi r x hr (by omega)]
          unfold cell
          have h1 : m.w - x ≤ m.nd := by omega
          have h2 : m.leftPad + (x - (m.w - m.nd)) = q := by omega
          rw [if_pos h1, h2]; exact hb
        · rw [if_neg hb] at h; exact absurd h (by simp)
      · rintro ⟨h1, h2, h3⟩
        rw [abs_get m hi r x hr h2] at h3
        unfold cell at h3
        have h4 : m.w - x ≤ m.nd := by omega
        rw [if_pos h4] at h3
        refine ⟨m.leftPad + (x - (m.w - m.nd)), by omega, ?_⟩
        rw [if_pos h3]
        congr 1; omega
    · apply List.Nodup.filterMap _ List.nodup_range
      intro q q' x h1 h2
      by_cases hb : testBit64 (m.dense.getD (m.l2pR.getD r 0 * m.rww + q / 64) 0) (q % 64) = true
      · by_cases hb' : testBit64 (m.dense.getD (m.l2pR.getD r 0 * m.rww + q' / 64) 0) (q' % 64) = true
        · simp only [hb, hb', if_true, Option.mem_def, Option.some.injEq] at h1 h2
          have := hbit q hb
          have := hbit q' hb'
          omega
        · rw [if_neg hb'] at h2; cases h2
      · rw [if_neg hb] at h1; cases h1
    · exact BitMat.nodup_onesIn _ _ _ _


/-- one step of the loop of `freeze`: move the one of physical row `pr` in physical column `pc` into the new dense bit -/
def freezeStep (pc : Nat) (acc : Sparse) (pr : Nat) : Option Sparse :=
  if pr < acc.rows.size then
    if (acc.rows.getD pr []).contains pc then
      let (wd, b) := acc.bitPos pr 0
      if wd < acc.dense.size then
        some { acc with rows := acc.rows.setIfInBounds pr (Sparse.vecRemove (acc.rows.getD pr []) pc),
                        dense := acc.dense.setIfInBounds wd (setBit64 (acc.dense.getD wd 0) b) }
      else none
    else some acc
  else none

theorem vecRemove_of_not_mem (l : List Nat) (k : Nat) (h : k ∉ l) : Sparse.vecRemove l k = l := by
  unfold Sparse.vecRemove
  rw [List.filter_eq_self]
  intro a ha
  simp only [bne_iff_ne, ne_eq]
  intro h'; subst h'; exact h ha

theorem vecRemove_idem (l : List Nat) (k : Nat) : Sparse.vecRemove (Sparse.vecRemove l k) k = Sparse.vecRemove l k := by
  apply vecRemove_of_not_mem
  rw [mem_vecRemove]; intro h; exact h.2 rfl

/-- the fields a `freeze` loop state shares with its start state -/
def sameFrame (a b : Sparse) : Prop :=
  a.h = b.h ∧ a.w = b.w ∧ a.nd = b.nd ∧ a.index = b.index ∧ a.indexDisabled = b.indexDisabled ∧
  a.l2pR = b.l2pR ∧ a.p2lR = b.p2lR ∧ a.l2pC = b.l2pC ∧ a.p2lC = b.p2lC ∧
  a.rows.size = b.rows.size ∧ a.dense.size = b.dense.size

theorem freezeStep_spec (acc : Sparse) (pc pr : Nat) (hpr : pr < acc.h) (hrs : acc.rows.size = acc.h)
    (hds : acc.dense.size = acc.h * acc.rww) (hnd : 0 < acc.nd) :
    ∃ acc', freezeStep pc acc pr = some acc' ∧ sameFrame acc' acc ∧
      (∀ p, acc'.rows.getD p [] = if p = pr then Sparse.vecRemove (acc.rows.getD p []) pc else acc.rows.getD p []) ∧
      (∀ wd b, testBit64 (acc'.dense.getD wd 0) b = true ↔
        (pc ∈ acc.rows.getD pr [] ∧ wd = pr * acc.rww ∧ b = acc.leftPad) ∨ testBit64 (acc.dense.getD wd 0) b = true) ∧
      ((∀ i, i < acc.dense.size → acc.dense.getD i 0 < U64) → ∀ i, i < acc'.dense.size → acc'.dense.getD i 0 < U64) := by
  have hprs : pr < acc.rows.size := by rw [hrs]; exact hpr
  have hpad := leftPad_add acc
  have hrww : 0 < acc.rww := by omega
  have hwd : pr * acc.rww < acc.dense.size := by
    rw [hds]
    have : (pr + 1) * acc.rww ≤ acc.h * acc.rww := Nat.mul_le_mul_right _ hpr
    rw [Nat.add_mul] at this; omega
  have hbp : acc.bitPos pr 0 = (pr * acc.rww, acc.leftPad) := by
    unfold Sparse.bitPos
    have h1 : (acc.leftPad + 0) / 64 = 0 := by omega
    have h2 : (acc.leftPad + 0) % 64 = acc.leftPad := by omega
    rw [h1, h2, Nat.add_zero]
  unfold freezeStep
  rw [if_pos hprs, hbp]
  by_cases hc : (acc.rows.getD pr []).contains pc = true
  · rw [if_pos hc]
    simp only [hwd, ↓reduceIte]
    refine ⟨_, rfl, ?_, ?_, ?_, ?_⟩
    · refine ⟨rfl, rfl, rfl, rfl, rfl, rfl, rfl, rfl, rfl, ?_, ?_⟩
      · simp only [Array.size_setIfInBounds]
      · simp only [Array.size_setIfInBounds]
    · intro p
      show (acc.rows.setIfInBounds pr _).getD p [] = _
      rw [arr_getD_set]
      by_cases h : p = pr
      · subst h; rw [if_pos ⟨rfl, hprs⟩, if_pos rfl]
      · rw [if_neg (fun h' => h h'.1.symm), if_neg h]
    · intro wd b
      show testBit64 ((acc.dense.setIfInBounds (pr * acc.rww) _).getD wd 0) b = true ↔ _
      rw [arr_getD_set]
      rw [List.contains_iff_mem] at hc
      by_cases h : pr * acc.rww = wd
      · subst h
        rw [if_pos ⟨rfl, hwd⟩, testBit64_setBit64_sp]
        simp only [Bool.or_eq_true, decide_eq_true_eq, hc, true_and]
      · rw [if_neg (fun h' => h h'.1)]
        constructor
        · intro h'; exact Or.inr h'
        · rintro (h' | h')
          · exact absurd h'.2.1.symm h
          · exact h'
    · intro hw i hi
      replace hi : i < (acc.dense.setIfInBounds (pr * acc.rww) (setBit64 (acc.dense.getD (pr * acc.rww) 0) acc.leftPad)).size := hi
      rw [Array.size_setIfInBounds] at hi
      show (acc.dense.setIfInBounds (pr * acc.rww) _).getD i 0 < U64
      rw [arr_getD_set]
      by_cases h : pr * acc.rww = i ∧ pr * acc.rww < acc.dense.size
      · rw [if_pos h]; exact setBit64_lt_sp _ _ (hw _ hwd) hpad.2
      · rw [if_neg h]; exact hw i hi
  · rw [if_neg hc]
    refine ⟨_, rfl, ⟨rfl, rfl, rfl, rfl, rfl, rfl, rfl, rfl, rfl, rfl, rfl⟩, ?_, ?_, fun hw => hw⟩
    · intro p
      by_cases h : p = pr
      · subst h
        rw [if_pos rfl, vecRemove_of_not_mem]
        rw [List.contains_iff_mem] at hc; exact hc
      · rw [if_neg h]
    · intro wd b
      rw [List.contains_iff_mem] at hc
      constructor
      · intro h; exact Or.inr h
      · rintro (h | h)
        · exact absurd h.1 hc
        · exact h

theorem sameFrame_trans {a b c : Sparse} (h1 : sameFrame a b) (h2 : sameFrame b c) : sameFrame a c := by
  obtain ⟨a1, a2, a3, a4, a5, a6, a7, a8, a9, a10, a11⟩ := h1
  obtain ⟨b1, b2, b3, b4, b5, b6, b7, b8, b9, b10, b11⟩ := h2
  exact ⟨a1.trans b1, a2.trans b2, a3.trans b3, a4.trans b4, a5.trans b5, a6.trans b6, a7.trans b7, a8.trans b8,
    a9.trans b9, a10.trans b10, a11.trans b11⟩

theorem rww_eq_of_nd {a b : Sparse} (h : a.nd = b.nd) : a.rww = b.rww ∧ a.leftPad = b.leftPad := by
  unfold Sparse.rww Sparse.leftPad; rw [h]; exact ⟨rfl, rfl⟩

theorem freeze_fold (pc : Nat) (L : List Nat) : ∀ (m2 : Sparse), m2.rows.size = m2.h → m2.dense.size = m2.h * m2.rww →
    0 < m2.nd → (∀ p ∈ L, p < m2.h) →
    ∃ mF, L.foldlM (freezeStep pc) m2 = some mF ∧ sameFrame mF m2 ∧
      (∀ p, mF.rows.getD p [] = if p ∈ L then Sparse.vecRemove (m2.rows.getD p []) pc else m2.rows.getD p []) ∧
      (∀ wd b, testBit64 (mF.dense.getD wd 0) b = true ↔
        (∃ p ∈ L, pc ∈ m2.rows.getD p [] ∧ wd = p * m2.rww ∧ b = m2.leftPad) ∨ testBit64 (m2.dense.getD wd 0) b = true) ∧
      ((∀ i, i < m2.dense.size → m2.dense.getD i 0 < U64) → ∀ i, i < mF.dense.size → mF.dense.getD i 0 < U64) := by
  induction L with
  | nil =>
    intro m2 _ _ _ _
    refine ⟨m2, rfl, ⟨rfl, rfl, rfl, rfl, rfl, rfl, rfl, rfl, rfl, rfl, rfl⟩, ?_, ?_, fun h => h⟩
    · intro p; simp
    · intro wd b; simp
  | cons pr L' ih =>
    intro m2 hrs hds hnd hL
    obtain ⟨acc, hstep, hframe, hrows, hbits, hwords⟩ :=
      freezeStep_spec m2 pc pr (hL pr List.mem_cons_self) hrs hds hnd
    have hf := hframe
    obtain ⟨f1, f2, f3, f4, f5, f6, f7, f8, f9, f10, f11⟩ := hf
    obtain ⟨e1, e2⟩ := rww_eq_of_nd f3
    obtain ⟨mF, hfold, hframe', hrows', hbits', hwords'⟩ := ih acc (by rw [f10, f1]; exact hrs)
      (by rw [f11, f1, e1]; exact hds) (by rw [f3]; exact hnd)
      (fun p hp => by rw [f1]; exact hL p (List.mem_cons_of_mem _ hp))
    refine ⟨mF, ?_, sameFrame_trans hframe' hframe, ?_, ?_, ?_⟩
    · rw [List.foldlM_cons, hstep]; exact hfold
    · intro p
      rw [hrows', hrows]
      by_cases h1 : p = pr
      · subst h1
        simp only [List.mem_cons, true_or, if_true, vecRemove_idem, ite_self]
      · simp only [List.mem_cons, h1, false_or, if_false]
    · intro wd b
      rw [hbits', hbits, e1, e2]
      constructor
      · rintro (⟨p, hp, h1, h2, h3⟩ | h | h)
        · rw [hrows] at h1
          left
          refine ⟨p, List.mem_cons_of_mem _ hp, ?_, h2, h3⟩
          by_cases h4 : p = pr
          · rw [if_pos h4, mem_vecRemove] at h1; exact h1.1
          · rw [if_neg h4] at h1; exact h1
        · left; exact ⟨pr, List.mem_cons_self, h⟩
        · right; exact h
      · rintro (⟨p, hp, h1, h2, h3⟩ | h)
        · by_cases h4 : p = pr
          · subst h4; right; left; exact ⟨h1, h2, h3⟩
          · left
            rcases List.mem_cons.1 hp with h5 | h5
            · exact absurd h5 h4
            · refine ⟨p, h5, ?_, h2, h3⟩
              rw [hrows, if_neg h4]; exact h1
        · right; right; exact h
    · intro hw
      exact hwords' (hwords hw)

/-- the dense words after growing the dense tail by one column (re-spaced when a new word per row is needed) -/
def freezeDense (m : Sparse) : Array Nat :=
  if (({ m with nd := m.nd + 1 } : Sparse).bitPos (m.h - 1) (m.nd + 1 - 1)).1 ≥ m.dense.size then
    Array.ofFn (n := m.dense.size + m.h) fun q =>
      if q.val % ({ m with nd := m.nd + 1 } : Sparse).rww = 0 then 0
      else m.dense.getD (q.val / ({ m with nd := m.nd + 1 } : Sparse).rww * m.rww + (q.val % ({ m with nd := m.nd + 1 } : Sparse).rww - 1)) 0
  else m.dense

/-- bit of dense column `q` of physical row `p` in a dense array laid out for `nd` columns -/
def dbit (d : Array Nat) (nd p q : Nat) : Bool :=
  testBit64 (d.getD (p * ((nd + 63) / 64) + ((64 - nd % 64) % 64 + q) / 64) 0) (((64 - nd % 64) % 64 + q) % 64)

theorem freezeDense_spec (m : Sparse) (hi : Inv m) (hh : 0 < m.h) :
    (freezeDense m).size = m.h * ((m.nd + 1 + 63) / 64) ∧
    (∀ i, i < (freezeDense m).size → (freezeDense m).getD i 0 < U64) ∧
    (∀ p, p < m.h → ∀ q, q < m.nd → dbit (freezeDense m) (m.nd + 1) p (q + 1) = dbit m.dense m.nd p q) ∧
    (∀ p, p < m.h → ∀ b, b ≤ (64 - (m.nd + 1) % 64) % 64 →
      testBit64 ((freezeDense m).getD (p * ((m.nd + 1 + 63) / 64)) 0) b = false) := by
  have hR : m.rww = (m.nd + 63) / 64 := rfl
  have hlp : m.leftPad = (64 - m.nd % 64) % 64 := rfl
  have hsz := hi.dense_size
  have hlast : (({ m with nd := m.nd + 1 } : Sparse).bitPos (m.h - 1) (m.nd + 1 - 1)).1 =
      (m.h - 1) * ((m.nd + 1 + 63) / 64) + ((64 - (m.nd + 1) % 64) % 64 + (m.nd + 1 - 1)) / 64 := rfl
  have hR1 : ({ m with nd := m.nd + 1 } : Sparse).rww = (m.nd + 1 + 63) / 64 := rfl
  generalize hRdef : m.rww = R at *
  have hhR : m.h * R = (m.h - 1) * R + R := by
    have : m.h = (m.h - 1) + 1 := by omega
    rw [this, Nat.add_mul, Nat.one_mul]; simp
  by_cases g : m.nd % 64 = 0
  · -- a new word per row
    have hR' : (m.nd + 1 + 63) / 64 = R + 1 := by omega
    have hlp' : (64 - (m.nd + 1) % 64) % 64 = 63 := by omega
    have hge : (({ m with nd := m.nd + 1 } : Sparse).bitPos (m.h - 1) (m.nd + 1 - 1)).1 ≥ m.dense.size := by
      rw [hlast, hR', hlp', hsz, hhR, Nat.mul_succ]
      omega
    have hfd : freezeDense m = Array.ofFn (n := m.dense.size + m.h) fun q =>
        if q.val % (R + 1) = 0 then 0 else m.dense.getD (q.val / (R + 1) * R + (q.val % (R + 1) - 1)) 0 := by
      unfold freezeDense
      rw [if_pos hge, hR1, hR', hRdef]
    have hsz' : m.dense.size + m.h = m.h * (R + 1) := by rw [hsz, Nat.mul_succ]
    have hget : ∀ p, p < m.h → ∀ k, k < R + 1 → (freezeDense m).getD (p * (R + 1) + k) 0 =
        if k = 0 then 0 else m.dense.getD (p * R + (k - 1)) 0 := by
      intro p hp k hk
      have hidx : p * (R + 1) + k < m.dense.size + m.h := by
        rw [hsz']
        have : (p + 1) * (R + 1) ≤ m.h * (R + 1) := Nat.mul_le_mul_right _ hp
        rw [Nat.add_mul] at this; omega
      rw [hfd, arr_getD_ofFn _ _ 0 hidx]
      simp only [(div_mod_row (R + 1) p k hk).1, (div_mod_row (R + 1) p k hk).2]
    rw [hR', hlp']
    refine ⟨?_, ?_, ?_, ?_⟩
    · rw [hfd, Array.size_ofFn, hsz']
    · intro i hi'
      rw [hfd] at hi' ⊢
      rw [Array.size_ofFn] at hi'
      rw [arr_getD_ofFn _ _ 0 hi']
      simp only
      by_cases h0 : i % (R + 1) = 0
      · rw [if_pos h0]; decide
      · rw [if_neg h0]
        by_cases h1 : i / (R + 1) * R + (i % (R + 1) - 1) < m.dense.size
        · exact hi.dense_words _ h1
        · rw [arr_getD_ge _ _ _ (by omega)]; decide
    · intro p hp q hq
      unfold dbit
      rw [hR', hlp', ← hlp, ← hR]
      have hlp0 : m.leftPad = 0 := by omega
      have hq64 : q / 64 < R := by omega
      have e1 : (63 + (q + 1)) / 64 = q / 64 + 1 := by omega
      have e2 : (63 + (q + 1)) % 64 = q % 64 := by omega
      rw [e1, e2, hget p hp (q / 64 + 1) (by omega), if_neg (by omega), hlp0]
      simp only [Nat.add_sub_cancel, Nat.zero_add]
    · intro p hp b hb
      have := hget p hp 0 (by omega)
      rw [Nat.add_zero] at this
      rw [this, if_pos rfl]; exact testBit64_zero b
  · -- same layout
    have hR' : (m.nd + 1 + 63) / 64 = R := by omega
    have hlp1 : 1 ≤ m.leftPad := by omega
    have hlp' : (64 - (m.nd + 1) % 64) % 64 = m.leftPad - 1 := by omega
    have hR0 : 1 ≤ R := by omega
    have hlt : ¬ (({ m with nd := m.nd + 1 } : Sparse).bitPos (m.h - 1) (m.nd + 1 - 1)).1 ≥ m.dense.size := by
      rw [hlast, hR', hlp', hsz, hhR]
      have : (m.leftPad - 1 + (m.nd + 1 - 1)) / 64 = R - 1 := by omega
      omega
    have hfd : freezeDense m = m.dense := by
      unfold freezeDense
      rw [if_neg hlt]
    rw [hR', hlp', hfd]
    refine ⟨hsz, hi.dense_words, ?_, ?_⟩
    · intro p hp q hq
      unfold dbit
      rw [hR', hlp', ← hlp, ← hR]
      have : m.leftPad - 1 + (q + 1) = m.leftPad + q := by omega
      rw [this]
    · intro p hp b hb
      have := hi.pad_zero p hp b (by omega)
      rw [hRdef] at this; exact this

theorem freeze_final (m : Sparse) (hi : Inv m) (hpos : 0 < m.w - m.nd) (hh : 0 < m.h)
    (rows' : Array (List Nat)) (dense' : Array Nat)
    (hrs : rows'.size = m.h) (hds : dense'.size = m.h * ((m.nd + 1 + 63) / 64))
    (hrows : ∀ p, p < m.h → rows'.getD p [] = Sparse.vecRemove (m.rows.getD p []) (m.l2pC.getD (m.w - m.nd - 1) 0))
    (hbits : ∀ wd b, testBit64 (dense'.getD wd 0) b = true ↔
      (∃ p, p < m.h ∧ m.l2pC.getD (m.w - m.nd - 1) 0 ∈ m.rows.getD p [] ∧ wd = p * ((m.nd + 1 + 63) / 64) ∧
        b = (64 - (m.nd + 1) % 64) % 64) ∨ testBit64 ((freezeDense m).getD wd 0) b = true)
    (hwords : ∀ i, i < dense'.size → dense'.getD i 0 < U64) :
    Inv { m with nd := m.nd + 1, rows := rows', dense := dense' } ∧
    abs { m with nd := m.nd + 1, rows := rows', dense := dense' } = abs m := by
  obtain ⟨fsz, fwords, fa, fc⟩ := freezeDense_spec m hi hh
  have hszw := hi.maps_size.2.2.1
  have hin : m.w - m.nd - 1 < m.l2pC.size := by omega
  have hpcI := hi.col_perm _ hin
  have hpad' := pad_add (m.nd + 1)
  have hndw := hi.nd_le
  generalize hpc : m.l2pC.getD (m.w - m.nd - 1) 0 = pc at *
  generalize hR' : (m.nd + 1 + 63) / 64 = R' at *
  generalize hL' : (64 - (m.nd + 1) % 64) % 64 = lp' at *
  have hR'pos : 0 < R' := by omega
  have hinv : Inv { m with nd := m.nd + 1, rows := rows', dense := dense' } := by
    refine ⟨?_, hrs, hi.maps_size, hi.row_perm, hi.row_perm', hi.col_perm, hi.col_perm', ?_, hwords, ?_, ?_, ?_, ?_⟩
    · show m.nd + 1 ≤ m.w
      omega
    · show dense'.size = m.h * ((m.nd + 1 + 63) / 64)
      rw [hR']; exact hds
    · intro p hp
      show (rows'.getD p []).Pairwise (· < ·)
      rw [hrows p hp]; exact sorted_vecRemove _ _ (hi.rows_sorted p hp)
    · intro p hp k hk
      replace hk : k ∈ rows'.getD p [] := hk
      show k < m.l2pC.size ∧ m.p2lC.getD k 0 < m.w - (m.nd + 1)
      rw [hrows p hp, mem_vecRemove] at hk
      have h1 := hi.rows_keys p hp k hk.1
      refine ⟨h1.1, ?_⟩
      have : m.p2lC.getD k 0 ≠ m.w - m.nd - 1 := by
        intro h
        have h2 := (hi.col_perm' k h1.1).2
        rw [h, hpc] at h2
        exact hk.2 h2.symm
      omega
    · intro p hp b hb
      show testBit64 (dense'.getD (p * ((m.nd + 1 + 63) / 64)) 0) b = false
      replace hb : b < (64 - (m.nd + 1) % 64) % 64 := hb
      rw [hR']; rw [hL'] at hb
      rw [← Bool.not_eq_true, hbits]
      rintro (⟨p', _, _, _, h4⟩ | h)
      · omega
      · rw [fc p hp b (by omega)] at h; exact absurd h (by simp)
    · intro hdis
      replace hdis : m.indexDisabled = false := hdis
      obtain ⟨idx, h1, h2, h3, h4, h5⟩ := hi.index_ok hdis
      refine ⟨idx, h1, h2, h3, h4, ?_⟩
      intro p hp k hk
      replace hk : k ∈ rows'.getD p [] := hk
      rw [hrows p hp, mem_vecRemove] at hk
      exact h5 p hp k hk.1
  refine ⟨hinv, ?_⟩
  rw [abs_eq m hi, abs_eq _ hinv]
  apply BitMat.ofFun_congr
  intro r hr c hc
  replace hr : r < m.h := hr
  replace hc : c < m.w := hc
  have hpr := (hi.row_perm r hr).1
  unfold cell
  show (if m.w - c ≤ m.nd + 1 then
      testBit64 (dense'.getD (m.l2pR.getD r 0 * ((m.nd + 1 + 63) / 64) +
        ((64 - (m.nd + 1) % 64) % 64 + (c - (m.w - (m.nd + 1)))) / 64) 0)
        (((64 - (m.nd + 1) % 64) % 64 + (c - (m.w - (m.nd + 1)))) % 64)
    else (rows'.getD (m.l2pR.getD r 0) []).contains (m.l2pC.getD c 0)) = _
  rw [hR', hL']
  by_cases h0 : m.w - c ≤ m.nd
  · -- an old dense column
    have h1 : m.w - c ≤ m.nd + 1 := by omega
    rw [if_pos h1, if_pos h0]
    have hq : c - (m.w - m.nd) < m.nd := by omega
    have e1 : c - (m.w - (m.nd + 1)) = c - (m.w - m.nd) + 1 := by omega
    have hfa := fa _ hpr _ hq
    unfold dbit at hfa
    rw [hR', hL'] at hfa
    rw [e1, Bool.eq_iff_iff, hbits]
    have hrhs : testBit64 (m.dense.getD (m.l2pR.getD r 0 * m.rww + (m.leftPad + (c - (m.w - m.nd))) / 64) 0)
        ((m.leftPad + (c - (m.w - m.nd))) % 64) =
        testBit64 (m.dense.getD (m.l2pR.getD r 0 * ((m.nd + 63) / 64) + ((64 - m.nd % 64) % 64 + (c - (m.w - m.nd))) / 64) 0)
        (((64 - m.nd % 64) % 64 + (c - (m.w - m.nd))) % 64) := rfl
    rw [hrhs, ← hfa]
    constructor
    · rintro (⟨p, _, _, h2, h3⟩ | h)
      · exfalso
        have hX : (lp' + (c - (m.w - m.nd) + 1)) / 64 < R' := by omega
        have := div_mod_unique R' _ _ _ 0 hX hR'pos (by rw [Nat.add_zero]; exact h2)
        omega
      · exact h
    · intro h; exact Or.inr h
  · by_cases h1 : c = m.w - m.nd - 1
    · -- the frozen column
      have h2 : m.w - c ≤ m.nd + 1 := by omega
      rw [if_pos h2, if_neg h0]
      have e1 : c - (m.w - (m.nd + 1)) = 0 := by omega
      have e2 : (lp' + 0) / 64 = 0 := by omega
      have e3 : (lp' + 0) % 64 = lp' := by omega
      rw [e1, e2, e3, Nat.add_zero, h1, hpc, Bool.eq_iff_iff, hbits, List.contains_iff_mem]
      constructor
      · rintro (⟨p, _, h3, h4, _⟩ | h)
        · have := div_mod_unique R' (m.l2pR.getD r 0) p 0 0 hR'pos hR'pos (by rw [Nat.add_zero, Nat.add_zero]; exact h4)
          rw [this.1]; exact h3
        · rw [fc _ hpr lp' (Nat.le_refl _)] at h; exact absurd h (by simp)
      · intro h; exact Or.inl ⟨_, hpr, h, rfl, rfl⟩
    · -- still sparse
      have h2 : ¬ m.w - c ≤ m.nd + 1 := by omega
      rw [if_neg h2, if_neg h0, hrows _ hpr, Bool.eq_iff_iff, List.contains_iff_mem, List.contains_iff_mem, mem_vecRemove]
      constructor
      · intro h; exact h.1
      · intro h
        refine ⟨h, ?_⟩
        intro h3
        rw [← hpc] at h3
        exact h1 (l2pC_inj m hi c _ (by omega) hin h3)

/-- freezing the last sparse column moves it into the dense tail without changing any cell -/
theorem freeze_refines (m : Sparse) (hi : Inv m) (hen : m.indexDisabled = false) (hpos : 0 < m.w - m.nd) :
    ∃ m', m.freeze (m.w - m.nd - 1) = some m' ∧ Inv m' ∧ abs m' = abs m ∧ m'.nd = m.nd + 1 := by
  obtain ⟨idx, hidx, hsz, hwh, hent, hsup⟩ := hi.index_ok hen
  have hszw := hi.maps_size.2.2.1
  have hin : m.w - m.nd - 1 < m.l2pC.size := by omega
  have hC : m.l2pC[m.w - m.nd - 1]? = some (m.l2pC.getD (m.w - m.nd - 1) 0) := arr_getD_lt _ _ _ hin
  have hpcI := (hi.col_perm _ hin).1
  have hpc_lt : m.l2pC.getD (m.w - m.nd - 1) 0 < idx.size := by omega
  have hh : 0 < m.h := by omega
  obtain ⟨fsz, fwords, _, _⟩ := freezeDense_spec m hi hh
  obtain ⟨mF, hfold, hframe, hrowsF, hbitsF, hwordsF⟩ := freeze_fold (m.l2pC.getD (m.w - m.nd - 1) 0)
    (idx.getD (m.l2pC.getD (m.w - m.nd - 1) 0) []) { m with nd := m.nd + 1, dense := freezeDense m }
    hi.rows_size fsz (Nat.succ_pos _) (fun p hp => (hent _ hpc_lt).2 p hp)
  have hfreeze : m.freeze (m.w - m.nd - 1) = some mF := by
    unfold Sparse.freeze
    have h1 : ¬ (m.w - m.nd - 1 ≠ m.w - m.nd - 1 ∨ m.w ≤ m.nd ∨ m.indexDisabled = true) := by
      rw [hen]; simp; omega
    rw [if_neg h1]
    simp only [hidx, hC, hpc_lt, ↓reduceIte]
    rw [← hidx]
    exact hfold
  refine ⟨mF, hfreeze, ?_⟩
  obtain ⟨h', w', rows', dense', index', l2pR', p2lR', l2pC', p2lC', dis', nd'⟩ := mF
  obtain ⟨f1, f2, f3, f4, f5, f6, f7, f8, f9, f10, f11⟩ := hframe
  simp only at f1 f2 f3 f4 f5 f6 f7 f8 f9 f10 f11
  subst f1 f2 f3 f4 f5 f6 f7 f8 f9
  have hfin := freeze_final m hi hpos hh rows' dense' (f10.trans hi.rows_size) (f11.trans fsz) ?_ ?_ (hwordsF fwords)
  · exact ⟨hfin.1, hfin.2, rfl⟩
  · intro p hp
    have := hrowsF p
    simp only at this
    rw [this]
    by_cases hpL : p ∈ idx.getD (m.l2pC.getD (m.w - m.nd - 1) 0) []
    · rw [if_pos hpL]
    · rw [if_neg hpL, vecRemove_of_not_mem]
      intro hmem
      exact hpL (hsup p hp _ hmem).2
  · intro wd b
    have := hbitsF wd b
    simp only at this
    rw [this]
    constructor
    · rintro (⟨p, hp, h1, h2, h3⟩ | h)
      · exact Or.inl ⟨p, (hent _ hpc_lt).2 p hp, h1, h2, h3⟩
      · exact Or.inr h
    · rintro (⟨p, hp, h1, h2, h3⟩ | h)
      · exact Or.inl ⟨p, (hsup p hp _ h1).2, h1, h2, h3⟩
      · exact Or.inr h

theorem resize_newRows (m : Sparse) (hi : Inv m) (nh : Nat) (hh : nh ≤ m.h) :
    List.mapM (fun lr => m.l2pR[lr]?.bind fun pr => m.rows[pr]?) (List.range nh) =
      some ((List.range nh).map fun lr => m.rows.getD (m.l2pR.getD lr 0) []) := by
  apply mapM_eq_some_map
  intro lr hlr
  rw [List.mem_range] at hlr
  have hlr' : lr < m.h := by omega
  rw [arr_getD_lt m.l2pR lr 0 (by rw [hi.maps_size.1]; exact hlr'), Option.bind_some,
    arr_getD_lt m.rows _ [] (by rw [hi.rows_size]; exact (hi.row_perm lr hlr').1)]

theorem resize_newDense (m : Sparse) (hi : Inv m) (nh : Nat) (hh : nh ≤ m.h) :
    List.mapM (fun lr => m.l2pR[lr]?.bind fun pr =>
        if pr * m.rww + m.rww ≤ m.dense.size then
          some (List.map (fun k => m.dense.getD (pr * m.rww + k) 0) (List.range m.rww))
        else none) (List.range nh) =
      some ((List.range nh).map fun lr => (List.range m.rww).map fun k => m.dense.getD (m.l2pR.getD lr 0 * m.rww + k) 0) := by
  apply mapM_eq_some_map
  intro lr hlr
  rw [List.mem_range] at hlr
  have hlr' : lr < m.h := by omega
  rw [arr_getD_lt m.l2pR lr 0 (by rw [hi.maps_size.1]; exact hlr'), Option.bind_some,
    if_pos (row_end_le m hi _ (hi.row_perm lr hlr').1)]

/-- `resize` keeping the width -/
theorem resize_eq_same (m : Sparse) (hi : Inv m) (nh : Nat) (hh : nh ≤ m.h) (hoff : m.indexDisabled = true) :
    m.resize nh m.w = some { m with
      h := nh
      rows := ((List.range nh).map fun lr => m.rows.getD (m.l2pR.getD lr 0) []).toArray
      dense := ((List.range nh).map fun lr => (List.range m.rww).map fun k => m.dense.getD (m.l2pR.getD lr 0 * m.rww + k) 0).flatten.toArray
      l2pR := Array.ofFn (n := nh) fun i => i.val
      p2lR := Array.ofFn (n := nh) fun i => i.val } := by
  unfold Sparse.resize
  have h1 : ¬ (nh > m.h ∨ m.w > m.w) := by omega
  have h2 : ¬ (¬ (m.w - m.w = 0 ∨ m.w - m.w ≥ m.nd) ∨ ¬ m.indexDisabled = true) := by
    rw [hoff]; simp
  rw [if_neg h1]
  simp only [h2, ↓reduceIte]
  rw [resize_newRows m hi nh hh, resize_newDense m hi nh hh]
  have h0 : m.w - m.w = 0 := Nat.sub_self _
  have h3 : ¬ m.w - m.w > 0 := by omega
  by_cases hnd : m.nd > 0
  · simp only [h0, hnd, and_self, ↓reduceIte, Option.map_some, gt_iff_lt, Nat.lt_irrefl]
  · have hnd0 : m.nd = 0 := by omega
    have hr0 : m.rww = 0 := by unfold Sparse.rww; omega
    simp only [h0, hnd, and_false, ↓reduceIte, hr0, gt_iff_lt, Nat.lt_irrefl]
    have : ((List.range nh).map fun lr => (List.range 0).map fun k => m.dense.getD (m.l2pR.getD lr 0 * 0 + k) 0).flatten = [] := by
      rw [flatten_uniform]; simp
    rw [this]

/-- `resize` dropping columns (at least all dense ones) -/
theorem resize_eq_narrow (m : Sparse) (hi : Inv m) (nh nw : Nat) (hh : nh ≤ m.h) (hw : nw < m.w) (hcols : m.w - nw ≥ m.nd)
    (hoff : m.indexDisabled = true) :
    m.resize nh nw = some { m with
      h := nh
      w := nw
      rows := ((List.range nh).map fun lr => (m.rows.getD (m.l2pR.getD lr 0) []).filter fun pc => m.p2lC.getD pc 0 < nw).toArray
      dense := #[]
      nd := 0
      l2pR := Array.ofFn (n := nh) fun i => i.val
      p2lR := Array.ofFn (n := nh) fun i => i.val } := by
  unfold Sparse.resize
  have h1 : ¬ (nh > m.h ∨ nw > m.w) := by omega
  have h2 : ¬ (¬ (m.w - nw = 0 ∨ m.w - nw ≥ m.nd) ∨ ¬ m.indexDisabled = true) := by
    rw [hoff]; simp; omega
  rw [if_neg h1]
  simp only [h2, ↓reduceIte]
  rw [resize_newRows m hi nh hh]
  have h0 : ¬ m.w - nw = 0 := by omega
  have h3 : m.w - nw > 0 := by omega
  simp only [h0, false_and, ↓reduceIte, h3, List.map_map]
  rfl

theorem list_toArray_getD (f : Nat → List Nat) (nh p : Nat) (hp : p < nh) :
    (((List.range nh).map f).toArray).getD p [] = f p := by
  simp only [Array.getD_eq_getD_getElem?, List.getElem?_toArray, List.getElem?_map, List.getElem?_range hp,
    Option.map_some, Option.getD_some]

theorem resize_same (m : Sparse) (hi : Inv m) (nh : Nat) (hh : nh ≤ m.h) (hoff : m.indexDisabled = true) :
    ∃ m', m.resize nh m.w = some m' ∧ Inv m' ∧ (abs m).resize nh m.w = some (abs m') := by
  refine ⟨_, resize_eq_same m hi nh hh hoff, ?_⟩
  obtain ⟨ds, dg⟩ := flatten_uniform_getD (fun lr k => m.dense.getD (m.l2pR.getD lr 0 * m.rww + k) 0) nh m.rww
  have dg' := flatten_uniform_getD' (fun lr k => m.dense.getD (m.l2pR.getD lr 0 * m.rww + k) 0) nh m.rww
  have rg := list_toArray_getD (fun lr => m.rows.getD (m.l2pR.getD lr 0) []) nh
  have rs : (((List.range nh).map fun lr => m.rows.getD (m.l2pR.getD lr 0) []).toArray).size = nh := by simp
  generalize ((List.range nh).map fun lr => (List.range m.rww).map fun k => m.dense.getD (m.l2pR.getD lr 0 * m.rww + k) 0).flatten.toArray = DA at *
  generalize ((List.range nh).map fun lr => m.rows.getD (m.l2pR.getD lr 0) []).toArray = RA at *
  have hpad := leftPad_add m
  have hinv : Inv { m with h := nh, rows := RA, dense := DA, l2pR := Array.ofFn (n := nh) fun i => i.val, p2lR := Array.ofFn (n := nh) fun i => i.val } := by
    refine ⟨hi.nd_le, rs, ⟨Array.size_ofFn, Array.size_ofFn, hi.maps_size.2.2.1, hi.maps_size.2.2.2⟩, ?_, ?_,
      hi.col_perm, hi.col_perm', ds, ?_, ?_, ?_, ?_, ?_⟩
    · intro i hi'
      replace hi' : i < nh := hi'
      show (Array.ofFn (n := nh) fun i => i.val).getD i 0 < nh ∧
        (Array.ofFn (n := nh) fun i => i.val).getD ((Array.ofFn (n := nh) fun i => i.val).getD i 0) 0 = i
      rw [id_getD nh i hi', id_getD nh i hi']; exact ⟨hi', rfl⟩
    · intro i hi'
      replace hi' : i < nh := hi'
      show (Array.ofFn (n := nh) fun i => i.val).getD i 0 < nh ∧
        (Array.ofFn (n := nh) fun i => i.val).getD ((Array.ofFn (n := nh) fun i => i.val).getD i 0) 0 = i
      rw [id_getD nh i hi', id_getD nh i hi']; exact ⟨hi', rfl⟩
    · intro i hi'
      replace hi' : i < DA.size := hi'
      show DA.getD i 0 < U64
      rw [ds] at hi'
      rw [dg' i hi']
      by_cases h1 : m.l2pR.getD (i / m.rww) 0 * m.rww + i % m.rww < m.dense.size
      · exact hi.dense_words _ h1
      · rw [arr_getD_ge _ _ _ (by omega)]; decide
    · intro p hp
      replace hp : p < nh := hp
      show (RA.getD p []).Pairwise (· < ·)
      rw [rg p hp]; exact hi.rows_sorted _ (hi.row_perm p (by omega)).1
    · intro p hp k hk
      replace hp : p < nh := hp
      replace hk : k ∈ RA.getD p [] := hk
      rw [rg p hp] at hk
      exact hi.rows_keys _ (hi.row_perm p (by omega)).1 k hk
    · intro p hp b hb
      replace hp : p < nh := hp
      replace hb : b < m.leftPad := hb
      show testBit64 (DA.getD (p * m.rww) 0) b = false
      have hr0 : 0 < m.rww := by omega
      have := dg p hp 0 hr0
      rw [Nat.add_zero] at this
      rw [this, Nat.add_zero]
      exact hi.pad_zero _ (hi.row_perm p (by omega)).1 b hb
    · intro hdis
      replace hdis : m.indexDisabled = false := hdis
      rw [hoff] at hdis; exact absurd hdis (by simp)
  refine ⟨hinv, ?_⟩
  rw [abs_eq m hi, abs_eq _ hinv, BitMat.ofFun_resize _ nh m.w hh (Nat.le_refl _)]
  congr 1
  apply BitMat.ofFun_congr
  intro r hr c hc
  have hr' : r < m.h := by omega
  unfold cell
  show _ = if m.w - c ≤ m.nd then
      testBit64 (DA.getD ((Array.ofFn (n := nh) fun i => i.val).getD r 0 * m.rww + (m.leftPad + (c - (m.w - m.nd))) / 64) 0)
        ((m.leftPad + (c - (m.w - m.nd))) % 64)
    else (RA.getD ((Array.ofFn (n := nh) fun i => i.val).getD r 0) []).contains (m.l2pC.getD c 0)
  rw [id_getD nh r hr]
  have hnd := hi.nd_le
  by_cases h0 : m.w - c ≤ m.nd
  · rw [if_pos h0, if_pos h0]
    have hw := (word_lt m m.h (m.l2pR.getD r 0) (c - (m.w - m.nd)) (hi.row_perm r hr').1 (by omega)).1
    rw [dg r hr _ hw]
  · rw [if_neg h0, if_neg h0, rg r hr]

theorem resize_narrow (m : Sparse) (hi : Inv m) (nh nw : Nat) (hh : nh ≤ m.h) (hw : nw < m.w) (hcols : m.w - nw ≥ m.nd)
    (hoff : m.indexDisabled = true) :
    ∃ m', m.resize nh nw = some m' ∧ Inv m' ∧ (abs m).resize nh nw = some (abs m') := by
  refine ⟨_, resize_eq_narrow m hi nh nw hh hw hcols hoff, ?_⟩
  have rg := list_toArray_getD (fun lr => (m.rows.getD (m.l2pR.getD lr 0) []).filter fun pc => m.p2lC.getD pc 0 < nw) nh
  have rs : (((List.range nh).map fun lr => (m.rows.getD (m.l2pR.getD lr 0) []).filter fun pc => m.p2lC.getD pc 0 < nw).toArray).size = nh := by simp
  generalize ((List.range nh).map fun lr => (m.rows.getD (m.l2pR.getD lr 0) []).filter fun pc => m.p2lC.getD pc 0 < nw).toArray = RB at *
  have hszw := hi.maps_size.2.2.1
  have hinv : Inv { m with h := nh, w := nw, rows := RB, dense := #[], nd := 0, l2pR := Array.ofFn (n := nh) fun i => i.val, p2lR := Array.ofFn (n := nh) fun i => i.val } := by
    refine ⟨Nat.zero_le _, rs, ⟨Array.size_ofFn, Array.size_ofFn, ?_, hi.maps_size.2.2.2⟩, ?_, ?_,
      hi.col_perm, hi.col_perm', ?_, ?_, ?_, ?_, ?_, ?_⟩
    · show m.l2pC.size ≥ nw
      omega
    · intro i hi'
      replace hi' : i < nh := hi'
      show (Array.ofFn (n := nh) fun i => i.val).getD i 0 < nh ∧
        (Array.ofFn (n := nh) fun i => i.val).getD ((Array.ofFn (n := nh) fun i => i.val).getD i 0) 0 = i
      rw [id_getD nh i hi', id_getD nh i hi']; exact ⟨hi', rfl⟩
    · intro i hi'
      replace hi' : i < nh := hi'
      show (Array.ofFn (n := nh) fun i => i.val).getD i 0 < nh ∧
        (Array.ofFn (n := nh) fun i => i.val).getD ((Array.ofFn (n := nh) fun i => i.val).getD i 0) 0 = i
      rw [id_getD nh i hi', id_getD nh i hi']; exact ⟨hi', rfl⟩
    · show (#[] : Array Nat).size = nh * ((0 + 63) / 64)
      simp
    · intro i hi'
      replace hi' : i < (#[] : Array Nat).size := hi'
      simp at hi'
    · intro p hp
      replace hp : p < nh := hp
      show (RB.getD p []).Pairwise (· < ·)
      rw [rg p hp]; exact (hi.rows_sorted _ (hi.row_perm p (by omega)).1).filter _
    · intro p hp k hk
      replace hp : p < nh := hp
      replace hk : k ∈ RB.getD p [] := hk
      show k < m.l2pC.size ∧ m.p2lC.getD k 0 < nw - 0
      rw [rg p hp, List.mem_filter, decide_eq_true_eq] at hk
      exact ⟨(hi.rows_keys _ (hi.row_perm p (by omega)).1 k hk.1).1, by omega⟩
    · intro p hp b hb
      replace hb : b < (64 - 0 % 64) % 64 := hb
      omega
    · intro hdis
      replace hdis : m.indexDisabled = false := hdis
      rw [hoff] at hdis; exact absurd hdis (by simp)
  refine ⟨hinv, ?_⟩
  rw [abs_eq m hi, abs_eq _ hinv, BitMat.ofFun_resize _ nh nw hh (Nat.le_of_lt hw)]
  congr 1
  apply BitMat.ofFun_congr
  intro r hr c hc
  replace hr : r < nh := hr
  replace hc : c < nw := hc
  have hr' : r < m.h := by omega
  unfold cell
  show _ = if nw - c ≤ 0 then
      testBit64 ((#[] : Array Nat).getD ((Array.ofFn (n := nh) fun i => i.val).getD r 0 * ((0 + 63) / 64) + ((64 - 0 % 64) % 64 + (c - (nw - 0))) / 64) 0)
        (((64 - 0 % 64) % 64 + (c - (nw - 0))) % 64)
    else (RB.getD ((Array.ofFn (n := nh) fun i => i.val).getD r 0) []).contains (m.l2pC.getD c 0)
  rw [id_getD nh r hr]
  have h1 : ¬ nw - c ≤ 0 := by omega
  have h2 : ¬ m.w - c ≤ m.nd := by omega
  rw [if_neg h1, if_neg h2, rg r hr, Bool.eq_iff_iff, List.contains_iff_mem, List.contains_iff_mem, List.mem_filter,
    decide_eq_true_eq, (hi.col_perm c (by omega)).2]
  exact ⟨fun h => ⟨h, hc⟩, fun h => h.1⟩

/-- shrinking: same width, or dropping at least all dense columns; only with the index off -/
theorem resize_refines (m : Sparse) (hi : Inv m) (nh nw : Nat) (hh : nh ≤ m.h) (hw : nw ≤ m.w)
    (hcols : nw = m.w ∨ m.w - nw ≥ m.nd) (hoff : m.indexDisabled = true) :
    ∃ m', m.resize nh nw = some m' ∧ Inv m' ∧ (abs m).resize nh nw = some (abs m') := by
  by_cases h : nw = m.w
  · subst h; exact resize_same m hi nh hh hoff
  · exact resize_narrow m hi nh nw hh (by omega) (hcols.resolve_left h) hoff

/-! ## Non-vacuity -/
example : (Sparse.new 3 3 1).get 2 2 = some false := by decide

/-- a state with the index on, a dense tail and a sparse column left: the hypotheses of `freeze_refines`
(and of `onesInCol_refines`, `addAssign_refines` with the index on) are satisfiable together with `Inv` -/
def demo1 : Sparse := ((Sparse.new 2 2 1).set 0 0 true).getD (Sparse.new 0 0 0)
def demo2 : Sparse := demo1.enableIndex.getD (Sparse.new 0 0 0)

example : Inv demo2 ∧ demo2.indexDisabled = false ∧ 0 < demo2.w - demo2.nd ∧ 0 < demo2.nd ∧
    ∃ m', demo2.freeze 0 = some m' ∧ Inv m' ∧ abs m' = abs demo2 ∧ m'.nd = 2 := by
  obtain ⟨hi0, _⟩ := new_inv 2 2 1 (by decide) (by decide) (by decide)
  obtain ⟨m1, h1, hi1, _⟩ := set_refines _ hi0 0 0 true (by decide) (by decide) (Or.inr rfl)
  have e1 : (Sparse.new 2 2 1).set 0 0 true = some demo1 := by decide
  rw [e1] at h1
  cases h1
  obtain ⟨m2, h2, hi2, _⟩ := enableIndex_refines demo1 hi1 (by decide) ⟨0, by decide, by decide⟩
  have e2 : demo1.enableIndex = some demo2 := by decide
  rw [e2] at h2
  cases h2
  refine ⟨hi2, by decide, by decide, by decide, ?_⟩
  exact freeze_refines demo2 hi2 (by decide) (by decide)

/-! ## Why `Inv` is stronger than the first draft

Each state below satisfies the drafted invariant (`h * rww ≤ dense.size`, index only a superset with
`idx.size = h`) and breaks the corresponding theorem. -/

def idA (n : Nat) : Array Nat := Array.ofFn (n := n) fun i => i.val

/-- a spare dense word with `nd = 64`: `freeze` does not re-space and the first dense cell changes -/
def cexSpare : Sparse :=
  { h := 1, w := 66, rows := #[[0]], dense := #[1, 0], index := some #[[0]],
    l2pR := idA 1, p2lR := idA 1, l2pC := ((idA 66).setIfInBounds 0 1).setIfInBounds 1 0,
    p2lC := ((idA 66).setIfInBounds 0 1).setIfInBounds 1 0, indexDisabled := false, nd := 64 }
example : cexSpare.get 0 2 = some true ∧ ((cexSpare.freeze 1).bind fun m' => m'.get 0 2) = some false := by decide

/-- an index entry that is not a row: `freeze` panics -/
def cexEntry : Sparse :=
  { h := 1, w := 1, rows := #[[0]], dense := #[], index := some #[[0, 7]],
    l2pR := idA 1, p2lR := idA 1, l2pC := idA 1, p2lC := idA 1, indexDisabled := false, nd := 0 }
example : cexEntry.freeze 0 = none := by decide

/-- a duplicate index entry: `onesInCol` lists the row twice (`colExact` holds) -/
example : ({ cexEntry with index := some #[[0, 0]] } : Sparse).onesInCol 0 0 1 = some [0, 0] := by decide

/-- more physical columns than index slots: `freeze` panics -/
example : ({ cexEntry with w := 2, index := some #[[0]], l2pC := idA 2, p2lC := idA 2 } : Sparse).freeze 1 = none := by
  decide

end Rq.C16s
