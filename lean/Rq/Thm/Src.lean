import Rq.Gen.Src
import Rq.Lemmas.Params
import Rq.Model.Wire
/-!
# The translated source equals the model (source-level tie)

`Rq.Src.*` (file `Rq/Gen/Src.lean`) is regenerated on every run by `bin/src2lean` from the *source
text* of /repo/src (checked-build semantics: every fixed-width `+ - *` checked, `as` narrowing by
`%`, asserts / `unreachable!()` / bad indices as `none`). The theorems below prove, for all
arguments of the Rust parameter types, that each generated function is the hand-written model
function the property theorems (C04, C05, C14, C15, C19) are stated about. For these functions the
model is therefore tied to the code by proof, not by sampling; the trusted part is the translator's
reading of Rust syntax (bin/src2lean, ~450 lines) and `Model/SrcPrelude.lean`.
-/
namespace Rq.SrcTie
open Rq.C15
open Rq.Src (cadd cmul csub cdiv cmod cdivCeil cidx cidxL forRet)

theorem intDivCeil_src (num denom : Nat) (hn : num < 2 ^ 64) :
    Src.intDivCeil num denom = Rq.intDivCeil num denom := by
  unfold Src.intDivCeil Rq.intDivCeil cdiv cadd U32
  by_cases hd : denom = 0
  · subst hd; simp
  · simp only [hd, if_false]
    by_cases hm : num % denom = 0
    · simp [hm]
    · have h2 : 2 ≤ denom := by
        rcases Nat.lt_or_ge denom 2 with h | h
        · have : denom = 1 := by omega
          subst this; exact absurd (Nat.mod_one num) hm
        · exact h
      have : num / denom + 1 < 18446744073709551616 := by
        have := Nat.div_le_self num denom
        have h3 : num / denom ≤ num / 2 := Nat.div_le_div_left h2 (by omega)
        omega
      simp [hm, this]

theorem rand_src (y i m : Nat) : Src.rand y i m = Rq.rand y i m := by
  unfold Src.rand Rq.rand cadd cidx cmod U32
  by_cases hm : m = 0
  · subst hm; simp
  · have hm' : m > 0 := Nat.pos_of_ne_zero hm
    simp only [hm, hm', if_true, if_false]
    by_cases h1 : (y >>> 8) + i < 4294967296 <;> by_cases h2 : (y >>> 16) + i < 4294967296 <;>
      by_cases h3 : (y >>> 24) + i < 4294967296 <;>
      simp [h1, h2, h3, Nat.mod_lt, Nat.not_le.mpr, Nat.not_lt.mp] <;> omega

theorem forRet_find {α : Type} (p : Nat → Prop) [DecidablePred p] (g : Nat → α) (n lo : Nat) :
    forRet (fun i => if p i then some (some (g i)) else some none) n lo
      = some (((List.range' lo n).find? (fun i => decide (p i))).map g) := by
  induction n generalizing lo with
  | zero => simp [forRet]
  | succ n ih =>
    rw [forRet, List.range'_succ, List.find?_cons]
    by_cases h : p lo
    · simp [h]
    · simp [h, ih]

theorem finish {α : Type} (x : Option α) :
    ((some x : Option (Option α)).bind fun r? => match r? with | some r => some r | none => none) = x := by
  cases x <;> rfl

theorem extK_src (k : Nat) : Src.extK k = Rq.extK k := by
  unfold Src.extK Rq.extK Rq.rowOf Src.maxK Rq.maxK
  by_cases h : k ≤ Gen.maxSourceSymbols
  · simp only [h, if_true]
    rw [forRet_find (fun i => tget t2KA i ≥ k) (fun i => tget t2KA i), List.range_eq_range']
    generalize List.find? _ _ = x
    cases x <;> rfl
  · simp [h]
theorem sysIndex_src (k : Nat) : Src.sysIndex k = Rq.sysIndex k := by
  unfold Src.sysIndex Rq.sysIndex Rq.rowOf Src.maxK Rq.maxK
  by_cases h : k ≤ Gen.maxSourceSymbols
  · simp only [h, if_true]
    rw [forRet_find (fun i => tget t2KA i ≥ k) (fun i => tget t2JA i), List.range_eq_range']
    generalize List.find? _ _ = x
    cases x <;> rfl
  · simp [h]
theorem numHdpc_src (k : Nat) : Src.numHdpc k = Rq.numHdpc k := by
  unfold Src.numHdpc Rq.numHdpc Rq.rowOf Src.maxK Rq.maxK
  by_cases h : k ≤ Gen.maxSourceSymbols
  · simp only [h, if_true]
    rw [forRet_find (fun i => tget t2KA i ≥ k) (fun i => tget t2HA i), List.range_eq_range']
    generalize List.find? _ _ = x
    cases x <;> rfl
  · simp [h]
theorem numLdpc_src (k : Nat) : Src.numLdpc k = Rq.numLdpc k := by
  unfold Src.numLdpc Rq.numLdpc Rq.rowOf Src.maxK Rq.maxK
  by_cases h : k ≤ Gen.maxSourceSymbols
  · simp only [h, if_true]
    rw [forRet_find (fun i => tget t2KA i ≥ k) (fun i => tget t2SA i), List.range_eq_range']
    generalize List.find? _ _ = x
    cases x <;> rfl
  · simp [h]
theorem numLt_src (k : Nat) : Src.numLt k = Rq.numLt k := by
  unfold Src.numLt Rq.numLt Rq.rowOf Src.maxK Rq.maxK
  by_cases h : k ≤ Gen.maxSourceSymbols
  · simp only [h, if_true]
    rw [forRet_find (fun i => tget t2KA i ≥ k) (fun i => tget t2WA i), List.range_eq_range']
    generalize List.find? _ _ = x
    cases x <;> rfl
  · simp [h]
theorem calcP1_src (k : Nat) : Src.calcP1 k = Rq.calcP1 k := by
  unfold Src.calcP1 Rq.calcP1 Src.maxK Rq.maxK
  by_cases h : k ≤ Gen.maxSourceSymbols
  · simp only [h, if_true]
    rw [forRet_find (fun i => tget p1KA i ≥ k) (fun i => tget p1VA i), List.range_eq_range']
    generalize List.find? _ _ = x
    cases x <;> rfl
  · simp [h]

theorem numInter_src (k : Nat) : Src.numInter k = Rq.numInter k := by
  unfold Src.numInter Rq.numInter
  rw [extK_src, numLdpc_src, numHdpc_src]
  unfold Rq.extK Rq.numLdpc Rq.numHdpc
  cases hr : rowOf k with
  | none => simp
  | some i =>
    have hi : i < 477 := ((rowOf_iff k i).mp hr).2.1
    have hL : L i < 65536 := (row_props i hi).2.2.2.2.2.2.2.2.2.1
    unfold L at hL
    simp only [Option.map_some, Option.bind_some, tget_t2K i hi, tget_t2S i hi, tget_t2H i hi, cadd]
    have h1 : K' i + S i < 4294967296 := by omega
    have h2 : K' i + S i + H i < 4294967296 := by omega
    simp [h1, h2]

theorem numPi_src (k : Nat) : Src.numPi k = Rq.numPi k := by
  unfold Src.numPi Rq.numPi
  rw [numInter_src, numLt_src]
  cases Rq.numInter k with
  | none => simp
  | some l =>
    cases Rq.numLt k with
    | none => simp
    | some w => simp [csub]

theorem partition_src (i j : Nat) (hi : i < 2 ^ 32) (hj : j < 2 ^ 32) :
    Src.partition i j = Rq.partition i j := by
  unfold Src.partition Rq.partition
  simp only [Option.bind_some]
  rw [intDivCeil_src i j (by omega)]
  by_cases hj0 : j = 0
  · subst hj0; simp [Rq.intDivCeil]
  · cases hd : Rq.intDivCeil i j with
    | none => simp
    | some il =>
      have h1 : i / j * j ≤ i := Nat.div_mul_le_self i j
      have h2 : i / j * j < 4294967296 := by omega
      have h3 : i - i / j * j ≤ j := by
        have := Nat.mod_lt i (Nat.pos_of_ne_zero hj0)
        have := Nat.div_add_mod' i j
        omega
      simp [cdiv, cmul, csub, hj0, h2, h1, h3]

theorem forRet_congr {α : Type} (b1 b2 : Nat → Option (Option α)) (n lo : Nat)
    (h : ∀ i, lo ≤ i → i < lo + n → b1 i = b2 i) : forRet b1 n lo = forRet b2 n lo := by
  induction n generalizing lo with
  | zero => simp [forRet]
  | succ n ih =>
    rw [forRet, forRet, h lo (Nat.le_refl _) (by omega), ih (lo + 1) (fun i h1 h2 => h i (by omega) (by omega))]

/-- general shape of a searching loop: the first index satisfying `p` decides -/
theorem forRet_first {α : Type} (p : Nat → Prop) [DecidablePred p] (g : Nat → Option α) (n lo : Nat) :
    forRet (fun i => if p i then (g i).map some else some none) n lo
      = match (List.range' lo n).find? (fun i => decide (p i)) with
        | none => some none
        | some i => (g i).map some := by
  induction n generalizing lo with
  | zero => simp [forRet]
  | succ n ih =>
    rw [forRet, List.range'_succ, List.find?_cons]
    by_cases h : p lo
    · simp only [h, if_true, decide_true]
      cases g lo <;> rfl
    · simp [h, ih]

def degLit : List Nat := [0, 5243, 529531, 704294, 791675, 844104, 879057, 904023, 922747, 937311, 948962, 958494, 966438, 973160, 978921, 983914, 988283, 992138, 995565, 998631, 1001391, 1003887, 1006157, 1008229, 1010129, 1011876, 1013490, 1014983, 1016370, 1017662, 1048576]

theorem degLit_eq : ∀ i, i < 31 → degLit[i]? = some (tb32 Gen.degP i) := by decide +kernel

theorem degLit_tget (i : Nat) (h : i < 31) : cidxL degLit i = some (tget degA i) := by
  unfold cidxL
  rw [degLit_eq i h, show degA = mkArr32 Gen.degP 31 from rfl, tget_mkArr32 _ _ _ h]

theorem deg_last : tget degA 30 = 1048576 := by
  rw [show degA = mkArr32 Gen.degP 31 from rfl, tget_mkArr32 _ _ _ (by omega)]; decide +kernel

theorem deg_src (v w : Nat) : Src.deg v w = Rq.deg v w := by
  unfold Src.deg Rq.deg
  by_cases hv : v < 1048576
  · have hv' : ¬ (v ≥ 1048576) := by omega
    simp only [hv, hv', if_true, if_false]
    show ((forRet (fun i2 => (cidxL degLit i2).bind fun t3 =>
        if v < t3 then ((csub w 2).bind fun t4 => some (some (min (i2 % 4294967296) t4))) else some none)
        (31 - 1) 1).bind _) = _
    rw [forRet_congr _ (fun i => if v < tget degA i then ((csub w 2).bind fun t4 => some (min (i % 4294967296) t4)).map some else some none) (31 - 1) 1
      (by
        intro i h1 h2
        rw [degLit_tget i (by omega)]
        simp only [Option.bind_some]
        by_cases h : v < tget degA i
        · simp only [h, if_true]; cases csub w 2 <;> rfl
        · simp only [h, if_false])]
    rw [forRet_first (fun i => v < tget degA i)]
    have hr : List.range' 1 (31 - 1) = (List.range 30).map (· + 1) := by decide
    rw [hr, List.find?_map]
    have hcomp : ((fun i => decide (v < tget degA i)) ∘ fun x => x + 1) = fun d => decide (v < tget degA (d + 1)) := rfl
    rw [hcomp]
    cases hf : (List.range 30).find? (fun d => decide (v < tget degA (d + 1))) with
    | none =>
      exfalso
      have := List.find?_eq_none.mp hf 29 (by simp)
      simp [deg_last] at this
      omega
    | some d =>
      have hd : d < 30 := by
        have := List.mem_of_find?_eq_some hf
        simpa using this
      have hm : (d + 1) % 4294967296 = d + 1 := Nat.mod_eq_of_lt (by omega)
      by_cases hw : w < 2
      · have : ¬ (2 ≤ w) := by omega
        simp [hw, csub, this]
      · have : 2 ≤ w := by omega
        simp [hw, csub, this, hm]
  · have hv' : v ≥ 1048576 := by omega
    simp [hv, hv']

theorem rand_lt (y i m r : Nat) (h : Rq.rand y i m = some r) : r < m := by
  unfold Rq.rand at h
  split at h
  · cases h
  · split at h
    · cases h
    · simp only [Option.some.injEq] at h; subst h; exact Nat.mod_lt _ (by omega)

theorem deg_small (v w : Nat) (hw : w < 2) : Rq.deg v w = none := by
  unfold Rq.deg; split <;> first | rfl | simp [hw]

set_option maxHeartbeats 1000000 in
theorem tuple_src (x w j p1 : Nat) (hx : x < 2 ^ 32) (hw : w < 2 ^ 32) (hj : j < 2 ^ 32)
    (hp : p1 < 2 ^ 32) :
    Src.tuple x w j p1 = (Rq.tuple x w j p1).map fun t => (t.d, t.a, t.b, t.d1, t.a1, t.b1) := by
  unfold Src.tuple Rq.tuple Rq.tupleWith
  simp (maxSteps := 2000000) only [rand_src, deg_src]
  rw [show U32 = 4294967296 from rfl]
  by_cases h1 : j * 997 < 4294967296
  swap
  · have hc : (if (53591 + j * 997) % 2 = 0 then 53591 + j * 997 + 1 else 53591 + j * 997) ≥ 4294967296 := by
      split <;> omega
    rw [show cmul 4294967296 j 997 = none from by simp [cmul, h1]]
    have hC : ((if (53591 + j * 997) % 2 = 0 then 53591 + j * 997 + 1 else 53591 + j * 997) ≥ 4294967296 ∨ 10267 * (j + 1) ≥ 4294967296 ∨ w = 0 ∨ p1 = 0) := Or.inl hc
    rw [if_pos hC]
    rfl
  rw [show cmul 4294967296 j 997 = some (j * 997) from by simp [cmul, h1], Option.bind_some]
  by_cases h2 : 53591 + j * 997 < 4294967296
  swap
  · have hc : (if (53591 + j * 997) % 2 = 0 then 53591 + j * 997 + 1 else 53591 + j * 997) ≥ 4294967296 := by
      split <;> omega
    rw [show cadd 4294967296 53591 (j * 997) = none from by simp [cadd, h2]]
    have hC : ((if (53591 + j * 997) % 2 = 0 then 53591 + j * 997 + 1 else 53591 + j * 997) ≥ 4294967296 ∨ 10267 * (j + 1) ≥ 4294967296 ∨ w = 0 ∨ p1 = 0) := Or.inl hc
    rw [if_pos hC]
    rfl
  rw [show cadd 4294967296 53591 (j * 997) = some (53591 + j * 997) from by simp [cadd, h2], Option.bind_some]
  have hA : (if (53591 + j * 997) % 2 = 0 then ((cadd 4294967296 (53591 + j * 997) 1).bind fun t7 => some t7)
      else some (53591 + j * 997))
      = some (if (53591 + j * 997) % 2 = 0 then 53591 + j * 997 + 1 else 53591 + j * 997) := by
    by_cases he : (53591 + j * 997) % 2 = 0
    · have : 53591 + j * 997 + 1 < 4294967296 := by omega
      simp [he, cadd, this]
    · simp [he]
  have haa : (if (53591 + j * 997) % 2 = 0 then 53591 + j * 997 + 1 else 53591 + j * 997) < 4294967296 := by
    split <;> omega
  generalize haadef : (if (53591 + j * 997) % 2 = 0 then 53591 + j * 997 + 1 else 53591 + j * 997) = aa at hA haa
  have h3 : j + 1 < 4294967296 := by omega
  rw [hA, Option.bind_some, show cadd 4294967296 j 1 = some (j + 1) from by simp [cadd, h3], Option.bind_some]
  by_cases h4 : 10267 * (j + 1) < 4294967296
  swap
  · have h4' : 10267 * (j + 1) ≥ 4294967296 := by omega
    rw [show cmul 4294967296 10267 (j + 1) = none from by simp [cmul, h4]]
    have hC : (aa ≥ 4294967296 ∨ 10267 * (j + 1) ≥ 4294967296 ∨ w = 0 ∨ p1 = 0) := Or.inr (Or.inl h4')
    rw [if_pos hC]
    rfl
  rw [show cmul 4294967296 10267 (j + 1) = some (10267 * (j + 1)) from by simp [cmul, h4], Option.bind_some]
  have h5 : x * aa < 18446744073709551616 := by
    have := Nat.mul_le_mul (show x ≤ 4294967295 by omega) (show aa ≤ 4294967295 by omega)
    omega
  have h6 : 10267 * (j + 1) + x * aa < 18446744073709551616 := by
    have := Nat.mul_le_mul (show x ≤ 4294967295 by omega) (show aa ≤ 4294967295 by omega)
    omega
  rw [show cmul 18446744073709551616 x aa = some (x * aa) from by simp [cmul, h5], Option.bind_some,
    show cadd 18446744073709551616 (10267 * (j + 1)) (x * aa) = some (10267 * (j + 1) + x * aa) from by simp [cadd, h6],
    Option.bind_some]
  have hnaa : ¬ (aa ≥ 4294967296) := by omega
  have hnbb : ¬ (10267 * (j + 1) ≥ 4294967296) := by omega
  simp only [Nat.mod_mod, hnaa, hnbb, false_or]
  by_cases hw0 : w = 0
  · subst hw0
    simp [deg_small]
  by_cases hp0 : p1 = 0
  · subst hp0
    simp [csub]
  have hw1 : 1 ≤ w := by omega
  have hp1 : 1 ≤ p1 := by omega
  simp only [hw0, hp0, false_or, if_false, csub, hw1, hp1, if_true, Option.bind_some]
  generalize (10267 * (j + 1) + x * aa) % 4294967296 = y
  cases hv : Rq.rand y 0 1048576 with
  | none => simp
  | some v =>
  simp only [Option.bind_some]
  cases hd : Rq.deg v w with
  | none => simp
  | some d =>
  cases hra : Rq.rand y 1 (w - 1) with
  | none => simp
  | some ra =>
  have hra' := rand_lt _ _ _ _ hra
  have hra'' : 1 + ra < 4294967296 := by omega
  cases hb : Rq.rand y 2 w with
  | none => simp [cadd, hra'']
  | some b =>
  simp only [Option.bind_some, cadd, hra'', if_true]
  cases hra1 : Rq.rand x 4 (p1 - 1) with
  | none =>
    by_cases hd4 : d < 4
    · cases h8 : Rq.rand x 3 2 <;> simp [hd4, h8]
    · simp [hd4]
  | some ra1 =>
  have h7 := rand_lt _ _ _ _ hra1
  have h7' : 1 + ra1 < 4294967296 := by omega
  cases hb1 : Rq.rand x 5 p1 with
  | none =>
    by_cases hd4 : d < 4
    · cases h8 : Rq.rand x 3 2 with
      | none => simp [hd4, h8]
      | some r3 =>
        have := rand_lt _ _ _ _ h8
        have h9 : 2 + r3 < 4294967296 := by omega
        simp [hd4, h8, h9, h7']
    · simp [hd4, h7']
  | some b1 =>
  by_cases hd4 : d < 4
  · cases h8 : Rq.rand x 3 2 with
    | none => simp [hd4, h8]
    | some r3 =>
      have := rand_lt _ _ _ _ h8
      have h9 : 2 + r3 < 4294967296 := by omega
      simp [hd4, h8, h9, h7']
  · simp [hd4, h7']


/-! ## wire formats and the configuration constructor (`base.rs`) -/

theorem and255 (x : Nat) : x &&& 255 = x % 256 := Nat.and_two_pow_sub_one_eq_mod x 8


theorem pidNew_src (sbn esi : Nat) :
    Src.pidNew sbn esi = (PayloadId.new? sbn esi).map fun p => (p.sbn, p.esi) := by
  unfold Src.pidNew PayloadId.new?
  by_cases h : esi < 16777216 <;> simp [h]


theorem pidSerialize_src (sbn esi : Nat) (hs : sbn < 2 ^ 8) (he : esi < 2 ^ 32) :
    Src.pidSerialize sbn esi = some (PayloadId.serialize { sbn, esi }) := by
  unfold Src.pidSerialize PayloadId.serialize
  simp only [and255, Nat.mod_mod]


theorem otiNew_src (f t z n al : Nat) (hf : f < 2 ^ 64) (ht : t < 2 ^ 16) (hz : z < 2 ^ 8)
    (hn : n < 2 ^ 16) (ha : al < 2 ^ 8) :
    Src.otiNew f t z n al = (Rq.otiNew f t z n al).map fun o => (o.f, o.t, o.z, o.n, o.al) := by
  unfold Src.otiNew Rq.otiNew maxTransferLength ceilDiv Src.maxK Rq.maxK
  by_cases h1 : f ≤ 942574504275
  swap
  · simp [h1]
  by_cases h2 : al = 0
  · subst h2; simp [h1, cmod]
  by_cases h3 : t % al = 0
  swap
  · simp [h1, h2, h3, cmod]
  by_cases h4 : t ≠ 0 ∧ z ≠ 0
  · obtain ⟨h4a, h4b⟩ := h4
    by_cases h5 : ((f + t - 1) / t + z - 1) / z ≤ Gen.maxSourceSymbols
    · simp [h1, h2, h3, cmod, cdivCeil, h4a, h4b, h5]
    · simp [h1, h2, h3, cmod, cdivCeil, h4a, h4b, h5]
  · have h4' : ¬ (t ≠ 0 ∧ z ≠ 0) := h4
    simp only [h1, h2, h3, cmod, h4', if_true, if_false, not_true, not_false_eq_true, Option.bind_some, Option.map_some]
    simp
    intro a b; exact absurd ⟨a, b⟩ h4


theorem otiSerialize_src (f t z n al : Nat) (hf : f < 2 ^ 64) (ht : t < 2 ^ 16) (hz : z < 2 ^ 8)
    (hn : n < 2 ^ 16) (ha : al < 2 ^ 8) :
    Src.otiSerialize f t z n al = some (Oti.serialize { f, t, z, n, al }) := by
  unfold Src.otiSerialize Oti.serialize
  simp only [and255, Nat.mod_mod]


theorem shl_small (b k w : Nat) (h : b * 2 ^ k < w) : (b <<< k) % w = b * 2 ^ k := by
  rw [Nat.shiftLeft_eq]; exact Nat.mod_eq_of_lt h


theorem cadd_ok (w a b : Nat) (h : a + b < w) : cadd w a b = some (a + b) := by
  unfold cadd; rw [if_pos h]


theorem pidDeserialize_src (b : List Nat) (hl : b.length = 4) (hb : ∀ x ∈ b, x < 2 ^ 8) :
    Src.pidDeserialize b = (PayloadId.deserialize b).map fun p => (p.sbn, p.esi) := by
  match b, hl with
  | [b0, b1, b2, b3], _ =>
    have h1 : b1 < 256 := hb b1 (by simp)
    have h2 : b2 < 256 := hb b2 (by simp)
    have h3 : b3 < 256 := hb b3 (by simp)
    clear hb
    unfold Src.pidDeserialize PayloadId.deserialize
    show ((some b0).bind fun t1 => (some b1).bind fun t2 => (some b2).bind fun t3 =>
      (cadd 4294967296 ((t2 <<< 16) % 4294967296) ((t3 <<< 8) % 4294967296)).bind fun t4 =>
      (some b3).bind fun t5 => (cadd 4294967296 t4 t5).bind fun t6 => some (t1, t6)) = _
    simp only [Option.bind_some]
    rw [shl_small b1 16 _ (by omega), shl_small b2 8 _ (by omega), cadd_ok _ _ _ (by omega), Option.bind_some,
      cadd_ok _ _ _ (by omega), Option.bind_some]
    simp [Nat.shiftLeft_eq]



theorem otiDeserialize_src (b : List Nat) (hl : b.length = 12) (hb : ∀ x ∈ b, x < 2 ^ 8) :
    Src.otiDeserialize b = (Oti.deserialize b).map fun o => (o.f, o.t, o.z, o.n, o.al) := by
  match b, hl with
  | [b0, b1, b2, b3, b4, b5, b6, b7, b8, b9, b10, b11], _ =>
    have h0 : b0 < 256 := hb b0 (by simp)
    have h1 : b1 < 256 := hb b1 (by simp)
    have h2 : b2 < 256 := hb b2 (by simp)
    have h3 : b3 < 256 := hb b3 (by simp)
    have h4 : b4 < 256 := hb b4 (by simp)
    have h6 : b6 < 256 := hb b6 (by simp)
    have h7 : b7 < 256 := hb b7 (by simp)
    have h9 : b9 < 256 := hb b9 (by simp)
    have h10 : b10 < 256 := hb b10 (by simp)
    clear hb
    unfold Src.otiDeserialize Oti.deserialize
    show ((some b0).bind fun t1 => (some b1).bind fun t2 =>
      (cadd 18446744073709551616 ((t1 <<< 32) % 18446744073709551616) ((t2 <<< 24) % 18446744073709551616)).bind fun t3 =>
      (some b2).bind fun t4 =>
      (cadd 18446744073709551616 t3 ((t4 <<< 16) % 18446744073709551616)).bind fun t5 =>
      (some b3).bind fun t6 =>
      (cadd 18446744073709551616 t5 ((t6 <<< 8) % 18446744073709551616)).bind fun t7 =>
      (some b4).bind fun t8 =>
      (cadd 18446744073709551616 t7 t8).bind fun t9 =>
      (some b6).bind fun t10 => (some b7).bind fun t11 =>
      (cadd 65536 ((t10 <<< 8) % 65536) t11).bind fun t12 =>
      (some b8).bind fun t13 => (some b9).bind fun t14 => (some b10).bind fun t15 =>
      (cadd 65536 ((t14 <<< 8) % 65536) t15).bind fun t16 =>
      (some b11).bind fun t17 => some (t9, t12, t13, t16, t17)) = _
    simp only [Option.bind_some]
    rw [shl_small b0 32 _ (by omega), shl_small b1 24 _ (by omega), cadd_ok _ _ _ (by omega), Option.bind_some,
      shl_small b2 16 _ (by omega), cadd_ok _ _ _ (by omega), Option.bind_some,
      shl_small b3 8 _ (by omega), cadd_ok _ _ _ (by omega), Option.bind_some,
      cadd_ok _ _ _ (by omega), Option.bind_some,
      shl_small b6 8 _ (by omega), cadd_ok _ _ _ (by omega), Option.bind_some,
      shl_small b9 8 _ (by omega), cadd_ok _ _ _ (by omega), Option.bind_some]
    simp [Nat.shiftLeft_eq]


end Rq.SrcTie
