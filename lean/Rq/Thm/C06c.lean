import Rq.Thm.C02b
import Rq.Thm.C06
import Rq.Lemmas.LeftInv
/-!
# C06 (continued) — A(K') is invertible: a kernel-checked anchor for the smallest block sizes

`∀ K' ∈ Table 2, A(K') invertible` is out of reach of kernel evaluation (dimension up to 57 326) and is
decided per K' by the compiled model over all 477 K' (engine `inter`). Here the statement is
*proved in the kernel* for the smallest extended sizes, by exhibiting a left inverse B (computed
outside, checked inside: B·A = I over GF(256), evaluated on the packed tables), so that the
hypotheses `Determined` / `GoodEnc` of the decoder and encoder theorems (C01, C02, C04, C06, C08,
C09, C18) are known to be satisfiable by real encoders — they are not vacuous.

Structure of the proof (per K'): (1) the model's `constraintMatrix` is evaluated once by the kernel
and equals the literal system `a10`; (2) the packed byte table `AP10` is the matrix of `a10`
(`checkCoef`); (3) the packed table `BP10` (Gauss–Jordan inverse, computed by an unverified program
outside) satisfies `BP10 · AP10 = I` (`checkInvRows`, 27³ products through `gmulP`);
(4) `leftInverse_determined` (`Rq/Lemmas/LeftInv.lean`) turns the left inverse into `Determined`.
-/
namespace Rq.C06
open Rq Rq.C15

set_option maxRecDepth 100000

/-! ## K' = 10 -/

/-- the code parameters of K' = 10 (first row of Table 2) -/
def sp10 : SysParams := { kp := 10, j := 254, s := 7, h := 10, w := 17, l := 27, p := 10, p1 := 11 }

theorem rowOf_10 : rowOf 10 = some 0 := by
  rw [rowOf_iff]
  exact ⟨by decide, by decide, by decide +kernel, fun j hj => by omega⟩

theorem sysParams_10 : sysParams 10 = some sp10 := by
  rw [sysParams_row 10 0 rowOf_10]
  decide +kernel

/-- binary rows of A(10): 7 LDPC rows, then the G_ENC rows of ISI 0..9 (columns of the ones) -/
def bin10 : Array (List Nat) :=
  #[[18, 17, 10, 7, 6, 5, 0], [19, 18, 11, 8, 6, 1, 0], [20, 19, 12, 9, 7, 2, 1, 0], [21, 20, 13, 8, 3, 2,
  1], [22, 21, 14, 9, 7, 4, 3, 2], [23, 22, 15, 8, 5, 4, 3], [24, 23, 16, 9, 6, 5, 4], [23, 18, 13, 9], [21,
  20, 14, 8, 2, 13, 7, 1, 12], [18, 17, 2, 13, 7, 1, 12, 6, 0, 11, 5, 16, 10, 4, 15, 9, 3], [20, 17, 25, 5,
  4], [26, 20, 25, 8, 7], [24, 21, 15, 7], [19, 26, 22, 13, 9, 5], [22, 19, 12, 6], [25, 17, 20, 9, 4, 16],
  [22, 21, 14, 11, 8, 5, 2, 16]]

/-- HDPC rows of A(10) (10 × 27 bytes) -/
def hd10 : Array (Array Nat) :=
  #[#[250, 243, 247, 245, 244, 244, 244, 122, 61, 144, 72, 36, 18, 9, 4, 2, 1, 1, 0, 0, 0, 0, 0, 0, 0, 0, 0],
  #[151, 197, 236, 118, 181, 212, 106, 53, 26, 13, 136, 68, 34, 17, 8, 4, 2, 0, 1, 0, 0, 0, 0, 0, 0, 0, 0],
  #[24, 12, 6, 3, 143, 201, 234, 117, 180, 90, 45, 152, 76, 38, 19, 9, 4, 0, 0, 1, 0, 0, 0, 0, 0, 0, 0],
  #[18, 9, 138, 69, 172, 86, 165, 220, 224, 112, 56, 28, 128, 64, 32, 16, 8, 0, 0, 0, 1, 0, 0, 0, 0, 0, 0],
  #[27, 131, 207, 103, 189, 94, 47, 153, 194, 239, 119, 59, 29, 128, 64, 32, 16, 0, 0, 0, 0, 1, 0, 0, 0, 0,
  0], #[44, 22, 133, 204, 232, 116, 58, 147, 199, 237, 248, 124, 62, 31, 129, 64, 32, 0, 0, 0, 0, 0, 1, 0, 0,
  0, 0], #[238, 119, 181, 90, 45, 152, 76, 38, 19, 135, 205, 232, 116, 58, 29, 128, 64, 0, 0, 0, 0, 0, 0, 1,
  0, 0, 0], #[48, 24, 12, 6, 3, 143, 201, 100, 50, 25, 130, 207, 233, 116, 58, 29, 128, 0, 0, 0, 0, 0, 0, 0,
  1, 0, 0], #[168, 84, 42, 21, 132, 66, 33, 158, 79, 39, 19, 135, 205, 232, 116, 58, 29, 0, 0, 0, 0, 0, 0, 0,
  0, 1, 0], #[235, 117, 58, 29, 128, 64, 32, 16, 8, 4, 2, 1, 142, 201, 234, 117, 58, 0, 0, 0, 0, 0, 0, 0, 0,
  0, 1]]

/-- the standard system A(10) -/
def a10 : System := { l := 27, bin := bin10, nLdpc := 7, hdpc := hd10 }

/-- A(10) as a packed 27 × 27 byte table (row order LDPC, HDPC, G_ENC) -/
def AP10 : Nat := 0x101000000000100010000010000010000010000010000000100000000010000010100000000000001000000000100000000000000000100000100000000000001000000000001000000000000010000000100000100000000000100000001000000010000000000000001000001000000000001000000000000000100000000000000010100000000010000000000000000000000010100000000000000000100000000010000010000000000000000000000010100000000000000000000000001010101000101010101000101010101010101000000000001010000000000010101000000010100000000010100000000010000000001000000000100000001000000000000000000010000000000000000003a75eac98e01020408102040801d3a75eb000100000000000000001d3a74e8cd8713274f9e214284152a54a800000100000000000000801d3a74e9cf82193264c98f03060c18300000000100000000000040801d3a74e8cd8713264c982d5ab577ee000000000100000000002040811f3e7cf8edc7933a74e8cc85162c00000000000100000000102040801d3b77efc2992f5ebd67cf831b0000000000000100000008102040801c3870e0dca556ac458a091200000000000000010000040913264c982d5ab475eac98f03060c1800000000000000000100020408112244880d1a356ad4b576ecc5970000000000000000000101020409122448903d7af4f4f4f5f7f3fa000001010000000000000100000000000001000001010100000000000000010100000000000001000000000000010000010101000000000000000101000000000000010000000001000100000101010000000000000001010000000000000100000000010000000001010100000000000000010100000000000001000001000100000000010101000000000000000101000000000000010000010001000000000101000000000000000001010000000000000100000101010000000001

/-- the inverse of A(10) over GF(256) as a packed 27 × 27 byte table (computed outside the kernel) -/
def BP10 : Nat := 0xd1030512e6eda46454a3fe4aa30655ca1a6752f845e073dadeae3bac3d1d96b22b074cad69bd1045f6732d7f7f7eb8f7683ca26195cee2179805ac6b1b48dd0a6e672436693bc957972389b5a30b78b26751c52c2d530625df46722be684c4607a99e24c6ad760506e57b455e28bb3ddf8f01871424a2d630c11ca2c6ccec26af4afe89cd17188805b03e6e07083838c9096a80fe596a7261c4bdbef9a692321d8805273471c9e7c5dffd72f60526d584e1196dff5abf384c3c9db5f7a1e73826718dc3ae2a850bb95cd23d97b8a53f0b8d5a68451e6511376cc0f6d37d45be74afeb943a6dd95a07d5eab1391b23398ecd063731b286ebf3f20c991335104c29c733763508d9a7dd294fe081e697e71f1dba1c7f84976891c4e93729351a4d7811632c90ef66a97d6138c040129ac1cafb449ad3c5c3d4eaa47a1e02f7501597db21610ca56571235b33a1d5cc2a1df7ead255bef24d90c4b248e761a7b7d538bc572a7067fbec83074f2f146d5cc582de13c562011e1831976c88ce19fee3a9eb12823a528cbdfe75a249e684125d988dcf818e2daf113fa84fe5caae7960453e32be68d0221d5ab67da0f3b8d45ac676b4b8487983c50f0aa1ccf3b5b5676905ba7b4bc4db3d57aeeb37482e632c3d40186c4bde657d35f2016bc91064510f27217387d405e8dc07aae0c7ab3cb3676fbfc46d9c05b2de53c52221fe48f187871c09fe264b78464e5d355f377eeb136a8ea3cd7132e9355eb7cf73474d1250e16bc22c23933de0aedf40dc2035a9304d0e411cf38790af217e96213f8cfb234fa19402db34718468753223b7ce152ea9687a7650df17b83b55941765faa1ffd4c92b681da5b051774e03e4b731a296fbf3e20c890325104c29c733763508d9a7dd395fe091f685979d29bc41587707a058eebb16b668b406b666f751b6d01d0f2e1f54dba060c2d7cc9b28e2b1c1c4ac10690f8518510d45c112f6b7d2dfa35a907c187f7beb968bc6234469dfcfa602a65e81f16e88ea0

/-- the model builds exactly this system (one kernel evaluation of the model) -/
theorem cm10 : constraintMatrix sp10 (List.range 10) = some (bin10, hd10) := by decide +kernel

theorem full10 : fullSystem sp10 (List.range 10) = some a10 := by
  unfold fullSystem
  rw [cm10]
  rfl

theorem coef10 : checkCoef a10 AP10 = true := by decide +kernel

/-- `BP10 · AP10 = I` -/
theorem inv10 : checkInvRows 27 27 AP10 BP10 0 27 = true := by decide +kernel

theorem wf10 : Rq.C02.WfSystem a10 :=
  Rq.C02.fullSystem_wf 10 sp10 sysParams_10 (List.range 10)
    (fun x hx => by have := List.mem_range.mp hx; omega) a10 full10

theorem determined_a10 : Determined a10 := by
  apply leftInverse_determined a10 wf10.toSys AP10 BP10 coef10
  intro i hi j hj
  exact checkInvRows_spec 27 27 AP10 BP10 0 27 inv10 i (Nat.zero_le i) (by have : a10.l = 27 := rfl; omega) j hj

/-- **A(10) is invertible**: the standard system of K' = 10 is determined -/
theorem determined_10 : ∃ a, fullSystem sp10 (List.range 10) = some a ∧ Determined a :=
  ⟨a10, full10, determined_a10⟩

/-- hence a good encoder exists for every block of 10 one-byte symbols: the hypotheses of the
encoder / decoder theorems are satisfiable -/
theorem goodEnc_exists_10 (src : List Sym) (hlen : src.length = 10) (hwf : ∀ s ∈ src, WfSym 1 s) :
    ∃ e : BlockEnc, e.src = src ∧ GoodEnc e 1 := by
  have hb : HdpcBytes a10 := fun row hr => (wf10.hdpc_wf row hr).2
  have hrhs : WfRhs a10 1 (createD sp10 1 src) := by
    refine ⟨?_, fun s hs' => ?_⟩
    · have hr : a10.rows = 27 := rfl
      rw [hr]
      simp [createD, hlen, sp10]
    · unfold createD at hs'
      rcases List.mem_append.mp hs' with hs' | hs'
      · rcases List.mem_append.mp hs' with hs' | hs'
        · rw [List.eq_of_mem_replicate hs']; exact Rq.C04.wf_zeroSym _
        · exact hwf s hs'
      · rw [List.eq_of_mem_replicate hs']; exact Rq.C04.wf_zeroSym _
  obtain ⟨c, hc, hsol⟩ := consistent_of_determined_square a10 hb rfl determined_a10 1 _ hrhs
  refine ⟨{ sbn := 0, t := 1, sp := sp10, src := src, c := c }, rfl,
    ⟨by decide, rfl, ?_, hwf, hc, ⟨a10, full10, hsol⟩, ⟨a10, full10, determined_a10⟩⟩⟩
  show sysParams src.length = some sp10
  rw [hlen]
  exact sysParams_10

/-! ## K' = 12 -/

/-- the code parameters of K' = 12 (second row of Table 2) -/
def sp12 : SysParams := { kp := 12, j := 630, s := 7, h := 10, w := 19, l := 29, p := 10, p1 := 11 }

theorem rowOf_12 : rowOf 12 = some 1 := by
  rw [rowOf_iff]
  exact ⟨by decide, by decide, by decide +kernel, fun j hj => by
    have : j = 0 := by omega
    subst this
    decide +kernel⟩

theorem sysParams_12 : sysParams 12 = some sp12 := by
  rw [sysParams_row 12 1 rowOf_12]
  decide +kernel

/-- binary rows of A(12): 7 LDPC rows, then the G_ENC rows of ISI 0..11 (columns of the ones) -/
def bin12 : Array (List Nat) :=
  #[[20, 19, 12, 10, 7, 6, 5, 0], [21, 20, 13, 11, 8, 6, 1, 0], [22, 21, 14, 9, 7, 2, 1, 0], [23, 22, 15, 10,
  8, 3, 2, 1], [24, 23, 16, 11, 9, 7, 4, 3, 2], [25, 24, 17, 10, 8, 5, 4, 3], [26, 25, 18, 11, 9, 6, 5, 4],
  [25, 20, 5, 7, 9, 11], [23, 22, 17, 2, 6, 10, 14], [21, 20, 19, 16, 15], [19, 27, 14, 1, 7, 13], [28, 22,
  27, 0, 8], [26, 23, 8, 5], [21, 28, 24, 1, 5], [24, 21, 5, 12, 0], [27, 19, 22, 2, 0, 17], [24, 23, 6, 2,
  17, 13, 9], [25, 26, 17, 8], [25, 27, 14, 7, 0, 12, 5, 17, 10, 3]]

/-- HDPC rows of A(12) (10 × 29 bytes) -/
def hd12 : Array (Array Nat) :=
  #[#[155, 77, 168, 84, 42, 155, 77, 168, 84, 42, 21, 132, 66, 33, 16, 8, 4, 2, 1, 1, 0, 0, 0, 0, 0, 0, 0, 0,
  0], #[85, 164, 82, 41, 20, 10, 5, 140, 200, 100, 50, 25, 130, 65, 32, 16, 8, 4, 2, 0, 1, 0, 0, 0, 0, 0, 0,
  0, 0], #[205, 232, 116, 58, 29, 128, 64, 32, 16, 8, 4, 2, 1, 142, 71, 35, 17, 8, 4, 0, 0, 1, 0, 0, 0, 0, 0,
  0, 0], #[61, 144, 72, 36, 18, 9, 4, 2, 143, 201, 234, 117, 58, 29, 128, 64, 32, 16, 8, 0, 0, 0, 1, 0, 0, 0,
  0, 0, 0], #[69, 172, 86, 165, 220, 224, 112, 56, 28, 128, 206, 233, 116, 58, 29, 128, 64, 32, 16, 0, 0, 0,
  0, 1, 0, 0, 0, 0, 0], #[144, 72, 170, 85, 42, 21, 132, 204, 102, 51, 151, 197, 236, 118, 59, 29, 128, 64,
  32, 0, 0, 0, 0, 0, 1, 0, 0, 0, 0], #[139, 203, 235, 117, 180, 90, 45, 152, 76, 38, 19, 135, 205, 232, 116,
  58, 29, 128, 64, 0, 0, 0, 0, 0, 0, 1, 0, 0, 0], #[182, 91, 163, 223, 225, 254, 127, 63, 145, 198, 99, 49,
  150, 197, 236, 118, 59, 29, 128, 0, 0, 0, 0, 0, 0, 0, 1, 0, 0], #[185, 210, 105, 186, 93, 160, 80, 40, 20,
  132, 204, 102, 51, 151, 197, 236, 118, 59, 29, 0, 0, 0, 0, 0, 0, 0, 0, 1, 0], #[124, 176, 214, 107, 187,
  211, 231, 253, 240, 120, 60, 30, 15, 7, 141, 200, 234, 117, 58, 0, 0, 0, 0, 0, 0, 0, 0, 0, 1]]

/-- the standard system A(12) -/
def a12 : System := { l := 29, bin := bin12, nLdpc := 7, hdpc := hd12 }

/-- A(12) as a packed 29 × 29 byte table (row order LDPC, HDPC, G_ENC) -/
def AP12 : Nat := 0x100010000000000000001000001000100010000010001000100000100000101000000000000000100000000000000000100000000000000000000000001010000000000010000000100000001000001000000010000000100000000010000010001000000000000000000000000000001000100000000010000010000000000000000010000000000000100000000010100000001000001000000000000000000000000000000010000000100000001000001000000000000000000000000000001000001000000000001010000000001000000000000000000000000000100000000000000010001000000000000000100000000010100000000000100000000000100000000000000000101010000010100000000000000000000000000000000000000000101000000000100000100000001000000010000000100000000000100000000010000000000000000010001000100010000000000010000000000000000003a75eac88d070f1e3c78f0fde7d3bb6bd6b07c000100000000000000001d3b76ecc5973366cc84142850a05dba69d2b900000100000000000000801d3b76ecc5963163c6913f7ffee1dfa35bb60000000100000000000040801d3a74e8cd8713264c982d5ab475ebcb8b000000000100000000002040801d3b76ecc5973366cc84152a55aa489000000000000100000000102040801d3a74e9ce801c3870e0dca556ac450000000000000100000008102040801d3a75eac98f020409122448903d0000000000000001000004081123478e01020408102040801d3a74e8cd0000000000000000010002040810204182193264c88c050a142952a455000000000000000000010102040810214284152a54a84d9b2a54a84d9b0000010100000000000001000000000000010001000001010100000000000000010100000000000001000000000000010001000001010100000000000000010100000000000001000000000100010001000001010100000000000000010100000000000001000000000100010000000001010100000000000000010100000000000001000000000100010000000001010100000000000000010100000000000001000100000100010000000001010000000000000000010100000000000001000100000101010000000001

/-- the inverse of A(12) over GF(256) as a packed 29 × 29 byte table (computed outside the kernel) -/
def BP12 : Nat := 0x2ab88c2439e1b7f89af77127186c6e2994c416d592f961fd3db308f2b0cae6061dba62661a839e0670784f775e1abf1d4d9a8bf7f531e8f4ff8bf9c46bc0789cbf5c535f3f0dc036827a0a4ff6dc1f20f8b23793c6a1ec490c0cf2c55d2f6047641c173d9c619335a7dd6cbd67428223bbe878b69c2d7f55eb14ebb0c3cd8a06a4ba402ff4b56cf826bf861e6bc0c309e4f6b96d2f4c4c6b5c84b024461001d332bc70bbae9e39013aebb8544a2249ac98818cb3240d3a4fd3d2beffdaaf6d423842eefe52ca002d4b790ae500e14e8d8d589ca8d93cd2119f9991d424dc30021fc16752f3c12920366a7ea38871701f05bc1d666e8fca2a22a004ab8dd1d0c065d6739dcbfd5cb5aa17f6941317193cc5e55345da8b3574cfc9b28d33ecc4350217377d06aaccf15138607173f8c9c575c24aaf3c398fc6592958d30e7b7d2d458c141e3b71e1abdc67d9da7318fa93b8a266d7612c675d7f4fd0023b02ff71991bc0324a2efb0d29326983f956f77e12b3ab1c980a4597a61534d5368b117ca2f053e67cb3717fe284e75b2a54cf378843ebc2215a31f15efd87201e5bbd4b8c117b2a4083a61c008d472faffda272583924b1b83e54d0cb1846f92bca0c8d5aa07bd427a3b72f36007e8f443fb8b0dfa28a4c5c7993c29fdd091abbce4b2e7597ce6043357a33e96e27bf3be2fde07fab579e8499f22b2cd380ef42d358688347878cfd323f870a932c35d5727331f89b46cc8fceaa835b6878772a615a109629c6135fb0e879fd530f437d313bfb2e910746b6211093bbdde1fa48ed7e80c8b041929d8ceb26a3fae1ddbfe744c327d9fb13ac5089d675269657495761095876972ce8322cc41d480ce4d331cbcfb04d8ba80179469c1e61e65f4ceae8b9ac88b9036ba67771fc6aa5b1c296bcf842cc439510bd17d444431b92f1edc9972a34dd68085f88f7eeaa5b1a6fc4a4f43f6fdf957cf3e29666fd93a9b73331c009ef492bf30630b49333248327e4fcf87ca4a048abbdd1bf87c0a0a96ab7b92c66cae703d20fd15062b0547ba3739809b2dd672d5ebd93d6b3d699d56ef80095c81a201949aaf90c56fec55f1329fdc164fff6c853300999eb987b5aa71dccae3a62b94266495b91fcf930e2347ef99eacca14339cc1e046f90538cb4f69ba0c93aa52954521d67d69

/-- the model builds exactly this system (one kernel evaluation of the model) -/
theorem cm12 : constraintMatrix sp12 (List.range 12) = some (bin12, hd12) := by decide +kernel

theorem full12 : fullSystem sp12 (List.range 12) = some a12 := by
  unfold fullSystem
  rw [cm12]
  rfl

theorem coef12 : checkCoef a12 AP12 = true := by decide +kernel

/-- `BP12 · AP12 = I` -/
theorem inv12 : checkInvRows 29 29 AP12 BP12 0 29 = true := by decide +kernel

theorem wf12 : Rq.C02.WfSystem a12 :=
  Rq.C02.fullSystem_wf 12 sp12 sysParams_12 (List.range 12)
    (fun x hx => by have := List.mem_range.mp hx; omega) a12 full12

theorem determined_a12 : Determined a12 := by
  apply leftInverse_determined a12 wf12.toSys AP12 BP12 coef12
  intro i hi j hj
  exact checkInvRows_spec 29 29 AP12 BP12 0 29 inv12 i (Nat.zero_le i) (by have : a12.l = 29 := rfl; omega) j hj

/-- **A(12) is invertible**: the standard system of K' = 12 is determined -/
theorem determined_12 : ∃ a, fullSystem sp12 (List.range 12) = some a ∧ Determined a :=
  ⟨a12, full12, determined_a12⟩

/-- hence a good encoder exists for every block of 12 one-byte symbols: the hypotheses of the
encoder / decoder theorems are satisfiable -/
theorem goodEnc_exists_12 (src : List Sym) (hlen : src.length = 12) (hwf : ∀ s ∈ src, WfSym 1 s) :
    ∃ e : BlockEnc, e.src = src ∧ GoodEnc e 1 := by
  have hb : HdpcBytes a12 := fun row hr => (wf12.hdpc_wf row hr).2
  have hrhs : WfRhs a12 1 (createD sp12 1 src) := by
    refine ⟨?_, fun s hs' => ?_⟩
    · have hr : a12.rows = 29 := rfl
      rw [hr]
      simp [createD, hlen, sp12]
    · unfold createD at hs'
      rcases List.mem_append.mp hs' with hs' | hs'
      · rcases List.mem_append.mp hs' with hs' | hs'
        · rw [List.eq_of_mem_replicate hs']; exact Rq.C04.wf_zeroSym _
        · exact hwf s hs'
      · rw [List.eq_of_mem_replicate hs']; exact Rq.C04.wf_zeroSym _
  obtain ⟨c, hc, hsol⟩ := consistent_of_determined_square a12 hb rfl determined_a12 1 _ hrhs
  refine ⟨{ sbn := 0, t := 1, sp := sp12, src := src, c := c }, rfl,
    ⟨by decide, rfl, ?_, hwf, hc, ⟨a12, full12, hsol⟩, ⟨a12, full12, determined_a12⟩⟩⟩
  show sysParams src.length = some sp12
  rw [hlen]
  exact sysParams_12

end Rq.C06
