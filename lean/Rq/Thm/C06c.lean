import Rq.Thm.Cert.K10
import Rq.Thm.Cert.K12
import Rq.Thm.Cert.K18
import Rq.Thm.Cert.K20
import Rq.Thm.Cert.K26
import Rq.Thm.Cert.K30
import Rq.Thm.Cert.K32
import Rq.Thm.Cert.K36
import Rq.Thm.Cert.K42
import Rq.Thm.Cert.K46
import Rq.Thm.Cert.K48
import Rq.Thm.Cert.K49
/-!
# C06 (continued) — A(K') is invertible: kernel-checked anchors for the smallest block sizes

`∀ K' ∈ Table 2, A(K') invertible` is out of reach of kernel evaluation (dimension up to 57 326) and is
decided per K' by the compiled model over all 477 K' (engine `inter`). Here the statement is
*proved in the kernel* for the smallest extended sizes (see `certified_sizes`), one generated module per K'
(`Rq/Thm/Cert/K<K'>.lean`, generator `gencert.py`, shared lemmas `Rq/Thm/Cert/Common.lean`): a left
inverse B is computed outside and checked inside (B·A = I over GF(256)), so that the hypotheses
`Determined` / `GoodEnc` of the decoder and encoder theorems (C01, C02, C04, C06, C08, C09, C18) are
known to be satisfiable by real encoders — they are not vacuous.
-/
namespace Rq.C06
open Rq

/-- **the certified sizes**: for each of them the standard system exists and is determined -/
theorem certified_sizes : ∀ k ∈ [10, 12, 18, 20, 26, 30, 32, 36, 42, 46, 48, 49],
    ∃ sp, sysParams k = some sp ∧ ∃ a, fullSystem sp (List.range k) = some a ∧ Determined a := by
  intro k hk
  simp only [List.mem_cons, List.not_mem_nil, or_false] at hk
  rcases hk with rfl | rfl | rfl | rfl | rfl | rfl | rfl | rfl | rfl | rfl | rfl | rfl
  · exact ⟨_, Rq.Cert.sysParams_10, Rq.Cert.determined_10⟩
  · exact ⟨_, Rq.Cert.sysParams_12, Rq.Cert.determined_12⟩
  · exact ⟨_, Rq.Cert.sysParams_18, Rq.Cert.determined_18⟩
  · exact ⟨_, Rq.Cert.sysParams_20, Rq.Cert.determined_20⟩
  · exact ⟨_, Rq.Cert.sysParams_26, Rq.Cert.determined_26⟩
  · exact ⟨_, Rq.Cert.sysParams_30, Rq.Cert.determined_30⟩
  · exact ⟨_, Rq.Cert.sysParams_32, Rq.Cert.determined_32⟩
  · exact ⟨_, Rq.Cert.sysParams_36, Rq.Cert.determined_36⟩
  · exact ⟨_, Rq.Cert.sysParams_42, Rq.Cert.determined_42⟩
  · exact ⟨_, Rq.Cert.sysParams_46, Rq.Cert.determined_46⟩
  · exact ⟨_, Rq.Cert.sysParams_48, Rq.Cert.determined_48⟩
  · exact ⟨_, Rq.Cert.sysParams_49, Rq.Cert.determined_49⟩

/-! the names used by the other files and scripts -/

abbrev sp10 := Rq.Cert.sp10
abbrev sp12 := Rq.Cert.sp12
theorem sysParams_10 : sysParams 10 = some sp10 := Rq.Cert.sysParams_10
theorem sysParams_12 : sysParams 12 = some sp12 := Rq.Cert.sysParams_12
theorem determined_10 : ∃ a, fullSystem sp10 (List.range 10) = some a ∧ Determined a := Rq.Cert.determined_10
theorem determined_12 : ∃ a, fullSystem sp12 (List.range 12) = some a ∧ Determined a := Rq.Cert.determined_12

/-- a good encoder exists for every block of 10 one-byte symbols (any symbol size: `Rq.Cert.goodEnc_exists_10`) -/
theorem goodEnc_exists_10 (src : List Sym) (hlen : src.length = 10) (hwf : ∀ s ∈ src, WfSym 1 s) :
    ∃ e : BlockEnc, e.src = src ∧ GoodEnc e 1 := Rq.Cert.goodEnc_exists_10 1 (by decide) src hlen hwf

/-- a good encoder exists for every block of 12 one-byte symbols (any symbol size: `Rq.Cert.goodEnc_exists_12`) -/
theorem goodEnc_exists_12 (src : List Sym) (hlen : src.length = 12) (hwf : ∀ s ∈ src, WfSym 1 s) :
    ∃ e : BlockEnc, e.src = src ∧ GoodEnc e 1 := Rq.Cert.goodEnc_exists_12 1 (by decide) src hlen hwf

end Rq.C06
