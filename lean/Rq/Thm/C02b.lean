import Rq.Thm.C02
import Rq.Lemmas.GJOracle
import Rq.Lemmas.MatrixSpec
/-!
# C02 (continued) — the rank oracle meets the solver specification

`solveSystem` (`Rq/Model/Oracle.lean`) runs Gauss–Jordan elimination over GF(256) on dense byte rows
(`gaussJordan`, `Rq/Model/Solve.lean`) and re-checks its answer. C02 already proves that a
`singular` verdict carries a verified kernel vector and that a `solved` verdict satisfies every
row. This file closes the remaining gap: a `solved` verdict implies that the system is
**determined** (the elimination found a pivot in every column, and row operations preserve the
kernel), and on consistent right-hand sides the oracle never reports an internal error. Together:
the oracle itself is an instance of `SolverSpec`, so every decoder theorem applies to it
unconditionally and the correspondence run compares the Rust solver with a *verified* reference.

The elimination itself is verified in `Rq/Lemmas/GJCorrect.lean` (loop invariant of the imperative
code), its link to `System` in `Rq/Lemmas/GJOracle.lean`.
-/
namespace Rq.C02
open Rq

/-- well-formed system: indices in range and without repetition (the dense rows have *set*
semantics, `System.apply` has *xor* semantics: they agree exactly on repetition-free rows), HDPC rows
of full width with byte entries -/
structure WfSystem (a : System) : Prop where
  bin_lt : ∀ cols ∈ a.bin.toList, ∀ j ∈ cols, j < a.l
  bin_nodup : ∀ cols ∈ a.bin.toList, cols.Nodup
  hdpc_wf : ∀ row ∈ a.hdpc.toList, row.size = a.l ∧ ∀ v ∈ row.toList, v < 256
  nldpc_le : a.nLdpc ≤ a.bin.size

theorem WfSystem.toSys {a : System} (hw : WfSystem a) : WfSys a :=
  ⟨hw.bin_lt, hw.bin_nodup, hw.hdpc_wf, hw.nldpc_le⟩

/-- **A `solved` verdict is a rank certificate.** -/
theorem oracle_solved_determined (a : System) (hw : WfSystem a) (d : List Sym) (t : Nat) (c : Inter)
    (hd : WfRhs a t d) (h : solveSystem a d t = .solved c) : Determined a := by
  unfold solveSystem at h
  split at h
  · cases h
  · split at h
    · next cb hgj => exact gj_determined a hw.toSys d t hd cb hgj
    · split at h <;> cases h

/-- on a consistent, well-formed right-hand side the oracle answers `solved` or `singular` -/
theorem oracle_answers (a : System) (hw : WfSystem a) (d : List Sym) (t : Nat) (ht : 0 < t)
    (hd : WfRhs a t d) (hc : Consistent a t d) : solveSystem a d t ≠ .oracleError := by
  have _ := ht
  unfold solveSystem
  rw [if_neg (by rw [hd.1]; simp [System.rows])]
  split
  · next cb hgj =>
    dsimp only
    rw [if_pos (gj_solved_check a hw.toSys d t hd hc cb hgj)]
    simp
  · next z hgj =>
    rw [if_pos (gj_singular_check a hw.toSys d t hd z hgj)]
    simp

/-! ## the systems of the codec are well-formed -/

theorem setCell_nodup (rows : Array (List Nat)) (r c : Nat) (h : ∀ cols ∈ rows.toList, cols.Nodup) :
    ∀ cols ∈ (setCell rows r c).toList, cols.Nodup := by
  unfold setCell
  split
  · next hr =>
    dsimp only
    split
    · exact h
    · next hc =>
      intro cols hcols
      rw [Array.toList_setIfInBounds] at hcols
      rcases List.mem_or_eq_of_mem_set hcols with h1 | h1
      · exact h cols h1
      · subst h1
        refine List.nodup_cons.mpr ⟨?_, h _ ?_⟩
        · simpa using hc
        · simp [Array.getInternal_eq_getElem]
  · exact h

theorem ldpcRows_nodup (sp : SysParams) (rows : Array (List Nat)) (h : ldpcRows sp = some rows) :
    ∀ cols ∈ rows.toList, cols.Nodup := by
  unfold ldpcRows at h
  split at h
  · cases h
  · simp only [Option.some.injEq] at h
    subst h
    apply foldl_inv (fun rows : Array (List Nat) => ∀ cols ∈ rows.toList, cols.Nodup)
    · intro b i _ hb
      exact setCell_nodup _ _ _ (setCell_nodup _ _ _ hb)
    apply foldl_inv (fun rows : Array (List Nat) => ∀ cols ∈ rows.toList, cols.Nodup)
    · intro b i _ hb
      exact setCell_nodup _ _ _ hb
    apply foldl_inv (fun rows : Array (List Nat) => ∀ cols ∈ rows.toList, cols.Nodup)
    · intro b i _ hb
      exact setCell_nodup _ _ _ (setCell_nodup _ _ _ (setCell_nodup _ _ _ hb))
    · intro cols hcols
      simp only [Array.toList_replicate, List.mem_replicate] at hcols
      rw [hcols.2]
      exact List.nodup_nil

/-- a G_ENC row: columns below L, no repetition -/
theorem encRowD_wf (k : Nat) (sp : SysParams) (hsp : sysParams k = some sp) (x : Nat) (hx : x < 2 ^ 32) :
    (encRowD sp x).Nodup ∧ ∀ j ∈ encRowD sp x, j < sp.l := by
  have hk := sysParams_some_le_d k sp hsp
  obtain ⟨sp', idx, hsp', hidx, _, hlt⟩ := Rq.C15.encIndices_wf k x hk hx
  rw [hsp] at hsp'
  cases hsp'
  obtain ⟨h1, h2⟩ := Rq.C04.dedup_fold idx [] List.nodup_nil
  unfold encRowD encRow
  rw [hidx, Option.map_some, Option.getD_some]
  refine ⟨h1, fun j hj => ?_⟩
  rcases (h2 j).mp hj with h | h
  · cases h
  · exact hlt j h

theorem mkSys_wf (k : Nat) (sp : SysParams) (hsp : sysParams k = some sp) (isis : List Nat)
    (hisis : ∀ x ∈ isis, x < 2 ^ 32) (L : Array (List Nat)) (Hd : Array (Array Nat))
    (hL : ldpcRows sp = some L) (hH : ∀ row ∈ Hd.toList, row.size = sp.l ∧ ∀ v ∈ row.toList, v < 256) :
    WfSystem (mkSys sp L Hd isis) := by
  have hk := sysParams_some_le_d k sp hsp
  obtain ⟨sp', hsp', _, _, _, _, _, _, _, _, _, _, _, hp, hwl, _⟩ := Rq.C15.sysParams_consistent k hk
  rw [hsp] at hsp'
  cases hsp'
  have hmem : ∀ cols ∈ (mkSys sp L Hd isis).bin.toList,
      cols ∈ L.toList ∨ ∃ x ∈ isis, cols = encRowD sp x := by
    intro cols hc
    simp only [mkSys, Array.toList_append, List.mem_append, List.mem_map] at hc
    rcases hc with h | ⟨x, hx, rfl⟩
    · exact Or.inl h
    · exact Or.inr ⟨x, hx, rfl⟩
  constructor
  · intro cols hc j hj
    show j < sp.l
    rcases hmem cols hc with h | ⟨x, hx, rfl⟩
    · have := ldpcRows_lt sp L hL cols h j hj
      omega
    · exact (encRowD_wf k sp hsp x (hisis x hx)).2 j hj
  · intro cols hc
    rcases hmem cols hc with h | ⟨x, hx, rfl⟩
    · exact ldpcRows_nodup sp L hL cols h
    · exact (encRowD_wf k sp hsp x (hisis x hx)).1
  · exact hH
  · show sp.s ≤ (L ++ (isis.map (encRowD sp)).toArray).size
    rw [Array.size_append, ldpcRows_size sp L hL]
    omega

/-- the systems the codec builds are well-formed -/
theorem fullSystem_wf (k : Nat) (sp : SysParams) (hsp : sysParams k = some sp) (isis : List Nat)
    (hisis : ∀ x ∈ isis, x < 2 ^ 32) (a : System) (ha : fullSystem sp isis = some a) : WfSystem a := by
  obtain ⟨L, Hd, hL, hH, _, _, rfl⟩ := fullSystem_inv sp isis a ha
  exact mkSys_wf k sp hsp isis hisis L Hd hL (hdpcRows_wf sp Hd hH).2

theorem binSystem_wf (k : Nat) (sp : SysParams) (hsp : sysParams k = some sp) (isis : List Nat)
    (hisis : ∀ x ∈ isis, x < 2 ^ 32) (a : System) (ha : binSystem sp isis = some a) : WfSystem a := by
  obtain ⟨L, hL, _, _, rfl⟩ := binSystem_inv sp isis a ha
  exact mkSys_wf k sp hsp isis hisis L #[] hL (fun row hrow => by simp at hrow)

end Rq.C02
