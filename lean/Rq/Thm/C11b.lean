import Rq.Thm.C11
/-!
# C11b — the intrinsic sequences of the binary FMA kernels compute the model's `prod`

`Rq/Model/Kernels.lean` models the per-unit lane computation of
`fused_addassign_mul_scalar_binary_{avx2,avx512}` abstractly:
`prod := (List.range u).map fun j => if bitOf bits j = 1 then c else 0`, and the head loop as
`(c * bitOf firstBits (bitIn + i)) % 256`. The code (`src/octets.rs`) obtains these values by
intrinsic sequences. This file models each intrinsic byte-wise from the vendor description
(a 256-bit register is a `List Nat` of 32 bytes, byte 0 = least significant) and proves that the
sequences compute exactly the abstract values, for every 32-bit word (no finite enumeration).

* AVX2 body: `set1_epi32`, `shuffle_epi8`, `andnot_si256`, `cmpeq_epi8 (·, 0)`, `and_si256` —
  `avx2Unpack_eq`.
* AVX2 head: `_bextr2_u32(first_bits, (bit_in_first | 0x100) + i) as u8`, u8 product —
  `bextr2_eq_bitOf`, `head_byte_eq`, `headByteAvx2_eq`.
* AVX-512 body: `_mm512_maskz_mov_epi8(bits, set1_epi8(c))` and the `bits == 0` skip —
  `maskzMov_eq`, `maskzMov_zero`, `xorBlock_zeros`, `skip_zero_word`.
* AVX-512 head: `((first_bits >> (bit_in_first + i)) & 1) as u8` — `shrAnd1_eq_bitOf`.

Consequence for C11: the `prod` / head byte inside `Rq.fmaBinVec` *is*, by `avx2Unpack_eq`
(u = 32) and `maskzMov_eq` + `skip_zero_word` (u = 64), `headByteAvx2_eq` / `shrAnd1_eq_bitOf`,
the value the real instruction sequences produce; so `Rq.C11.fmaBin_correct` covers them.
-/
namespace Rq.C11
open Rq

/-! ## byte-level models of the intrinsics -/

/-- `_mm256_set1_epi32(w)`: 8 copies of the dword, each stored little endian -/
def set1Epi32 (w : Nat) : List Nat := (List.replicate 8 (leBytes 4 w)).flatten

/-- `_mm256_set1_epi8(c)` -/
def set1Epi8 (c : Nat) : List Nat := List.replicate 32 c

/-- `_mm256_set_epi64x(e3, e2, e1, e0)`: `e0` is the least significant qword -/
def setEpi64x (e3 e2 e1 e0 : Nat) : List Nat := leBytes 8 e0 ++ leBytes 8 e1 ++ leBytes 8 e2 ++ leBytes 8 e3

/-- `_mm256_set1_epi64x(e)` -/
def set1Epi64x (e : Nat) : List Nat := setEpi64x e e e e

/-- the `shuffle_mask` constant of the AVX2 kernel -/
def avx2ShuffleMask : List Nat :=
  setEpi64x 0x0303_0303_0303_0303 0x0202_0202_0202_0202 0x0101_0101_0101_0101 0

/-- the `bit_select_mask` constant of the AVX2 kernel -/
def avx2BitSelect : List Nat := set1Epi64x 0x8040_2010_0804_0201

/-- `_mm256_shuffle_epi8(a, idx)`: `pshufb` inside each of the two 128-bit lanes of `a`
(the model's `Rq.pshufb` with one 16-byte table row per lane) -/
def shuffleEpi8 (a idx : List Nat) : List Nat := pshufb a 2 idx

/-- `_mm256_andnot_si256(a, b) = (!a) & b`, byte-wise (`!x = x ^^^ 0xFF` on a byte) -/
def andnotBytes (a b : List Nat) : List Nat := List.zipWith (fun x y => (x ^^^ 255) &&& y) a b

/-- `_mm256_cmpeq_epi8(v, setzero)`: `0xFF` where the byte is zero, else `0x00` -/
def cmpeqZero (v : List Nat) : List Nat := v.map fun x => if x = 0 then 255 else 0

/-- `_mm256_and_si256` -/
def andBytes (a b : List Nat) : List Nat := List.zipWith (· &&& ·) a b

/-- the product vector of one AVX2 step, as the code computes it -/
def avx2Unpack (c w : Nat) : List Nat :=
  let v := set1Epi32 w
  let v := shuffleEpi8 v avx2ShuffleMask
  let v := andnotBytes v avx2BitSelect
  let v := cmpeqZero v
  andBytes v (set1Epi8 c)

/-- `_bextr2_u32(a, control)`: `start = control[7:0]`, `len = control[15:8]`,
result `= (a >> start) & (2^len - 1)` -/
def bextr2 (a control : Nat) : Nat := (a >>> (control % 256)) % 2 ^ ((control / 256) % 256)

/-- extract one bit -/
def bextr1 (w pos : Nat) : Nat := (w >>> pos) % 2

/-- the head byte of the AVX2 kernel: `scalar * (_bextr2_u32(first_bits, control + i) as u8)`
with `control = bit_in_first | 0x100`, in u8 arithmetic -/
def headByteAvx2 (c firstBits bitIn i : Nat) : Nat :=
  (c * (bextr2 firstBits ((bitIn ||| 0x100) + i) % 256)) % 256

/-- the head bit of the AVX-512 kernel: `((first_bits >> pos) & 1) as u8` -/
def shrAnd1 (w pos : Nat) : Nat := ((w >>> pos) &&& 1) % 256

/-- `_mm512_maskz_mov_epi8(mask, set1_epi8(c))`: byte `j` is `c` if mask bit `j` is set, else 0 -/
def maskzMov (mask c : Nat) : List Nat :=
  (List.range 64).map fun j => if (mask >>> j) % 2 = 1 then c else 0

/-! ## the constants and the broadcast, pointwise -/

theorem avx2ShuffleMask_eq : avx2ShuffleMask = (List.range 32).map (· / 8) := by decide

theorem avx2BitSelect_eq : avx2BitSelect = (List.range 32).map fun k => 2 ^ (k % 8) := by decide

theorem set1Epi32_eq (w : Nat) :
    set1Epi32 w = (List.range 32).map fun k => (w >>> (8 * (k % 4))) % 256 := rfl

theorem set1Epi32_length (w : Nat) : (set1Epi32 w).length = 32 := by
  rw [set1Epi32_eq]; simp

theorem set1Epi32_getD (w k : Nat) (hk : k < 32) :
    (set1Epi32 w).getD k 0 = (w >>> (8 * (k % 4))) % 256 := by
  rw [set1Epi32_eq, getD_map_range _ _ _ hk]

/-! ## stage by stage -/

/-- after the shuffle, byte `k` is byte `k / 8` of the word -/
theorem shuffle_stage (w : Nat) :
    shuffleEpi8 (set1Epi32 w) avx2ShuffleMask =
      (List.range 32).map fun k => (w >>> (8 * (k / 8))) % 256 := by
  unfold shuffleEpi8 pshufb
  rw [avx2ShuffleMask_eq]
  apply List.ext_getElem (by simp)
  intro k h1 h2
  have hk : k < 32 := by simpa using h2
  simp only [List.getElem_mapIdx, List.getElem_map, List.getElem_range]
  rw [if_neg (by omega), set1Epi32_getD _ _ (by omega)]
  congr 3
  omega

/-- `x & 2^i` is zero exactly when bit `i` of `x` is clear -/
theorem and_two_pow_eq_zero (x i : Nat) : (x &&& 2 ^ i = 0) ↔ x.testBit i = false := by
  constructor
  · intro h
    have := congrArg (fun n => Nat.testBit n i) h
    simpa [Nat.testBit_and, Nat.testBit_two_pow_self] using this
  · intro h
    apply Nat.eq_of_testBit_eq
    intro j
    rw [Nat.testBit_and, Nat.testBit_two_pow, Nat.zero_testBit]
    by_cases hj : i = j
    · subst hj; simp [h]
    · simp [hj]

/-- `(!b) & 2^i` is zero exactly when bit `i` of `b` is set (`i < 8`) -/
theorem andnot_two_pow_eq_zero (b i : Nat) (hi : i < 8) :
    ((b ^^^ 255) &&& 2 ^ i = 0) ↔ b.testBit i = true := by
  have h255 : Nat.testBit 255 i = true := by
    have := Nat.testBit_two_pow_sub_one 8 i
    simpa [hi] using this
  rw [and_two_pow_eq_zero, Nat.testBit_xor, h255]
  cases b.testBit i <;> simp

/-- bit `k % 8` of byte `k / 8` of `w` is bit `k` of `w` -/
theorem byte_testBit (w k : Nat) :
    ((w >>> (8 * (k / 8))) % 256).testBit (k % 8) = w.testBit k := by
  rw [show (256 : Nat) = 2 ^ 8 from rfl, Nat.testBit_mod_two_pow, Nat.testBit_shiftRight,
    show 8 * (k / 8) + k % 8 = k by omega]
  simp [Nat.mod_lt k (by decide : 0 < 8)]

theorem and_255 (c : Nat) (hc : c < 256) : 255 &&& c = c := by
  rw [Nat.and_comm, show (255 : Nat) = 2 ^ 8 - 1 from rfl, Nat.and_two_pow_sub_one_eq_mod]
  exact Nat.mod_eq_of_lt hc

set_option linter.unusedVariables false in
/-- **the AVX2 intrinsic sequence computes the abstract product vector of the model**
(`hw` is not needed: bits of `w` above 31 are never read) -/
theorem avx2Unpack_eq (c w : Nat) (hc : c < 256) (hw : w < 2 ^ 32) :
    avx2Unpack c w = (List.range 32).map fun j => if bitOf w j = 1 then c else 0 := by
  unfold avx2Unpack
  simp only []
  rw [shuffle_stage, avx2BitSelect_eq]
  unfold andBytes cmpeqZero andnotBytes set1Epi8
  apply List.ext_getElem (by simp)
  intro k h1 h2
  have hk : k < 32 := by simpa using h2
  simp only [List.getElem_zipWith, List.getElem_map, List.getElem_range, List.getElem_replicate]
  rw [bitOf_eq_testBit]
  have hiff := andnot_two_pow_eq_zero ((w >>> (8 * (k / 8))) % 256) (k % 8) (by omega)
  rw [byte_testBit] at hiff
  cases hb : w.testBit k
  · rw [hb] at hiff
    rw [if_neg (by simpa using hiff)]
    simp
  · rw [hb] at hiff
    rw [if_pos (hiff.mpr rfl)]
    simp [and_255 c hc]

theorem avx2Unpack_length (c w : Nat) : (avx2Unpack c w).length = 32 := by
  unfold avx2Unpack andBytes cmpeqZero andnotBytes shuffleEpi8 pshufb set1Epi8
  rw [avx2ShuffleMask_eq, avx2BitSelect_eq]
  simp

/-! ## heads -/

theorem bextr1_eq_bitOf (w pos : Nat) : bextr1 w pos = bitOf w pos := rfl

/-- `_bextr2_u32(w, (bitIn | 0x100) + i)` extracts bit `bitIn + i` -/
theorem bextr2_eq_bitOf (w bitIn i : Nat) (hb : bitIn < 32) (hi : bitIn + i < 32) :
    bextr2 w ((bitIn ||| 0x100) + i) = bitOf w (bitIn + i) := by
  have hor : bitIn ||| 0x100 = bitIn + 256 := by
    have : ∀ b < 32, b ||| 0x100 = b + 256 := by decide
    exact this bitIn hb
  unfold bextr2 bitOf
  rw [hor, show (bitIn + 256 + i) % 256 = bitIn + i by omega,
    show (bitIn + 256 + i) / 256 % 256 = 1 by omega]

/-- u8 product of the scalar and a bit -/
theorem head_byte_eq (c bit : Nat) (hc : c < 256) (hb : bit < 2) :
    (c * bit) % 256 = if bit = 1 then c else 0 := mul_bit_mod c bit hc hb

/-- the AVX2 head byte is the model's head byte -/
theorem headByteAvx2_eq (c w bitIn i : Nat) (hb : bitIn < 32) (hi : bitIn + i < 32) :
    headByteAvx2 c w bitIn i = (c * bitOf w (bitIn + i)) % 256 := by
  unfold headByteAvx2
  have h2 := bitOf_lt2 w (bitIn + i)
  rw [bextr2_eq_bitOf w bitIn i hb hi, Nat.mod_eq_of_lt (a := bitOf w (bitIn + i)) (by omega)]

theorem headByteAvx2_eq_ite (c w bitIn i : Nat) (hc : c < 256) (hb : bitIn < 32) (hi : bitIn + i < 32) :
    headByteAvx2 c w bitIn i = if bitOf w (bitIn + i) = 1 then c else 0 := by
  rw [headByteAvx2_eq c w bitIn i hb hi, head_byte_eq c _ hc (bitOf_lt2 _ _)]

/-- the AVX-512 head bit `((w >> pos) & 1) as u8` -/
theorem shrAnd1_eq_bitOf (w pos : Nat) : shrAnd1 w pos = bitOf w pos := by
  unfold shrAnd1 bitOf
  rw [show (1 : Nat) = 2 ^ 1 - 1 from rfl, Nat.and_two_pow_sub_one_eq_mod]
  omega

/-! ## AVX-512 body -/

/-- the masked move is literally the abstract product vector (u = 64) -/
theorem maskzMov_eq (mask c : Nat) :
    maskzMov mask c = (List.range 64).map fun j => if bitOf mask j = 1 then c else 0 := rfl

theorem maskzMov_zero (c : Nat) : maskzMov 0 c = List.replicate 64 0 := by
  unfold maskzMov
  apply List.ext_getElem (by simp)
  intro k h1 h2
  simp only [List.getElem_map, List.getElem_replicate, Nat.zero_shiftRight, Nat.zero_mod]
  rfl

/-- xor with an all-zero block of the same length changes nothing -/
theorem xorBlock_zeros (blk : List Nat) : xorBlock blk (List.replicate blk.length 0) = blk := by
  unfold xorBlock
  apply List.ext_getElem (by simp)
  intro k h1 h2
  simp

/-- the `if bits == 0 { continue }` of the AVX-512 kernel: the step it skips would have stored
back what it loaded -/
theorem skip_zero_word (c : Nat) (blk : List Nat) (hl : blk.length = 64) :
    xorBlock blk (maskzMov 0 c) = blk := by
  rw [maskzMov_zero, ← hl, xorBlock_zeros]

/-- … and storing back the loaded window leaves the buffer unchanged (so skipping the
load / xor / store of the model's step for a zero word is the identity on `d`) -/
theorem storeAt_loadAt (d : List Nat) (off w : Nat) : storeAt d off (loadAt d off w) = d := by
  apply ext_getD (storeAt_length _ _ _)
  intro i hi
  rw [storeAt_getD, loadAt_length]
  split
  · rename_i h
    rw [loadAt_getD _ _ _ _ (by omega), show off + (i - off) = i by omega]
  · rfl

/-! ## Non-vacuity -/
example : avx2Unpack 0x1D 0x80000001 =
    [0x1D, 0, 0, 0, 0, 0, 0, 0, 0, 0, 0, 0, 0, 0, 0, 0,
     0, 0, 0, 0, 0, 0, 0, 0, 0, 0, 0, 0, 0, 0, 0, 0x1D] := by decide
example : avx2Unpack 0xFF 0x00000300 =
    [0, 0, 0, 0, 0, 0, 0, 0, 0xFF, 0xFF, 0, 0, 0, 0, 0, 0,
     0, 0, 0, 0, 0, 0, 0, 0, 0, 0, 0, 0, 0, 0, 0, 0] := by decide
example : avx2Unpack 7 0xFFFFFFFF = List.replicate 32 7 := by decide
example : shuffleEpi8 (set1Epi32 0x44332211) avx2ShuffleMask =
    [0x11, 0x11, 0x11, 0x11, 0x11, 0x11, 0x11, 0x11, 0x22, 0x22, 0x22, 0x22, 0x22, 0x22, 0x22, 0x22,
     0x33, 0x33, 0x33, 0x33, 0x33, 0x33, 0x33, 0x33, 0x44, 0x44, 0x44, 0x44, 0x44, 0x44, 0x44, 0x44] := by decide
example : headByteAvx2 0x1D 0x80000000 29 2 = 0x1D := by decide
example : headByteAvx2 0x1D 0x80000000 29 1 = 0 := by decide
example : (maskzMov 0x8000000000000001 0x1D).getD 63 0 = 0x1D ∧ (maskzMov 0x8000000000000001 0x1D).getD 1 0 = 0 := by decide

end Rq.C11
