import Rq.Thm.C02b
import Rq.Thm.C06
import Rq.Lemmas.LeftInv
/-!
# Shared part of the per-K' invertibility certificates (`Rq/Thm/Cert/K<K'>.lean`)

The kernel is slow on the executable model (tables kept as `Array.ofFn`, lazily re-evaluated
structures), so the certificates evaluate *packed mirrors* of the model's functions — the same
definitions reading the packed table literals through `tb8`/`tb32` — and the lemmas below show that
the mirrors are equal to the model's functions, unconditionally.
-/
namespace Rq.Cert
open Rq Rq.C15

/-! ## packed mirrors of `rand`, `deg`, `tuple`, `encRows` -/

def randP (y i m : Nat) : Option Nat :=
  if m = 0 then none
  else if (y >>> 8) + i ≥ U32 ∨ (y >>> 16) + i ≥ U32 ∨ (y >>> 24) + i ≥ U32 then none
  else
    let x0 := ((y + i) % U32) % 256
    let x1 := ((y >>> 8) + i) % 256
    let x2 := ((y >>> 16) + i) % 256
    let x3 := ((y >>> 24) + i) % 256
    some ((tb32 Gen.v0P x0 ^^^ tb32 Gen.v1P x1 ^^^ tb32 Gen.v2P x2 ^^^ tb32 Gen.v3P x3) % m)

theorem rand_eq (y i m : Nat) : rand y i m = randP y i m := by
  unfold rand randP
  simp only [tget_v0 _ (Nat.mod_lt _ (by decide : 0 < 256)), tget_v1 _ (Nat.mod_lt _ (by decide : 0 < 256)),
    tget_v2 _ (Nat.mod_lt _ (by decide : 0 < 256)), tget_v3 _ (Nat.mod_lt _ (by decide : 0 < 256))]

def degP (v w : Nat) : Option Nat :=
  if v ≥ 1048576 then none
  else if w < 2 then none
  else
    match (List.range 30).find? (fun d => decide (v < tb32 Gen.degP (d + 1))) with
    | some d => some (min (d + 1) (w - 2))
    | none => none

theorem deg_eq (v w : Nat) : deg v w = degP v w := by
  unfold deg degP
  rw [find?_congr' (fun d => decide (v < tget degA (d + 1))) (fun d => decide (v < tb32 Gen.degP (d + 1)))
    (List.range 30) (fun d hd => by rw [tget_deg (d + 1) (by have := List.mem_range.mp hd; omega)])]
  rfl

def tupleP (x w j p1 : Nat) : Option Tuple :=
  let a0 := 53591 + j * 997
  let aa := if a0 % 2 = 0 then a0 + 1 else a0
  let bb := 10267 * (j + 1)
  if aa ≥ U32 ∨ bb ≥ U32 ∨ w = 0 ∨ p1 = 0 then none else
  let y := (bb + x * aa) % U32
  match randP y 0 1048576 with
  | none => none
  | some v =>
  match degP v w, randP y 1 (w - 1), randP y 2 w with
  | some d, some ra, some b =>
    let d1? := if d < 4 then (randP x 3 2).map (2 + ·) else some 2
    match d1?, randP x 4 (p1 - 1), randP x 5 p1 with
    | some d1, some ra1, some b1 => some { d, a := 1 + ra, b, d1, a1 := 1 + ra1, b1 }
    | _, _, _ => none
  | _, _, _ => none

theorem tuple_eq (x w j p1 : Nat) : tuple x w j p1 = tupleP x w j p1 := by
  unfold tuple tupleWith tupleP
  simp only [rand_eq, deg_eq]
  rfl

def encRowP (sp : SysParams) (isi : Nat) : Option (List Nat) :=
  match tupleP isi sp.w sp.j sp.p1 with
  | none => none
  | some t => (encIndices t sp.w sp.p sp.p1).map fun l =>
      l.foldl (fun acc c => if acc.contains c then acc else c :: acc) []

theorem encRow_eq (sp : SysParams) (isi : Nat) : encRow sp isi = encRowP sp isi := by
  unfold encRow encIndicesOf encRowP
  rw [tuple_eq]
  cases tupleP isi sp.w sp.j sp.p1 <;> rfl

/-- all G_ENC rows, strictly evaluated one by one (`none` as soon as one row fails) -/
def encRowsP (sp : SysParams) : List Nat → Option (List (List Nat))
  | [] => some []
  | x :: xs =>
    match encRowP sp x, encRowsP sp xs with
    | some r, some rs => some (r :: rs)
    | _, _ => none

theorem encRows_eqP (sp : SysParams) (isis : List Nat) : encRows sp isis = encRowsP sp isis := by
  unfold encRows
  induction isis with
  | nil => rfl
  | cons x xs ih =>
    rw [List.mapM_cons, ih, encRow_eq]
    conv => rhs; unfold encRowsP
    cases encRowP sp x <;> cases encRowsP sp xs <;> rfl

/-! ## packed mirrors of `gmul`, `galpha`, `hdpcStep`, `hdpcCols` -/

def logU (a : Nat) : Nat := if a < 256 then tb8 Gen.octLogP a else 0
def expU (i : Nat) : Nat := if i < 510 then tb8 Gen.octExpP i else 0
def gmulU (a b : Nat) : Nat := if a = 0 ∨ b = 0 then 0 else expU (logU a + logU b)

theorem gmul_eq (a b : Nat) : gmul a b = gmulU a b := by
  unfold gmul gmulU oexp olog expU logU octExpA octLogA
  simp only [tget8]

def galphaP (i : Nat) : Option Nat := if i < 256 then some (expU i) else none

theorem galpha_eq : galpha = galphaP := by
  funext i
  unfold galpha galphaP oexp expU octExpA
  rw [tget8]

def hdpcStepP (h j : Nat) (next : List Nat) : Option (List Nat) :=
  match randP (j + 1) 6 h, randP (j + 1) 7 (h - 1) with
  | some r6, some r7 =>
    let i1 := r6
    let i2 := (r6 + r7 + 1) % h
    let col := next.map (gmulU 2)
    let col := col.set i1 (col.getD i1 0 ^^^ 1)
    let col := col.set i2 (col.getD i2 0 ^^^ 1)
    some col
  | _, _ => none

theorem hdpcStep_eq (h j : Nat) (next : List Nat) : hdpcStep h j next = hdpcStepP h j next := by
  unfold hdpcStep hdpcStepP
  rw [rand_eq, rand_eq, show gmul 2 = gmulU 2 from funext (gmul_eq 2)]
  rfl

def hdpcGoP (h : Nat) : Nat → List Nat → List (List Nat) → Option (List (List Nat))
  | 0, _, acc => some acc
  | j + 1, next, acc =>
    match hdpcStepP h j next with
    | none => none
    | some col => hdpcGoP h j col (col :: acc)

theorem hdpcGo_eq (h : Nat) : ∀ (j : Nat) (next : List Nat) (acc : List (List Nat)),
    hdpcCols.go h j next acc = hdpcGoP h j next acc := by
  intro j
  induction j with
  | zero => intro next acc; rfl
  | succ j ih =>
    intro next acc
    unfold hdpcCols.go hdpcGoP
    rw [hdpcStep_eq]
    cases hdpcStepP h j next with
    | none => rfl
    | some col => exact ih col (col :: acc)

/-- the columns of G_HDPC as a list (the model returns the same list as an array) -/
def hdpcColsP (h n : Nat) : Option (List (List Nat)) :=
  if n = 0 then none else
  match (List.range h).mapM galphaP with
  | none => none
  | some last => hdpcGoP h (n - 1) last [last]

theorem hdpcCols_eq (h n : Nat) : hdpcCols h n = (hdpcColsP h n).map List.toArray := by
  unfold hdpcCols hdpcColsP
  rw [galpha_eq]
  split
  · rfl
  · cases (List.range h).mapM galphaP with
    | none => rfl
    | some last => simp only [hdpcGo_eq]

/-! ## the system assembled from its three literal parts -/

/-- the HDPC rows the model builds from the columns of G_HDPC (never evaluated by the kernel) -/
def hdOf (sp : SysParams) (cols : Array (List Nat)) : Array (Array Nat) :=
  Array.ofFn (n := sp.h) fun i =>
    Array.ofFn (n := sp.l) fun j =>
      if j.val < sp.kp + sp.s then (cols.getD j.val []).getD i.val 0
      else if j.val = sp.kp + sp.s + i.val then 1 else 0

theorem hdpcRows_of (sp : SysParams) (cols : List (List Nat))
    (hc : hdpcColsP sp.h (sp.kp + sp.s) = some cols) : hdpcRows sp = some (hdOf sp cols.toArray) := by
  unfold hdpcRows
  rw [hdpcCols_eq, hc]
  rfl

def mkA (sp : SysParams) (L : Array (List Nat)) (E : List (List Nat)) (cols : List (List Nat)) : System :=
  { l := sp.l, bin := L ++ E.toArray, nLdpc := sp.s, hdpc := hdOf sp cols.toArray }

theorem full_of_parts (sp : SysParams) (k : Nat) (L : Array (List Nat)) (E cols : List (List Nat))
    (hsz : sp.l ≤ sp.s + sp.h + k) (hl : ldpcRows sp = some L)
    (he : encRowsP sp (List.range k) = some E) (hc : hdpcColsP sp.h (sp.kp + sp.s) = some cols) :
    fullSystem sp (List.range k) = some (mkA sp L E cols) := by
  unfold fullSystem constraintMatrix
  rw [if_neg (by rw [List.length_range]; omega), hl, encRows_eqP, he, hdpcRows_of sp cols hc]
  rfl

/-- entry (i, j) of the HDPC block, read from the literal columns -/
def hdFn (sp : SysParams) (cols : List (List Nat)) (i j : Nat) : Nat :=
  if j < sp.l then
    if j < sp.kp + sp.s then (cols.getD j []).getD i 0
    else if j = sp.kp + sp.s + i then 1 else 0
  else 0

/-- the coefficient functions of `mkA`, in the row order LDPC, HDPC, G_ENC -/
def coefsP (sp : SysParams) (L : Array (List Nat)) (E cols : List (List Nat)) : List (Nat → Nat) :=
  L.toList.map binCoef ++ (List.range sp.h).map (hdFn sp cols) ++ E.map binCoef

theorem hd_coefs (sp : SysParams) (cols : List (List Nat)) :
    (hdOf sp cols.toArray).toList.map denseCoef = (List.range sp.h).map (hdFn sp cols) := by
  apply List.ext_getElem
  · simp [hdOf]
  · intro i h1 h2
    have hi : i < sp.h := by simpa [hdOf] using h1
    funext j
    rw [List.getElem_map, List.getElem_map, List.getElem_range, Array.getElem_toList, denseCoef_eq]
    simp only [hdOf, Array.getElem_ofFn]
    unfold hdFn
    by_cases hj : j < sp.l
    · rw [if_pos hj, getD_ofFn _ _ hj]
      by_cases hjc : j < cols.length <;> simp [Array.getD, List.getD_eq_getElem?_getD, hjc]
    · rw [if_neg hj, getD_ofFn_ge _ _ (by omega)]

theorem coefs_eq (sp : SysParams) (L : Array (List Nat)) (E cols : List (List Nat)) (hL : L.size = sp.s) :
    (mkA sp L E cols).coefs = coefsP sp L E cols := by
  unfold System.coefs coefsP mkA
  have hlen : (L.toList.map binCoef).length = sp.s := by simp [hL]
  simp only [Array.toList_append, List.map_append]
  rw [List.take_left' hlen, List.drop_left' hlen, hd_coefs]

/-- the packed table `AP` (row width `l`) holds the rows `cs` from row `base` on -/
def checkRowsAux (l AP : Nat) : List (Nat → Nat) → Nat → Bool
  | [], _ => true
  | c :: cs, r => ((List.range l).all fun j => c j == tb8 AP (r * l + j)) && checkRowsAux l AP cs (r + 1)

theorem checkRowsAux_spec (l AP : Nat) : ∀ (cs : List (Nat → Nat)) (base : Nat),
    checkRowsAux l AP cs base = true → ∀ r, r < cs.length → ∀ j, j < l →
      (cs.getD r (fun _ => 0)) j = tb8 AP ((base + r) * l + j) := by
  intro cs
  induction cs with
  | nil => intro base _ r hr; cases hr
  | cons c cs ih =>
    intro base h r hr j hj
    simp only [checkRowsAux, Bool.and_eq_true, List.all_eq_true, List.mem_range, beq_iff_eq] at h
    cases r with
    | zero => simpa using h.1 j hj
    | succ r =>
      have := ih (base + 1) h.2 r (by simpa using hr) j hj
      rw [show base + (r + 1) = base + 1 + r by omega]
      simpa using this

/-! ## the certificate theorem -/

/-- **certificate ⇒ `Determined`**: the three literal parts are what the (mirrored) model builds, the
packed table `AP` holds their coefficients, and `BP · AP = I`. -/
theorem determined_of_cert (k : Nat) (sp : SysParams) (hsp : sysParams k = some sp)
    (L : Array (List Nat)) (E cols : List (List Nat)) (AP BP : Nat)
    (hsq : sp.s + sp.h + k = sp.l) (hE : E.length = k)
    (hl : ldpcRows sp = some L) (he : encRowsP sp (List.range k) = some E)
    (hc : hdpcColsP sp.h (sp.kp + sp.s) = some cols)
    (hco : checkRowsAux sp.l AP (coefsP sp L E cols) 0 = true)
    (hinv : ∀ i, i < sp.l → ∀ j, j < sp.l →
      prodEnt sp.l (fun i r => tb8 BP (i * sp.l + r)) (fun r j => tb8 AP (r * sp.l + j)) i j =
        if i = j then 1 else 0) :
    ∃ a, fullSystem sp (List.range k) = some a ∧ Determined a := by
  have hfull := full_of_parts sp k L E cols (by omega) hl he hc
  refine ⟨mkA sp L E cols, hfull, ?_⟩
  have hw : WfSys (mkA sp L E cols) :=
    (Rq.C02.fullSystem_wf k sp hsp (List.range k)
      (fun x hx => by have := List.mem_range.mp hx; have := Rq.C04.sysParams_some_le k sp hsp; omega) _ hfull).toSys
  have hL := ldpcRows_size sp L hl
  have hrows : (mkA sp L E cols).rows = sp.l := by
    simp [System.rows, mkA, hdOf, hL, hE]; omega
  have hcoef := checkRowsAux_spec sp.l AP (coefsP sp L E cols) 0 hco
  have hclen : (coefsP sp L E cols).length = sp.l := by
    simp [coefsP, hL, hE]; omega
  rw [determined_iff]
  have hlen := funs_length (mkA sp L E cols)
  apply detF_of_leftInv (mkA sp L E cols).l (mkA sp L E cols).funs (fun r j => tb8 AP (r * sp.l + j))
    (fun i r => tb8 BP (i * sp.l + r)) (fun _ _ => tb8_lt _ _) (fun _ _ => tb8_lt _ _)
  · intro r hr v hv
    rw [funs_coef _ hw r hr v hv]
    apply dot_congr
    · intro j hj
      have h1 := hcoef r (by rw [hclen, ← hrows, ← hlen]; exact hr) j hj
      unfold System.coef
      rw [coefs_eq sp L E cols hL, h1, Nat.zero_add]
    · intro _ _; rfl
  · rw [hlen, hrows]; exact hinv

/-! ## a determined standard system gives good encoders, for every symbol size -/

/-- if the standard system A(K') is determined (and square, as it is for every Table-2 row), then
every block of K' well-formed symbols of any size `t > 0` has a good encoder: the hypotheses of the
encoder / decoder theorems are satisfiable -/
theorem goodEnc_of_determined (sp : SysParams) (hsp : sysParams sp.kp = some sp)
    (hsq : sp.s + sp.h + sp.kp = sp.l)
    (hex : ∃ a, fullSystem sp (List.range sp.kp) = some a ∧ Determined a)
    (t : Nat) (ht : 0 < t) (src : List Sym) (hlen : src.length = sp.kp) (hwf : ∀ s ∈ src, WfSym t s) :
    ∃ e : BlockEnc, e.src = src ∧ GoodEnc e t := by
  obtain ⟨a, hfull, hdet⟩ := hex
  have wf : Rq.C02.WfSystem a :=
    Rq.C02.fullSystem_wf sp.kp sp hsp (List.range sp.kp)
      (fun x hx => by
        have := List.mem_range.mp hx; have := Rq.C04.sysParams_some_le sp.kp sp hsp; omega) a hfull
  have hb : HdpcBytes a := fun row hr => (wf.hdpc_wf row hr).2
  obtain ⟨L, Hd, hL, hH, _, _, ha⟩ := fullSystem_inv sp (List.range sp.kp) a hfull
  have hrows : a.rows = sp.l := by
    rw [ha, mkSys_rows, ldpcRows_size sp L hL, (hdpcRows_wf sp Hd hH).1, List.length_range]; omega
  have hl : a.l = sp.l := by rw [ha]; rfl
  have hrhs : WfRhs a t (createD sp t src) := by
    refine ⟨?_, fun s hs' => ?_⟩
    · rw [hrows]
      simp [createD, hlen]; omega
    · unfold createD at hs'
      rcases List.mem_append.mp hs' with hs' | hs'
      · rcases List.mem_append.mp hs' with hs' | hs'
        · rw [List.eq_of_mem_replicate hs']; exact Rq.C04.wf_zeroSym _
        · exact hwf s hs'
      · rw [List.eq_of_mem_replicate hs']; exact Rq.C04.wf_zeroSym _
  obtain ⟨c, hc, hsol⟩ := consistent_of_determined_square a hb (by rw [hrows, hl]) hdet t _ hrhs
  refine ⟨{ sbn := 0, t := t, sp := sp, src := src, c := c }, rfl,
    ⟨ht, rfl, ?_, hwf, by rw [← hl]; exact hc, ⟨a, hfull, hsol⟩, ⟨a, hfull, hdet⟩⟩⟩
  show sysParams src.length = some sp
  rw [hlen]
  exact hsp

/-! ## the Table-2 row of an extended size -/

theorem rowOf_of (k i : Nat) (hi : i < 477) (hk : k ≤ 56403) (h1 : K' i = k) (h2 : i = 0 ∨ K' (i - 1) < k) :
    rowOf k = some i := by
  rw [rowOf_iff]
  refine ⟨hk, hi, by omega, fun j hj => ?_⟩
  rcases h2 with h2 | h2
  · omega
  · have := K'_mono j (i - 1) (by omega) (by omega)
    omega

theorem sysParams_of (k i : Nat) (sp : SysParams) (hi : i < 477) (hk : k ≤ 56403) (h1 : K' i = k)
    (h2 : i = 0 ∨ K' (i - 1) < k)
    (h3 : ({ kp := K' i, j := J i, s := S i, h := H i, w := W i, l := L i, p := P i, p1 := P1 i } : SysParams) = sp) :
    sysParams k = some sp := by
  rw [sysParams_row k i (rowOf_of k i hi hk h1 h2), h3]

end Rq.Cert
