import Rq.Thm.C02
import Rq.Lemmas.ObjGo
import Rq.Lemmas.IsiBound
/-!
# C01 — decoding never returns anything but the original object

Block level and object level, for an arbitrary solver meeting `SolverSpec`, every history of
genuine packets (any order, any multiplicity, any batching).
-/
namespace Rq.C01
open Rq Rq.C02

/-- **Block decoder**: after any sequence of batches of genuine packets, every answer is "not
yet" or exactly the original block; and once all source packets were delivered it is the block. -/
theorem block_history (sv : Solver) (hs : SolverSpec sv) (e : BlockEnc) (t : Nat) (data : List Nat)
    (he : GoodEnc e t) (d : BlockDec) (h : Tracks d e t) (hl : LayoutOk d t data e)
    (batch : List Packet) (hb : ∀ p ∈ batch, Genuine e p) :
    ∃ d' res cs, d.decode sv batch = some (d', res, cs) ∧ Tracks d' e t ∧ LayoutOk d' t data e ∧
      (res = none ∨ res = some data) ∧
      ((∀ i, i < e.k → (d'.src.getD i none).isSome) → res = some data) := by
  obtain ⟨d', hfold, ht', hn', hal'⟩ := foldlM_push_inv (fun x => x.n = d.n ∧ x.al = d.al) e t
    (by
      intro x p x' hx hpx hg hpush _
      obtain ⟨x'', h1, _, h2, h3, _⟩ := push_tracks x e t hx p hg
      rw [hpush] at h1
      cases h1
      exact ⟨h2.trans hpx.1, h3.trans hpx.2⟩) batch d h ⟨rfl, rfl⟩ hb
  have hl' := layoutOk_congr d d' t data e hl hn' hal'
  unfold BlockDec.decode
  rw [hfold]
  dsimp only
  by_cases hn : e.k ≤ d'.esis.length
  · obtain ⟨a, res, cs, _, hatt, h1, h2⟩ := attempt_iff sv hs d' e t data ht' he hl' hn
    rw [hatt]
    refine ⟨d', res, cs, rfl, ht', hl', h1.symm, ?_⟩
    intro hall
    exact h2.mpr (Or.inl (all_src_count d' e t ht' hall).1)
  · rw [attempt_case1 sv d' e t ht' he (by omega)]
    refine ⟨d', none, .c1, rfl, ht', hl', Or.inl rfl, ?_⟩
    intro hall
    exact absurd (all_src_count d' e t ht' hall).2 hn

/-- the encoders of an object, its decoder, and what ties them: block b of the decoder tracks
block b of the encoder -/
structure ObjTracks (dec : ObjDec) (enc : ObjEnc) (data : List Nat) (blocks : List (List Nat)) : Prop where
  same_o : dec.o = enc.o
  len : dec.blocks.size = enc.blocks.length ∧ dec.done.size = enc.blocks.length ∧ blocks.length = enc.blocks.length
  flat : (blocks.flatten).take enc.o.f = data
  per_block : ∀ b, b < enc.blocks.length →
    ∃ e d, enc.blocks[b]? = some e ∧ dec.blocks[b]? = some d ∧ e.sbn = b ∧ GoodEnc e enc.o.t ∧
      Tracks d e enc.o.t ∧ LayoutOk d enc.o.t (blocks.getD b []) e ∧
      (dec.done.getD b none = none ∨ dec.done.getD b none = some (blocks.getD b []))

/-- the reported result is "not yet" or the object -/
theorem result_ok (dec : ObjDec) (enc : ObjEnc) (data : List Nat) (blocks : List (List Nat))
    (h : ObjTracks dec enc data blocks) : dec.result = none ∨ dec.result = some data := by
  unfold ObjDec.result
  cases hm : dec.done.toList.mapM id with
  | none => left; rfl
  | some bs =>
    right
    obtain ⟨e1, e2⟩ := mapM_option_eq id [] _ _ hm
    have : bs = blocks := by
      rw [e1]
      apply List.ext_getElem
      · simp [h.len.2.1, h.len.2.2]
      · intro b h1 h2
        simp only [List.length_map, Array.length_toList] at h1
        have hb : b < enc.blocks.length := by rw [← h.len.2.1]; exact h1
        obtain ⟨e, d, _, _, _, _, _, _, hdone⟩ := h.per_block b hb
        have hs := e2 (dec.done[b]) (by simp)
        have hg : dec.done.getD b none = dec.done[b] := by simp [Array.getD, h1]
        have hbl : blocks.getD b [] = blocks[b] := by simp [List.getD_eq_getElem?_getD, h2]
        rw [hg, hbl] at hdone
        simp only [List.getElem_map, Array.getElem_toList, id]
        rcases hdone with hd | hd
        · rw [hd] at hs; cases hs
        · rw [hd]; rfl
    rw [this, Option.map_some, h.same_o, h.flat]

/-- **Object decoder**: feeding any genuine packet keeps the invariant, and the answer is "not
yet" or exactly the original bytes with exactly the transfer length. -/
theorem object_step (sv : Solver) (hs : SolverSpec sv) (dec : ObjDec) (enc : ObjEnc) (data : List Nat)
    (blocks : List (List Nat)) (h : ObjTracks dec enc data blocks) (hz : enc.blocks.length ≤ 256)
    (p : Packet) (hp : ∃ (b : Nat) (e : BlockEnc), enc.blocks[b]? = some e ∧ Genuine e p) :
    ∃ dec' res, dec.decode sv p = some (dec', res) ∧ ObjTracks dec' enc data blocks ∧
      (res = none ∨ res = some data) := by
  have _ := hz
  obtain ⟨b, e, hbe, hg⟩ := hp
  have hb : b < enc.blocks.length := by
    by_contra hc
    rw [List.getElem?_eq_none (by omega)] at hbe
    cases hbe
  obtain ⟨e', d, he', hd, hsbn, hgood, htr, hlay, hdone⟩ := h.per_block b hb
  rw [hbe] at he'
  cases he'
  have hpb : p.pid.sbn = b := by rw [(genuine_cases e p hg).1, hsbn]
  have hbs : b < dec.blocks.size := by rw [h.len.1]; exact hb
  suffices hsuff : ∃ dec', dec.add sv p = some dec' ∧ ObjTracks dec' enc data blocks by
    obtain ⟨dec', h1, h2⟩ := hsuff
    refine ⟨dec', dec'.result, ?_, h2, result_ok dec' enc data blocks h2⟩
    unfold ObjDec.decode
    rw [h1]; rfl
  unfold ObjDec.add
  simp only [hpb, hbs, dif_pos]
  cases hdn : dec.done.getD b none with
  | some r => exact ⟨dec, rfl, h⟩
  | none =>
    dsimp only
    have hdb : dec.blocks[b] = d := by
      rw [Array.getElem?_eq_getElem hbs] at hd
      injection hd
    rw [hdb]
    obtain ⟨d', res, cs, hdec, htr', hlay', hres, _⟩ :=
      block_history sv hs e enc.o.t (blocks.getD b []) hgood d htr hlay [p]
        (by intro q hq; rw [List.mem_singleton] at hq; subst hq; exact hg)
    rw [hdec]
    refine ⟨_, rfl, ?_⟩
    constructor
    · exact h.same_o
    · simp only [Array.size_set, Array.size_setIfInBounds]
      exact h.len
    · exact h.flat
    · intro b' hb'
      by_cases hbb : b' = b
      · subst hbb
        refine ⟨e, d', hbe, by simp [hbs], hsbn, hgood, htr', hlay', ?_⟩
        dsimp only
        rw [getD_setIfInBounds_d, if_pos ⟨rfl, by rw [h.len.2.1]; exact hb⟩]
        exact hres
      · obtain ⟨e2, d2, h1, h2, h3, h4, h5, h6, h7⟩ := h.per_block b' hb'
        refine ⟨e2, d2, h1, ?_, h3, h4, h5, h6, ?_⟩
        · dsimp only
          rw [Array.getElem?_set_ne hbs (fun hc => hbb hc.symm)]
          exact h2
        · dsimp only
          rw [getD_setIfInBounds_d, if_neg (by intro hc; exact hbb hc.1.symm)]
          exact h7

/-- a block encoder built by `BlockEnc.new?` with a solver meeting `SolverSpec` is good, provided
its standard system A(K') is invertible (the property RFC 6330 guarantees for every K' of Table 2) -/
theorem blockEnc_good (sv : Solver) (hs : SolverSpec sv) (sbn : Nat) (o : Oti) (bytes : List Nat) (e : BlockEnc)
    (h : BlockEnc.new? sv sbn o bytes = some e) (ht : 0 < o.t) (ht' : o.t < 2 ^ 32) (hal : 0 < o.al)
    (hdiv : o.t % o.al = 0) (hn : 1 ≤ o.n) (hn' : o.n ≤ o.t / o.al) (hb : IsBytes bytes)
    (hstd : ∃ a, fullSystem e.sp (List.range e.sp.kp) = some a ∧ Determined a) : GoodEnc e o.t := by
  obtain ⟨_, het, hsyms, hsp, hsolve⟩ := blockEnc_new_spec sv sbn o bytes e h
  obtain ⟨_, _, hsrc⟩ := createSymbols_wf o.t o.al o.n bytes e.src ht ht' hal hdiv hn hn' hb hsyms
  obtain ⟨a, ha, hdet⟩ := hstd
  obtain ⟨L, Hd, hL, hH, _, _, rfl⟩ := fullSystem_inv _ _ _ ha
  have sizeL := ldpcRows_size _ _ hL
  have hHwf := hdpcRows_wf _ _ hH
  obtain ⟨_, hkp, _, hleq, _⟩ := sysParams_facts _ _ hsp
  have hbytes : HdpcBytes (mkSys e.sp L Hd (List.range e.sp.kp)) := fun row hrow => (hHwf.2 row hrow).2
  have hrows : (mkSys e.sp L Hd (List.range e.sp.kp)).rows = e.sp.l := by
    rw [mkSys_rows, sizeL, hHwf.1, List.length_range]
    show e.sp.s + e.sp.kp + e.sp.h = e.sp.l
    omega
  have hwf : WfRhs (mkSys e.sp L Hd (List.range e.sp.kp)) o.t (createD e.sp o.t e.src) := by
    constructor
    · rw [hrows, createD]
      simp only [List.length_append, List.length_replicate]
      omega
    · intro s hs'
      unfold createD at hs'
      have hz : WfSym o.t (zeroSym o.t) := by
        refine ⟨by simp [zeroSym], fun x hx => ?_⟩
        rw [zeroSym, List.mem_replicate] at hx
        rw [hx.2]; decide
      rcases List.mem_append.mp hs' with h1 | h1
      · rcases List.mem_append.mp h1 with h2 | h2
        · rw [(List.mem_replicate.mp h2).2]; exact hz
        · exact hsrc s h2
      · rw [(List.mem_replicate.mp h1).2]; exact hz
  have hcons := consistent_of_determined_square _ hbytes hrows hdet o.t _ hwf
  obtain ⟨hc, hcapp, _⟩ := hs.full_solved _ _ _ _ o.t _ e.c hsp (range_kp_lt _ _ hsp) ha ht hwf hcons hsolve
  exact ⟨ht, het, hsp, hsrc, hc, ⟨_, ha, hcapp⟩, ⟨_, ha, hdet⟩⟩

theorem blockBytes_bytes (data : List Nat) (r : Nat × Nat) (bytes : List Nat) (hb : IsBytes data)
    (h : blockBytes data r = some bytes) : IsBytes bytes := by
  unfold blockBytes at h
  split at h
  · split at h
    · cases h
    · injection h with h
      subst h
      intro x hx
      rcases List.mem_append.mp hx with h1 | h1
      · exact hb x (List.mem_of_mem_drop h1)
      · rw [(List.mem_replicate.mp h1).2]; decide
  · injection h with h
    subst h
    intro x hx
    exact hb x (List.mem_of_mem_drop (List.mem_of_mem_take hx))

/-- a fresh decoder for the encoder's configuration tracks it. `hstd`: the standard system A(K')
of every block is invertible — the property RFC 6330 guarantees for every K' of Table 2 (it is
not derivable from `SolverSpec`, which only speaks about *consistent* right-hand sides); all the
other parts of `GoodEnc` are derived from `SolverSpec` here (`blockEnc_good`). -/
theorem object_init (sv : Solver) (hs : SolverSpec sv) (data : List Nat) (o : Oti) (enc : ObjEnc)
    (hv : Rq.C05.ValidObj o) (hd : data.length = o.f) (hb : IsBytes data) (hal : 0 < o.al) (hdiv : o.t % o.al = 0)
    (hn : 1 ≤ o.n) (hn' : o.n ≤ o.t / o.al) (hz : o.z ≤ 256) (ht : o.t < 65536)
    (hkmax : ceilDiv (ceilDiv o.f o.t) o.z ≤ 56403)
    (henc : ObjEnc.new? sv data o = some enc)
    (hstd : ∀ e ∈ enc.blocks, ∃ a, fullSystem e.sp (List.range e.sp.kp) = some a ∧ Determined a) :
    ∃ dec blocks, ObjDec.new? o = some dec ∧ ObjTracks dec enc data blocks := by
  have htpos := hv.t_pos
  -- the encoder
  unfold ObjEnc.new? at henc
  rw [hd] at henc
  obtain ⟨offs, _, _, _, _, hoffs, _, _, _, _, _, _⟩ := Rq.C05.blockOffsets_spec o hv
  rw [hoffs] at henc
  dsimp only at henc
  cases hgo : ObjEnc.new?.go sv data o 0 offs with
  | none => rw [hgo] at henc; cases henc
  | some bs =>
  rw [hgo, Option.map_some] at henc
  injection henc with henc
  subst henc
  obtain ⟨hbslen, hbs⟩ := objEnc_go_spec sv data o offs 0 bs hgo
  -- the decoder
  obtain ⟨counts, hcounts⟩ : ∃ counts, blockCounts o = some counts :=
    ⟨_, blockCounts_eq o hv.t_pos hv.z_pos hv.kt_lt⟩
  obtain ⟨hclen, holen, hco⟩ := counts_offsets o hv counts offs hcounts hoffs
  obtain ⟨dbs, hdgo, hdlen, hdbs⟩ := objDec_go_spec o htpos counts 0
  -- the blocks of bytes
  obtain ⟨blocks, hblocks, hflat, _, hblen⟩ := Rq.C05.blocks_cover o hv data hd offs hoffs
  obtain ⟨hbl1, hbl2⟩ := mapM_option_eq (blockBytes data) [] offs blocks hblocks
  have hblockslen : blocks.length = offs.length := by rw [hbl1]; simp
  refine ⟨{ o, blocks := dbs.toArray, done := Array.replicate dbs.length none }, blocks, ?_, ?_⟩
  · unfold ObjDec.new?
    rw [hcounts]
    dsimp only
    rw [hdgo]
    rfl
  constructor
  · rfl
  · dsimp only
    refine ⟨by simp; omega, by simp; omega, by omega⟩
  · dsimp only
    rw [hflat, ← hd, List.take_left' rfl]
  · intro b hb'
    dsimp only at hb' ⊢
    have hbz : b < o.z := by omega
    obtain ⟨bytes, e, hbytes, hnew, hbe⟩ := hbs b (by omega)
    rw [Nat.zero_add, Nat.mod_eq_of_lt (by omega)] at hnew
    have hblk : blocks.getD b [] = bytes := by
      rw [hbl1]
      simp only [List.getD_eq_getElem?_getD, List.getElem?_map]
      rw [List.getElem?_eq_getElem (by omega : b < offs.length)]
      have : offs.getD b (0, 0) = offs[b]'(by omega) := by
        simp [List.getD_eq_getElem?_getD, (by omega : b < offs.length)]
      rw [this] at hbytes
      simp [hbytes]
    have hbb := blockBytes_bytes data _ bytes hb hbytes
    have ht32 : o.t < 2 ^ 32 := by omega
    have hgood := blockEnc_good sv hs b o bytes e hnew htpos ht32 hal hdiv hn hn' hbb
      (hstd e (List.mem_of_getElem? hbe))
    obtain ⟨hsbn, het, hsyms, hsp, _⟩ := blockEnc_new_spec sv b o bytes e hnew
    obtain ⟨hmod, hsl, _⟩ := createSymbols_wf o.t o.al o.n bytes e.src htpos ht32 hal hdiv hn hn' hbb hsyms
    obtain ⟨hrange, hcle⟩ := hco b hbz
    have hbyteslen : bytes.length = counts.getD b 0 * o.t := by
      rw [← hblk, hblen b (by omega), hrange]
    have hek : e.k = counts.getD b 0 := by
      show e.src.length = _
      rw [hsl, hbyteslen, Nat.mul_div_cancel _ htpos]
    have hkt : e.k * o.t < 2 ^ 32 := by
      have h1 : e.k ≤ 56403 := by omega
      calc e.k * o.t ≤ 56403 * o.t := Nat.mul_le_mul_right _ h1
        _ < 2 ^ 32 := by omega
    obtain ⟨d, hdnew, htr, hdn, hdal⟩ := new_tracks e o.t o htpos rfl hkt
    have hdb : dbs[b]? = some d := by
      rw [hdbs b (by omega), Nat.zero_add, Nat.mod_eq_of_lt (by omega), ← hek, ← hsbn]
      exact hdnew
    refine ⟨e, d, hbe, by simpa using hdb, hsbn, hgood, htr, ?_, ?_⟩
    · rw [hblk]
      constructor
      · exact ht32
      · rw [hdal]; exact hal
      · rw [hdal]; exact hdiv
      · rw [hdn]; exact hn
      · rw [hdn, hdal]; exact hn'
      · rw [hbyteslen, hek]
      · exact hbb
      · rw [hdn, hdal]; exact hsyms
    · left
      simp [Array.getD]

end Rq.C01
