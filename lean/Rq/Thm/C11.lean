import Rq.Thm.C10
import Rq.Model.Kernels
import Rq.Lemmas.Kernels
/-!
# C11 — bulk symbol kernels equal element-wise field operations on every code path

Model: `Rq/Model/Kernels.lean`. Statements are for every buffer length (no bound), every scalar,
every contents (bytes), and every instruction-set path. Alignment does not exist in the model
(the code uses unaligned loads and stores only; the correspondence run sweeps alignments).
-/
namespace Rq.C11
open Rq

def IsBytes (l : List Nat) : Prop := ∀ x ∈ l, x < 256

/-! ## Spec: element-wise GF(256) operations -/
def specAdd (d s : List Nat) : List Nat := List.zipWith (· ^^^ ·) d s
def specMul (c : Nat) (d : List Nat) : List Nat := d.map (gmul c)
def specFma (c : Nat) (d s : List Nat) : List Nat := List.zipWith (fun a b => a ^^^ gmul c b) d s
/-- dest ^= c * bit, bits taken from the packed vector by its documented layout -/
def specFmaBin (c : Nat) (d : List Nat) (o : BinVec) : List Nat :=
  List.zipWith (fun a bit => a ^^^ (if bit = 1 then c else 0)) d o.toOctets

/-! ## loops: a window loop touches exactly its windows, each once -/

set_option linter.unusedVariables false in
/-- pointwise characterisation of the vector loop when `f` acts element-wise through `g`
(`hw`, `hd`, `hs` are not needed: see `Rq.vecLoop_getD` for the general form) -/
theorem vecLoop_pointwise (w : Nat) (hw : 0 < w) (f : List Nat → List Nat → List Nat) (g : Nat → Nat → Nat)
    (hf : ∀ a b, a.length = w → b.length = w → f a b = List.zipWith g a b)
    (lo hi : Nat) (d s : List Nat) (hd : hi * w ≤ d.length) (hs : d.length ≤ s.length) (i : Nat) (hi' : i < d.length) :
    (vecLoop w f lo hi d s).getD i 0 =
      if lo * w ≤ i ∧ i < hi * w then g (d.getD i 0) (s.getD i 0) else d.getD i 0 := by
  rw [vecLoop_getD w f g lo hi d s]
  · simp only [hi', and_true]
  · intro k _ _
    rw [hf _ _ (loadAt_length _ _ _) (loadAt_length _ _ _)]
    refine ⟨by simp [loadAt_length], ?_⟩
    intro j hj
    rw [zipWith_getD _ _ _ _ (by rw [loadAt_length]; exact hj) (by rw [loadAt_length]; exact hj),
      loadAt_getD _ _ _ _ hj, loadAt_getD _ _ _ _ hj]

theorem vecLoop_length (w : Nat) (f : List Nat → List Nat → List Nat) (lo hi : Nat) (d s : List Nat) :
    (vecLoop w f lo hi d s).length = d.length := by
  exact vecLoop_length' w f lo hi d s

/-! ## lanes -/

/-- the 64-bit shift by 4 after masking gives each byte's high nibble (SSSE3 / AVX2 form) -/
theorem srli4_masked (blk : List Nat) (hb : IsBytes blk) (h8 : blk.length % 8 = 0) :
    srli4 (blk.map (· &&& 0xF0)) = blk.map (· / 16) := by
  exact srli4_masked' blk h8 hb

/-- … and so does masking after the shift (AVX-512 form) -/
theorem srli4_then_mask (blk : List Nat) (hb : IsBytes blk) (h8 : blk.length % 8 = 0) :
    (srli4 blk).map (· &&& 0x0F) = blk.map (· / 16) := by
  exact srli4_then_mask' blk h8 hb

/-- **one vector step multiplies every byte of the block by the scalar** (every ISA) -/
theorem nibbleMul_eq (isa : Isa) (c : Nat) (hc : c < 256) (blk : List Nat) (hb : IsBytes blk)
    (hl : blk.length = isa.width) : nibbleMul isa c blk = blk.map (gmul c) := by
  exact nibbleMul_eq' isa c hc blk hb (by rw [hl]; exact isa.width_mod8)

/-! ## kernels: every length, every scalar, every path -/

theorem addAssign_correct (p : Path) (d s : List Nat) (h : d.length = s.length) :
    addAssign p d s = some (specAdd d s) := by
  unfold addAssign specAdd
  rw [if_neg (by simpa using h)]
  cases p <;> simp only []
  · rw [addAssignFallback_eq d s h]
  · rw [addAssignVec_eq 16 (by simp) d s h]
  · rw [addAssignVec_eq 32 (by simp) d s h]
  · rw [addAssignVec_eq 64 (by simp) d s h]

theorem addAssign_refuses (p : Path) (d s : List Nat) (h : d.length ≠ s.length) : addAssign p d s = none := by
  simp [addAssign, h]

theorem mulAssign_correct (p : Path) (c : Nat) (hc : c < 256) (d : List Nat) (hd : IsBytes d) :
    mulAssign p c d = specMul c d := by
  unfold mulAssign specMul
  cases p <;> simp only []
  · exact mulAssignFallback_eq c hc d hd
  · exact mulAssignVec_eq .ssse3 c hc d hd
  · exact mulAssignVec_eq .avx2 c hc d hd
  · exact mulAssignVec_eq .avx512 c hc d hd

theorem fma_correct (p : Path) (c : Nat) (hc : c < 256) (d s : List Nat) (hs : IsBytes s)
    (h : d.length = s.length) : fma p c d s = some (specFma c d s) := by
  unfold fma specFma
  rw [if_neg (by simpa using h)]
  cases p <;> simp only []
  · rw [fmaFallback_eq c hc d s hs h]
  · rw [fmaVec_eq .ssse3 c hc d s hs h]
  · rw [fmaVec_eq .avx2 c hc d s hs h]
  · rw [fmaVec_eq .avx512 c hc d s hs h]

/-- binary FMA: head / whole-unit split covers [0, len) exactly once for every `length`
(every padding 0..63), on the AVX-512 (64-bit units), AVX2 (32-bit units) and portable routes -/
theorem fmaBin_correct (p : Path) (c : Nat) (hc : c < 256) (d : List Nat) (o : BinVec)
    (hw : o.wf = true) (hl : d.length = o.length) (hwords : ∀ x ∈ o.words, x < 2 ^ 64) :
    fmaBin p c d o = some (specFmaBin c d o) := by
  have hbits := toOctets_bits o
  have hlt : d.length = o.toOctets.length := by rw [toOctets_length]; exact hl
  have hportable : ∀ p' : Path, (if c = 1 then addAssign p' d o.toOctets else fma p' c d o.toOctets) =
      some (specFmaBin c d o) := by
    intro p'
    unfold specFmaBin
    by_cases h1 : c = 1
    · rw [if_pos h1, addAssign_correct p' d _ hlt, h1]
      unfold specAdd
      rw [zipWith_congr_right _ _ d _ (fun b hb a => xor_bit a b (hbits b hb))]
    · rw [if_neg h1, fma_correct p' c hc d _ (fun b hb => by have := hbits b hb; omega) hlt]
      unfold specFma
      rw [zipWith_congr_right _ _ d _ (fun b hb a => by rw [gmul_bit c b hc (hbits b hb)])]
  unfold fmaBin
  rw [if_neg (by simp [hl, hw])]
  by_cases he : d.isEmpty = true
  · rw [if_pos he]
    have : d = [] := List.isEmpty_iff.mp he
    subst this
    simp [specFmaBin]
  · rw [if_neg he]
    cases p <;> simp only []
    · exact hportable _
    · exact hportable _
    · rw [hl, if_pos (fmaBinVecAssert_true 32 (by simp) o)]
      unfold specFmaBin
      rw [fmaBinVec_eq 32 (by simp) c hc d o hl]
    · rw [hl, if_pos (fmaBinVecAssert_true 64 (by simp) o)]
      unfold specFmaBin
      rw [fmaBinVec_eq 64 (by simp) c hc d o hl]

/-! ## Non-vacuity -/
example : addAssign .avx512 [1, 2, 3] [4, 5, 6] = some [5, 7, 5] := by decide
example : BinVec.toOctets ⟨[0x8000000000000000], 1⟩ = [1] := by decide

end Rq.C11
