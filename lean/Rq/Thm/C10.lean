import Rq.Lemmas.GF256Field
import Rq.Lemmas.Pack
/-!
# C10 — octet arithmetic is the field GF(256) of RFC 6330 5.7

Model: `Rq/Model/GF256.lean` (`gmul`, `gdiv`, `gfma`, `galpha`, and the three derived tables both
as the crate's `const fn`s compute them and as dumped from the compiled crate).
Spec: `pmul`, carry-less multiplication of polynomials over GF(2) reduced modulo
x^8 + x^4 + x^3 + x^2 + 1 (0x11D), written without any table.
-/
set_option exponentiation.threshold 4096
namespace Rq.C10
open Rq

/-! ## Spec: the polynomial definition -/

/-- multiplication by x modulo x^8+x^4+x^3+x^2+1 -/
def xtime (a : Nat) : Nat := if a * 2 ≥ 256 then (a * 2) ^^^ 0x11D else a * 2

/-- a·x^k -/
def xpow (a : Nat) : Nat → Nat
  | 0 => a
  | k + 1 => xtime (xpow a k)

/-- polynomial product: Σ_{k<8, bit k of b} a·x^k (xor) -/
def pmul (a b : Nat) : Nat :=
  sel (b.testBit 0) (xpow a 0) ^^^ sel (b.testBit 1) (xpow a 1) ^^^ sel (b.testBit 2) (xpow a 2) ^^^
  sel (b.testBit 3) (xpow a 3) ^^^ sel (b.testBit 4) (xpow a 4) ^^^ sel (b.testBit 5) (xpow a 5) ^^^
  sel (b.testBit 6) (xpow a 6) ^^^ sel (b.testBit 7) (xpow a 7)

/-- a·2^k through the tables is a·x^k of the polynomial definition (2048 cases) -/
def factXpow : Bool :=
  (List.range 256).all fun a => (List.range 8).all fun k => gmulP a (2 ^ k) == xpow a k
theorem factXpow_ok : factXpow = true := by decide +kernel

/-- **All 65 536 products match the polynomial definition** (65 536-case linearity fact
`gmulP_bitsum` + the 2048 cases above). -/
theorem gmul_eq_pmul (a b : Nat) (ha : a < 256) (hb : b < 256) : gmul a b = pmul a b := by
  rw [gmul_eq_gmulP a b ha hb, gmulP_bitsum a b ha hb]
  have := factXpow_ok
  simp only [factXpow, List.all_eq_true, List.mem_range, beq_iff_eq] at this
  have h := this a ha
  unfold bitsum pmul
  rw [← h 0 (by decide), ← h 1 (by decide), ← h 2 (by decide), ← h 3 (by decide), ← h 4 (by decide),
    ← h 5 (by decide), ← h 6 (by decide), ← h 7 (by decide)]

/-- the model's product as field multiplication -/
theorem gmul_field (a b : GF256) : gmul a.val b.val = (a * b).val := by
  rw [gmul_eq_gmulP _ _ a.lt b.lt]; rfl

/-- addition is xor -/
theorem gadd_field (a b : GF256) : gadd a.val b.val = (a + b).val := rfl

/-! ## Field laws for all elements (all 256^3 triples — by algebra, not enumeration) -/

theorem mul_assoc' (a b c : GF256) : a * b * c = a * (b * c) := mul_assoc a b c
theorem mul_comm' (a b : GF256) : a * b = b * a := mul_comm a b
theorem left_distrib' (a b c : GF256) : a * (b + c) = a * b + a * c := left_distrib a b c
theorem mul_inv_cancel' (a : GF256) (h : a ≠ 0) : a * a⁻¹ = 1 := mul_inv_cancel₀ h
theorem add_self' (a : GF256) : a + a = 0 := by ext; simp

/-! ## Division, fused multiply-add, alpha -/

theorem gdiv_zero (a : Nat) : gdiv a 0 = none := by simp [gdiv]

/-- Division is multiplication by the inverse. -/
theorem gdiv_field (a b : GF256) (hb : b ≠ 0) : gdiv a.val b.val = some (a / b).val := by
  have hb0 : b.val ≠ 0 := fun h => hb (by ext; simpa using h)
  unfold gdiv
  rw [if_neg hb0]
  by_cases ha0 : a.val = 0
  · rw [if_pos ha0]
    have : a = 0 := by ext; simpa using ha0
    subst this; rw [div_eq_mul_inv, zero_mul]; rfl
  · rw [if_neg ha0, div_eq_mul_inv]
    have hla := E_Lg a.val ha0 a.lt
    have hlb := E_Lg b.val hb0 b.lt
    rw [olog_eq _ a.lt, olog_eq _ b.lt, oexp_eq _ (by omega)]
    show some (E (255 + Lg a.val - Lg b.val)) = some (gmulP a.val (ginvP b.val))
    have hm : (255 - Lg b.val) % 255 < 255 := Nat.mod_lt _ (by decide)
    have hE : E (255 - Lg b.val) = E ((255 - Lg b.val) % 255) := E_mod _ (by omega)
    have hne : ginvP b.val ≠ 0 := by
      unfold ginvP; rw [if_neg hb0, hE]; exact (Lg_E _ hm).2
    have hlg : Lg (ginvP b.val) = (255 - Lg b.val) % 255 := by
      unfold ginvP; rw [if_neg hb0, hE]; exact (Lg_E _ hm).1
    rw [gmulP_of_ne _ _ ha0 hne, hlg, E_mod (255 + Lg a.val - Lg b.val) (by omega),
      E_mod (Lg a.val + (255 - Lg b.val) % 255) (by omega)]
    congr 2
    omega

/-- every non-zero element times its quotient inverse is one -/
theorem mul_div_one (a : GF256) (h : a ≠ 0) : a * (1 / a) = 1 := by
  rw [one_div]; exact mul_inv_cancel₀ h

/-- Fused multiply-add equals add after multiply. -/
theorem gfma_field (c a b : GF256) : gfma c.val a.val b.val = (c + a * b).val := by
  unfold gfma
  by_cases h : a.val ≠ 0 ∧ b.val ≠ 0
  · rw [if_pos h, olog_eq _ a.lt, olog_eq _ b.lt,
      oexp_eq _ (by have := Lg_le _ a.lt; have := Lg_le _ b.lt; omega)]
    simp [gmulP, h.1, h.2]
  · rw [if_neg h]
    have : gmulP a.val b.val = 0 := by
      unfold gmulP; rw [if_pos]; by_cases h1 : a.val = 0 <;> simp_all
    simp [this]

def factAlpha : Bool := (List.range 255).all fun i => E (i + 1) == gmulP (E i) 2
theorem factAlpha_ok : factAlpha = true := by decide +kernel

/-- alpha(i) = 2^i in the field, for every exponent 0..255. -/
theorem galpha_field (i : Nat) (h : i < 256) :
    ∃ v, galpha i = some v ∧ GF256.of v = (GF256.of 2) ^ i := by
  refine ⟨E i, ?_, ?_⟩
  · unfold galpha; rw [if_pos h, oexp_eq _ (by omega)]
  · induction i with
    | zero => ext; simp [GF256.of]; decide +kernel
    | succ n ih =>
      have ihn := ih (by omega)
      rw [pow_succ, ← ihn]
      have := factAlpha_ok
      simp only [factAlpha, List.all_eq_true, List.mem_range, beq_iff_eq] at this
      ext
      simp [GF256.of, Nat.mod_eq_of_lt (E_lt _), Nat.mod_eq_of_lt (gmulP_lt _ _), this n (by omega)]

theorem galpha_refuses (i : Nat) (h : 256 ≤ i) : galpha i = none := by
  unfold galpha; rw [if_neg (by omega)]

/-! ## Derived tables: as computed by the crate's `const fn`s, and as dumped from the build -/

/-- OCTET_MUL as `calculate_octet_mul_table` builds it is the product table. -/
theorem mulTableEntry_eq (i j : Nat) : mulTableEntry i j = gmul i j := by
  unfold mulTableEntry gmul constMul; rfl

/-- rows lo..lo+63 of the dumped OCTET_MUL equal the packed rows of field products -/
def factMulDump (lo : Nat) : Bool :=
  (List.range 64).all fun s =>
    (Gen.octMulP >>> (8 * 256 * (lo + s))) % 2 ^ (8 * 256) == pack8 (gmulP (lo + s)) 256
theorem factMulDump_ok0 : factMulDump 0 = true := by decide +kernel
theorem factMulDump_ok1 : factMulDump 64 = true := by decide +kernel
theorem factMulDump_ok2 : factMulDump 128 = true := by decide +kernel
theorem factMulDump_ok3 : factMulDump 192 = true := by decide +kernel

/-- the OCTET_MUL table inside the compiled crate agrees with the field (all 65 536 entries) -/
theorem mulLookup_eq (s x : Nat) (hs : s < 256) (hx : x < 256) : mulLookup s x = gmul s x := by
  unfold mulLookup octMulA
  rw [tget_mkArr8 _ _ _ (by omega), gmul_eq_gmulP _ _ hs hx, tb8_row _ 256 s x hx]
  have l : ∀ lo, factMulDump lo = true → ∀ s, s < 64 →
      (Gen.octMulP >>> (8 * 256 * (lo + s))) % 2 ^ (8 * 256) = pack8 (gmulP (lo + s)) 256 := by
    intro lo h
    simpa only [factMulDump, List.all_eq_true, List.mem_range, beq_iff_eq] using h
  have := rows256 (fun s => (Gen.octMulP >>> (8 * 256 * s)) % 2 ^ (8 * 256) = pack8 (gmulP s) 256)
    (l 0 factMulDump_ok0) (l 64 factMulDump_ok1) (l 128 factMulDump_ok2) (l 192 factMulDump_ok3) s hs
  rw [this, tb8_pack8 _ (fun i => gmulP_lt s i) 256 x hx]

def factNibbleDump : Bool :=
  (List.range 256).all fun s =>
    (Gen.octMulLoP >>> (8 * 32 * s)) % 2 ^ (8 * 32) == pack8 (fun j => gmulP s (j % 16)) 32 &&
    (Gen.octMulHiP >>> (8 * 32 * s)) % 2 ^ (8 * 32) == pack8 (fun j => gmulP s ((j % 16) * 16)) 32
theorem factNibbleDump_ok : factNibbleDump = true := by decide +kernel

/-- low / high nibble tables of the compiled crate: both 16-byte halves hold s·j and s·(16j) -/
theorem lowLookup_eq (s j : Nat) (hs : s < 256) (hj : j < 32) : lowLookup s j = gmul s (j % 16) := by
  unfold lowLookup octMulLoA
  rw [tget_mkArr8 _ _ _ (by omega), gmul_eq_gmulP _ _ hs (by omega), tb8_row _ 32 s j hj]
  have := factNibbleDump_ok
  simp only [factNibbleDump, List.all_eq_true, List.mem_range, Bool.and_eq_true, beq_iff_eq] at this
  rw [(this s hs).1, tb8_pack8 _ (fun i => gmulP_lt s _) 32 j hj]

theorem hiLookup_eq (s j : Nat) (hs : s < 256) (hj : j < 32) :
    hiLookup s j = gmul s ((j % 16) * 16) := by
  unfold hiLookup octMulHiA
  rw [tget_mkArr8 _ _ _ (by omega), gmul_eq_gmulP _ _ hs (by omega), tb8_row _ 32 s j hj]
  have := factNibbleDump_ok
  simp only [factNibbleDump, List.all_eq_true, List.mem_range, Bool.and_eq_true, beq_iff_eq] at this
  rw [(this s hs).2, tb8_pack8 _ (fun i => gmulP_lt s _) 32 j hj]

theorem lowTableEntry_eq (i j : Nat) : lowTableEntry i j = gmul i (j % 16) := by
  unfold lowTableEntry gmul constMul; rfl
theorem hiTableEntry_eq (i j : Nat) : hiTableEntry i j = gmul i ((j % 16) * 16) := by
  unfold hiTableEntry gmul constMul
  by_cases h : j % 16 = 0
  · simp [h]
  · have : j % 16 * 16 ≠ 0 := by omega
    simp [h, this]

/-- The vector kernels' identity: low-nibble entry xor high-nibble entry is the product. -/
theorem nibble_split (s x : Nat) (hs : s < 256) (hx : x < 256) :
    gmul s (x % 16) ^^^ gmul s ((x / 16) * 16) = gmul s x := by
  rw [gmul_eq_gmulP _ _ hs (by omega), gmul_eq_gmulP _ _ hs (by omega), gmul_eq_gmulP _ _ hs hx,
    ← gmulP_xor _ _ _ hs (by omega) (by omega)]
  congr 1
  apply Nat.eq_of_testBit_eq
  intro k
  have e1 : x % 16 = x % 2 ^ 4 := rfl
  have e2 : x / 16 * 16 = (x >>> 4) <<< 4 := by rw [Nat.shiftLeft_eq, Nat.shiftRight_eq_div_pow]
  rw [e1, e2, Nat.testBit_xor, Nat.testBit_mod_two_pow, Nat.testBit_shiftLeft, Nat.testBit_shiftRight]
  by_cases hk : k < 4
  · have : ¬ (4 ≤ k) := by omega
    simp [hk, this]
  · have h4 : 4 ≤ k := by omega
    simp [hk, h4, show 4 + (k - 4) = k by omega]

/-- index safety of the unchecked look-ups: `OCT_EXP[log u + log v]` stays below 510 -/
theorem exp_index_safe (a b : Nat) (ha : a < 256) (hb : b < 256) : olog a + olog b < 510 := by
  rw [olog_eq a ha, olog_eq b hb]; have := Lg_le a ha; have := Lg_le b hb; omega

/-! ## Non-vacuity -/
example : gmul 2 128 = 29 := by
  rw [gmul_eq_pmul 2 128 (by decide) (by decide)]; decide
example : (GF256.of 3) * (GF256.of 3)⁻¹ = 1 := mul_inv_cancel₀ (by decide)

end Rq.C10
