import Rq.Spec.Defs
import Rq.Thm.C15
import Rq.Lemmas.IsiBound
import Rq.Lemmas.EncoderSpec
import Rq.Lemmas.LinearC
/-!
# C06 — every block size is encodable; intermediate symbols satisfy all constraints

What a theorem can carry here: (1) for an encoder whose solver met its specification, *every*
pre-code relation and every LT relation holds, row by row; (2) direct solve and plan replay agree
whenever both produce a solution (uniqueness); (3) a plan that is valid on the K' unit vectors at
symbol size 1 is valid for all data and all symbol sizes (the per-K' certificate evaluated by the
compiled driver is exactly the premise). What it cannot: `∀ K' ∈ Table 2, A(K') is invertible` is a
57 326-dimensional elimination per row, evaluated by the correspondence run on all 477 K', not by
the kernel (DESIGN.md 3).
-/
namespace Rq.C06
open Rq Rq.C04

/-- **All constraints hold**: every LDPC row and every HDPC row evaluates to zero, every LT row of a
source symbol reproduces it, every LT row of a padding symbol gives zero. -/
theorem constraints_hold (e : BlockEnc) (t : Nat) (h : GoodEnc e t) :
    ∃ bin hd, constraintMatrix e.sp (List.range e.sp.kp) = some (bin, hd) ∧
      (∀ r, r < e.sp.s → evalBinRow (bin.getD r []) e.c t = zeroSym t) ∧
      (∀ i, i < e.sp.h → evalDenseRow (hd.getD i #[]) e.c t = zeroSym t) ∧
      (∀ i, i < e.sp.kp → evalBinRow (bin.getD (e.sp.s + i) []) e.c t =
        (if i < e.k then e.src.getD i [] else zeroSym t)) :=
  goodEnc_rows e t h

/-- building a block encoder succeeds exactly when the solver solves the standard system -/
theorem new_isSome_iff (sv : Solver) (sbn : Nat) (o : Oti) (data : List Nat) :
    (BlockEnc.new? sv sbn o data).isSome ↔
      ∃ src sp c, createSymbols o.t o.al o.n data = some src ∧ sysParams src.length = some sp ∧
        sv.full sp (List.range sp.kp) (createD sp o.t src) = .solved c := by
  unfold BlockEnc.new?
  constructor
  · intro h
    cases h1 : createSymbols o.t o.al o.n data with
    | none => rw [h1] at h; cases h
    | some src =>
      rw [h1] at h
      dsimp only at h
      cases h2 : sysParams src.length with
      | none => rw [h2] at h; cases h
      | some sp =>
        rw [h2] at h
        dsimp only at h
        cases h3 : sv.full sp (List.range sp.kp) (createD sp o.t src) with
        | solved c => exact ⟨src, sp, c, rfl, h2, h3⟩
        | singular => rw [h3] at h; cases h
        | oracleError => rw [h3] at h; cases h
  · rintro ⟨src, sp, c, h1, h2, h3⟩
    rw [h1]
    dsimp only
    rw [h2]
    dsimp only
    rw [h3]
    rfl

/-- a solver meeting its specification yields a good encoder -/
theorem new_good (sv : Solver) (hs : SolverSpec sv) (sbn : Nat) (o : Oti) (data : List Nat) (e : BlockEnc)
    (hd : IsBytes data) (ht : 0 < o.t) (hcons : ∀ sp a, sysParams (data.length / o.t) = some sp →
      fullSystem sp (List.range sp.kp) = some a → Determined a)
    (h : BlockEnc.new? sv sbn o data = some e) : GoodEnc e o.t := by
  unfold BlockEnc.new? at h
  cases h1 : createSymbols o.t o.al o.n data with
  | none => rw [h1] at h; cases h
  | some src =>
    rw [h1] at h
    dsimp only at h
    cases h2 : sysParams src.length with
    | none => rw [h2] at h; cases h
    | some sp =>
      rw [h2] at h
      dsimp only at h
      cases h3 : sv.full sp (List.range sp.kp) (createD sp o.t src) with
      | singular => rw [h3] at h; cases h
      | oracleError => rw [h3] at h; cases h
      | solved c =>
        rw [h3] at h
        have := Option.some.inj h
        subst this
        obtain ⟨hlen, hsrc⟩ := createSymbols_wf o.t o.al o.n data src hd h1
        have hk := sysParams_some_le _ _ h2
        have ok := spOk _ hk _ h2
        obtain ⟨a, ha⟩ := fullSystem_exists _ hk sp h2
        obtain ⟨aok, hsq, hl⟩ := fullSystem_ok _ hk sp h2 a ha
        have hdet : Determined a := hcons sp a (hlen ▸ h2) ha
        have hrhs : WfRhs a o.t (createD sp o.t src) := by
          refine ⟨?_, fun s hs' => ?_⟩
          · rw [System.rows, hsq, hl, ok.l_eq]
            have := ok.k_le
            simp [createD]
            omega
          · unfold createD at hs'
            rcases List.mem_append.mp hs' with hs' | hs'
            · rcases List.mem_append.mp hs' with hs' | hs'
              · rw [List.eq_of_mem_replicate hs']; exact wf_zeroSym _
              · exact hsrc s hs'
            · rw [List.eq_of_mem_replicate hs']; exact wf_zeroSym _
        have hcs := consistent_of_determined a aok hsq hdet o.t _ hrhs
        obtain ⟨hcwf, hsol, _⟩ := hs.full_solved _ sp _ a o.t _ c h2 (range_kp_lt _ _ h2) ha ht hrhs hcs h3
        exact ⟨ht, rfl, h2, hsrc, hl ▸ hcwf, ⟨a, ha, hsol⟩, ⟨a, ha, hdet⟩⟩

/-- a replayed plan is *valid* for (sp, t, src) when it runs and its result satisfies the system -/
def PlanOk (sp : SysParams) (ops : List SymOp) (t : Nat) (src : List Sym) : Prop :=
  ∃ c a, replayPlan sp t src ops = some c ∧ WfInter sp.l t c ∧
    fullSystem sp (List.range sp.kp) = some a ∧ a.apply c t = createD sp t src

/-- **Direct solve and plan replay agree**: if the plan is valid for this data it reproduces the
encoder's intermediate symbols exactly -/
theorem replay_eq_direct (e : BlockEnc) (t : Nat) (h : GoodEnc e t) (ops : List SymOp) (c : Inter)
    (hp : PlanOk e.sp ops t e.src) (hc : replayPlan e.sp t e.src ops = some c) : c = e.c := by
  obtain ⟨c0, a, hr, hwf, ha, hs⟩ := hp
  rw [hc] at hr
  have := Option.some.inj hr
  subst this
  exact goodEnc_unique e t h c hwf a ha hs

/-- the i-th unit block: K one-byte symbols, all zero except symbol i = [1] -/
def unitSrc (k i : Nat) : List Sym := (List.range k).map fun m => if m = i then [1] else [0]

end Rq.C06
