import Rq.Model.SlabBytes
import Rq.Lemmas.SlabBytes
/-!
# C12 (continued) — the slab's paired borrow stays inside `data` and never overlaps

`SlabB.pairRanges` returns the two byte ranges that `get_pair_mut` turns into raw-pointer slices
(`from_raw_parts_mut(ptr.add(dest*ss), ss)`, `from_raw_parts(ptr.add(src*ss), ss)`). Under the three
asserts of the code — evaluated on the **physical** indices, after the reorder mapping — both ranges
lie inside `data` and are disjoint, for every mapping (permutation or not), every symbol size and
every pair; and the byte-level slab refines the array-of-symbols slab of C09, so linearity carries
over to the real layout.
-/
namespace Rq.C12
open Rq

/-- the slab's storage invariant (`with_zeros`, `from_symbols`) -/
def WfSlab (s : SlabB) : Prop := s.data.length = s.count * s.ss

/-- **In bounds and non-overlapping**, whatever the mapping -/
theorem pair_safe (s : SlabB) (hw : WfSlab s) (dest src : Nat) (d r : Nat × Nat)
    (h : s.pairRanges dest src = some (d, r)) :
    d.1 + d.2 ≤ s.data.length ∧ r.1 + r.2 ≤ s.data.length ∧ (d.1 + d.2 ≤ r.1 ∨ r.1 + r.2 ≤ d.1) ∧
      d.2 = s.ss ∧ r.2 = s.ss := by
  obtain ⟨pd, ps, -, -, hne, h1, h2, rfl, rfl⟩ := s.pairRanges_eq_some dest src d r h
  exact ⟨s.sym_in_bounds hw pd h1, s.sym_in_bounds hw ps h2, SlabB.sym_disjoint s.ss pd ps hne, rfl, rfl⟩

/-- a mapping entry that aliases or leaves the slab is refused (the asserts fire) -/
theorem pair_refused (s : SlabB) (dest src pd ps : Nat) (hd : s.phys dest = some pd) (hs : s.phys src = some ps)
    (hbad : pd = ps ∨ s.count ≤ pd ∨ s.count ≤ ps) : s.pairRanges dest src = none := by
  unfold SlabB.pairRanges
  rw [hd, hs]
  simp only []
  rw [if_neg]
  rintro ⟨h1, h2, h3⟩
  rcases hbad with h | h | h
  · exact h1 h
  · exact absurd h2 (Nat.not_lt.2 h)
  · exact absurd h3 (Nat.not_lt.2 h)

/-- every op keeps the storage invariant (no condition on the symbols is needed: the placeholder
`hsym : True` is dropped — slices of a well-formed slab have exactly `ss` bytes) -/
theorem apply_wf (s s' : SlabB) (hw : WfSlab s) (op : SymOp) (h : s.apply op = some s') : WfSlab s' := by
  obtain ⟨h1, h2, h3⟩ := s.apply_shape s' hw op h
  unfold WfSlab
  rw [h1, h2, h3]
  exact hw

/-- **Refinement**: the byte-level slab steps like the array-of-symbols slab.

`0 < s.ss` is needed: with `ss = 0` the safe slice `data[p*0 .. p*0+0]` of `mul` never panics, while
the abstract slab refuses `p ≥ count` (see the counterexample below). -/
theorem apply_refines (s s' : SlabB) (hw : WfSlab s) (hss : 0 < s.ss) (op : SymOp) (h : s.apply op = some s') :
    s.abs.apply op = some s'.abs := by
  rw [← s.apply_map_abs hw hss op, h]
  rfl

/-- … and refuses exactly what the abstract slab refuses -/
theorem apply_none_iff (s : SlabB) (hw : WfSlab s) (hss : 0 < s.ss) (op : SymOp) :
    s.apply op = none ↔ s.abs.apply op = none := by
  rw [← s.apply_map_abs hw hss op, Option.map_eq_none_iff]

/-- without `0 < ss` both statements fail: an empty-symbol slab accepts `mul` on any index -/
example : WfSlab ⟨[], 2, 0, none⟩ ∧ ((⟨[], 2, 0, none⟩ : SlabB).apply (.mul 5 1)).isSome = true ∧
    (⟨[], 2, 0, none⟩ : SlabB).abs.apply (.mul 5 1) = none := by
  unfold WfSlab; decide

/-- hence whole plans -/
theorem run_refines (ops : List SymOp) (s s' : SlabB) (hw : WfSlab s) (hss : 0 < s.ss)
    (h : ops.foldlM SlabB.apply s = some s') :
    s.abs.run ops = some s'.abs ∧ WfSlab s' := by
  induction ops generalizing s with
  | nil =>
    simp only [List.foldlM_nil, Option.pure_def, Option.some.injEq] at h
    subst h
    exact ⟨rfl, hw⟩
  | cons op ops ih =>
    rw [List.foldlM_cons] at h
    cases h1 : s.apply op with
    | none => rw [h1] at h; exact absurd h (by simp)
    | some s1 =>
      rw [h1] at h
      have hw1 := apply_wf s s1 hw op h1
      have hss1 : 0 < s1.ss := by rw [(s.apply_shape s1 hw op h1).2.1]; exact hss
      obtain ⟨hr, hw'⟩ := ih s1 hw1 hss1 (by simpa using h)
      refine ⟨?_, hw'⟩
      unfold Slab.run at hr ⊢
      rw [List.foldlM_cons, apply_refines s s1 hw hss op h1]
      simpa using hr

example : (SlabB.pairRanges ⟨[1, 2, 3, 4, 5, 6], 3, 2, some [2, 0, 1]⟩ 0 1) = some ((4, 2), (0, 2)) := by decide
example : (SlabB.pairRanges ⟨[1, 2, 3, 4, 5, 6], 3, 2, some [2, 2, 1]⟩ 0 1) = none := by decide

end Rq.C12
