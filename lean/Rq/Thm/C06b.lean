import Rq.Spec.Defs
import Rq.Thm.C06
import Rq.Thm.C09
import Rq.Lemmas.PlanCert
/-!
# C06 (continued) — one replay certifies a plan for all data and all symbol sizes

A plan (list of symbol operations) is *valid* for given data when replaying it on D produces
intermediate symbols satisfying the whole constraint system. The theorem: if the plan is valid for
the **identity block** (K symbols of K bytes, symbol i = unit vector e_i) then it is valid for every
block of K symbols of every symbol size. The premise is one replay at symbol size K, evaluated by
the compiled model driver per K' (request `planrun K K <identity> <ops>`), i.e. the per-K'
certificate of DESIGN.md 7/C06; everything else is this theorem.
-/
namespace Rq.C06
open Rq

/-- the identity block: K symbols of K bytes, symbol i = e_i -/
def identSrc (k : Nat) : List Sym := (List.range k).map fun i => (List.range k).map fun j => if j = i then 1 else 0

/-- scalars of multiply / fma ops are bytes -/
def OpsOk (ops : List SymOp) : Prop :=
  ∀ op ∈ ops, match op with | .mul _ c => c < 256 | .fma _ _ c => c < 256 | _ => True

-- `hsp` documents where `sp` comes from; the proof needs only the certificate itself
set_option linter.unusedVariables false in
/-- **Certificate ⇒ all data, all symbol sizes.** -/
theorem plan_certificate (k : Nat) (sp : SysParams) (hsp : sysParams k = some sp) (hk : 0 < k)
    (ops : List SymOp) (hops : OpsOk ops) (hcert : PlanOk sp ops k (identSrc k)) :
    ∀ t, 0 < t → ∀ src : List Sym, src.length = k → (∀ s ∈ src, WfSym t s) → PlanOk sp ops t src := by
  obtain ⟨cI, a, hcI, hwfI, ha, hsolI⟩ := hcert
  obtain ⟨hal, hbytes⟩ := fullSystem_hdpc_bytes _ _ a ha
  -- the certificate, read column by column: the plan is valid for every unit one-byte block
  have hidwf : ∀ s ∈ identSrc k, WfSym k s := by
    intro s hs
    obtain ⟨i, _, rfl⟩ := List.mem_map.mp hs
    refine ⟨by simp, ?_⟩
    intro x hx
    obtain ⟨j, _, rfl⟩ := List.mem_map.mp hx
    split <;> decide
  have hunit : ∀ i, i < k → PlanValid sp a ops 1 (blk k fun i' => if i' = i then 1 else 0) := by
    intro i hi
    have := PlanValid.col sp a ops hal k (identSrc k) hidwf ⟨cI, hcI, hwfI, hsolI⟩ i hi
    have e : colSyms i (identSrc k) = blk k fun i' => if i' = i then 1 else 0 := by
      simp only [colSyms, identSrc, blk, List.map_map]
      apply List.map_congr_left
      intro i' _
      simp only [Function.comp, List.getD_eq_getElem?_getD, List.getElem?_map,
        List.getElem?_range hi, Option.map_some, Option.getD_some]
      congr 1
      by_cases h : i = i'
      · rw [if_pos h, if_pos h.symm]
      · rw [if_neg h, if_neg (fun h' => h h'.symm)]
    rwa [e] at this
  intro t ht src hlen hsrc
  have hv : PlanValid sp a ops t src := by
    apply PlanValid.of_cols sp a ops hal hbytes hops t ht src hsrc
    intro j _
    rw [colSyms_eq_blk, hlen]
    apply PlanValid.span sp a ops hal hbytes hops k hk hunit
    intro i hi
    exact getD_lt_of_isBytes (hsrc _ (by
      rw [List.getD_eq_getElem?_getD, List.getElem?_eq_getElem (by omega)]
      exact List.getElem_mem _)).2 j
  obtain ⟨c, hc, hwf, hsol⟩ := hv
  exact ⟨c, a, hc, hwf, ha, hsol⟩

/-! ## Non-vacuity -/
example : identSrc 2 = [[1, 0], [0, 1]] := by decide

end Rq.C06
