import Rq.Thm.C02
import Rq.Lemmas.DetSet
/-!
# C08 — the decoder's outcome is independent of packet order, duplication and batching

For genuine packets of one block / object and an arbitrary solver meeting `SolverSpec`.
-/
namespace Rq.C08
open Rq Rq.C02

/-- same received set: same source slots, repair lists equal up to order -/
structure SameSet (d d' : BlockDec) : Prop where
  src : d.src = d'.src
  repair : d.repair.Perm d'.repair
  params : d.k = d'.k ∧ d.t = d'.t ∧ d.n = d'.n ∧ d.al = d'.al ∧ d.sbn = d'.sbn

theorem genuine_esi_inj (e : BlockEnc) (p q : Packet) (hp : Genuine e p) (hq : Genuine e q)
    (h : p.pid.esi = q.pid.esi) : p = q := by
  obtain ⟨hs1, hc1⟩ := genuine_cases e p hp
  obtain ⟨hs2, hc2⟩ := genuine_cases e q hq
  rcases hc1 with ⟨h1, d1⟩ | ⟨h1, r1⟩
  · rcases hc2 with ⟨h2, d2⟩ | ⟨h2, r2⟩
    · obtain ⟨⟨s1, e1⟩, data⟩ := p
      obtain ⟨⟨s2, e2⟩, data'⟩ := q
      have a1 : s1 = s2 := hs1.trans hs2.symm
      have a2 : e1 = e2 := h
      have a3 : data = data' := d1.trans ((congrArg (fun i => e.src.getD i []) h).trans d2.symm)
      rw [a1, a2, a3]
    · omega
  · rcases hc2 with ⟨h2, d2⟩ | ⟨h2, r2⟩
    · omega
    · rw [h] at r1
      rw [r1] at r2
      injection r2

/-- pushing the same packets in another order, with repetitions, reaches the same set -/
theorem push_comm (d : BlockDec) (e : BlockEnc) (t : Nat) (h : Tracks d e t) (p q : Packet)
    (hp : Genuine e p) (hq : Genuine e q) :
    ∃ d1 d2 d12 d21, d.push p = some d1 ∧ d1.push q = some d12 ∧ d.push q = some d2 ∧ d2.push p = some d21 ∧
      SameSet d12 d21 := by
  have hsp : p.pid.sbn = d.sbn := by rw [(genuine_cases e p hp).1, h.hsbn]
  have hsq : q.pid.sbn = d.sbn := by rw [(genuine_cases e q hq).1, h.hsbn]
  refine ⟨pushF d p, pushF d q, pushF (pushF d p) q, pushF (pushF d q) p, push_eq d p hsp,
    push_eq _ q (by rw [(pushF_params d p).2.2.2.2]; exact hsq), push_eq d q hsq,
    push_eq _ p (by rw [(pushF_params d q).2.2.2.2]; exact hsp), ?_⟩
  by_cases hpq : p.pid.esi = q.pid.esi
  · have := genuine_esi_inj e p q hp hq hpq
    subst this
    exact ⟨rfl, List.Perm.refl _, rfl, rfl, rfl, rfl, rfl⟩
  have hqp : q.pid.esi ≠ p.pid.esi := fun hc => hpq hc.symm
  have m1 : q.pid.esi ∈ (pushF d p).esis ↔ q.pid.esi ∈ d.esis := by
    rw [pushF_mem_esis]; simp [hqp]
  have m2 : p.pid.esi ∈ (pushF d q).esis ↔ p.pid.esi ∈ d.esis := by
    rw [pushF_mem_esis]; simp [hpq]
  have kp := (pushF_params d p).1
  have kq := (pushF_params d q).1
  constructor
  · rw [pushF_src, pushF_src (pushF d q), pushF_src d p, pushF_src d q]
    simp only [m1, m2, kp, kq]
    by_cases c1 : p.pid.esi ∉ d.esis ∧ p.pid.esi < d.k <;>
    by_cases c2 : q.pid.esi ∉ d.esis ∧ q.pid.esi < d.k
    · simp only [if_pos c1, if_pos c2]
      exact Array.setIfInBounds_comm _ _ hpq
    · simp only [if_pos c1, if_neg c2]
    · simp only [if_neg c1, if_pos c2]
    · simp only [if_neg c1, if_neg c2]
  · rw [pushF_repair, pushF_repair (pushF d q), pushF_repair d p, pushF_repair d q]
    simp only [m1, m2, kp, kq]
    by_cases c1 : p.pid.esi ∉ d.esis ∧ d.k ≤ p.pid.esi <;>
    by_cases c2 : q.pid.esi ∉ d.esis ∧ d.k ≤ q.pid.esi
    · simp only [if_pos c1, if_pos c2]
      rw [List.append_assoc, List.append_assoc]
      exact List.Perm.append_left _ (List.perm_append_comm)
    · simp only [if_pos c1, if_neg c2, List.Perm.refl]
    · simp only [if_neg c1, if_pos c2, List.Perm.refl]
    · simp only [if_neg c1, if_neg c2, List.Perm.refl]
  · obtain ⟨a1, a2, a3, a4, a5⟩ := pushF_params (pushF d p) q
    obtain ⟨b1, b2, b3, b4, b5⟩ := pushF_params (pushF d q) p
    obtain ⟨c1, c2, c3, c4, c5⟩ := pushF_params d p
    obtain ⟨e1, e2, e3, e4, e5⟩ := pushF_params d q
    exact ⟨by omega, by omega, by omega, by omega, by omega⟩

theorem push_dup (d : BlockDec) (e : BlockEnc) (t : Nat) (h : Tracks d e t) (p : Packet) (hp : Genuine e p) :
    ∃ d1, d.push p = some d1 ∧ d1.push p = some d1 := by
  have hsp : p.pid.sbn = d.sbn := by rw [(genuine_cases e p hp).1, h.hsbn]
  refine ⟨pushF d p, push_eq d p hsp, ?_⟩
  rw [push_eq _ p (by rw [(pushF_params d p).2.2.2.2]; exact hsp)]
  congr 1
  have : p.pid.esi ∈ (pushF d p).esis := (pushF_mem_esis d p _).mpr (Or.inl rfl)
  exact pushF_of_mem _ _ this

/-- permuting the rows of a system does not change whether it is determined -/
theorem determined_perm (sp : SysParams) (isis isis' : List Nat) (hperm : isis.Perm isis') (a a' : System)
    (ha : fullSystem sp isis = some a) (ha' : fullSystem sp isis' = some a') : Determined a ↔ Determined a' :=
  ⟨determined_subset sp isis isis' a a' ha ha' (fun _ hi => hperm.mem_iff.mp hi),
   determined_subset sp isis' isis a' a ha' ha (fun _ hi => hperm.mem_iff.mpr hi)⟩

theorem isisOf_perm (d d' : BlockDec) (sp : SysParams) (hsame : SameSet d d') :
    (isisOf d sp).Perm (isisOf d' sp) := by
  unfold isisOf
  rw [hsame.src, hsame.params.1]
  exact List.Perm.append_left _ ((hsame.repair.map _))

/-- **The answer depends only on the set of distinct packets received.** -/
theorem attempt_same_set (sv : Solver) (hs : SolverSpec sv) (d d' : BlockDec) (e : BlockEnc) (t : Nat)
    (data : List Nat) (h : Tracks d e t) (h' : Tracks d' e t) (he : GoodEnc e t) (hl : LayoutOk d t data e)
    (hsame : SameSet d d') :
    ∃ res cs cs', d.attempt sv = some (res, cs) ∧ d'.attempt sv = some (res, cs') := by
  have hl' : LayoutOk d' t data e := layoutOk_congr d d' t data e hl hsame.params.2.2.1.symm hsame.params.2.2.2.1.symm
  have hlen : d.esis.length = d'.esis.length := by
    rw [(esis_perm d e t h).length_eq, (esis_perm d' e t h').length_eq, hsame.src]
    simp only [List.length_append, List.length_map]
    rw [hsame.repair.length_eq]
  have hrecv : d.recvSrc = d'.recvSrc := by rw [h.recv_count, h'.recv_count, hsame.src]
  by_cases hn : e.k ≤ d.esis.length
  · obtain ⟨a, res, cs, hsys, hatt, h1, h2⟩ := attempt_iff sv hs d e t data h he hl hn
    obtain ⟨a', res', cs', hsys', hatt', h1', h2'⟩ := attempt_iff sv hs d' e t data h' he hl' (by omega)
    have hdet := determined_perm e.sp _ _ (isisOf_perm d d' e.sp hsame) a a' hsys hsys'
    have hiff : res = some data ↔ res' = some data := by rw [h2, h2', hrecv, hdet]
    have : res = res' := by
      rcases h1 with r1 | r1
      · rw [r1, hiff.mp r1]
      · rcases h1' with r1' | r1'
        · rw [hiff.mpr r1', r1']
        · rw [r1, r1']
    subst this
    exact ⟨res, cs, cs', hatt, hatt'⟩
  · exact ⟨none, .c1, .c1, attempt_case1 sv d e t h he (by omega), attempt_case1 sv d' e t h' he (by omega)⟩

/-- more rows never destroy determinedness -/
theorem determined_mono (sp : SysParams) (isis extra : List Nat) (a a' : System)
    (ha : fullSystem sp isis = some a) (ha' : fullSystem sp (isis ++ extra) = some a') :
    Determined a → Determined a' :=
  determined_subset sp isis (isis ++ extra) a a' ha ha' (fun _ hi => List.mem_append_left _ hi)

/-- what `isisOf` contains -/
theorem mem_isisOf (d : BlockDec) (sp : SysParams) (x : Nat) :
    x ∈ isisOf d sp ↔ (x < d.k ∧ (d.src.getD x none).isSome) ∨ (d.k ≤ x ∧ x < d.k + (sp.kp - d.k)) ∨
      (∃ p ∈ d.repair, x = p.pid.esi + (sp.kp - d.k)) := by
  unfold isisOf
  simp only [List.mem_append, List.mem_filter, List.mem_range, List.mem_map, or_assoc]
  constructor
  · rintro (h | ⟨j, hj, rfl⟩ | ⟨p, hp, rfl⟩)
    · exact Or.inl h
    · exact Or.inr (Or.inl ⟨by omega, by omega⟩)
    · exact Or.inr (Or.inr ⟨p, hp, rfl⟩)
  · rintro (h | ⟨h1, h2⟩ | ⟨p, hp, rfl⟩)
    · exact Or.inl h
    · exact Or.inr (Or.inl ⟨x - d.k, by omega, by omega⟩)
    · exact Or.inr (Or.inr ⟨p, hp, rfl⟩)

/-- **Once an answer has been returned, every later call returns the identical bytes.** -/
theorem answer_stable (sv : Solver) (hs : SolverSpec sv) (d : BlockDec) (e : BlockEnc) (t : Nat) (data : List Nat)
    (h : Tracks d e t) (he : GoodEnc e t) (hl : LayoutOk d t data e) (cs : DecCase)
    (hdone : d.attempt sv = some (some data, cs)) (batch : List Packet) (hb : ∀ p ∈ batch, Genuine e p) :
    ∃ d' cs', d.decode sv batch = some (d', some data, cs') := by
  have hn : e.k ≤ d.esis.length := by
    by_contra hc
    rw [attempt_case1 sv d e t h he (by omega)] at hdone
    cases hdone
  obtain ⟨a, res, cs0, hsys, hatt, _, h2⟩ := attempt_iff sv hs d e t data h he hl hn
  rw [hdone] at hatt
  injection hatt with hatt
  injection hatt with hres _
  subst hres
  have hgood := h2.mp rfl
  -- invariant along the batch
  obtain ⟨d', hfold, ht', hP⟩ := foldlM_push_inv
    (fun x => (x.n = d.n ∧ x.al = d.al) ∧ e.k ≤ x.esis.length ∧
      (x.recvSrc = e.k ∨ ∃ a, fullSystem e.sp (isisOf x e.sp) = some a ∧ Determined a)) e t
    (by
      intro x p x' hx hPx hg hpush hx'
      obtain ⟨_, rfl⟩ := push_some x p x' hpush
      obtain ⟨m1, m2, m3⟩ := pushF_mono x p
      obtain ⟨p1, p2, p3, p4, p5⟩ := pushF_params x p
      refine ⟨⟨p3.trans hPx.1.1, p4.trans hPx.1.2⟩, by omega, ?_⟩
      rcases hPx.2.2 with hall | ⟨ax, hax, hdet⟩
      · left
        have hs := src_all x e t hx hall
        exact (all_src_count _ e t hx' (fun i hi => m1 i (by rw [hs i hi]; rfl))).1
      · right
        obtain ⟨ax', hax', _⟩ := received_consistent _ e t hx' he (by omega)
        refine ⟨ax', hax', determined_subset e.sp _ _ ax ax' hax hax' ?_ hdet⟩
        intro i hi
        rw [mem_isisOf] at hi ⊢
        rw [p1]
        rcases hi with ⟨h1, h2⟩ | h1 | ⟨q, hq, rfl⟩
        · exact Or.inl ⟨h1, m1 i h2⟩
        · exact Or.inr (Or.inl h1)
        · exact Or.inr (Or.inr ⟨q, m2 q hq, rfl⟩))
    batch d h ⟨⟨rfl, rfl⟩, hn, by
      rcases hgood with hg | hg
      · exact Or.inl hg
      · exact Or.inr ⟨a, hsys, hg⟩⟩ hb
  obtain ⟨⟨hn', hal'⟩, hlen', hgood'⟩ := hP
  have hl' := layoutOk_congr d d' t data e hl hn' hal'
  obtain ⟨a', res', cs', hsys', hatt', _, h2'⟩ := attempt_iff sv hs d' e t data ht' he hl' hlen'
  have : res' = some data := by
    apply h2'.mpr
    rcases hgood' with hg | ⟨a'', ha'', hg⟩
    · exact Or.inl hg
    · rw [hsys'] at ha''
      cases ha''
      exact Or.inr hg
  subst this
  unfold BlockDec.decode
  rw [hfold]
  dsimp only
  rw [hatt']
  exact ⟨d', cs', rfl⟩

/-- the incremental interface agrees with the one-shot interface -/
theorem add_then_result (sv : Solver) (dec : ObjDec) (p : Packet) :
    dec.decode sv p = (dec.add sv p).map fun d' => (d', d'.result) := rfl

/-- a completed block is never re-decoded: re-delivery after completion changes nothing -/
theorem add_done (sv : Solver) (dec : ObjDec) (p : Packet) (r : List Nat) (hb : p.pid.sbn < dec.blocks.size)
    (hd : dec.done.getD p.pid.sbn none = some r) : dec.add sv p = some dec := by
  unfold ObjDec.add
  simp only [hb, dif_pos, hd]

end Rq.C08
