import Rq.Thm.C16
import Rq.Thm.C16s
/-!
# C16 (sequence level) — dense, sparse and the bit array agree along every admissible run

`C16.lean` proves that the bit-packed dense matrix refines `BitMat` under every admissible operation
sequence (`C16.refines_run`); `C16s.lean` proves the per-operation refinement of the sparse matrix.
This file lifts the sparse per-operation theorems to **every admissible operation sequence**
(`sparse_refines_run`), instantiates every query theorem at the end of such a run, and states the
property itself (`dense_sparse_agree`): run one operation sequence from `Dense.new h w` and from
`Sparse.new h w hint`; then both back-ends hold, in every cell, the value of the bit array that the
same sequence produces from `BitMat.new h w`.

The sparse preconditions (`SPre`) are exactly the hypotheses of the per-operation theorems of
`C16s.lean`. Several of them mention the concrete sparse state (the column index being on or off,
the number `nd` of dense columns, the size of the column map); hence admissibility (`SAdmissible`)
is defined by recursion along the *concrete* sparse run.
-/
namespace Rq.C16r
open Rq

/-! ## operations, steps, preconditions -/

/-- the state-changing operations of the `BinaryMatrix` trait as implemented by the sparse matrix.
The first five are the vocabulary shared with the dense matrix (`C16.Op`); `freeze`
(`hint_column_dense_and_frozen`), `enableIndex` (`enable_column_access_acceleration`) and
`disableIndex` (`disable_column_access_acceleration`) are bookkeeping: no-ops of the dense matrix
and of the bit array. `swapCols` carries the trait's `start_row_hint`, which the sparse matrix ignores. -/
inductive SOp where
  | set (r c : Nat) (v : Bool)
  | swapRows (i j : Nat)
  | swapCols (i j hint : Nat)
  | addAssign (dest src : Nat)
  | resize (h w : Nat)
  | freeze (i : Nat)
  | enableIndex
  | disableIndex
deriving Repr, DecidableEq

/-- the sparse matrix's step (`none` = panic). Row addition is the full-row one (`start_col = 0`), the
one `C16s.addAssign_refines` covers; the model's second mode (`start_col = w - nd`: only the dense
words are added) is not an operation of the bit array and has no per-operation theorem. -/
def sparseStep (m : Sparse) : SOp → Option Sparse
  | .set r c v => m.set r c v
  | .swapRows i j => m.swapRows i j
  | .swapCols i j _ => m.swapCols i j
  | .addAssign d s => m.addAssign d s 0
  | .resize h w => m.resize h w
  | .freeze i => m.freeze i
  | .enableIndex => m.enableIndex
  | .disableIndex => some m.disableIndex

/-- the bit array's step: the bookkeeping operations do not change it -/
def sspecStep (s : BitMat) : SOp → Option BitMat
  | .set r c v => s.set r c v
  | .swapRows i j => s.swapRows i j
  | .swapCols i j _ => s.swapCols i j
  | .addAssign d r => s.addAssign d r
  | .resize h w => s.resize h w
  | .freeze _ => some s
  | .enableIndex => some s
  | .disableIndex => some s

/-- the preconditions of the sparse matrix, operation by operation; each is literally the hypothesis
list of the corresponding theorem of `C16s.lean` (which are the `assert!` / `unimplemented!` of the code):
* `set`: in range; in the sparse part only while the column index is off (`set_refines`);
* `swapRows`: in range (`swapRows_refines`);
* `swapCols`: both columns left of the dense tail (`swapCols_refines`); the hint is ignored;
* `addAssign`: in range, distinct rows; while the index is on only an elimination by a row with a
  single one in the sparse part, in a column where the destination has a one (`addAssign_refines`);
* `resize`: shrinking; the width stays, or at least all dense columns go; index off (`resize_refines`);
* `freeze i`: index on, a sparse column is left, and `i` is the last sparse column (`freeze_refines`);
* `enableIndex`: no more physical columns than rows (one index slot per row; `l2pC.size` is the
  *original* width, it does not shrink in `resize`) and a non-empty sparse part (`enableIndex_refines`);
* `disableIndex`: none (`disableIndex_refines`). -/
def SPre (m : Sparse) : SOp → Prop
  | .set r c _ => r < m.h ∧ c < m.w ∧ (m.w - c ≤ m.nd ∨ m.indexDisabled = true)
  | .swapRows i j => i < m.h ∧ j < m.h
  | .swapCols i j _ => i < m.w - m.nd ∧ j < m.w - m.nd
  | .addAssign d s => d < m.h ∧ s < m.h ∧ d ≠ s ∧
      (m.indexDisabled = true ∨
        ∃ c, c < m.w - m.nd ∧ (C16s.abs m).onesIn s 0 (m.w - m.nd) = [c] ∧ (C16s.abs m).get d c = true)
  | .resize h w => h ≤ m.h ∧ w ≤ m.w ∧ (w = m.w ∨ m.w - w ≥ m.nd) ∧ m.indexDisabled = true
  | .freeze i => m.indexDisabled = false ∧ 0 < m.w - m.nd ∧ i = m.w - m.nd - 1
  | .enableIndex => m.l2pC.size ≤ m.h ∧ ∃ p, p < m.h ∧ m.rows.getD p [] ≠ []
  | .disableIndex => True

/-- admissible sequences: every operation meets its precondition in the (concrete) state it is applied to -/
def SAdmissible : Sparse → List SOp → Prop
  | _, [] => True
  | m, op :: rest => SPre m op ∧ ∀ m', sparseStep m op = some m' → SAdmissible m' rest

/-! ## one step, every run -/

/-- one admissible step: the sparse matrix does not panic, keeps its invariant and follows the bit array -/
theorem sparse_step_refines (op : SOp) (m : Sparse) (hi : C16s.Inv m) (hp : SPre m op) :
    ∃ m', sparseStep m op = some m' ∧ C16s.Inv m' ∧ sspecStep (C16s.abs m) op = some (C16s.abs m') := by
  cases op with
  | set r c v => exact C16s.set_refines m hi r c v hp.1 hp.2.1 hp.2.2
  | swapRows i j => exact C16s.swapRows_refines m hi i j hp.1 hp.2
  | swapCols i j hint => exact C16s.swapCols_refines m hi i j hp.1 hp.2
  | addAssign d s => exact C16s.addAssign_refines m hi d s hp.1 hp.2.1 hp.2.2.1 hp.2.2.2
  | resize h w => exact C16s.resize_refines m hi h w hp.1 hp.2.1 hp.2.2.1 hp.2.2.2
  | freeze i =>
    obtain ⟨hen, hpos, rfl⟩ := hp
    obtain ⟨m', h1, h2, h3, _⟩ := C16s.freeze_refines m hi hen hpos
    exact ⟨m', h1, h2, by rw [h3]; rfl⟩
  | enableIndex =>
    obtain ⟨m', h1, h2, h3⟩ := C16s.enableIndex_refines m hi hp.1 hp.2
    exact ⟨m', h1, h2, by rw [h3]; rfl⟩
  | disableIndex =>
    obtain ⟨h2, h3⟩ := C16s.disableIndex_refines m hi
    exact ⟨m.disableIndex, rfl, h2, by rw [h3]; rfl⟩

/-- **Under every admissible operation sequence the sparse matrix answers like the bit array**: it
never panics, keeps its invariant, and its abstraction is the spec's state. -/
theorem sparse_refines_run (ops : List SOp) (m : Sparse) (hi : C16s.Inv m) (hadm : SAdmissible m ops) :
    ∃ m' s', ops.foldlM sparseStep m = some m' ∧ ops.foldlM sspecStep (C16s.abs m) = some s' ∧
      C16s.Inv m' ∧ C16s.abs m' = s' := by
  induction ops generalizing m with
  | nil => exact ⟨m, C16s.abs m, rfl, rfl, hi, rfl⟩
  | cons op rest ih =>
    obtain ⟨hp, hrest⟩ := hadm
    obtain ⟨m1, h1, h2, h3⟩ := sparse_step_refines op m hi hp
    obtain ⟨m', s', e1, e2, e3, e4⟩ := ih m1 h2 (hrest _ h1)
    refine ⟨m', s', ?_, ?_, e3, e4⟩
    · rw [List.foldlM_cons, h1]; exact e1
    · rw [List.foldlM_cons, h3]; exact e2

/-- the same, read from the two runs: whatever states the sparse matrix and the bit array reach,
the former satisfies the invariant and stands for the latter -/
theorem sparse_run_reach (ops : List SOp) (m m' : Sparse) (s' : BitMat) (hi : C16s.Inv m) (hadm : SAdmissible m ops)
    (hrun : ops.foldlM sparseStep m = some m') (hspec : ops.foldlM sspecStep (C16s.abs m) = some s') :
    C16s.Inv m' ∧ C16s.abs m' = s' := by
  obtain ⟨m'', s'', e1, e2, e3, e4⟩ := sparse_refines_run ops m hi hadm
  rw [e1] at hrun; rw [e2] at hspec
  cases hrun; cases hspec
  exact ⟨e3, e4⟩

/-! ## queries at the end of an admissible run

Every query of the interface, asked of the sparse state `m'` reached by an admissible run, returns the
answer of the bit array `s'` reached by the same run (lists up to order: the sparse matrix enumerates
in storage order). The range hypotheses are those of the per-operation query theorems. -/

section queries
variable (ops : List SOp) (m m' : Sparse) (s' : BitMat) (hi : C16s.Inv m) (hadm : SAdmissible m ops)
  (hrun : ops.foldlM sparseStep m = some m') (hspec : ops.foldlM sspecStep (C16s.abs m) = some s')
include hi hadm hrun hspec

/-- the reached states have the same shape -/
theorem run_shape : m'.h = s'.h ∧ m'.w = s'.w := by
  obtain ⟨_, rfl⟩ := sparse_run_reach ops m m' s' hi hadm hrun hspec
  exact ⟨rfl, rfl⟩

theorem run_get (r c : Nat) (hr : r < s'.h) (hc : c < s'.w) : m'.get r c = some (s'.get r c) := by
  obtain ⟨hi', rfl⟩ := sparse_run_reach ops m m' s' hi hadm hrun hspec
  exact C16s.get_refines m' hi' r c hr hc

theorem run_rowIter (r a b : Nat) (hr : r < s'.h) (hab : a ≤ b) (hb : b ≤ m'.w - m'.nd) :
    ∃ l, m'.rowIter r a b = some l ∧ l.Perm (s'.onesIn r a b) := by
  obtain ⟨hi', rfl⟩ := sparse_run_reach ops m m' s' hi hadm hrun hspec
  exact C16s.rowIter_refines m' hi' r a b hr hab hb

theorem run_countOnes (r a b : Nat) (hr : r < s'.h) (hab : a ≤ b) (hb : b ≤ m'.w - m'.nd) :
    m'.countOnes r a b = some (s'.countOnes r a b) := by
  obtain ⟨hi', rfl⟩ := sparse_run_reach ops m m' s' hi hadm hrun hspec
  exact C16s.countOnes_refines m' hi' r a b hr hab hb

/-- column query: index on and the column's index entry still exact (`C16s.colExact`) -/
theorem run_onesInCol (c a b : Nat) (hc : c < m'.w - m'.nd) (hab : a ≤ b) (hb : b ≤ s'.h)
    (hen : m'.indexDisabled = false) (hex : C16s.colExact m' c) :
    ∃ l, m'.onesInCol c a b = some l ∧ l.Perm (s'.onesInCol c a b) := by
  obtain ⟨hi', rfl⟩ := sparse_run_reach ops m m' s' hi hadm hrun hspec
  exact C16s.onesInCol_refines m' hi' c a b hc hab hb hen hex

/-- `get_sub_row_as_octets` from the first dense column -/
theorem run_subRow (r : Nat) (hr : r < s'.h) :
    m'.subRow r (m'.w - m'.nd) = some (s'.subRow r (m'.w - m'.nd)) := by
  obtain ⟨hi', rfl⟩ := sparse_run_reach ops m m' s' hi hadm hrun hspec
  exact C16s.subRow_refines m' hi' r hr

/-- `query_non_zero_columns` from the first dense column (needs a dense column: the first word is
read unconditionally) -/
theorem run_nonZeroCols (r : Nat) (hr : r < s'.h) (hnd : 0 < m'.nd) :
    ∃ l, m'.nonZeroCols r (m'.w - m'.nd) = some l ∧ l.Perm (s'.onesIn r (m'.w - m'.nd) s'.w) := by
  obtain ⟨hi', rfl⟩ := sparse_run_reach ops m m' s' hi hadm hrun hspec
  exact C16s.nonZeroCols_refines m' hi' r hr hnd

end queries

/-! ## the property: dense, sparse and bit array agree -/

/-- the dense matrix's view of an operation: the bookkeeping operations are not sent to it -/
def toDense : SOp → Option C16.Op
  | .set r c v => some (.set r c v)
  | .swapRows i j => some (.swapRows i j)
  | .swapCols i j hint => some (.swapCols i j hint)
  | .addAssign d s => some (.addAssign d s)
  | .resize h w => some (.resize h w)
  | .freeze _ => none
  | .enableIndex => none
  | .disableIndex => none

def denseOps (ops : List SOp) : List C16.Op := ops.filterMap toDense

/-- the bit array does not see the bookkeeping operations: running the dense view of a sequence with
`C16.specStep` is running the sequence with `sspecStep` -/
theorem spec_denseOps (ops : List SOp) (s : BitMat) :
    (denseOps ops).foldlM C16.specStep s = ops.foldlM sspecStep s := by
  induction ops generalizing s with
  | nil => rfl
  | cons op rest ih =>
    have hsome : ∀ o, toDense op = some o → sspecStep s op = C16.specStep s o := by
      intro o ho
      cases op <;> simp only [toDense, Option.some.injEq, reduceCtorEq] at ho <;> subst ho <;> rfl
    have hnone : toDense op = none → sspecStep s op = some s := by
      intro ho
      cases op <;> simp only [toDense, reduceCtorEq] at ho <;> rfl
    unfold denseOps at ih ⊢
    rw [List.filterMap_cons, List.foldlM_cons]
    cases ho : toDense op with
    | none =>
      rw [hnone ho]
      exact ih s
    | some o =>
      rw [List.foldlM_cons, hsome o ho]
      cases C16.specStep s o with
      | none => rfl
      | some s1 => exact ih s1

/-- **C16.** Take any operation sequence over the common vocabulary (`set`, `swapRows`, `swapCols`,
`addAssign`, `resize`) with the sparse-only bookkeeping operations (`freeze`, `enableIndex`,
`disableIndex`) interleaved, admissible for the sparse matrix (`SAdmissible`) and — its dense view — for
the dense matrix (`C16.Admissible`). Run it from the fresh `h × w` matrices (`hw`, `hh`, `hw16`: the
constructor's contract of `C16s.new_inv`). Then neither back-end panics, the bit array's run is
defined, all three have the same shape, and on every cell of that shape the dense matrix, the sparse
matrix and the bit array give the same answer. -/
theorem dense_sparse_agree (h w hint : Nat) (hw : w ≤ h) (hh : hint ≤ w) (hw16 : w < 65536) (ops : List SOp)
    (hadmS : SAdmissible (Sparse.new h w hint) ops)
    (hadmD : C16.Admissible (BitMat.new h w) (denseOps ops)) :
    ∃ d m' s', (denseOps ops).foldlM C16.denseStep (Dense.new h w) = some d ∧
      ops.foldlM sparseStep (Sparse.new h w hint) = some m' ∧
      ops.foldlM sspecStep (BitMat.new h w) = some s' ∧
      C16.Inv d ∧ C16s.Inv m' ∧ d.abs = s' ∧ C16s.abs m' = s' ∧
      (d.h = s'.h ∧ d.w = s'.w) ∧ (m'.h = s'.h ∧ m'.w = s'.w) ∧
      ∀ r c, r < s'.h → c < s'.w → d.get r c = some (s'.get r c) ∧ m'.get r c = some (s'.get r c) := by
  obtain ⟨hiD, habsD⟩ := C16.new_inv h w
  obtain ⟨hiS, habsS⟩ := C16s.new_inv h w hint hw hh hw16
  obtain ⟨d, sd, d1, d2, d3, d4⟩ := C16.refines_run (denseOps ops) (Dense.new h w) hiD (by rw [habsD]; exact hadmD)
  obtain ⟨m', s', e1, e2, e3, e4⟩ := sparse_refines_run ops (Sparse.new h w hint) hiS hadmS
  rw [habsD, spec_denseOps] at d2
  rw [habsS] at e2
  rw [e2] at d2
  have hsd : sd = s' := (Option.some.inj d2).symm
  subst hsd
  refine ⟨d, m', sd, d1, e1, e2, d3, e3, d4, e4, ?_, ?_, ?_⟩
  · subst d4; exact ⟨rfl, rfl⟩
  · subst e4; exact ⟨rfl, rfl⟩
  · intro r c hr hc
    constructor
    · subst d4; exact C16.get_refines d d3 r c hr hc
    · subst e4; exact C16s.get_refines m' e3 r c hr hc

/-- in particular the two back-ends agree with each other, cell by cell -/
theorem dense_sparse_get_eq (h w hint : Nat) (hw : w ≤ h) (hh : hint ≤ w) (hw16 : w < 65536) (ops : List SOp)
    (hadmS : SAdmissible (Sparse.new h w hint) ops)
    (hadmD : C16.Admissible (BitMat.new h w) (denseOps ops))
    (d : Dense) (m' : Sparse)
    (hd : (denseOps ops).foldlM C16.denseStep (Dense.new h w) = some d)
    (hm : ops.foldlM sparseStep (Sparse.new h w hint) = some m') :
    d.h = m'.h ∧ d.w = m'.w ∧ ∀ r c, r < d.h → c < d.w → d.get r c = m'.get r c ∧ (d.get r c).isSome := by
  obtain ⟨d0, m0, s', h1, h2, _, _, _, _, _, h3, h4, h5⟩ := dense_sparse_agree h w hint hw hh hw16 ops hadmS hadmD
  rw [h1] at hd; rw [h2] at hm
  cases hd; cases hm
  refine ⟨h3.1.trans h4.1.symm, h3.2.trans h4.2.symm, fun r c hr hc => ?_⟩
  obtain ⟨g1, g2⟩ := h5 r c (h3.1 ▸ hr) (h3.2 ▸ hc)
  exact ⟨g1.trans g2.symm, by rw [g1]; rfl⟩

/-! ## what the dense matrix asks beyond the sparse one -/

/-- the `swap_columns` contract of the dense matrix (`C16.Pre`): rows above the hint agree in the two
columns. The sparse matrix ignores the hint, so `SPre` does not contain it. -/
def HintOk (s : BitMat) : SOp → Prop
  | .swapCols i j hint => ∀ r, r < hint → r < s.h → s.get r i = s.get r j
  | _ => True

def HintsOk : BitMat → List SOp → Prop
  | _, [] => True
  | s, op :: rest => HintOk s op ∧ ∀ s', sspecStep s op = some s' → HintsOk s' rest

/-- every sparse precondition implies the dense one, except for the hint contract -/
theorem pre_of_spre (m : Sparse) (op : SOp) (o : C16.Op) (ho : toDense op = some o)
    (hp : SPre m op) (hh : HintOk (C16s.abs m) op) : C16.Pre (C16s.abs m) o := by
  cases op <;> simp only [toDense, Option.some.injEq, reduceCtorEq] at ho <;> subst ho
  · exact ⟨hp.1, hp.2.1⟩
  · exact hp
  · have h1 : _ < m.w - m.nd := hp.1
    have h2 : _ < m.w - m.nd := hp.2
    exact ⟨show _ < m.w by omega, show _ < m.w by omega, hh⟩
  · exact ⟨hp.1, hp.2.1, hp.2.2.1⟩
  · exact ⟨hp.1, hp.2.1⟩

/-- **a sequence admissible for the sparse matrix is admissible for the dense matrix** as soon as its
`swap_columns` hints are honest: the sparse preconditions are the stronger ones -/
theorem dense_admissible_of_sparse (ops : List SOp) (m : Sparse) (hi : C16s.Inv m) (hadm : SAdmissible m ops)
    (hh : HintsOk (C16s.abs m) ops) : C16.Admissible (C16s.abs m) (denseOps ops) := by
  induction ops generalizing m with
  | nil => exact trivial
  | cons op rest ih =>
    obtain ⟨hp, hrest⟩ := hadm
    obtain ⟨hh1, hh2⟩ := hh
    obtain ⟨m1, h1, h2, h3⟩ := sparse_step_refines op m hi hp
    have ih1 := ih m1 h2 (hrest _ h1) (hh2 _ h3)
    unfold denseOps at ih1 ⊢
    rw [List.filterMap_cons]
    cases ho : toDense op with
    | none =>
      have : sspecStep (C16s.abs m) op = some (C16s.abs m) := by
        cases op <;> simp only [toDense, reduceCtorEq] at ho <;> rfl
      rw [this] at h3
      rw [Option.some.inj h3]
      exact ih1
    | some o =>
      have : sspecStep (C16s.abs m) op = C16.specStep (C16s.abs m) o := by
        cases op <;> simp only [toDense, Option.some.injEq, reduceCtorEq] at ho <;> subst ho <;> rfl
      refine ⟨pre_of_spre m op o ho hp hh1, fun s' hs' => ?_⟩
      rw [← this, h3] at hs'
      cases hs'
      exact ih1

/-- hints `0` are always honest -/
theorem hintsOk_of_zero (ops : List SOp) (s : BitMat) (h0 : ∀ i j hint, SOp.swapCols i j hint ∈ ops → hint = 0) :
    HintsOk s ops := by
  induction ops generalizing s with
  | nil => exact trivial
  | cons op rest ih =>
    refine ⟨?_, fun s' _ => ih s' fun i j hint hm => h0 i j hint (List.mem_cons_of_mem _ hm)⟩
    cases op with
    | swapCols i j hint =>
      have := h0 i j hint List.mem_cons_self
      subst this
      intro r hr; omega
    | _ => exact trivial

/-- with honest hints the sparse admissibility is all that is needed -/
theorem dense_sparse_agree_of_hints (h w hint : Nat) (hw : w ≤ h) (hh : hint ≤ w) (hw16 : w < 65536) (ops : List SOp)
    (hadmS : SAdmissible (Sparse.new h w hint) ops) (hhints : HintsOk (BitMat.new h w) ops) :
    ∃ d m' s', (denseOps ops).foldlM C16.denseStep (Dense.new h w) = some d ∧
      ops.foldlM sparseStep (Sparse.new h w hint) = some m' ∧
      ops.foldlM sspecStep (BitMat.new h w) = some s' ∧
      C16.Inv d ∧ C16s.Inv m' ∧ d.abs = s' ∧ C16s.abs m' = s' ∧
      (d.h = s'.h ∧ d.w = s'.w) ∧ (m'.h = s'.h ∧ m'.w = s'.w) ∧
      ∀ r c, r < s'.h → c < s'.w → d.get r c = some (s'.get r c) ∧ m'.get r c = some (s'.get r c) := by
  obtain ⟨hiS, habsS⟩ := C16s.new_inv h w hint hw hh hw16
  have := dense_admissible_of_sparse ops (Sparse.new h w hint) hiS hadmS (by rw [habsS]; exact hhints)
  rw [habsS] at this
  exact dense_sparse_agree h w hint hw hh hw16 ops hadmS this

/-- **every query** of the interface, at the end of a run admissible for both back-ends: the dense
matrix `d` and the sparse matrix `m'` both return the bit array's answer (the sparse matrix on the
ranges it supports — row queries left of the dense tail, packed rows from the first dense column —
and its lists up to order) -/
theorem dense_sparse_queries (h w hint : Nat) (hw : w ≤ h) (hh : hint ≤ w) (hw16 : w < 65536) (ops : List SOp)
    (hadmS : SAdmissible (Sparse.new h w hint) ops)
    (hadmD : C16.Admissible (BitMat.new h w) (denseOps ops))
    (d : Dense) (m' : Sparse)
    (hd : (denseOps ops).foldlM C16.denseStep (Dense.new h w) = some d)
    (hm : ops.foldlM sparseStep (Sparse.new h w hint) = some m') :
    ∃ s', ops.foldlM sspecStep (BitMat.new h w) = some s' ∧
      (∀ r c, r < s'.h → c < s'.w → d.get r c = some (s'.get r c) ∧ m'.get r c = some (s'.get r c)) ∧
      (∀ r a b, r < s'.h → a ≤ b → b ≤ m'.w - m'.nd → a < s'.w →
        d.countOnes r a b = some (s'.countOnes r a b) ∧ m'.countOnes r a b = some (s'.countOnes r a b)) ∧
      (∀ r a b, r < s'.h → a ≤ b → b ≤ m'.w - m'.nd →
        d.rowIter r a b = some ((List.range (b - a)).map fun k => (a + k, s'.get r (a + k))) ∧
        ∃ l, m'.rowIter r a b = some l ∧ l.Perm (s'.onesIn r a b)) ∧
      (∀ c a b, c < m'.w - m'.nd → a ≤ b → b ≤ s'.h → m'.indexDisabled = false → C16s.colExact m' c →
        d.onesInCol c a b = some (s'.onesInCol c a b) ∧
        ∃ l, m'.onesInCol c a b = some l ∧ l.Perm (s'.onesInCol c a b)) ∧
      (∀ r, r < s'.h →
        d.subRow r (m'.w - m'.nd) = some (s'.subRow r (m'.w - m'.nd)) ∧
        m'.subRow r (m'.w - m'.nd) = some (s'.subRow r (m'.w - m'.nd))) ∧
      (∀ r, r < s'.h → 0 < m'.nd →
        ∃ l, m'.nonZeroCols r (m'.w - m'.nd) = some l ∧ l.Perm (s'.onesIn r (m'.w - m'.nd) s'.w)) := by
  obtain ⟨d0, m0, s', h1, h2, h3, hiD, hiS, a1, a2, sh1, sh2, hget⟩ :=
    dense_sparse_agree h w hint hw hh hw16 ops hadmS hadmD
  rw [h1] at hd; rw [h2] at hm
  cases hd; cases hm
  have hdh : d.h = s'.h := sh1.1
  have hdw : d.w = s'.w := sh1.2
  have hmh : m'.h = s'.h := sh2.1
  have hmw : m'.w = s'.w := sh2.2
  refine ⟨s', h3, hget, ?_, ?_, ?_, ?_, ?_⟩
  · intro r a b hr hab hb ha
    have g1 := C16.countOnes_refines d hiD r a b (by omega) hab (by omega) (by omega)
    have g2 := C16s.countOnes_refines m' hiS r a b (by omega) hab hb
    rw [a1] at g1; rw [a2] at g2
    exact ⟨g1, g2⟩
  · intro r a b hr hab hb
    have g1 := C16.rowIter_refines d hiD r a b (by omega) hab (by omega)
    have g2 := C16s.rowIter_refines m' hiS r a b (by omega) hab hb
    rw [a1] at g1; rw [a2] at g2
    exact ⟨g1, g2⟩
  · intro c a b hc hab hb hen hex
    have g1 := C16.onesInCol_refines d hiD c a b (by omega) hab (by omega)
    have g2 := C16s.onesInCol_refines m' hiS c a b hc hab (by omega) hen hex
    rw [a1] at g1; rw [a2] at g2
    exact ⟨g1, g2⟩
  · intro r hr
    have g1 := C16.subRow_refines d hiD r (m'.w - m'.nd) (by omega) (by omega)
    have g2 := C16s.subRow_refines m' hiS r (by omega)
    rw [a1] at g1; rw [a2] at g2
    exact ⟨g1, g2⟩
  · intro r hr hnd
    have g2 := C16s.nonZeroCols_refines m' hiS r (by omega) hnd
    rw [a2, hmw] at g2
    rw [hmw]
    exact g2

/-! ## Non-vacuity

`SPre`, `SAdmissible` (and `C16.Pre`, `C16.Admissible`) are decidable, so concrete sequences can be
checked by evaluation. The demo sequence on a 3 × 3 matrix with one dense column sets cells in the
sparse part and in the dense tail, swaps two sparse columns, builds the column index, eliminates with
the index on (the single-one case), freezes a column into the dense tail, drops the index, swaps rows,
adds rows with the index off, and shrinks twice (same width: the dense tail is kept; then down to the
sparse part: the dense tail goes). -/

/-- `SPre` is decidable (bounded quantifiers only) -/
instance decSPre (m : Sparse) : (op : SOp) → Decidable (SPre m op)
  | .set r c _ => inferInstanceAs (Decidable (r < m.h ∧ c < m.w ∧ (m.w - c ≤ m.nd ∨ m.indexDisabled = true)))
  | .swapRows i j => inferInstanceAs (Decidable (i < m.h ∧ j < m.h))
  | .swapCols i j _ => inferInstanceAs (Decidable (i < m.w - m.nd ∧ j < m.w - m.nd))
  | .addAssign d s => inferInstanceAs (Decidable (d < m.h ∧ s < m.h ∧ d ≠ s ∧
      (m.indexDisabled = true ∨
        ∃ c, c < m.w - m.nd ∧ (C16s.abs m).onesIn s 0 (m.w - m.nd) = [c] ∧ (C16s.abs m).get d c = true)))
  | .resize h w => inferInstanceAs (Decidable (h ≤ m.h ∧ w ≤ m.w ∧ (w = m.w ∨ m.w - w ≥ m.nd) ∧ m.indexDisabled = true))
  | .freeze i => inferInstanceAs (Decidable (m.indexDisabled = false ∧ 0 < m.w - m.nd ∧ i = m.w - m.nd - 1))
  | .enableIndex => inferInstanceAs (Decidable (m.l2pC.size ≤ m.h ∧ ∃ p, p < m.h ∧ m.rows.getD p [] ≠ []))
  | .disableIndex => inferInstanceAs (Decidable True)

/-- `SAdmissible` unfolded along the (deterministic) concrete step -/
theorem sadm_cons_iff (m : Sparse) (op : SOp) (rest : List SOp) :
    SAdmissible m (op :: rest) ↔ SPre m op ∧ match sparseStep m op with
      | some m' => SAdmissible m' rest
      | none => True := by
  show (SPre m op ∧ ∀ m', sparseStep m op = some m' → SAdmissible m' rest) ↔ _
  cases sparseStep m op with
  | none => exact ⟨fun h => ⟨h.1, trivial⟩, fun h => ⟨h.1, fun _ e => nomatch e⟩⟩
  | some m1 => exact ⟨fun h => ⟨h.1, h.2 m1 rfl⟩, fun h => ⟨h.1, fun _ e => by cases e; exact h.2⟩⟩

/-- `SAdmissible` is decidable: follow the concrete run -/
instance decSAdm : (m : Sparse) → (ops : List SOp) → Decidable (SAdmissible m ops)
  | _, [] => isTrue trivial
  | m, op :: rest =>
    have : Decidable (match sparseStep m op with
      | some m' => SAdmissible m' rest
      | none => True) :=
      match sparseStep m op with
      | some m' => decSAdm m' rest
      | none => isTrue trivial
    decidable_of_iff _ (sadm_cons_iff m op rest).symm

/-- the same for the dense side: `C16.Pre`, `C16.Admissible` are decidable -/
instance decPre (s : BitMat) : (op : C16.Op) → Decidable (C16.Pre s op)
  | .set r c _ => inferInstanceAs (Decidable (r < s.h ∧ c < s.w))
  | .swapRows i j => inferInstanceAs (Decidable (i < s.h ∧ j < s.h))
  | .swapCols i j hint => inferInstanceAs (Decidable (i < s.w ∧ j < s.w ∧ ∀ r, r < hint → r < s.h → s.get r i = s.get r j))
  | .addAssign d r => inferInstanceAs (Decidable (d < s.h ∧ r < s.h ∧ d ≠ r))
  | .resize h w => inferInstanceAs (Decidable (h ≤ s.h ∧ w ≤ s.w))

theorem adm_cons_iff (s : BitMat) (op : C16.Op) (rest : List C16.Op) :
    C16.Admissible s (op :: rest) ↔ C16.Pre s op ∧ match C16.specStep s op with
      | some s' => C16.Admissible s' rest
      | none => True := by
  show (C16.Pre s op ∧ ∀ s', C16.specStep s op = some s' → C16.Admissible s' rest) ↔ _
  cases C16.specStep s op with
  | none => exact ⟨fun h => ⟨h.1, trivial⟩, fun h => ⟨h.1, fun _ e => nomatch e⟩⟩
  | some m1 => exact ⟨fun h => ⟨h.1, h.2 m1 rfl⟩, fun h => ⟨h.1, fun _ e => by cases e; exact h.2⟩⟩

instance decAdm : (s : BitMat) → (ops : List C16.Op) → Decidable (C16.Admissible s ops)
  | _, [] => isTrue trivial
  | s, op :: rest =>
    have : Decidable (match C16.specStep s op with
      | some s' => C16.Admissible s' rest
      | none => True) :=
      match C16.specStep s op with
      | some s' => decAdm s' rest
      | none => isTrue trivial
    decidable_of_iff _ (adm_cons_iff s op rest).symm

/-- thirteen operations, every constructor of `SOp` at least once -/
def demoOps : List SOp :=
  [.set 0 0 true, .set 1 0 true, .set 1 1 true, .set 2 2 true, .swapCols 0 1 0, .enableIndex,
   .addAssign 1 0, .freeze 1, .disableIndex, .swapRows 0 2, .addAssign 0 1, .resize 2 3, .resize 2 1]

/-- the demo sequence is admissible for the sparse matrix and (its dense view) for the dense matrix -/
theorem demo_admissible :
    SAdmissible (Sparse.new 3 3 1) demoOps ∧ C16.Admissible (BitMat.new 3 3) (denseOps demoOps) := by
  constructor <;> decide

/-- its hints are honest, so the second half also follows from the first -/
example : C16.Admissible (BitMat.new 3 3) (denseOps demoOps) := by
  have hi := (C16s.new_inv 3 3 1 (by decide) (by decide) (by decide))
  have := dense_admissible_of_sparse demoOps _ hi.1 demo_admissible.1
    (hintsOk_of_zero _ _ (by intro i j hint hm; simp [demoOps] at hm; exact hm.2.2))
  rw [hi.2] at this
  exact this

/-- the hypotheses of `dense_sparse_agree` are satisfiable: the conclusion for the demo sequence -/
example : ∃ d m' s', (denseOps demoOps).foldlM C16.denseStep (Dense.new 3 3) = some d ∧
    demoOps.foldlM sparseStep (Sparse.new 3 3 1) = some m' ∧
    demoOps.foldlM sspecStep (BitMat.new 3 3) = some s' ∧
    ∀ r c, r < s'.h → c < s'.w → d.get r c = some (s'.get r c) ∧ m'.get r c = some (s'.get r c) := by
  obtain ⟨d, m', s', h1, h2, h3, _, _, _, _, _, _, h4⟩ :=
    dense_sparse_agree 3 3 1 (by decide) (by decide) (by decide) demoOps demo_admissible.1 demo_admissible.2
  exact ⟨d, m', s', h1, h2, h3, h4⟩

/-- the sparse run by evaluation: after the `freeze` the dense tail has two columns and the index is
on; before the last `resize` the matrix is 2 × 3 with a two-column dense tail; the final one is 2 × 1 -/
example : ((demoOps.take 8).foldlM sparseStep (Sparse.new 3 3 1)).map (fun m => (m.nd, m.indexDisabled))
    = some (2, false) := by decide
example : ((demoOps.take 12).foldlM sparseStep (Sparse.new 3 3 1)).map (fun m => (m.h, m.w, m.nd, m.indexDisabled))
    = some (2, 3, 2, true) := by decide
example : ((demoOps.take 12).foldlM sparseStep (Sparse.new 3 3 1)).bind (fun m => m.get 0 2) = some true := by decide

/-- … and `dense_sparse_agree` transports the evaluated sparse answer to the dense matrix: at the end
of the demo sequence the dense matrix is defined and holds a one in cell (1, 0) -/
example : ∃ d, (denseOps demoOps).foldlM C16.denseStep (Dense.new 3 3) = some d ∧ d.get 1 0 = some true := by
  obtain ⟨d, m', s', h1, h2, _, _, _, _, _, _, sh, h4⟩ :=
    dense_sparse_agree 3 3 1 (by decide) (by decide) (by decide) demoOps demo_admissible.1 demo_admissible.2
  have e1 : (demoOps.foldlM sparseStep (Sparse.new 3 3 1)).map (fun m => (m.h, m.w)) = some (2, 1) := by decide
  have e2 : ((demoOps.foldlM sparseStep (Sparse.new 3 3 1)).bind fun m => m.get 1 0) = some true := by decide
  rw [h2] at e1 e2
  simp only [Option.map_some, Option.some.injEq, Prod.mk.injEq, Option.bind_some] at e1 e2
  obtain ⟨g1, g2⟩ := h4 1 0 (by omega) (by omega)
  exact ⟨d, h1, by rw [g1, ← g2, e2]⟩

/-- the preconditions are not redundant: each of these one-operation sequences violates `SPre` and the
sparse matrix indeed panics (a column swap into the dense tail; an index over an empty sparse part; a
freeze with the index off; dropping one of two dense columns; a sparse-part `set` and a `resize` with
the index on) -/
example : ¬ SAdmissible (Sparse.new 3 3 1) [.swapCols 0 2 0] ∧ sparseStep (Sparse.new 3 3 1) (.swapCols 0 2 0) = none := by decide
example : ¬ SAdmissible (Sparse.new 3 3 1) [.enableIndex] ∧ sparseStep (Sparse.new 3 3 1) .enableIndex = none := by decide
example : ¬ SAdmissible (Sparse.new 3 3 1) [.freeze 1] ∧ sparseStep (Sparse.new 3 3 1) (.freeze 1) = none := by decide
example : ¬ SAdmissible (Sparse.new 3 3 2) [.resize 3 2] ∧ sparseStep (Sparse.new 3 3 2) (.resize 3 2) = none := by decide
example : ¬ SAdmissible C16s.demo2 [.set 0 0 false] ∧ sparseStep C16s.demo2 (.set 0 0 false) = none := by decide
example : ¬ SAdmissible C16s.demo2 [.resize 2 2] ∧ sparseStep C16s.demo2 (.resize 2 2) = none := by decide

/-- the demo states of `C16s.lean`: `demo1`, `demo2` are the first two states of this run (a `set`,
then the index is built); from `demo2` (index on) a freeze, an index drop and a shrink -/
example : SAdmissible C16s.demo2 [.freeze 0, .disableIndex, .resize 1 2] := by decide
example : [SOp.set 0 0 true, .enableIndex].foldlM sparseStep (Sparse.new 2 2 1) = some C16s.demo2 := by decide
example : ∃ m' s', [SOp.set 0 0 true, .enableIndex, .freeze 0, .disableIndex, .resize 1 2].foldlM sparseStep (Sparse.new 2 2 1) = some m' ∧
    [SOp.set 0 0 true, .enableIndex, .freeze 0, .disableIndex, .resize 1 2].foldlM sspecStep (BitMat.new 2 2) = some s' ∧
    C16s.Inv m' ∧ C16s.abs m' = s' := by
  obtain ⟨hi, ha⟩ := C16s.new_inv 2 2 1 (by decide) (by decide) (by decide)
  have := sparse_refines_run [.set 0 0 true, .enableIndex, .freeze 0, .disableIndex, .resize 1 2] _ hi (by decide)
  rw [ha] at this
  exact this

end Rq.C16r
