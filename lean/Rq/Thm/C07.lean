import Rq.Thm.C02
import Rq.Thm.C06
import Rq.Thm.C11
import Rq.Thm.C16
import Rq.Thm.C17
import Rq.Thm.C18
/-!
# C07 — results depend only on the inputs, not on build, CPU, back-end or caching

In the model every configuration axis of the property is a *parameter*, and the theorems of the
other properties say the result does not depend on it; this file collects those statements:

* CPU path: every kernel equals the element-wise operation on every path (C11) ⇒ any two paths agree;
* matrix back-end, switch-over threshold, pivot order: the solver is an arbitrary `SolverSpec`
  solver; two such solvers build the same encoder (C18) and give the same decoder answer (C02);
* plan mode: replaying a valid plan gives the direct solve's intermediate symbols (C06);
* caching: a request served through the cache under any interleaving holds the plan a fresh
  generation gives (C17);
* dense storage: the bit-packed matrix answers like the bit array under every admissible op sequence (C16).

**Partial** (DESIGN.md 7/C07): optimised vs debug-assertion code generation, std vs no_std and the
errata-11 column skipping of the release solver are not modelled; those axes are covered by the
correspondence run (four builds × dispatch ceilings × thresholds × plan modes).
-/
namespace Rq.C07
open Rq

/-! ## CPU path -/

theorem addAssign_path (p q : Path) (d s : List Nat) (h : d.length = s.length) :
    addAssign p d s = addAssign q d s := by
  rw [Rq.C11.addAssign_correct p d s h, Rq.C11.addAssign_correct q d s h]

theorem mulAssign_path (p q : Path) (c : Nat) (hc : c < 256) (d : List Nat) (hd : Rq.C11.IsBytes d) :
    mulAssign p c d = mulAssign q c d := by
  rw [Rq.C11.mulAssign_correct p c hc d hd, Rq.C11.mulAssign_correct q c hc d hd]

theorem fma_path (p q : Path) (c : Nat) (hc : c < 256) (d s : List Nat) (hs : Rq.C11.IsBytes s)
    (h : d.length = s.length) : fma p c d s = fma q c d s := by
  rw [Rq.C11.fma_correct p c hc d s hs h, Rq.C11.fma_correct q c hc d s hs h]

theorem fmaBin_path (p q : Path) (c : Nat) (hc : c < 256) (d : List Nat) (o : BinVec)
    (hw : o.wf = true) (hl : d.length = o.length) (hwords : ∀ x ∈ o.words, x < 2 ^ 64) :
    fmaBin p c d o = fmaBin q c d o := by
  rw [Rq.C11.fmaBin_correct p c hc d o hw hl hwords, Rq.C11.fmaBin_correct q c hc d o hw hl hwords]

/-! ## matrix back-end / threshold / pivot order (= the solver) -/

/-- two solvers meeting the specification give the same decoder answer on every state that
tracks genuine packets -/
theorem decoder_solver_indep (sv sv' : Solver) (hs : SolverSpec sv) (hs' : SolverSpec sv')
    (d : BlockDec) (e : BlockEnc) (t : Nat) (data : List Nat)
    (h : Rq.C02.Tracks d e t) (he : GoodEnc e t) (hl : Rq.C02.LayoutOk d t data e) :
    (d.attempt sv).map (·.1) = (d.attempt sv').map (·.1) := by
  by_cases hn : e.k ≤ d.esis.length
  · obtain ⟨a, res, cs, ha, hat, hres, hiff⟩ := Rq.C02.attempt_iff sv hs d e t data h he hl hn
    obtain ⟨a', res', cs', ha', hat', hres', hiff'⟩ := Rq.C02.attempt_iff sv' hs' d e t data h he hl hn
    rw [ha] at ha'
    have haa : a = a' := by injection ha'
    subst haa
    rw [hat, hat']
    simp only [Option.map_some, Option.some.injEq]
    by_cases hc : d.recvSrc = e.k ∨ Determined a
    · rw [hiff.mpr hc, hiff'.mpr hc]
    · have h1 : res ≠ some data := fun hh => hc (hiff.mp hh)
      have h2 : res' ≠ some data := fun hh => hc (hiff'.mp hh)
      rcases hres with r1 | r1
      · exact absurd r1 h1
      · rcases hres' with r2 | r2
        · exact absurd r2 h2
        · rw [r1, r2]
  · have hlt : d.esis.length < e.k := by omega
    rw [Rq.C02.attempt_case1 sv d e t h he hlt, Rq.C02.attempt_case1 sv' d e t h he hlt]

/-- … and build the same encoder (same intermediate symbols, hence the same packets) -/
theorem encoder_solver_indep (sv sv' : Solver) (hs : SolverSpec sv) (hs' : SolverSpec sv')
    (sbn : Nat) (o : Oti) (data : List Nat) (e e' : BlockEnc) (hd : IsBytes data) (ht : 0 < o.t)
    (hcons : ∀ src sp a, createSymbols o.t o.al o.n data = some src → sysParams src.length = some sp →
      fullSystem sp (List.range sp.kp) = some a → Consistent a o.t (createD sp o.t src))
    (he : BlockEnc.new? sv sbn o data = some e) (he' : BlockEnc.new? sv' sbn o data = some e') : e = e' :=
  Rq.C18.solver_irrelevant sv sv' hs hs' sbn o data e e' hd ht hcons he he'

/-! ## plan mode -/

/-- explicit / cached plan replay vs direct solve -/
theorem plan_mode_indep (e : BlockEnc) (t : Nat) (h : GoodEnc e t) (ops : List SymOp) (c : Inter)
    (hp : Rq.C06.PlanOk e.sp ops t e.src) (hc : replayPlan e.sp t e.src ops = some c) : c = e.c :=
  Rq.C06.replay_eq_direct e t h ops c hp hc

/-! ## caching -/

theorem cache_indep {P : Type} (gen : Nat → P) (n : Nat) (evs : List Ev) (tid k : Nat) (p : P)
    (h : ((CacheState.init n).run gen Gen.cacheCapacity evs).threads[tid]? = some (.done k p)) : p = gen k :=
  Rq.C17.transparent gen Gen.cacheCapacity Rq.C17.capacity_pos n evs tid k p h

/-! ## dense storage -/

theorem dense_backend (ops : List Rq.C16.Op) (m : Dense) (hi : Rq.C16.Inv m) (hadm : Rq.C16.Admissible m.abs ops) :
    ∃ m' s', ops.foldlM Rq.C16.denseStep m = some m' ∧ ops.foldlM Rq.C16.specStep m.abs = some s' ∧
      Rq.C16.Inv m' ∧ m'.abs = s' :=
  Rq.C16.refines_run ops m hi hadm

end Rq.C07
