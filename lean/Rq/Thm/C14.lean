import Rq.Lemmas.Arith
import Rq.Lemmas.Tab
import Rq.Thm.C19
import Rq.Lemmas.GenParams
/-!
# C14 — derived transmission parameters are those of RFC 6330 4.3

Model: `genParams` (`generate_encoding_parameters` as repaired by two `fix:` commits: KL(n) may be
undefined, comparison in u64). Spec: the RFC's derivation on naturals, no fixed-width arithmetic.
-/
namespace Rq.C14
open Rq

/-! ## Spec (RFC 6330 4.3) -/
def K' (i : Nat) : Nat := tb32 Gen.t2K i

def specAl (pk : Nat) : Nat := if pk ≥ 64 then 8 else 1
/-- sub-symbol size SS: the code uses SS = Al -/
def specT (pk : Nat) : Nat := pk - pk % specAl pk
def specNmax (pk : Nat) : Nat := specT pk / (specAl pk * specAl pk)
/-- the bound WS / (Al · ⌈T/(Al·n)⌉) on the block size for n sub-blocks -/
def specLim (pk ws n : Nat) : Nat := ws / (specAl pk * ceilDiv (specT pk) (specAl pk * n))
/-- KL(n): `k` is the largest Table-2 size not above the bound -/
def IsKL (pk ws n k : Nat) : Prop :=
  (∃ i, i < 477 ∧ K' i = k) ∧ k ≤ specLim pk ws n ∧ ∀ i, i < 477 → K' i ≤ specLim pk ws n → K' i ≤ k
/-- KL(n) undefined: not even the smallest size fits -/
def NoKL (pk ws n : Nat) : Prop := ∀ i, i < 477 → specLim pk ws n < K' i

/-- the RFC's result for (F, P, WS) -/
structure Derived (f pk ws : Nat) (o : Oti) : Prop where
  hal : o.al = specAl pk
  ht : o.t = specT pk
  hf : o.f = f
  /-- Z = ⌈Kt / KL(Nmax)⌉ -/
  hz : ∃ kl, IsKL pk ws (specNmax pk) kl ∧ o.z = ceilDiv (ceilDiv f (specT pk)) kl
  /-- N is the least n in 1..Nmax with KL(n) defined and ⌈Kt/Z⌉ ≤ KL(n) -/
  n_fits : ∃ kl, IsKL pk ws o.n kl ∧ ceilDiv (ceilDiv f (specT pk)) o.z ≤ kl
  n_range : 1 ≤ o.n ∧ o.n ≤ specNmax pk
  n_least : ∀ m, 1 ≤ m → m < o.n → NoKL pk ws m ∨ ∃ kl, IsKL pk ws m kl ∧ kl < ceilDiv (ceilDiv f (specT pk)) o.z

/-- the property's domain: a valid configuration exists -/
def InDomain (f pk ws : Nat) : Prop :=
  1 ≤ pk ∧ pk < 65536 ∧ 1 ≤ f ∧ f ≤ 56403 * 255 * specT pk ∧ ws < 2 ^ 64 ∧
    ∃ kl, IsKL pk ws (specNmax pk) kl ∧ ceilDiv (ceilDiv f (specT pk)) kl ≤ 255

/-! ## Bridging the model to the spec -/

theorem specAl_cases (pk : Nat) : (64 ≤ pk ∧ specAl pk = 8) ∨ (pk < 64 ∧ specAl pk = 1) := by
  unfold specAl
  by_cases h : pk ≥ 64
  · left; exact ⟨h, if_pos h⟩
  · right; exact ⟨by omega, if_neg h⟩

/-- basic facts about Al, T, Nmax for 1 ≤ P < 2^16 -/
theorem dom_facts (pk : Nat) (h1 : 1 ≤ pk) (h2 : pk < 65536) :
    0 < specAl pk ∧ ¬ pk < specAl pk ∧ 0 < specT pk ∧ specT pk ≤ pk ∧ specT pk % specAl pk = 0 ∧
      1 ≤ specNmax pk ∧ specNmax pk ≤ specT pk / specAl pk ∧ specNmax pk ≤ specT pk := by
  unfold specNmax specT
  rcases specAl_cases pk with ⟨h, e⟩ | ⟨h, e⟩ <;> rw [e] <;> omega

theorem specLim_eq (pk ws n : Nat) : specLim pk ws n = klLim (specT pk) (specAl pk) ws n := rfl

theorem isKL_iff (pk ws n k : Nat) (h1 : 1 ≤ pk) (h2 : pk < 65536) (hn : 0 < n) :
    IsKL pk ws n k ↔ klOf (specT pk) (specAl pk) ws n = some k := by
  obtain ⟨hal, _, ht, ht', _⟩ := dom_facts pk h1 h2
  rw [klOf_some_iff _ _ _ _ _ hal hn ht (by unfold U32; omega)]
  rfl

theorem noKL_iff (pk ws n : Nat) (h1 : 1 ≤ pk) (h2 : pk < 65536) (hn : 0 < n) :
    NoKL pk ws n ↔ klOf (specT pk) (specAl pk) ws n = none := by
  obtain ⟨hal, _, ht, ht', _⟩ := dom_facts pk h1 h2
  rw [klOf_none_iff _ _ _ _ hal hn ht (by unfold U32; omega)]
  rfl

theorem isKL_range (pk ws n k : Nat) (h : IsKL pk ws n k) : 10 ≤ k ∧ k ≤ 56403 := by
  obtain ⟨⟨i, hi, e⟩, _⟩ := h
  rw [← e]
  exact ⟨t2K_ge i hi, t2K_le i hi⟩

theorem isKL_unique (pk ws n k k' : Nat) (h : IsKL pk ws n k) (h' : IsKL pk ws n k') : k = k' := by
  obtain ⟨⟨i, hi, e⟩, hle, hmax⟩ := h
  obtain ⟨⟨i', hi', e'⟩, hle', hmax'⟩ := h'
  have a := hmax i' hi' (by rw [e']; exact hle')
  have b := hmax' i hi (by rw [e]; exact hle)
  omega

theorem genParams_eq (f pk ws : Nat) : genParams f pk ws =
    if pk < specAl pk then none else
    match intDivCeil f (specT pk) with
    | none => none
    | some kt =>
      match klOf (specT pk) (specAl pk) ws (specNmax pk) with
      | none => none
      | some klmax =>
        match intDivCeil kt klmax with
        | none => none
        | some z =>
          match findN (specT pk) (specAl pk) ws kt z (specNmax pk) (specNmax pk) 1 with
          | none => none
          | some n => some { f, t := specT pk, z := z % 256, n := n % 65536, al := specAl pk } := rfl

/-- the run of the code on the domain, with every intermediate value named -/
theorem genParams_run (f pk ws : Nat) (h : InDomain f pk ws) :
    ∃ kl n, IsKL pk ws (specNmax pk) kl ∧
      ceilDiv (ceilDiv f (specT pk)) kl ≤ 255 ∧ 1 ≤ ceilDiv (ceilDiv f (specT pk)) kl ∧
      1 ≤ n ∧ n ≤ specNmax pk ∧
      (∃ k, klOf (specT pk) (specAl pk) ws n = some k ∧
        ceilDiv (ceilDiv f (specT pk)) (ceilDiv (ceilDiv f (specT pk)) kl) ≤ k) ∧
      (∀ m, 0 < m → m < n → ¬ ∃ k, klOf (specT pk) (specAl pk) ws m = some k ∧
        ceilDiv (ceilDiv f (specT pk)) (ceilDiv (ceilDiv f (specT pk)) kl) ≤ k) ∧
      genParams f pk ws = some { f, t := specT pk, z := ceilDiv (ceilDiv f (specT pk)) kl, n,
                                 al := specAl pk } := by
  obtain ⟨hpk1, hpk2, hf1, hf2, hws, kl, hkl, hz255⟩ := h
  obtain ⟨hal, hpkal, ht, ht', htal, hnm1, hnm2, hnm3⟩ := dom_facts pk hpk1 hpk2
  have hkt1 : 0 < ceilDiv f (specT pk) := ceilDiv_pos f _ hf1 ht
  have hkt2 : ceilDiv f (specT pk) ≤ 56403 * 255 := (ceilDiv_le_iff f _ _ ht).2 hf2
  generalize hktdef : ceilDiv f (specT pk) = kt at *
  have h1 : intDivCeil f (specT pk) = some kt := by
    rw [intDivCeil_of_lt f _ ht (by rw [hktdef]; unfold U32; omega), hktdef]
  have h2 := (isKL_iff pk ws _ kl hpk1 hpk2 hnm1).1 hkl
  obtain ⟨hkl10, hkl56⟩ := isKL_range _ _ _ _ hkl
  have hklpos : 0 < kl := by omega
  have hz1 : 0 < ceilDiv kt kl := ceilDiv_pos kt kl hkt1 hklpos
  generalize hzdef : ceilDiv kt kl = z at *
  have h3 : intDivCeil kt kl = some z := by
    rw [intDivCeil_of_lt kt kl hklpos (by rw [hzdef]; unfold U32; omega), hzdef]
  have hc1 : ceilDiv kt z ≤ kl := by rw [← hzdef]; exact ceilDiv_ceilDiv_le kt kl hklpos hkt1
  have h4 : intDivCeil kt z = some (ceilDiv kt z) :=
    intDivCeil_of_lt kt z hz1 (by unfold U32; omega)
  obtain ⟨r, hr1, hr2, hr3, hr4, hr5⟩ :=
    findN_spec (specT pk) (specAl pk) ws kt z (specNmax pk) _ h4 ⟨kl, h2, hc1⟩ (specNmax pk) 1
      hnm1 (Nat.le_refl _)
  have hzmod : z % 256 = z := Nat.mod_eq_of_lt (by omega)
  have hrmod : r % 65536 = r := Nat.mod_eq_of_lt (by omega)
  subst hzdef
  refine ⟨kl, r, hkl, hz255, hz1, by omega, hr3, hr4, ?_, ?_⟩
  · intro m hm1 hm2; exact hr5 m (by omega) hm2
  · rw [genParams_eq, if_neg hpkal, h1]
    simp only []
    rw [h2]
    simp only []
    rw [h3]
    simp only []
    rw [hr1]
    simp only []
    rw [hzmod, hrmod]

/-- **On the whole domain the code returns the RFC's (T, Z, N, Al).** -/
theorem genParams_spec (f pk ws : Nat) (h : InDomain f pk ws) :
    ∃ o, genParams f pk ws = some o ∧ Derived f pk ws o := by
  obtain ⟨kl, n, hkl, hz255, hz1, hn1, hn2, ⟨k, hk, hck⟩, hleast, hrun⟩ := genParams_run f pk ws h
  obtain ⟨hpk1, hpk2, _⟩ := h
  refine ⟨_, hrun, ⟨rfl, rfl, rfl, ⟨kl, hkl, rfl⟩, ⟨k, ?_, hck⟩, ⟨hn1, hn2⟩, ?_⟩⟩
  · exact (isKL_iff pk ws n k hpk1 hpk2 hn1).2 hk
  · intro m hm1 hm2
    have hm := hleast m hm1 hm2
    cases hkm : klOf (specT pk) (specAl pk) ws m with
    | none => left; exact (noKL_iff pk ws m hpk1 hpk2 hm1).2 hkm
    | some km =>
      right
      refine ⟨km, (isKL_iff pk ws m km hpk1 hpk2 hm1).2 hkm, ?_⟩
      apply Nat.lt_of_not_le
      intro hle
      exact hm ⟨km, hkm, hle⟩

/-! ## The facts the statement names -/

/-- T is the largest multiple of Al not above the packet size -/
theorem specT_largest (pk : Nat) :
    specT pk % specAl pk = 0 ∧ specT pk ≤ pk ∧ ∀ m, m % specAl pk = 0 → m ≤ pk → m ≤ specT pk := by
  unfold specT
  rcases specAl_cases pk with ⟨h, e⟩ | ⟨h, e⟩ <;> rw [e] <;> refine ⟨by omega, by omega, ?_⟩ <;>
    intro m hm1 hm2 <;> omega

/-- Z is the smallest block count that keeps every block within KL(Nmax) -/
theorem z_smallest (kt kl : Nat) (hkl : 0 < kl) (hkt : 0 < kt) :
    ceilDiv kt (ceilDiv kt kl) ≤ kl ∧ ∀ z, 0 < z → ceilDiv kt z ≤ kl → ceilDiv kt kl ≤ z :=
  ⟨ceilDiv_ceilDiv_le kt kl hkl hkt, fun z hz h => ceilDiv_le_of_ceilDiv_le kt kl z hkl hz h⟩

/-- KL is monotone in the memory budget -/
theorem kl_mono (pk ws ws' n k k' : Nat) (hws : ws ≤ ws') (h : IsKL pk ws n k) (h' : IsKL pk ws' n k') : k ≤ k' := by
  obtain ⟨⟨i, hi, e⟩, hle, _⟩ := h
  obtain ⟨_, _, hmax'⟩ := h'
  have hl : specLim pk ws n ≤ specLim pk ws' n := Nat.div_le_div_right hws
  have := hmax' i hi (by rw [e]; omega)
  omega

/-- **A larger memory budget never yields more source blocks.** -/
theorem z_mono (f pk ws ws' : Nat) (hws : ws ≤ ws') (h : InDomain f pk ws) (h' : InDomain f pk ws')
    (o o' : Oti) (ho : genParams f pk ws = some o) (ho' : genParams f pk ws' = some o') : o'.z ≤ o.z := by
  obtain ⟨kl, n, hkl, _, _, _, _, _, _, hrun⟩ := genParams_run f pk ws h
  obtain ⟨kl', n', hkl', _, _, _, _, _, _, hrun'⟩ := genParams_run f pk ws' h'
  rw [hrun] at ho
  rw [hrun'] at ho'
  cases ho
  cases ho'
  have hmono := kl_mono pk ws ws' _ kl kl' hws hkl hkl'
  have := isKL_range _ _ _ _ hkl
  exact ceilDiv_anti _ kl kl' (by omega) hmono

/-- the derived parameters pass the constructor's checks (C19) and have Z ≤ Kt, 1 ≤ N ≤ T/Al,
which is the hypothesis of the round-trip theorem (C01) -/
theorem genParams_valid (f pk ws : Nat) (h : InDomain f pk ws) (o : Oti) (ho : genParams f pk ws = some o) :
    Rq.C19.Valid o.f o.t o.z o.al ∧ 1 ≤ o.z ∧ o.z ≤ ceilDiv o.f o.t ∧ 1 ≤ o.n ∧ o.n ≤ o.t / o.al ∧ o.z < 256 ∧ o.n < 65536 := by
  obtain ⟨kl, n, hkl, hz255, hz1, hn1, hn2, ⟨k, hk, hck⟩, _, hrun⟩ := genParams_run f pk ws h
  obtain ⟨hpk1, hpk2, hf1, hf2, _⟩ := h
  obtain ⟨hal, hpkal, ht, ht', htal, hnm1, hnm2, hnm3⟩ := dom_facts pk hpk1 hpk2
  rw [hrun] at ho
  cases ho
  obtain ⟨hkl10, hkl56⟩ := isKL_range _ _ _ _ hkl
  have hkt1 : 0 < ceilDiv f (specT pk) := ceilDiv_pos f _ hf1 ht
  have hc := ceilDiv_ceilDiv_le (ceilDiv f (specT pk)) kl (by omega) hkt1
  have hzle := ceilDiv_le_self (ceilDiv f (specT pk)) kl (by omega)
  have hfmax : f ≤ 942574504275 := by
    have : 56403 * 255 * specT pk ≤ 56403 * 255 * 65535 := Nat.mul_le_mul_left _ (by omega)
    omega
  refine ⟨⟨hfmax, htal, ?_⟩, hz1, hzle, hn1, ?_, ?_, ?_⟩
  · show ceilDiv (ceilDiv f (specT pk)) (ceilDiv (ceilDiv f (specT pk)) kl) ≤ 56403
    omega
  · show n ≤ specT pk / specAl pk
    omega
  · show ceilDiv (ceilDiv f (specT pk)) kl < 256
    omega
  · show n < 65536
    omega

/-! ## The defects of the pinned code (each repaired by a `fix:` commit) -/

/-- `KL(n)` with the u32 truncation of the pinned code -/
def klOfOld (t al ws n : Nat) : Option Nat :=
  match intDivCeil t (al * n) with
  | none => none
  | some x =>
    if al * x = 0 then none else
    let lim := (ws / (al * x)) % U32
    ((List.range 477).reverse.find? (fun i => decide (tget t2KA i ≤ lim))).map (tget t2KA)

/-- C14-b: for WS = 2^38, T = 64, Al = 8 the truncated bound is 0 and no K' "fits" (the code then hit
`unreachable!()`), although the true bound 2^32 admits K' = 56403 -/
theorem old_truncation_witness :
    (2 ^ 38 / (8 * ceilDiv 64 (8 * 1))) % U32 = 0 ∧ 56403 ≤ 2 ^ 38 / (8 * ceilDiv 64 (8 * 1)) := by
  decide

/-- C14-a: for P = 500, WS = 4000 (T = 496, Al = 8): KL(1) is undefined (bound 8 < 10) while KL(7)
exists (bound 55): the pinned code panicked in `kl(1)`, the RFC derivation gives N = 7 -/
theorem old_unreachable_witness :
    specLim 500 4000 1 = 8 ∧ specLim 500 4000 7 = 55 ∧ specNmax 500 = 7 := by
  decide

/-! ## Non-vacuity -/
example : InDomain 10000 500 4000 := by
  refine ⟨by decide, by decide, by decide, by decide, by decide, 55, ⟨⟨12, by decide, ?_⟩, by decide, ?_⟩, by decide⟩
  · show tb32 Gen.t2K 12 = 55
    decide +kernel
  · intro i _ h
    have : specLim 500 4000 (specNmax 500) = 55 := by decide
    rw [this] at h; exact h

end Rq.C14
