import Rq.Thm.Src
import Rq.Thm.C13
import Rq.Thm.C15
import Rq.Thm.C19
/-!
# Property theorems restated for the translated source

Corollaries of `Thm/Src.lean` (generated definition = model function) and the property theorems of
C13, C15, C19: the statements hold of the definitions `bin/src2lean` generates from the Rust source
text on every run, for all arguments of the Rust parameter types.
-/
namespace Rq.SrcCor
open Rq

/-- C19 for the source: `ObjectTransmissionInformation::new` (as translated) accepts exactly the
valid parameter sets. -/
theorem otiNew_src_iff (f t z n al : Nat) (hf : f < 2 ^ 64) (ht : t < 2 ^ 16) (hz : z < 2 ^ 8)
    (hn : n < 2 ^ 16) (ha : al < 2 ^ 8) (ht0 : 0 < t) (hz0 : 0 < z) (ha0 : 0 < al) :
    (Src.otiNew f t z n al).isSome ↔ C19.Valid f t z al := by
  rw [SrcTie.otiNew_src f t z n al hf ht hz hn ha, Option.isSome_map]
  exact C19.otiNew_iff f t z n al ht0 hz0 ha0

/-- C15 for the source: `rng.rs::rand` (as translated, checked build) never panics for a 32-bit
`y`, `i < 2^24`, `m > 0`, and is RFC 6330 5.3.5.1's Rand. -/
theorem rand_src_spec (y i m : Nat) (hy : y < 2 ^ 32) (hi : i < 2 ^ 24) (hm : 0 < m) :
    Src.rand y i m = some (C15.specRand y i m) := by
  rw [SrcTie.rand_src]; exact C15.rand_spec y i m hy hi hm

/-- C15 for the source: `intermediate_tuple` (as translated, checked build) never panics and its
six components lie in the ranges `enc_indices` asserts. -/
theorem tuple_src_wf (x w j p1 : Nat) (hx : x < 2 ^ 32) (hw : 3 ≤ w) (hw' : w < 2 ^ 32)
    (hj : j < 1024) (hp1 : 2 ≤ p1) (hp1' : p1 < 2 ^ 32) :
    ∃ d a b d1 a1 b1, Src.tuple x w j p1 = some (d, a, b, d1, a1, b1) ∧ 1 ≤ d ∧ d ≤ min 30 (w - 2)
      ∧ 1 ≤ a ∧ a < w ∧ b < w ∧ (d1 = 2 ∨ d1 = 3) ∧ 1 ≤ a1 ∧ a1 < p1 ∧ b1 < p1 := by
  obtain ⟨t, ht, h⟩ := C15.tuple_wf x w j p1 hx hw hw' hj hp1 hp1'
  refine ⟨t.d, t.a, t.b, t.d1, t.a1, t.b1, ?_, h⟩
  rw [SrcTie.tuple_src x w j p1 hx hw' (by omega) hp1', ht]; rfl

/-- C13 for the source: `PayloadId::deserialize(serialize(p)) = p` for every representable id. -/
theorem pid_src_roundtrip (sbn esi : Nat) (hs : sbn < 256) (he : esi < 16777216) :
    (Src.pidSerialize sbn esi).bind Src.pidDeserialize = some (sbn, esi) := by
  rw [SrcTie.pidSerialize_src sbn esi (by omega) (by omega), Option.bind_some]
  have hl : (PayloadId.serialize { sbn, esi }).length = 4 := rfl
  have hb : ∀ x ∈ PayloadId.serialize { sbn, esi }, x < 2 ^ 8 := by
    intro x hx
    simp only [PayloadId.serialize, List.mem_cons, List.not_mem_nil, or_false] at hx
    rcases hx with h | h | h | h <;> subst h <;> first | omega | exact Nat.mod_lt _ (by omega)
  rw [SrcTie.pidDeserialize_src _ hl hb, C13.pid_roundtrip { sbn, esi } hs he]; rfl

/-- C13 for the source: the 12-byte OTI round-trips for every representable configuration. -/
theorem oti_src_roundtrip (f t z n al : Nat) (h : C13.Oti.Representable { f, t, z, n, al }) :
    (Src.otiSerialize f t z n al).bind Src.otiDeserialize = some (f, t, z, n, al) := by
  obtain ⟨hf, ht, hz, hn, ha⟩ := h
  simp only at hf ht hz hn ha
  rw [SrcTie.otiSerialize_src f t z n al (by omega) ht hz hn ha, Option.bind_some]
  have hl : (Oti.serialize { f, t, z, n, al }).length = 12 := rfl
  have hb : ∀ x ∈ Oti.serialize { f, t, z, n, al }, x < 2 ^ 8 := by
    intro x hx
    simp only [Oti.serialize, List.mem_cons, List.not_mem_nil, or_false] at hx
    rcases hx with h | h | h | h | h | h | h | h | h | h | h | h <;> subst h <;>
      first | omega | exact Nat.mod_lt _ (by omega)
  rw [SrcTie.otiDeserialize_src _ hl hb, C13.oti_roundtrip { f, t, z, n, al } ⟨hf, ht, hz, hn, ha⟩]; rfl

end Rq.SrcCor
