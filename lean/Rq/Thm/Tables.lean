import Rq.Gen.Tables
import Rq.Spec.TablesRFC
/-!
# The crate's tables are the RFC's tables

`Rq.Gen` is regenerated from /repo on every run, `Rq.RFC` is the frozen copy. These equalities are
proof obligations of every property that speaks about RFC-conformant values (C04, C10, C15): a
changed table entry breaks them, whatever the rest of the code does with the entry.
-/
namespace Rq.Tables

theorem v0_eq : Gen.v0P = RFC.v0P := by decide
theorem v1_eq : Gen.v1P = RFC.v1P := by decide
theorem v2_eq : Gen.v2P = RFC.v2P := by decide
theorem v3_eq : Gen.v3P = RFC.v3P := by decide
theorem t2K_eq : Gen.t2K = RFC.t2K := by decide
theorem t2J_eq : Gen.t2J = RFC.t2J := by decide
theorem t2S_eq : Gen.t2S = RFC.t2S := by decide
theorem t2H_eq : Gen.t2H = RFC.t2H := by decide
theorem t2W_eq : Gen.t2W = RFC.t2W := by decide
theorem p1K_eq : Gen.p1K = RFC.p1K := by decide
theorem p1V_eq : Gen.p1V = RFC.p1V := by decide
theorem octExp_eq : Gen.octExpP = RFC.octExpP := by decide
theorem octLog_eq : Gen.octLogP = RFC.octLogP := by decide
theorem deg_eq : Gen.degP = RFC.degP := by decide
theorem maxK_eq : Gen.maxSourceSymbols = RFC.maxSourceSymbols := by decide
theorem lens_eq : Gen.v0PLen = 256 ∧ Gen.v1PLen = 256 ∧ Gen.v2PLen = 256 ∧ Gen.v3PLen = 256 ∧ Gen.t2KLen = 477
    ∧ Gen.p1KLen = 477 ∧ Gen.octExpPLen = 510 ∧ Gen.octLogPLen = 256 ∧ Gen.degPLen = 31 := by decide

end Rq.Tables
