import Rq.Model.Cache
import Rq.Gen.Tables
import Rq.Lemmas.Cache
/-!
# C17 — the shared encoding-plan cache is transparent and bounded under concurrency

Model: `Rq/Model/Cache.lean`. A *schedule* is any list of events (`spawn tid k` / `step tid`): the
theorems hold for every schedule, i.e. every interleaving of the lookup and insert critical
sections of any number of threads and requests.
-/
namespace Rq.C17
open Rq

variable {P : Type}

/-- the cache is a map with distinct keys, mirrored exactly by the FIFO queue, within capacity, and
every cached plan is the plan of its own key -/
structure CacheInv (gen : Nat → P) (cap : Nat) (c : PlanCache P) : Prop where
  keys_nodup : (c.plans.map (·.1)).Nodup
  order_nodup : c.order.Nodup
  same_keys : ∀ k, k ∈ c.order ↔ k ∈ c.plans.map (·.1)
  same_len : c.order.length = c.plans.length
  bounded : c.plans.length ≤ cap
  plan_of_key : ∀ kp ∈ c.plans, kp.2 = gen kp.1

/-- a request only ever holds the plan of its own K -/
def ReqInv (gen : Nat → P) : Req P → Prop
  | .wantInsert k p => p = gen k
  | .done k p => p = gen k
  | _ => True

def StateInv (gen : Nat → P) (cap : Nat) (s : CacheState P) : Prop :=
  CacheInv gen cap s.cache ∧ ∀ r ∈ s.threads, ReqInv gen r

theorem init_inv (gen : Nat → P) (cap n : Nat) : StateInv gen cap (CacheState.init n) := by
  refine ⟨⟨List.nodup_nil, List.nodup_nil, fun k => by simp [CacheState.init, PlanCache.empty], rfl,
    Nat.zero_le _, fun kp h => by simp [CacheState.init, PlanCache.empty] at h⟩, ?_⟩
  intro r hr
  have : r = Req.idle := List.eq_of_mem_replicate hr
  subst this; trivial

/-- auxiliary: appending an absent key to a cache with room keeps the invariant -/
theorem inv_append (gen : Nat → P) (cap : Nat) (c : PlanCache P) (h : CacheInv gen cap c) (k : Nat)
    (hk : k ∉ c.plans.map (·.1)) (hlt : c.plans.length < cap) :
    CacheInv gen cap { plans := c.plans ++ [(k, gen k)], order := c.order ++ [k] } where
  keys_nodup := by
    rw [List.map_append, List.nodup_append]
    refine ⟨h.keys_nodup, by simp, ?_⟩
    intro a ha b hb hab
    simp at hb
    subst hb; subst hab; exact hk ha
  order_nodup := by
    rw [List.nodup_append]
    refine ⟨h.order_nodup, by simp, ?_⟩
    intro a ha b hb hab
    simp at hb
    subst hb; subst hab; exact hk ((h.same_keys _).1 ha)
  same_keys := by
    intro x
    simp only [List.mem_append, List.map_append, h.same_keys x]
    simp
  same_len := by simp [h.same_len]
  bounded := by simp; omega
  plan_of_key := by
    intro kp hkp
    rw [List.mem_append] at hkp
    rcases hkp with hkp | hkp
    · exact h.plan_of_key kp hkp
    · simp at hkp; subst hkp; rfl

/-- auxiliary: evicting the head of the queue keeps the invariant and frees exactly one slot -/
theorem inv_evict (gen : Nat → P) (cap : Nat) (c : PlanCache P) (h : CacheInv gen cap c) (e : Nat)
    (rest : List Nat) (ho : c.order = e :: rest) :
    CacheInv gen cap { plans := c.plans.filter (·.1 != e), order := rest } ∧
      (c.plans.filter (·.1 != e)).length + 1 = c.plans.length := by
  have hnd := h.order_nodup
  rw [ho, List.nodup_cons] at hnd
  have hek : e ∈ c.plans.map (·.1) := (h.same_keys e).1 (by rw [ho]; exact List.mem_cons_self)
  have hlen := length_filter_ne_key c.plans e h.keys_nodup hek
  refine ⟨⟨?_, hnd.2, ?_, ?_, ?_, ?_⟩, hlen⟩
  · show ((c.plans.filter (·.1 != e)).map (·.1)).Nodup
    rw [keys_filter_ne]; exact h.keys_nodup.sublist List.filter_sublist
  · intro x
    show x ∈ rest ↔ x ∈ (c.plans.filter (·.1 != e)).map (·.1)
    rw [keys_filter_ne, List.mem_filter, ← h.same_keys x, ho, List.mem_cons]
    constructor
    · intro hx
      refine ⟨Or.inr hx, ?_⟩
      have : x ≠ e := fun heq => hnd.1 (heq ▸ hx)
      simpa using this
    · rintro ⟨hx | hx, hne⟩
      · simp [hx] at hne
      · exact hx
  · show rest.length = (c.plans.filter (·.1 != e)).length
    have := h.same_len
    rw [ho, List.length_cons] at this
    omega
  · show (c.plans.filter (·.1 != e)).length ≤ cap
    have := h.bounded
    omega
  · intro kp hkp
    exact h.plan_of_key kp (List.mem_filter.1 hkp).1

/-- a cached plan is only ever returned for the symbol count it was generated for -/
theorem find_plan (gen : Nat → P) (cap : Nat) (c : PlanCache P) (h : CacheInv gen cap c) (k : Nat) (p : P)
    (hf : c.find? k = some p) : p = gen k :=
  h.plan_of_key (k, p) (PlanCache.find?_eq_some c k p hf)

/-- the insert critical section keeps the invariant and returns the plan of k -/
theorem insert_inv (gen : Nat → P) (cap : Nat) (hcap : 0 < cap) (c : PlanCache P) (h : CacheInv gen cap c) (k : Nat) :
    CacheInv gen cap (c.insert cap k (gen k)).1 ∧ (c.insert cap k (gen k)).2 = gen k := by
  cases hf : c.find? k with
  | some q =>
    rw [PlanCache.insert_hit cap c k (gen k) q hf]
    exact ⟨h, find_plan gen cap c h k q hf⟩
  | none =>
    have hk : k ∉ c.plans.map (·.1) := (PlanCache.find?_eq_none_iff c k).1 hf
    by_cases hlt : c.plans.length < cap
    · rw [PlanCache.insert_room cap c k (gen k) hf hlt]
      exact ⟨inv_append gen cap c h k hk hlt, rfl⟩
    · have hge : cap ≤ c.plans.length := by omega
      cases ho : c.order with
      | nil =>
        have := h.same_len
        rw [ho] at this
        simp at this
        omega
      | cons e rest =>
        rw [PlanCache.insert_evict cap c k (gen k) hf hge e rest ho]
        have ⟨hi, hl⟩ := inv_evict gen cap c h e rest ho
        have hb := h.bounded
        refine ⟨inv_append gen cap _ hi k ?_ (by show (c.plans.filter (·.1 != e)).length < cap; omega), rfl⟩
        show k ∉ (c.plans.filter (·.1 != e)).map (·.1)
        rw [keys_filter_ne]
        exact fun hm => hk (List.mem_filter.1 hm).1

/-- eviction is FIFO and never removes the key being inserted -/
theorem insert_fifo (gen : Nat → P) (cap : Nat) (hcap : 0 < cap) (c : PlanCache P) (h : CacheInv gen cap c) (k : Nat)
    (hmiss : c.find? k = none) :
    let c' := (c.insert cap k (gen k)).1
    k ∈ c'.order ∧ c'.find? k = some (gen k) ∧
      (c.plans.length < cap → c'.order = c.order ++ [k]) ∧
      (c.plans.length = cap → c'.order = c.order.tail ++ [k]) := by
  have hk : k ∉ c.plans.map (·.1) := (PlanCache.find?_eq_none_iff c k).1 hmiss
  by_cases hlt : c.plans.length < cap
  · rw [PlanCache.insert_room cap c k (gen k) hmiss hlt]
    refine ⟨by simp, find_append_last _ _ k (gen k) hk, fun _ => rfl, fun heq => by omega⟩
  · have hge : cap ≤ c.plans.length := by omega
    cases ho : c.order with
    | nil =>
      have := h.same_len
      rw [ho] at this
      simp at this
      omega
    | cons e rest =>
      rw [PlanCache.insert_evict cap c k (gen k) hmiss hge e rest ho]
      refine ⟨by simp, find_append_last _ _ k (gen k) ?_, fun hlt' => by omega, fun _ => rfl⟩
      rw [keys_filter_ne]
      exact fun hm => hk (List.mem_filter.1 hm).1

/-- every event of every thread preserves the invariant -/
theorem next_inv (gen : Nat → P) (cap : Nat) (hcap : 0 < cap) (s : CacheState P) (h : StateInv gen cap s) (ev : Ev) :
    StateInv gen cap (s.next gen cap ev) := by
  obtain ⟨hc, ht⟩ := h
  have hset : ∀ (tid : Nat) (x : Req P), ReqInv gen x → ∀ r ∈ setAt s.threads tid x, ReqInv gen r := by
    intro tid x hx r hr
    rcases mem_setAt _ _ _ _ hr with rfl | hr
    · exact hx
    · exact ht r hr
  cases ev with
  | spawn tid k =>
    cases hth : s.threads[tid]? with
    | none => simp only [CacheState.next, hth]; exact ⟨hc, ht⟩
    | some r =>
      cases r with
      | idle => simp only [CacheState.next, hth]; exact ⟨hc, hset tid (.wantLookup k) trivial⟩
      | done k' p' => simp only [CacheState.next, hth]; exact ⟨hc, hset tid (.wantLookup k) trivial⟩
      | wantLookup k' => simp only [CacheState.next, hth]; exact ⟨hc, ht⟩
      | generating k' => simp only [CacheState.next, hth]; exact ⟨hc, ht⟩
      | wantInsert k' p' => simp only [CacheState.next, hth]; exact ⟨hc, ht⟩
  | step tid =>
    cases hth : s.threads[tid]? with
    | none => simp only [CacheState.next, hth]; exact ⟨hc, ht⟩
    | some r =>
      have hr : ReqInv gen r := ht r (List.mem_of_getElem? hth)
      cases r with
      | idle => simp only [CacheState.next, hth]; exact ⟨hc, ht⟩
      | done k' p' => simp only [CacheState.next, hth]; exact ⟨hc, ht⟩
      | wantLookup k' =>
        cases hf : s.cache.find? k' with
        | none =>
          simp only [CacheState.next, hth, hf]
          exact ⟨hc, hset tid (.generating k') trivial⟩
        | some p' =>
          simp only [CacheState.next, hth, hf]
          exact ⟨hc, hset tid (.done k' p') (find_plan gen cap s.cache hc k' p' hf)⟩
      | generating k' =>
        simp only [CacheState.next, hth]
        exact ⟨hc, hset tid (.wantInsert k' (gen k')) rfl⟩
      | wantInsert k' p' =>
        have hp : p' = gen k' := hr
        subst hp
        have ⟨hi, hq⟩ := insert_inv gen cap hcap s.cache hc k'
        simp only [CacheState.next, hth]
        exact ⟨hi, hset tid (.done k' _) hq⟩

/-- **Every reachable state, under every schedule, with any number of threads.** -/
theorem run_inv (gen : Nat → P) (cap : Nat) (hcap : 0 < cap) (n : Nat) (evs : List Ev) :
    StateInv gen cap ((CacheState.init n).run gen cap evs) := by
  have key : ∀ (evs : List Ev) (s : CacheState P), StateInv gen cap s → StateInv gen cap (s.run gen cap evs) := by
    intro evs
    induction evs with
    | nil => intro s hs; exact hs
    | cons ev evs ih =>
      intro s hs
      exact ih _ (next_inv gen cap hcap s hs ev)
  exact key evs _ (init_inv gen cap n)

/-- the cache never holds more than its capacity of plans, however many sizes are requested -/
theorem bounded (gen : Nat → P) (cap : Nat) (hcap : 0 < cap) (n : Nat) (evs : List Ev) :
    ((CacheState.init n).run gen cap evs).cache.plans.length ≤ cap :=
  (run_inv gen cap hcap n evs).1.bounded

/-- **Transparency**: whatever the interleaving, a finished request for K holds exactly the plan a
single thread would generate without any cache — so the encoder built from it is the same. -/
theorem transparent (gen : Nat → P) (cap : Nat) (hcap : 0 < cap) (n : Nat) (evs : List Ev) (tid k : Nat) (p : P)
    (h : ((CacheState.init n).run gen cap evs).threads[tid]? = some (.done k p)) : p = gen k :=
  (run_inv gen cap hcap n evs).2 _ (List.mem_of_getElem? h)

/-- the capacity compiled into the crate (regenerated from /repo on every run) is positive -/
theorem capacity_pos : 0 < Gen.cacheCapacity := by decide

/-! ## Non-vacuity: a schedule with a lost race followed by an eviction -/
example : (((CacheState.init (P := Nat) 2).run id 1 [.spawn 0 5, .spawn 1 5, .step 0, .step 1, .step 0, .step 1,
    .step 0, .step 1, .spawn 0 6, .step 0, .step 0, .step 0]).cache.order) = [6] := by decide

end Rq.C17
