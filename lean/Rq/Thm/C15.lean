import Mathlib.Data.Nat.Prime.Basic
import Mathlib.Data.ZMod.Basic
import Rq.Lemmas.Tab
import Rq.Lemmas.Params
import Rq.Model.Params
/-!
# C15 — code parameters and symbol tuples are well-formed for every K and every ESI

Model: `Rq/Model/Params.lean` (`rowOf`/`sysParams`, `rand`, `deg`, `tuple`, `encIndices`), where
`none` is a panic of a build with overflow checks. Every statement below is for *all* K ≤ 56403
and *all* internal symbol ids X (no bound), so in particular for the ~8·10^9 reachable pairs.

The packed views of Table 2 used in the statements are defined in `Rq/Lemmas/Params.lean`
(they are needed there for the kernel-checked row facts):
`K' i = tb32 Gen.t2K i`, `J i = tb32 Gen.t2J i`, `S i = tb32 Gen.t2S i`, `H i = tb32 Gen.t2H i`,
`W i = tb32 Gen.t2W i`, `L i = K' i + S i + H i`, `P i = L i - W i`, `P1 i = tb32 Gen.p1V i`;
so are `isPrimeB` (trial division) with `isPrimeB_prime`, the per-row check `rowOk` with
`row_ok : i < 477 → rowOk i = true` / `factRows_ok`, `first_last`, and `factDeg`/`factDeg_ok`.
-/
namespace Rq.C15
open Rq

/-! ## K ↦ row: `extended_source_block_symbols` returns the least table size ≥ K -/

/-- the scan finds the first row with K' ≥ k -/
theorem rowOf_spec (k i : Nat) (h : rowOf k = some i) :
    k ≤ 56403 ∧ i < 477 ∧ k ≤ K' i ∧ ∀ j, j < i → K' j < k := (rowOf_iff k i).mp h

/-- … and it succeeds for every K ≤ 56403 (all 56 404 values), refusing everything above -/
theorem rowOf_total (k : Nat) : (rowOf k).isSome ↔ k ≤ 56403 := by
  constructor
  · intro h
    obtain ⟨i, hi⟩ := Option.isSome_iff_exists.mp h
    exact (rowOf_spec k i hi).1
  · intro hk
    unfold rowOf
    rw [maxK_eq, if_pos hk, List.find?_isSome]
    refine ⟨476, List.mem_range.mpr (by omega), ?_⟩
    rw [tget_t2K 476 (by omega), first_last.2.1]
    simpa using hk

/-- K' is the smallest table size ≥ K: no table entry lies in [K, K') -/
theorem extK_least (k kp : Nat) (h : extK k = some kp) :
    k ≤ kp ∧ ∃ i, i < 477 ∧ kp = K' i ∧ ∀ j, j < 477 → k ≤ K' j → kp ≤ K' j := by
  unfold extK at h
  obtain ⟨i, hi, hkp⟩ := Option.map_eq_some_iff.mp h
  obtain ⟨_, hi477, hki, hlt⟩ := rowOf_spec k i hi
  rw [tget_t2K i hi477] at hkp
  subst hkp
  refine ⟨hki, i, hi477, rfl, ?_⟩
  intro j hj hkj
  by_cases hji : j < i
  · have := hlt j hji; omega
  · exact K'_mono i j (by omega) hj

/-- all the getters use the same row, and `calculate_p1` (own table) agrees with it -/
theorem sysParams_row (k i : Nat) (h : rowOf k = some i) :
    sysParams k = some { kp := K' i, j := J i, s := S i, h := H i, w := W i, l := L i, p := P i, p1 := P1 i } := by
  have hs := rowOf_spec k i h
  have hi := hs.2.1
  have hr := row_props i hi
  have e1 : extK k = some (K' i) := by simp only [extK, h, Option.map_some, tget_t2K i hi]
  have e2 : sysIndex k = some (J i) := by simp only [sysIndex, h, Option.map_some, tget_t2J i hi]
  have e3 : numLdpc k = some (S i) := by simp only [numLdpc, h, Option.map_some, tget_t2S i hi]
  have e4 : numHdpc k = some (H i) := by simp only [numHdpc, h, Option.map_some, tget_t2H i hi]
  have e5 : numLt k = some (W i) := by simp only [numLt, h, Option.map_some, tget_t2W i hi]
  have e6 : numInter k = some (L i) := by simp only [numInter, e1, e3, e4, L]
  have e7 : numPi k = some (P i) := by
    simp only [numPi, e6, e5, P]
    rw [if_pos hr.2.2.2.1]
  simp only [sysParams, e1, e2, e3, e4, e5, e6, e7, calcP1_row k i h]

/-- **Consistency of the code parameters for every K ≤ 56403.** -/
theorem sysParams_consistent (k : Nat) (hk : k ≤ 56403) :
    ∃ sp, sysParams k = some sp ∧ k ≤ sp.kp ∧ Nat.Prime sp.s ∧ Nat.Prime sp.w ∧ Nat.Prime sp.p1
      ∧ sp.p ≤ sp.p1 ∧ (∀ q, sp.p ≤ q → q < sp.p1 → ¬ Nat.Prime q)
      ∧ 1 ≤ sp.w - sp.s ∧ 2 ≤ sp.h ∧ sp.h ≤ sp.p ∧ sp.l < 65536
      ∧ sp.l = sp.kp + sp.s + sp.h ∧ sp.p = sp.l - sp.w ∧ sp.w ≤ sp.l ∧ 17 ≤ sp.w := by
  obtain ⟨i, hi⟩ := Option.isSome_iff_exists.mp ((rowOf_total k).mpr hk)
  obtain ⟨_, hi477, hki, _⟩ := rowOf_spec k i hi
  obtain ⟨hS, hW, hP1, hWL, hPP1, hleast, hSW, hH, hHP, hL, hW17, _, _, _, _, _⟩ := row_props i hi477
  refine ⟨_, sysParams_row k i hi, hki, hS, hW, hP1, hPP1, hleast, ?_, hH, hHP, hL, rfl, rfl, hWL, hW17⟩
  show 1 ≤ W i - S i
  omega

/-! ## Rand -/

/-- RFC 6330 5.3.5.1 written on naturals -/
def specRand (y i m : Nat) : Nat :=
  (tb32 Gen.v0P ((y + i) % 256) ^^^ tb32 Gen.v1P ((y / 2 ^ 8 + i) % 256)
    ^^^ tb32 Gen.v2P ((y / 2 ^ 16 + i) % 256) ^^^ tb32 Gen.v3P ((y / 2 ^ 24 + i) % 256)) % m

/-- no panic and the RFC value, for every 32-bit y, every i < 2^24 (the code uses i ≤ 7), m > 0 -/
theorem rand_spec (y i m : Nat) (hy : y < 2 ^ 32) (hi : i < 2 ^ 24) (hm : 0 < m) :
    rand y i m = some (specRand y i m) := by
  unfold rand specRand U32
  simp only [Nat.shiftRight_eq_div_pow]
  rw [if_neg (by omega), if_neg (by omega)]
  have e0 : (y + i) % 4294967296 % 256 = (y + i) % 256 := by omega
  simp only [e0]
  rw [tget_v0 _ (Nat.mod_lt _ (by decide)), tget_v1 _ (Nat.mod_lt _ (by decide)),
    tget_v2 _ (Nat.mod_lt _ (by decide)), tget_v3 _ (Nat.mod_lt _ (by decide))]

theorem specRand_lt (y i m : Nat) (hm : 0 < m) : specRand y i m < m := Nat.mod_lt _ hm

/-- the pinned code (before the repair) panics exactly when y + i wraps -/
theorem randOld_panics (y i m : Nat) (h : 2 ^ 32 ≤ y + i) : randOld y i m = none := by
  unfold randOld U32; rw [if_pos (by omega)]

/-! ## Deg -/

/-- `deg` returns min(d, W-2) for the unique d in 1..30 with f[d-1] ≤ v < f[d] -/
theorem deg_spec (v w : Nat) (hv : v < 1048576) (hw : 2 ≤ w) :
    ∃ d, 1 ≤ d ∧ d ≤ 30 ∧ tb32 Gen.degP (d - 1) ≤ v ∧ v < tb32 Gen.degP d
      ∧ deg v w = some (min d (w - 2)) := by
  unfold deg
  rw [if_neg (by omega), if_neg (by omega)]
  cases hf : (List.range 30).find? (fun d => decide (v < tget degA (d + 1))) with
  | none =>
    rw [List.find?_range_eq_none] at hf
    have := hf 29 (by omega)
    rw [tget_deg 30 (by omega), deg_tab.2] at this
    simp at this
    omega
  | some d0 =>
    rw [List.find?_range_eq_some] at hf
    obtain ⟨h1, h2, h3⟩ := hf
    have hd0 : d0 < 30 := List.mem_range.mp h2
    rw [tget_deg (d0 + 1) (by omega)] at h1
    refine ⟨d0 + 1, by omega, by omega, ?_, by simpa using h1, rfl⟩
    rw [Nat.add_sub_cancel]
    rcases Nat.eq_zero_or_pos d0 with h0 | h0
    · rw [h0, deg_tab.1]; exact Nat.zero_le _
    · have := h3 (d0 - 1) (by omega)
      rw [show d0 - 1 + 1 = d0 by omega, tget_deg d0 (by omega)] at this
      simpa using this

/-! ## Tuple -/

/-- helper: the tuple in closed form (`tupY x j` is the `y` of `intermediate_tuple`) -/
theorem tupleWith_eq (x w j p1 : Nat) (hx : x < 2 ^ 32) (hw : 3 ≤ w)
    (hj : j < 1024) (hp1 : 2 ≤ p1) :
    ∃ d, 1 ≤ d ∧ d ≤ 30 ∧ deg (specRand (tupY x j) 0 1048576) w = some (min d (w - 2)) ∧
    tuple x w j p1 = some
      { d := min d (w - 2), a := 1 + specRand (tupY x j) 1 (w - 1), b := specRand (tupY x j) 2 w,
        d1 := if min d (w - 2) < 4 then 2 + specRand x 3 2 else 2,
        a1 := 1 + specRand x 4 (p1 - 1), b1 := specRand x 5 p1 } := by
  have hy : tupY x j < 2 ^ 32 := Nat.mod_lt _ (by decide)
  obtain ⟨d, hd1, hd30, _, _, hdeg⟩ := deg_spec (specRand (tupY x j) 0 1048576) w
    (specRand_lt _ _ _ (by decide)) (by omega)
  refine ⟨d, hd1, hd30, hdeg, ?_⟩
  have hA := tupA_lt j hj
  unfold tuple
  rw [tupleWith_unfold, if_neg (by omega)]
  rw [rand_spec _ 0 _ hy (by decide) (by decide)]
  simp only [hdeg]
  rw [rand_spec _ 1 _ hy (by decide) (by omega), rand_spec _ 2 _ hy (by decide) (by omega),
    rand_spec x 3 2 hx (by decide) (by decide), rand_spec x 4 _ hx (by decide) (by omega),
    rand_spec x 5 _ hx (by decide) (by omega)]
  by_cases h4 : min d (w - 2) < 4
  · simp only [if_pos h4, Option.map_some]
  · simp only [if_neg h4]

set_option linter.unusedVariables false in
/-- **Every tuple is produced without panic and lies in range**, for all X < 2^32 and any
parameters of the shape Table 2 provides (instantiated for every row in `tuple_table`). -/
theorem tuple_wf (x w j p1 : Nat) (hx : x < 2 ^ 32) (hw : 3 ≤ w) (hw' : w < 2 ^ 32)
    (hj : j < 1024) (hp1 : 2 ≤ p1) (hp1' : p1 < 2 ^ 32) :
    ∃ t, tuple x w j p1 = some t ∧ 1 ≤ t.d ∧ t.d ≤ min 30 (w - 2) ∧ 1 ≤ t.a ∧ t.a < w ∧ t.b < w
      ∧ (t.d1 = 2 ∨ t.d1 = 3) ∧ 1 ≤ t.a1 ∧ t.a1 < p1 ∧ t.b1 < p1 := by
  obtain ⟨d, hd1, hd30, _, ht⟩ := tupleWith_eq x w j p1 hx hw hj hp1
  refine ⟨_, ht, ?_, ?_, ?_, ?_, ?_, ?_, ?_, ?_, ?_⟩ <;> dsimp only
  · omega
  · omega
  · omega
  · have := specRand_lt (tupY x j) 1 (w - 1) (by omega); omega
  · exact specRand_lt _ _ _ (by omega)
  · have := specRand_lt x 3 2 (by omega)
    split <;> omega
  · omega
  · have := specRand_lt x 4 (p1 - 1) (by omega); omega
  · exact specRand_lt _ _ _ (by omega)

set_option linter.unusedVariables false in
/-- the tuple is RFC 6330's Tuple[K', X] (5.3.5.4), written with `specRand` -/
theorem tuple_spec (x w j p1 : Nat) (hx : x < 2 ^ 32) (hw : 3 ≤ w) (hw' : w < 2 ^ 32)
    (hj : j < 1024) (hp1 : 2 ≤ p1) (hp1' : p1 < 2 ^ 32) (t : Tuple) (h : tuple x w j p1 = some t) :
    let a0 := 53591 + j * 997
    let A := if a0 % 2 = 0 then a0 + 1 else a0
    let B := 10267 * (j + 1)
    let y := (B + x * A) % 2 ^ 32
    let v := specRand y 0 (2 ^ 20)
    (deg v w = some t.d) ∧ t.a = 1 + specRand y 1 (w - 1) ∧ t.b = specRand y 2 w
      ∧ t.d1 = (if t.d < 4 then 2 + specRand x 3 2 else 2)
      ∧ t.a1 = 1 + specRand x 4 (p1 - 1) ∧ t.b1 = specRand x 5 p1 := by
  obtain ⟨d, hd1, hd30, hdeg, ht⟩ := tupleWith_eq x w j p1 hx hw hj hp1
  rw [h] at ht
  injection ht with ht
  subst ht
  intro a0 A B y v
  have ey : y = tupY x j := rfl
  have ev : v = specRand (tupY x j) 0 1048576 := rfl
  rw [ev, ey]
  exact ⟨hdeg, rfl, rfl, rfl, rfl, rfl⟩

/-- the pinned code: exactly where `y` comes out as 2^32-1 (i ≥ 1) or 2^32-2 (i = 2) the
checked build panicked. Witness: the Table-2 row of K' = 989 is row 118 with W = 1009, J = 691,
P1 = 53 (`defect_rows`, tied to `sysParams 989` in `defect_989`); for X = 3158229 `y` is 2^32-1,
so `rand(y, 1, W-1)` overflowed in `y + i`, while the repaired code produces the tuple. -/
theorem tupleOld_defect :
    tupleOld 3158229 1009 691 53 = none ∧ (tuple 3158229 1009 691 53).isSome := by
  constructor
  · unfold tupleOld
    rw [tupleWith_unfold, if_neg (by decide)]
    have ey : tupY 3158229 691 = 4294967295 := by decide
    simp only [ey]
    rw [randOld_panics 4294967295 1 _ (by decide)]
    cases randOld 4294967295 0 1048576 with
    | none => rfl
    | some v => dsimp only; cases deg v 1009 <;> rfl
  · obtain ⟨t, ht, _⟩ := tuple_wf 3158229 1009 691 53 (by decide) (by decide) (by decide) (by decide)
      (by decide) (by decide)
    rw [ht]; rfl

/-- the second (and last, see DESIGN) overflow: K' = 2195 is row 175 with W = 2221, J = 858,
P1 = 79; for X = 8192877 `y` is 2^32-2 and `rand(y, 2, W)` overflowed -/
theorem tupleOld_defect_2195 :
    tupleOld 8192877 2221 858 79 = none ∧ (tuple 8192877 2221 858 79).isSome := by
  constructor
  · unfold tupleOld
    rw [tupleWith_unfold, if_neg (by decide)]
    have ey : tupY 8192877 858 = 4294967294 := by decide
    simp only [ey]
    rw [randOld_panics 4294967294 2 _ (by decide)]
    cases randOld 4294967294 0 1048576 with
    | none => rfl
    | some v => dsimp only; cases deg v 2221 <;> cases randOld 4294967294 1 (2221 - 1) <;> rfl
  · obtain ⟨t, ht, _⟩ := tuple_wf 8192877 2221 858 79 (by decide) (by decide) (by decide) (by decide)
      (by decide) (by decide)
    rw [ht]; rfl

/-- the witnesses are the parameters the crate really uses for K = 989 and K = 2195 -/
theorem defect_989 : ∃ sp, sysParams 989 = some sp ∧ tupleOld 3158229 sp.w sp.j sp.p1 = none
    ∧ (tuple 3158229 sp.w sp.j sp.p1).isSome := by
  obtain ⟨⟨h117, h118, hw, hj, hp1⟩, _⟩ := defect_rows
  have hrow : rowOf 989 = some 118 := by
    rw [rowOf_iff]
    refine ⟨by decide, by decide, by omega, fun j hj => ?_⟩
    have := K'_mono j 117 (by omega) (by decide)
    omega
  refine ⟨_, sysParams_row 989 118 hrow, ?_⟩
  show tupleOld 3158229 (W 118) (J 118) (P1 118) = none ∧ (tuple 3158229 (W 118) (J 118) (P1 118)).isSome
  rw [hw, hj, hp1]
  exact tupleOld_defect

theorem defect_2195 : ∃ sp, sysParams 2195 = some sp ∧ tupleOld 8192877 sp.w sp.j sp.p1 = none
    ∧ (tuple 8192877 sp.w sp.j sp.p1).isSome := by
  obtain ⟨_, h174, h175, hw, hj, hp1⟩ := defect_rows
  have hrow : rowOf 2195 = some 175 := by
    rw [rowOf_iff]
    refine ⟨by decide, by decide, by omega, fun j hj => ?_⟩
    have := K'_mono j 174 (by omega) (by decide)
    omega
  refine ⟨_, sysParams_row 2195 175 hrow, ?_⟩
  show tupleOld 8192877 (W 175) (J 175) (P1 175) = none ∧ (tuple 8192877 (W 175) (J 175) (P1 175)).isSome
  rw [hw, hj, hp1]
  exact tupleOld_defect_2195

/-! ## Enc indices: asserts pass, the PI skip loop terminates, every index is < L -/

/-- the skip loop terminates within P1 steps because P1 is prime, 1 ≤ a1 < P1 and P ≥ 1 -/
theorem skipPi_terminates (b1 a1 p p1 : Nat) (hp1 : Nat.Prime p1) (ha : 1 ≤ a1) (ha' : a1 < p1)
    (hb : b1 < p1) (hp : 1 ≤ p) :
    ∃ r, skipPi (p1 + 1) b1 a1 p p1 = some r ∧ r < p :=
  skipPi_total b1 a1 p p1 hp1 ha ha' hb hp

/-- **Producing or consuming any symbol never panics and touches only indices < L.** -/
theorem encIndices_wf (k x : Nat) (hk : k ≤ 56403) (hx : x < 2 ^ 32) :
    ∃ sp l, sysParams k = some sp ∧ encIndicesOf sp x = some l ∧ l ≠ [] ∧ ∀ i ∈ l, i < sp.l := by
  obtain ⟨i, hi⟩ := Option.isSome_iff_exists.mp ((rowOf_total k).mpr hk)
  obtain ⟨_, hi477, hki, _⟩ := rowOf_spec k i hi
  obtain ⟨hS, hW, hP1, hWL, hPP1, hleast, hSW, hH, hHP, hL, hW17, _, _, hJ, _, hP1lt⟩ :=
    row_props i hi477
  obtain ⟨t, ht, htd1, htd, hta1, hta, htb, htd1', hta1', hta1'', htb1⟩ :=
    tuple_wf x (W i) (J i) (P1 i) hx (by omega) (by omega) hJ hP1.two_le (by omega)
  obtain ⟨r, hr, hrp⟩ := skipPi_terminates t.b1 t.a1 (P i) (P1 i) hP1 hta1' hta1'' htb1 (by omega)
  obtain ⟨rest, hrest, hrestlt⟩ := piWalk_wf t.a1 (P i) (P1 i) (W i) hP1 hta1' hta1'' (by omega)
    (t.d1 - 1) r
  have hPdef : P i = L i - W i := rfl
  refine ⟨_, ltWalk t.d t.a t.b (W i) ++ (W i + r) :: rest, sysParams_row k i hi, ?_, ?_, ?_⟩
  · simp only [encIndicesOf, ht, encIndices]
    rw [if_neg (by omega)]
    simp only [hr, hrest, Option.map_some]
  · simp
  · intro m hm
    show m < L i
    rcases List.mem_append.mp hm with hm | hm
    · have := ltWalk_lt t.a (W i) (by omega) t.d t.b htb m hm
      omega
    · rcases List.mem_cons.mp hm with rfl | hm
      · omega
      · have := hrestlt m hm
        omega

/-! ## Non-vacuity -/
example : ∃ sp, sysParams 56403 = some sp ∧ Nat.Prime sp.w := by
  obtain ⟨sp, h, _, _, hw, _⟩ := sysParams_consistent 56403 (by decide)
  exact ⟨sp, h, hw⟩

end Rq.C15
