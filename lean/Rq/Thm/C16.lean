import Rq.Model.BitMat
import Rq.Lemmas.Dense
/-!
# C16 — dense and sparse binary matrices implement the same abstract matrix

Proved here: the bit-packed **dense** matrix (`Dense`, code-shaped model of `src/matrix.rs`) refines
the plain two-dimensional bit array (`BitMat`) under every operation of the `BinaryMatrix` trait and
hence under every admissible operation sequence (`refines_run`). The **sparse** matrix
(`src/sparse_matrix.rs` with its dense tail, row / column maps and stale-superset column index) is
modelled in `Rq/Model/Sparse.lean`; its refinement is proved operation by operation in
`Rq/Thm/C16s.lean` and lifted to every admissible operation sequence, together with the statement of
the property itself (`dense_sparse_agree`), in `Rq/Thm/C16r.lean`.
-/
namespace Rq.C16
open Rq

/-- storage invariant: every row has its words, every word is a u64 -/
def Inv (m : Dense) : Prop := m.h * m.rww ≤ m.el.size ∧ ∀ i, i < m.el.size → m.el.getD i 0 < U64

theorem new_inv (h w : Nat) : Inv (Dense.new h w) ∧ (Dense.new h w).abs = BitMat.new h w := by
  have hsz : h * ((w + 63) / 64) ≤ h * (w + 63) / 64 := by
    rw [Nat.le_div_iff_mul_le (by norm_num), Nat.mul_assoc]
    exact Nat.mul_le_mul_left _ (Nat.div_mul_le_self _ _)
  constructor
  · constructor
    · simpa [Dense.new, Dense.rww] using hsz
    · intro i hi
      simp only [Dense.new, Array.size_replicate] at hi
      simp [Dense.new, Array.getD_eq_getD_getElem?, hi, U64]
  · symm
    apply Dense.eq_abs_of
    · rfl
    · rfl
    · simp [BitMat.new, Dense.new]
    · intro r hr
      simp only [Dense.new] at hr
      simp [BitMat.new, Dense.new, Array.getD_eq_getD_getElem?, hr]
    · intro r c hr hc
      simp only [Dense.new] at hr hc
      have h1 : (BitMat.new h w).get r c = false := by
        simp [BitMat.new, BitMat.get, Array.getD_eq_getD_getElem?, hr, hc]
      rw [h1]
      simp only [Dense.get, Dense.bitPos, Dense.new]
      split
      · rename_i h2
        simp only [Array.size_replicate] at h2
        simp [testBit64]
      · rfl

/-- reading a cell -/
theorem get_refines (m : Dense) (hi : Inv m) (r c : Nat) (hr : r < m.h) (hc : c < m.w) :
    m.get r c = some (m.abs.get r c) := by
  rw [m.abs_get_cell hi.1 r c hr hc, m.get_eq_cell hi.1 r c hr hc]

theorem set_refines (m : Dense) (hi : Inv m) (r c : Nat) (v : Bool) (hr : r < m.h) (hc : c < m.w) :
    ∃ m', m.set r c v = some m' ∧ Inv m' ∧ m.abs.set r c v = some m'.abs := by
  obtain ⟨m', h1, h2, h3, h4, h5⟩ := m.set_spec hi r c v hr hc
  refine ⟨m', h1, h2, ?_⟩
  have hr' : r < m.abs.h := hr
  have hc' : c < m.abs.w := hc
  simp only [BitMat.set, hr', hc', and_self, if_true, Option.some.injEq]
  apply Dense.eq_abs_of
  · exact h3.symm
  · exact h4.symm
  · simp [Dense.abs, h3]
  · intro r' hr'
    rw [h3] at hr'
    simp only [getD_setIfInBounds_ds]
    split
    · rw [Array.size_setIfInBounds, m.abs_row_size r hr, h4]
    · rw [m.abs_row_size r' hr', h4]
  · intro r' c' hr' hc'
    rw [h3] at hr'; rw [h4] at hc'
    rw [BitMat.get_set_rows, m.abs_rows_size, m.abs_row_size r hr]
    rw [m'.get_eq_cell h2.1 r' c' (h3 ▸ hr') (h4 ▸ hc'), Option.getD_some, h5 r' c' hr' hc',
      m.abs_get_cell hi.1 r' c' hr' hc']
    simp [hr, hc]

theorem swapRows_refines (m : Dense) (hi : Inv m) (i j : Nat) (hi' : i < m.h) (hj : j < m.h) :
    ∃ m', m.swapRows i j = some m' ∧ Inv m' ∧ m.abs.swapRows i j = some m'.abs := by
  obtain ⟨m', h1, h2, h3, h4, h5⟩ := m.swapRows_spec hi i j hi' hj
  refine ⟨m', h1, h2, ?_⟩
  have hd' : i < m.abs.h := hi'
  have hs' : j < m.abs.h := hj
  simp only [BitMat.swapRows, hd', hs', and_self, if_true, Option.some.injEq]
  apply Dense.eq_abs_of_cell _ _ h2
  · exact h3.symm
  · exact h4.symm
  · simp [Dense.abs, h3]
  · intro r' hr'
    rw [h3] at hr'
    simp only [getD_setIfInBounds_ds]
    split
    · rw [m.abs_row_size i hi', h4]
    · split
      · rw [m.abs_row_size j hj, h4]
      · rw [m.abs_row_size r' hr', h4]
  · intro r c hr hc
    rw [h3] at hr; rw [h4] at hc
    rw [BitMat.get_swapRows_rows _ _ _ (by rw [m.abs_rows_size]; exact hi') (by rw [m.abs_rows_size]; exact hj),
      h5 r c hr hc]
    by_cases h : r = j
    · subst h
      by_cases h' : r = i
      · subst h'; simp only [if_true, m.abs_get_cell hi.1 _ c hr hc]
      · simp only [h', if_true, if_false, m.abs_get_cell hi.1 _ c hi' hc]
    · simp only [h, if_false]
      by_cases h' : r = i
      · subst h'; simp only [if_true, m.abs_get_cell hi.1 _ c hj hc]
      · simp only [h', if_false, m.abs_get_cell hi.1 _ c hr hc]

/-- `swap_columns(i, j, start_row_hint)` under its contract: rows above the hint agree in columns i, j -/
theorem swapCols_refines (m : Dense) (hi : Inv m) (i j hint : Nat) (hi' : i < m.w) (hj : j < m.w)
    (hcontract : ∀ r, r < hint → r < m.h → m.abs.get r i = m.abs.get r j) :
    ∃ m', m.swapCols i j hint = some m' ∧ Inv m' ∧ m.abs.swapCols i j = some m'.abs := by
  have hn : hint + (m.h - hint) ≤ m.h ∨ m.h - hint = 0 := by omega
  obtain ⟨m', h1, h2, h3, h4, h5⟩ : ∃ m', m.swapCols i j hint = some m' ∧ m'.WF ∧ m'.h = m.h ∧ m'.w = m.w ∧
      ∀ r c, r < m.h → c < m.w →
        m'.cell r c = if hint ≤ r then
            (if c = j then m.cell r i else if c = i then m.cell r j else m.cell r c)
          else m.cell r c := by
    rw [Dense.swapCols_eq]
    rcases hn with hn | hn
    · obtain ⟨m', h1, h2, h3, h4, h5⟩ := swapCols_fold_spec m hi i j hint hi' hj (m.h - hint) hn
      refine ⟨m', h1, h2, h3, h4, fun r c hr hc => ?_⟩
      rw [h5 r c hr hc]
      have : (hint ≤ r ∧ r < hint + (m.h - hint)) ↔ hint ≤ r := by omega
      simp only [this]
    · rw [hn]
      refine ⟨m, rfl, hi, rfl, rfl, fun r c hr hc => ?_⟩
      rw [if_neg (by omega)]
  refine ⟨m', h1, h2, ?_⟩
  have hd' : i < m.abs.w := hi'
  have hs' : j < m.abs.w := hj
  simp only [BitMat.swapCols, hd', hs', and_self, if_true, Option.some.injEq]
  apply Dense.eq_abs_of_cell _ _ h2
  · exact h3.symm
  · exact h4.symm
  · simp [Dense.abs, h3]
  · intro r' hr'
    rw [h3] at hr'
    have := m.abs_row_size r' hr'
    simp only [Array.getD_eq_getD_getElem?] at this ⊢
    have hr2 : r' < m.abs.rows.size := by rw [m.abs_rows_size]; exact hr'
    simp only [Array.getElem?_map, Array.getElem?_eq_getElem hr2, Option.map_some, Option.getD_some,
      Array.size_setIfInBounds] at this ⊢
    rw [this, h4]
  · intro r c hr hc
    rw [h3] at hr; rw [h4] at hc
    rw [BitMat.get_swapCols_rows _ _ _ _ _ (by rw [m.abs_rows_size]; exact hr)
      (by rw [m.abs_row_size r hr]; exact hi') (by rw [m.abs_row_size r hr]; exact hj),
      h5 r c hr hc, m.abs_get_cell hi.1 _ _ hr hi', m.abs_get_cell hi.1 _ _ hr hj, m.abs_get_cell hi.1 _ _ hr hc]
    by_cases h : hint ≤ r
    · rw [if_pos h]
    · rw [if_neg h]
      have e := hcontract r (by omega) hr
      rw [m.abs_get_cell hi.1 _ _ hr hi', m.abs_get_cell hi.1 _ _ hr hj] at e
      by_cases h1 : c = j
      · subst h1; rw [if_pos rfl, e]
      · rw [if_neg h1]
        by_cases h2 : c = i
        · subst h2; rw [if_pos rfl, e]
        · rw [if_neg h2]

theorem addAssign_refines (m : Dense) (hi : Inv m) (dest src : Nat) (hd : dest < m.h) (hs : src < m.h) (hne : dest ≠ src) :
    ∃ m', m.addAssign dest src = some m' ∧ Inv m' ∧ m.abs.addAssign dest src = some m'.abs := by
  obtain ⟨m', h1, h2, h3, h4, h5⟩ := m.addAssign_spec hi dest src hd hs hne
  refine ⟨m', h1, h2, ?_⟩
  have hd' : dest < m.abs.h := hd
  have hs' : src < m.abs.h := hs
  simp only [BitMat.addAssign, hd', hs', ne_eq, hne, not_false_eq_true, and_self, if_true, Option.some.injEq]
  apply Dense.eq_abs_of_cell _ _ h2
  · exact h3.symm
  · exact h4.symm
  · simp [Dense.abs, h3]
  · intro r' hr'
    rw [h3] at hr'
    simp only [getD_setIfInBounds_ds]
    split
    · rw [Array.size_mapIdx, m.abs_row_size dest hd, h4]
    · rw [m.abs_row_size r' hr', h4]
  · intro r c hr hc
    rw [h3] at hr; rw [h4] at hc
    rw [BitMat.get_addAssign_rows, m.abs_rows_size, m.abs_row_size dest hd, h5 r c hr hc]
    by_cases h : r = dest
    · subst h
      have e : (m.abs.rows.getD src #[]).getD c false = m.abs.get src c := rfl
      simp only [hr, hc, and_self, if_true, e, m.abs_get_cell hi.1 _ c hr hc, m.abs_get_cell hi.1 _ c hs hc]
    · simp only [h, false_and, if_false, m.abs_get_cell hi.1 _ c hr hc]

/-- `count_ones(row, a, b)`: the three-way split (first word, whole words, last word) counts exactly
the ones of columns a..b, for every position of a and b relative to the 64-bit word boundaries -/
theorem countOnes_refines (m : Dense) (hi : Inv m) (r a b : Nat) (hr : r < m.h) (hab : a ≤ b) (hb : b ≤ m.w) (ha : a < m.w) :
    m.countOnes r a b = some (m.abs.countOnes r a b) := by
  have habs : m.abs.countOnes r a b = cnt (m.cell r) a b := by
    rw [BitMat.countOnes_eq_cnt]
    apply cnt_congr _ _ _ _ _ _ rfl
    intro k hk
    exact m.abs_get_cell hi.1 r (a + k) hr (by omega)
  rw [habs]
  have hsw := m.idx_lt hi.1 r a hr ha
  have hrw : r * m.rww + m.rww ≤ m.el.size := le_trans (row_idx_le _ _ _ _ hr le_rfl) hi.1
  have hqb : b / 64 ≤ m.rww := m.div_le_rww b hb
  rw [Dense.countOnes_eq]
  by_cases hq : a / 64 = b / 64
  · have e : r * m.rww + a / 64 = r * m.rww + b / 64 := by rw [hq]
    rw [if_pos e, if_pos hsw, popcount_from_below _ _ _ (by omega) (by omega),
      m.cnt_cell_word r (a / 64) a b (by omega) (by omega)]
    congr 2 <;> omega
  · have e : ¬ r * m.rww + a / 64 = r * m.rww + b / 64 := by omega
    have hlt : a / 64 < b / 64 := by omega
    have hcond : r * m.rww + a / 64 < m.el.size ∧
        (r * m.rww + b / 64 ≤ r * m.rww + a / 64 + 1 ∨ r * m.rww + b / 64 - 1 < m.el.size) ∧
        (b % 64 = 0 ∨ r * m.rww + b / 64 < m.el.size) := by
      refine ⟨hsw, Or.inr (by omega), ?_⟩
      by_cases h0 : b % 64 = 0
      · exact Or.inl h0
      · right
        have : b / 64 < m.rww := by unfold Dense.rww; omega
        omega
    rw [if_neg e, if_pos hcond]
    rw [cnt_split _ a (64 * (a / 64 + 1)) b (by omega) (by omega),
      cnt_split _ (64 * (a / 64 + 1)) (64 * (b / 64)) b (by omega) (by omega)]
    have h1 : cnt (m.cell r) a (64 * (a / 64 + 1)) = popcount (m.el.getD (r * m.rww + a / 64) 0 &&& maskFrom (a % 64)) := by
      rw [popcount_from _ _ (by omega), m.cnt_cell_word r (a / 64) a _ (by omega) (by omega)]
      congr 1 <;> omega
    have h2 : cnt (m.cell r) (64 * (a / 64 + 1)) (64 * (b / 64)) =
        (List.range (r * m.rww + b / 64 - (r * m.rww + a / 64 + 1))).foldl
          (fun acc k => acc + popcount (m.el.getD (r * m.rww + a / 64 + 1 + k) 0)) 0 := by
      have e1 : b / 64 = (a / 64 + 1) + (b / 64 - (a / 64 + 1)) := by omega
      have e2 : r * m.rww + b / 64 - (r * m.rww + a / 64 + 1) = b / 64 - (a / 64 + 1) := by omega
      rw [e2]
      conv_lhs => rw [e1]
      rw [m.cnt_cell_words r (a / 64 + 1) (b / 64 - (a / 64 + 1))]
      simp only [Nat.add_assoc]
    have h3 : cnt (m.cell r) (64 * (b / 64)) b =
        if b % 64 > 0 then popcount (m.el.getD (r * m.rww + b / 64) 0 &&& maskBelow (b % 64)) else 0 := by
      split
      · rw [popcount_below _ _ (by omega), m.cnt_cell_word r (b / 64) _ b le_rfl (by omega)]
        congr 1 <;> omega
      · exact cnt_empty _ _ _ (by omega)
    rw [h1, h2, h3, Nat.add_assoc]

/-- `get_row_iter(row, a, b)` (as repaired): yields exactly the cells of columns a..b in order,
including on the last row when b = width is a multiple of 64 -/
theorem rowIter_refines (m : Dense) (hi : Inv m) (r a b : Nat) (hr : r < m.h) (hab : a ≤ b) (hb : b ≤ m.w) :
    m.rowIter r a b = some ((List.range (b - a)).map fun k => (a + k, m.abs.get r (a + k))) := by
  simp only [Dense.rowIter, Dense.bitPos]
  have hrw : r * m.rww + m.rww ≤ m.el.size := le_trans (row_idx_le _ _ _ _ hr le_rfl) hi.1
  by_cases hlt : b > a
  · have hb1 : (b - 1) / 64 < m.rww := m.div_lt_rww _ (by omega)
    have hcond : r * m.rww + a / 64 ≤ r * m.rww + (b - 1) / 64 + 1 ∧ r * m.rww + (b - 1) / 64 + 1 ≤ m.el.size := by
      constructor <;> omega
    simp only [hlt, if_true, hcond, and_self]
    apply mapM_some_of_forall
    intro k hk
    rw [List.mem_range] at hk
    have h1 : r * m.rww + a / 64 + (a % 64 + k) / 64 < r * m.rww + (b - 1) / 64 + 1 := by omega
    rw [if_pos h1, m.abs_get_cell hi.1 r (a + k) hr (by omega)]
    have e1 : r * m.rww + a / 64 + (a % 64 + k) / 64 = r * m.rww + (a + k) / 64 := by omega
    have e2 : (a % 64 + k) % 64 = (a + k) % 64 := by omega
    simp only [Dense.cell, bitAt, e1, e2]
  · have hba : b - a = 0 := by omega
    have ha : a / 64 ≤ m.rww := m.div_le_rww a (by omega)
    have hcond : r * m.rww + a / 64 ≤ m.el.size := by omega
    simp only [hlt, if_false, le_refl, true_and, hcond, if_true, hba, List.range_zero]
    rfl

theorem onesInCol_refines (m : Dense) (hi : Inv m) (c a b : Nat) (hc : c < m.w) (hab : a ≤ b) (hb : b ≤ m.h) :
    m.onesInCol c a b = some (m.abs.onesInCol c a b) := by
  simp only [Dense.onesInCol, BitMat.onesInCol]
  rw [mapM_some_of_forall _ _ (fun k => (a + k, m.abs.get (a + k) c))]
  · simp only [Option.map_some, List.filterMap_map, Option.some.injEq]
    rfl
  · intro k hk
    rw [List.mem_range] at hk
    rw [get_refines m hi (a + k) c (by omega) hc]
    rfl

/-- `resize`: the in-place compaction keeps exactly the cells of the first rows / columns -/
theorem resize_refines (m : Dense) (hi : Inv m) (nh nw : Nat) (hh : nh ≤ m.h) (hw : nw ≤ m.w) :
    ∃ m', m.resize nh nw = some m' ∧ Inv m' ∧ m.abs.resize nh nw = some m'.abs := by
  obtain ⟨m', h1, h2, h3, h4, h5⟩ := m.resize_spec hi nh nw hh hw
  refine ⟨m', h1, h2, ?_⟩
  have hh' : nh ≤ m.abs.h := hh
  have hw' : nw ≤ m.abs.w := hw
  simp only [BitMat.resize, hh', hw', and_self, if_true, Option.some.injEq]
  have hrow : ∀ r, r < nh →
      (((m.abs.rows.extract 0 nh).map fun row => row.extract 0 nw).getD r #[]) = (m.abs.rows.getD r #[]).extract 0 nw := by
    intro r hr
    have h1 : r < m.abs.rows.size := by rw [m.abs_rows_size]; omega
    simp [Array.getD_eq_getD_getElem?, hr, h1]
  apply Dense.eq_abs_of_cell _ _ h2
  · exact h3.symm
  · exact h4.symm
  · simp only [Array.size_map, Array.size_extract, m.abs_rows_size, h3]; omega
  · intro r hr
    rw [h3] at hr
    rw [hrow r hr, Array.size_extract, m.abs_row_size r (by omega), h4]; omega
  · intro r c hr hc
    rw [h3] at hr; rw [h4] at hc
    rw [h5 r c hr hc, ← m.abs_get_cell hi.1 r c (by omega) (by omega)]
    simp only [BitMat.get]
    rw [hrow r hr]
    have h1 : c < (m.abs.rows.getD r #[]).size := by rw [m.abs_row_size r (by omega)]; omega
    simp only [Array.getD_eq_getD_getElem?] at h1 ⊢
    simp [hc, h1]

/-- `get_sub_row_as_octets`: right-aligned packing of columns start..w -/
theorem subRow_refines (m : Dense) (hi : Inv m) (r start : Nat) (hr : r < m.h) (hs : start ≤ m.w) :
    m.subRow r start = some (m.abs.subRow r start) := by
  simp only [Dense.subRow, BitMat.subRow]
  rw [mapM_some_of_forall _ _ (fun k => m.abs.get r (start + k))]
  · have hbits : ∀ i, ((List.range (m.w - start)).map fun k => m.abs.get r (start + k)).getD i false =
        m.abs.get r (start + i) := by
      intro i
      by_cases h : i < m.w - start
      · simp [List.getD_eq_getElem?_getD, h]
      · rw [m.abs_get_oob r (start + i) (by omega)]
        simp [List.getD_eq_getElem?_getD, h]
    simp only [Option.map_some, hbits]
    rfl
  · intro k hk
    rw [List.mem_range] at hk
    exact get_refines m hi r (start + k) hr (by omega)

/-! ## operation sequences -/

inductive Op where
  | set (r c : Nat) (v : Bool)
  | swapRows (i j : Nat)
  | swapCols (i j hint : Nat)
  | addAssign (dest src : Nat)
  | resize (h w : Nat)
deriving Repr, DecidableEq

/-- the interface's preconditions, on the abstract matrix -/
def Pre (s : BitMat) : Op → Prop
  | .set r c _ => r < s.h ∧ c < s.w
  | .swapRows i j => i < s.h ∧ j < s.h
  | .swapCols i j hint => i < s.w ∧ j < s.w ∧ ∀ r, r < hint → r < s.h → s.get r i = s.get r j
  | .addAssign d r => d < s.h ∧ r < s.h ∧ d ≠ r
  | .resize h w => h ≤ s.h ∧ w ≤ s.w

def specStep (s : BitMat) : Op → Option BitMat
  | .set r c v => s.set r c v
  | .swapRows i j => s.swapRows i j
  | .swapCols i j _ => s.swapCols i j
  | .addAssign d r => s.addAssign d r
  | .resize h w => s.resize h w

def denseStep (m : Dense) : Op → Option Dense
  | .set r c v => m.set r c v
  | .swapRows i j => m.swapRows i j
  | .swapCols i j hint => m.swapCols i j hint
  | .addAssign d r => m.addAssign d r
  | .resize h w => m.resize h w

/-- admissible sequences: every op meets its precondition in the state it is applied to -/
def Admissible : BitMat → List Op → Prop
  | _, [] => True
  | s, op :: rest => Pre s op ∧ ∀ s', specStep s op = some s' → Admissible s' rest

/-- one admissible step: the dense matrix does not panic, keeps its invariant and follows the spec -/
theorem step_refines (op : Op) (m : Dense) (hi : Inv m) (hp : Pre m.abs op) :
    ∃ m', denseStep m op = some m' ∧ Inv m' ∧ specStep m.abs op = some m'.abs := by
  cases op with
  | set r c v => exact set_refines m hi r c v hp.1 hp.2
  | swapRows i j => exact swapRows_refines m hi i j hp.1 hp.2
  | swapCols i j hint => exact swapCols_refines m hi i j hint hp.1 hp.2.1 hp.2.2
  | addAssign d s => exact addAssign_refines m hi d s hp.1 hp.2.1 hp.2.2
  | resize h w => exact resize_refines m hi h w hp.1 hp.2

/-- **Under every admissible operation sequence the dense matrix answers like the bit array**:
it never panics and its abstraction is the spec's state (so every query theorem above applies). -/
theorem refines_run (ops : List Op) (m : Dense) (hi : Inv m) (hadm : Admissible m.abs ops) :
    ∃ m' s', ops.foldlM denseStep m = some m' ∧ ops.foldlM specStep m.abs = some s' ∧ Inv m' ∧ m'.abs = s' := by
  induction ops generalizing m with
  | nil => exact ⟨m, m.abs, rfl, rfl, hi, rfl⟩
  | cons op rest ih =>
    obtain ⟨hp, hrest⟩ := hadm
    obtain ⟨m1, h1, h2, h3⟩ := step_refines op m hi hp
    obtain ⟨m', s', e1, e2, e3, e4⟩ := ih m1 h2 (hrest _ h3)
    refine ⟨m', s', ?_, ?_, e3, e4⟩
    · rw [List.foldlM_cons, h1]; exact e1
    · rw [List.foldlM_cons, h3]; exact e2

/-! ## The defect of the pinned code (repaired by a `fix:` commit) -/

/-- `get_row_iter` of the pinned code sliced `first_word ..= word_of(end_col)` -/
def rowIterOld (m : Dense) (r a b : Nat) : Option Unit :=
  let fw := (m.bitPos r a).1
  let lw := (m.bitPos r b).1
  if fw ≤ lw + 1 ∧ lw + 1 ≤ m.el.size then some () else none

/-- witness: a 1×64 matrix has one word; the old slice 0..=1 is out of bounds, the repaired iterator works -/
theorem rowIterOld_defect : rowIterOld (Dense.new 1 64) 0 0 64 = none ∧ ((Dense.new 1 64).rowIter 0 0 64).isSome := by
  constructor
  · decide
  · rw [rowIter_refines _ (new_inv 1 64).1 0 0 64 (by decide) (by decide) (by decide)]
    rfl

/-! ## Non-vacuity -/
example : Inv (Dense.new 3 70) := (new_inv 3 70).1

end Rq.C16
