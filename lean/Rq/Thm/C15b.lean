import Mathlib.Data.ZMod.Basic
import Mathlib.Tactic.LinearCombination
import Mathlib.Tactic.Ring
import Rq.Thm.C15
/-!
# C15 (continued) — the overflow points of the pinned code, exactly

The pinned `rand` computed `y + i` on u32 with overflow checking. Over all 477 Table-2 rows and all
internal symbol ids X < 2^24 + K' (≈ 8·10^9 pairs) the checked build panicked on **exactly two**
inputs, and the repaired code on none. The proof does not enumerate: A(J) is odd, so
X ↦ (B + X·A) mod 2^32 is a bijection; overflow needs y ∈ {2^32−1, 2^32−2}; the unique X for each
is computed with the modular inverse of A (954 inversions, checked by the kernel).
-/
namespace Rq.C15
open Rq

/-- solving `(b + x·a) ≡ y (mod M)` for x when a is invertible mod M -/
theorem affine_inv (M a ai b x y : ℕ) (hM : 0 < M) (h : (a * ai) % M = 1 % M) :
    (b + x * a) % M = y % M ↔ x % M = ((y + (M - b % M)) * ai) % M := by
  have h' : ((a : ZMod M) * ai) = 1 := by
    have := (ZMod.natCast_eq_natCast_iff' (a * ai) 1 M).2 h
    simpa using this
  have hb : ((M - b % M : ℕ) : ZMod M) = - (b : ZMod M) := by
    have hle : b % M ≤ M := (Nat.mod_lt b hM).le
    rw [Nat.cast_sub hle]; simp
  rw [← ZMod.natCast_eq_natCast_iff', ← ZMod.natCast_eq_natCast_iff']
  push_cast
  rw [hb]
  constructor
  · intro e
    have : (x : ZMod M) = x * (a * ai) := by rw [h']; ring
    rw [this]
    linear_combination (ai : ZMod M) * e
  · intro e
    rw [e]
    linear_combination ((y : ZMod M) - b) * h'

/-- the tuple generator's A(J) and B(J) -/
def tupA' (j : Nat) : Nat := let a := 53591 + j * 997; if a % 2 = 0 then a + 1 else a
def tupB' (j : Nat) : Nat := 10267 * (j + 1)
/-- y(X) of row i -/
def yOf (i x : Nat) : Nat := (tupB' (J i) + x * tupA' (J i)) % 4294967296

/-- inverse of an odd a modulo 2^32 by five Newton steps -/
def modInv32 (a : Nat) : Nat :=
  let M := 4294967296
  let x := a
  let x := x * (2 + M * M - a * x) % M
  let x := x * (2 + M * M - a * x) % M
  let x := x * (2 + M * M - a * x) % M
  let x := x * (2 + M * M - a * x) % M
  let x := x * (2 + M * M - a * x) % M
  x

/-- the reachable ids X < 2^24 + K' of row i whose y is 2^32−1 or 2^32−2 -/
def overflowXs (i : Nat) : List Nat :=
  ([4294967295, 4294967294].map fun y =>
    ((y + (4294967296 - tupB' (J i) % 4294967296)) * modInv32 (tupA' (J i))) % 4294967296).filter
      (· < 16777216 + K' i)

/-! ## helpers -/

theorem randOld_eq (y i m : Nat) (h : y + i < 2 ^ 32) : randOld y i m = rand y i m := by
  unfold randOld U32; rw [if_neg (by omega)]

/-- for reachable X only the three `rand(y, ·, ·)` calls can overflow, and they do iff y + 2 wraps -/
theorem tupleOld_none_iff (x w j p1 : Nat) (hx : x + 5 < 2 ^ 32) (hw : 3 ≤ w) (hj : j < 1024)
    (hp1 : 2 ≤ p1) : tupleOld x w j p1 = none ↔ 2 ^ 32 ≤ tupY x j + 2 := by
  constructor
  · intro h
    by_contra hc
    have e : tupleOld x w j p1 = tuple x w j p1 := by
      unfold tupleOld tuple
      rw [tupleWith_unfold, tupleWith_unfold]
      rw [randOld_eq _ 0 _ (by omega), randOld_eq _ 1 _ (by omega), randOld_eq _ 2 _ (by omega),
        randOld_eq x 3 _ (by omega), randOld_eq x 4 _ (by omega), randOld_eq x 5 _ (by omega)]
    obtain ⟨d, _, _, _, ht⟩ := tupleWith_eq x w j p1 (by omega) hw hj hp1
    rw [e, ht] at h
    cases h
  · intro h
    have hA := tupA_lt j hj
    unfold tupleOld
    rw [tupleWith_unfold, if_neg (by omega)]
    rw [randOld_panics (tupY x j) 2 _ h]
    cases randOld (tupY x j) 0 1048576 with
    | none => rfl
    | some v => dsimp only; cases deg v w <;> cases randOld (tupY x j) 1 (w - 1) <;> rfl

/-- per-row kernel check: `modInv32` inverts A(J) mod 2^32, and the reachable overflow ids of the
row are the two known ones (rows K' = 989 and K' = 2195) or none -/
def rowOv (i : Nat) : Bool :=
  decide ((tupA' (J i) * modInv32 (tupA' (J i))) % 4294967296 = 1) &&
  decide (overflowXs i =
    if K' i = 989 then [3158229] else if K' i = 2195 then [8192877] else [])

def rowsOv (a n : Nat) : Bool := (List.range' a n).all rowOv

theorem rowsOv_all : rowsOv 0 477 = true := by decide +kernel

theorem row_ov (i : Nat) (h : i < 477) :
    (tupA' (J i) * modInv32 (tupA' (J i))) % 4294967296 = 1 ∧
    overflowXs i = if K' i = 989 then [3158229] else if K' i = 2195 then [8192877] else [] := by
  have hc := rowsOv_all
  simp only [rowsOv, List.all_eq_true, List.mem_range'_1] at hc
  have := hc i (by omega)
  simpa only [rowOv, Bool.and_eq_true, decide_eq_true_eq] using this

/-- y(X) hits `y0` exactly at one X mod 2^32 -/
theorem yOf_eq_iff (i x y0 : Nat) (hi : i < 477) (hx : x < 4294967296) (hy : y0 < 4294967296) :
    yOf i x = y0 ↔
      x = ((y0 + (4294967296 - tupB' (J i) % 4294967296)) * modInv32 (tupA' (J i))) % 4294967296 := by
  have h := affine_inv 4294967296 (tupA' (J i)) (modInv32 (tupA' (J i))) (tupB' (J i)) x y0
    (by decide) (by rw [(row_ov i hi).1])
  rw [Nat.mod_eq_of_lt hy, Nat.mod_eq_of_lt hx] at h
  exact h

theorem mem_overflowXs (i x : Nat) (hi : i < 477) (hx : x < 16777216 + K' i)
    (hx' : x < 4294967296) :
    x ∈ overflowXs i ↔ yOf i x = 4294967295 ∨ yOf i x = 4294967294 := by
  rw [yOf_eq_iff i x _ hi hx' (by decide), yOf_eq_iff i x _ hi hx' (by decide)]
  unfold overflowXs
  simp only [List.mem_filter, List.mem_map, List.mem_cons, List.not_mem_nil, or_false,
    decide_eq_true_eq, exists_eq_or_imp, exists_eq_left]
  constructor
  · rintro ⟨h | h, _⟩
    · exact Or.inl h.symm
    · exact Or.inr h.symm
  · rintro (h | h)
    · exact ⟨Or.inl h.symm, hx⟩
    · exact ⟨Or.inr h.symm, hx⟩

theorem K'_le (i : Nat) (hi : i < 477) : K' i ≤ 56403 := by
  have := K'_mono i 476 (by omega) (by omega)
  rw [first_last.2.1] at this
  exact this

/-- **The pinned code panics (checked build) on exactly two reachable inputs.** -/
theorem overflow_exact (i x : Nat) (hi : i < 477) (hx : x < 16777216 + K' i) :
    tupleOld x (W i) (J i) (P1 i) = none ↔ (K' i = 989 ∧ x = 3158229) ∨ (K' i = 2195 ∧ x = 8192877) := by
  have hK := K'_le i hi
  obtain ⟨_, hW, hP1, _, _, _, _, _, _, _, hW17, _, _, hJ, _, _⟩ := row_props i hi
  have hy : yOf i x < 4294967296 := Nat.mod_lt _ (by decide)
  have hyY : tupY x (J i) = yOf i x := rfl
  rw [tupleOld_none_iff x (W i) (J i) (P1 i) (by omega) (by omega) hJ hP1.two_le, hyY]
  have hm := mem_overflowXs i x hi hx (by omega)
  rw [(row_ov i hi).2] at hm
  have : 2 ^ 32 ≤ yOf i x + 2 ↔ yOf i x = 4294967295 ∨ yOf i x = 4294967294 := by omega
  rw [this, ← hm]
  by_cases h1 : K' i = 989
  · simp [h1]
  · by_cases h2 : K' i = 2195
    · simp [h2]
    · simp [h1, h2]

/-- … and the repaired code on none of them -/
theorem no_overflow_after_fix (i x : Nat) (hi : i < 477) (hx : x < 16777216 + K' i) :
    (tuple x (W i) (J i) (P1 i)).isSome := by
  have hK := K'_le i hi
  obtain ⟨_, hW, hP1, _, _, _, _, _, _, _, hW17, _, _, hJ, _, hP1lt⟩ := row_props i hi
  have hWlt : W i < 4294967296 := tb32_lt _ _
  obtain ⟨t, ht, _⟩ := tuple_wf x (W i) (J i) (P1 i) (by omega) (by omega) (by omega) hJ
    hP1.two_le (by omega)
  rw [ht]; rfl

end Rq.C15
