import Rq.Thm.C10
import Rq.Model.Kernels
import Rq.Lemmas.Kernels
/-!
# C12 — unsafe code never touches memory outside the buffers it was given (index model)

Every load / store of the kernel skeletons is listed by the `…Accesses` functions of
`Rq/Model/Kernels.lean` (same loop bounds and offset expressions as the kernels themselves).
The theorems bound every access by the buffer it goes to, for every length. That the Rust pointer
expressions are these offsets is validated by the guard-page monitor of the correspondence run,
not proved (labelled partial in DESIGN.md).
-/
namespace Rq.C12
open Rq

/-- an access stays inside a buffer of `len` bytes -/
def InBounds (a : Access) (len : Nat) : Prop := a.off + a.width ≤ len

theorem addAssignVec_inBounds (w len : Nat) (hw : w = 16 ∨ w = 32 ∨ w = 64) :
    ∀ a ∈ addAssignVecAccesses w len, InBounds a len := by
  intro a ha
  unfold addAssignVecAccesses at ha
  unfold InBounds
  rw [List.mem_append, List.mem_append] at ha
  rcases ha with (ha | ha) | ha <;> obtain ⟨k, hk, ho, hwd, -⟩ := mem_vecLoopAccesses ha <;>
    rw [ho, hwd] <;> rcases hw with rfl | rfl | rfl <;> omega

theorem addAssignFallback_inBounds (len : Nat) : ∀ a ∈ addAssignFallbackAccesses len, InBounds a len := by
  intro a ha
  unfold addAssignFallbackAccesses at ha
  unfold InBounds
  rw [List.mem_append] at ha
  rcases ha with ha | ha <;> obtain ⟨k, hk, ho, hwd, -⟩ := mem_vecLoopAccesses ha <;>
    rw [ho, hwd] <;> omega

theorem mulAssignVec_inBounds (isa : Isa) (len : Nat) : ∀ a ∈ mulAssignVecAccesses isa len, InBounds a len := by
  intro a ha
  unfold mulAssignVecAccesses at ha
  unfold InBounds
  rw [List.mem_append] at ha
  rcases ha with ha | ha <;> obtain ⟨k, hk, ho, hwd, -⟩ := mem_vecLoopAccesses ha <;>
    rw [ho, hwd] <;> cases isa <;> simp only [Isa.width] at * <;> omega

theorem fmaVec_inBounds (isa : Isa) (len : Nat) : ∀ a ∈ fmaVecAccesses isa len, InBounds a len := by
  intro a ha
  unfold fmaVecAccesses at ha
  unfold InBounds
  rw [List.mem_append] at ha
  rcases ha with ha | ha <;> obtain ⟨k, hk, ho, hwd, -⟩ := mem_vecLoopAccesses ha <;>
    rw [ho, hwd] <;> cases isa <;> simp only [Isa.width] at * <;> omega

/-- binary FMA (u = 64: AVX-512, u = 32: AVX2): destination accesses stay within `len` bytes and the
reinterpreted word accesses within the `8 * words` bytes of the packed vector, for every length -/
theorem fmaBinVec_inBounds (u : Nat) (hu : u = 64 ∨ u = 32) (o : BinVec) (hw : o.wf = true) (hpos : 0 < o.length) :
    ∀ a ∈ fmaBinVecAccesses u o.length o,
      (a.buf = 0 → InBounds a o.length) ∧ (a.buf = 2 → InBounds a (8 * o.words.length)) := by
  intro a ha
  have hwl : o.words.length = (o.length + 63) / 64 := by simpa [BinVec.wf] using hw
  unfold fmaBinVecAccesses BinVec.padding at ha
  unfold InBounds
  simp only [List.mem_append, List.mem_cons, List.mem_map, List.mem_range, List.mem_flatMap,
    List.not_mem_nil, or_false] at ha
  rcases hu with rfl | rfl
  · rcases ha with (rfl | ⟨i, hi, rfl⟩) | ⟨i, hi, rfl | rfl⟩ <;> simp only [] <;> 
      (try split at hi) <;> (try split) <;> omega
  · rcases ha with (rfl | ⟨i, hi, rfl⟩) | ⟨i, hi, rfl | rfl⟩ <;> simp only [] <;> 
      (try split at hi) <;> (try split) <;> omega

/-- the `assert_eq!(remaining % u, 0)` of the binary kernels can never fire -/
theorem fmaBinVecAssert_holds (u : Nat) (hu : u = 64 ∨ u = 32) (o : BinVec) (hw : o.wf = true) :
    fmaBinVecAssert u o.length o = true := by
  unfold fmaBinVecAssert BinVec.padding
  simp only [Bool.and_eq_true, decide_eq_true_eq, beq_iff_eq]
  rcases hu with rfl | rfl <;> split <;> omega

/-- unchecked table look-ups: OCTET_MUL[s][x] is inside the 65536-byte table -/
theorem mul_index_safe (s x : Nat) (hs : s < 256) (hx : x < 256) : s * 256 + x < 65536 := by omega

/-- OCT_EXP[log u + log v] is inside the 510-byte table (from C10) -/
theorem exp_index_safe (a b : Nat) (ha : a < 256) (hb : b < 256) : olog a + olog b < 510 :=
  Rq.C10.exp_index_safe a b ha hb

/-! ## Non-vacuity -/
example : addAssignVecAccesses 16 17 ≠ [] := by decide

end Rq.C12
