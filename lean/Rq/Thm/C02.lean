import Rq.Spec.Defs
import Rq.Thm.C15
import Rq.Thm.C05
import Rq.Lemmas.Decoder
import Rq.Lemmas.GJBytes
import Rq.Lemmas.SystemLin
import Rq.Lemmas.EncNodup
import Rq.Lemmas.GoodEnc
import Rq.Lemmas.Square
/-!
# C02 — a block decodes exactly when the received symbols determine it

Model: `BlockDec.push` / `BlockDec.attempt` (`Rq/Model/Codec.lean`), for an arbitrary linear solver
meeting `SolverSpec` (`Rq/Spec/Defs.lean`). `Determined a` = the constraint matrix for the received
set has full column rank over GF(256).
-/
namespace Rq.C02
open Rq

/-- the internal symbol ids of the rows `attempt` builds, in its order: received source symbols,
padding symbols, repair symbols in arrival order -/
def isisOf (d : BlockDec) (sp : SysParams) : List Nat :=
  (List.range d.k).filter (fun i => (d.src.getD i none).isSome) ++
    (List.range (sp.kp - d.k)).map (d.k + ·) ++ d.repair.map (·.pid.esi + (sp.kp - d.k))

/-- the decoder state `d` holds exactly packets that the encoder `e` produced -/
structure Tracks (d : BlockDec) (e : BlockEnc) (t : Nat) : Prop where
  hk : d.k = e.k
  ht : d.t = t
  hsbn : d.sbn = e.sbn
  src_size : d.src.size = e.k
  src_ok : ∀ i, i < e.k → d.src.getD i none = none ∨ d.src.getD i none = some (e.src.getD i [])
  recv_count : d.recvSrc = ((List.range e.k).filter fun i => (d.src.getD i none).isSome).length
  repair_ok : ∀ p ∈ d.repair, e.k ≤ p.pid.esi ∧ e.repairPacket (p.pid.esi - e.k) = some p
  repair_nodup : (d.repair.map (·.pid.esi)).Nodup
  esis_nodup : d.esis.Nodup
  esis_mem : ∀ x, x ∈ d.esis ↔ (x < e.k ∧ (d.src.getD x none).isSome) ∨ (∃ p ∈ d.repair, p.pid.esi = x)

/-- sub-block parameters under which the layout theorems of C05 apply -/
structure LayoutOk (d : BlockDec) (t : Nat) (data : List Nat) (e : BlockEnc) : Prop where
  t_lt : t < 2 ^ 32
  al_pos : 0 < d.al
  al_div : t % d.al = 0
  n_pos : 1 ≤ d.n
  n_le : d.n ≤ t / d.al
  data_len : data.length = e.k * t
  data_bytes : IsBytes data
  symbols : createSymbols t d.al d.n data = some e.src

/-! ## the oracle's verdicts are certified (whatever its elimination did) -/

/-- a `singular` verdict of the checked oracle comes with a verified non-zero kernel vector -/
theorem oracle_singular_sound (a : System) (d : List Sym) (t : Nat) (h : solveSystem a d t = .singular)
    (hbin : ∀ cols ∈ a.bin.toList, ∀ j ∈ cols, j < a.l) :
    ¬ Determined a := by
  have _ := hbin
  unfold solveSystem at h
  split at h
  · cases h
  · split at h
    · dsimp only at h
      split at h <;> cases h
    · next z hgj =>
      split at h
      · next hck =>
        clear h
        have hbytes := gaussJordan_singular_bytes _ _ _ z hgj
        simp only [checkKernel, Bool.and_eq_true, beq_iff_eq, Array.any_eq_true, bne_iff_ne, ne_eq,
          List.all_eq_true] at hck
        obtain ⟨⟨hsz, i, hi, hne⟩, hall⟩ := hck
        intro hdet
        have hwf : WfInter a.l 1 (z.map fun v => [v]) := by
          refine ⟨by simpa using hsz, fun j hj => ?_⟩
          have : (z.map fun v => [v]).getD j [] = [z[j]'(by omega)] := by
            simp [Array.getD, hsz, hj]
          rw [this]
          refine ⟨rfl, fun x hx => ?_⟩
          rw [List.mem_singleton] at hx
          subst hx
          exact hbytes _ (by simp)
        have := hdet _ hwf (fun s hs => hall s hs) i (by omega)
        have e : (z.map fun v => [v]).getD i [] = [z[i]] := by
          simp [Array.getD, hi]
        rw [e] at this
        injection this with this
        exact hne this
      · cases h

/-- a `solved` verdict of the checked oracle satisfies every row of the system -/
theorem oracle_solved_sound (a : System) (d : List Sym) (t : Nat) (c : Inter) (h : solveSystem a d t = .solved c) :
    c.size = a.l ∧ (∀ i, i < a.l → (c.getD i []).length = t) ∧ a.apply c t = d := by
  unfold solveSystem at h
  split at h
  · cases h
  · split at h
    · dsimp only at h
      split at h
      · next hc =>
        injection h with h
        subst h
        simp only [checkSolution, Bool.and_eq_true, beq_iff_eq, Array.all_eq_true] at hc
        obtain ⟨⟨h1, h2⟩, h3⟩ := hc
        refine ⟨h1, ?_, h3⟩
        intro i hi
        have := h2 i (by omega)
        simp only [Array.getD, h1, hi, dif_pos, Array.getInternal_eq_getElem]
        simpa using this
      · cases h
    · split at h <;> cases h

/-! ## state tracking -/

theorem new_tracks (e : BlockEnc) (t : Nat) (o : Oti) (ht : 0 < t) (hot : o.t = t) (hk : e.k * t < 2 ^ 32)
    : ∃ d, BlockDec.new? e.sbn o (e.k * t) = some d ∧ Tracks d e t ∧ d.n = o.n ∧ d.al = o.al := by
  have hk' : e.k < 2 ^ 32 := lt_of_le_of_lt (Nat.le_mul_of_pos_right _ ht) hk
  have hdiv : intDivCeil (e.k * t) o.t = some e.k := by
    unfold intDivCeil U32
    rw [hot, if_neg (by omega), Nat.mul_mod_left, if_pos rfl, Nat.mul_div_cancel _ ht, Nat.mod_eq_of_lt (by omega)]
  unfold BlockDec.new?
  rw [hdiv]
  refine ⟨_, rfl, ?_, rfl, rfl⟩
  have hnone : ∀ i, (Array.replicate e.k (none : Option Sym)).getD i none = none := by
    intro i
    simp [Array.getD]
  constructor <;> dsimp only
  · exact hot
  · simp
  · intro i _; left; exact hnone i
  · simp [hnone]
  · intro p hp; cases hp
  · simp
  · simp
  · intro x; simp [hnone]

/-- any genuine packet is accepted and the state keeps tracking (duplicates change nothing) -/
theorem push_tracks (d : BlockDec) (e : BlockEnc) (t : Nat) (h : Tracks d e t) (p : Packet) (hp : Genuine e p) :
    ∃ d', d.push p = some d' ∧ Tracks d' e t ∧ d'.n = d.n ∧ d'.al = d.al ∧
      (p.pid.esi ∈ d.esis → d' = d) := by
  obtain ⟨hsbn, hcase⟩ := genuine_cases e p hp
  unfold BlockDec.push
  rw [if_neg (by rw [hsbn, h.hsbn]; simp)]
  by_cases hmem : p.pid.esi ∈ d.esis
  · rw [if_pos (by simpa using hmem)]
    exact ⟨d, rfl, h, rfl, rfl, fun _ => rfl⟩
  rw [if_neg (by simpa using hmem)]
  dsimp only
  have hnotsrc : ¬ (p.pid.esi < e.k ∧ (d.src.getD p.pid.esi none).isSome) := fun hc =>
    hmem ((h.esis_mem _).mpr (Or.inl hc))
  have hnotrep : ¬ (∃ q ∈ d.repair, q.pid.esi = p.pid.esi) := fun hc =>
    hmem ((h.esis_mem _).mpr (Or.inr hc))
  rcases hcase with ⟨hlt, hdata⟩ | ⟨hge, hrep⟩
  · -- source packet
    rw [if_neg (by rw [h.hk]; omega)]
    refine ⟨_, rfl, ?_, rfl, rfl, fun hc => absurd hc hmem⟩
    have hnone : d.src.getD p.pid.esi none = none := by
      cases hs : d.src.getD p.pid.esi none with
      | none => rfl
      | some s => exact absurd ⟨hlt, by rw [hs]; rfl⟩ hnotsrc
    constructor <;> dsimp only
    · exact h.hk
    · exact h.ht
    · exact h.hsbn
    · rw [Array.size_setIfInBounds]; exact h.src_size
    · intro i hi
      rw [getD_setIfInBounds_d]
      split
      · next hc => right; rw [hdata, hc.1]
      · exact h.src_ok i hi
    · rw [h.recv_count, ← List.countP_eq_length_filter, ← List.countP_eq_length_filter]
      symm
      apply countP_update _ List.nodup_range p.pid.esi (List.mem_range.mpr hlt)
      · rw [hnone]; rfl
      · rw [getD_setIfInBounds_d, if_pos ⟨rfl, by rw [h.src_size]; exact hlt⟩]; rfl
      · intro y hy
        rw [getD_setIfInBounds_d, if_neg (fun hc => hy hc.1.symm)]
    · exact h.repair_ok
    · exact h.repair_nodup
    · exact List.nodup_cons.mpr ⟨hmem, h.esis_nodup⟩
    · intro x
      rw [List.mem_cons, h.esis_mem x, getD_setIfInBounds_d]
      by_cases hx : x = p.pid.esi
      · subst hx
        rw [if_pos ⟨rfl, by rw [h.src_size]; exact hlt⟩]
        simp [hlt]
      · rw [if_neg (fun hc => hx hc.1.symm)]
        simp [hx]
  · -- repair packet
    rw [if_pos (by rw [h.hk]; exact hge)]
    refine ⟨_, rfl, ?_, rfl, rfl, fun hc => absurd hc hmem⟩
    constructor <;> dsimp only
    · exact h.hk
    · exact h.ht
    · exact h.hsbn
    · exact h.src_size
    · exact h.src_ok
    · exact h.recv_count
    · intro q hq
      rcases List.mem_append.mp hq with hq | hq
      · exact h.repair_ok q hq
      · rw [List.mem_singleton] at hq; subst hq; exact ⟨hge, hrep⟩
    · rw [List.map_append, List.nodup_append]
      refine ⟨h.repair_nodup, by simp, ?_⟩
      intro a ha b hb
      simp only [List.map_cons, List.map_nil, List.mem_singleton] at hb
      subst hb
      rintro rfl
      obtain ⟨q, hq, hqe⟩ := List.mem_map.mp ha
      exact hnotrep ⟨q, hq, hqe⟩
    · exact List.nodup_cons.mpr ⟨hmem, h.esis_nodup⟩
    · intro x
      rw [List.mem_cons, h.esis_mem x]
      constructor
      · rintro (rfl | hx | ⟨q, hq, hqe⟩)
        · exact Or.inr ⟨p, by simp, rfl⟩
        · exact Or.inl hx
        · exact Or.inr ⟨q, by simp [hq], hqe⟩
      · rintro (hx | ⟨q, hq, hqe⟩)
        · exact Or.inr (Or.inl hx)
        · rcases List.mem_append.mp hq with hq | hq
          · exact Or.inr (Or.inr ⟨q, hq, hqe⟩)
          · rw [List.mem_singleton] at hq; subst hq; exact Or.inl hqe.symm

/-! ## the received system is consistent: the encoder's C solves it -/

/-- the right-hand sides `attempt` builds for the G_ENC rows, in the order of `isisOf` -/
def recvOf (d : BlockDec) (sp : SysParams) : List Sym :=
  ((List.range d.k).filter fun i => (d.src.getD i none).isSome).map (fun i => (d.src.getD i none).getD []) ++
    List.replicate (sp.kp - d.k) (zeroSym d.t) ++ d.repair.map (·.data)

theorem isisOf_isSome (d : BlockDec) (e : BlockEnc) (t : Nat) (h : Tracks d e t) (he : GoodEnc e t) :
    ∀ isi ∈ isisOf d e.sp, (encRow e.sp isi).isSome := by
  obtain ⟨_, hkp, hl, hleq, _⟩ := sysParams_facts _ _ he.params
  have small : ∀ x, x < 2 ^ 32 → (encRow e.sp x).isSome := by
    intro x hx
    obtain ⟨idx, _, _, _, h1, _⟩ := goodEnc_encIndices e t he x hx
    rw [h1]; rfl
  intro isi hisi
  unfold isisOf at hisi
  rw [h.hk] at hisi
  rcases List.mem_append.mp hisi with h1 | h1
  · rcases List.mem_append.mp h1 with h2 | h2
    · have := List.mem_range.mp (List.mem_filter.mp h2).1
      exact small isi (by omega)
    · obtain ⟨j, hj, rfl⟩ := List.mem_map.mp h2
      have := List.mem_range.mp hj
      exact small _ (by omega)
  · obtain ⟨p, hp, rfl⟩ := List.mem_map.mp h1
    obtain ⟨hge, hrep⟩ := h.repair_ok p hp
    have := (goodEnc_repair e t he _ p hrep).1
    rw [show e.sp.kp + (p.pid.esi - e.k) = p.pid.esi + (e.sp.kp - e.k) by omega] at this
    exact this

theorem isisOf_vals (d : BlockDec) (e : BlockEnc) (t : Nat) (h : Tracks d e t) (he : GoodEnc e t)
    (L : Array (List Nat)) (Hd : Array (Array Nat)) (hr : EncRows e t L Hd) :
    (isisOf d e.sp).map (encVal e.sp e.c t) = recvOf d e.sp := by
  have hkp := hr.k_le
  unfold isisOf recvOf
  rw [h.hk, h.ht, List.map_append, List.map_append]
  congr 1
  · congr 1
    · rw [List.map_inj_left]
      intro i hi
      obtain ⟨hi1, hi2⟩ := List.mem_filter.mp hi
      have hik := List.mem_range.mp hi1
      rw [hr.src i hik]
      rcases h.src_ok i hik with hn | hs
      · rw [hn] at hi2; cases hi2
      · rw [hs]; rfl
    · rw [List.map_map, List.eq_replicate_iff]
      refine ⟨by simp, ?_⟩
      intro s hs
      obtain ⟨j, hj, rfl⟩ := List.mem_map.mp hs
      have := List.mem_range.mp hj
      show encVal e.sp e.c t (e.k + j) = zeroSym t
      exact hr.pad _ (by omega) (by omega)
  · rw [List.map_map, List.map_inj_left]
    intro p hp
    obtain ⟨hge, hrep⟩ := h.repair_ok p hp
    have := (goodEnc_repair e t he _ p hrep).2
    rw [show e.sp.kp + (p.pid.esi - e.k) = p.pid.esi + (e.sp.kp - e.k) by omega] at this
    exact this

theorem esis_perm (d : BlockDec) (e : BlockEnc) (t : Nat) (h : Tracks d e t) :
    d.esis.Perm (((List.range e.k).filter fun i => (d.src.getD i none).isSome) ++ d.repair.map (·.pid.esi)) := by
  rw [List.perm_ext_iff_of_nodup h.esis_nodup]
  · intro x
    rw [h.esis_mem x, List.mem_append, List.mem_filter, List.mem_range, List.mem_map]
  · rw [List.nodup_append]
    refine ⟨List.nodup_range.filter _, h.repair_nodup, ?_⟩
    intro a ha b hb
    have ha' := List.mem_range.mp (List.mem_filter.mp ha).1
    obtain ⟨p, hp, rfl⟩ := List.mem_map.mp hb
    have := (h.repair_ok p hp).1
    omega

theorem isisOf_length (d : BlockDec) (e : BlockEnc) (t : Nat) (h : Tracks d e t) (sp : SysParams) :
    (isisOf d sp).length = d.esis.length + (sp.kp - e.k) := by
  rw [(esis_perm d e t h).length_eq]
  unfold isisOf
  rw [h.hk]
  simp only [List.length_append, List.length_map, List.length_range]
  omega

/-- the full solve (case 3b) of `attempt` -/
def try3b (sv : Solver) (d : BlockDec) (sp : SysParams) : Option (Option (List Nat) × DecCase) :=
  match sv.full sp (isisOf d sp) (List.replicate (sp.s + sp.h) (zeroSym d.t) ++ recvOf d sp) with
  | .singular => some (none, .c3fail)
  | .solved c => (d.assemble sp c).map fun r => (some r, .c3b)
  | .oracleError => none

theorem attempt_eq (sv : Solver) (d : BlockDec) (sp : SysParams) (hsp : sysParams d.k = some sp) :
    d.attempt sv =
      if d.esis.length < d.k then some (none, .c1)
      else if d.recvSrc = d.k then
        match (List.range d.k).mapM (fun i => d.src.getD i none) with
        | none => none
        | some syms => (unpackBlock d.t d.al d.n d.k syms).map fun r => (some r, .c2)
      else
        if (recvOf d sp).any (fun s => s.length ≠ d.t) then none else
        if sp.s + (isisOf d sp).length ≥ sp.l then
          match sv.noHdpc sp (isisOf d sp) (List.replicate sp.s (zeroSym d.t) ++ recvOf d sp) with
          | .solved c => (d.assemble sp c).map fun r => (some r, .c3a)
          | .singular => try3b sv d sp
          | .oracleError => none
        else try3b sv d sp := by
  unfold BlockDec.attempt
  rw [hsp]
  rfl

theorem received_full (d : BlockDec) (e : BlockEnc) (t : Nat) (h : Tracks d e t) (he : GoodEnc e t)
    (L : Array (List Nat)) (Hd : Array (Array Nat)) (hr : EncRows e t L Hd) (hn : e.k ≤ d.esis.length) :
    fullSystem e.sp (isisOf d e.sp) = some (mkSys e.sp L Hd (isisOf d e.sp)) ∧
      (mkSys e.sp L Hd (isisOf d e.sp)).apply e.c t =
        List.replicate (e.sp.s + e.sp.h) (zeroSym t) ++ recvOf d e.sp := by
  obtain ⟨_, hkp, _, hleq, _⟩ := sysParams_facts _ _ he.params
  have hlen := isisOf_length d e t h e.sp
  refine ⟨fullSystem_some _ _ _ _ hr.hL hr.hH (isisOf_isSome d e t h he) (by omega), ?_⟩
  rw [mkSys_apply _ _ _ _ hr.sizeL, hr.ldpc0, hr.hdpc0, ← List.replicate_add]
  congr 1
  exact isisOf_vals d e t h he L Hd hr

theorem received_bin (d : BlockDec) (e : BlockEnc) (t : Nat) (h : Tracks d e t) (he : GoodEnc e t)
    (L : Array (List Nat)) (Hd : Array (Array Nat)) (hr : EncRows e t L Hd)
    (hlen : e.sp.l ≤ e.sp.s + (isisOf d e.sp).length) :
    binSystem e.sp (isisOf d e.sp) = some (mkSys e.sp L #[] (isisOf d e.sp)) ∧
      (mkSys e.sp L #[] (isisOf d e.sp)).apply e.c t =
        List.replicate e.sp.s (zeroSym t) ++ recvOf d e.sp := by
  refine ⟨binSystem_some _ _ _ hr.hL (isisOf_isSome d e t h he) hlen, ?_⟩
  rw [mkSys_apply _ _ _ _ hr.sizeL, hr.ldpc0]
  simp only [List.map_nil, List.append_nil]
  congr 1
  exact isisOf_vals d e t h he L Hd hr

theorem mapM_range_some (f : Nat → Option Sym) (src : List Sym)
    (h : ∀ i, i < src.length → f i = some (src.getD i [])) : (List.range src.length).mapM f = some src := by
  rw [mapM_option_of_some f [] _ (fun i hi => by rw [h i (List.mem_range.mp hi)]; rfl)]
  congr 1
  apply List.ext_getElem
  · simp
  · intro i h1 h2
    simp only [List.getElem_map, List.getElem_range]
    rw [h i h2]
    simp [List.getD_eq_getElem?_getD, h2]

theorem unpack_src (d : BlockDec) (e : BlockEnc) (t : Nat) (data : List Nat) (h : Tracks d e t)
    (he : GoodEnc e t) (hl : LayoutOk d t data e) : unpackBlock d.t d.al d.n d.k e.src = some data := by
  have hk : data.length / t = e.k := by rw [hl.data_len]; exact Nat.mul_div_cancel _ he.t_pos
  rw [h.ht, h.hk, ← hk]
  exact Rq.C05.unpack_create t d.al d.n data he.t_pos hl.t_lt hl.al_pos hl.al_div hl.n_pos hl.n_le
    (by rw [hl.data_len]; exact Nat.mul_mod_left _ _) e.src hl.symbols

theorem assemble_ok (d : BlockDec) (e : BlockEnc) (t : Nat) (data : List Nat) (h : Tracks d e t)
    (he : GoodEnc e t) (hl : LayoutOk d t data e) (L : Array (List Nat)) (Hd : Array (Array Nat))
    (hr : EncRows e t L Hd) : d.assemble e.sp e.c = some data := by
  obtain ⟨_, hkp, hl', hleq, _⟩ := sysParams_facts _ _ he.params
  unfold BlockDec.assemble
  have key : ∀ f : Nat → Option Sym, (∀ i, i < e.k → f i = some (e.src.getD i [])) →
      (List.range d.k).mapM f = some e.src := by
    intro f hf
    rw [h.hk]
    exact mapM_range_some f e.src hf
  dsimp only
  rw [key]
  · exact unpack_src d e t data h he hl
  intro i hi
  rcases h.src_ok i hi with hn | hs
  · rw [hn]
    dsimp only
    obtain ⟨idx, hidx, _, _, _, h2⟩ := goodEnc_encIndices e t he i (by omega)
    rw [hidx, Option.map_some, ← h2, hr.src i hi]
  · rw [hs]

theorem mkSys_hdpcBytes (sp : SysParams) (L : Array (List Nat)) (Hd : Array (Array Nat)) (isis : List Nat)
    (hH : hdpcRows sp = some Hd) : HdpcBytes (mkSys sp L Hd isis) := by
  intro row hrow
  exact ((hdpcRows_wf sp Hd hH).2 row hrow).2

theorem mkSys_hdpcBytes_nil (sp : SysParams) (L : Array (List Nat)) (isis : List Nat) :
    HdpcBytes (mkSys sp L #[] isis) := by
  intro row hrow
  simp [mkSys] at hrow

/-- the binary-only system is a sub-system of the full one -/
theorem determined_of_bin (sp : SysParams) (L : Array (List Nat)) (Hd : Array (Array Nat)) (isis : List Nat)
    (hL : L.size = sp.s) (h : Determined (mkSys sp L #[] isis)) : Determined (mkSys sp L Hd isis) := by
  rw [determined_iff] at h ⊢
  intro v hv hz hφ i hi
  apply h v hv hz _ i hi
  intro φ hm
  apply hφ
  rw [mkSys_funs _ _ _ _ hL] at hm ⊢
  simp only [List.map_nil, List.append_nil] at hm
  rcases List.mem_append.mp hm with h1 | h1
  · exact List.mem_append_left _ (List.mem_append_left _ h1)
  · exact List.mem_append_right _ h1

/-- the internal symbol ids of the rows the decoder builds are 32-bit values -/
theorem isisOf_lt (d : BlockDec) (e : BlockEnc) (t : Nat) (h : Tracks d e t) (he : GoodEnc e t) :
    ∀ x ∈ isisOf d e.sp, x < 2 ^ 32 := by
  obtain ⟨hk, hkp, hl, hleq, _⟩ := sysParams_facts _ _ he.params
  intro isi hisi
  unfold isisOf at hisi
  rw [h.hk] at hisi
  rcases List.mem_append.mp hisi with h1 | h1
  · rcases List.mem_append.mp h1 with h2 | h2
    · have := List.mem_range.mp (List.mem_filter.mp h2).1
      omega
    · obtain ⟨j, hj, rfl⟩ := List.mem_map.mp h2
      have := List.mem_range.mp hj
      omega
  · obtain ⟨p, hp, rfl⟩ := List.mem_map.mp h1
    obtain ⟨hge, hrep⟩ := h.repair_ok p hp
    unfold BlockEnc.repairPacket at hrep
    dsimp only at hrep
    split at hrep
    · cases hrep
    · next hlt =>
      unfold U32 at hlt
      omega

theorem try3b_spec (sv : Solver) (hs : SolverSpec sv) (d : BlockDec) (e : BlockEnc) (t : Nat) (data : List Nat)
    (h : Tracks d e t) (he : GoodEnc e t) (hl : LayoutOk d t data e) (L : Array (List Nat))
    (Hd : Array (Array Nat)) (hr : EncRows e t L Hd) (hn : e.k ≤ d.esis.length) :
    ∃ res cs, try3b sv d e.sp = some (res, cs) ∧ (res = some data ∨ res = none) ∧
      (res = some data ↔ Determined (mkSys e.sp L Hd (isisOf d e.sp))) := by
  obtain ⟨hsys, happ⟩ := received_full d e t h he L Hd hr hn
  have hwf : WfRhs (mkSys e.sp L Hd (isisOf d e.sp)) t
      (List.replicate (e.sp.s + e.sp.h) (zeroSym t) ++ recvOf d e.sp) := by
    rw [← happ]; exact apply_wfRhs _ _ _ he.c_wf
  have hcons : Consistent (mkSys e.sp L Hd (isisOf d e.sp)) t
      (List.replicate (e.sp.s + e.sp.h) (zeroSym t) ++ recvOf d e.sp) := ⟨e.c, he.c_wf, happ⟩
  unfold try3b
  rw [h.ht]
  cases hsv : sv.full e.sp (isisOf d e.sp) (List.replicate (e.sp.s + e.sp.h) (zeroSym t) ++ recvOf d e.sp) with
  | singular =>
    have := hs.full_singular _ _ _ _ t _ he.params (isisOf_lt d e t h he) hsys he.t_pos hwf hcons hsv
    exact ⟨none, .c3fail, rfl, Or.inr rfl, by simp [this]⟩
  | oracleError => exact absurd hsv (hs.full_answers _ _ _ _ t _ he.params (isisOf_lt d e t h he) hsys he.t_pos hwf hcons)
  | solved c =>
    obtain ⟨hc, hcapp, hdet⟩ := hs.full_solved _ _ _ _ t _ c he.params (isisOf_lt d e t h he) hsys he.t_pos hwf hcons hsv
    have : c = e.c := determined_unique_d _ (mkSys_hdpcBytes _ _ _ _ hr.hH) hdet t c e.c hc he.c_wf
      (by rw [hcapp, happ])
    subst this
    dsimp only
    rw [assemble_ok d e t data h he hl L Hd hr]
    exact ⟨some data, .c3b, rfl, Or.inl rfl, by simp [hdet]⟩

theorem recvOf_len (d : BlockDec) (e : BlockEnc) (t : Nat) (h : Tracks d e t) (he : GoodEnc e t)
    (L : Array (List Nat)) (Hd : Array (Array Nat)) (hr : EncRows e t L Hd) :
    (recvOf d e.sp).any (fun s => s.length ≠ d.t) = false := by
  rw [← isisOf_vals d e t h he L Hd hr, h.ht]
  simp only [List.any_eq_false, List.mem_map, decide_eq_true_eq, not_not]
  rintro s ⟨x, _, rfl⟩
  exact (encVal_wf e t he x).1

theorem src_all (d : BlockDec) (e : BlockEnc) (t : Nat) (h : Tracks d e t) (hall : d.recvSrc = e.k) :
    ∀ i, i < e.k → d.src.getD i none = some (e.src.getD i []) := by
  intro i hi
  have hc := h.recv_count
  rw [hall] at hc
  have : ∀ j ∈ List.range e.k, (d.src.getD j none).isSome = true := by
    have h2 : ((List.range e.k).filter fun i => (d.src.getD i none).isSome).length = (List.range e.k).length := by
      rw [← hc]; simp
    exact List.length_filter_eq_length_iff.mp h2
  have hs := this i (List.mem_range.mpr hi)
  rcases h.src_ok i hi with hn | hs'
  · rw [hn] at hs; cases hs
  · exact hs'

/-- the system `attempt` builds exists and the encoder's intermediate symbols satisfy it, with
exactly the right-hand sides `attempt` hands to the solver -/
theorem received_consistent (d : BlockDec) (e : BlockEnc) (t : Nat) (h : Tracks d e t) (he : GoodEnc e t)
    (hn : e.k ≤ d.esis.length) :
    ∃ a, fullSystem e.sp (isisOf d e.sp) = some a ∧ a.l = e.sp.l ∧
      ∃ rhs, rhs = List.replicate (e.sp.s + e.sp.h) (zeroSym t) ++ recvOf d e.sp ∧
        WfRhs a t rhs ∧ a.apply e.c t = rhs := by
  obtain ⟨L, Hd, hr⟩ := goodEnc_rows e t he
  obtain ⟨hsys, happ⟩ := received_full d e t h he L Hd hr hn
  refine ⟨_, hsys, rfl, _, rfl, ?_, happ⟩
  rw [← happ]
  exact apply_wfRhs _ _ _ he.c_wf

/-! ## the decision -/

/-- Case 1: fewer than K distinct symbols is always "not yet" -/
theorem attempt_case1 (sv : Solver) (d : BlockDec) (e : BlockEnc) (t : Nat) (h : Tracks d e t) (he : GoodEnc e t)
    (hlt : d.esis.length < e.k) : d.attempt sv = some (none, .c1) := by
  unfold BlockDec.attempt
  rw [h.hk, he.params]
  dsimp only
  rw [if_pos hlt]

/-- **C02.** With at least K distinct symbols received, the block is returned exactly when all
source symbols have arrived or the received set determines the intermediate symbols; the answer
is then the original block. Neither the fast path nor the full solve loses a determined set, and
no undetermined set is answered. -/
theorem attempt_iff (sv : Solver) (hs : SolverSpec sv) (d : BlockDec) (e : BlockEnc) (t : Nat) (data : List Nat)
    (h : Tracks d e t) (he : GoodEnc e t) (hl : LayoutOk d t data e) (hn : e.k ≤ d.esis.length) :
    ∃ a res cs, fullSystem e.sp (isisOf d e.sp) = some a ∧ d.attempt sv = some (res, cs) ∧
      (res = some data ∨ res = none) ∧
      (res = some data ↔ (d.recvSrc = e.k ∨ Determined a)) := by
  obtain ⟨L, Hd, hr⟩ := goodEnc_rows e t he
  obtain ⟨hsys, happ⟩ := received_full d e t h he L Hd hr hn
  suffices hsuff : ∃ res cs, d.attempt sv = some (res, cs) ∧ (res = some data ∨ res = none) ∧
      (res = some data ↔ (d.recvSrc = e.k ∨ Determined (mkSys e.sp L Hd (isisOf d e.sp)))) by
    obtain ⟨res, cs, h1, h2, h3⟩ := hsuff
    exact ⟨_, res, cs, hsys, h1, h2, h3⟩
  rw [attempt_eq sv d e.sp (by rw [h.hk]; exact he.params), h.hk, if_neg (by omega)]
  by_cases hall : d.recvSrc = e.k
  · rw [if_pos hall]
    have : (List.range e.k).mapM (fun i => d.src.getD i none) = some e.src :=
      mapM_range_some _ e.src (src_all d e t h hall)
    rw [this]
    dsimp only
    have hu := unpack_src d e t data h he hl
    rw [h.hk] at hu
    rw [hu]
    exact ⟨some data, .c2, rfl, Or.inl rfl, by simp [hall]⟩
  · rw [if_neg hall, recvOf_len d e t h he L Hd hr]
    simp only [Bool.false_eq_true, if_false, hall, false_or]
    obtain ⟨res, cs, h3, h3a, h3b⟩ := try3b_spec sv hs d e t data h he hl L Hd hr hn
    split
    · next hlen =>
      obtain ⟨hbsys, hbapp⟩ := received_bin d e t h he L Hd hr hlen
      have hwf : WfRhs (mkSys e.sp L #[] (isisOf d e.sp)) t
          (List.replicate e.sp.s (zeroSym t) ++ recvOf d e.sp) := by
        rw [← hbapp]; exact apply_wfRhs _ _ _ he.c_wf
      have hcons : Consistent (mkSys e.sp L #[] (isisOf d e.sp)) t
          (List.replicate e.sp.s (zeroSym t) ++ recvOf d e.sp) := ⟨e.c, he.c_wf, hbapp⟩
      rw [h.ht]
      cases hsv : sv.noHdpc e.sp (isisOf d e.sp) (List.replicate e.sp.s (zeroSym t) ++ recvOf d e.sp) with
      | singular => exact ⟨res, cs, h3, h3a, h3b⟩
      | oracleError => exact absurd hsv (hs.bin_answers _ _ _ _ t _ he.params (isisOf_lt d e t h he) hbsys he.t_pos hwf hcons)
      | solved c =>
        obtain ⟨hc, hcapp, hdet⟩ := hs.bin_solved _ _ _ _ t _ c he.params (isisOf_lt d e t h he) hbsys he.t_pos hwf hcons hsv
        have : c = e.c := determined_unique_d _ (mkSys_hdpcBytes_nil _ _ _) hdet t c e.c hc he.c_wf
          (by rw [hcapp, hbapp])
        subst this
        dsimp only
        rw [assemble_ok d e t data h he hl L Hd hr]
        exact ⟨some data, .c3a, rfl, Or.inl rfl, by simp [determined_of_bin _ _ _ _ hr.sizeL hdet]⟩
    · exact ⟨res, cs, h3, h3a, h3b⟩

/-! ## batches -/

/-- induction over a batch of genuine packets -/
theorem foldlM_push_inv (P : BlockDec → Prop) (e : BlockEnc) (t : Nat)
    (hstep : ∀ d p d', Tracks d e t → P d → Genuine e p → d.push p = some d' → Tracks d' e t → P d') :
    ∀ (batch : List Packet) (d : BlockDec), Tracks d e t → P d → (∀ p ∈ batch, Genuine e p) →
      ∃ d', batch.foldlM BlockDec.push d = some d' ∧ Tracks d' e t ∧ P d' := by
  intro batch
  induction batch with
  | nil => intro d h hp _; exact ⟨d, rfl, h, hp⟩
  | cons p batch ih =>
    intro d h hp hg
    obtain ⟨d1, h1, ht1, _⟩ := push_tracks d e t h p (hg p (List.mem_cons_self ..))
    obtain ⟨d', h2, ht2, hp2⟩ := ih d1 ht1 (hstep d p d1 h hp (hg p (List.mem_cons_self ..)) h1 ht1)
      (fun q hq => hg q (List.mem_cons_of_mem _ hq))
    refine ⟨d', ?_, ht2, hp2⟩
    rw [List.foldlM_cons, h1]
    exact h2

theorem layoutOk_congr (d d' : BlockDec) (t : Nat) (data : List Nat) (e : BlockEnc) (hl : LayoutOk d t data e)
    (hn : d'.n = d.n) (hal : d'.al = d.al) : LayoutOk d' t data e := by
  obtain ⟨h1, h2, h3, h4, h5, h6, h7, h8⟩ := hl
  constructor
  · exact h1
  · rw [hal]; exact h2
  · rw [hal]; exact h3
  · rw [hn]; exact h4
  · rw [hn, hal]; exact h5
  · exact h6
  · exact h7
  · rw [hn, hal]; exact h8

theorem all_src_count (d : BlockDec) (e : BlockEnc) (t : Nat) (h : Tracks d e t)
    (hall : ∀ i, i < e.k → (d.src.getD i none).isSome) : d.recvSrc = e.k ∧ e.k ≤ d.esis.length := by
  have hf : ((List.range e.k).filter fun i => (d.src.getD i none).isSome) = List.range e.k :=
    List.filter_eq_self.mpr (fun i hi => hall i (List.mem_range.mp hi))
  refine ⟨by rw [h.recv_count, hf]; simp, ?_⟩
  rw [(esis_perm d e t h).length_eq, hf]
  simp

/-- fewer rows than columns can never determine the intermediate symbols (so "not yet" in case 1
is also the right answer to the rank question) -/
theorem few_rows_not_determined (a : System) (h : a.rows < a.l)
    (hbin : ∀ cols ∈ a.bin.toList, ∀ j ∈ cols, j < a.l)
    (hh : ∀ row ∈ a.hdpc.toList, row.size = a.l ∧ ∀ v ∈ row.toList, v < 256) : ¬ Determined a := by
  have _ := hbin
  intro hd
  have := rows_ge_of_determined a (fun row hrow => (hh row hrow).2) hd
  omega

end Rq.C02
