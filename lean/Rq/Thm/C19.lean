import Rq.Lemmas.Arith
/-!
# C19 — the configuration constructor enforces the RFC's parameter limits

Model: `otiNew` (`ObjectTransmissionInformation::new` as repaired by the `fix:` commit, ceilings
in u64) and `otiNewOld` (the pinned code: both ceilings through `int_div_ceil -> u32`).
-/
namespace Rq.C19
open Rq

/-- the documented limits (positive T, Z, Al assumed by the property) -/
def Valid (f t z al : Nat) : Prop :=
  f ≤ 942574504275 ∧ t % al = 0 ∧ ceilDiv (ceilDiv f t) z ≤ 56403

/-- the regenerated constant is the RFC's K'_max -/
theorem maxK_eq : maxK = 56403 := by decide

/-- **Accepts exactly the valid parameter sets** (every F, T, Z, N, Al with positive T, Z, Al —
no bound on F: arguments beyond 2^32·T included). -/
theorem otiNew_iff (f t z n al : Nat) (ht : 0 < t) (hz : 0 < z) (hal : 0 < al) :
    (otiNew f t z n al).isSome ↔ Valid f t z al := by
  unfold otiNew Valid
  rw [maxK_eq]
  simp only [maxTransferLength]
  by_cases h1 : f ≤ 942574504275 <;> by_cases h2 : t % al = 0 <;>
    by_cases h3 : ceilDiv (ceilDiv f t) z ≤ 56403 <;> simp [h1, h2, h3] <;> omega

/-- An accepted configuration reports exactly the values it was given. -/
theorem otiNew_values (f t z n al : Nat) (o : Oti) (h : otiNew f t z n al = some o) :
    o = { f, t, z, n, al } := by
  unfold otiNew at h
  split at h; · simp at h
  split at h; · simp at h
  split at h; · simp at h
  split at h; · simp at h
  simpa using h.symm

/-- accepted configurations fit the wire format of C13 (F < 2^40) -/
theorem otiNew_f_lt (f t z n al : Nat) (h : (otiNew f t z n al).isSome) : f < 2 ^ 40 := by
  unfold otiNew at h
  split at h; · simp at h
  rename_i h1
  simp only [maxTransferLength] at h1
  omega

/-! ## The defect of the pinned code (repaired by a `fix:` commit) -/

/-- Witness: F = 2^32 + 5, T = Z = N = Al = 1 was accepted although it needs 4 294 967 301
symbols in one block. Replayed on the real code: accepted before the repair, refused after. -/
theorem otiNewOld_defect :
    (otiNewOld (2 ^ 32 + 5) 1 1 1 1).isSome ∧ ¬ Valid (2 ^ 32 + 5) 1 1 1 := by
  refine ⟨by decide, ?_⟩
  unfold Valid ceilDiv
  omega

theorem otiNew_refuses_witness : otiNew (2 ^ 32 + 5) 1 1 1 1 = none := by decide

/-- The old constructor had no *other* defect class: whatever it accepted wrongly has
⌈F/T⌉ ≥ 2^32 (the truncation), and it never refused a valid set. -/
theorem otiNewOld_sound_below (f t z n al : Nat) (ht : 0 < t) (hz : 0 < z) (hal : 0 < al)
    (hq : ceilDiv f t < 2 ^ 32) :
    (otiNewOld f t z n al).isSome ↔ Valid f t z al := by
  have hidc : ∀ a b : Nat, 0 < b → ceilDiv a b < 2 ^ 32 → intDivCeil a b = some (ceilDiv a b) :=
    fun a b hb h => intDivCeil_of_lt a b hb h
  have hle : ceilDiv (ceilDiv f t) z ≤ ceilDiv f t := by
    rw [ceilDiv_le_iff _ _ _ hz]
    exact Nat.le_mul_of_pos_right _ hz
  unfold otiNewOld Valid
  rw [maxK_eq, hidc f t ht hq]
  simp only []
  rw [hidc _ z hz (by omega)]
  simp only [maxTransferLength]
  by_cases h1 : f ≤ 942574504275 <;> by_cases h2 : t % al = 0 <;>
    by_cases h3 : ceilDiv (ceilDiv f t) z ≤ 56403 <;> simp [h1, h2, h3] <;> omega

/-! ## Non-vacuity -/
example : Valid 942574504275 65535 255 1 := by unfold Valid ceilDiv; omega
example : (otiNew 942574504275 65535 255 1 1).isSome := by decide
example : (otiNew 942574504276 65535 255 1 1) = none := by decide
example : (otiNew 56404 1 1 1 1) = none := by decide
example : (otiNew 56403 1 1 1 1).isSome := by decide

end Rq.C19
