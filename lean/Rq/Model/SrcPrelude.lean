import Rq.Model.Tab
/-!
Run-time library of the source translator (`bin/src2lean`): the meaning of the Rust constructs it
emits, in a build with overflow checks. Values are naturals; `none` is a panic.
-/
namespace Rq.Src

/-- `a + b` on an integer type of `bound = 2^width` values -/
def cadd (bound a b : Nat) : Option Nat := if a + b < bound then some (a + b) else none
/-- `a * b`, checked -/
def cmul (bound a b : Nat) : Option Nat := if a * b < bound then some (a * b) else none
/-- `a - b` on an unsigned type -/
def csub (a b : Nat) : Option Nat := if b ≤ a then some (a - b) else none
/-- `a / b` -/
def cdiv (a b : Nat) : Option Nat := if b = 0 then none else some (a / b)
/-- `a % b` -/
def cmod (a b : Nat) : Option Nat := if b = 0 then none else some (a % b)
/-- `a.div_ceil(b)` -/
def cdivCeil (a b : Nat) : Option Nat := if b = 0 then none else some ((a + b - 1) / b)
/-- `TABLE[i]` for a constant table of `n` entries -/
def cidx (a : Array Nat) (n i : Nat) : Option Nat := if i < n then some (tget a i) else none
/-- `f[i]` for a local array -/
def cidxL (l : List Nat) (i : Nat) : Option Nat := l[i]?

/-- `for i in lo..lo+n { body }` where the body may `return`: `none` = panic, `some none` = the
loop ran to its end, `some (some r)` = returned `r`. -/
def forRet {α : Type} (body : Nat → Option (Option α)) : Nat → Nat → Option (Option α)
  | 0, _ => some none
  | n + 1, i =>
    match body i with
    | none => none
    | some (some r) => some (some r)
    | some none => forRet body n (i + 1)

/-- `MAX_SOURCE_SYMBOLS_PER_BLOCK` (value from the table translator) -/
def maxK : Nat := Gen.maxSourceSymbols

end Rq.Src
