import Rq.Model.Layout
import Rq.Model.Matrix
/-!
Model of `src/encoder.rs` (block / object encoder, repair stream) and `src/decoder.rs` (block
decoder with its cases 1 / 2 / 3a / 3b, object decoder with the per-block memo). The linear
solver is a *parameter* (`Solver`): the theorems hold for every solver meeting `SolverSpec`
(Thm/C02), the driver plugs in the checked Gauss–Jordan oracle.
-/
namespace Rq

abbrev Inter := Array Sym

def xorSym (a b : Sym) : Sym := List.zipWith (· ^^^ ·) a b

/-- `enc_into` / `rebuild_source_symbol_into`: copy the first indexed symbol, xor the rest -/
def encSymbol (c : Inter) (idx : List Nat) : Sym :=
  match idx with
  | [] => []
  | i :: rest => rest.foldl (fun acc j => xorSym acc (c.getD j [])) (c.getD i [])

/-- answer of a linear solver: the solution, "rank deficient", or (oracle only) "my own answer
failed its re-check" — the last is an internal failure and surfaces as an error, never as agreement -/
inductive SolveRes where
  | solved (c : Inter)
  | singular
  | oracleError

structure Solver where
  /-- rows: S LDPC, H HDPC, one G_ENC row per isi; `d` lists the S+H+|isis| right-hand sides -/
  full : SysParams → List Nat → List Sym → SolveRes
  /-- rows: S LDPC, one G_ENC row per isi; `d` lists the S+|isis| right-hand sides -/
  noHdpc : SysParams → List Nat → List Sym → SolveRes

def zeroSym (t : Nat) : Sym := List.replicate t 0

/-- `create_d` -/
def createD (sp : SysParams) (t : Nat) (src : List Sym) : List Sym :=
  List.replicate (sp.s + sp.h) (zeroSym t) ++ src ++ List.replicate (sp.kp - src.length) (zeroSym t)

structure BlockEnc where
  sbn : Nat
  t : Nat
  sp : SysParams
  src : List Sym
  c : Inter

def BlockEnc.k (e : BlockEnc) : Nat := e.src.length

/-- `SourceBlockEncoder::new` / `with_encoding_plan` (the plan only changes *how* C is computed) -/
def BlockEnc.new? (sv : Solver) (sbn : Nat) (o : Oti) (data : List Nat) : Option BlockEnc :=
  match createSymbols o.t o.al o.n data with
  | none => none
  | some src =>
    match sysParams src.length with
    | none => none
    | some sp =>
      match sv.full sp (List.range sp.kp) (createD sp o.t src) with
      | .solved c => some { sbn, t := o.t, sp, src, c }
      | _ => none

def BlockEnc.sourcePackets (e : BlockEnc) : List Packet :=
  (List.range e.k).map fun i => { pid := { sbn := e.sbn, esi := i }, data := e.src.getD i [] }

/-- one repair packet: ESI K + r, internal id K' + r. `none`: u32 overflow / the 24-bit assert /
a panic while generating the tuple. -/
def BlockEnc.repairPacket (e : BlockEnc) (r : Nat) : Option Packet :=
  let isi := e.sp.kp + r
  let esi := e.k + r
  if isi ≥ U32 ∨ esi ≥ 16777216 then none else
  match encIndicesOf e.sp isi with
  | none => none
  | some idx => some { pid := { sbn := e.sbn, esi }, data := encSymbol e.c idx }

/-- `repair_packets(start, n)` -/
def BlockEnc.repairPackets (e : BlockEnc) (start n : Nat) : Option (List Packet) :=
  if start + e.sp.kp ≥ U32 then none else
  (List.range n).mapM fun i => e.repairPacket (start + i)

structure ObjEnc where
  o : Oti
  blocks : List BlockEnc

/-- `Encoder::new(data, config)` -/
def ObjEnc.new? (sv : Solver) (data : List Nat) (o : Oti) : Option ObjEnc :=
  match blockOffsets data.length o with
  | none => none
  | some offs =>
    let rec go (i : Nat) (offs : List (Nat × Nat)) : Option (List BlockEnc) :=
      match offs with
      | [] => some []
      | r :: rest =>
        match blockBytes data r with
        | none => none
        | some bytes =>
          match BlockEnc.new? sv (i % 256) o bytes, go (i + 1) rest with
          | some b, some bs => some (b :: bs)
          | _, _ => none
    (go 0 offs).map fun blocks => { o, blocks }

/-- `get_encoded_packets(r)`: per block, source packets then repair packets 0..r-1 -/
def ObjEnc.packets (e : ObjEnc) (r : Nat) : Option (List Packet) :=
  (e.blocks.mapM fun (b : BlockEnc) => (b.repairPackets 0 r).map (b.sourcePackets ++ ·)).map List.flatten

/-! ### Block decoder -/

structure BlockDec where
  sbn : Nat
  k : Nat
  t : Nat
  n : Nat
  al : Nat
  src : Array (Option Sym)
  repair : List Packet
  recvSrc : Nat
  esis : List Nat

def BlockDec.new? (sbn : Nat) (o : Oti) (blockLen : Nat) : Option BlockDec :=
  (intDivCeil blockLen o.t).map fun k =>
    { sbn, k, t := o.t, n := o.n, al := o.al, src := Array.replicate k none, repair := [],
      recvSrc := 0, esis := [] }

/-- the insertion loop of `decode`; `none` = the SBN assert -/
def BlockDec.push (d : BlockDec) (p : Packet) : Option BlockDec :=
  if p.pid.sbn ≠ d.sbn then none
  else if d.esis.contains p.pid.esi then some d
  else
    let d := { d with esis := p.pid.esi :: d.esis }
    if p.pid.esi ≥ d.k then some { d with repair := d.repair ++ [p] }
    else some { d with src := d.src.setIfInBounds p.pid.esi (some p.data), recvSrc := d.recvSrc + 1 }

/-- rebuild every source symbol (received ones are copied, missing ones re-encoded from C) and
undo the sub-block layout -/
def BlockDec.assemble (d : BlockDec) (sp : SysParams) (c : Inter) : Option (List Nat) :=
  let syms := (List.range d.k).mapM fun i =>
    match d.src.getD i none with
    | some s => some s
    | none => (encIndicesOf sp i).map (encSymbol c)
  match syms with
  | none => none
  | some syms => unpackBlock d.t d.al d.n d.k syms

inductive DecCase where
  | c1 | c2 | c3a | c3b | c3fail
deriving Repr, DecidableEq

/-- the decision part of `decode` after the packets were inserted. Outer `none` = panic. -/
def BlockDec.attempt (sv : Solver) (d : BlockDec) : Option (Option (List Nat) × DecCase) :=
  match sysParams d.k with
  | none => none
  | some sp =>
    if d.esis.length < d.k then some (none, .c1)
    else if d.recvSrc = d.k then
      match (List.range d.k).mapM (fun i => d.src.getD i none) with
      | none => none
      | some syms => (unpackBlock d.t d.al d.n d.k syms).map fun r => (some r, .c2)
    else
      let pad := sp.kp - d.k
      let have_ := (List.range d.k).filter fun i => (d.src.getD i none).isSome
      let isis := have_ ++ (List.range pad).map (d.k + ·) ++ d.repair.map (·.pid.esi + pad)
      let recv : List Sym := have_.map (fun i => (d.src.getD i none).getD []) ++
        List.replicate pad (zeroSym d.t) ++ d.repair.map (·.data)
      if recv.any (fun s => s.length ≠ d.t) then none else
      let try3b : Unit → Option (Option (List Nat) × DecCase) := fun _ =>
        match sv.full sp isis (List.replicate (sp.s + sp.h) (zeroSym d.t) ++ recv) with
        | .singular => some (none, .c3fail)
        | .solved c => (d.assemble sp c).map fun r => (some r, .c3b)
        | .oracleError => none
      if sp.s + isis.length ≥ sp.l then
        match sv.noHdpc sp isis (List.replicate sp.s (zeroSym d.t) ++ recv) with
        | .solved c => (d.assemble sp c).map fun r => (some r, .c3a)
        | .singular => try3b ()
        | .oracleError => none
      else try3b ()

/-- `SourceBlockDecoder::decode(packets)` -/
def BlockDec.decode (sv : Solver) (d : BlockDec) (ps : List Packet) : Option (BlockDec × Option (List Nat) × DecCase) :=
  match ps.foldlM BlockDec.push d with
  | none => none
  | some d' => (d'.attempt sv).map fun (r, c) => (d', r, c)

/-! ### Object decoder -/

structure ObjDec where
  o : Oti
  blocks : Array BlockDec
  done : Array (Option (List Nat))

def ObjDec.new? (o : Oti) : Option ObjDec :=
  match blockCounts o with
  | none => none
  | some counts =>
    let rec go (i : Nat) (cs : List Nat) : Option (List BlockDec) :=
      match cs with
      | [] => some []
      | k :: rest =>
        match BlockDec.new? (i % 256) o (k * o.t), go (i + 1) rest with
        | some b, some bs => some (b :: bs)
        | _, _ => none
    (go 0 counts).map fun bs => { o, blocks := bs.toArray, done := Array.replicate bs.length none }

/-- `get_result` -/
def ObjDec.result (d : ObjDec) : Option (List Nat) :=
  (d.done.toList.mapM id).map fun bs => bs.flatten.take d.o.f

/-- `add_new_packet`; `none` = panic (block number out of range, SBN assert, …) -/
def ObjDec.add (sv : Solver) (d : ObjDec) (p : Packet) : Option ObjDec :=
  let bn := p.pid.sbn
  if h : bn < d.blocks.size then
    match d.done.getD bn none with
    | some _ => some d
    | none =>
      match (d.blocks[bn]).decode sv [p] with
      | none => none
      | some (b', r, _) => some { d with blocks := d.blocks.set bn b', done := d.done.setIfInBounds bn r }
  else none

/-- `decode(packet)` = add, then report -/
def ObjDec.decode (sv : Solver) (d : ObjDec) (p : Packet) : Option (ObjDec × Option (List Nat)) :=
  (d.add sv p).map fun d' => (d', d'.result)

end Rq
