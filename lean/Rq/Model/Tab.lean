import Rq.Gen.Tables
/-!
Table access. `Gen/Tables.lean` (regenerated from /repo on every run) holds each table as one
packed `Nat`; the arrays used by the executable model are *derived* from the packed form, so the
packed literal is the single source of truth and `tb_get` lemmas (Lemmas/Tab.lean) move between
the two without any kernel evaluation.
-/
namespace Rq

/-- entry `i` of a table of 8-bit entries packed little end first -/
def tb8 (t i : Nat) : Nat := (t >>> (8 * i)) % 256
/-- entry `i` of a table of 32-bit entries packed little end first -/
def tb32 (t i : Nat) : Nat := (t >>> (32 * i)) % 4294967296

/-- chunk `c` (64 entries of `bits` bits) of a packed table -/
def tbChunk (bits t c : Nat) : Nat := (t >>> (bits * 64 * c)) % 2 ^ (bits * 64)
/-- entry `i` read through its chunk (same value as `tb8`/`tb32`, lemma `tbVia_eq`) -/
def tbVia (bits : Nat) (chunks : Array Nat) (i : Nat) : Nat :=
  (chunks.getD (i / 64) 0 >>> (bits * (i % 64))) % 2 ^ bits

/-- Array form of a packed table, built in two levels (chunks of 64 entries first) so that
start-up does not shift the whole literal once per entry. -/
def mkArr (bits t n : Nat) : Array Nat :=
  let chunks : Array Nat := Array.ofFn (n := n / 64 + 1) fun c => tbChunk bits t c.val
  Array.ofFn (n := n) fun i => tbVia bits chunks i.val
def mkArr8 (t n : Nat) : Array Nat := mkArr 8 t n
def mkArr32 (t n : Nat) : Array Nat := mkArr 32 t n

/-- table look-up of the executable model: out-of-range reads give 0 and are *separately* shown
never to happen (index lemmas of C12/C15). -/
@[inline] def tget (a : Array Nat) (i : Nat) : Nat := a.getD i 0

def v0A : Array Nat := mkArr32 Gen.v0P 256
def v1A : Array Nat := mkArr32 Gen.v1P 256
def v2A : Array Nat := mkArr32 Gen.v2P 256
def v3A : Array Nat := mkArr32 Gen.v3P 256
def t2KA : Array Nat := mkArr32 Gen.t2K 477
def t2JA : Array Nat := mkArr32 Gen.t2J 477
def t2SA : Array Nat := mkArr32 Gen.t2S 477
def t2HA : Array Nat := mkArr32 Gen.t2H 477
def t2WA : Array Nat := mkArr32 Gen.t2W 477
def p1KA : Array Nat := mkArr32 Gen.p1K 477
def p1VA : Array Nat := mkArr32 Gen.p1V 477
def degA : Array Nat := mkArr32 Gen.degP 31
def octExpA : Array Nat := mkArr8 Gen.octExpP 510
def octLogA : Array Nat := mkArr8 Gen.octLogP 256
def octMulA : Array Nat := mkArr8 Gen.octMulP 65536
def octMulLoA : Array Nat := mkArr8 Gen.octMulLoP 8192
def octMulHiA : Array Nat := mkArr8 Gen.octMulHiP 8192

end Rq
