import Rq.Model.Matrix
/-!
The rank oracle: plain Gauss–Jordan elimination over GF(256) on dense byte rows. This is *search*:
no theorem speaks about the elimination itself; what it returns is re-checked by model code
(`checkSolution`, `checkKernel` in Codec.lean) before anything relies on it.
-/
namespace Rq

def mulTab : ByteArray :=
  ByteArray.mk (Array.ofFn (n := 65536) fun i => UInt8.ofNat (gmul (i.val / 256) (i.val % 256)))

def invTab : ByteArray :=
  ByteArray.mk (Array.ofFn (n := 256) fun i => UInt8.ofNat ((gdiv 1 i.val).getD 0))

@[inline] def bmul (a b : UInt8) : UInt8 := mulTab.get! (a.toNat * 256 + b.toNat)

/-- dst[j] ^= f * src[j] for j ≥ start -/
def rowFma (dst src : ByteArray) (f : UInt8) (start : Nat) : ByteArray := Id.run do
  let mut d := dst
  if f == 1 then
    for j in [start:src.size] do
      d := d.set! j (d.get! j ^^^ src.get! j)
  else
    let base := f.toNat * 256
    for j in [start:src.size] do
      d := d.set! j (d.get! j ^^^ mulTab.get! (base + (src.get! j).toNat))
  return d

def rowScale (dst : ByteArray) (f : UInt8) (start : Nat) : ByteArray := Id.run do
  let mut d := dst
  let base := f.toNat * 256
  for j in [start:d.size] do
    d := d.set! j (mulTab.get! (base + (d.get! j).toNat))
  return d

inductive GJResult where
  | solved (c : Array ByteArray)
  | singular (z : Array Nat)      -- candidate kernel vector

/-- Gauss–Jordan on an M × L system (M ≥ L) with right-hand sides `rhs` (M symbols). -/
def gaussJordan (l : Nat) (rows0 : Array ByteArray) (rhs0 : Array ByteArray) : GJResult := Id.run do
  let mut rows := rows0
  let mut rhs := rhs0
  let m := rows.size
  for col in [0:l] do
    -- pivot search
    let mut piv := m
    for r in [col:m] do
      if piv == m && (rows[r]!).get! col != 0 then
        piv := r
    if piv == m then
      -- kernel vector from the reduced rows above
      let mut z : Array Nat := Array.replicate l 0
      for j in [0:col] do
        z := z.set! j ((rows[j]!).get! col).toNat
      z := z.set! col 1
      return .singular z
    if piv != col then
      rows := rows.swapIfInBounds piv col
      rhs := rhs.swapIfInBounds piv col
    let pv := (rows[col]!).get! col
    if pv != 1 then
      let inv := invTab.get! pv.toNat
      let prow := rows[col]!
      rows := rows.set! col ByteArray.empty
      rows := rows.set! col (rowScale prow inv col)
      let ps := rhs[col]!
      rhs := rhs.set! col ByteArray.empty
      rhs := rhs.set! col (rowScale ps inv 0)
    let prow := rows[col]!
    let psym := rhs[col]!
    for r in [0:m] do
      if r != col then
        let f := (rows[r]!).get! col
        if f != 0 then
          let row := rows[r]!
          rows := rows.set! r ByteArray.empty
          rows := rows.set! r (rowFma row prow f col)
          let s := rhs[r]!
          rhs := rhs.set! r ByteArray.empty
          rhs := rhs.set! r (rowFma s psym f 0)
  return .solved (rhs.extract 0 l)

/-- densify a binary row -/
def denseOfCols (l : Nat) (cols : List Nat) : ByteArray := Id.run do
  let mut r := ByteArray.mk (Array.replicate l 0)
  for c in cols do
    if c < l then r := r.set! c 1
  return r

def denseOfNats (row : Array Nat) : ByteArray := ByteArray.mk (row.map UInt8.ofNat)

def symToBA (s : List Nat) : ByteArray := ByteArray.mk (s.toArray.map UInt8.ofNat)
def baToSym (b : ByteArray) : List Nat := b.data.toList.map UInt8.toNat

end Rq
