import Rq.Model.Codec
/-!
Model of `src/symbol_slab.rs` (contiguous symbols + optional logical→physical mapping, the paired
borrow with its three asserts) and `src/operation_vector.rs` (`SymbolOps`, `perform_op`), and of
`gen_intermediate_symbols_with_plan` (plan replay on D).
-/
namespace Rq

inductive SymOp where
  | add (dest src : Nat)
  | mul (dest c : Nat)
  | fma (dest src c : Nat)
  | reorder (order : List Nat)
deriving Repr, DecidableEq

structure Slab where
  syms : Array Sym             -- physical order
  mapping : Option (List Nat)  -- logical i ↦ physical mapping[i]
deriving Repr, DecidableEq

/-- `physical_index`; `none` = index panic -/
def Slab.phys (s : Slab) (i : Nat) : Option Nat :=
  match s.mapping with
  | none => some i
  | some m => m[i]?

/-- `get(i)`; `none` = out of range -/
def Slab.get? (s : Slab) (i : Nat) : Option Sym :=
  match s.phys i with
  | none => none
  | some p => s.syms[p]?

/-- `get_pair_mut(dest, src)`: the three asserts -/
def Slab.pair? (s : Slab) (dest src : Nat) : Option (Nat × Nat) :=
  match s.phys dest, s.phys src with
  | some d, some r => if d ≠ r ∧ d < s.syms.size ∧ r < s.syms.size then some (d, r) else none
  | _, _ => none

def mulSym (c : Nat) (a : Sym) : Sym := a.map (gmul c)
def fmaSym (c : Nat) (a b : Sym) : Sym := List.zipWith (fun x y => x ^^^ gmul c y) a b

/-- `perform_op`; `none` = panic -/
def Slab.apply (s : Slab) (op : SymOp) : Option Slab :=
  match op with
  | .add dest src =>
    (s.pair? dest src).map fun (d, r) =>
      { s with syms := s.syms.setIfInBounds d (xorSym (s.syms.getD d []) (s.syms.getD r [])) }
  | .mul dest c =>
    match s.phys dest with
    | some d => if d < s.syms.size then some { s with syms := s.syms.setIfInBounds d (mulSym c (s.syms.getD d [])) } else none
    | none => none
  | .fma dest src c =>
    (s.pair? dest src).map fun (d, r) =>
      { s with syms := s.syms.setIfInBounds d (fmaSym c (s.syms.getD d []) (s.syms.getD r [])) }
  | .reorder order => some { s with mapping := some order }

def Slab.run (s : Slab) (ops : List SymOp) : Option Slab := ops.foldlM Slab.apply s

/-- `gen_intermediate_symbols_with_plan`: replay on D, then read the L logical symbols -/
def replayPlan (sp : SysParams) (t : Nat) (src : List Sym) (ops : List SymOp) : Option Inter :=
  match (Slab.run { syms := (createD sp t src).toArray, mapping := none } ops) with
  | none => none
  | some s => ((List.range sp.l).mapM s.get?).map List.toArray

end Rq
