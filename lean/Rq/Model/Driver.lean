import Rq.Model.Io
import Rq.Model.GF256
import Rq.Model.Params
import Rq.Model.Wire
/-! Line-protocol driver: one request per line, one canonical reply per line. -/
namespace Rq.Driver
open Rq Rq.Io

def err : String := "err"

def showOpt (f : α → String) : Option α → String
  | some a => f a
  | none => err

def showNats (l : List Nat) : String := " ".intercalate (l.map toString)

def showOti (o : Oti) : String := showNats [o.f, o.t, o.z, o.n, o.al]

def handleE2 (w : List String) : Option String :=
  match w with
  | ["tablen", name] => some <| toString <| match name with
      | "v0P" => Gen.v0PLen | "v1P" => Gen.v1PLen | "v2P" => Gen.v2PLen | "v3P" => Gen.v3PLen
      | "t2K" => Gen.t2KLen | "t2J" => Gen.t2JLen | "t2S" => Gen.t2SLen | "t2H" => Gen.t2HLen | "t2W" => Gen.t2WLen
      | "p1K" => Gen.p1KLen | "p1V" => Gen.p1VLen | "octExpP" => Gen.octExpPLen | "octLogP" => Gen.octLogPLen
      | "octMulP" => Gen.octMulPLen | "octMulLoP" => Gen.octMulLoPLen | "octMulHiP" => Gen.octMulHiPLen
      | "degP" => Gen.degPLen | _ => 1
  | ["sys", k] => some <| showOpt (fun (s : SysParams) => showNats [s.kp, s.j, s.s, s.h, s.w, s.l, s.p, s.p1]) (sysParams (nat k))
  | ["rnd", y, i, m] => some <| showOpt toString (rand (nat y) (nat i) (nat m))
  | ["deg", v, w] => some <| showOpt toString (deg (nat v) (nat w))
  | ["tup", x, w, j, p1] =>
      some <| showOpt (fun (t : Tuple) => showNats [t.d, t.a, t.b, t.d1, t.a1, t.b1]) (tuple (nat x) (nat w) (nat j) (nat p1))
  | ["enci", k, x] =>
      some <| match sysParams (nat k) with
        | none => err
        | some sp => showOpt showList (encIndicesOf sp (nat x))
  | ["gf", "mul", a, b] => some <| toString (gmul (nat a) (nat b))
  | ["gf", "div", a, b] => some <| showOpt toString (gdiv (nat a) (nat b))
  | ["gf", "fma", c, a, b] => some <| toString (gfma (nat c) (nat a) (nat b))
  | ["gf", "alpha", i] => some <| showOpt toString (galpha (nat i))
  | ["gft", "mul", s] => some <| hexList ((List.range 256).map (mulTableEntry (nat s)))
  | ["gft", "low", s] => some <| hexList ((List.range 32).map (lowTableEntry (nat s)))
  | ["gft", "hi", s] => some <| hexList ((List.range 32).map (hiTableEntry (nat s)))
  | ["gfrow", "mul", a] => some <| hexList ((List.range 256).map (gmul (nat a)))
  | ["gfrow", "div", a] => some <| hexList ((List.range 256).map fun b => (gdiv (nat a) b).getD 0)
  | ["gfrow", "fma", c, a] => some <| hexList ((List.range 256).map (gfma (nat c) (nat a)))
  | ["pid", "new", sbn, esi] => some <| showOpt (fun (p : PayloadId) => hexList p.serialize) (PayloadId.new? (nat sbn) (nat esi))
  | ["pid", "de", h] => some <| showOpt (fun (p : PayloadId) => showNats [p.sbn, p.esi]) (PayloadId.deserialize (unhexList h))
  | ["pkt", "ser", sbn, esi, h] => some <| hexList (Packet.serialize ⟨⟨nat sbn, nat esi⟩, unhexList h⟩)
  | ["pkt", "de", h] => some <| showOpt (fun (p : Packet) => s!"{p.pid.sbn} {p.pid.esi} {hexList p.data}") (Packet.deserialize (unhexList h))
  | ["oti", "ser", f, t, z, n, al] => some <| hexList (Oti.serialize ⟨nat f, nat t, nat z, nat n, nat al⟩)
  | ["oti", "de", h] => some <| showOpt showOti (Oti.deserialize (unhexList h))
  | ["oti", "new", f, t, z, n, al] => some <| showOpt showOti (otiNew (nat f) (nat t) (nat z) (nat n) (nat al))
  | ["par", i, j] => some <| showOpt (fun (x : Nat × Nat × Nat × Nat) => showNats [x.1, x.2.1, x.2.2.1, x.2.2.2]) (partition (nat i) (nat j))
  | ["gen", f, p, ws] => some <| showOpt showOti (genParams (nat f) (nat p) (nat ws))
  | _ => none

end Rq.Driver
