import Rq.Model.Codec
import Rq.Model.Solve
/-!
The checked rank oracle: Gauss–Jordan (Solve.lean, unverified search) whose answers are
re-checked by the small functions below before they are returned:
* `solved C`   only if every row of the system evaluates to its right-hand side on C;
* `singular`   only if the candidate kernel vector z is non-zero and every row evaluates to 0 on z.
-/
namespace Rq

/-- Σ_j row[j]·x[j] for a binary row given by its columns -/
def evalBinRow (cols : List Nat) (x : Inter) (t : Nat) : Sym :=
  cols.foldl (fun acc j => xorSym acc (x.getD j (zeroSym t))) (zeroSym t)

def scaleSym (c : Nat) (s : Sym) : Sym := s.map (gmul c)

/-- Σ_j row[j]·x[j] for a dense GF(256) row -/
def evalDenseRow (row : Array Nat) (x : Inter) (t : Nat) : Sym := Id.run do
  let mut acc := zeroSym t
  for j in [0:row.size] do
    let v := row.getD j 0
    if v != 0 then
      acc := xorSym acc (if v == 1 then x.getD j (zeroSym t) else scaleSym v (x.getD j (zeroSym t)))
  return acc

structure System where
  l : Nat
  bin : Array (List Nat)          -- LDPC rows then G_ENC rows
  nLdpc : Nat
  hdpc : Array (Array Nat)        -- empty for the no-HDPC system

/-- all left-hand sides, in the row order LDPC, HDPC, G_ENC -/
def System.apply (a : System) (x : Inter) (t : Nat) : List Sym :=
  let binVals := a.bin.toList.map fun cols => evalBinRow cols x t
  binVals.take a.nLdpc ++ a.hdpc.toList.map (fun r => evalDenseRow r x t) ++ binVals.drop a.nLdpc

def System.denseRows (a : System) : Array ByteArray :=
  let b := a.bin.map (denseOfCols a.l)
  (b.extract 0 a.nLdpc) ++ a.hdpc.map denseOfNats ++ (b.extract a.nLdpc b.size)

def checkSolution (a : System) (c : Inter) (d : List Sym) (t : Nat) : Bool :=
  c.size == a.l && c.all (fun s => s.length == t) && a.apply c t == d

def checkKernel (a : System) (z : Array Nat) : Bool :=
  z.size == a.l && z.any (· != 0) &&
    (a.apply (z.map fun v => [v]) 1).all (fun s => s == [0])

def solveSystem (a : System) (d : List Sym) (t : Nat) : SolveRes :=
  if d.length ≠ a.bin.size + a.hdpc.size then .oracleError else
  match gaussJordan a.l a.denseRows (d.map symToBA).toArray with
  | .solved cb =>
    let c : Inter := cb.map baToSym
    if checkSolution a c d t then .solved c else .oracleError
  | .singular z => if checkKernel a z then .singular else .oracleError

def symLen (d : List Sym) : Nat := (d.head?.map List.length).getD 0

def oracle : Solver where
  full sp isis d :=
    match constraintMatrix sp isis with
    | none => .oracleError
    | some (bin, hd) => solveSystem { l := sp.l, bin, nLdpc := sp.s, hdpc := hd } d (symLen d)
  noHdpc sp isis d :=
    match constraintMatrixNoHdpc sp isis with
    | none => .oracleError
    | some bin => solveSystem { l := sp.l, bin, nLdpc := sp.s, hdpc := #[] } d (symLen d)

end Rq
