import Rq.Model.Kernels
/-!
E4: the abstract matrix of the `BinaryMatrix` trait (`BitMat`: a plain two-dimensional bit array
with the trait's operations and their preconditions) and a code-shaped model of
`DenseBinaryMatrix` (`src/matrix.rs`: u64 words, `bit_position`, masks, three-way `count_ones`,
`swap_columns` from the hint row, in-place `resize` compaction, right-aligned `get_sub_row_as_octets`).
`none` = a panic (assert, slice / index out of bounds).
-/
namespace Rq

/-! ## Spec -/

structure BitMat where
  h : Nat
  w : Nat
  rows : Array (Array Bool)   -- h rows of w bits
deriving Repr, DecidableEq

def BitMat.new (h w : Nat) : BitMat := { h, w, rows := Array.replicate h (Array.replicate w false) }

def BitMat.get (m : BitMat) (r c : Nat) : Bool := (m.rows.getD r #[]).getD c false

def BitMat.set (m : BitMat) (r c : Nat) (v : Bool) : Option BitMat :=
  if r < m.h ∧ c < m.w then some { m with rows := m.rows.setIfInBounds r ((m.rows.getD r #[]).setIfInBounds c v) }
  else none

def BitMat.swapRows (m : BitMat) (i j : Nat) : Option BitMat :=
  if i < m.h ∧ j < m.h then
    some { m with rows := (m.rows.setIfInBounds i (m.rows.getD j #[])).setIfInBounds j (m.rows.getD i #[]) }
  else none

/-- `swap_columns(i, j, start_row_hint)`: contract — rows above the hint have equal values in the
two columns, so swapping all rows is the same as swapping from the hint row on -/
def BitMat.swapCols (m : BitMat) (i j : Nat) : Option BitMat :=
  if i < m.w ∧ j < m.w then
    some { m with rows := m.rows.map fun row => (row.setIfInBounds i (row.getD j false)).setIfInBounds j (row.getD i false) }
  else none

def BitMat.addAssign (m : BitMat) (dest src : Nat) : Option BitMat :=
  if dest < m.h ∧ src < m.h ∧ dest ≠ src then
    let s := m.rows.getD src #[]
    some { m with rows := m.rows.setIfInBounds dest ((m.rows.getD dest #[]).mapIdx fun c b => b != s.getD c false) }
  else none

def BitMat.onesIn (m : BitMat) (r a b : Nat) : List Nat :=
  (List.range (b - a)).filterMap fun k => if m.get r (a + k) then some (a + k) else none

def BitMat.countOnes (m : BitMat) (r a b : Nat) : Nat := (m.onesIn r a b).length

def BitMat.onesInCol (m : BitMat) (c a b : Nat) : List Nat :=
  (List.range (b - a)).filterMap fun k => if m.get (a + k) c then some (a + k) else none

def BitMat.resize (m : BitMat) (h w : Nat) : Option BitMat :=
  if h ≤ m.h ∧ w ≤ m.w then some { h, w, rows := (m.rows.extract 0 h).map fun row => row.extract 0 w }
  else none

/-- `get_sub_row_as_octets(row, start)`: the bits of columns start..w as a `BinVec`
(right-aligned: last column at the top bit of the last word) -/
def BitMat.subRow (m : BitMat) (r start : Nat) : BinVec :=
  let len := m.w - start
  let nw := (len + 63) / 64
  let pad := (64 - len % 64) % 64
  { length := len,
    words := (List.range nw).map fun wi =>
      (List.range 64).foldl (fun acc b =>
        let p := wi * 64 + b
        if p ≥ pad ∧ m.get r (start + (p - pad)) then acc + 2 ^ b else acc) 0 }

/-! ## Dense model -/

structure Dense where
  h : Nat
  w : Nat
  el : Array Nat    -- u64 words
deriving Repr, DecidableEq

def U64 : Nat := 18446744073709551616

def Dense.rww (m : Dense) : Nat := (m.w + 63) / 64
def Dense.bitPos (m : Dense) (r c : Nat) : Nat × Nat := (r * m.rww + c / 64, c % 64)

/-- `new`: note the allocation `height * (width + 63) / 64` (one division for the whole matrix) -/
def Dense.new (h w : Nat) : Dense := { h, w, el := Array.replicate (h * (w + 63) / 64) 0 }

def testBit64 (x b : Nat) : Bool := (x >>> b) % 2 = 1
def setBit64 (x b : Nat) : Nat := if testBit64 x b then x else x + 2 ^ b
def clearBit64 (x b : Nat) : Nat := if testBit64 x b then x - 2 ^ b else x

def Dense.set (m : Dense) (r c : Nat) (v : Bool) : Option Dense :=
  let (wd, b) := m.bitPos r c
  if wd < m.el.size then
    some { m with el := m.el.setIfInBounds wd (if v then setBit64 (m.el.getD wd 0) b else clearBit64 (m.el.getD wd 0) b) }
  else none

def Dense.get (m : Dense) (r c : Nat) : Option Bool :=
  let (wd, b) := m.bitPos r c
  if wd < m.el.size then some (testBit64 (m.el.getD wd 0) b) else none

def popcount (x : Nat) : Nat := (List.range 64).foldl (fun acc b => if testBit64 x b then acc + 1 else acc) 0

/-- mask selecting `bit` and everything above (`select_bit_and_all_left_mask`) -/
def maskFrom (bit : Nat) : Nat := U64 - 2 ^ bit
/-- mask selecting everything below `bit` (`select_all_right_of_mask`) -/
def maskBelow (bit : Nat) : Nat := 2 ^ bit - 1

def Dense.countOnes (m : Dense) (r a b : Nat) : Option Nat :=
  let (sw, sb) := m.bitPos r a
  let (ew, eb) := m.bitPos r b
  if sw = ew then
    if sw < m.el.size then some (popcount ((m.el.getD sw 0 &&& maskFrom sb) &&& maskBelow eb)) else none
  else
    if sw < m.el.size ∧ (ew ≤ sw + 1 ∨ ew - 1 < m.el.size) ∧ (eb = 0 ∨ ew < m.el.size) then
      let first := popcount (m.el.getD sw 0 &&& maskFrom sb)
      let mid := (List.range (ew - (sw + 1))).foldl (fun acc k => acc + popcount (m.el.getD (sw + 1 + k) 0)) 0
      let last := if eb > 0 then popcount (m.el.getD ew 0 &&& maskBelow eb) else 0
      some (first + mid + last)
    else none

/-- `get_row_iter(row, a, b)` as repaired: the iterator walks the bits of the words
first_word .. word of column b−1; reading past that slice panics -/
def Dense.rowIter (m : Dense) (r a b : Nat) : Option (List (Nat × Bool)) :=
  let (fw, fb) := m.bitPos r a
  let endW := if b > a then (m.bitPos r (b - 1)).1 + 1 else fw
  if fw ≤ endW ∧ endW ≤ m.el.size then
    let n := b - a
    (List.range n).mapM fun k =>
      let p := fb + k
      let wi := fw + p / 64
      if wi < endW then some (a + k, testBit64 (m.el.getD wi 0) (p % 64)) else none
  else none

def Dense.swapRows (m : Dense) (i j : Nat) : Option Dense :=
  let ri := i * m.rww
  let rj := j * m.rww
  if ri + m.rww ≤ m.el.size ∧ rj + m.rww ≤ m.el.size then
    some { m with el := (List.range m.rww).foldl (fun el k =>
      let a := el.getD (ri + k) 0
      let b := el.getD (rj + k) 0
      (el.setIfInBounds (ri + k) b).setIfInBounds (rj + k) a) m.el }
  else none

def Dense.swapCols (m : Dense) (i j hint : Nat) : Option Dense :=
  let wi := i / 64
  let bi := i % 64
  let wj := j / 64
  let bj := j % 64
  let rw := m.rww
  (List.range (m.h - hint)).foldlM (fun (m : Dense) k =>
    let row := hint + k
    let pi := row * rw + wi
    let pj := row * rw + wj
    if pi < m.el.size ∧ pj < m.el.size then
      let iSet := testBit64 (m.el.getD pi 0) bi
      let jSet := testBit64 (m.el.getD pj 0) bj
      let el := m.el.setIfInBounds pi (if jSet then setBit64 (m.el.getD pi 0) bi else clearBit64 (m.el.getD pi 0) bi)
      let el := el.setIfInBounds pj (if iSet then setBit64 (el.getD pj 0) bj else clearBit64 (el.getD pj 0) bj)
      some { m with el }
    else none) m

def Dense.addAssign (m : Dense) (dest src : Nat) : Option Dense :=
  let d := dest * m.rww
  let s := src * m.rww
  if dest ≠ src ∧ d + m.rww ≤ m.el.size ∧ s + m.rww ≤ m.el.size then
    some { m with el := (List.range m.rww).foldl (fun el k => el.setIfInBounds (d + k) (el.getD (d + k) 0 ^^^ el.getD (s + k) 0)) m.el }
  else none

def Dense.onesInCol (m : Dense) (c a b : Nat) : Option (List Nat) :=
  ((List.range (b - a)).mapM fun k => (m.get (a + k) c).map fun v => (a + k, v)).map fun l =>
    l.filterMap fun (r, v) => if v then some r else none

/-- `resize`: in-place compaction of the rows, then truncate -/
def Dense.resize (m : Dense) (nh nw : Nat) : Option Dense :=
  if nh ≤ m.h ∧ nw ≤ m.w then
    let old := m.rww
    let m' : Dense := { m with h := nh, w := nw }
    let nrw := m'.rww
    let remove := old - nrw
    let el :=
      if remove > 0 then
        (List.range (nh * nrw)).foldl (fun (st : Array Nat × Nat) dest =>
          let (el, src) := st
          let el := el.setIfInBounds dest (el.getD src 0)
          let src := src + 1
          (el, if (dest + 1) % nrw = 0 then src + remove else src)) (m.el, 0) |>.1
      else m.el
    some { m' with el := el.extract 0 (nh * nrw) }
  else none

/-- `get_sub_row_as_octets` -/
def Dense.subRow (m : Dense) (r start : Nat) : Option BinVec :=
  let len := m.w - start
  let nw := (len + 63) / 64
  let pad := (64 - len % 64) % 64
  ((List.range len).mapM fun k => m.get r (start + k)).map fun bits =>
    { length := len,
      words := (List.range nw).map fun wi =>
        (List.range 64).foldl (fun acc b =>
          let p := wi * 64 + b
          if p ≥ pad ∧ bits.getD (p - pad) false then acc + 2 ^ b else acc) 0 }

/-- abstraction: the bit array a dense matrix stands for -/
def Dense.abs (m : Dense) : BitMat :=
  { h := m.h, w := m.w,
    rows := Array.ofFn (n := m.h) fun r => Array.ofFn (n := m.w) fun c => (m.get r.val c.val).getD false }

end Rq
