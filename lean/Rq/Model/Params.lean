import Rq.Model.Tab
/-!
Model of `src/systematic_constants.rs` (look-ups), `src/rng.rs` (`rand`), `src/base.rs`
(`deg`, `intermediate_tuple`) and `src/constraint_matrix.rs::enc_indices`, with the u32
arithmetic of the code: `none` stands for a panic (assert, unreachable!, or an arithmetic
overflow in a build with overflow checks).
-/
namespace Rq

def U32 : Nat := 4294967296

def maxK : Nat := Gen.maxSourceSymbols

/-- the linear scan shared by all `systematic_constants` getters: first row with K' ≥ k -/
def rowOf (k : Nat) : Option Nat :=
  if k ≤ maxK then (List.range 477).find? (fun i => decide (tget t2KA i ≥ k)) else none

def extK (k : Nat) : Option Nat := (rowOf k).map (tget t2KA)
def sysIndex (k : Nat) : Option Nat := (rowOf k).map (tget t2JA)
def numLdpc (k : Nat) : Option Nat := (rowOf k).map (tget t2SA)
def numHdpc (k : Nat) : Option Nat := (rowOf k).map (tget t2HA)
def numLt (k : Nat) : Option Nat := (rowOf k).map (tget t2WA)
/-- `calculate_p1`: its own table, scanned the same way -/
def calcP1 (k : Nat) : Option Nat :=
  if k ≤ maxK then ((List.range 477).find? (fun i => decide (tget p1KA i ≥ k))).map (tget p1VA) else none
def numInter (k : Nat) : Option Nat :=
  match extK k, numLdpc k, numHdpc k with
  | some a, some b, some c => some (a + b + c)
  | _, _, _ => none
/-- `num_pi_symbols` = L - W on u32: underflow is a panic (checked build) -/
def numPi (k : Nat) : Option Nat :=
  match numInter k, numLt k with
  | some l, some w => if w ≤ l then some (l - w) else none
  | _, _ => none

structure SysParams where
  kp : Nat
  j : Nat
  s : Nat
  h : Nat
  w : Nat
  l : Nat
  p : Nat
  p1 : Nat
deriving Repr, DecidableEq

def sysParams (k : Nat) : Option SysParams :=
  match extK k, sysIndex k, numLdpc k, numHdpc k, numLt k, numInter k, numPi k, calcP1 k with
  | some kp, some j, some s, some h, some w, some l, some p, some p1 =>
      some { kp, j, s, h, w, l, p, p1 }
  | _, _, _, _, _, _, _, _ => none

/-- `rand(y, i, m)` in a build with overflow checks (after the `wrapping_add` repair of x0):
`none` on `m = 0` (assert) or when one of the three shifted additions overflows u32. -/
def rand (y i m : Nat) : Option Nat :=
  if m = 0 then none
  else if (y >>> 8) + i ≥ U32 ∨ (y >>> 16) + i ≥ U32 ∨ (y >>> 24) + i ≥ U32 then none
  else
    let x0 := ((y + i) % U32) % 256
    let x1 := ((y >>> 8) + i) % 256
    let x2 := ((y >>> 16) + i) % 256
    let x3 := ((y >>> 24) + i) % 256
    some ((tget v0A x0 ^^^ tget v1A x1 ^^^ tget v2A x2 ^^^ tget v3A x3) % m)

/-- the code *before* the repair: `y + i` checked -/
def randOld (y i m : Nat) : Option Nat :=
  if y + i ≥ U32 then none else rand y i m

/-- `deg(v, W)`; `none`: `assert!(v < 2^20)` or `W - 2` underflow -/
def deg (v w : Nat) : Option Nat :=
  if v ≥ 1048576 then none
  else if w < 2 then none
  else
    match (List.range 30).find? (fun d => decide (v < tget degA (d + 1))) with
    | some d => some (min (d + 1) (w - 2))
    | none => none

structure Tuple where
  d : Nat
  a : Nat
  b : Nat
  d1 : Nat
  a1 : Nat
  b1 : Nat
deriving Repr, DecidableEq

/-- `intermediate_tuple(X, W, J, P1)`, parametrised by the `rand` in force -/
def tupleWith (rnd : Nat → Nat → Nat → Option Nat) (x w j p1 : Nat) : Option Tuple :=
  let a0 := 53591 + j * 997
  let aa := if a0 % 2 = 0 then a0 + 1 else a0
  let bb := 10267 * (j + 1)
  if aa ≥ U32 ∨ bb ≥ U32 ∨ w = 0 ∨ p1 = 0 then none else
  let y := (bb + x * aa) % U32
  match rnd y 0 1048576 with
  | none => none
  | some v =>
  match deg v w, rnd y 1 (w - 1), rnd y 2 w with
  | some d, some ra, some b =>
    let d1? := if d < 4 then (rnd x 3 2).map (2 + ·) else some 2
    match d1?, rnd x 4 (p1 - 1), rnd x 5 p1 with
    | some d1, some ra1, some b1 => some { d, a := 1 + ra, b, d1, a1 := 1 + ra1, b1 }
    | _, _, _ => none
  | _, _, _ => none

def tuple (x w j p1 : Nat) : Option Tuple := tupleWith rand x w j p1
def tupleOld (x w j p1 : Nat) : Option Tuple := tupleWith randOld x w j p1

/-- `while b1 >= p { b1 = (b1 + a1) % p1 }` with fuel; `none` = fuel exhausted -/
def skipPi (fuel b1 a1 p p1 : Nat) : Option Nat :=
  match fuel with
  | 0 => none
  | fuel + 1 => if b1 ≥ p then skipPi fuel ((b1 + a1) % p1) a1 p p1 else some b1

/-- the `for _ in 1..d` LT walk: indices b, b+a, … (d of them) -/
def ltWalk (d a b w : Nat) : List Nat :=
  match d with
  | 0 => []
  | d + 1 => b :: ltWalk d a ((b + a) % w) w

/-- the PI part: first PI index after skipping, then d1-1 further ones -/
def piWalk (n b1 a1 p p1 w : Nat) : Option (List Nat) :=
  match n with
  | 0 => some []
  | n + 1 =>
    match skipPi (p1 + 1) ((b1 + a1) % p1) a1 p p1 with
    | none => none
    | some b1' => (piWalk n b1' a1 p p1 w).map ((w + b1') :: ·)

/-- `enc_indices(tuple, W, P, P1, f)`: the list of indices `f` is called with, in order.
`none`: one of the asserts fails (or the skip loop does not terminate). -/
def encIndices (t : Tuple) (w p p1 : Nat) : Option (List Nat) :=
  if t.d = 0 ∨ ¬ (1 ≤ t.a ∧ t.a < w) ∨ ¬ (t.b < w) ∨ ¬ (t.d1 = 2 ∨ t.d1 = 3)
      ∨ ¬ (1 ≤ t.a1 ∧ t.a1 < p1) ∨ ¬ (t.b1 < p1) then none
  else
    match skipPi (p1 + 1) t.b1 t.a1 p p1 with
    | none => none
    | some b1 =>
      (piWalk (t.d1 - 1) b1 t.a1 p p1 w).map fun rest => ltWalk t.d t.a t.b w ++ (w + b1) :: rest

/-- indices of encoding symbol with internal symbol id `x` for a block of `k` source symbols -/
def encIndicesOf (sp : SysParams) (x : Nat) : Option (List Nat) :=
  match tuple x sp.w sp.j sp.p1 with
  | none => none
  | some t => encIndices t sp.w sp.p sp.p1

end Rq
