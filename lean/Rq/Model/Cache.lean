/-!
E5: model of the process-wide encoding-plan cache of `src/encoder.rs`
(`get_or_generate_source_block_encoding_plan`): a map K ↦ plan with a FIFO queue of keys and a fixed
capacity, accessed by any number of threads through two critical sections (lookup; insert), with
plan generation in between outside any lock. A plan is abstract (`P`), `gen : Nat → P` is the pure
generator. `Mutex` is modelled as mutual exclusion of the two sections (each is one atomic step).
-/
namespace Rq

structure PlanCache (P : Type) where
  plans : List (Nat × P)     -- the HashMap, as an association list with distinct keys
  order : List Nat           -- the VecDeque, front first
deriving Repr

def PlanCache.empty {P : Type} : PlanCache P := { plans := [], order := [] }

def PlanCache.find? {P : Type} (c : PlanCache P) (k : Nat) : Option P := (c.plans.find? (·.1 == k)).map (·.2)

/-- the insert critical section after a miss: keep an entry published meanwhile, else evict the
oldest key when full, then append -/
def PlanCache.insert {P : Type} (cap : Nat) (c : PlanCache P) (k : Nat) (p : P) : PlanCache P × P :=
  match c.find? k with
  | some q => (c, q)
  | none =>
    let c1 : PlanCache P :=
      if c.plans.length ≥ cap then
        match c.order with
        | [] => c
        | e :: rest => { plans := c.plans.filter (·.1 != e), order := rest }
      else c
    ({ plans := c1.plans ++ [(k, p)], order := c1.order ++ [k] }, p)

/-- where a request (one call of the function by one thread) stands -/
inductive Req (P : Type) where
  | idle
  | wantLookup (k : Nat)          -- before the first critical section
  | generating (k : Nat)          -- missed; generating outside the lock
  | wantInsert (k : Nat) (p : P)  -- generated; before the second critical section
  | done (k : Nat) (p : P)        -- returned p
deriving Repr

structure CacheState (P : Type) where
  cache : PlanCache P
  threads : List (Req P)
deriving Repr

inductive Ev where
  | spawn (tid k : Nat)   -- thread tid (idle or done) starts a request for K = k
  | step (tid : Nat)      -- thread tid performs its next atomic step
deriving Repr, DecidableEq

def setAt {α : Type} (l : List α) (i : Nat) (x : α) : List α := l.set i x

/-- one event of a schedule; events that do not apply (no such thread, nothing to do) change nothing -/
def CacheState.next {P : Type} (gen : Nat → P) (cap : Nat) (s : CacheState P) : Ev → CacheState P
  | .spawn tid k =>
    match s.threads[tid]? with
    | some .idle | some (.done _ _) => { s with threads := setAt s.threads tid (.wantLookup k) }
    | _ => s
  | .step tid =>
    match s.threads[tid]? with
    | some (.wantLookup k) =>
      (match s.cache.find? k with
       | some p => { s with threads := setAt s.threads tid (.done k p) }
       | none => { s with threads := setAt s.threads tid (.generating k) })
    | some (.generating k) => { s with threads := setAt s.threads tid (.wantInsert k (gen k)) }
    | some (.wantInsert k p) =>
      let (c', q) := s.cache.insert cap k p
      { cache := c', threads := setAt s.threads tid (.done k q) }
    | _ => s

def CacheState.init {P : Type} (n : Nat) : CacheState P := { cache := .empty, threads := List.replicate n .idle }

def CacheState.run {P : Type} (gen : Nat → P) (cap : Nat) (s : CacheState P) (evs : List Ev) : CacheState P :=
  evs.foldl (CacheState.next gen cap) s

end Rq
